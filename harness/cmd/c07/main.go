// c07: EVM execution is total, gas-bounded and sandboxed for every program.
//
// Programs (uniform random bytes, opcode-weighted structured programs, adversarial templates)
// are run through vm.NewEVM(...).Call / .Create of the real core/vm on a state.StateDB over a
// memory database with a tracer, on the mainnet configuration in its three instruction-set
// epochs (before HF5, between HF5 and HF7, after HF7), for gas budgets from 0 up on a log scale
// plus +-1 around the cumulative cost of every step.
//
//   - correspondence: the same case is run by the extracted Coq model (coq/Evm/Interp.v); result
//     class, gas left, returned bytes, created address, refund counter, logs, the accounts after
//     the frame and the step-by-step trace (depth, pc, op, gas, cost, memory size, top of stack)
//     are compared;
//   - direct oracle (independent of the model) on EVERY case: no panic, termination within a
//     watchdog, leftover <= gas, memory held vs gas paid by the frame, call depth <= 1024, state
//     root / logs / refund equal before and after every failing frame (top level and nested; a
//     failed creation keeps the creator's nonce increment) and every STATICCALL frame.
package main

import (
	"crypto/sha1"
	"encoding/json"
	"fmt"
	"math/big"
	"os"
	"os/exec"
	"path/filepath"
	"runtime"
	"runtime/pprof"
	"sort"
	"strings"
	"syscall"
	"time"

	"gitlab.com/aquachain/aquachain/aquadb"
	"gitlab.com/aquachain/aquachain/common"
	"gitlab.com/aquachain/aquachain/core"
	"gitlab.com/aquachain/aquachain/core/state"
	"gitlab.com/aquachain/aquachain/core/vm"
	"gitlab.com/aquachain/aquachain/crypto"
	"gitlab.com/aquachain/aquachain/params"
	"gitlab.com/aquachain/aquachain/verifharness/vh"
)

// ---------------------------------------------------------------- cases

type acct struct {
	Addr    string            `json:"addr"`
	Nonce   uint64            `json:"nonce"`
	Balance string            `json:"balance"`
	Code    string            `json:"code"`
	Storage map[string]string `json:"storage,omitempty"`
}

type tcase struct {
	Kind   string `json:"kind"` // call | create
	Height int64  `json:"height"`
	Gas    uint64 `json:"gas"`
	Value  string `json:"value"`
	Caller string `json:"caller"`
	Target string `json:"target"`
	Data   string `json:"data"` // call data (call) / init code (create)
	Accts  []acct `json:"accts"`
	Class  string `json:"class"`

	light bool // lattice case: no nested fingerprints, no second (heap) run
}

const (
	gasLimit   = 8000000
	coinbaseHx = "0xc01bace000000000000000000000000000000000"
	timeV      = 1000
	diffV      = 131072
	gasPriceV  = 1
)

var (
	addrCaller = common.HexToAddress("0xaa00000000000000000000000000000000000001")
	addrMain   = common.HexToAddress("0xbb00000000000000000000000000000000000002")
	addrLib    = common.HexToAddress("0xcc00000000000000000000000000000000000003")
	addrLib2   = common.HexToAddress("0xdd00000000000000000000000000000000000004")
	addrEmpty  = common.HexToAddress("0xee00000000000000000000000000000000000005")
	addrNone   = common.HexToAddress("0xff00000000000000000000000000000000000006")
	golden, _  = new(big.Int).SetString("9e3779b97f4a7c15", 16)
)

func hx(b *big.Int) string       { return "0x" + b.Text(16) }
func hu(u uint64) string         { return fmt.Sprintf("0x%x", u) }
func ha(a common.Address) string { return hx(new(big.Int).SetBytes(a[:])) }
func big0x(s string) *big.Int {
	v, ok := new(big.Int).SetString(strings.TrimPrefix(s, "0x"), 16)
	if !ok {
		panic("bad number " + s)
	}
	return v
}
func addr0x(s string) common.Address { return common.BigToAddress(big0x(s)) }
func hexb(b []byte) string {
	if len(b) == 0 {
		return "-"
	}
	return vh.Hex(b)
}

// ---------------------------------------------------------------- precompile recorder

type precRec struct {
	addr  byte
	inner vm.PrecompiledContract
}

// the oracle table of the current case: (address, input) -> "addr:input:gas:ok|fail:output"
var precTable = map[string]string{}
var precInner = map[byte]vm.PrecompiledContract{}

func (p *precRec) RequiredGas(input []byte) uint64 { return p.inner.RequiredGas(input) }

var precRecording = true

func (p *precRec) Run(input []byte) ([]byte, error) {
	if !precRecording {
		return p.inner.Run(input)
	}
	out, err := p.inner.Run(input)
	ok := "ok"
	if err != nil {
		ok = "fail"
	}
	precTable[fmt.Sprintf("%d/%x", p.addr, input)] = fmt.Sprintf("0x%x:%s:%s:%s:%s", p.addr, hexb(input), hu(p.inner.RequiredGas(input)), ok, hexb(out))
	return out, err
}

func installRecorders() {
	for _, m := range []map[common.Address]vm.PrecompiledContract{vm.PrecompiledContractsHomestead, vm.PrecompiledContractsByzantium} {
		for a, p := range m {
			if _, done := p.(*precRec); done {
				continue
			}
			precInner[a[19]] = p
			m[a] = &precRec{a[19], p}
		}
	}
}

// the oracle must also know the price of inputs the run could not pay for (Run not reached);
// the model does not look at the result in that case.  A later Run overwrites the entry.
func oracleEntry(addr byte, input []byte) {
	p := precInner[addr]
	if p == nil {
		return
	}
	key := fmt.Sprintf("%d/%x", addr, input)
	if _, have := precTable[key]; have {
		return
	}
	precTable[key] = fmt.Sprintf("0x%x:%s:%s:%s:%s", addr, hexb(input), hu(p.RequiredGas(input)), "fail", "-")
}

func precTableString() string {
	if len(precTable) == 0 {
		return "-"
	}
	keys := make([]string, 0, len(precTable))
	for k := range precTable {
		keys = append(keys, k)
	}
	sort.Strings(keys)
	var out []string
	for _, k := range keys {
		out = append(out, precTable[k])
	}
	return strings.Join(out, ";")
}

// ---------------------------------------------------------------- tracer + oracles evaluated along the run

type pending struct {
	depth   int
	op      vm.OpCode
	root    common.Hash
	rootN   common.Hash // root with the creator's nonce incremented (CREATE)
	nlogs   int
	refund  uint64
	pc      uint64
	static  bool
	hasRoot bool
	before  *state.StateDB // copy of the state at a STATICCALL step (for the getter-level comparison)
}

type tracer struct {
	steps        int
	maxDepth     int
	trace        []string
	traceOn      bool
	frameStart   []uint64 // gas at the first step of each open frame, by depth-1
	memViol      string
	peakMem      int
	addrs        map[common.Address]bool
	keys         map[common.Address]map[common.Hash]bool
	pend         []pending
	nestedBudget int
	findings     []finding
	height       int64
	stepGas      []uint64 // gas before each depth-1 step and its cost (for the +-1 budgets)
	stepCost     []uint64
	ops          map[byte]int
	deadline     time.Time
	evm          *vm.EVM
	timedOut     bool
	burn         bool // a SELFDESTRUCT whose beneficiary is the contract itself was executed

	staticEmptyOnly int // static frames after which only the existence of empty accounts differed
}

type finding struct{ sig, what string }

func cmem(words uint64) *big.Int {
	w := new(big.Int).SetUint64(words)
	q := new(big.Int).Mul(w, w)
	q.Div(q, big.NewInt(512))
	return q.Add(q, new(big.Int).Mul(w, big.NewInt(3)))
}

func (t *tracer) CaptureStart(from common.Address, to common.Address, call bool, input []byte, gas uint64, value *big.Int) error {
	return nil
}
func (t *tracer) CaptureEnd(output []byte, gasUsed uint64, d time.Duration, err error) error {
	return nil
}
func (t *tracer) CaptureFault(env *vm.EVM, pc uint64, op vm.OpCode, gas, cost uint64, memory *vm.Memory, stack *vm.Stack, contract *vm.Contract, depth int, err error) error {
	return nil
}

// obsDump renders balance, nonce, code and the known storage slots of every known address (a missing
// account and an empty one look alike)
func obsDump(st *state.StateDB, addrs map[common.Address]bool, keys map[common.Address]map[common.Hash]bool) string {
	list := make([]common.Address, 0, len(addrs))
	for a := range addrs {
		list = append(list, a)
	}
	sort.Slice(list, func(i, j int) bool { return strings.Compare(string(list[i][:]), string(list[j][:])) < 0 })
	var sb strings.Builder
	for _, a := range list {
		fmt.Fprintf(&sb, "%x:%d:%v:%x", a, st.GetNonce(a), st.GetBalance(a), st.GetCode(a))
		ks := make([]common.Hash, 0, len(keys[a]))
		for k := range keys[a] {
			ks = append(ks, k)
		}
		sort.Slice(ks, func(i, j int) bool { return strings.Compare(string(ks[i][:]), string(ks[j][:])) < 0 })
		for _, k := range ks {
			fmt.Fprintf(&sb, ",%x=%x", k, st.GetState(a, k))
		}
		sb.WriteByte(';')
	}
	return sb.String()
}

func stateFingerprint(st *state.StateDB) (common.Hash, int, uint64) {
	return st.Copy().IntermediateRoot(false), len(st.Logs()), st.GetRefund()
}

func (t *tracer) CaptureState(env *vm.EVM, pc uint64, op vm.OpCode, gas, cost uint64, memory *vm.Memory, stack *vm.Stack, contract *vm.Contract, depth int, err error) error {
	if err != nil {
		return nil // the deferred call for a step that failed before it was logged
	}
	t.steps++
	if t.steps&1023 == 0 && time.Now().After(t.deadline) {
		t.timedOut = true
		env.Cancel()
	}
	t.ops[byte(op)]++
	if depth > t.maxDepth {
		t.maxDepth = depth
	}
	st := env.StateDB.(*state.StateDB)
	data := stack.Data()
	// ---- frames: detect entry / exit by depth
	for len(t.frameStart) > depth {
		t.frameStart = t.frameStart[:len(t.frameStart)-1]
	}
	for len(t.frameStart) < depth {
		t.frameStart = append(t.frameStart, gas)
	}
	// ---- resolve pending call/create observations of this depth: the child is back
	for len(t.pend) > 0 && t.pend[len(t.pend)-1].depth >= depth {
		p := t.pend[len(t.pend)-1]
		t.pend = t.pend[:len(t.pend)-1]
		if p.depth == depth && p.op == vm.CREATE && len(data) > 0 && data[len(data)-1].Sign() != 0 {
			t.addrs[common.BigToAddress(data[len(data)-1])] = true // the new contract
		}
		if p.depth != depth || !p.hasRoot || len(data) == 0 {
			continue
		}
		flag := data[len(data)-1].Sign() != 0
		root, nlogs, refund := stateFingerprint(st)
		same := root == p.root && nlogs == p.nlogs && refund == p.refund
		sameN := root == p.rootN && nlogs == p.nlogs && refund == p.refund
		// a static frame: what the property speaks of — balance, nonce, code, storage of every address, and the
		// logs (an empty account coming into existence through a value-less CALL to a precompile is not among
		// them, and shows in the root): compared through the getters over every address / slot seen so far
		if p.static && !same && p.before != nil && nlogs == p.nlogs && refund == p.refund && obsDump(p.before, t.addrs, t.keys) == obsDump(st, t.addrs, t.keys) {
			t.staticEmptyOnly++
		} else if p.static && !same {
			// the recognised class: STATICCALL is valid (HF5 installs the Spring set) but the Byzantium rules,
			// which is what enforceRestrictions tests, are not yet on.  Anything else embeds the input.
			sig := "static-frame-changed-state"
			h := big.NewInt(t.height)
			if params.MainnetChainConfig.IsHF(5, h) && !params.MainnetChainConfig.IsByzantium(h) {
				sig = "staticcall-not-readonly-between-hf5-and-hf7"
			}
			t.findings = append(t.findings, finding{sig, fmt.Sprintf("STATICCALL at pc %d depth %d (height %d): state root/logs/refund differ after the static frame (root %x -> %x, logs %d -> %d, refund %d -> %d)", p.pc, p.depth, t.height, p.root[:4], root[:4], p.nlogs, nlogs, p.refund, refund)})
		}
		if !flag && !p.static {
			if p.op == vm.CREATE {
				if !same && !sameN {
					t.findings = append(t.findings, finding{"failed-create-frame-not-reverted", fmt.Sprintf("CREATE at pc %d depth %d pushed 0 but the state is neither the one before nor that with the creator's nonce incremented", p.pc, p.depth)})
				}
			} else if !same {
				t.findings = append(t.findings, finding{"failed-frame-not-reverted", fmt.Sprintf("%v at pc %d depth %d pushed 0 but state root/logs/refund differ (logs %d -> %d, refund %d -> %d)", p.op, p.pc, p.depth, p.nlogs, nlogs, p.refund, refund)})
			}
		}
	}
	// ---- memory held vs gas paid by this frame (memory is already resized; cost not yet deducted in [gas])
	if memory.Len() > t.peakMem {
		t.peakMem = memory.Len()
	}
	if t.memViol == "" && memory.Len() > 0 {
		start := t.frameStart[depth-1]
		if gas > start || cost > gas {
			t.memViol = fmt.Sprintf("gas accounting: frame start %d, gas %d, cost %d at pc %d", start, gas, cost, pc)
		} else {
			spent := new(big.Int).SetUint64(start - (gas - cost))
			if cmem(uint64(memory.Len()/32)).Cmp(spent) > 0 || memory.Len()%32 != 0 {
				t.memViol = fmt.Sprintf("memory %d bytes at pc %d depth %d but the frame has only paid %v gas", memory.Len(), pc, depth, spent)
			}
		}
	}
	// ---- addresses and storage keys the run touches (for the account dump)
	t.addrs[contract.Address()] = true
	n := len(data)
	switch op {
	case vm.SSTORE, vm.SLOAD:
		if n >= 1 {
			m := t.keys[contract.Address()]
			if m == nil {
				m = map[common.Hash]bool{}
				t.keys[contract.Address()] = m
			}
			m[common.BigToHash(data[n-1])] = true
		}
	case vm.SELFDESTRUCT, vm.BALANCE, vm.EXTCODESIZE:
		if n >= 1 {
			t.addrs[common.BigToAddress(data[n-1])] = true
			if op == vm.SELFDESTRUCT && common.BigToAddress(data[n-1]) == contract.Address() {
				t.burn = true
			}
		}
	case vm.CALL, vm.CALLCODE, vm.DELEGATECALL, vm.STATICCALL:
		if n >= 2 {
			to := common.BigToAddress(data[n-2])
			t.addrs[to] = true
			if to[19] >= 1 && to[19] <= 9 && new(big.Int).SetBytes(to[:19]).Sign() == 0 {
				// make sure the oracle knows the price of this input even if the call cannot pay for it
				io, is := 2, 3
				if op == vm.CALL || op == vm.CALLCODE {
					io, is = 3, 4
				}
				if n > is {
					off, size := data[n-1-io], data[n-1-is]
					if size.IsUint64() && off.IsUint64() && size.Uint64() > 0 && off.Uint64()+size.Uint64() <= uint64(memory.Len()) {
						oracleEntry(to[19], memory.Data()[off.Uint64():off.Uint64()+size.Uint64()])
					} else if size.Sign() == 0 {
						oracleEntry(to[19], nil)
					}
				}
			}
		}
	}
	switch op {
	case vm.CALL, vm.CALLCODE, vm.DELEGATECALL, vm.STATICCALL, vm.CREATE:
		p := pending{depth: depth, op: op, pc: pc, static: op == vm.STATICCALL}
		if t.nestedBudget > 0 {
			t.nestedBudget--
			p.root, p.nlogs, p.refund = stateFingerprint(st)
			if op == vm.STATICCALL {
				p.before = st.Copy()
			}
			if op == vm.CREATE {
				c := st.Copy()
				c.SetNonce(contract.Address(), c.GetNonce(contract.Address())+1)
				p.rootN = c.IntermediateRoot(false)
			}
			p.hasRoot = true
		}
		t.pend = append(t.pend, p)
	}
	if depth == 1 && len(t.stepGas) < 4096 {
		t.stepGas = append(t.stepGas, gas)
		t.stepCost = append(t.stepCost, cost)
	}
	if t.traceOn {
		if t.steps > 1500 {
			t.traceOn = false
			t.trace = nil
		} else {
			var sb strings.Builder
			fmt.Fprintf(&sb, "0x%x:0x%x:0x%x:0x%x:0x%x:0x%x:", depth, pc, byte(op), gas, cost, memory.Len())
			for i := 0; i < 3 && i < n; i++ {
				if i > 0 {
					sb.WriteByte(',')
				}
				sb.WriteString(hx(data[n-1-i]))
			}
			t.trace = append(t.trace, sb.String())
		}
	}
	return nil
}

// ---------------------------------------------------------------- running one case on the implementation

type runout struct {
	res      string // ok | revert | err:<class> | panic: ...
	left     uint64
	ret      []byte
	addr     common.Address
	refund   uint64
	logs     string
	world    string
	trace    string
	tr       *tracer
	prec     string
	panicked bool
	timedOut bool

	sumBefore, sumAfter *big.Int
	ripemdQuirk         bool
}

func errClass(err error) string {
	if err == nil {
		return "ok"
	}
	s := err.Error()
	switch {
	case err == vm.ErrOutOfGas:
		return "err:oog"
	case err == vm.ErrCodeStoreOutOfGas:
		return "err:codestore-oog"
	case err == vm.ErrDepth:
		return "err:depth"
	case err == vm.ErrInsufficientBalance:
		return "err:insufficient-balance"
	case err == vm.ErrContractAddressCollision:
		return "err:collision"
	case s == "evm: execution reverted":
		return "revert"
	case s == "evm: write protection":
		return "err:write-protection"
	case s == "evm: return data out of bounds":
		return "err:returndata-oob"
	case s == "evm: max code size exceeded":
		return "err:max-code-size"
	case s == "gas uint64 overflow":
		return "err:gas-uint-overflow"
	case strings.HasPrefix(s, "invalid opcode"):
		return "err:invalid-opcode"
	case strings.HasPrefix(s, "invalid jump destination"):
		return "err:invalid-jump"
	case strings.HasPrefix(s, "stack underflow"):
		return "err:stack-underflow"
	case strings.HasPrefix(s, "stack limit reached"):
		return "err:stack-limit"
	}
	return "err:precompile"
}

func buildState(k *tcase) *state.StateDB {
	db := state.NewDatabase(aquadb.NewMemDatabase())
	st, err := state.New(common.Hash{}, db)
	if err != nil {
		panic(err)
	}
	for _, a := range k.Accts {
		ad := addr0x(a.Addr)
		st.CreateAccount(ad)
		st.SetNonce(ad, a.Nonce)
		st.SetBalance(ad, big0x(a.Balance))
		if a.Code != "" && a.Code != "-" {
			st.SetCode(ad, vh.UnHex(a.Code))
		}
		for sk, sv := range a.Storage {
			st.SetState(ad, common.BigToHash(big0x(sk)), common.BigToHash(big0x(sv)))
		}
	}
	root, err := st.Commit(false)
	if err != nil {
		panic(err)
	}
	st2, err := state.New(root, db)
	if err != nil {
		panic(err)
	}
	return st2
}

func getHash(n uint64) common.Hash {
	v := new(big.Int).SetUint64(n)
	v.Add(v, big.NewInt(1))
	v.Mul(v, golden)
	return common.BigToHash(v)
}

func dumpWorld(st *state.StateDB, addrs map[common.Address]bool, keys map[common.Address]map[common.Hash]bool) string {
	var list []common.Address
	for a := range addrs {
		if st.Exist(a) {
			list = append(list, a)
		}
	}
	sort.Slice(list, func(i, j int) bool {
		return new(big.Int).SetBytes(list[i][:]).Cmp(new(big.Int).SetBytes(list[j][:])) < 0
	})
	var out []string
	for _, a := range list {
		var ks []common.Hash
		for k := range keys[a] {
			if (st.GetState(a, k) != common.Hash{}) {
				ks = append(ks, k)
			}
		}
		sort.Slice(ks, func(i, j int) bool { return ks[i].Big().Cmp(ks[j].Big()) < 0 })
		var kv []string
		for _, k := range ks {
			kv = append(kv, hx(k.Big())+"="+hx(st.GetState(a, k).Big()))
		}
		su := "0"
		if st.HasSuicided(a) {
			su = "1"
		}
		out = append(out, strings.Join([]string{ha(a), hu(st.GetNonce(a)), hx(st.GetBalance(a)), vh.Hex(st.GetCode(a)), strings.Join(kv, ","), su}, ":"))
	}
	if len(out) == 0 {
		return "-"
	}
	return strings.Join(out, ";")
}

func dumpLogs(st *state.StateDB) string {
	var out []string
	for _, l := range st.Logs() {
		var ts []string
		for _, t := range l.Topics {
			ts = append(ts, hx(t.Big()))
		}
		out = append(out, ha(l.Address)+":"+strings.Join(ts, ",")+":"+vh.Hex(l.Data))
	}
	if len(out) == 0 {
		return "-"
	}
	return strings.Join(out, ";")
}

// extra addresses / keys the model reports (so that the dump covers them)
func addFromModelWorld(s string, addrs map[common.Address]bool, keys map[common.Address]map[common.Hash]bool) {
	if s == "-" || s == "" {
		return
	}
	for _, a := range strings.Split(s, ";") {
		f := strings.Split(a, ":")
		if len(f) != 6 {
			continue
		}
		func() {
			defer func() { recover() }()
			ad := addr0x(f[0])
			addrs[ad] = true
			if f[4] != "" {
				for _, kv := range strings.Split(f[4], ",") {
					k := strings.SplitN(kv, "=", 2)[0]
					if keys[ad] == nil {
						keys[ad] = map[common.Hash]bool{}
					}
					keys[ad][common.BigToHash(big0x(k))] = true
				}
			}
		}()
	}
}

type runner struct {
	c *vh.Ctx
}

// run executes the case; the returned state is kept for the dump (which needs the model's address list)
func runCase(k *tcase, traceOn bool, nestedBudget int, watchdog time.Duration) (r runout, st *state.StateDB) {
	st = buildState(k)
	t := &tracer{traceOn: traceOn, addrs: map[common.Address]bool{}, keys: map[common.Address]map[common.Hash]bool{}, nestedBudget: nestedBudget,
		height: k.Height, ops: map[byte]int{}, deadline: time.Now().Add(watchdog)}
	for _, a := range k.Accts {
		ad := addr0x(a.Addr)
		t.addrs[ad] = true
		for sk := range a.Storage {
			if t.keys[ad] == nil {
				t.keys[ad] = map[common.Hash]bool{}
			}
			t.keys[ad][common.BigToHash(big0x(sk))] = true
		}
	}
	caller := addr0x(k.Caller)
	t.addrs[caller] = true
	if k.Kind == "call" {
		t.addrs[addr0x(k.Target)] = true
	}
	ctx := vm.Context{CanTransfer: core.CanTransfer, Transfer: core.Transfer, GetHash: getHash,
		Origin: caller, GasPrice: big.NewInt(gasPriceV), Coinbase: common.HexToAddress(coinbaseHx), GasLimit: gasLimit,
		BlockNumber: big.NewInt(k.Height), Time: big.NewInt(timeV), Difficulty: big.NewInt(diffV)}
	for key := range precTable {
		delete(precTable, key)
	}
	rootBefore, _, _ := stateFingerprint(st)
	// the root as the end of a transaction computes it under EIP158 (touched empty accounts are deleted)
	eip158 := params.MainnetChainConfig.IsEIP158(big.NewInt(k.Height))
	var delBefore common.Hash
	if eip158 && k.Kind == "call" {
		delBefore = st.Copy().IntermediateRoot(true)
	}
	var rootNonce common.Hash
	if k.Kind == "create" {
		c := st.Copy()
		c.SetNonce(caller, c.GetNonce(caller)+1)
		rootNonce = c.IntermediateRoot(false)
	}
	evm := vm.NewEVM(ctx, st, params.MainnetChainConfig, vm.Config{Debug: true, Tracer: t})
	t.evm = evm
	value := big0x(k.Value)
	data := []byte{}
	if k.Data != "-" && k.Data != "" {
		data = vh.UnHex(k.Data)
	}
	var err error
	panicked, pv := vh.CatchPanic(func() {
		if k.Kind == "call" {
			if k.Target[0:2] == "0x" {
				ta := addr0x(k.Target)
				if ta[19] >= 1 && ta[19] <= 9 && new(big.Int).SetBytes(ta[:19]).Sign() == 0 {
					oracleEntry(ta[19], data)
				}
			}
			r.ret, r.left, err = evm.Call(vm.AccountRef(caller), addr0x(k.Target), data, k.Gas, value)
		} else {
			r.ret, r.addr, r.left, err = evm.Create(vm.AccountRef(caller), data, k.Gas, value)
		}
	})
	r.tr = t
	r.timedOut = t.timedOut
	if panicked {
		r.panicked = true
		r.res = fmt.Sprintf("panic: %v", pv)
		return r, st
	}
	r.res = errClass(err)
	// conservation: the balances of every address the run could have paid (pre-state, caller, callees,
	// beneficiaries, created contracts)
	r.sumBefore, r.sumAfter = new(big.Int), new(big.Int)
	for _, a := range k.Accts {
		r.sumBefore.Add(r.sumBefore, big0x(a.Balance))
	}
	if k.Kind == "create" {
		t.addrs[r.addr] = true
	}
	for a := range t.addrs {
		r.sumAfter.Add(r.sumAfter, st.GetBalance(a))
	}
	r.refund = st.GetRefund()
	r.logs = dumpLogs(st)
	r.prec = precTableString()
	if traceOn && t.traceOn {
		r.trace = "-"
		if len(t.trace) > 0 {
			r.trace = strings.Join(t.trace, ";")
		}
	} else {
		r.trace = "off"
	}
	// ---- top-level failing frame: the world is what it was (plus the creator's nonce for Create)
	if err != nil && !t.timedOut {
		rootAfter, nlogs, refund := stateFingerprint(st)
		okState := rootAfter == rootBefore
		if k.Kind == "create" && err != vm.ErrDepth && err != vm.ErrInsufficientBalance {
			okState = rootAfter == rootNonce
		}
		if !okState || nlogs != 0 || refund != 0 {
			t.findings = append(t.findings, finding{"failed-top-frame-not-reverted", fmt.Sprintf("top-level %s failed with %q but state root/logs/refund changed (logs %d refund %d)", k.Kind, r.res, nlogs, refund)})
		} else if eip158 && k.Kind == "call" {
			// the journal undoes a touch (touchChange.undo) for every address but 0x03 (ripemd), which stays in
			// the dirty set on purpose (the mainnet incident the upstream code replays): after a FAILED frame that
			// touched an empty account 0x03 the end-of-transaction root differs although every getter agrees.
			// That is core/state behaviour (C09's known finding); here it is only recorded — any other address
			// whose touch survives a failed frame is a violation.
			if delAfter := st.Copy().IntermediateRoot(true); delAfter != delBefore {
				// core/state keeps an object in the dirty set when its changes are reverted (and the journal does
				// not undo a touch of 0x03 at all): an EXISTING EMPTY account that the failed frame touched or paid is
				// deleted at the end of the transaction (C09's finding).  Accepted here only if that explains the root
				// exactly: some set of touched, pre-existing, empty accounts removed from the pre-state.
				var cand []common.Address
				for _, a := range k.Accts {
					ad := addr0x(a.Addr)
					if a.Nonce == 0 && big0x(a.Balance).Sign() == 0 && (a.Code == "" || a.Code == "-") && t.addrs[ad] {
						cand = append(cand, ad)
					}
				}
				explained := false
				if len(cand) <= 6 {
					for mask := 1; mask < 1<<uint(len(cand)) && !explained; mask++ {
						c := buildState(k)
						for i, ad := range cand {
							if mask&(1<<uint(i)) != 0 {
								c.Suicide(ad)
							}
						}
						explained = c.IntermediateRoot(true) == delAfter
					}
				}
				if explained {
					r.ripemdQuirk = true
				} else {
					t.findings = append(t.findings, finding{"failed-frame-eip158-root-unexplained", fmt.Sprintf("top-level call failed with %q, every getter is as before, but the EIP158 end-of-transaction root changed and no set of touched empty accounts explains it", r.res)})
				}
			}
		}
	}
	return r, st
}

// ---------------------------------------------------------------- program construction

type asm struct{ b []byte }

func (a *asm) op(ops ...byte) *asm { a.b = append(a.b, ops...); return a }
func (a *asm) push(v *big.Int) *asm {
	bs := v.Bytes()
	if len(bs) == 0 {
		bs = []byte{0}
	}
	if len(bs) > 32 {
		bs = bs[len(bs)-32:]
	}
	a.b = append(a.b, byte(0x5f+len(bs)))
	a.b = append(a.b, bs...)
	return a
}
func (a *asm) pushU(u uint64) *asm         { return a.push(new(big.Int).SetUint64(u)) }
func (a *asm) pushA(x common.Address) *asm { return a.push(new(big.Int).SetBytes(x[:])) }
func (a *asm) bytes() []byte               { return a.b }

func pow2(n uint) *big.Int { return new(big.Int).Lsh(big.NewInt(1), n) }
func addk(a *big.Int, k int64) *big.Int {
	return new(big.Int).Add(a, big.NewInt(k))
}

// offsets / lengths that sit on the conversion and overflow boundaries of the code
var sizeLattice = []*big.Int{
	big.NewInt(0), big.NewInt(1), big.NewInt(31), big.NewInt(32), big.NewInt(33), big.NewInt(64), big.NewInt(1000), big.NewInt(24576), big.NewInt(24577),
	big.NewInt(0xffff), addk(pow2(32), -1), pow2(32), big.NewInt(0xffffffffe0 - 32), big.NewInt(0xffffffffe0 - 1), big.NewInt(0xffffffffe0), big.NewInt(0xffffffffe0 + 1), big.NewInt(0xffffffffe0 + 32),
	addk(pow2(63), -1), pow2(63), addk(pow2(63), 1), addk(pow2(64), -32), addk(pow2(64), -1), pow2(64), addk(pow2(64), 1), addk(pow2(255), 0), addk(pow2(256), -32), addk(pow2(256), -1),
}

func pickSize(r *vh.RNG) *big.Int {
	if r.Chance(55) {
		return big.NewInt(int64(r.Intn(200)))
	}
	return sizeLattice[r.Intn(len(sizeLattice))]
}

func randWord(r *vh.RNG) *big.Int {
	switch r.Intn(7) {
	case 0:
		return big.NewInt(int64(r.Intn(300)))
	case 1:
		return sizeLattice[r.Intn(len(sizeLattice))]
	case 2:
		return new(big.Int).SetBytes(addrPool[r.Intn(len(addrPool))][:])
	case 3:
		return big.NewInt(int64(1 + r.Intn(9))) // precompile addresses
	case 4:
		b := new(big.Int).SetBytes(r.Bytes(32))
		return b.Rsh(b, uint(r.Intn(256)))
	default:
		return new(big.Int).SetBytes(r.Bytes(32))
	}
}

var addrPool = []common.Address{addrCaller, addrMain, addrLib, addrLib2, addrEmpty, addrNone}

// arity of the instructions the structured generator emits (pops)
var opPops = map[byte]int{0x00: 0, 0x01: 2, 0x02: 2, 0x03: 2, 0x04: 2, 0x05: 2, 0x06: 2, 0x07: 2, 0x08: 3, 0x09: 3, 0x0a: 2, 0x0b: 2,
	0x10: 2, 0x11: 2, 0x12: 2, 0x13: 2, 0x14: 2, 0x15: 1, 0x16: 2, 0x17: 2, 0x18: 2, 0x19: 1, 0x1a: 2, 0x1b: 2, 0x1c: 2, 0x1d: 2, 0x20: 2,
	0x30: 0, 0x31: 1, 0x32: 0, 0x33: 0, 0x34: 0, 0x35: 1, 0x36: 0, 0x37: 3, 0x38: 0, 0x39: 3, 0x3a: 0, 0x3b: 1, 0x3c: 4, 0x3d: 0, 0x3e: 3,
	0x40: 1, 0x41: 0, 0x42: 0, 0x43: 0, 0x44: 0, 0x45: 0, 0x50: 1, 0x51: 1, 0x52: 2, 0x53: 2, 0x54: 1, 0x55: 2, 0x56: 1, 0x57: 2, 0x58: 0, 0x59: 0, 0x5a: 0, 0x5b: 0,
	0xa0: 2, 0xa1: 3, 0xa2: 4, 0xa3: 5, 0xa4: 6, 0xf0: 3, 0xf1: 7, 0xf2: 7, 0xf3: 2, 0xf4: 6, 0xfa: 6, 0xfd: 2, 0xff: 1}

var weighted []byte

func init() {
	add := func(w int, ops ...byte) {
		for _, o := range ops {
			for i := 0; i < w; i++ {
				weighted = append(weighted, o)
			}
		}
	}
	add(1, 0x01, 0x02, 0x03, 0x04, 0x05, 0x06, 0x07, 0x08, 0x09, 0x0a, 0x0b, 0x10, 0x11, 0x12, 0x13, 0x14, 0x15, 0x16, 0x17, 0x18, 0x19, 0x1a, 0x1b, 0x1c, 0x1d)
	add(3, 0x20, 0x37, 0x39, 0x3c, 0x3e, 0x51, 0x52, 0x53, 0x54, 0x55, 0xa0, 0xa1, 0xa2, 0xa3, 0xa4)
	add(2, 0x30, 0x31, 0x32, 0x33, 0x34, 0x35, 0x36, 0x38, 0x3a, 0x3b, 0x3d, 0x40, 0x41, 0x42, 0x43, 0x44, 0x45, 0x50, 0x58, 0x59, 0x5a, 0x5b)
	add(5, 0xf0, 0xf1, 0xf2, 0xf4, 0xfa)
	add(1, 0xf3, 0xfd, 0xff, 0x00, 0x56, 0x57)
}

// one instruction with its operands pushed: arguments are chosen by role so that calls, copies
// and creations mostly get through the gas check
func emitOp(a *asm, r *vh.RNG, o byte) {
	small := func() *big.Int { return big.NewInt(int64(r.Intn(96))) }
	sz := func() *big.Int { return pickSize(r) }
	adr := func() *big.Int {
		if r.Chance(25) {
			return big.NewInt(int64(1 + r.Intn(9)))
		}
		return new(big.Int).SetBytes(addrPool[r.Intn(len(addrPool))][:])
	}
	val := func() *big.Int {
		if r.Chance(60) {
			return big.NewInt(0)
		}
		return big.NewInt(int64(r.Intn(5)))
	}
	gasArg := func() *big.Int {
		switch r.Intn(4) {
		case 0:
			return big.NewInt(int64(r.Intn(5000)))
		case 1:
			return addk(pow2(256), -1)
		case 2:
			return big.NewInt(int64(r.Intn(100000)))
		}
		return randWord(r)
	}
	switch o {
	case 0xf1, 0xf2: // gas addr value inOff inSize retOff retSize
		a.push(sz()).push(small()).push(sz()).push(small()).push(val()).push(adr()).push(gasArg()).op(o)
	case 0xf4, 0xfa:
		a.push(sz()).push(small()).push(sz()).push(small()).push(adr()).push(gasArg()).op(o)
	case 0xf0: // value offset size
		a.push(sz()).push(small()).push(val()).op(o)
	case 0x37, 0x39, 0x3e: // memOff dataOff len
		a.push(sz()).push(pickSize(r)).push(pickSize(r)).op(o)
	case 0x3c:
		a.push(sz()).push(pickSize(r)).push(pickSize(r)).push(adr()).op(o)
	case 0x20, 0xf3, 0xfd, 0xa0:
		a.push(sz()).push(pickSize(r)).op(o)
	case 0xa1, 0xa2, 0xa3, 0xa4:
		for i := 0; i < int(o-0xa0); i++ {
			a.push(randWord(r))
		}
		a.push(sz()).push(pickSize(r)).op(o)
	case 0x51:
		a.push(pickSize(r)).op(o)
	case 0x52, 0x53:
		a.push(randWord(r)).push(pickSize(r)).op(o)
	case 0x54:
		a.push(big.NewInt(int64(r.Intn(4)))).op(o)
	case 0x55:
		v := big.NewInt(int64(r.Intn(3)))
		a.push(v).push(big.NewInt(int64(r.Intn(4)))).op(o)
	case 0x31, 0x3b, 0xff:
		a.push(adr()).op(o)
	case 0x40:
		a.push(big.NewInt(int64(r.Intn(40000)))).op(o)
	default:
		for i := 0; i < opPops[o]; i++ {
			a.push(randWord(r))
		}
		a.op(o)
	}
}

func structuredProgram(r *vh.RNG, n int) []byte {
	a := &asm{}
	for i := 0; i < n; i++ {
		o := weighted[r.Intn(len(weighted))]
		if (o == 0xf3 || o == 0xfd || o == 0xff || o == 0x00 || o == 0x56) && i < n-1 && r.Chance(80) {
			continue
		}
		emitOp(a, r, o)
		if r.Chance(30) && o != 0x5b {
			// drop what the instruction pushed so that the stack stays shallow
			a.op(0x50)
		}
	}
	return a.bytes()
}

// ---------------------------------------------------------------- pre-states

func bigBal() string { return "0xde0b6b3a7640000" }

func baseAccts(mainCode, libCode, lib2Code []byte) []acct {
	return []acct{
		{Addr: ha(addrCaller), Nonce: 5, Balance: bigBal(), Code: "-"},
		{Addr: ha(addrMain), Nonce: 1, Balance: "0x3e8", Code: hexb(mainCode), Storage: map[string]string{"0x1": "0x7", "0x2": "0x9"}},
		{Addr: ha(addrLib), Nonce: 1, Balance: "0x0", Code: hexb(libCode), Storage: map[string]string{"0x1": "0x5"}},
		{Addr: ha(addrLib2), Nonce: 0, Balance: "0x64", Code: hexb(lib2Code)},
		{Addr: ha(addrEmpty), Nonce: 0, Balance: "0x0", Code: "-"},
	}
}

// small library contracts the main program may call
func libWriter() []byte { // SSTORE(1, 0x2a); LOG1; return 32 bytes
	a := &asm{}
	a.pushU(0x2a).pushU(1).op(0x55).pushU(0xbeef).pushU(4).pushU(0).op(0xa1).pushU(0x2a).pushU(0).op(0x52).pushU(32).pushU(0).op(0xf3)
	return a.bytes()
}
func libReverter() []byte { // SSTORE(3,1); mstore; REVERT 32 bytes (invalid before HF5 -> plain failure)
	a := &asm{}
	a.pushU(1).pushU(3).op(0x55).pushU(0xdead).pushU(0).op(0x52).pushU(32).pushU(0).op(0xfd)
	return a.bytes()
}
func libLooper() []byte { // JUMPDEST PUSH1 0 JUMP
	return []byte{0x5b, 0x60, 0x00, 0x56}
}
func libSuicide(to common.Address) []byte {
	a := &asm{}
	a.pushA(to).op(0xff)
	return a.bytes()
}
func libValueCall(to common.Address) []byte { // CALL(gas, to, value 1, ...) then return flag
	a := &asm{}
	a.pushU(0).pushU(0).pushU(0).pushU(0).pushU(1).pushA(to).op(0x5a).op(0xf1).pushU(0).op(0x52).pushU(32).pushU(0).op(0xf3)
	return a.bytes()
}
func libCreate() []byte { // CREATE(0, 0, 0) then return the address
	a := &asm{}
	a.pushU(0).pushU(0).pushU(0).op(0xf0).pushU(0).op(0x52).pushU(32).pushU(0).op(0xf3)
	return a.bytes()
}

// call kind `op` to `to` with all gas, input = call data copied to memory, then return (flag, returndata[0:64])
func callAndReport(op byte, to *big.Int, value int64, height int64) []byte {
	a := &asm{}
	a.op(0x36).pushU(0).pushU(0).op(0x37) // CALLDATACOPY(0,0,calldatasize)
	a.pushU(64).pushU(128)                // retSize retOffset
	a.op(0x36).pushU(0)                   // inSize inOffset
	if op == 0xf1 || op == 0xf2 {
		a.pushU(uint64(value))
	}
	a.push(to).op(0x5a).op(op)
	a.pushU(96).op(0x52) // flag at 96
	a.pushU(96).pushU(96).op(0xf3)
	return a.bytes()
}

// ---------------------------------------------------------------- templates

func (g *gen) templates() []*tcase {
	var out []*tcase
	add := func(class string, kind string, code []byte, data []byte, accts []acct, value string, gases []uint64) {
		for _, h := range g.heights() {
			for _, gas := range gases {
				k := &tcase{Kind: kind, Height: h, Gas: gas, Value: value, Caller: ha(addrCaller), Target: ha(addrMain), Data: hexb(data), Accts: accts, Class: class}
				if kind == "create" {
					k.Data = hexb(code)
					k.Target = "0x0"
				}
				out = append(out, k)
			}
		}
	}
	r := g.r
	// truncated PUSH at the end of the code
	for _, n := range []int{1, 2, 16, 31, 32} {
		for _, have := range []int{0, 1, n - 1} {
			if have < 0 || have >= n+1 {
				continue
			}
			code := append([]byte{0x60, 0x01, byte(0x5f + n)}, r.Bytes(have)...)
			add("tmpl/truncated-push", "call", code, nil, baseAccts(code, libWriter(), libReverter()), "0x0", []uint64{50000})
		}
	}
	// jump into push data / onto a real JUMPDEST / beyond the code / huge destinations
	for _, dest := range []*big.Int{big.NewInt(4), big.NewInt(6), big.NewInt(7), big.NewInt(200), addk(pow2(63), 6), addk(pow2(64), 6), addk(pow2(256), -1)} {
		a := &asm{}
		a.push(dest).op(0x56)
		for len(a.b) < 3 {
			a.op(0x5b)
		}
		code := append(a.b[:0:0], a.b...)
		// layout: PUSHn dest JUMP | PUSH1 0x5b | JUMPDEST | PUSH1 1 PUSH1 0 SSTORE STOP
		code = append(code, 0x60, 0x5b, 0x5b, 0x60, 0x01, 0x60, 0x00, 0x55, 0x00)
		add("tmpl/jump", "call", code, nil, baseAccts(code, libWriter(), libReverter()), "0x0", []uint64{60000})
		a2 := &asm{}
		a2.pushU(1).push(dest).op(0x57).op(0x00, 0x60, 0x5b, 0x5b, 0x00)
		add("tmpl/jumpi", "call", a2.bytes(), nil, baseAccts(a2.bytes(), libWriter(), libReverter()), "0x0", []uint64{60000})
	}
	// offsets / lengths on the boundaries, for every instruction with a memory operand
	memOps := []byte{0x20, 0x37, 0x39, 0x3c, 0x3e, 0x51, 0x52, 0x53, 0xa0, 0xa2, 0xf0, 0xf1, 0xf2, 0xf4, 0xfa, 0xf3, 0xfd}
	for _, o := range memOps {
		for i := 0; i < g.c.Scale(5, 120); i++ {
			off, l := sizeLattice[r.Intn(len(sizeLattice))], sizeLattice[r.Intn(len(sizeLattice))]
			if i%3 == 0 {
				l = big.NewInt(0) // zero length with a huge offset
			}
			if i%3 == 1 {
				off = big.NewInt(int64(r.Intn(64)))
			}
			a := &asm{}
			// give RETURNDATACOPY something to copy
			if o == 0x3e {
				a.pushU(32).pushU(0).pushU(0).pushU(0).pushU(0).pushA(addrLib).op(0x5a).op(0xf1).op(0x50)
			}
			switch o {
			case 0x20, 0xf3, 0xfd, 0xa0:
				a.push(l).push(off).op(o)
			case 0xa2:
				a.pushU(1).pushU(2).push(l).push(off).op(o)
			case 0x37, 0x39, 0x3e:
				a.push(l).push(sizeLattice[r.Intn(len(sizeLattice))]).push(off).op(o)
			case 0x3c:
				a.push(l).push(sizeLattice[r.Intn(len(sizeLattice))]).push(off).pushA(addrLib).op(o)
			case 0x51:
				a.push(off).op(o)
			case 0x52, 0x53:
				a.pushU(0xabcdef).push(off).op(o)
			case 0xf0:
				a.push(l).push(off).pushU(0).op(o)
			case 0xf1, 0xf2:
				if r.Bool() {
					a.push(l).push(off).pushU(0).pushU(0)
				} else {
					a.pushU(0).pushU(0).push(l).push(off)
				}
				a.pushU(0).pushA(addrLib).pushU(50000).op(o)
			case 0xf4, 0xfa:
				if r.Bool() {
					a.push(l).push(off).pushU(0).pushU(0)
				} else {
					a.pushU(0).pushU(0).push(l).push(off)
				}
				a.pushA(addrLib).pushU(50000).op(o)
			}
			a.op(0x59).pushU(0).op(0x52).pushU(32).pushU(0).op(0xf3) // return MSIZE
			add(fmt.Sprintf("tmpl/bounds-%02x", o), "call", a.bytes(), r.Bytes(40), baseAccts(a.bytes(), libWriter(), libReverter()), "0x0", []uint64{200000, gasLimit})
		}
	}
	// recursive self-call / create to the depth limit (needs more gas than a block holds because of the 63/64 rule)
	for _, o := range []byte{0xf1, 0xf2, 0xf4, 0xfa} {
		a := &asm{}
		a.pushU(0).pushU(0).pushU(0).pushU(0)
		if o == 0xf1 || o == 0xf2 {
			a.pushU(0)
		}
		a.op(0x30).op(0x5a).op(o) // ADDRESS GAS CALLx
		a.pushU(0).op(0x52).pushU(32).pushU(0).op(0xf3)
		add(fmt.Sprintf("tmpl/recursion-%02x", o), "call", a.bytes(), nil, baseAccts(a.bytes(), libWriter(), libReverter()), "0x0", []uint64{gasLimit})
		// down to the depth limit: one epoch per call kind and run
		out = append(out, &tcase{Kind: "call", Height: g.oneHeight(), Gas: []uint64{20000000000, 1 << 62}[r.Intn(2)], Value: "0x0", Caller: ha(addrCaller), Target: ha(addrMain), Data: "-",
			Accts: baseAccts(a.bytes(), libWriter(), libReverter()), Class: fmt.Sprintf("tmpl/recursion-%02x", o)})
	}
	{
		// init code that copies itself to memory and CREATEs it again
		a := &asm{}
		a.op(0x38).pushU(0).pushU(0).op(0x39) // CODECOPY(0,0,codesize)
		a.op(0x38).pushU(0).pushU(0).op(0xf0) // CREATE(0,0,codesize)
		a.op(0x00)
		add("tmpl/recursion-create", "create", a.bytes(), nil, baseAccts(nil, libWriter(), libReverter()), "0x0", []uint64{gasLimit})
		// down to the depth limit (1025 keccaks in the model: one epoch per run)
		if g.c.Thorough() {
			out = append(out, &tcase{Kind: "create", Height: g.oneHeight(), Gas: 1 << 50, Value: "0x0", Caller: ha(addrCaller), Target: "0x0", Data: hexb(a.bytes()),
				Accts: baseAccts(nil, libWriter(), libReverter()), Class: "tmpl/recursion-create"})
		}
	}
	// every call kind to every precompile address (and 9, which is none) with arbitrary input
	for _, o := range []byte{0xf1, 0xf2, 0xf4, 0xfa} {
		for p := int64(1); p <= 9; p++ {
			for _, in := range g.precompileInputs(p) {
				code := callAndReport(o, big.NewInt(p), 0, 0)
				if o == 0xf1 && r.Chance(30) {
					code = callAndReport(o, big.NewInt(p), 1, 0)
				}
				add(fmt.Sprintf("tmpl/precompile-%d", p), "call", code, in, baseAccts(code, libWriter(), libReverter()), "0x0", []uint64{3000, 200000})
			}
		}
	}
	// direct top-level call of a precompile
	for p := int64(1); p <= 9; p++ {
		for _, in := range g.precompileInputs(p)[:2] {
			k := &tcase{Kind: "call", Gas: 150000, Value: "0x0", Caller: ha(addrCaller), Target: hx(big.NewInt(p)), Data: hexb(in), Accts: baseAccts(nil, nil, nil), Class: "tmpl/precompile-top"}
			for _, h := range g.heights() {
				kk := *k
				kk.Height = h
				out = append(out, &kk)
			}
		}
	}
	// CREATE whose init code reverts / runs out of gas / returns 24576 / 24577 / 100 bytes / is empty / hits an invalid opcode
	inits := map[string][]byte{
		"revert":  (&asm{}).pushU(0xbad).pushU(0).op(0x52).pushU(32).pushU(0).op(0xfd).bytes(),
		"oog":     libLooper(),
		"big":     (&asm{}).pushU(24577).pushU(0).op(0xf3).bytes(),
		"max":     (&asm{}).pushU(24576).pushU(0).op(0xf3).bytes(),
		"small":   (&asm{}).pushU(1).pushU(1).op(0x55).pushU(0x6001).pushU(0).op(0x52).pushU(2).pushU(30).op(0xf3).bytes(),
		"empty":   {},
		"invalid": {0xfe},
		"suicide": libSuicide(addrCaller),
	}
	names := make([]string, 0, len(inits))
	for n := range inits {
		names = append(names, n)
	}
	sort.Strings(names)
	for _, n := range names {
		ic := inits[n]
		// as a transaction-level creation
		hi := uint64(300000)
		if n == "big" || n == "max" {
			hi = 5300000 // 24576 bytes of code cost 4.9e6 gas to store
		}
		add("tmpl/create-top-"+n, "create", ic, nil, baseAccts(nil, libWriter(), libReverter()), "0x5", []uint64{60000, hi})
		// from a contract: store init code in memory via CODECOPY of the tail
		a := &asm{}
		// assemble with a fixed-width offset push (PUSH2)
		a.pushU(uint64(len(ic)))
		a.op(0x61, 0, 0) // PUSH2 off (patched)
		patch := len(a.b) - 2
		a.pushU(0).op(0x39)
		a.pushU(uint64(len(ic))).pushU(0).pushU(3).op(0xf0) // CREATE(3, 0, len)
		a.pushU(0).op(0x52).op(0x3d).pushU(32).op(0x52).pushU(64).pushU(0).op(0xf3)
		off := len(a.b)
		a.b[patch], a.b[patch+1] = byte(off>>8), byte(off)
		code := append(a.b, ic...)
		add("tmpl/create-nested-"+n, "call", code, nil, baseAccts(code, libWriter(), libReverter()), "0x0", []uint64{100000, hi + 100000})
	}
	// SELFDESTRUCT to self / to a missing account / to an existing one, directly and through a call
	for _, to := range []common.Address{addrMain, addrNone, addrLib, addrEmpty} {
		code := libSuicide(to)
		add("tmpl/selfdestruct", "call", code, nil, baseAccts(code, libWriter(), libReverter()), "0x3", []uint64{4000, 40000})
		outer := callAndReport(0xf1, new(big.Int).SetBytes(addrLib[:]), 2, 0)
		add("tmpl/selfdestruct-nested", "call", outer, nil, baseAccts(outer, libSuicide(to), libReverter()), "0x0", []uint64{100000})
	}
	// writes inside STATICCALL: SSTORE, LOG, value transfer, CREATE, SELFDESTRUCT; also one level further down
	writers := map[string][]byte{"sstore": libWriter(), "log": (&asm{}).pushU(0).pushU(0).op(0xa0).bytes(), "value": libValueCall(addrEmpty),
		"create": libCreate(), "selfdestruct": libSuicide(addrCaller), "reader": (&asm{}).pushU(1).op(0x54).pushU(0).op(0x52).pushU(32).pushU(0).op(0xf3).bytes()}
	wn := make([]string, 0)
	for n := range writers {
		wn = append(wn, n)
	}
	sort.Strings(wn)
	for _, n := range wn {
		outer := callAndReport(0xfa, new(big.Int).SetBytes(addrLib[:]), 0, 0)
		add("tmpl/static-"+n, "call", outer, nil, baseAccts(outer, writers[n], libReverter()), "0x0", []uint64{200000})
		// STATICCALL -> lib2 -CALL-> lib (writer)
		mid := callAndReport(0xf1, new(big.Int).SetBytes(addrLib[:]), 0, 0)
		add("tmpl/static-deep-"+n, "call", outer2(addrLib2), nil, baseAccts(outer2(addrLib2), writers[n], mid), "0x0", []uint64{300000})
	}
	// a child that writes and then fails, after which the parent reads the state back
	for _, o := range []byte{0xf1, 0xf2, 0xf4} {
		a := &asm{}
		a.pushU(32).pushU(0).pushU(0).pushU(0)
		if o != 0xf4 {
			a.pushU(0)
		}
		a.pushA(addrLib2).pushU(60000).op(o)
		a.pushU(0).op(0x52).pushU(3).op(0x54).pushU(32).op(0x52).pushU(64).pushU(0).op(0xf3)
		add(fmt.Sprintf("tmpl/child-fails-%02x", o), "call", a.bytes(), nil, baseAccts(a.bytes(), libWriter(), libReverter()), "0x0", []uint64{30000, 200000})
	}
	// a failing frame that touched an EMPTY account sitting at a precompile address (0x03 is the journal's exception)
	for _, p := range []int64{2, 3, 4} {
		for _, viaChild := range []bool{false, true} {
			touch := (&asm{}).pushU(0).pushU(0).pushU(0).pushU(0).pushU(0).pushU(uint64(p)).pushU(5000).op(0xf1, 0x50, 0xfe).bytes() // CALL p; INVALID
			main, lib := touch, libWriter()
			if viaChild {
				a := &asm{}
				a.pushU(0).pushU(0).pushU(0).pushU(0).pushU(0).pushA(addrLib).op(0x5a, 0xf1, 0x50).op(0xfe)
				main, lib = a.bytes(), touch
			}
			accts := append(baseAccts(main, lib, libReverter()), acct{Addr: hx(big.NewInt(p)), Nonce: 0, Balance: "0x0", Code: "-"})
			add("tmpl/touch-empty-precompile", "call", main, nil, accts, "0x0", []uint64{100000})
		}
	}
	// value transfers: more than the balance, to a missing account, to a precompile
	for _, v := range []uint64{1, 1000, 1001} {
		for _, to := range []*big.Int{new(big.Int).SetBytes(addrNone[:]), new(big.Int).SetBytes(addrEmpty[:]), big.NewInt(3), big.NewInt(4)} {
			code := callAndReport(0xf1, to, int64(v), 0)
			add("tmpl/value", "call", code, []byte{1, 2, 3}, baseAccts(code, libWriter(), libReverter()), "0x0", []uint64{20000, 100000})
		}
	}
	return out
}

func outer2(to common.Address) []byte { return callAndReport(0xfa, new(big.Int).SetBytes(to[:]), 0, 0) }

func (g *gen) precompileInputs(p int64) [][]byte {
	r := g.r
	ins := [][]byte{nil, r.Bytes(1 + r.Intn(200))}
	if adv := g.adversarialInputs(p); len(adv) > 0 {
		for i := 0; i < 3; i++ {
			in := adv[r.Intn(len(adv))]
			if d := modexpDanger(in); len(in) <= 1000 && (p != 5 || d <= 1<<16) {
				ins = append(ins, in)
			}
		}
	}
	switch p {
	case 1:
		// a valid signature shape: hash, v=27/28, r, s
		in := r.Bytes(128)
		for i := 32; i < 63; i++ {
			in[i] = 0
		}
		in[63] = 27 + byte(r.Intn(2))
		ins = append(ins, in)
	case 5:
		mk := func(bl, el, ml uint64, body []byte) []byte {
			var b []byte
			for _, x := range []uint64{bl, el, ml} {
				b = append(b, common.LeftPadBytes(new(big.Int).SetUint64(x).Bytes(), 32)...)
			}
			return append(b, body...)
		}
		ins = append(ins, mk(1, 1, 1, []byte{3, 5, 7}), mk(32, 32, 32, r.Bytes(96)), mk(0, 0, 0, nil), mk(1, 33, 2, r.Bytes(36)),
			append(common.LeftPadBytes([]byte{0xff, 0xff, 0xff, 0xff, 0xff, 0xff, 0xff, 0xff, 0xff}, 32), r.Bytes(70)...))
	case 8:
		ins = append(ins, r.Bytes(192), r.Bytes(384), r.Bytes(191))
	}
	return ins
}

// ---------------------------------------------------------------- generator

type gen struct {
	c *vh.Ctx
	r *vh.RNG
}

// one height per epoch: Homestead set with the Homestead / HF1 gas table, Spring set without
// Byzantium rules, Spring set with them; the fork heights themselves now and then
func (g *gen) heights() []int64 {
	pre := int64(3600 + g.r.Intn(19200))
	if g.r.Chance(25) {
		pre = int64(g.r.Intn(3600))
	}
	mid := int64(22800 + g.r.Intn(36050-22800))
	post := int64(36050 + g.r.Intn(100000))
	if g.r.Chance(15) {
		pre, mid, post = 22799, []int64{22800, 36049}[g.r.Intn(2)], 36050
	}
	return []int64{pre, mid, post}
}

func (g *gen) oneHeight() int64 { return g.heights()[g.r.Intn(3)] }

func (g *gen) logGas() uint64 {
	r := g.r
	switch r.Intn(10) {
	case 0:
		return uint64(r.Intn(3))
	case 1:
		return gasLimit
	}
	// log scale between 1 and the block limit
	bits := 1 + r.Intn(23)
	v := r.Uint64() & ((1 << uint(bits)) - 1)
	if v > gasLimit {
		v = gasLimit
	}
	return v
}

func (g *gen) randomCases(n int) []*tcase {
	var out []*tcase
	r := g.r
	libs := [][]byte{libWriter(), libReverter(), libLooper(), libSuicide(addrCaller), libValueCall(addrEmpty), libCreate(), nil}
	for i := 0; i < n; i++ {
		var code []byte
		class := ""
		switch {
		case i%4 == 0:
			code = r.Bytes(1 + r.Intn(64))
			class = "random/uniform"
		case i%4 == 1:
			// uniform bytes restricted to defined opcodes, dense in PUSH1
			l := 1 + r.Intn(80)
			for len(code) < l {
				if r.Chance(45) {
					code = append(code, 0x60, byte(r.Intn(256)))
				} else {
					code = append(code, weighted[r.Intn(len(weighted))])
				}
			}
			class = "random/opcodes"
		default:
			code = structuredProgram(r, 2+r.Intn(14))
			class = "random/structured"
		}
		lib := libs[r.Intn(len(libs))]
		if r.Chance(35) {
			lib = structuredProgram(r, 1+r.Intn(8))
		}
		lib2 := libs[r.Intn(len(libs))]
		if r.Chance(35) {
			lib2 = structuredProgram(r, 1+r.Intn(8))
		}
		k := &tcase{Kind: "call", Height: g.oneHeight(), Gas: g.logGas(), Value: "0x0", Caller: ha(addrCaller), Target: ha(addrMain), Data: hexb(r.Bytes(r.Intn(70))),
			Accts: baseAccts(code, lib, lib2), Class: class}
		if r.Chance(15) {
			k.Value = hx(big.NewInt(int64(r.Intn(3))))
		}
		if r.Chance(12) {
			k.Kind = "create"
			k.Data = hexb(code)
			k.Target = "0x0"
			k.Class += "-create"
		}
		if r.Chance(50) && k.Gas < 30000 {
			k.Gas = 30000 + uint64(r.Intn(400000))
		}
		out = append(out, k)
	}
	return out
}

// ---------------------------------------------------------------- checking one case

type checker struct {
	c            *vh.Ctx
	m            *vh.Model
	opsSeen      map[byte]int
	epochs       map[string]int
	results      map[string]int
	maxDepthSeen int
	maxHeapRatio float64
	maxHeap      uint64
	heapTripped  bool
}

func epochOf(h int64) string {
	switch {
	case h < 22800:
		return "pre-hf5"
	case h < 36050:
		return "hf5-hf7"
	}
	return "post-hf7"
}

func (k *tcase) request(trace bool, fuelcap int, prec string) string {
	var accts []string
	for _, a := range k.Accts {
		var kv []string
		keys := make([]string, 0, len(a.Storage))
		for s := range a.Storage {
			keys = append(keys, s)
		}
		sort.Strings(keys)
		for _, s := range keys {
			kv = append(kv, s+"="+a.Storage[s])
		}
		code := a.Code
		if code == "" {
			code = "-"
		}
		accts = append(accts, strings.Join([]string{a.Addr, hu(a.Nonce), a.Balance, code, strings.Join(kv, ","), "0"}, ":"))
	}
	as := "-"
	if len(accts) > 0 {
		as = strings.Join(accts, ";")
	}
	tr := "0"
	if trace {
		tr = "1"
	}
	data := k.Data
	if data == "" {
		data = "-"
	}
	return strings.Join([]string{k.Kind, fmt.Sprint(k.Height), hu(k.Gas), k.Value, k.Caller, k.Target, data, tr, fmt.Sprint(fuelcap),
		k.Caller, hu(gasPriceV), coinbaseHx, hu(gasLimit), hu(timeV), hu(diffV), as, prec}, " ")
}

// check runs the case on the implementation, evaluates the direct oracle, and compares with the model.
// It returns the tracer (for the +-1 gas budgets).
func (ch *checker) check(k *tcase, withModel bool) *tracer {
	c := ch.c
	t0 := time.Now()
	nested := 24
	if k.light {
		nested = 0
	}
	r, st := runCase(k, true, nested, 20*time.Second)
	t := r.tr
	tGo := time.Since(t0)
	defer func() {
		if os.Getenv("C07_TIMING") != "" && time.Since(t0) > 30*time.Millisecond {
			fmt.Fprintf(os.Stderr, "slow %s h=%d gas=%d steps=%d mem=%d go=%v total=%v\n", k.Class, k.Height, k.Gas, t.steps, t.peakMem, tGo, time.Since(t0))
		}
	}()
	for o, n := range t.ops {
		ch.opsSeen[o] += n
	}
	if t.maxDepth > ch.maxDepthSeen {
		ch.maxDepthSeen = t.maxDepth
	}
	rc := r.res
	if r.panicked {
		rc = "panic"
	}
	key := ""
	if t.steps > 1 {
		key = fmt.Sprintf("%s/%d/%d/%s/%s/%s", k.Kind, k.Height, k.Gas, k.Data, k.Accts[1].Code, k.Value)
	}
	c.Eval(fmt.Sprintf("%s|%s|%s", k.Class, epochOf(k.Height), strings.SplitN(rc, ":", 3)[0]), key)
	ch.results[rc]++
	if pre := os.Getenv("C07_DUMP"); pre != "" && strings.HasPrefix(k.Class, pre) {
		fmt.Fprintf(os.Stderr, "DUMP %s %s steps=%d %s\n", k.Class, rc, t.steps, mustJSON(k))
	}
	if t.staticEmptyOnly > 0 {
		c.Count("observed/static-frame-created-or-touched-an-empty-account-only")
	}
	if r.ripemdQuirk {
		c.Count("observed/touched-empty-account-deleted-after-failed-frame (core/state dirty set, see C09)")
	}
	// ---------------- direct oracle
	if r.panicked {
		c.Violate("panic/"+k.Class+"/"+firstLine(r.res), "the interpreter panicked: "+r.res, k)
	}
	if r.timedOut {
		c.Violate("no-termination/"+k.Class, fmt.Sprintf("execution still running after the watchdog (%d steps)", t.steps), k)
	}
	if !r.panicked {
		if r.left > k.Gas {
			c.Violate("leftover-exceeds-gas", fmt.Sprintf("gas given %d, left over %d", k.Gas, r.left), k)
		}
		if t.memViol != "" {
			c.Violate("memory-not-paid-for", t.memViol, k)
		}
		// growth bound (C07_memory_growth_bound): no frame of a run given g < 2^32 gas ever holds more than g/3 words,
		// nor more than sqrt(512 g + 511) words
		if pw := uint64(t.peakMem / 32); k.Gas < 1<<32 && (3*pw > k.Gas || pw*pw > 512*k.Gas+511) {
			c.Violate("memory-growth-exceeds-gas-bound/"+caseHash(k), fmt.Sprintf("peak memory %d words for %d gas supplied (bound: 3w <= gas and w*w <= 512 gas + 511)", pw, k.Gas), k)
		}
		if t.maxDepth > 1025 {
			c.Violate("depth-exceeds-1024", fmt.Sprintf("a frame ran at evm.depth %d (Yellow-Paper depth %d)", t.maxDepth, t.maxDepth-1), k)
		}
		for _, f := range t.findings {
			sig := f.sig
			if sig != "staticcall-not-readonly-between-hf5-and-hf7" {
				sig += "/" + caseHash(k)
			}
			c.Violate(sig, f.what, k)
		}
		if r.sumAfter.Cmp(r.sumBefore) > 0 || (!t.burn && r.sumAfter.Cmp(r.sumBefore) != 0) {
			c.Violate("balances-not-conserved/"+caseHash(k), fmt.Sprintf("sum of balances %v before, %v after (self-destruct to self seen: %v)", r.sumBefore, r.sumAfter, t.burn), k)
		}
	}
	if !k.light {
		ch.heapCheck(k)
	}
	// ---------------- correspondence
	if withModel && r.panicked && !r.timedOut && t.steps < 100000 {
		// the model has the Go panics as explicit results: it must say "panic" too
		ans := ch.m.Ask(k.request(false, 3000000, precTableString()))
		c.Correspond("vm.EVM.Call/Create~Interp.call_top/create_top (panic)", string(mustJSON(k)), "panic", strings.SplitN(ans, " ", 2)[0])
	}
	if withModel && !r.panicked && !r.timedOut {
		fuelcap := 3000000
		if t.steps > 2500000 {
			c.Count("model-skipped/too-many-steps")
			return t
		}
		if t.peakMem > 1<<20 {
			c.Count("model-skipped/memory-over-1MiB")
			return t
		}
		req := k.request(r.trace != "off", fuelcap, r.prec)
		tm := time.Now()
		ans := ch.m.Ask(req)
		if os.Getenv("C07_TIMING") != "" && time.Since(tm) > 15*time.Millisecond {
			fmt.Fprintf(os.Stderr, "REQ %v %s\n", time.Since(tm), req)
		}
		f := strings.Split(ans, " ")
		if len(f) != 8 {
			c.Correspond("vm.EVM.Call/Create~Interp.call_top/create_top", string(mustJSON(k)), "(see case)", ans)
			return t
		}
		addFromModelWorld(f[6], t.addrs, t.keys)
		world := dumpWorld(st, t.addrs, t.keys)
		addr := "0x0"
		if k.Kind == "create" {
			addr = ha(r.addr)
		}
		obs := strings.Join([]string{r.res, hu(r.left), vh.Hex(r.ret), addr, hu(r.refund), r.logs, world}, " ")
		mod := strings.Join(f[:7], " ")
		c.Correspond("vm.EVM.Call/Create~Interp.call_top/create_top (result, gas left, return data, address, refund, logs, accounts)", string(mustJSON(k)), obs, mod)
		if r.trace != "off" {
			c.Correspond("Interpreter.Run steps~Interp.step (depth, pc, op, gas, cost, memory size, stack top 3)", string(mustJSON(k)), firstDiff(r.trace, f[7]), firstDiff(f[7], r.trace))
		}
	}
	return t
}

func caseHash(k *tcase) string {
	h := sha1.Sum(mustJSON(k))
	return fmt.Sprintf("%x", h[:5])
}

// heapCheck re-runs the case without the tracer and compares the bytes the Go runtime allocated
// during the call with the gas that was paid: a program must not make the node allocate memory it did
// not pay for (EVM memory costs 3 gas per 32 bytes, copies and hashes are priced per word).
const heapBase, heapPerGas = 1 << 20, 128

func (ch *checker) heapCheck(k *tcase) {
	st := buildState(k)
	caller := addr0x(k.Caller)
	ctx := vm.Context{CanTransfer: core.CanTransfer, Transfer: core.Transfer, GetHash: getHash,
		Origin: caller, GasPrice: big.NewInt(gasPriceV), Coinbase: common.HexToAddress(coinbaseHx), GasLimit: gasLimit,
		BlockNumber: big.NewInt(k.Height), Time: big.NewInt(timeV), Difficulty: big.NewInt(diffV)}
	evm := vm.NewEVM(ctx, st, params.MainnetChainConfig, vm.Config{})
	value := big0x(k.Value)
	data := []byte{}
	if k.Data != "-" && k.Data != "" {
		data = vh.UnHex(k.Data)
	}
	type res struct {
		left     uint64
		panicked bool
		pv       interface{}
		alloc    uint64
	}
	done := make(chan res, 1)
	precRecording = false
	defer func() { precRecording = true }()
	go func() {
		var r res
		var m0, m1 runtime.MemStats
		runtime.ReadMemStats(&m0)
		r.panicked, r.pv = vh.CatchPanic(func() {
			if k.Kind == "call" {
				_, r.left, _ = evm.Call(vm.AccountRef(caller), addr0x(k.Target), data, k.Gas, value)
			} else {
				_, _, r.left, _ = evm.Create(vm.AccountRef(caller), data, k.Gas, value)
			}
		})
		runtime.ReadMemStats(&m1)
		r.alloc = m1.TotalAlloc - m0.TotalAlloc
		done <- r
	}()
	select {
	case r := <-done:
		if r.panicked {
			ch.c.Violate("panic/"+k.Class+"/"+firstLine(fmt.Sprint(r.pv)), fmt.Sprintf("the EVM panicked (run without tracer): %v", r.pv), k)
			return
		}
		used := k.Gas - r.left
		if r.left > k.Gas {
			used = 0
		}
		bound := uint64(heapBase) + heapPerGas*used
		if used > (1<<62)/heapPerGas {
			bound = 1 << 63
		}
		if r.alloc > bound {
			ch.c.Violate("heap-not-paid-for/"+caseHash(k), fmt.Sprintf("the call allocated %d bytes on the Go heap for %d gas paid (bound %d + %d per gas)", r.alloc, used, heapBase, heapPerGas), k)
			ch.heapTripped = true
		}
		if used > 0 && r.alloc > 1<<16 {
			if ratio := float64(r.alloc) / float64(used); ratio > ch.maxHeapRatio {
				ch.maxHeapRatio = ratio
			}
		}
		if r.alloc > ch.maxHeap {
			ch.maxHeap = r.alloc
		}
	case <-time.After(20 * time.Second):
		evm.Cancel()
		ch.c.Violate("no-termination/"+k.Class+"/"+caseHash(k), "the call (run without tracer) did not return within the watchdog", k)
	}
}

// only the neighbourhood of the first difference of two long traces is reported
func firstDiff(a, b string) string {
	if a == b {
		return "equal"
	}
	as, bs := strings.Split(a, ";"), strings.Split(b, ";")
	i := 0
	for i < len(as) && i < len(bs) && as[i] == bs[i] {
		i++
	}
	lo := i - 1
	if lo < 0 {
		lo = 0
	}
	hi := i + 2
	if hi > len(as) {
		hi = len(as)
	}
	return fmt.Sprintf("step %d of %d: %s", i, len(as), strings.Join(as[lo:hi], ";"))
}

func firstLine(s string) string {
	if i := strings.IndexAny(s, "\n"); i >= 0 {
		s = s[:i]
	}
	if len(s) > 80 {
		s = s[:80]
	}
	return s
}

func mustJSON(v interface{}) []byte {
	b, _ := json.Marshal(v)
	return b
}

// ---------------------------------------------------------------- main

// probe mode (C07_PROBE=<case json>): run one case in this process, without tracer and model, under an
// address-space limit, and print one line.  The parent uses it for inputs that could make a broken
// contract take the whole process down (a Go "fatal error: out of memory" cannot be recovered).
func probeMain(file string) {
	raw, err := os.ReadFile(file)
	var ks []tcase
	if err == nil {
		err = json.Unmarshal(raw, &ks)
	}
	if err != nil {
		fmt.Println("probe-bad-input", err)
		os.Exit(3)
	}
	lim := uint64(6 << 30)
	syscall.Setrlimit(syscall.RLIMIT_AS, &syscall.Rlimit{Cur: lim, Max: lim})
	for i := range ks {
		k := &ks[i]
		fmt.Printf("probe-start %d\n", i)
		st := buildState(k)
		caller := addr0x(k.Caller)
		ctx := vm.Context{CanTransfer: core.CanTransfer, Transfer: core.Transfer, GetHash: getHash,
			Origin: caller, GasPrice: big.NewInt(gasPriceV), Coinbase: common.HexToAddress(coinbaseHx), GasLimit: gasLimit,
			BlockNumber: big.NewInt(k.Height), Time: big.NewInt(timeV), Difficulty: big.NewInt(diffV)}
		evm := vm.NewEVM(ctx, st, params.MainnetChainConfig, vm.Config{})
		data := []byte{}
		if k.Data != "-" && k.Data != "" {
			data = vh.UnHex(k.Data)
		}
		var m0, m1 runtime.MemStats
		runtime.ReadMemStats(&m0)
		var left uint64
		pan, pv := vh.CatchPanic(func() {
			if k.Kind == "call" {
				_, left, _ = evm.Call(vm.AccountRef(caller), addr0x(k.Target), data, k.Gas, big0x(k.Value))
			} else {
				_, _, left, _ = evm.Create(vm.AccountRef(caller), data, k.Gas, big0x(k.Value))
			}
		})
		runtime.ReadMemStats(&m1)
		if pan {
			fmt.Printf("probe-done %d panic %s\n", i, firstLine(fmt.Sprint(pv)))
		} else {
			fmt.Printf("probe-done %d ok %d %d\n", i, left, m1.TotalAlloc-m0.TotalAlloc)
		}
	}
}

// probeBatch runs the cases in child processes (one process as long as it survives); healthy[i] = case i
// came back (or panicked recoverably) within the heap bound.  After three crashes the rest is left out.
func (ch *checker) probeBatch(ks []*tcase) []bool {
	healthy := make([]bool, len(ks))
	crashes := 0
	for from := 0; from < len(ks) && crashes < 3; {
		f := filepath.Join(ch.c.OutDir, "probe.json")
		os.WriteFile(f, mustJSON(ks[from:]), 0o644)
		cmd := exec.Command(os.Args[0])
		cmd.Env = append(os.Environ(), "C07_PROBE="+f)
		type res struct {
			out []byte
			err error
		}
		done := make(chan res, 1)
		go func() {
			o, err := cmd.CombinedOutput()
			done <- res{o, err}
		}()
		var r res
		timedOut := false
		select {
		case r = <-done:
		case <-time.After(20 * time.Second):
			if cmd.Process != nil {
				cmd.Process.Kill()
			}
			r = <-done
			timedOut = true
		}
		started, finished := -1, -1
		fatal := "no output"
		for _, l := range strings.Split(string(r.out), "\n") {
			fl := strings.Fields(l)
			switch {
			case len(fl) == 2 && fl[0] == "probe-start":
				fmt.Sscan(fl[1], &started)
			case len(fl) >= 3 && fl[0] == "probe-done":
				fmt.Sscan(fl[1], &finished)
				k := ks[from+finished]
				healthy[from+finished] = true
				if fl[2] == "ok" && len(fl) == 5 {
					var left, alloc uint64
					fmt.Sscan(fl[3], &left)
					fmt.Sscan(fl[4], &alloc)
					used := k.Gas - left
					if left > k.Gas {
						used = 0
					}
					if used <= (1<<62)/heapPerGas && alloc > heapBase+heapPerGas*used {
						healthy[from+finished] = false
						ch.c.Violate("heap-not-paid-for/"+caseHash(k), fmt.Sprintf("the call allocated %d bytes on the Go heap for %d gas paid (bound %d + %d per gas; measured in a child process)", alloc, used, heapBase, heapPerGas), k)
					}
				}
			case strings.HasPrefix(l, "fatal error"):
				fatal = l
			case strings.HasPrefix(l, "runtime:") && fatal == "no output":
				fatal = l
			}
		}
		if finished == len(ks)-from-1 {
			break
		}
		// the child died (or hung) inside case `started`
		crashes++
		if started < 0 {
			ch.c.Fatal("probe child produced nothing: %s", firstLine(string(r.out)))
		}
		k := ks[from+started]
		if timedOut {
			ch.c.Violate("no-termination/"+k.Class+"/"+caseHash(k), "the call did not return within 20 s (child process killed)", k)
			crashes = 3 // one replay of this kind is enough; do not spend minutes
		} else {
			ch.c.Violate("node-crash/"+k.Class+"/"+firstLine(fatal), fmt.Sprintf("the call takes the whole process down, not recoverable: %s (%v)", firstLine(fatal), r.err), k)
		}
		from += started + 1
	}
	return healthy
}

func main() {
	if js := os.Getenv("C07_PROBE"); js != "" {
		probeMain(js)
		return
	}
	c := vh.Init("C07")
	if pf := os.Getenv("C07_PROFILE"); pf != "" {
		f, _ := os.Create(pf)
		pprof.StartCPUProfile(f)
		defer pprof.StopCPUProfile()
	}
	installRecorders()
	m := c.StartModel()
	defer m.Close()
	c.Res.Rule = "programs = uniform random bytes, random defined opcodes dense in PUSH1, opcode-weighted structured programs (operands chosen by role: boundary offsets/lengths, pool and precompile addresses, gas arguments), and adversarial templates (truncated PUSH, jumps into push data / out of range / >= 2^63, every memory-operand instruction on the lattice {0,1,31..33,24576,24577,2^32-1,2^32,0xffffffffe0+-{0,1,32},2^63+-1,2^64+-{1,32},2^255,2^256-{1,32}} incl. zero length with huge offset, self-recursion by CALL/CALLCODE/DELEGATECALL/STATICCALL/CREATE to the depth limit, every call kind to precompiles 1..9 with arbitrary input, CREATE with init code that reverts / loops / returns 24576, 24577 bytes / self-destructs, SELFDESTRUCT to self/missing/existing, SSTORE / LOG / value CALL / CREATE / SELFDESTRUCT inside STATICCALL and one call below it, failing children whose writes the parent reads back, value transfers above the balance / to missing accounts / to precompiles); run by vm.NewEVM(mainnet config).Call/Create on a 5-account pre-state at a height in each epoch (<22800, 22800..36049, >=36050); gas on a log scale 0..8e6 and +-1 around the cumulative cost of each top-frame step. Distinct non-trivial = distinct (kind, height, gas, data, code, value) executing more than one step."
	ch := &checker{c: c, m: m, opsSeen: map[byte]int{}, epochs: map[string]int{}, results: map[string]int{}}
	if c.Replay != "" {
		raw, err := os.ReadFile(c.Replay)
		if err != nil {
			c.Fatal("cannot read replay: %v", err)
		}
		var f struct {
			Replay tcase `json:"replay"`
		}
		if err := json.Unmarshal(raw, &f); err != nil {
			c.Fatal("bad replay file: %v", err)
		}
		ch.check(&f.Replay, true)
		c.Finish()
		return
	}
	g := &gen{c, c.Rng.Fork()}
	ch.precompileStream(g)
	ch.offsetLengthLattice(g)
	ch.truncatedPushTails()
	start := time.Now()
	budget := time.Duration(c.Scale(16, 900)) * time.Second
	cases := g.templates()
	cases = append(cases, g.staticNesting()...)
	cases = append(cases, g.factories()...)
	cases = append(cases, g.selfdestructScenarios()...)
	cases = append(cases, g.randomCases(c.Scale(900, 30000))...)
	// deterministic shuffle, so that a time budget cuts every class alike
	for i := len(cases) - 1; i > 0; i-- {
		j := g.r.Intn(i + 1)
		cases[i], cases[j] = cases[j], cases[i]
	}
	// the scenario templates (few, each a distinct mechanism) always run; the bulk follows
	isBulk := func(k *tcase) bool {
		return strings.HasPrefix(k.Class, "random/") || strings.HasPrefix(k.Class, "tmpl/bounds") || strings.HasPrefix(k.Class, "tmpl/precompile-")
	}
	var first, bulk []*tcase
	for _, k := range cases {
		if isBulk(k) {
			bulk = append(bulk, k)
		} else {
			first = append(first, k)
		}
	}
	// among the scenarios: the static-call ones and the fixed self-destruct scripts lead, so that they run
	// in every run whatever the load of the machine
	rank := func(k *tcase) int {
		switch {
		case strings.HasPrefix(k.Class, "tmpl/static"), strings.HasPrefix(k.Class, "scn/static-nest"):
			return 0
		case k.Class == "scn/selfdestruct-fixed", strings.HasPrefix(k.Class, "scn/factory-fixed"), strings.HasPrefix(k.Class, "scn/factory-nested"):
			return 1
		case strings.HasPrefix(k.Class, "tmpl/child"), strings.HasPrefix(k.Class, "tmpl/selfdestruct"), strings.HasPrefix(k.Class, "tmpl/value"), strings.HasPrefix(k.Class, "tmpl/touch"):
			return 2
		case strings.HasPrefix(k.Class, "tmpl/recursion"), strings.HasPrefix(k.Class, "tmpl/create"):
			return 3
		}
		return 4
	}
	sort.SliceStable(first, func(i, j int) bool { return rank(first[i]) < rank(first[j]) })
	nlead := 0
	for nlead < len(first) && rank(first[nlead]) <= 1 {
		nlead++
	}
	cases = append([]*tcase{}, first[:nlead]...)
	rest := first[nlead:]
	for i := 0; i < len(rest) || i < len(bulk); i++ {
		if i < len(rest) {
			cases = append(cases, rest[i])
		}
		if i < len(bulk) {
			cases = append(cases, bulk[i])
		}
	}
	boundary := 0
	for i, k := range cases {
		if time.Since(start) > budget {
			c.Note("time budget reached after %d of %d cases", i, len(cases))
			break
		}
		t := ch.check(k, true)
		if i < 4 || (i%97 == 0 && len(c.Res.Samples) < 10) {
			c.Sample(k)
		}
		// gas budgets +-1 around the cumulative cost of the steps of the top frame
		if len(t.stepGas) > 1 && k.Gas >= t.stepGas[0] && (i%4 == 0 || strings.HasPrefix(k.Class, "tmpl/static")) {
			n := len(t.stepGas)
			picks := c.Scale(2, 12)
			for j := 0; j < picks; j++ {
				s := g.r.Intn(n)
				used := t.stepGas[0] - t.stepGas[s] + t.stepCost[s] // gas needed to get through step s
				for _, d := range []int64{-1, 0, 1} {
					ng := int64(used) + d
					if ng < 0 {
						continue
					}
					kk := *k
					kk.Gas = uint64(ng)
					kk.Class = "gas-boundary/" + strings.SplitN(k.Class, "-", 2)[0]
					ch.check(&kk, true)
					boundary++
				}
			}
		}
	}
	// coverage summary
	var ops []string
	for o := range ch.opsSeen {
		ops = append(ops, fmt.Sprintf("%02x", o))
	}
	sort.Strings(ops)
	c.Note("opcodes executed at least once (%d): %s", len(ops), strings.Join(ops, " "))
	var rs []string
	for r, n := range ch.results {
		rs = append(rs, fmt.Sprintf("%s=%d", firstLine(r), n))
	}
	sort.Strings(rs)
	c.Note("top-level results: %s", strings.Join(rs, " "))
	c.Note("Go heap allocated during a call: at most %d bytes; largest bytes-per-gas ratio among calls allocating > 64 KiB: %.1f (bound %d + %d per gas)", ch.maxHeap, ch.maxHeapRatio, heapBase, heapPerGas)
	c.Note("deepest frame: evm.depth %d (Yellow-Paper depth %d); gas-boundary cases %d", ch.maxDepthSeen, ch.maxDepthSeen-1, boundary)
	c.Assume("block context fixed (coinbase, time, difficulty, gas price, gas limit 8e6); BLOCKHASH served by a fixed function; the precompiled contracts' outputs (and bigModExp's price) are taken from the implementation as an oracle table, their other prices are modelled")
	c.Assume("model-compared cases are limited to runs of at most 2.5e6 steps and 1 MiB of EVM memory; the direct oracle runs on every case")
	_ = crypto.Keccak256
	c.Finish()
}

// ---------------------------------------------------------------- labels for the scenario contracts

type lasm struct {
	asm
	labels  map[string]int
	patches map[int]string
}

func newLasm() *lasm { return &lasm{labels: map[string]int{}, patches: map[int]string{}} }
func (a *lasm) label(n string) *lasm {
	a.labels[n] = len(a.b)
	a.b = append(a.b, 0x5b)
	return a
}
func (a *lasm) pushL(n string) *lasm {
	a.b = append(a.b, 0x61, 0, 0)
	a.patches[len(a.b)-2] = n
	return a
}
func (a *lasm) done() []byte {
	for at, n := range a.patches {
		d, ok := a.labels[n]
		if !ok {
			panic("label " + n)
		}
		a.b[at], a.b[at+1] = byte(d>>8), byte(d)
	}
	return a.b
}

// a contract that does, by the length of its call data: 0 SELFDESTRUCT(benef); 1 STOP (takes the value);
// 2 "dead code": SSTORE(5, SLOAD(5)+1) and return its balance; 3 CREATE(1 wei, empty init code);
// 4 call back into `back` with one byte of call data (re-entrancy); >4 STOP
func scnLib(benef, back common.Address) []byte {
	a := newLasm()
	for i := 1; i <= 4; i++ {
		a.pushU(uint64(i)).op(0x36, 0x14) // CALLDATASIZE EQ
		a.pushL(fmt.Sprintf("L%d", i)).op(0x57)
	}
	a.op(0x36)
	a.pushL("end").op(0x57) // size > 4 -> STOP
	a.pushA(benef).op(0xff) // size 0
	a.label("L1").op(0x00)
	a.label("L2").pushU(1).pushU(5).op(0x54, 0x01).pushU(5).op(0x55).op(0x30, 0x31).pushU(0).op(0x52).pushU(32).pushU(0).op(0xf3)
	a.label("L3").pushU(0).pushU(0).pushU(1).op(0xf0).pushU(0).op(0x52).pushU(32).pushU(0).op(0xf3)
	a.label("L4").pushU(0).pushU(0).pushU(1).pushU(0).pushU(0).pushA(back).op(0x5a).op(0xf1).op(0x00)
	a.label("end").op(0x00)
	return a.done()
}

type scnAct struct {
	op     byte // call kind
	target common.Address
	value  uint64
	size   int // call data length = branch of scnLib
}

// the orchestrating contract: re-entered (call data not empty) it makes `reent` self-destruct once more;
// otherwise it performs the script, one call after the other
func scnMain(script []scnAct, reent common.Address) []byte {
	a := newLasm()
	a.op(0x36)
	a.pushL("re").op(0x57)
	for _, s := range script {
		a.pushU(0).pushU(0).pushU(uint64(s.size)).pushU(0)
		if s.op == 0xf1 || s.op == 0xf2 {
			a.pushU(s.value)
		}
		a.pushA(s.target).op(0x5a).op(s.op).op(0x50)
	}
	a.op(0x00)
	a.label("re").pushU(0).pushU(0).pushU(0).pushU(0).pushU(0).pushA(reent).op(0x5a).op(0xf1).op(0x00)
	return a.done()
}

// repeated self-destruction of one address inside one transaction with payments in between, calls into
// the "dead" code, creation from it, self-destruct to self, through DELEGATECALL/CALLCODE (the caller
// destroys itself and goes on), and re-entrancy
func (g *gen) selfdestructScenarios() []*tcase {
	r := g.r
	var out []*tcase
	sd := func(t common.Address) scnAct { return scnAct{0xf1, t, 0, 0} }
	pay := func(t common.Address, v uint64) scnAct { return scnAct{0xf1, t, v, 1} }
	fixed := [][]scnAct{
		{sd(addrLib), pay(addrLib, 5), sd(addrLib), pay(addrLib, 7), sd(addrLib), sd(addrLib)},
		{sd(addrLib), {0xf1, addrLib, 0, 2}, pay(addrLib, 3), {0xf1, addrLib, 0, 2}, sd(addrLib)},
		{pay(addrLib, 9), {0xf1, addrLib, 0, 3}, sd(addrLib), pay(addrLib, 4), {0xf1, addrLib, 0, 3}, sd(addrLib)},
		{sd(addrLib), sd(addrLib2), pay(addrLib, 2), pay(addrLib2, 2), sd(addrLib2), sd(addrLib)},
		{{0xf4, addrLib, 0, 0}, pay(addrLib, 6), {0xf1, addrLib, 0, 4}, sd(addrLib)},
		{{0xf2, addrLib, 0, 0}, pay(addrLib2, 6), sd(addrLib2), {0xf4, addrLib, 0, 0}},
		{pay(addrLib, 8), {0xf1, addrLib, 0, 4}, pay(addrLib, 1), {0xf1, addrLib, 0, 4}, sd(addrLib)},
	}
	benefs := []common.Address{addrEmpty, addrNone, addrLib, addrMain, addrLib2, addrCaller}
	emit := func(script []scnAct, b1, b2 common.Address, class string) {
		main := scnMain(script, addrLib)
		accts := baseAccts(main, scnLib(b1, addrMain), scnLib(b2, addrMain))
		for _, h := range g.heights() {
			out = append(out, &tcase{Kind: "call", Height: h, Gas: 600000, Value: "0x2", Caller: ha(addrCaller), Target: ha(addrMain), Data: "-", Accts: accts, Class: class})
		}
	}
	for i, sc := range fixed {
		for _, b := range benefs[:4] {
			emit(sc, b, benefs[(i+1)%len(benefs)], "scn/selfdestruct-fixed")
		}
	}
	for i := 0; i < g.c.Scale(25, 1500); i++ {
		n := 3 + r.Intn(6)
		var sc []scnAct
		for j := 0; j < n; j++ {
			t := []common.Address{addrLib, addrLib, addrLib2}[r.Intn(3)]
			switch r.Intn(8) {
			case 0, 1, 2:
				sc = append(sc, sd(t))
			case 3, 4:
				sc = append(sc, pay(t, uint64(1+r.Intn(9))))
			case 5:
				sc = append(sc, scnAct{0xf1, t, uint64(r.Intn(3)), 2 + r.Intn(3)})
			case 6:
				sc = append(sc, scnAct{[]byte{0xf2, 0xf4}[r.Intn(2)], t, 0, []int{0, 2, 3}[r.Intn(3)]})
			default:
				sc = append(sc, scnAct{0xfa, t, 0, r.Intn(4)})
			}
		}
		emit(sc, benefs[r.Intn(len(benefs))], benefs[r.Intn(len(benefs))], "scn/selfdestruct-random")
	}
	return out
}

// ---------------------------------------------------------------- the precompile stream

func lenField(v *big.Int) []byte { return common.LeftPadBytes(v.Bytes(), 32) }

var modexpLens = []*big.Int{big.NewInt(0), big.NewInt(1), big.NewInt(31), big.NewInt(32), big.NewInt(33), pow2(16), pow2(26), pow2(31), pow2(32),
	pow2(48), pow2(63), addk(pow2(64), -1), pow2(255), addk(pow2(256), -1)}

// the largest length bigModExp.Run would see (fields are truncated to uint64) below the allocator's limit
func modexpDanger(in []byte) uint64 {
	var m uint64
	for i := 0; i < 3; i++ {
		f := make([]byte, 32)
		if len(in) > 32*i {
			copy(f, in[32*i:])
		}
		v := new(big.Int).SetBytes(f)
		u := v.Uint64()
		if u < 1<<48 && u > m {
			m = u
		}
	}
	return m
}

// a length field bigModExp.Run would take (after truncation to uint64) of a megabyte or more
func modexpRisky(in []byte) bool {
	for i := 0; i < 3; i++ {
		f := make([]byte, 32)
		if len(in) > 32*i {
			copy(f, in[32*i:])
		}
		if new(big.Int).SetBytes(f).Uint64() >= 1<<20 {
			return true
		}
	}
	return false
}

func (g *gen) adversarialInputs(p int64) [][]byte {
	r := g.r
	var ins [][]byte
	rnd := func(n int) []byte { return r.Bytes(n) }
	switch p {
	case 5:
		small := []*big.Int{big.NewInt(0), big.NewInt(1), big.NewInt(32)}
		bodies := [][]byte{nil, {3}, {3, 5, 7}, rnd(100)}
		add := func(b, e, m *big.Int) {
			in := append(append(lenField(b), lenField(e)...), lenField(m)...)
			ins = append(ins, append(in, bodies[r.Intn(len(bodies))]...))
		}
		if g.c.Thorough() {
			for _, b := range modexpLens {
				for _, e := range modexpLens {
					for _, m := range modexpLens {
						add(b, e, m)
					}
				}
			}
		} else {
			for _, x := range modexpLens {
				for _, y := range small {
					for _, z := range small {
						if y.Sign() != 0 && z.Sign() != 0 && y.Cmp(z) != 0 {
							continue
						}
						add(x, y, z)
						add(y, x, z)
						add(y, z, x)
					}
				}
			}
		}
		// truncated headers
		for _, n := range []int{0, 1, 31, 32, 33, 64, 95, 96, 97} {
			ins = append(ins, rnd(n))
		}
		sort.SliceStable(ins, func(i, j int) bool { return modexpDanger(ins[i]) < modexpDanger(ins[j]) })
	case 1:
		for _, n := range []int{0, 1, 31, 32, 64, 127, 128, 129, 200, 1000} {
			ins = append(ins, rnd(n))
		}
		for _, v := range []byte{0, 26, 27, 28, 29, 255} {
			in := rnd(128)
			for i := 32; i < 63; i++ {
				in[i] = 0
			}
			in[63] = v
			ins = append(ins, in)
			in2 := append([]byte{}, in...)
			in2[40] = 1 // high bytes of v not zero
			ins = append(ins, in2)
		}
		hi := rnd(128)
		for i := 64; i < 128; i++ {
			hi[i] = 0xff // r, s above the group order
		}
		hi[63] = 27
		for i := 32; i < 63; i++ {
			hi[i] = 0
		}
		z := append(rnd(32), make([]byte, 96)...) // v = r = s = 0
		ins = append(ins, hi, z)
	case 2, 3, 4, 9:
		for _, n := range []int{0, 1, 31, 32, 33, 55, 56, 63, 64, 65, 1000, 100000} {
			ins = append(ins, rnd(n))
		}
	case 6, 7, 8:
		lens := map[int64][]int{6: {0, 1, 63, 64, 127, 128, 129, 192}, 7: {0, 1, 95, 96, 97, 128}, 8: {0, 1, 191, 192, 193, 383, 384, 385, 576}}[p]
		for _, n := range lens {
			ins = append(ins, rnd(n), make([]byte, n))
		}
		gen12 := append(common.LeftPadBytes([]byte{1}, 32), common.LeftPadBytes([]byte{2}, 32)...)
		ins = append(ins, append(append([]byte{}, gen12...), gen12...), append(append([]byte{}, gen12...), rnd(32)...))
	}
	return ins
}

func safeRequiredGas(p vm.PrecompiledContract, in []byte) (gas uint64, panicked bool, pv interface{}) {
	panicked, pv = vh.CatchPanic(func() { gas = p.RequiredGas(in) })
	return
}

// every precompile, every epoch, adversarial inputs, gas around RequiredGas and a block's worth;
// each call goes through the full check (oracles incl. panic / heap / watchdog, and the model)
// bigModExp with more gas than any block holds (outside the property's quantifier): a declared exponent length of
// 2^60 with a 1-byte modulus costs 4.6e17 gas; given 2^63 gas the contract asks make() for 2^60 bytes, which panics at
// once (no allocation happens above the allocator's limit).  Recorded as an observation, and the model must say
// the same (C07_never_panics_needs_gas_bound_refuted).
func (ch *checker) modexpBeyondBlockGas() {
	in := append(append(lenField(big.NewInt(0)), lenField(pow2(60))...), lenField(big.NewInt(1))...)
	in = append(in, 3, 5)
	for _, gas := range []uint64{1 << 63, gasLimit} {
		k := &tcase{Kind: "call", Height: 40000, Gas: gas, Value: "0x0", Caller: ha(addrCaller), Target: "0x5", Data: hexb(in),
			Accts: baseAccts(nil, nil, nil), Class: "observe/modexp-beyond-block-gas"}
		st := buildState(k)
		caller := addr0x(k.Caller)
		ctx := vm.Context{CanTransfer: core.CanTransfer, Transfer: core.Transfer, GetHash: getHash,
			Origin: caller, GasPrice: big.NewInt(gasPriceV), Coinbase: common.HexToAddress(coinbaseHx), GasLimit: gasLimit,
			BlockNumber: big.NewInt(k.Height), Time: big.NewInt(timeV), Difficulty: big.NewInt(diffV)}
		evm := vm.NewEVM(ctx, st, params.MainnetChainConfig, vm.Config{})
		obs := "ok"
		pan, _ := vh.CatchPanic(func() {
			_, _, err := evm.Call(vm.AccountRef(caller), addr0x(k.Target), in, k.Gas, new(big.Int))
			obs = errClass(err)
		})
		if pan {
			obs = "panic"
			ch.c.Count("observed/bigModExp-panics-when-given-more-gas-than-a-block-holds (4.6e17)")
		}
		ans := ch.m.Ask(k.request(false, 3000000, "-"))
		ch.c.Correspond("RunPrecompiledContract(bigModExp) beyond block gas~Interp.run_precompile (result class incl. panic)", string(mustJSON(k)), obs, strings.SplitN(ans, " ", 2)[0])
	}
}

func (ch *checker) precompileStream(g *gen) {
	c := ch.c
	ch.modexpBeyondBlockGas()
	heights := []int64{10000, 30000, 40000}
	for p := int64(1); p <= 9; p++ {
		inner := precInner[byte(p)]
		tripped := false
		inputs := g.adversarialInputs(p)
		riskyOK := map[string]bool{}
		if p == 5 {
			// inputs that would make a broken contract allocate without bound go to a child process first
			var ks []*tcase
			var ins [][]byte
			for _, in := range inputs {
				if modexpRisky(in) {
					ks = append(ks, &tcase{Kind: "call", Height: 40000, Gas: gasLimit, Value: "0x0", Caller: ha(addrCaller), Target: "0x5", Data: hexb(in),
						Accts: baseAccts(nil, nil, nil), Class: "precompile-stream/5"})
					ins = append(ins, in)
				}
			}
			for i, ok := range ch.probeBatch(ks) {
				riskyOK[string(ins[i])] = ok
			}
			c.Note("precompile stream: %d bigModExp inputs with a length field >= 2^20 were first run in a child process", len(ks))
		}
		for idx, in := range inputs {
			if p == 5 && tripped && modexpDanger(in) >= 1<<26 {
				c.Count("precompile-stream/skipped-after-violation")
				continue // do not let a broken contract exhaust the machine: one replay is enough
			}
			var req uint64
			if inner != nil {
				var pan bool
				var pv interface{}
				req, pan, pv = safeRequiredGas(inner, in)
				if pan {
					c.Violate(fmt.Sprintf("precompile-requiredgas-panic/%d/%s", p, firstLine(fmt.Sprint(pv))), fmt.Sprintf("RequiredGas of precompile %d panicked: %v", p, pv), map[string]string{"precompile": fmt.Sprint(p), "input": vh.Hex(in)})
					continue
				}
			}
			for _, h := range heights {
				active := p <= 4 || (p <= 8 && h >= 36050)
				gases := []uint64{100000}
				if active {
					gases = []uint64{req, gasLimit}
					if req > 0 {
						gases = append(gases, req-1)
					}
					if p != 5 {
						gases = append(gases, 0, req+1)
					}
					if p <= 4 && h != heights[idx%3] {
						gases = []uint64{req} // the same contract in every epoch: the full gas set once
					}
					if req > gasLimit {
						gases = []uint64{gasLimit, req - 1} // cannot be paid within a block; must fail without running
						if req-1 > 1<<40 {
							gases = []uint64{gasLimit}
						}
					}
				} else if idx%8 != 0 || h == 10000 && p > 5 {
					continue // not a precompile in this epoch: a plain call to an empty account, sampled
				}
				for _, gas := range gases {
					k := &tcase{Kind: "call", Height: h, Gas: gas, Value: "0x0", Caller: ha(addrCaller), Target: hx(big.NewInt(p)), Data: hexb(in),
						Accts: baseAccts(nil, nil, nil), Class: fmt.Sprintf("precompile-stream/%d", p)}
					before := len(c.Res.Violations)
					if p == 5 && active && modexpRisky(in) && !riskyOK[string(in)] {
						c.Count("precompile-stream/left-out-after-child-crash")
						tripped = true
						continue
					}
					// the extracted model computes a 256-bit modular exponentiation in about a second: sampled
					heavy := p == 5 && len(in) > 128 && in[63] >= 31 && in[95] >= 31
					ch.check(k, len(in) <= 4096 && (p != 5 || modexpDanger(in) <= 4096) && (!heavy || (idx%16 == 0 && gas == gasLimit)))
					if len(c.Res.Violations) > before || ch.heapTripped {
						tripped = true
					}
				}
			}
		}
	}
}

// ---------------------------------------------------------------- the (offset, length) lattice

// every instruction that takes an (offset, length) pair (or a lone offset), on a deterministic lattice whose
// points sit where offset, length and offset+length cross 2^32, 2^63, 2^64 and 2^256, against buffers of
// 0 / 1 / 32 bytes, in the epochs where the instruction is valid
type latRole struct {
	name     string
	minEpoch int // 0 = always valid, 1 = from HF5
	offOnly  bool
	build    func(a *asm, off, l *big.Int)
}

func latticeRoles() []latRole {
	copyRole := func(op byte, data bool) func(a *asm, off, l *big.Int) {
		return func(a *asm, off, l *big.Int) {
			if data {
				a.push(l).push(off).pushU(0)
			} else {
				a.push(l).pushU(0).push(off)
			}
			if op == 0x3c {
				a.pushA(addrLib2)
			}
			a.op(op)
		}
	}
	callRole := func(op byte, in bool) func(a *asm, off, l *big.Int) {
		return func(a *asm, off, l *big.Int) {
			if in {
				a.pushU(0).pushU(0).push(l).push(off)
			} else {
				a.push(l).push(off).pushU(0).pushU(0)
			}
			if op == 0xf1 || op == 0xf2 {
				a.pushU(0)
			}
			a.pushA(addrLib).pushU(30000).op(op)
		}
	}
	rs := []latRole{
		{"calldatacopy-mem", 0, false, copyRole(0x37, false)}, {"calldatacopy-data", 0, false, copyRole(0x37, true)},
		{"codecopy-mem", 0, false, copyRole(0x39, false)}, {"codecopy-data", 0, false, copyRole(0x39, true)},
		{"extcodecopy-mem", 0, false, copyRole(0x3c, false)}, {"extcodecopy-data", 0, false, copyRole(0x3c, true)},
		{"returndatacopy-mem", 1, false, copyRole(0x3e, false)}, {"returndatacopy-data", 1, false, copyRole(0x3e, true)},
		{"mload", 0, true, func(a *asm, off, l *big.Int) { a.push(off).op(0x51) }},
		{"mstore", 0, true, func(a *asm, off, l *big.Int) { a.pushU(0xabcdef).push(off).op(0x52) }},
		{"mstore8", 0, true, func(a *asm, off, l *big.Int) { a.pushU(0xab).push(off).op(0x53) }},
		{"calldataload", 0, true, func(a *asm, off, l *big.Int) { a.push(off).op(0x35) }},
		{"sha3", 0, false, func(a *asm, off, l *big.Int) { a.push(l).push(off).op(0x20) }},
		{"log0", 0, false, func(a *asm, off, l *big.Int) { a.push(l).push(off).op(0xa0) }},
		{"log4", 0, false, func(a *asm, off, l *big.Int) { a.pushU(1).pushU(2).pushU(3).pushU(4).push(l).push(off).op(0xa4) }},
		{"return", 0, false, func(a *asm, off, l *big.Int) { a.push(l).push(off).op(0xf3) }},
		{"revert", 1, false, func(a *asm, off, l *big.Int) { a.push(l).push(off).op(0xfd) }},
		{"create", 0, false, func(a *asm, off, l *big.Int) { a.push(l).push(off).pushU(0).op(0xf0) }},
	}
	for _, o := range []byte{0xf1, 0xf2, 0xf4, 0xfa} {
		me := 0
		if o == 0xfa {
			me = 1
		}
		rs = append(rs, latRole{fmt.Sprintf("call-%02x-in", o), me, false, callRole(o, true)}, latRole{fmt.Sprintf("call-%02x-out", o), me, false, callRole(o, false)})
	}
	return rs
}

func latticePairs() [][2]*big.Int {
	lens := []*big.Int{big.NewInt(0), big.NewInt(1), big.NewInt(2), big.NewInt(31), big.NewInt(32), big.NewInt(33), pow2(32), addk(pow2(64), -1), pow2(64), addk(pow2(256), -1)}
	var out [][2]*big.Int
	seen := map[string]bool{}
	for _, l := range lens {
		sub := func(base *big.Int, k int64) *big.Int {
			v := new(big.Int).Sub(base, l)
			v.Add(v, big.NewInt(k))
			if v.Sign() < 0 {
				v.Add(v, pow2(256))
			}
			return v.Mod(v, pow2(256))
		}
		offs := []*big.Int{big.NewInt(0), big.NewInt(1), big.NewInt(31), big.NewInt(32), addk(pow2(32), -1), pow2(32), pow2(63),
			sub(pow2(64), -1), sub(pow2(64), 0), sub(pow2(64), 1), addk(pow2(64), -1), pow2(64), addk(pow2(64), 1), pow2(255), sub(pow2(256), 0), addk(pow2(256), -1)}
		for _, o := range offs {
			key := o.Text(16) + "/" + l.Text(16)
			if !seen[key] {
				seen[key] = true
				out = append(out, [2]*big.Int{o, l})
			}
		}
	}
	return out
}

func (ch *checker) offsetLengthLattice(g *gen) {
	pairs := latticePairs()
	epochs := []int64{10000, 30000, 40000}
	sizes := []int{0, 1, 32}
	n := 0
	for ri, role := range latticeRoles() {
		seenOff := map[string]bool{}
		for pi, pr := range pairs {
			off, l := pr[0], pr[1]
			if role.offOnly {
				if seenOff[off.Text(16)] {
					continue
				}
				seenOff[off.Text(16)] = true
			}
			full := role.name == "returndatacopy-data" || ch.c.Thorough()
			if !full && (pi+ri)%2 == 1 {
				continue // quick tier: every other point for the roles no bug has been seeded into yet
			}
			for bi, size := range sizes {
				if !full && bi != (pi+ri)%3 {
					continue
				}
				for ei, h := range epochs {
					if ei < role.minEpoch {
						continue
					}
					if !ch.c.Thorough() && ei != role.minEpoch+(pi+bi)%(3-role.minEpoch) {
						continue
					}
					a := &asm{}
					if size == 32 {
						a.pushU(0x1234).pushU(0).op(0x52) // 32 bytes of memory
					}
					if strings.HasPrefix(role.name, "returndatacopy") {
						a.pushU(0).pushU(0).pushU(0).pushU(0).pushU(0).pushA(addrLib).pushU(30000).op(0xf1, 0x50) // fills the return buffer
					}
					role.build(a, off, l)
					a.op(0x59).pushU(0).op(0x52).pushU(32).pushU(0).op(0xf3) // return MSIZE
					ret := (&asm{}).pushU(uint64(size)).pushU(0).op(0xf3).bytes()
					ext := make([]byte, size)
					for i := range ext {
						ext[i] = 0x5b
					}
					k := &tcase{Kind: "call", Height: h, Gas: 1000000, Value: "0x0", Caller: ha(addrCaller), Target: ha(addrMain), Data: hexb(g.r.Bytes(size)),
						Accts: baseAccts(a.bytes(), ret, ext), Class: "lattice/" + role.name, light: true}
					ch.check(k, true)
					n++
				}
			}
		}
	}
	ch.c.Note("offset/length lattice: %d cases over %d instruction roles x %d (offset, length) points x buffers of 0/1/32 bytes", n, len(latticeRoles()), len(pairs))
}

// ---------------------------------------------------------------- nested static contexts

var staticLevels = []common.Address{
	common.HexToAddress("0x5100000000000000000000000000000000000011"), common.HexToAddress("0x5200000000000000000000000000000000000012"),
	common.HexToAddress("0x5300000000000000000000000000000000000013"), common.HexToAddress("0x5400000000000000000000000000000000000014")}

// a write instruction: 0 none, 1 SSTORE, 2 LOG0, 3 CREATE, 4 SELFDESTRUCT, 5 CALL with value
func emitWrite(a *asm, w int, level int) {
	switch w {
	case 1:
		a.pushU(uint64(10 + level)).pushU(7).op(0x55)
	case 2:
		a.pushU(0).pushU(0).op(0xa0)
	case 3:
		a.pushU(0).pushU(0).pushU(0).op(0xf0, 0x50)
	case 4:
		a.pushA(addrCaller).op(0xff)
	case 5:
		a.pushU(0).pushU(0).pushU(0).pushU(0).pushU(1).pushA(addrEmpty).op(0x5a, 0xf1, 0x50)
	}
}

type nestLevel struct {
	before, after int  // write instructions around the inner call
	kind          byte // inner call instruction (0 = no inner call)
	target        common.Address
}

func nestCode(l nestLevel, level int) []byte {
	a := &asm{}
	emitWrite(a, l.before, level)
	if l.kind != 0 {
		a.pushU(0).pushU(0).pushU(0).pushU(0)
		if l.kind == 0xf1 || l.kind == 0xf2 {
			a.pushU(0)
		}
		a.pushA(l.target).op(0x5a, l.kind, 0x50)
	}
	emitWrite(a, l.after, level)
	a.op(0x00)
	return a.bytes()
}

// main -(STATICCALL or CALL)-> S1 -> S2 ... : every call kind in every order below a static frame, targets
// that are a contract / a precompile / an empty account / a failing frame, and write instructions before
// and after the inner call at every level.  (The interpreter keeps readOnly as mutable state that
// StaticCall sets and resets: what a frame may do AFTER an inner call came back is the point.)
func (g *gen) staticNesting() []*tcase {
	r := g.r
	var out []*tcase
	kinds := []byte{0xf1, 0xf2, 0xf4, 0xfa}
	emit := func(top byte, levels []nestLevel, class string, heights []int64) {
		main := &asm{}
		main.pushU(0).pushU(0).pushU(0).pushU(0)
		if top == 0xf1 {
			main.pushU(0)
		}
		main.pushA(staticLevels[0]).op(0x5a, top, 0x50)
		main.pushU(2).pushU(1).op(0x55).op(0x00) // a write of its own once the static frame is back
		accts := baseAccts(main.bytes(), libWriter(), libReverter())
		for i, l := range levels {
			accts = append(accts, acct{Addr: ha(staticLevels[i]), Nonce: 1, Balance: "0xa", Code: hexb(nestCode(l, i+1)), Storage: map[string]string{"0x7": "0x1"}})
		}
		for _, h := range heights {
			out = append(out, &tcase{Kind: "call", Height: h, Gas: 2000000, Value: "0x0", Caller: ha(addrCaller), Target: ha(addrMain), Data: "-", Accts: accts, Class: class})
		}
	}
	post := []int64{36050 + int64(r.Intn(50000))}
	both := []int64{22800 + int64(r.Intn(13000)), 36050 + int64(r.Intn(50000))}
	type tgt struct {
		addr common.Address
		l2   *nestLevel
	}
	targets := []tgt{{staticLevels[1], &nestLevel{}}, {staticLevels[1], &nestLevel{after: 1}}, {common.BytesToAddress([]byte{4}), nil}, {addrEmpty, nil}, {addrNone, nil}, {addrLib2, nil}}
	i := 0
	for _, k1 := range kinds {
		for _, t := range targets {
			for w := 1; w <= 5; w++ {
				levels := []nestLevel{{0, w, k1, t.addr}}
				if t.l2 != nil {
					levels = append(levels, *t.l2)
				}
				hs := post
				if i%3 == 0 {
					hs = both
				}
				emit(0xfa, levels, "scn/static-nest-2", hs)
				i++
			}
		}
	}
	for w := 1; w <= 5; w++ {
		emit(0xfa, []nestLevel{{w, 0, 0xfa, addrLib}}, "scn/static-nest-before", both)
		emit(0xf1, []nestLevel{{0, 0, 0xfa, staticLevels[1]}, {0, w, 0xfa, addrEmpty}}, "scn/static-nest-under-call", post)
	}
	for j := 0; j < g.c.Scale(60, 3000); j++ {
		depth := 2 + r.Intn(3)
		var levels []nestLevel
		for d := 0; d < depth; d++ {
			l := nestLevel{kind: kinds[r.Intn(4)]}
			if d == depth-1 {
				l.target = []common.Address{common.BytesToAddress([]byte{byte(1 + r.Intn(9))}), addrEmpty, addrNone, addrLib2, addrLib}[r.Intn(5)]
				if r.Chance(20) {
					l.kind = 0
				}
			} else {
				l.target = staticLevels[d+1]
			}
			switch r.Intn(4) {
			case 0:
				l.before = 1 + r.Intn(5)
			case 1, 2:
				l.after = 1 + r.Intn(5)
			}
			levels = append(levels, l)
		}
		top := byte(0xfa)
		if r.Chance(25) {
			top = 0xf1
		}
		emit(top, levels, fmt.Sprintf("scn/static-nest-random-%d", depth), both[r.Intn(2):][:1])
	}
	return out
}

// ---------------------------------------------------------------- factories: several creations in one call tree

// init codes that jump before they return their runtime code.  kind 0: valid jump; 1: jump into push data;
// 2: jump to an offset beyond a shorter sibling; 3: JUMPI taken to a valid destination.  `pad` JUMPDEST/PUSH bytes
// make the lengths (and the positions of the destinations) differ.
func jumpingInit(kind, pad int, runtime []byte, r *vh.RNG) []byte {
	a := newLasm()
	switch kind {
	case 1:
		a.pushU(5).op(0x56)    // JUMP to byte 5 ...
		a.op(0x61, 0x5b, 0x5b) // ... which is push data looking like JUMPDEST
		a.op(0x00)
	case 3:
		a.pushU(1)
		a.pushL("go").op(0x57, 0xfe)
	default:
		a.pushL("go").op(0x56, 0xfe)
	}
	for i := 0; i < pad; i++ {
		if r.Chance(30) {
			a.op(0x60, 0x5b) // PUSH1 0x5b: data that looks like a destination
		} else {
			a.op(0x5b)
		}
	}
	if kind == 2 {
		// a second hop far into the code
		a.label("go")
		a.pushL("far").op(0x56)
		for i := 0; i < 40; i++ {
			a.op(0x60, 0x5b)
		}
		a.label("far")
	} else {
		a.label("go")
	}
	// return the runtime code: CODECOPY(0, off, len) RETURN(0, len)
	a.pushU(uint64(len(runtime)))
	a.pushL("rt")
	a.pushU(0).op(0x39).pushU(uint64(len(runtime))).pushU(0).op(0xf3)
	a.labels["rt"] = len(a.b) // not a JUMPDEST: the runtime code starts here
	code := a.done()
	return append(code, runtime...)
}

func jumpingRuntime(v int) []byte {
	switch v % 4 {
	case 0:
		return []byte{0x60, 0x03, 0x56, 0x5b, 0x60, 0x01, 0x60, 0x00, 0x55, 0x00} // PUSH1 3 JUMP JUMPDEST SSTORE(0,1) STOP
	case 1:
		return []byte{0x60, 0x05, 0x56, 0x60, 0x5b, 0x5b, 0x00} // PUSH1 5 JUMP PUSH1 0x5b JUMPDEST STOP (valid: byte 5)
	case 2:
		return []byte{0x60, 0x04, 0x56, 0x60, 0x5b, 0x00} // jump into push data
	}
	return []byte{0x00}
}

// a factory: for each init code, copy it from the tail of the factory's own code into memory, CREATE it, and
// (optionally) CALL the new contract; pre-existing contracts with jumps are called in between
func factoryCode(inits [][]byte, callChild []bool, between []common.Address) []byte {
	a := newLasm()
	for i, ic := range inits {
		a.pushU(uint64(len(ic)))
		a.pushL(fmt.Sprintf("init%d", i))
		a.pushU(0).op(0x39)                                 // CODECOPY(0, off_i, len_i)
		a.pushU(uint64(len(ic))).pushU(0).pushU(0).op(0xf0) // CREATE(0, 0, len_i)
		if callChild[i] {
			a.pushU(0).pushU(0).pushU(0).pushU(0).pushU(0).op(0x85).pushU(200000).op(0xf1, 0x50) // CALL(200000, child, 0, ...) POP
		}
		a.op(0x50)
		if i < len(between) {
			a.pushU(0).pushU(0).pushU(0).pushU(0).pushU(0).pushA(between[i]).pushU(200000).op([]byte{0xf1, 0xf2}[i%2], 0x50)
			a.pushU(0).pushU(0).pushU(0).pushU(0).pushA(between[i]).pushU(200000).op(0xf4, 0x50)
		}
	}
	a.op(0x00)
	for i, ic := range inits {
		a.labels[fmt.Sprintf("init%d", i)] = len(a.b)
		a.b = append(a.b, ic...)
	}
	return a.done()
}

func (g *gen) factories() []*tcase {
	r := g.r
	var out []*tcase
	emit := func(inits [][]byte, class string) {
		calls := make([]bool, len(inits))
		for i := range calls {
			calls[i] = r.Chance(60)
		}
		lib := append([]byte{0x60, 0x07, 0x56}, append(make([]byte, 4), 0x5b, 0x60, 0x01, 0x60, 0x02, 0x55, 0x00)...) // jump over 4 STOP bytes
		lib2 := []byte{0x60, 0x04, 0x56, 0x60, 0x5b, 0x00}                                                            // jump into push data
		fac := factoryCode(inits, calls, []common.Address{addrLib, addrLib2, addrLib})
		for _, h := range g.heights() {
			// a failing creation burns 63/64 of what is left: enough gas for four of them in a row
			out = append(out, &tcase{Kind: "call", Height: h, Gas: 1 << 40, Value: "0x0", Caller: ha(addrCaller), Target: ha(addrMain), Data: "-",
				Accts: baseAccts(fac, lib, lib2), Class: class})
		}
		// the factory itself as the init code of a transaction-level creation
		out = append(out, &tcase{Kind: "create", Height: g.oneHeight(), Gas: 1 << 40, Value: "0x0", Caller: ha(addrCaller), Target: "0x0", Data: hexb(fac),
			Accts: baseAccts(nil, lib, lib2), Class: class + "-top"})
	}
	mk := func(kind, pad, rt int) []byte { return jumpingInit(kind, pad, jumpingRuntime(rt), r) }
	// fixed: short then long, long then short, same length but different destinations, invalid jumps after valid ones
	emit([][]byte{mk(0, 0, 0), mk(0, 60, 1)}, "scn/factory-fixed")
	emit([][]byte{mk(0, 60, 1), mk(0, 0, 0)}, "scn/factory-fixed")
	emit([][]byte{mk(0, 3, 0), mk(1, 3, 0)}, "scn/factory-fixed")
	emit([][]byte{mk(1, 0, 2), mk(0, 2, 0), mk(2, 5, 1)}, "scn/factory-fixed")
	emit([][]byte{mk(3, 1, 0), mk(2, 0, 3), mk(0, 90, 2), mk(3, 7, 1)}, "scn/factory-fixed")
	emit([][]byte{mk(0, 5, 0), mk(0, 5, 0), mk(0, 6, 0)}, "scn/factory-fixed") // identical init code twice, then a different one
	// nested: an init code that is itself a factory
	inner := factoryCode([][]byte{mk(0, 30, 1), mk(0, 1, 0)}, []bool{true, false}, nil)
	emit([][]byte{mk(0, 2, 0), inner, mk(2, 0, 1)}, "scn/factory-nested")
	for i := 0; i < g.c.Scale(25, 1500); i++ {
		n := 2 + r.Intn(3)
		var inits [][]byte
		for j := 0; j < n; j++ {
			inits = append(inits, mk(r.Intn(4), r.Intn(100), r.Intn(4)))
		}
		emit(inits, "scn/factory-random")
	}
	return out
}

// ---------------------------------------------------------------- code ending in a (truncated) PUSH, with jumps

// Deterministic family: code of exactly L bytes (L a multiple of 8: the boundary of the jump-destination bitmap)
// whose last 1..3 bytes are a PUSH1..PUSH32 with truncated data, and that executes a JUMP / JUMPI to a valid JUMPDEST
// and to an invalid destination (the lazy jump-destination analysis runs at the first jump).  Padded with JUMPDEST /
// STOP / PUSH1 bytes.  Each program runs as the code of a called contract and as transaction-level init code.
func truncTailProgram(L, n, tl, variant, pad int) []byte {
	last := byte(L - 1) // the trailing PUSH itself (tl = 1) or its data: never a valid destination
	var body []byte
	switch variant {
	case 0: // JUMP to a valid destination
		body = []byte{0x60, 0x03, 0x56, 0x5b}
	case 1: // JUMP to an invalid destination
		body = []byte{0x60, last, 0x56}
	case 2: // JUMPI taken, valid
		body = []byte{0x60, 0x01, 0x60, 0x05, 0x57, 0x5b}
	case 3: // JUMPI taken, invalid
		body = []byte{0x60, 0x01, 0x60, last, 0x57}
	default: // JUMP valid, JUMPI valid, JUMPI invalid
		body = []byte{0x60, 0x03, 0x56, 0x5b, 0x60, 0x01, 0x60, 0x09, 0x57, 0x5b, 0x60, 0x01, 0x60, last, 0x57}
	}
	room := L - tl - len(body)
	if room < 0 {
		return nil
	}
	code := append([]byte{}, body...)
	switch pad {
	case 0:
		for i := 0; i < room; i++ {
			code = append(code, 0x5b)
		}
	case 1:
		for i := 0; i < room; i++ {
			code = append(code, 0x00)
		}
	default:
		if room%2 == 1 { // keep the trailing PUSH an instruction, not data of the padding
			code = append(code, 0x5b)
			room--
		}
		for i := 0; i < room; i += 2 {
			code = append(code, 0x60, 0x5b)
		}
	}
	code = append(code, byte(0x60+n-1))
	for i := 1; i < tl; i++ {
		code = append(code, 0x5b)
	}
	return code
}

func (ch *checker) truncatedPushTails() {
	epochs := []int64{10000, 30000, 40000}
	ret := (&asm{}).pushU(0).pushU(0).op(0xf3).bytes()
	names := []string{"jump-valid", "jump-invalid", "jumpi-valid", "jumpi-invalid", "all"}
	cnt := 0
	for _, L := range []int{8, 16, 24, 32, 40, 64} {
		for n := 1; n <= 32; n++ {
			for tl := 1; tl <= 3; tl++ {
				for v := 0; v < 5; v++ {
					for pad := 0; pad < 3; pad++ {
						// quick tier: one padding per point, except for PUSH32 / PUSH1 / tail of one byte (the boundary ones)
						if !ch.c.Thorough() && !(n == 32 && tl == 1) && pad != (n+tl+v+L/8)%3 {
							continue
						}
						code := truncTailProgram(L, n, tl, v, pad)
						if code == nil {
							continue
						}
						if len(code) != L {
							ch.c.Fatal("truncated-push family: program of %d bytes for L=%d", len(code), L)
						}
						h := epochs[(n+tl+v+pad)%3]
						ch.check(&tcase{Kind: "call", Height: h, Gas: 100000, Value: "0x0", Caller: ha(addrCaller), Target: ha(addrMain), Data: "-",
							Accts: baseAccts(code, ret, nil), Class: "trunc-push-tail/call-" + names[v], light: true}, true)
						ch.check(&tcase{Kind: "create", Height: h, Gas: 200000, Value: "0x0", Caller: ha(addrCaller), Target: "0x0", Data: hexb(code),
							Accts: baseAccts(nil, ret, nil), Class: "trunc-push-tail/create-" + names[v], light: true}, true)
						cnt += 2
					}
				}
			}
		}
	}
	ch.c.Note("code ending in a truncated PUSH: %d cases = code lengths {8,16,24,32,40,64} x PUSH1..PUSH32 in the last 1..3 bytes x {JUMP, JUMPI} x {valid, invalid destination} x JUMPDEST/STOP/PUSH1 padding, as called code and as init code", cnt)
}
