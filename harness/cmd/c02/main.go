// c02: correspondence between core.BlockChain and the Coq chain-store model
// (Chain/Store.v) plus the direct oracle of property C02; see harness/chainlib.
//
//go:debug randseednop=0
package main

import "gitlab.com/aquachain/aquachain/verifharness/chainlib"

func main() { chainlib.Main("C02") }
