// c19: event.Feed under seeded schedules.
//
// (a) trace validation: the instrumented feed (build tag verif, verifPoint in
// aqua/event/feed.go) records every synchronisation point; the trace is
// translated to labels of coq/Feed/FeedLTS.v and the extracted model must accept
// it as a path of the LTS and agree on the observables (deliveries, nsent per
// Send, sequence received per channel).
// (b) direct oracle on the black-box history (call/return of Send, Subscribe,
// Unsubscribe, receives with values): exactly once, nsent, no delivery after
// Unsubscribe returned, common order; a watchdog reports deadlock.
package main

import (
	"encoding/json"
	"fmt"
	"os"
	"os/exec"
	"runtime"
	"sort"
	"strings"
	"sync"
	"sync/atomic"
	"time"

	"gitlab.com/aquachain/aquachain/aqua/event"
	"gitlab.com/aquachain/aquachain/verifharness/vh"
)

// ---------------------------------------------------------------- schedule

type chanSpec struct {
	ID        int    `json:"id"`
	Cap       int    `json:"cap"`
	Recv      string `json:"recv"`       // fast | slow
	Late      bool   `json:"late"`       // subscribed by its own goroutine while sends run
	Unsub     string `json:"unsub"`      // "" | ext (another goroutine) | self (the receiver, after SelfAfter values, while it is NOT receiving) | scope
	SelfAfter int    `json:"self_after"` // for self
	Delay     int    `json:"delay"`      // pauses before the late subscribe / external unsubscribe
	ScopeExt  bool   `json:"scope_ext"`  // scope: the tracked wrapper is also unsubscribed by another goroutine, racing with Close
}

type schedule struct {
	Seed    uint64     `json:"seed"`
	Yield   int        `json:"yield_pct"`
	Sleep   int        `json:"sleep_pct"`
	Chans   []chanSpec `json:"chans"`
	Senders [][]int    `json:"senders"` // send ids per sender goroutine
	Bad     []int      `json:"bad"`     // send ids whose value has the wrong type (Send panics)
	Procs   int        `json:"procs"`
}

func genSchedule(r *vh.RNG) schedule {
	s := schedule{Seed: r.Uint64(), Yield: []int{0, 20, 50, 80}[r.Intn(4)], Sleep: []int{0, 2, 10}[r.Intn(3)]}
	nch := 1 + r.Intn(4)
	caps := []int{0, 0, 0, 1, 1, 2, 8}
	for i := 0; i < nch; i++ {
		cs := chanSpec{ID: i + 1, Cap: caps[r.Intn(len(caps))], Recv: "fast"}
		if r.Chance(40) {
			cs.Recv = "slow"
		}
		cs.Late = r.Chance(25)
		switch x := r.Intn(100); {
		case x < 25:
			cs.Unsub = "ext"
		case x < 50:
			cs.Unsub = "self"
			cs.SelfAfter = r.Intn(3)
		case x < 62:
			cs.Unsub = "scope"
			cs.ScopeExt = r.Chance(40)
		}
		cs.Delay = r.Intn(6)
		s.Chans = append(s.Chans, cs)
	}
	nsend := 1 + r.Intn(3)
	id := 1
	for i := 0; i < nsend; i++ {
		var ids []int
		for k := 1 + r.Intn(3); k > 0; k-- {
			ids = append(ids, id)
			id++
		}
		s.Senders = append(s.Senders, ids)
	}
	early := false
	for _, c := range s.Chans {
		early = early || !c.Late
	}
	if early && r.Chance(12) { // the element type is fixed by the first Subscribe, which must come first
		s.Bad = append(s.Bad, 1+r.Intn(id-1))
	}
	return s
}

func (s schedule) class() string {
	un := map[string]int{}
	unbuf, late := 0, 0
	for _, c := range s.Chans {
		if c.Unsub != "" {
			un[c.Unsub]++
		}
		if c.Cap == 0 {
			unbuf++
		}
		if c.Late {
			late++
		}
	}
	b := func(n int) string {
		if n > 0 {
			return "1"
		}
		return "0"
	}
	return fmt.Sprintf("senders=%d/chans=%d/unbuf=%s/late=%s/ext=%s/self=%s/scope=%s/badtype=%s", len(s.Senders), len(s.Chans), b(unbuf), b(late), b(un["ext"]), b(un["self"]), b(un["scope"]), b(len(s.Bad)))
}

// ---------------------------------------------------------------- running one schedule

type outcome struct {
	events   []event.VerifEvent
	deadlock bool
	dump     string
	panics   []panicRec
}

// stallTicks: number of 2 ms ticker ticks the watchdog must observe without progress (in addition to the
// wall-clock bound) before a schedule is declared deadlocked; on a starved machine ticks are dropped, so the
// verdict follows the CPU time this process actually received.
const stallTicks = 1000

// blocked reports whether `done` stays open for stallTicks observed ticks and at least d of wall time.
func blocked(done <-chan string, d time.Duration) (string, bool) {
	return blockedOr(done, d, nil)
}

// blockedOr additionally gives up at once when abort() reports true (a recorded panic: the feed may be wedged).
func blockedOr(done <-chan string, d time.Duration, abort func() bool) (string, bool) {
	start, ticks := time.Now(), 0
	tick := time.NewTicker(2 * time.Millisecond)
	defer tick.Stop()
	for {
		select {
		case v := <-done:
			return v, false
		case <-tick.C:
			if abort != nil && abort() {
				return "", true
			}
			if ticks++; ticks >= stallTicks && time.Since(start) > d {
				return "", true
			}
		}
	}
}

func pos0(tr *event.VerifTrace, point string, ch int) int {
	for i, e := range tr.Snapshot() {
		if e.Point == point && e.Ch == ch {
			return i
		}
	}
	return -1
}

func pause(r *vh.RNG, mu *sync.Mutex, n int) {
	for ; n > 0; n-- {
		mu.Lock()
		x := r.Intn(10)
		d := 1 + r.Intn(60)
		mu.Unlock()
		if x < 3 {
			time.Sleep(time.Duration(d) * time.Microsecond)
		} else {
			runtime.Gosched()
		}
	}
}

func runSchedule(s schedule, watchdog time.Duration) (out outcome) {
	feed := new(event.Feed)
	tr := event.VerifAttach(feed, s.Seed, s.Yield, s.Sleep)
	rng := vh.NewRNG(s.Seed ^ 0xabcdef)
	var rmu sync.Mutex
	var scope event.SubscriptionScope
	quit := make(chan struct{})
	var wgWork, wgRecv sync.WaitGroup
	pl := &panicLog{}
	guard := pl.guard
	defer func() { out.panics = pl.list() }()
	chans := map[int]chan int{}
	subs := map[int]event.Subscription{}
	var smu sync.Mutex
	var scoped []int
	for _, cs := range s.Chans {
		ch := make(chan int, cs.Cap)
		chans[cs.ID] = ch
		tr.RegisterChan(ch, cs.ID)
		if cs.Unsub == "scope" {
			scoped = append(scoped, cs.ID)
		}
	}
	subscribe := func(cs chanSpec) event.Subscription {
		tr.Record("sub_call", cs.ID, 0)
		var sub event.Subscription
		pl.do("Subscribe", func() { sub = feed.Subscribe(chans[cs.ID]) })
		if cs.Unsub == "scope" {
			var t event.Subscription
			pl.do("scope.Track", func() { t = scope.Track(sub) })
			if t != nil {
				sub = t
			} else {
				tr.Record("track_nil", cs.ID, 0) // the scope was already closed: stays subscribed
			}
		}
		if cs.Unsub == "scope" && cs.ScopeExt && pos0(tr, "track_nil", cs.ID) < 0 {
			wrapped := sub
			wgWork.Add(1)
			go guard(func() {
				defer wgWork.Done()
				pause(rng, &rmu, cs.Delay*2)
				tr.Record("sunsub_call", cs.ID, 0)
				pl.do("scopeSub.Unsubscribe", func() { wrapped.Unsubscribe() }) // unsubscribes and leaves the scope; races with scope.Close
				tr.Record("sunsub_ret", cs.ID, 0)
			})
		}
		tr.Record("sub_ret", cs.ID, 0)
		smu.Lock()
		subs[cs.ID] = sub
		smu.Unlock()
		return sub
	}
	receiver := func(cs chanSpec, sub event.Subscription) {
		defer wgRecv.Done()
		ch := chans[cs.ID]
		got := 0
		unsubbed := false
		for {
			if cs.Unsub == "self" && !unsubbed && got >= cs.SelfAfter {
				// the subscriber stops receiving and unsubscribes: a Send may be blocked on this very channel
				pause(rng, &rmu, cs.Delay)
				tr.Record("unsub_call", cs.ID, 0)
				pl.do("Unsubscribe", func() { sub.Unsubscribe() })
				tr.Record("unsub_ret", cs.ID, 0)
				unsubbed = true
			}
			tr.Record("recv_begin", cs.ID, 0)
			select {
			case v := <-ch:
				tr.Record("recv_end", cs.ID, v)
				got++
				if cs.Recv == "slow" {
					pause(rng, &rmu, 1+got%4)
				}
			case <-quit:
				for { // drain what was delivered before the end
					select {
					case v := <-ch:
						tr.Record("recv_end", cs.ID, v)
						tr.Record("recv_begin", cs.ID, 0)
					default:
						return
					}
				}
			}
		}
	}
	start := func(cs chanSpec) {
		sub := subscribe(cs)
		wgRecv.Add(1)
		go guard(func() { receiver(cs, sub) })
		if cs.Unsub == "ext" {
			wgWork.Add(1)
			go guard(func() {
				defer wgWork.Done()
				pause(rng, &rmu, cs.Delay*3)
				tr.Record("unsub_call", cs.ID, 0)
				pl.do("Unsubscribe", func() { sub.Unsubscribe() })
				tr.Record("unsub_ret", cs.ID, 0)
				pl.do("Unsubscribe", func() { sub.Unsubscribe() }) // idempotent
			})
		}
	}
	for _, cs := range s.Chans {
		if !cs.Late {
			cs := cs
			guard(func() { start(cs) })
		}
	}
	for _, cs := range s.Chans {
		if cs.Late {
			cs := cs
			wgWork.Add(1)
			go guard(func() {
				defer wgWork.Done()
				pause(rng, &rmu, cs.Delay*2)
				start(cs)
			})
		}
	}
	if len(scoped) > 0 {
		wgWork.Add(1)
		go guard(func() {
			defer wgWork.Done()
			pause(rng, &rmu, 2+len(scoped)*3)
			// unsubscribe-call for every subscription tracked at this moment
			var mine []int
			smu.Lock()
			for _, id := range scoped {
				if _, ok := subs[id]; ok {
					mine = append(mine, id)
				}
			}
			smu.Unlock()
			tr.Record("scope_close_call", 0, 0)
			pl.do("scope.Close", func() { scope.Close() })
			tr.Record("scope_close_ret", 0, 0)
			probe := event.NewSubscription(func(q <-chan struct{}) error { <-q; return nil })
			var t event.Subscription
			pl.do("scope.Track", func() { t = scope.Track(probe) })
			if t != nil {
				tr.Record("scope_track_after_close", 0, 0)
			}
			probe.Unsubscribe()
			_ = mine
		})
	}
	for _, ids := range s.Senders {
		ids := ids
		wgWork.Add(1)
		go guard(func() {
			defer wgWork.Done()
			for _, id := range ids {
				pause(rng, &rmu, 1)
				tr.Record("send_call", id, 0)
				bad := false
				for _, b := range s.Bad {
					bad = bad || b == id
				}
				if bad { // wrong element type: Send must panic and leave nothing locked
					if p, _ := vh.CatchPanic(func() { feed.Send(fmt.Sprint("bad", id)) }); p {
						tr.Record("send_panic", id, 0)
					} else {
						tr.Record("send_nopanic", id, 0)
					}
					continue
				}
				n := 0
				pl.do("Send", func() { n = feed.Send(id) })
				tr.Record("send_ret", id, n)
			}
		})
	}
	// watchdog: no new trace record for `watchdog` => deadlock
	wait := func(wg *sync.WaitGroup) bool {
		done := make(chan struct{})
		go func() { wg.Wait(); close(done) }()
		last, lastN, ticks := time.Now(), -1, 0
		tick := time.NewTicker(2 * time.Millisecond)
		defer tick.Stop()
		for {
			select {
			case <-done:
				return true
			case <-tick.C:
				// no verdict by wall-clock alone: the watchdog must itself have been scheduled `stallTicks` times
				// (ticks are dropped when the process is starved) without seeing a new trace record
				if len(pl.list()) > 0 { // a call into aqua/event panicked: the feed may be wedged, abandon the schedule now
					out.events = tr.Snapshot()
					return false
				}
				n := len(tr.Snapshot())
				if n != lastN {
					lastN, last, ticks = n, time.Now(), 0
				} else if ticks++; ticks >= stallTicks && time.Since(last) > watchdog {
					buf := make([]byte, 1<<16)
					buf = buf[:runtime.Stack(buf, true)]
					out.deadlock, out.dump = true, string(buf)
					out.events = event.VerifDetach(feed)
					return false // goroutines of this schedule are leaked
				}
			}
		}
	}
	if !wait(&wgWork) {
		return out
	}
	if len(scoped) > 0 {
		guard(func() { pl.do("scope.Count", func() { tr.Record("scope_count", 0, scope.Count()) }) })
	}
	close(quit)
	if !wait(&wgRecv) {
		return out
	}
	out.events = event.VerifDetach(feed)
	return out
}

// ---------------------------------------------------------------- trace -> labels (with the normalisation described in props/C19.json)

func translate(s schedule, evs []event.VerifEvent) ([]string, string) {
	capOf := map[int]int{}
	scoped := map[int]bool{}
	for _, c := range s.Chans {
		capOf[c.ID] = c.Cap
		scoped[c.ID] = c.Unsub == "scope"
	}
	cur := map[uint64]int{}
	ucalled := map[int]bool{}
	var ls []string
	for i, e := range evs {
		sid := cur[e.G]
		switch e.Point {
		case "sub_call", "sub_ret", "scope_close_call", "scope_close_ret", "track_nil", "sunsub_call", "sunsub_ret", "scope_track_after_close", "scope_count":
		case "subscribe":
			ls = append(ls, fmt.Sprintf("sub:%d:%d", e.Ch, capOf[e.Ch]))
		case "send_call":
			cur[e.G] = e.Ch
			ls = append(ls, fmt.Sprintf("call:%d", e.Ch))
		case "send_ret":
			ls = append(ls, fmt.Sprintf("ret:%d:%d", e.Ch, e.Arg))
		case "send_lock":
			ls = append(ls, fmt.Sprintf("lock:%d", sid))
		case "send_merge":
			bad := false
			for j := i + 1; j < len(evs); j++ {
				if evs[j].G == e.G {
					bad = evs[j].Point == "send_panic"
					break
				}
			}
			if bad { // merge + failed typecheck + token put back + f.mu released: one label, placed before the release
				ls = append(ls, fmt.Sprintf("bad:%d", sid))
			} else {
				ls = append(ls, fmt.Sprintf("merge:%d", sid))
			}
		case "send_panic", "send_nopanic":
		case "try":
			ok := false
			for j := i + 1; j < len(evs); j++ {
				if evs[j].G == e.G {
					ok = evs[j].Point == "try_ok"
					break
				}
			}
			if !ok {
				ls = append(ls, fmt.Sprintf("fail:%d:%d", sid, e.Ch))
			}
		case "try_ok":
			ls = append(ls, fmt.Sprintf("ok:%d:%d", sid, e.Ch))
		case "select_enter":
			ls = append(ls, fmt.Sprintf("sel:%d", sid))
		case "select_sent":
			ls = append(ls, fmt.Sprintf("sent:%d:%d", sid, e.Ch))
		case "select_index": // which of `cases` reflect.Select chose (1-based over the subscription cases): hint for DupLTS
			if n := len(ls); n > 0 && strings.HasPrefix(ls[n-1], fmt.Sprintf("sent:%d:", sid)) {
				ls[n-1] += fmt.Sprintf("@%d", e.Arg)
			}
		case "select_remove":
			ls = append(ls, fmt.Sprintf("srm:%d:%d", sid, e.Ch))
		case "send_unlock":
			ls = append(ls, fmt.Sprintf("unlock:%d", sid))
		case "unsub_call":
			ucalled[e.Ch] = true
			ls = append(ls, fmt.Sprintf("ucall:%d", e.Ch))
		case "unsub_ret":
			ls = append(ls, fmt.Sprintf("uret:%d", e.Ch))
		case "remove_inbox", "remove_notinbox":
			if !ucalled[e.Ch] { // Unsubscribe called by SubscriptionScope.Close
				ucalled[e.Ch] = true
				ls = append(ls, fmt.Sprintf("ucall:%d", e.Ch))
			}
			if e.Point == "remove_inbox" {
				ls = append(ls, fmt.Sprintf("rin:%d", e.Ch))
			} else {
				ls = append(ls, fmt.Sprintf("rnot:%d", e.Ch))
			}
		case "remove_lock":
			ls = append(ls, fmt.Sprintf("rlock:%d", e.Ch))
		case "remove_unlock":
			ls = append(ls, fmt.Sprintf("runlock:%d", e.Ch))
		case "remove_handoff":
			ls = append(ls, fmt.Sprintf("rhand:%d", e.Ch))
		case "recv_begin":
			ls = append(ls, fmt.Sprintf("rb:%d", e.Ch))
		case "recv_end":
			ls = append(ls, fmt.Sprintf("re:%d:%d", e.Ch, e.Arg))
		default:
			return nil, "unknown point " + e.Point
		}
	}
	// normalisation: a record is written after the event it reports; the two
	// parties of a rendez-vous may therefore report it in either order.  Move the
	// sender's report (never past the sender's own previous record) in front of
	// the peer's report of the same rendez-vous.
	moveBefore := func(from, to int) { // from > to
		x := ls[from]
		copy(ls[to+1:from+1], ls[to:from])
		ls[to] = x
	}
	for i := 0; i < len(ls); i++ {
		var c, v int
		var isPeer func(l string) bool
		self := ls[i]
		if n, _ := fmt.Sscanf(ls[i], "re:%d:%d", &c, &v); n == 2 {
			w1, w2 := fmt.Sprintf("ok:%d:%d", v, c), fmt.Sprintf("sent:%d:%d", v, c)
			isPeer = func(l string) bool { return l == w1 || l == w2 || strings.HasPrefix(l, w2+"@") }
		} else if n, _ := fmt.Sscanf(ls[i], "rhand:%d", &c); n == 1 {
			suf := fmt.Sprintf(":%d", c)
			isPeer = func(l string) bool { return strings.HasPrefix(l, "srm:") && strings.HasSuffix(l, suf) }
		} else {
			continue
		}
		// the k-th report of the peer belongs to the k-th report of this kind (a channel subscribed twice gets
		// the same value twice and may have two removers)
		peers, selfs := 0, 0
		for j := 0; j <= i; j++ {
			if j < i && isPeer(ls[j]) {
				peers++
			}
			if ls[j] == self {
				selfs++
			}
		}
		if peers >= selfs {
			continue
		}
		for j := i + 1; j < len(ls); j++ {
			if isPeer(ls[j]) {
				moveBefore(j, i)
				break
			}
		}
	}
	return ls, ""
}

// stripHints removes the `@index` hints (used only by DupLTS) from a label list.
func stripHints(ls []string) []string {
	out := make([]string, len(ls))
	for i, l := range ls {
		if k := strings.IndexByte(l, '@'); k >= 0 {
			l = l[:k]
		}
		out[i] = l
	}
	return out
}

// ---------------------------------------------------------------- black-box oracle

type verdict struct{ sig, what string }

func oracle(s schedule, evs []event.VerifEvent) (observed string, vs []verdict) {
	pos := func(point string, ch int) int {
		for i, e := range evs {
			if e.Point == point && e.Ch == ch {
				return i
			}
		}
		return -1
	}
	scopeCall, scopeRet := pos("scope_close_call", 0), pos("scope_close_ret", 0)
	recvSeq := map[int][]int{}
	recvPos := map[[2]int][]int{} // (chan,value) -> positions of recv_end
	nsent := map[int]int{}
	var sids []int
	total := 0
	for i, e := range evs {
		switch e.Point {
		case "recv_end":
			recvSeq[e.Ch] = append(recvSeq[e.Ch], e.Arg)
			recvPos[[2]int{e.Ch, e.Arg}] = append(recvPos[[2]int{e.Ch, e.Arg}], i)
			total++
		case "send_ret":
			nsent[e.Ch] = e.Arg
			sids = append(sids, e.Ch)
		}
	}
	sort.Ints(sids)
	if pos("scope_track_after_close", 0) >= 0 {
		vs = append(vs, verdict{"scope-track-after-close", "SubscriptionScope.Track returned a subscription after Close had returned"})
	}
	for _, e := range evs {
		if e.Point == "scope_count" && e.Arg != 0 {
			vs = append(vs, verdict{"scope-count-after-close", fmt.Sprintf("SubscriptionScope.Count() = %d after Close and all Unsubscribes returned", e.Arg)})
		}
	}
	for _, e := range evs {
		if e.Point == "send_nopanic" {
			vs = append(vs, verdict{"badtype-send-accepted", fmt.Sprintf("Send(%d) with a value of the wrong type did not panic", e.Ch)})
		}
	}
	for _, cs := range s.Chans {
		c := cs.ID
		subRet := pos("sub_ret", c)
		unCall, unRet := pos("unsub_call", c), pos("unsub_ret", c)
		if cs.Unsub == "scope" { // unsubscribed by scope.Close (if it was tracked in time; Track returns nil after Close)
			unCall, unRet = scopeCall, scopeRet
			if pos("track_nil", c) >= 0 {
				unCall, unRet = -1, -1
			}
			// the wrapper may also have been unsubscribed directly: the earliest call / return counts
			if x := pos("sunsub_call", c); x >= 0 && (unCall < 0 || x < unCall) {
				unCall = x
			}
			if x := pos("sunsub_ret", c); x >= 0 && (unRet < 0 || x < unRet) {
				unRet = x
			}
		}
		for _, sid := range sids {
			call, ret := pos("send_call", sid), pos("send_ret", sid)
			n := len(recvPos[[2]int{c, sid}])
			if n > 1 {
				vs = append(vs, verdict{"duplicate-delivery", fmt.Sprintf("value %d received %d times on channel %d", sid, n, c)})
			}
			if subRet >= 0 && subRet < call && (unCall < 0 || unCall > ret) && n != 1 {
				vs = append(vs, verdict{"lost-delivery", fmt.Sprintf("channel %d was subscribed before Send(%d) was called and not unsubscribed before it returned, but received the value %d times", c, sid, n)})
			}
			if unRet >= 0 && unRet < call && n > 0 {
				vs = append(vs, verdict{"delivery-after-unsubscribe", fmt.Sprintf("channel %d received value %d of a Send called after Unsubscribe had returned", c, sid)})
			}
		}
		// unbuffered channel: a receive that began after Unsubscribe returned must not yield a value
		if cs.Cap == 0 && unRet >= 0 {
			lastBegin := -1
			for i, e := range evs {
				if e.Ch != c {
					continue
				}
				if e.Point == "recv_begin" {
					lastBegin = i
				}
				if e.Point == "recv_end" && lastBegin > unRet {
					vs = append(vs, verdict{"delivery-after-unsubscribe", fmt.Sprintf("unbuffered channel %d: receive begun after Unsubscribe returned got value %d", c, e.Arg)})
				}
			}
		}
	}
	for _, sid := range sids {
		n := 0
		for _, cs := range s.Chans {
			n += len(recvPos[[2]int{cs.ID, sid}])
		}
		if n != nsent[sid] {
			vs = append(vs, verdict{"nsent-mismatch", fmt.Sprintf("Send(%d) returned %d but %d channels received the value", sid, nsent[sid], n)})
		}
	}
	// common order
	for i := 0; i < len(s.Chans); i++ {
		for j := i + 1; j < len(s.Chans); j++ {
			a, b := recvSeq[s.Chans[i].ID], recvSeq[s.Chans[j].ID]
			idx := map[int]int{}
			for k, v := range b {
				idx[v] = k
			}
			lastIdx, lastV := -1, 0
			for _, v := range a {
				if k, ok := idx[v]; ok {
					if k < lastIdx {
						vs = append(vs, verdict{"order-mismatch", fmt.Sprintf("channels %d and %d saw values %d and %d in different orders", s.Chans[i].ID, s.Chans[j].ID, lastV, v)})
					}
					lastIdx, lastV = k, v
				}
			}
		}
	}
	var ns, rv []string
	for _, sid := range sids {
		ns = append(ns, fmt.Sprintf("%d:%d", sid, nsent[sid]))
	}
	ids := []int{}
	for _, cs := range s.Chans {
		if pos("subscribe", cs.ID) >= 0 {
			ids = append(ids, cs.ID)
		}
	}
	sort.Ints(ids)
	for _, c := range ids {
		var xs []string
		for _, v := range recvSeq[c] {
			xs = append(xs, fmt.Sprint(v))
		}
		rv = append(rv, fmt.Sprintf("%d:%s", c, strings.Join(xs, ".")))
	}
	return fmt.Sprintf("accepted d=%d nsent=%s recv=%s panicked=false", total, strings.Join(ns, ","), strings.Join(rv, ";")), vs
}

func evText(evs []event.VerifEvent) []string {
	var out []string
	for _, e := range evs {
		out = append(out, fmt.Sprintf("g%d %s ch=%d arg=%d", e.G, e.Point, e.Ch, e.Arg))
	}
	return out
}

// ---------------------------------------------------------------- Send with a value of the wrong type

func typeMismatch(c *vh.Ctx, m *vh.Model) {
	feed := new(event.Feed)
	ch := make(chan int, 1)
	if p, v := vh.CatchPanic(func() { feed.Subscribe(ch) }); p {
		c.Violate("feed-panic/Subscribe", fmt.Sprint("Subscribe panicked: ", v), map[string]interface{}{"steps": []string{"feed.Subscribe(chan int)"}})
		return
	}
	panicked, _ := vh.CatchPanic(func() { feed.Send("not an int") })
	res := make(chan string, 1)
	go func() {
		if p, _ := vh.CatchPanic(func() { feed.Subscribe(make(chan int, 1)) }); p {
			res <- "panic"
			return
		}
		res <- "true"
	}()
	observed := "true"
	if v, stuck := blocked(res, 2*time.Second); stuck {
		observed = "false"
	} else {
		observed = v
	}
	c.Eval("typemismatch", "typemismatch")
	c.Correspond("Feed.Subscribe-after-Send-panic~enabled", "enabled sub:2:1 sub:1:1 call:1 lock:1 bad:1", observed, m.Ask("enabled sub:2:1 sub:1:1 call:1 lock:1 bad:1"))
	if panicked && observed == "false" {
		c.Violate("send-typemismatch-leaks-mu", "Feed.Send(value of the wrong type) panics with f.mu locked: every later Subscribe / Send / Unsubscribe on the feed blocks forever",
			map[string]interface{}{"steps": []string{"feed.Subscribe(chan int)", "recover(feed.Send(\"not an int\"))", "feed.Subscribe(chan int) -> blocks"}, "model_trace": "sub:1:1 call:1 lock:1 bad:1"})
	}
}

// ---------------------------------------------------------------- thorough tier: the same run under the race detector

func raceRun(c *vh.Ctx) {
	root := os.Getenv("VERIF_ROOT")
	if !c.Thorough() || os.Getenv("C19_RACE_CHILD") != "" || root == "" || c.Replay != "" {
		return
	}
	bin := root + "/bin/c19_race"
	build := exec.Command("go", "build", "-race", "-tags", "verif", "-o", bin, "./cmd/c19")
	build.Dir = root + "/harness"
	if out, err := build.CombinedOutput(); err != nil {
		c.Note("race variant skipped: go build -race failed: %v %s", err, clipS(string(out), 300))
		return
	}
	run := exec.Command(bin, "-seed", fmt.Sprint(c.Seed), "-tier", "quick", "-out", c.OutDir+"/race", "-model", c.ModelBin)
	run.Env = append(os.Environ(), "C19_RACE_CHILD=1", "GORACE=halt_on_error=0")
	out, err := run.CombinedOutput()
	n := strings.Count(string(out), "WARNING: DATA RACE")
	c.Count("race-variant/schedules")
	c.Note("race variant (go build -race, quick tier, same seed): %d data race reports, exit %v, summary %s", n, err, clipS(lastLine(string(out)), 200))
	if n > 0 {
		i := strings.Index(string(out), "WARNING: DATA RACE")
		c.Violate("data-race", "the race detector reports a data race in event.Feed under the C19 schedules", map[string]interface{}{"report": clipS(string(out)[i:], 3000), "seed": c.Seed})
	}
	var child struct {
		N int `json:"n_disagreements"`
		V []struct {
			Signature string `json:"signature"`
			What      string `json:"what"`
		} `json:"violations"`
	}
	if b, e := os.ReadFile(c.OutDir + "/race/result.json"); e == nil && json.Unmarshal(b, &child) == nil {
		for _, v := range child.V {
			c.Violate("race-variant/"+v.Signature, v.What, map[string]interface{}{"seed": c.Seed, "variant": "-race"})
		}
		if child.N > 0 {
			c.Violate("race-variant/trace-rejected", "under -race a recorded trace is not a path of the LTS", map[string]interface{}{"seed": c.Seed, "count": child.N})
		}
	}
}

func clipS(s string, n int) string {
	if len(s) > n {
		return s[:n]
	}
	return s
}

func lastLine(s string) string {
	ls := strings.Split(strings.TrimSpace(s), "\n")
	return ls[len(ls)-1]
}

// ---------------------------------------------------------------- main

func main() {
	c := vh.Init("C19")
	m := c.StartModel()
	defer m.Close()
	c.Res.Rule = "Feed: one case = one seeded schedule of 1-3 sender goroutines (1-3 Sends each) x 1-4 subscriber channels (cap 0/1/2/8, fast or slow receiver, subscribed before or during the sends) x unsubscription (none / from another goroutine / by the subscriber itself after it stopped receiving, i.e. while a Send may be blocked on that very channel / SubscriptionScope.Close), with yields and micro-sleeps drawn from the seed at every verifPoint; non-trivial and distinct = distinct sequence of LTS labels recorded. TypeMux: 50 directed schedules (3 or 4 subscribers of one type, optionally a second type; a Post blocked on the gated reader at position b; Unsubscribe of the subscriber at position u, for every (b,u); then a second Post, Stop, Post after Stop) plus seeded schedules of 3-5 subscriptions over 1-2 types (single- and multi-type, fast/slow readers, early/late, unsubscribed by another goroutine or by the reader itself), 1-3 posters, Stop during or after the posts"
	var scheds []schedule
	var muxReplay *muxSched
	if c.Replay != "" {
		b, err := os.ReadFile(c.Replay)
		if err != nil {
			c.Fatal("replay: %v", err)
		}
		var rp struct {
			Replay struct {
				Schedule    *schedule `json:"schedule"`
				MuxSchedule *muxSched `json:"mux_schedule"`
			} `json:"replay"`
		}
		if err := json.Unmarshal(b, &rp); err != nil {
			c.Fatal("replay: %v", err)
		}
		muxReplay = rp.Replay.MuxSchedule
		if rp.Replay.Schedule != nil {
			for i := 0; i < 300; i++ { // the schedule fixes the arrangement; the interleaving is re-sampled
				s := *rp.Replay.Schedule
				s.Seed += uint64(i)
				scheds = append(scheds, s)
			}
		}
	} else {
		n := c.Scale(2400, 60000)
		for i := 0; i < n; i++ {
			scheds = append(scheds, genSchedule(c.Rng))
		}
	}
	typeMismatch(c, m)
	watchdog := 3 * time.Second
	type result struct {
		s       schedule
		out     outcome
		skipped bool
	}
	var nDead int32
	results := make([]result, len(scheds))
	workers := 6
	var wg sync.WaitGroup
	next := make(chan int)
	for w := 0; w < workers; w++ {
		wg.Add(1)
		go func() {
			defer wg.Done()
			for i := range next {
				if atomic.LoadInt32(&nDead) >= 6 { // enough evidence; do not spend 3 s on every further schedule
					results[i] = result{s: scheds[i], skipped: true}
					continue
				}
				results[i] = result{s: scheds[i], out: runSchedule(scheds[i], watchdog)}
				if results[i].out.deadlock {
					atomic.AddInt32(&nDead, 1)
				}
			}
		}()
	}
	for i := range scheds {
		next <- i
	}
	close(next)
	wg.Wait()
	var reqs, dreqs []string
	var reqIdx []int
	labels := make([][]string, len(results))
	for i, r := range results {
		if r.skipped {
			c.Count("skipped-after-deadlocks")
			continue
		}
		if len(r.out.panics) > 0 { // reported before (and instead of) the deadlock a wedged feed then causes
			c.Eval(r.s.class(), "")
			p0 := r.out.panics[0]
			c.Violate("feed-panic/"+p0.Op, "aqua/event panicked in "+p0.Op+": "+p0.Val, map[string]interface{}{"schedule": r.s, "panics": r.out.panics, "trace": evText(r.out.events)})
			continue
		}
		if r.out.deadlock {
			c.Eval(r.s.class(), "")
			c.Violate("deadlock", "no progress for "+watchdog.String()+" with every subscriber receiving or unsubscribing",
				map[string]interface{}{"schedule": r.s, "trace": evText(r.out.events), "goroutines": r.out.dump})
			continue
		}
		ls, err := translate(r.s, r.out.events)
		if err != "" {
			c.Fatal("translate: %s", err)
		}
		labels[i] = ls
		reqs = append(reqs, "run "+strings.Join(stripHints(ls), " "))
		dreqs = append(dreqs, "drun "+strings.Join(ls, " "))
		reqIdx = append(reqIdx, i)
	}
	answers := m.AskAll(reqs)
	danswers := m.AskAll(dreqs)
	for k, i := range reqIdx {
		r := results[i]
		observed, vs := oracle(r.s, r.out.events)
		c.Eval(r.s.class(), strings.Join(labels[i], " "))
		for _, e := range r.out.events {
			switch e.Point {
			case "remove_handoff", "remove_lock", "remove_inbox", "select_sent", "try_ok":
				c.Count("point/" + e.Point)
			}
		}
		if !c.Correspond("Feed(trace of verifPoints)~FeedLTS.run", reqs[k], observed, answers[k]) && len(c.Res.Disagreements) <= 3 {
			c.Note("disagreement schedule %+v raw trace %v", r.s, evText(r.out.events))
		}
		// the same trace must also be a path of the LTS without the one-subscription-per-channel restriction
		c.Correspond("Feed(trace of verifPoints)~DupLTS.drun", dreqs[k], observed, danswers[k])
		for _, v := range vs {
			c.Violate(v.sig, v.what, map[string]interface{}{"schedule": r.s, "history": evText(r.out.events)})
		}
		if i < 3 {
			c.Sample(map[string]interface{}{"schedule": r.s, "labels": strings.Join(labels[i], " "), "model": answers[k]})
		}
	}
	if c.Replay == "" || muxReplay != nil {
		muxPart(c, m, muxReplay)
	}
	if c.Replay == "" {
		dupPart(c, m)
		stormPart(c, m)
		scopePart(c, m)
	}
	raceRun(c)
	c.Assume("channels and mutexes behave as the Go language specification says; the scheduler and the memory model are not modelled (the race detector is not part of this run)")
	c.Assume("every subscriber keeps receiving until it has unsubscribed (receiver fairness); each channel value is subscribed at most once")
	c.Finish()
}
