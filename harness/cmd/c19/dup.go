// The same channel value subscribed twice to one Feed (two feedSubs, one channel).
// FeedLTS rejects this; DupLTS (coq/Feed/DupLTS.v) models it: the traces of these
// schedules must be paths of DupLTS, and the black-box statement is the one DupLTS
// proves: a completed Send delivers to the channel at least as many copies as it has
// subscriptions that were made before the call and whose Unsubscribe was not called
// before the return, never more copies than subscriptions that existed at some time
// during the call, and nsent = total number of copies.
package main

import (
	"fmt"
	"runtime"
	"strings"
	"sync"
	"time"

	"gitlab.com/aquachain/aquachain/aqua/event"
	"gitlab.com/aquachain/aquachain/verifharness/vh"
)

const watchdogDup = 3 * time.Second

type dupSched struct {
	Seed    uint64 `json:"seed"`
	Cap     int    `json:"cap"`      // capacity of the twice-subscribed channel
	Sends   int    `json:"sends"`    // number of Sends (one sender goroutine) ...
	Sends2  int    `json:"sends2"`   // ... and of a second, concurrent sender
	UnsubAt [2]int `json:"unsub_at"` // the i-th subscription of the channel is unsubscribed around this send (> Sends: never)
	Late2   bool   `json:"late2"`    // the second subscription is made while sends run
}

func genDup(r *vh.RNG) dupSched {
	s := dupSched{Seed: r.Uint64(), Cap: []int{0, 1, 8}[r.Intn(3)], Sends: 2 + r.Intn(3), Sends2: r.Intn(3), Late2: r.Chance(25)}
	s.UnsubAt = [2]int{r.Intn(s.Sends + 2), r.Intn(s.Sends + 2)}
	return s
}

func dupPart(c *vh.Ctx, m *vh.Model) {
	n := c.Scale(400, 8000)
	var scheds []dupSched
	for i := 0; i < n; i++ {
		scheds = append(scheds, genDup(c.Rng))
	}
	type res struct {
		evs    []event.VerifEvent
		dead   string
		panics []panicRec
	}
	results := make([]res, n)
	var wg sync.WaitGroup
	next := make(chan int)
	for w := 0; w < 6; w++ {
		wg.Add(1)
		go func() {
			defer wg.Done()
			for i := range next {
				evs, dead, panics := runDup(scheds[i])
				results[i] = res{evs, dead, panics}
			}
		}()
	}
	for i := range scheds {
		next <- i
	}
	close(next)
	wg.Wait()
	var reqs []string
	var idx []int
	for i, r := range results {
		s := scheds[i]
		class := fmt.Sprintf("feed/duplicate-subscription/cap=%d/late2=%v/senders=%d", s.Cap, s.Late2, 1+btoi(s.Sends2 > 0))
		if len(r.panics) > 0 {
			c.Eval(class, "")
			c.Violate("feed-panic/"+r.panics[0].Op, "aqua/event panicked in "+r.panics[0].Op+": "+r.panics[0].Val, map[string]interface{}{"dup_schedule": s, "panics": r.panics, "trace": evText(r.evs)})
			continue
		}
		if r.dead != "" {
			c.Eval(class, "")
			c.Violate("deadlock", "channel subscribed twice: no progress", map[string]interface{}{"dup_schedule": s, "trace": evText(r.evs), "goroutines": r.dead})
			continue
		}
		ls, err := translate(schedule{Chans: []chanSpec{{ID: 1, Cap: s.Cap}, {ID: 2, Cap: 8}}}, r.evs)
		if err != "" {
			c.Fatal("dup translate: %s", err)
		}
		c.Eval(class, strings.Join(ls, " "))
		reqs = append(reqs, "drun "+strings.Join(ls, " "))
		idx = append(idx, i)
	}
	answers := m.AskAll(reqs)
	for k, i := range idx {
		observed, what := dupOracle(results[i].evs)
		c.Correspond("Feed(channel subscribed twice)~DupLTS.drun", reqs[k], observed, answers[k])
		if what != "" {
			c.Violate("dup-subscription", "channel subscribed twice: "+what, map[string]interface{}{"dup_schedule": scheds[i], "history": evText(results[i].evs)})
		}
	}
}

func btoi(b bool) int {
	if b {
		return 1
	}
	return 0
}

func runDup(s dupSched) (evs []event.VerifEvent, dead string, panics []panicRec) {
	pl := &panicLog{}
	defer func() { panics = pl.list() }()
	feed := new(event.Feed)
	tr := event.VerifAttach(feed, s.Seed, 40, 5)
	rng := vh.NewRNG(s.Seed)
	var rmu sync.Mutex
	a, b := make(chan int, s.Cap), make(chan int, 8)
	tr.RegisterChan(a, 1)
	tr.RegisterChan(b, 2)
	quit := make(chan struct{})
	var wgR, wgW sync.WaitGroup
	reader := func(ch chan int, id int) {
		defer wgR.Done()
		for {
			tr.Record("recv_begin", id, 0)
			select {
			case v := <-ch:
				tr.Record("recv_end", id, v)
			case <-quit:
				for {
					select {
					case v := <-ch:
						tr.Record("recv_end", id, v)
						tr.Record("recv_begin", id, 0)
					default:
						return
					}
				}
			}
		}
	}
	subscribe := func(ch chan int, id int) event.Subscription {
		tr.Record("sub_call", id, 0)
		var sub event.Subscription
		pl.do("Subscribe", func() { sub = feed.Subscribe(ch) })
		tr.Record("sub_ret", id, 0)
		return sub
	}
	subs := [2]event.Subscription{}
	pl.guard(func() {
		subs[0] = subscribe(a, 1)
		if !s.Late2 {
			subs[1] = subscribe(a, 1)
		}
		subscribe(b, 2)
	})
	wgR.Add(2)
	go pl.guard(func() { reader(a, 1) })
	go pl.guard(func() { reader(b, 2) })
	var smu sync.Mutex
	unsub := func(i int) {
		defer wgW.Done()
		pause(rng, &rmu, 2)
		smu.Lock()
		sub := subs[i]
		smu.Unlock()
		if sub == nil {
			return
		}
		tr.Record("unsub_call", 1, 0)
		pl.do("Unsubscribe", func() { sub.Unsubscribe() })
		tr.Record("unsub_ret", 1, 0)
	}
	sender := func(first, n int) {
		defer wgW.Done()
		for id := first; id < first+n; id++ {
			for i := 0; i < 2; i++ {
				if first == 1 && id-1 == s.UnsubAt[i] {
					wgW.Add(1)
					i := i
					go pl.guard(func() { unsub(i) })
				}
			}
			pause(rng, &rmu, 1)
			tr.Record("send_call", id, 0)
			n := 0
			pl.do("Send", func() { n = feed.Send(id) })
			tr.Record("send_ret", id, n)
		}
	}
	wgW.Add(1)
	go pl.guard(func() { sender(1, s.Sends) })
	if s.Sends2 > 0 {
		wgW.Add(1)
		go pl.guard(func() { sender(100, s.Sends2) })
	}
	if s.Late2 {
		wgW.Add(1)
		go pl.guard(func() {
			defer wgW.Done()
			pause(rng, &rmu, 3)
			sub := subscribe(a, 1)
			smu.Lock()
			subs[1] = sub
			smu.Unlock()
		})
	}
	done := make(chan string)
	go func() { wgW.Wait(); close(done) }()
	if _, stuck := blockedOr(done, watchdogDup, func() bool { return len(pl.list()) > 0 }); stuck {
		buf := make([]byte, 1<<15)
		buf = buf[:runtime.Stack(buf, true)]
		return event.VerifDetach(feed), string(buf), nil
	}
	close(quit)
	wgR.Wait()
	return event.VerifDetach(feed), "", nil
}

// dupOracle evaluates the black-box statement on the history and renders the observables the model reports.
func dupOracle(evs []event.VerifEvent) (observed string, what string) {
	type send struct{ call, ret, n int }
	sends := map[int]*send{}
	var order []int
	got := map[[2]int]int{}
	seq := map[int][]string{}
	var subRet, unCall, unRet []int // positions, channel 1
	total := 0
	for i, e := range evs {
		switch e.Point {
		case "send_call":
			sends[e.Ch] = &send{call: i, ret: -1}
			order = append(order, e.Ch)
		case "send_ret":
			sends[e.Ch].ret, sends[e.Ch].n = i, e.Arg
		case "recv_end":
			got[[2]int{e.Ch, e.Arg}]++
			seq[e.Ch] = append(seq[e.Ch], fmt.Sprint(e.Arg))
			total++
		case "sub_ret":
			if e.Ch == 1 {
				subRet = append(subRet, i)
			}
		case "unsub_call":
			unCall = append(unCall, i)
		case "unsub_ret":
			unRet = append(unRet, i)
		}
	}
	var ns []string
	sorted := append([]int(nil), order...)
	for i := range sorted {
		for j := i + 1; j < len(sorted); j++ {
			if sorted[j] < sorted[i] {
				sorted[i], sorted[j] = sorted[j], sorted[i]
			}
		}
	}
	for _, id := range sorted {
		s := sends[id]
		ns = append(ns, fmt.Sprintf("%d:%d", id, s.n))
		// subscriptions of channel 1: made before the call / at some time before the return
		before, ever := 0, 0
		for _, p := range subRet {
			if p < s.call {
				before++
			}
		}
		for _, e := range evs[:s.ret] {
			if e.Point == "sub_call" && e.Ch == 1 {
				ever++
			}
		}
		calledBefore, returnedBefore := 0, 0
		for _, p := range unCall {
			if p < s.ret {
				calledBefore++
			}
		}
		for _, p := range unRet {
			if p < s.call {
				returnedBefore++
			}
		}
		lo, hi := before-calledBefore, ever-returnedBefore
		if lo < 0 {
			lo = 0
		}
		if g := got[[2]int{1, id}]; what == "" && (g < lo || g > hi) {
			what = fmt.Sprintf("Send(%d) delivered %d copies to the twice-subscribed channel, expected %d..%d", id, g, lo, hi)
		}
		if g := got[[2]int{2, id}]; what == "" && g != 1 {
			what = fmt.Sprintf("Send(%d) delivered %d copies to the once-subscribed channel", id, g)
		}
		if what == "" && s.n != got[[2]int{1, id}]+got[[2]int{2, id}] {
			what = fmt.Sprintf("Send(%d) returned %d but %d values were received", id, s.n, got[[2]int{1, id}]+got[[2]int{2, id}])
		}
	}
	return fmt.Sprintf("accepted d=%d nsent=%s recv=1:%s;2:%s panicked=false", total, strings.Join(ns, ","), strings.Join(seq[1], "."), strings.Join(seq[2], ".")), what
}
