// The same channel value subscribed twice to one Feed (two feedSubs, one channel):
// not covered by the LTS (FeedLTS.step rejects a second Subscribe of a channel id),
// so this part is black-box only.  Statement checked: a completed Send delivers to
// the channel as many copies as it has subscriptions that were made before the call
// and not unsubscribed before the return (at least), and never more copies than
// subscriptions that existed at some time during the call; nsent = total copies.
package main

import (
	"fmt"
	"runtime"
	"sync"
	"time"

	"gitlab.com/aquachain/aquachain/aqua/event"
	"gitlab.com/aquachain/aquachain/verifharness/vh"
)

func dupPart(c *vh.Ctx) {
	n := c.Scale(300, 6000)
	for i := 0; i < n; i++ {
		seed := c.Rng.Uint64()
		capA := []int{0, 1, 8}[c.Rng.Intn(3)]
		nsend := 2 + c.Rng.Intn(3)
		unsubAt := c.Rng.Intn(nsend + 1) // the first subscription of the duplicated channel is unsubscribed around this send
		what, hist := runDup(seed, capA, nsend, unsubAt)
		c.Eval(fmt.Sprintf("feed/duplicate-subscription/cap=%d", capA), fmt.Sprint(seed))
		if what != "" {
			sig := "dup-subscription"
			if what == "deadlock" {
				sig = "deadlock"
			}
			c.Violate(sig, "channel subscribed twice: "+what, map[string]interface{}{"seed": seed, "cap": capA, "sends": nsend, "unsub_at": unsubAt, "history": hist})
		}
	}
}

func runDup(seed uint64, capA, nsend, unsubAt int) (string, []string) {
	feed := new(event.Feed)
	tr := event.VerifAttach(feed, seed, 40, 5) // only for the seeded yields at the synchronisation points
	defer event.VerifDetach(feed)
	rng := vh.NewRNG(seed)
	var rmu sync.Mutex
	a, b := make(chan int, capA), make(chan int, 8)
	tr.RegisterChan(a, 1)
	tr.RegisterChan(b, 2)
	var mu sync.Mutex
	var hist []string
	rec := func(f string, x ...interface{}) int {
		mu.Lock()
		defer mu.Unlock()
		hist = append(hist, fmt.Sprintf(f, x...))
		return len(hist) - 1
	}
	subA1 := feed.Subscribe(a)
	subA2 := feed.Subscribe(a)
	subB := feed.Subscribe(b)
	defer subB.Unsubscribe()
	defer subA2.Unsubscribe()
	gotA, gotB := map[int]int{}, map[int]int{}
	quit := make(chan struct{})
	var wg sync.WaitGroup
	reader := func(ch chan int, got map[int]int, name string) {
		defer wg.Done()
		for {
			select {
			case v := <-ch:
				mu.Lock()
				got[v]++
				mu.Unlock()
				rec("recv %s %d", name, v)
			case <-quit:
				for {
					select {
					case v := <-ch:
						mu.Lock()
						got[v]++
						mu.Unlock()
					default:
						return
					}
				}
			}
		}
	}
	wg.Add(2)
	go reader(a, gotA, "a")
	go reader(b, gotB, "b")
	type sendRec struct{ call, ret, n int }
	sends := make([]sendRec, nsend+1)
	unCall, unRet := -1, -1
	done := make(chan struct{})
	go func() {
		defer close(done)
		var uw sync.WaitGroup
		for id := 1; id <= nsend; id++ {
			if id-1 == unsubAt {
				uw.Add(1)
				go func() {
					defer uw.Done()
					pause(rng, &rmu, 2)
					unCall = rec("unsub a#1 call")
					subA1.Unsubscribe()
					unRet = rec("unsub a#1 ret")
				}()
			}
			pause(rng, &rmu, 1)
			sends[id].call = rec("send %d call", id)
			n := feed.Send(id)
			sends[id].n = n
			sends[id].ret = rec("send %d ret %d", id, n)
		}
		if unsubAt == nsend {
			unCall = rec("unsub a#1 call")
			subA1.Unsubscribe()
			unRet = rec("unsub a#1 ret")
		}
		uw.Wait()
	}()
	select {
	case <-done:
	case <-time.After(3 * time.Second):
		buf := make([]byte, 1<<15)
		buf = buf[:runtime.Stack(buf, true)]
		return "deadlock", append(hist, string(buf))
	}
	close(quit)
	wg.Wait()
	for id := 1; id <= nsend; id++ {
		s := sends[id]
		lo, hi := 2, 2 // copies expected on channel a
		if unRet >= 0 && unRet < s.call {
			lo, hi = 1, 1
		} else if unCall >= 0 && unCall < s.ret {
			lo, hi = 1, 2
		}
		if gotA[id] < lo || gotA[id] > hi {
			return fmt.Sprintf("Send(%d) delivered %d copies to the twice-subscribed channel, expected %d..%d", id, gotA[id], lo, hi), hist
		}
		if gotB[id] != 1 {
			return fmt.Sprintf("Send(%d) delivered %d copies to the once-subscribed channel", id, gotB[id]), hist
		}
		if s.n != gotA[id]+gotB[id] {
			return fmt.Sprintf("Send(%d) returned %d but %d values were received", id, s.n, gotA[id]+gotB[id]), hist
		}
	}
	return "", hist
}
