// SubscriptionScope under overlapping Close calls, Track racing Close and wrappers
// unsubscribing themselves.  Tracked subscriptions are feed subscriptions wrapped in a
// gated Subscription whose Unsubscribe blocks until the schedule opens its gate, so that a
// Close can be held inside a slow Unsubscribe while other Close calls run.
// Black-box statement: when ANY Close call returns, every subscription Track accepted
// before has had its Unsubscribe return (scope-close-returned-before-unsubscribed), Track
// returns nil from then on (scope-track-after-close), and a Send made after that return
// delivers nothing to them (scope-delivery-after-close).  The trace of verifScopePoints
// must be a path of coq/Feed/ScopeLTS.v.
package main

import (
	"fmt"
	"runtime"
	"sort"
	"strings"
	"sync"
	"sync/atomic"

	"gitlab.com/aquachain/aquachain/aqua/event"
	"gitlab.com/aquachain/aquachain/verifharness/vh"
)

type gatedSub struct {
	id    int
	gate  chan struct{}
	inner event.Subscription
	once  sync.Once
	open1 sync.Once
	done  int32
}

func (g *gatedSub) open() { g.open1.Do(func() { close(g.gate) }) }

func (g *gatedSub) Unsubscribe() {
	g.once.Do(func() {
		<-g.gate
		g.inner.Unsubscribe()
		atomic.StoreInt32(&g.done, 1)
	})
}
func (g *gatedSub) Err() <-chan error { return g.inner.Err() }

type scopeSched struct {
	Seed     uint64 `json:"seed"`
	Subs     int    `json:"subs"`     // tracked before anything else
	Late     int    `json:"late"`     // Track calls racing the Close calls
	Closers  int    `json:"closers"`  // overlapping Close calls (2 or 3)
	Wrappers int    `json:"wrappers"` // tracked wrappers that unsubscribe themselves concurrently
	Yield    int    `json:"yield_pct"`
	Directed bool   `json:"directed"` // first Close is held inside its first Unsubscribe until the other Close calls had their chance
}

func genScope(r *vh.RNG, directed bool) scopeSched {
	s := scopeSched{Seed: r.Uint64(), Subs: 1 + r.Intn(4), Late: r.Intn(3), Closers: 2 + r.Intn(2), Wrappers: r.Intn(2), Yield: []int{0, 30, 70}[r.Intn(3)], Directed: directed}
	if directed {
		s.Wrappers = 0
	}
	return s
}

type scopeOut struct {
	evs    []event.VerifEvent
	panics []panicRec
	dead   string
	vs     []verdict
}

func runScope(s scopeSched) (out scopeOut) {
	var scope event.SubscriptionScope
	feed := new(event.Feed)
	tr := event.VerifAttach(&scope, s.Seed, s.Yield, 3)
	pl := &panicLog{}
	defer func() { out.panics = pl.list() }()
	rng := vh.NewRNG(s.Seed)
	var rmu, vmu sync.Mutex
	violate := func(sig, what string) {
		vmu.Lock()
		out.vs = append(out.vs, verdict{sig, what})
		vmu.Unlock()
	}
	total := s.Subs + s.Late
	subs := make([]*gatedSub, total+1)
	chans := make([]chan int, total+1)
	var accepted sync.Map // id -> true once Track returned a wrapper
	wrappers := make([]event.Subscription, total+1)
	mk := func(id int) {
		chans[id] = make(chan int, 8)
		var inner event.Subscription
		pl.do("Subscribe", func() { inner = feed.Subscribe(chans[id]) })
		subs[id] = &gatedSub{id: id, gate: make(chan struct{}), inner: inner}
		tr.RegisterSub(subs[id], id)
	}
	track := func(id int) {
		var w event.Subscription
		pl.do("scope.Track", func() { w = scope.Track(subs[id]) })
		if w != nil {
			wrappers[id] = w
			accepted.Store(id, true)
		} else {
			subs[id].open() // not tracked: unsubscribe it ourselves at the end
		}
		tr.Record("ktrack_ret", id, btoi(w != nil))
	}
	pl.guard(func() {
		for id := 1; id <= total; id++ {
			mk(id)
		}
		for id := 1; id <= s.Subs; id++ {
			track(id)
		}
	})
	var wg sync.WaitGroup
	hold := make(chan struct{}) // directed: gates stay closed until the other closers had their chance
	for k := 1; k <= s.Closers; k++ {
		k := k
		wg.Add(1)
		go pl.guard(func() {
			defer wg.Done()
			if s.Directed && k > 1 {
				// start after closer 1 is inside its first Unsubscribe (or has finished, if nothing was tracked)
				for i := 0; i < 2000 && countPoint(tr, "close_begin") == 0; i++ {
					runtime.Gosched()
				}
			} else {
				pause(rng, &rmu, k)
			}
			// the subscriptions accepted before this call: they must be unsubscribed when it returns
			var before []int
			accepted.Range(func(key, _ interface{}) bool { before = append(before, key.(int)); return true })
			tr.Record("kclose_call", k, 0)
			pl.do("scope.Close", func() { scope.Close() })
			tr.Record("kclose_ret", k, 0)
			var missing []string
			for _, id := range before {
				if atomic.LoadInt32(&subs[id].done) == 0 {
					missing = append(missing, fmt.Sprint(id))
				}
			}
			if len(missing) > 0 {
				sort.Strings(missing)
				violate("scope-close-returned-before-unsubscribed", fmt.Sprintf("Close call %d returned while subscriptions %s, tracked before it was called, were not unsubscribed yet", k, strings.Join(missing, ",")))
			}
			// from now on Track must return nil
			probe := &gatedSub{id: 0, gate: make(chan struct{}), inner: event.NewSubscription(func(q <-chan struct{}) error { <-q; return nil })}
			probe.open()
			var w event.Subscription
			pl.do("scope.Track", func() { w = scope.Track(probe) })
			if w != nil {
				violate("scope-track-after-close", fmt.Sprintf("Track returned a subscription after Close call %d had returned", k))
			}
			probe.Unsubscribe()
			if s.Directed && k > 1 {
				// a Send made after this Close returned must not reach the subscriptions tracked before it
				n := 0
				pl.do("Send", func() { n = feed.Send(1000 + k) })
				_ = n
			}
		})
	}
	for id := s.Subs + 1; id <= total; id++ {
		id := id
		wg.Add(1)
		go pl.guard(func() { defer wg.Done(); pause(rng, &rmu, 1+id%3); track(id) })
	}
	for i := 1; i <= s.Wrappers && i <= s.Subs; i++ {
		id := i
		wg.Add(1)
		go pl.guard(func() {
			defer wg.Done()
			pause(rng, &rmu, 2)
			if w := wrappers[id]; w != nil {
				pl.do("scopeSub.Unsubscribe", func() { w.Unsubscribe() })
			}
		})
	}
	// gate opener
	go pl.guard(func() {
		if s.Directed {
			// give the later Close calls every chance to return early: wait until they have been called and the
			// scheduler has run a while (no verdict depends on this wait)
			for i := 0; i < 4000 && countPoint(tr, "kclose_call") < s.Closers; i++ {
				runtime.Gosched()
			}
			for i := 0; i < 300; i++ {
				runtime.Gosched()
			}
		} else {
			pause(rng, &rmu, 3)
		}
		close(hold)
	})
	go pl.guard(func() {
		<-hold
		for id := 1; id <= total; id++ {
			pause(rng, &rmu, 1)
			subs[id].open()
		}
	})
	done := make(chan string)
	go func() { wg.Wait(); close(done) }()
	if _, stuck := blockedOr(done, watchdogDup, func() bool { return len(pl.list()) > 0 }); stuck {
		buf := make([]byte, 1<<15)
		out.dead = string(buf[:runtime.Stack(buf, true)])
		out.evs = event.VerifDetach(&scope)
		return out
	}
	// deliveries of the Sends made after a Close returned
	for id := 1; id <= total; id++ {
		if _, ok := accepted.Load(id); !ok {
			continue
		}
		for more := true; more; {
			select {
			case v := <-chans[id]:
				violate("scope-delivery-after-close", fmt.Sprintf("subscription %d, tracked by the scope, received value %d of a Send made after a Close call had returned", id, v))
			default:
				more = false
			}
		}
	}
	for id := 1; id <= total; id++ { // clean up what the scope did not take
		subs[id].open()
		subs[id].Unsubscribe()
	}
	out.evs = event.VerifDetach(&scope)
	return out
}

func countPoint(tr *event.VerifTrace, point string) int {
	n := 0
	for _, e := range tr.Snapshot() {
		if e.Point == point {
			n++
		}
	}
	return n
}

func scopeTranslate(evs []event.VerifEvent) ([]string, string, string) {
	cur := map[uint64]int{}
	var ls []string
	added, unsub := map[int]bool{}, map[int]bool{}
	closed := false
	for _, e := range evs {
		k := cur[e.G]
		switch e.Point {
		case "kclose_call":
			cur[e.G] = e.Ch
		case "kclose_ret", "ktrack_ret":
		case "track_nil":
			if e.Ch > 0 {
				ls = append(ls, fmt.Sprintf("tnil:%d", e.Ch))
			}
		case "track_add":
			ls = append(ls, fmt.Sprintf("tadd:%d", e.Ch))
			added[e.Ch] = true
		case "close_skip":
			ls = append(ls, fmt.Sprintf("cskip:%d", k))
		case "close_begin":
			ls = append(ls, fmt.Sprintf("cbegin:%d", k))
			closed = true
		case "close_unsub":
			ls = append(ls, fmt.Sprintf("cunsub:%d:%d", k, e.Ch))
			unsub[e.Ch] = true
		case "close_done":
			ls = append(ls, fmt.Sprintf("cdone:%d", k))
		case "wunsub":
			ls = append(ls, fmt.Sprintf("wunsub:%d", e.Ch))
			unsub[e.Ch] = true
		case "wdel":
			ls = append(ls, fmt.Sprintf("wdel:%d", e.Ch))
		default:
			return nil, "", "unknown point " + e.Point
		}
	}
	var a, u []int
	for id := range added {
		a = append(a, id)
		if unsub[id] {
			u = append(u, id)
		}
	}
	sort.Ints(a)
	sort.Ints(u)
	join := func(xs []int) string {
		var ss []string
		for _, x := range xs {
			ss = append(ss, fmt.Sprint(x))
		}
		return strings.Join(ss, ".")
	}
	// observed from the trace records of the implementation; `tracked` must be 0 once a Close has finished
	return ls, fmt.Sprintf("accepted closed=%v tracked=0 added=%s unsub=%s", closed, join(a), join(u)), ""
}

func scopePart(c *vh.Ctx, m *vh.Model) {
	n := c.Scale(400, 8000)
	var scheds []scopeSched
	for i := 0; i < n; i++ {
		scheds = append(scheds, genScope(c.Rng, i%2 == 0))
	}
	results := make([]scopeOut, n)
	var wg sync.WaitGroup
	next := make(chan int)
	for w := 0; w < 6; w++ {
		wg.Add(1)
		go func() {
			defer wg.Done()
			for i := range next {
				results[i] = runScope(scheds[i])
			}
		}()
	}
	for i := range scheds {
		next <- i
	}
	close(next)
	wg.Wait()
	var reqs, obs []string
	for i, r := range results {
		s := scheds[i]
		class := fmt.Sprintf("scope/closers=%d/directed=%v/late=%d/wrappers=%d", s.Closers, s.Directed, s.Late, s.Wrappers)
		replay := map[string]interface{}{"scope_schedule": s, "panics": r.panics, "trace": evText(r.evs)}
		if len(r.panics) > 0 {
			c.Eval(class, "")
			c.Violate("feed-panic/"+r.panics[0].Op, "aqua/event panicked in "+r.panics[0].Op+": "+r.panics[0].Val, replay)
			continue
		}
		if r.dead != "" {
			c.Eval(class, "")
			replay["goroutines"] = r.dead
			c.Violate("deadlock", "SubscriptionScope: no progress", replay)
			continue
		}
		for _, v := range r.vs {
			c.Violate(v.sig, v.what, replay)
		}
		ls, observed, err := scopeTranslate(r.evs)
		if err != "" {
			c.Fatal("scope translate: %s", err)
		}
		c.Eval(class, strings.Join(ls, " "))
		reqs = append(reqs, "krun "+strings.Join(ls, " "))
		obs = append(obs, observed)
	}
	for k, a := range m.AskAll(reqs) {
		c.Correspond("SubscriptionScope(trace of verifScopePoints)~ScopeLTS.krun", reqs[k], obs[k], a)
	}
}
