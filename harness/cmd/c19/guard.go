// Panic containment for every goroutine of the C19 harness that calls into aqua/event:
// a panic inside Subscribe / Unsubscribe / Send / Post / Stop / scope operations is
// recorded with the operation's name (signature feed-panic/<op>), the goroutine is
// unwound cleanly (deferred WaitGroup.Done calls run), and the schedule is left to the
// watchdog, because the feed may be wedged (a panic with a feed lock held).
package main

import (
	"fmt"
	"sync"
)

type abandon struct{}

type panicRec struct {
	Op  string `json:"op"`
	Val string `json:"panic"`
}

type panicLog struct {
	mu   sync.Mutex
	recs []panicRec
}

// do runs one call into aqua/event; a panic is recorded under op and the goroutine is abandoned.
func (p *panicLog) do(op string, f func()) {
	defer func() {
		if r := recover(); r != nil {
			if _, ok := r.(abandon); ok {
				panic(r)
			}
			p.mu.Lock()
			p.recs = append(p.recs, panicRec{op, fmt.Sprint(r)})
			p.mu.Unlock()
			panic(abandon{})
		}
	}()
	f()
}

// guard is the top frame of every harness goroutine (and of direct calls on a worker goroutine).
func (p *panicLog) guard(f func()) {
	defer func() {
		if r := recover(); r != nil {
			if _, ok := r.(abandon); !ok {
				p.mu.Lock()
				p.recs = append(p.recs, panicRec{"harness-goroutine", fmt.Sprint(r)})
				p.mu.Unlock()
			}
		}
	}()
	f()
}

func (p *panicLog) list() []panicRec {
	p.mu.Lock()
	defer p.mu.Unlock()
	return append([]panicRec(nil), p.recs...)
}
