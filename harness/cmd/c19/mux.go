// TypeMux (aqua/event/event.go) under directed and seeded schedules: trace
// validation against coq/Feed/MuxLTS.v and the same black-box oracle statements
// as for Feed (exactly once to every subscriber subscribed before Post began
// and not unsubscribed / stopped meanwhile, no duplicate, nothing after
// Unsubscribe returned, Post after Stop errors, no deadlock).
package main

import (
	"fmt"
	"runtime"
	"sort"
	"strings"
	"sync"
	"time"

	"gitlab.com/aquachain/aquachain/aqua/event"
	"gitlab.com/aquachain/aquachain/verifharness/vh"
)

type ev0 int
type ev1 int
type ev2 int

func mkEvent(t, id int) interface{} {
	switch t {
	case 0:
		return ev0(id)
	case 1:
		return ev1(id)
	}
	return ev2(id)
}

func evID(x interface{}) (t, id int) {
	switch v := x.(type) {
	case ev0:
		return 0, int(v)
	case ev1:
		return 1, int(v)
	case ev2:
		return 2, int(v)
	}
	return -1, -1
}

type muxSub struct {
	Idx       int    `json:"idx"` // position in the schedule (subscription order for the early ones)
	Types     []int  `json:"types"`
	Reader    string `json:"reader"` // fast | slow | gated (does not read until the gate opens)
	Late      bool   `json:"late"`
	Unsub     string `json:"unsub"` // "" | ext | self
	SelfAfter int    `json:"self_after"`
	Delay     int    `json:"delay"`
}

type muxPost struct {
	ID  int `json:"id"`
	Typ int `json:"typ"`
}

type muxSched struct {
	Seed    uint64      `json:"seed"`
	Yield   int         `json:"yield_pct"`
	Sleep   int         `json:"sleep_pct"`
	Subs    []muxSub    `json:"subs"`
	Posters [][]muxPost `json:"posters"`
	StopMid bool        `json:"stop_mid"` // Stop while posts are running (otherwise after them)
	// directed: Post blocked on the gated reader at position Block, Unsubscribe of the subscriber at position Unsub, then the gate opens
	Directed bool `json:"directed"`
	Block    int  `json:"block"`
	UnsubPos int  `json:"unsub_pos"`
}

func (s muxSched) class() string {
	if s.Directed {
		return fmt.Sprintf("mux/directed/n=%d/blocked=%d/unsub=%d", len(s.Subs), s.Block, s.UnsubPos)
	}
	multi, un := 0, 0
	for _, x := range s.Subs {
		if len(x.Types) > 1 {
			multi = 1
		}
		if x.Unsub != "" {
			un = 1
		}
	}
	return fmt.Sprintf("mux/random/subs=%d/posters=%d/multitype=%d/unsub=%d/stopmid=%v", len(s.Subs), len(s.Posters), multi, un, s.StopMid)
}

func genMuxDirected() []muxSched {
	var out []muxSched
	seed := uint64(1)
	for _, n := range []int{3, 4} {
		for b := 0; b < n; b++ {
			for u := 0; u < n; u++ {
				for _, twoTypes := range []bool{false, true} {
					s := muxSched{Seed: seed, Directed: true, Block: b, UnsubPos: u}
					seed++
					for i := 0; i < n; i++ {
						ms := muxSub{Idx: i, Types: []int{0}, Reader: "fast"}
						if twoTypes && i%2 == 0 {
							ms.Types = []int{1, 0}
						}
						if i == b {
							ms.Reader = "gated"
						}
						s.Subs = append(s.Subs, ms)
					}
					s.Posters = [][]muxPost{{{1, 0}, {2, 0}}}
					out = append(out, s)
				}
			}
		}
	}
	return out
}

func genMuxRandom(r *vh.RNG) muxSched {
	s := muxSched{Seed: r.Uint64(), Yield: []int{0, 20, 50, 80}[r.Intn(4)], Sleep: []int{0, 2, 10}[r.Intn(3)]}
	ntypes := 1 + r.Intn(2)
	n := 3 + r.Intn(3)
	for i := 0; i < n; i++ {
		ms := muxSub{Idx: i, Reader: "fast", Types: []int{r.Intn(ntypes)}}
		if ntypes > 1 && r.Chance(35) {
			ms.Types = []int{0, 1}
			if r.Bool() {
				ms.Types = []int{1, 0}
			}
		}
		if r.Chance(40) {
			ms.Reader = "slow"
		}
		ms.Late = r.Chance(20)
		switch x := r.Intn(100); {
		case x < 30:
			ms.Unsub = "ext"
		case x < 50:
			ms.Unsub = "self"
			ms.SelfAfter = r.Intn(3)
		}
		ms.Delay = r.Intn(8)
		s.Subs = append(s.Subs, ms)
	}
	id := 1
	for i, np := 0, 1+r.Intn(3); i < np; i++ {
		var ps []muxPost
		for k := 1 + r.Intn(3); k > 0; k-- {
			ps = append(ps, muxPost{id, r.Intn(ntypes)})
			id++
		}
		s.Posters = append(s.Posters, ps)
	}
	s.StopMid = r.Chance(35) // Stop racing the posters and the unsubscribers
	return s
}

type muxOutcome struct {
	events   []event.VerifEvent
	subOf    map[int]int // trace subscription id -> schedule index
	deadlock bool
	dump     string
	panics   []panicRec
}

func runMux(s muxSched, watchdog time.Duration) (out muxOutcome) {
	mux := new(event.TypeMux)
	tr := event.VerifAttach(mux, s.Seed, s.Yield, s.Sleep)
	tr.RegisterType(ev0(0), 0)
	tr.RegisterType(ev1(0), 1)
	tr.RegisterType(ev2(0), 2)
	rng := vh.NewRNG(s.Seed ^ 0x5eed)
	var rmu, smu sync.Mutex
	out.subOf = map[int]int{}
	var wgWork, wgRead sync.WaitGroup
	pl := &panicLog{}
	guard := pl.guard
	defer func() { out.panics = pl.list() }()
	gates := map[int]chan struct{}{}
	for _, ms := range s.Subs {
		if ms.Reader == "gated" {
			gates[ms.Idx] = make(chan struct{})
		}
	}
	subs := map[int]*event.TypeMuxSubscription{}
	ids := map[int]int{}
	subscribe := func(ms muxSub) (*event.TypeMuxSubscription, int) {
		var types []interface{}
		for _, t := range ms.Types {
			types = append(types, mkEvent(t, 0))
		}
		var sub *event.TypeMuxSubscription
		pl.do("TypeMux.Subscribe", func() { sub = mux.Subscribe(types...) })
		id := tr.NameSub(sub)
		smu.Lock()
		out.subOf[id] = ms.Idx
		subs[ms.Idx], ids[ms.Idx] = sub, id
		smu.Unlock()
		tr.Record("msub_ret", id, 0)
		return sub, id
	}
	unsubscribe := func(sub *event.TypeMuxSubscription, id int) {
		tr.Record("munsub_call", id, 0)
		pl.do("TypeMuxSubscription.Unsubscribe", func() { sub.Unsubscribe() })
		tr.Record("munsub_ret", id, 0)
	}
	reader := func(ms muxSub, sub *event.TypeMuxSubscription, id int) {
		defer wgRead.Done()
		if g := gates[ms.Idx]; g != nil {
			<-g
		}
		got, unsubbed := 0, false
		for {
			if ms.Unsub == "self" && !unsubbed && got >= ms.SelfAfter {
				pause(rng, &rmu, ms.Delay)
				unsubscribe(sub, id) // a Post may be blocked on this very subscription
				unsubbed = true
			}
			e, ok := <-sub.Chan()
			if !ok {
				tr.Record("mrecv_closed", id, 0)
				return
			}
			_, pid := evID(e.Data)
			tr.Record("mrecv", id, pid)
			got++
			if ms.Reader == "slow" {
				pause(rng, &rmu, 1+got%4)
			}
		}
	}
	start := func(ms muxSub) {
		sub, id := subscribe(ms)
		wgRead.Add(1)
		go guard(func() { reader(ms, sub, id) })
		if ms.Unsub == "ext" {
			wgWork.Add(1)
			go guard(func() {
				defer wgWork.Done()
				pause(rng, &rmu, ms.Delay*3)
				unsubscribe(sub, id)
				pl.do("TypeMuxSubscription.Unsubscribe", func() { sub.Unsubscribe() }) // idempotent
			})
		}
	}
	post := func(p muxPost) {
		tr.Record("mpost_call", p.ID, p.Typ)
		var err error
		pl.do("TypeMux.Post", func() { err = mux.Post(mkEvent(p.Typ, p.ID)) })
		e := 0
		if err != nil {
			e = 1
		}
		tr.Record("mpost_ret", p.ID, e)
	}
	stop := func() {
		tr.Record("mstop_call", 0, 0)
		pl.do("TypeMux.Stop", func() { mux.Stop() })
		tr.Record("mstop_ret", 0, 0)
	}
	for _, ms := range s.Subs {
		if !ms.Late {
			ms := ms
			guard(func() { start(ms) })
		}
	}
	count := func(point string) int {
		n := 0
		for _, e := range tr.Snapshot() {
			if e.Point == point {
				n++
			}
		}
		return n
	}
	if s.Directed {
		wgWork.Add(1)
		go guard(func() {
			defer wgWork.Done()
			done := make(chan struct{})
			go guard(func() { post(s.Posters[0][0]); close(done) })
			// wait until the Post has delivered to the subscribers in front of the gated one, then let it block there
			for dl := time.Now().Add(time.Second); count("deliver_sent") < s.Block && time.Now().Before(dl); {
				runtime.Gosched()
			}
			time.Sleep(150 * time.Microsecond)
			smu.Lock()
			sub, id := subs[s.UnsubPos], ids[s.UnsubPos]
			smu.Unlock()
			unsubscribe(sub, id)
			close(gates[s.Block])
			<-done
			post(s.Posters[0][1])
			stop()
			post(muxPost{3, 0})
		})
	} else {
		for _, ms := range s.Subs {
			if ms.Late {
				ms := ms
				wgWork.Add(1)
				go guard(func() { defer wgWork.Done(); pause(rng, &rmu, ms.Delay*2); start(ms) })
			}
		}
		for _, ps := range s.Posters {
			ps := ps
			wgWork.Add(1)
			go guard(func() {
				defer wgWork.Done()
				for _, p := range ps {
					pause(rng, &rmu, 1)
					post(p)
				}
			})
		}
		if s.StopMid {
			wgWork.Add(1)
			go guard(func() { defer wgWork.Done(); pause(rng, &rmu, 4); stop() })
		}
	}
	wait := func(wg *sync.WaitGroup) bool {
		done := make(chan struct{})
		go func() { wg.Wait(); close(done) }()
		last, lastN, ticks := time.Now(), -1, 0
		tick := time.NewTicker(2 * time.Millisecond)
		defer tick.Stop()
		for {
			select {
			case <-done:
				return true
			case <-tick.C:
				// no verdict by wall-clock alone: the watchdog must itself have been scheduled `stallTicks` times
				// (ticks are dropped when the process is starved) without seeing a new trace record
				if len(pl.list()) > 0 { // a call into aqua/event panicked: the feed may be wedged, abandon the schedule now
					out.events = tr.Snapshot()
					return false
				}
				n := len(tr.Snapshot())
				if n != lastN {
					lastN, last, ticks = n, time.Now(), 0
				} else if ticks++; ticks >= stallTicks && time.Since(last) > watchdog {
					buf := make([]byte, 1<<16)
					buf = buf[:runtime.Stack(buf, true)]
					out.deadlock, out.dump = true, string(buf)
					out.events = event.VerifDetach(mux)
					return false
				}
			}
		}
	}
	if !wait(&wgWork) {
		return out
	}
	guard(func() {
		if !s.Directed && !s.StopMid {
			stop()
		}
		post(muxPost{99, 0}) // Post after Stop must fail
	})
	if !wait(&wgRead) {
		return out
	}
	out.events = event.VerifDetach(mux)
	return out
}

func muxTranslate(evs []event.VerifEvent) ([]string, string) {
	cur := map[uint64]int{}
	seen := map[int]bool{}
	var ls []string
	for _, e := range evs {
		p := cur[e.G]
		newSub := func() {
			if !seen[e.Ch] {
				seen[e.Ch] = true
				ls = append(ls, fmt.Sprintf("new:%d", e.Ch))
			}
		}
		switch e.Point {
		case "msub_ret", "munsub_call", "munsub_ret", "mstop_call", "mstop_ret", "mrecv", "mrecv_closed", "deliver_begin":
		case "sub_add":
			newSub()
			ls = append(ls, fmt.Sprintf("add:%d:%d", e.Ch, e.Arg))
		case "sub_stopped":
			newSub()
			ls = append(ls, fmt.Sprintf("sstop:%d", e.Ch))
		case "mpost_call":
			cur[e.G] = e.Ch
			ls = append(ls, fmt.Sprintf("pcall:%d:%d", e.Ch, e.Arg))
		case "mpost_ret":
			if e.Arg == 0 {
				ls = append(ls, fmt.Sprintf("pret:%d", e.Ch))
			}
		case "post_snap":
			ls = append(ls, fmt.Sprintf("snap:%d", p))
		case "post_stopped":
			ls = append(ls, fmt.Sprintf("pstop:%d", p))
		case "deliver_sent":
			ls = append(ls, fmt.Sprintf("dsent:%d:%d", p, e.Ch))
		case "deliver_closed":
			ls = append(ls, fmt.Sprintf("dclosed:%d:%d", p, e.Ch))
		case "deliver_stale":
			ls = append(ls, fmt.Sprintf("dstale:%d:%d", p, e.Ch))
		case "del":
			ls = append(ls, fmt.Sprintf("del:%d:%d", e.Ch, e.Arg))
		case "closing":
			ls = append(ls, fmt.Sprintf("closing:%d", e.Ch))
		case "postc_close":
			ls = append(ls, fmt.Sprintf("pclose:%d", e.Ch))
		case "stop_begin":
			ls = append(ls, "stopb")
		case "stop_end":
			ls = append(ls, "stope")
		default:
			return nil, "unknown point " + e.Point
		}
	}
	return ls, ""
}

// muxProject returns, per subscription, the closewait / deliver protocol events (labels of PostMuLTS).
func muxProject(evs []event.VerifEvent) map[int][]string {
	out := map[int][]string{}
	for _, e := range evs {
		l := ""
		switch e.Point {
		case "deliver_begin":
			l = "b"
		case "deliver_sent":
			l = "s"
		case "deliver_closed":
			l = "c"
		case "closing":
			l = "g"
		case "postc_close":
			l = "x"
		}
		if l != "" && e.Ch > 0 {
			out[e.Ch] = append(out[e.Ch], l)
		}
	}
	return out
}

func muxOracle(s muxSched, o muxOutcome) (observed string, vs []verdict) {
	evs := o.events
	first := func(point string, ch int) int {
		for i, e := range evs {
			if e.Point == point && e.Ch == ch {
				return i
			}
		}
		return -1
	}
	stopCall, stopRet := first("mstop_call", 0), first("mstop_ret", 0)
	type postInfo struct{ call, ret, typ, err int }
	posts := map[int]*postInfo{}
	got := map[int][]int{}
	cnt := map[[2]int]int{}
	total := 0
	for i, e := range evs {
		switch e.Point {
		case "mpost_call":
			posts[e.Ch] = &postInfo{call: i, ret: -1, typ: e.Arg}
		case "mpost_ret":
			posts[e.Ch].ret, posts[e.Ch].err = i, e.Arg
		case "mrecv":
			got[e.Ch] = append(got[e.Ch], e.Arg)
			cnt[[2]int{e.Ch, e.Arg}]++
			total++
		}
	}
	var subIDs []int
	for id := range o.subOf {
		subIDs = append(subIDs, id)
	}
	sort.Ints(subIDs)
	for pid, p := range posts {
		if p.ret < 0 {
			continue
		}
		if stopRet >= 0 && p.call > stopRet && p.err == 0 {
			vs = append(vs, verdict{"mux-post-after-stop-accepted", fmt.Sprintf("Post(%d) called after Stop returned did not return ErrMuxClosed", pid)})
		}
		if p.err == 1 && (stopCall < 0 || stopCall > p.ret) {
			vs = append(vs, verdict{"mux-post-error-without-stop", fmt.Sprintf("Post(%d) returned an error although Stop had not been called", pid)})
		}
		for _, id := range subIDs {
			ms := s.Subs[o.subOf[id]]
			n := cnt[[2]int{id, pid}]
			hasType := false
			for _, t := range ms.Types {
				hasType = hasType || t == p.typ
			}
			if n > 1 {
				vs = append(vs, verdict{"mux-duplicate-delivery", fmt.Sprintf("subscription %d (schedule position %d) received post %d %d times", id, ms.Idx, pid, n)})
			}
			if n > 0 && !hasType {
				vs = append(vs, verdict{"mux-wrong-type", fmt.Sprintf("subscription %d received post %d of a type it did not subscribe to", id, pid)})
			}
			subRet, unCall, unRet := first("msub_ret", id), first("munsub_call", id), first("munsub_ret", id)
			if hasType && p.err == 0 && subRet >= 0 && subRet < p.call && (unCall < 0 || unCall > p.ret) && (stopCall < 0 || stopCall > p.ret) && n != 1 {
				vs = append(vs, verdict{"mux-lost-delivery", fmt.Sprintf("subscription %d (schedule position %d) was subscribed before Post(%d) was called and neither unsubscribed nor stopped before it returned, but received the event %d times", id, ms.Idx, pid, n)})
			}
			if n > 0 && ((unRet >= 0 && unRet < p.call) || (stopRet >= 0 && stopRet < p.call)) {
				vs = append(vs, verdict{"mux-delivery-after-unsubscribe", fmt.Sprintf("subscription %d received post %d, called after Unsubscribe / Stop had returned", id, pid)})
			}
		}
	}
	var gs []string
	for _, id := range subIDs {
		var xs []string
		sort.Ints(got[id]) // concurrent Posts have no common order: compare as multisets
		for _, v := range got[id] {
			xs = append(xs, fmt.Sprint(v))
		}
		gs = append(gs, fmt.Sprintf("%d:%s", id, strings.Join(xs, ".")))
	}
	var perr []int
	for pid, p := range posts {
		if p.ret >= 0 && p.err == 1 {
			perr = append(perr, pid)
		}
	}
	sort.Ints(perr)
	var pe []string
	for _, x := range perr {
		pe = append(pe, fmt.Sprint(x))
	}
	return fmt.Sprintf("accepted d=%d got=%s perr=%s panicked=false", total, strings.Join(gs, ";"), strings.Join(pe, ".")), vs
}

func muxPart(c *vh.Ctx, m *vh.Model, replay *muxSched) {
	var scheds []muxSched
	if replay != nil {
		for i := 0; i < 200; i++ {
			s := *replay
			s.Seed += uint64(i)
			scheds = append(scheds, s)
		}
	} else {
		scheds = genMuxDirected()
		for i, n := 0, c.Scale(1200, 30000); i < n; i++ {
			scheds = append(scheds, genMuxRandom(c.Rng))
		}
	}
	watchdog := 3 * time.Second
	results := make([]muxOutcome, len(scheds))
	skipped := make([]bool, len(scheds))
	var nDead int32
	var mu sync.Mutex
	var wg sync.WaitGroup
	next := make(chan int)
	for w := 0; w < 6; w++ {
		wg.Add(1)
		go func() {
			defer wg.Done()
			for i := range next {
				mu.Lock()
				dead := nDead
				mu.Unlock()
				if dead >= 6 {
					skipped[i] = true
					continue
				}
				results[i] = runMux(scheds[i], watchdog)
				if results[i].deadlock {
					mu.Lock()
					nDead++
					mu.Unlock()
				}
			}
		}()
	}
	for i := range scheds {
		next <- i
	}
	close(next)
	wg.Wait()
	var reqs []string
	var idx []int
	for i, r := range results {
		s := scheds[i]
		if skipped[i] {
			c.Count("mux/skipped-after-deadlocks")
			continue
		}
		if len(r.panics) > 0 {
			c.Eval(s.class(), "")
			c.Violate("feed-panic/"+r.panics[0].Op, "aqua/event panicked in "+r.panics[0].Op+": "+r.panics[0].Val, map[string]interface{}{"mux_schedule": s, "panics": r.panics, "trace": evText(r.events)})
			continue
		}
		if r.deadlock {
			c.Eval(s.class(), "")
			c.Violate("mux-deadlock", "TypeMux: no progress for "+watchdog.String()+" with every subscriber reading", map[string]interface{}{"mux_schedule": s, "trace": evText(r.events), "goroutines": r.dump})
			continue
		}

		ls, err := muxTranslate(r.events)
		if err != "" {
			c.Fatal("mux translate: %s", err)
		}
		reqs = append(reqs, "mrun "+strings.Join(ls, " "))
		idx = append(idx, i)
	}
	answers := m.AskAll(reqs)
	var preqs, pobs []string
	for k, i := range idx {
		s, r := scheds[i], results[i]
		observed, vs := muxOracle(s, r)
		c.Eval(s.class(), reqs[k])
		for _, e := range r.events {
			switch e.Point {
			case "deliver_sent", "deliver_closed", "deliver_stale", "del", "post_stopped":
				c.Count("mux/point/" + e.Point)
			}
		}
		if !c.Correspond("TypeMux(trace of verifMuxPoints)~MuxLTS.mrun", reqs[k], observed, answers[k]) && c.Res.NDisagreements <= 3 {
			c.Note("mux disagreement schedule %+v raw trace %v", s, evText(r.events))
		}
		for _, v := range vs {
			c.Violate(v.sig, v.what, map[string]interface{}{"mux_schedule": s, "history": evText(r.events)})
		}
		proj := muxProject(r.events)
		var sids []int
		for id := range proj {
			sids = append(sids, id)
		}
		sort.Ints(sids)
		for _, id := range sids {
			preqs = append(preqs, "prun "+strings.Join(proj[id], " "))
			// observed from the black-box side: the subscription's channel was closed iff the reader saw it closed; no panic
			closed := false
			for _, e := range r.events {
				if e.Point == "mrecv_closed" && e.Ch == id {
					closed = true
				}
			}
			pobs = append(pobs, fmt.Sprintf("accepted closed=%v readers=0 bad=false", closed))
		}
		if k < 2 {
			c.Sample(map[string]interface{}{"mux_schedule": s, "labels": reqs[k], "model": answers[k]})
		}
	}
	for k, a := range m.AskAll(preqs) {
		c.Correspond("TypeMuxSubscription(closewait/deliver trace)~PostMuLTS.prun", preqs[k], pobs[k], a)
	}
}
