// Fresh-unsubscribe storm: k (2..48) goroutines concurrently unsubscribe subscriptions
// that are still in the feed's inbox (no Send has merged them yet), with or without a
// Send racing (its inbox merge), then one final Send and an EXACT check of the receiver
// set: every subscriber that was not unsubscribed receives the final value exactly once
// (else live-subscriber-missed-value), no unsubscribed one receives it
// (delivery-to-unsubscribed), nsent = number of live subscribers.  The trace is also
// validated against FeedLTS and DupLTS, but the black-box verdict does not depend on it.
package main

import (
	"fmt"
	"runtime"
	"strings"
	"sync"

	"gitlab.com/aquachain/aquachain/aqua/event"
	"gitlab.com/aquachain/aquachain/verifharness/vh"
)

type stormSched struct {
	Seed   uint64 `json:"seed"`
	N      int    `json:"subscribers"`   // all subscribed before anything else: all in the inbox
	K      int    `json:"unsubscribers"` // concurrent Unsubscribes of the first K (shuffled) subscriptions
	Racing bool   `json:"racing_send"`   // a Send (value 1) runs concurrently with the storm
	Yield  int    `json:"yield_pct"`
}

func genStorm(r *vh.RNG) stormSched {
	k := 2 + r.Intn(47)
	if r.Chance(60) {
		k = 2 + r.Intn(7)
	}
	return stormSched{Seed: r.Uint64(), K: k, N: k + r.Intn(4), Racing: r.Bool(), Yield: []int{0, 30, 70}[r.Intn(3)]}
}

type stormOut struct {
	evs    []event.VerifEvent
	dead   string
	panics []panicRec
	unsub  []int // channel ids whose Unsubscribe was called
}

func runStorm(s stormSched) (out stormOut) {
	feed := new(event.Feed)
	tr := event.VerifAttach(feed, s.Seed, s.Yield, 3)
	pl := &panicLog{}
	defer func() { out.panics = pl.list() }()
	rng := vh.NewRNG(s.Seed)
	chans := make([]chan int, s.N+1)
	subs := make([]event.Subscription, s.N+1)
	pl.guard(func() {
		for id := 1; id <= s.N; id++ {
			chans[id] = make(chan int, 4) // room for both values: no receiver needed while sends run
			tr.RegisterChan(chans[id], id)
			tr.Record("sub_call", id, 0)
			id := id
			pl.do("Subscribe", func() { subs[id] = feed.Subscribe(chans[id]) })
			tr.Record("sub_ret", id, 0)
		}
	})
	if len(pl.list()) > 0 {
		out.evs = event.VerifDetach(feed)
		return out
	}
	// which subscriptions are unsubscribed: a seeded choice of K of the N
	perm := make([]int, s.N)
	for i := range perm {
		perm[i] = i + 1
	}
	for i := len(perm) - 1; i > 0; i-- {
		j := rng.Intn(i + 1)
		perm[i], perm[j] = perm[j], perm[i]
	}
	out.unsub = append([]int(nil), perm[:s.K]...)
	var wg sync.WaitGroup
	startGate := make(chan struct{})
	for _, id := range out.unsub {
		id := id
		wg.Add(1)
		go pl.guard(func() {
			defer wg.Done()
			<-startGate
			tr.Record("unsub_call", id, 0)
			pl.do("Unsubscribe", func() { subs[id].Unsubscribe() })
			tr.Record("unsub_ret", id, 0)
		})
	}
	if s.Racing {
		wg.Add(1)
		go pl.guard(func() {
			defer wg.Done()
			<-startGate
			tr.Record("send_call", 1, 0)
			n := 0
			pl.do("Send", func() { n = feed.Send(1) })
			tr.Record("send_ret", 1, n)
		})
	}
	close(startGate)
	done := make(chan string)
	go func() { wg.Wait(); close(done) }()
	abandonRun := func() {
		buf := make([]byte, 1<<15)
		out.dead = string(buf[:runtime.Stack(buf, true)])
		out.evs = event.VerifDetach(feed)
	}
	if _, stuck := blockedOr(done, watchdogDup, func() bool { return len(pl.list()) > 0 }); stuck {
		abandonRun()
		return out
	}
	// the final Send, on its own goroutine so that a wedged feed cannot block the run
	done2 := make(chan string)
	go pl.guard(func() {
		defer close(done2)
		tr.Record("send_call", 2, 0)
		n := 0
		pl.do("Send", func() { n = feed.Send(2) })
		tr.Record("send_ret", 2, n)
	})
	if _, stuck := blockedOr(done2, watchdogDup, func() bool { return len(pl.list()) > 0 }); stuck {
		abandonRun()
		return out
	}
	for id := 1; id <= s.N; id++ { // drain: everything delivered is in the buffers
		tr.Record("recv_begin", id, 0)
		for more := true; more; {
			select {
			case v := <-chans[id]:
				tr.Record("recv_end", id, v)
				tr.Record("recv_begin", id, 0)
			default:
				more = false
			}
		}
	}
	out.evs = event.VerifDetach(feed)
	return out
}

func stormOracle(s stormSched, o stormOut) (observed string, vs []verdict) {
	unsub := map[int]bool{}
	for _, id := range o.unsub {
		unsub[id] = true
	}
	got := map[[2]int]int{}
	seq := map[int][]string{}
	nsent := map[int]int{}
	total := 0
	for _, e := range o.evs {
		switch e.Point {
		case "recv_end":
			got[[2]int{e.Ch, e.Arg}]++
			seq[e.Ch] = append(seq[e.Ch], fmt.Sprint(e.Arg))
			total++
		case "send_ret":
			nsent[e.Ch] = e.Arg
		}
	}
	live := 0
	for id := 1; id <= s.N; id++ {
		g2, g1 := got[[2]int{id, 2}], got[[2]int{id, 1}]
		if unsub[id] {
			if g2 > 0 {
				vs = append(vs, verdict{"delivery-to-unsubscribed", fmt.Sprintf("subscriber %d was unsubscribed (Unsubscribe returned) before Send(2) was called but received its value %d times", id, g2)})
			}
			if g1 > 1 {
				vs = append(vs, verdict{"duplicate-delivery", fmt.Sprintf("subscriber %d received the racing value %d times", id, g1)})
			}
		} else {
			live++
			if g2 != 1 {
				vs = append(vs, verdict{"live-subscriber-missed-value", fmt.Sprintf("subscriber %d was never unsubscribed but received the value of Send(2) %d times", id, g2)})
			}
			if s.Racing && g1 != 1 {
				vs = append(vs, verdict{"live-subscriber-missed-value", fmt.Sprintf("subscriber %d was never unsubscribed but received the value of the racing Send(1) %d times", id, g1)})
			}
		}
	}
	if n, ok := nsent[2]; ok && n != live && len(vs) == 0 {
		vs = append(vs, verdict{"nsent-mismatch", fmt.Sprintf("Send(2) returned %d with %d live subscribers", n, live)})
	}
	var ns, rv []string
	for _, id := range []int{1, 2} {
		if n, ok := nsent[id]; ok {
			ns = append(ns, fmt.Sprintf("%d:%d", id, n))
		}
	}
	for id := 1; id <= s.N; id++ {
		rv = append(rv, fmt.Sprintf("%d:%s", id, strings.Join(seq[id], ".")))
	}
	return fmt.Sprintf("accepted d=%d nsent=%s recv=%s panicked=false", total, strings.Join(ns, ","), strings.Join(rv, ";")), vs
}

func stormPart(c *vh.Ctx, m *vh.Model) {
	n := c.Scale(500, 10000)
	scheds := make([]stormSched, n)
	for i := range scheds {
		scheds[i] = genStorm(c.Rng)
	}
	results := make([]stormOut, n)
	var wg sync.WaitGroup
	next := make(chan int)
	var mu sync.Mutex
	bad := 0
	for w := 0; w < 6; w++ {
		wg.Add(1)
		go func() {
			defer wg.Done()
			for i := range next {
				mu.Lock()
				skip := bad >= 6
				mu.Unlock()
				if skip {
					results[i].dead = "skipped"
					continue
				}
				results[i] = runStorm(scheds[i])
				if results[i].dead != "" && len(results[i].panics) == 0 {
					mu.Lock()
					bad++
					mu.Unlock()
				}
			}
		}()
	}
	for i := range scheds {
		next <- i
	}
	close(next)
	wg.Wait()
	var reqs, dreqs []string
	var idx []int
	for i, r := range results {
		s := scheds[i]
		class := fmt.Sprintf("feed/fresh-unsubscribe-storm/k=%s/racing=%v", bucket(s.K), s.Racing)
		if r.dead == "skipped" {
			c.Count("feed/fresh-unsubscribe-storm/skipped-after-deadlocks")
			continue
		}
		replay := map[string]interface{}{"storm_schedule": s, "unsubscribed": r.unsub, "panics": r.panics, "history": evText(r.evs)}
		if len(r.panics) > 0 {
			c.Eval(class, "")
			c.Violate("feed-panic/"+r.panics[0].Op, "aqua/event panicked in "+r.panics[0].Op+": "+r.panics[0].Val, replay)
			continue
		}
		if r.dead != "" {
			c.Eval(class, "")
			replay["goroutines"] = r.dead
			c.Violate("deadlock", "fresh-unsubscribe storm: no progress", replay)
			continue
		}
		// the black-box verdict first: it does not depend on the model accepting the trace
		observed, vs := stormOracle(s, r)
		for _, v := range vs {
			c.Violate(v.sig, v.what, replay)
		}
		var chs []chanSpec
		for id := 1; id <= s.N; id++ {
			chs = append(chs, chanSpec{ID: id, Cap: 4})
		}
		ls, err := translate(schedule{Chans: chs}, r.evs)
		if err != "" {
			c.Fatal("storm translate: %s", err)
		}
		c.Eval(class, strings.Join(ls, " "))
		reqs = append(reqs, "run "+strings.Join(stripHints(ls), " "))
		dreqs = append(dreqs, "drun "+strings.Join(ls, " "))
		idx = append(idx, i)
		_ = observed
	}
	answers, danswers := m.AskAll(reqs), m.AskAll(dreqs)
	for k, i := range idx {
		observed, _ := stormOracle(scheds[i], results[i])
		c.Correspond("Feed(fresh-unsubscribe storm)~FeedLTS.run", reqs[k], observed, answers[k])
		c.Correspond("Feed(fresh-unsubscribe storm)~DupLTS.drun", dreqs[k], observed, danswers[k])
	}
}

func bucket(k int) string {
	switch {
	case k <= 3:
		return "2-3"
	case k <= 8:
		return "4-8"
	case k <= 24:
		return "9-24"
	}
	return "25-48"
}
