// c14: correspondence between proof-of-work seal verification / header hashing by
// version / the nonce search (Go) and the Coq model (Consensus/Seal.v), plus the
// direct oracle for property C14: accepted iff difficulty > 0, the mix digest is
// the expected one and result * difficulty <= 2^256, evaluated independently.
// PoW hash outputs (argon2id variants, hashimoto) enter the model as oracle
// values recorded from the implementation; Keccak and the RLP pre-images are
// computed by the model itself.
//
//go:debug randseednop=0
package main

import (
	"context"
	"encoding/binary"
	"fmt"
	"math/big"
	mrand "math/rand"
	"os"
	"strings"
	"time"

	"gitlab.com/aquachain/aquachain/common"
	"gitlab.com/aquachain/aquachain/common/log"
	"gitlab.com/aquachain/aquachain/consensus"
	"gitlab.com/aquachain/aquachain/consensus/aquahash"
	"gitlab.com/aquachain/aquachain/consensus/aquahash/ethashdag"
	"gitlab.com/aquachain/aquachain/core/types"
	"gitlab.com/aquachain/aquachain/crypto"
	"gitlab.com/aquachain/aquachain/opt/miner"
	"gitlab.com/aquachain/aquachain/params"
	"gitlab.com/aquachain/aquachain/rlp"
	"gitlab.com/aquachain/aquachain/verifharness/vh"
	"golang.org/x/crypto/argon2"
	xsha3 "golang.org/x/crypto/sha3"
)

type cfgOnly struct{ cfg *params.ChainConfig }

func (f cfgOnly) Config() *params.ChainConfig                             { return f.cfg }
func (f cfgOnly) GetContext() context.Context                             { return context.Background() }
func (f cfgOnly) CurrentHeader() *types.Header                            { return nil }
func (f cfgOnly) GetHeader(hash common.Hash, number uint64) *types.Header { return nil }
func (f cfgOnly) GetHeaderByNumber(number uint64) *types.Header           { return nil }
func (f cfgOnly) GetHeaderByHash(hash common.Hash) *types.Header          { return nil }
func (f cfgOnly) GetBlock(hash common.Hash, number uint64) *types.Block   { return nil }

var _ consensus.ChainReader = cfgOnly{}

var two256 = new(big.Int).Lsh(big.NewInt(1), 256)

func shTok(h *types.Header) string {
	return fmt.Sprintf("%s,%s,%s,%s,%s,%s,%s,%s,%s,%d,%d,%s,%s,%s,%d,%d",
		h.ParentHash.Hex(), h.UncleHash.Hex(), vh.Hex(h.Coinbase[:]), h.Root.Hex(), h.TxHash.Hex(), h.ReceiptHash.Hex(), vh.Hex(h.Bloom[:]),
		h.Difficulty, h.Number, h.GasLimit, h.GasUsed, h.Time, vh.Hex(h.Extra), h.MixDigest.Hex(), h.Nonce.Uint64(), int(h.Version))
}

func rlpNoNonce(h *types.Header) []byte {
	b, _ := rlp.EncodeToBytes([]interface{}{h.ParentHash, h.UncleHash, h.Coinbase, h.Root, h.TxHash, h.ReceiptHash, h.Bloom,
		h.Difficulty, h.Number, h.GasLimit, h.GasUsed, h.Time, h.Extra})
	return b
}

func seedOf(hash []byte, nonce uint64) []byte {
	s := make([]byte, 40)
	copy(s, hash)
	binary.LittleEndian.PutUint64(s[32:], nonce)
	return s
}

func argonTag(v int) string { return map[int]string{2: "A", 3: "B", 4: "C"}[v] }

type env struct {
	c      *vh.Ctx
	m      *vh.Model
	normal *aquahash.Aquahash // versions 2..4 (no ethash caches)
	tester *aquahash.Aquahash // ethash in test mode (version 1)
	dag    *ethashdag.EthashDAG
}

func randHeader(r *vh.RNG, number *big.Int, version int) *types.Header {
	h := &types.Header{Number: number, Time: new(big.Int).SetUint64(r.Uint64() >> uint(r.Intn(40))), Difficulty: big.NewInt(1),
		GasLimit: r.Uint64() >> uint(r.Intn(64)), GasUsed: r.Uint64() >> uint(r.Intn(64)), Extra: r.Bytes(r.Intn(40))}
	copy(h.ParentHash[:], r.Bytes(32))
	copy(h.UncleHash[:], r.Bytes(32))
	copy(h.Coinbase[:], r.Bytes(20))
	copy(h.Root[:], r.Bytes(32))
	copy(h.TxHash[:], r.Bytes(32))
	copy(h.ReceiptHash[:], r.Bytes(32))
	if r.Chance(30) {
		copy(h.Bloom[:], r.Bytes(256))
	}
	h.Nonce = types.EncodeNonce(r.Uint64() >> uint(r.Intn(64)))
	h.Version = params.HeaderVersion(version)
	return h
}

// powOf: what the implementation's primitives give for (version, header): expected digest, result, oracle entries
func (e *env) powOf(h *types.Header) (digest, result []byte, oracle []string, engineErr bool) {
	v := int(h.Version)
	var hnn common.Hash
	if v == 3 {
		pre := rlpNoNonce(h)
		hnn = common.BytesToHash(crypto.Argon2idB(pre))
		oracle = append(oracle, "B:"+vh.Hex(pre)+"="+vh.Hex(hnn[:]))
	} else {
		hnn = crypto.Keccak256Hash(rlpNoNonce(h))
	}
	switch {
	case v == 1:
		_, d, r, err := e.dag.VerifySeal(h.Number.Uint64(), h)
		key := fmt.Sprintf("H:0x%x:%s:0x%x", h.Number.Uint64(), vh.Hex(hnn[:]), h.Nonce.Uint64())
		if err != nil {
			return nil, nil, append(oracle, key+"=none"), true
		}
		return d, r, append(oracle, key+"="+vh.Hex(d)+":"+vh.Hex(r)), false
	case v >= 2 && v <= 4:
		seed := seedOf(hnn[:], h.Nonce.Uint64())
		r := crypto.VersionHash(byte(v), seed)
		return make([]byte, 32), r, append(oracle, argonTag(v)+":"+vh.Hex(seed)+"="+vh.Hex(r)), false
	}
	return nil, nil, oracle, false
}

func oracleTok(o []string) string {
	if len(o) == 0 {
		return "-"
	}
	return strings.Join(o, ";")
}

func sealClass(err error) string {
	if err == nil {
		return "ok"
	}
	if c := aquahash.VerifErrClass(err); c != "" {
		return "err " + c
	}
	if strings.Contains(err.Error(), "invalid startVersion") {
		return "err ethash"
	}
	return "err ?" + err.Error()
}

func (e *env) engineFor(v int) *aquahash.Aquahash {
	if v == 1 {
		return e.tester
	}
	return e.normal
}

// one VerifySeal case: implementation vs model, and the property's predicate on the verdict
func (e *env) checkSeal(class string, h *types.Header, digest, result []byte, oracle []string) {
	c := e.c
	var err error
	pan, pv := vh.CatchPanic(func() { err = e.engineFor(int(h.Version)).VerifySeal(nil, h) })
	obs := sealClass(err)
	if pan {
		obs = "panic"
	}
	cas := "seal " + shTok(h) + " " + oracleTok(oracle)
	key := ""
	if obs == "ok" {
		key = fmt.Sprintf("%s/%d/%s", h.Difficulty, h.Version, vh.Hex(result))
	}
	c.Eval(class, key)
	c.Count("verdict/" + obs)
	c.Correspond("VerifySeal~verify_seal", cas, obs, e.m.Ask(cas))
	// direct oracle (independent of the model): epoch range, positive difficulty, expected mix digest, result*difficulty <= 2^256
	v := int(h.Version)
	if v < 1 || v > 4 {
		// no algorithm is defined for the version: the property requires rejection; the code panics instead
		// (Version is never read from the wire: it is assigned from the height, so this is not attacker-reachable; the panic
		// is modelled and compared, and never counts as acceptance.)
		_ = pv
		if obs == "ok" {
			c.Violate("seal-unknown-version/"+cas, "a header version without algorithm is accepted", map[string]string{"case": cas, "observed": obs})
		} else if obs == "panic" {
			c.Count("verifyseal-panics-on-version-without-algorithm")
		}
		return
	}
	want := "ok"
	switch {
	case h.Number.Uint64()/30000 >= 2048:
		want = "reject"
	case h.Difficulty.Sign() <= 0:
		want = "reject"
	case result == nil:
		want = "reject"
	case common.BytesToHash(digest) != h.MixDigest:
		want = "reject"
	case new(big.Int).Mul(new(big.Int).SetBytes(result), h.Difficulty).Cmp(two256) > 0:
		want = "reject"
	}
	if (obs == "ok") != (want == "ok") || obs == "panic" {
		c.Violate("seal-predicate/"+cas, "VerifySeal verdict differs from: difficulty > 0, mix digest expected, result <= 2^256/difficulty",
			map[string]string{"case": cas, "observed": obs, "expected": want, "result": vh.Hex(result)})
	}
}

func (e *env) seals() {
	c := e.c
	n := c.Scale(260, 4000)
	for it := 0; it < n; it++ {
		v := []int{1, 2, 2, 3, 3, 4, 4, 0, 5, 255}[c.Rng.Intn(10)]
		number := big.NewInt(int64(c.Rng.Intn(60000)))
		if v != 1 && c.Rng.Chance(30) {
			number = new(big.Int).SetUint64(c.Rng.Uint64() >> uint(c.Rng.Intn(50)))
		}
		h := randHeader(c.Rng, number, v)
		// the hash does not depend on difficulty?  It does (difficulty is hashed): fix the difficulty first, then search
		// the interesting boundary by choosing the difficulty from the result of a first pass and re-hashing is circular;
		// instead use the nonce-independent route: pick difficulty d, compute r, then set the comparison boundary through
		// a second header whose difficulty is floor(2^256/r)+k — the result changes with it, so boundaries are reached by
		// iterating: d_{i+1} = floor(2^256 / r(d_i)) + k until it is stable in the top bits (2 rounds suffice to be near).
		kinds := []string{"d=1", "d=2", "boundary", "boundary+1", "boundary-1", "d=0", "d<0", "random-small", "random-large", "wrong-mix", "epoch-range", "number>=2^64"}
		kind := kinds[c.Rng.Intn(len(kinds))]
		switch kind {
		case "d=1":
			h.Difficulty = big.NewInt(1)
		case "d=2":
			h.Difficulty = big.NewInt(2)
		case "d=0":
			h.Difficulty = big.NewInt(0)
		case "d<0":
			h.Difficulty = big.NewInt(-int64(1 + c.Rng.Intn(1000)))
		case "random-small":
			h.Difficulty = big.NewInt(int64(1 + c.Rng.Intn(6)))
		case "random-large":
			h.Difficulty = new(big.Int).SetUint64(c.Rng.Uint64())
		case "epoch-range":
			h.Difficulty = big.NewInt(1)
			h.Number = big.NewInt(int64(30000*2048 - 2 + c.Rng.Intn(4)))
			if v == 1 {
				h.Version = 2
			}
		case "number>=2^64":
			h.Difficulty = big.NewInt(1)
			h.Number = new(big.Int).Add(new(big.Int).Lsh(big.NewInt(1), 64), big.NewInt(int64(c.Rng.Intn(50000))))
		}
		if h.Difficulty.Sign() < 0 {
			// a negative difficulty cannot be RLP-encoded; VerifySeal rejects it before hashing
			c.Eval("seal/v"+fmt.Sprint(v)+"/"+kind, "")
			var err error
			pan, _ := vh.CatchPanic(func() { err = e.engineFor(v).VerifySeal(nil, h) })
			obs := sealClass(err)
			if pan {
				obs = "panic"
			}
			cas := "seal " + shTok(h) + " -"
			c.Correspond("VerifySeal~verify_seal", cas, obs, e.m.Ask(cas))
			if obs == "ok" || obs == "panic" {
				c.Violate("seal-negative-difficulty/"+cas, "negative difficulty not rejected", map[string]string{"case": cas, "observed": obs})
			}
			continue
		}
		if strings.HasPrefix(kind, "boundary") {
			// search a difficulty d with d == floor(2^256/r(d)) + k: since r depends on d through the hash, iterate on the nonce
			// instead: keep d, vary nonces until some r is just at / around the target is infeasible; so use the exact
			// fixed-point search over small candidates: try d = floor(2^256/r(d0)) + k and accept whatever side it lands on,
			// then ALSO evaluate the straddling pair (same header, difficulties q-1,q,q+1 around its own quotient) below.
			h.Difficulty = big.NewInt(int64(1 + c.Rng.Intn(1<<20)))
		}
		digest, result, oracle, engErr := e.powOf(h)
		if engErr {
			c.Count("ethash-engine-error")
		}
		if kind == "wrong-mix" {
			copy(h.MixDigest[:], digest)
			i := c.Rng.Intn(32)
			h.MixDigest[i] ^= 1 << uint(c.Rng.Intn(8))
		} else {
			copy(h.MixDigest[:], digest)
		}
		e.checkSeal("seal/v"+fmt.Sprint(v)+"/"+kind, h, digest, result, oracle)
	}
}

// exact boundary: result <= floor(2^256/d)  <=>  accepted.  Changing d changes the hash, so the straddle is searched:
// for small d the target 2^256/d is hit with probability 1/d per nonce; we scan nonces and classify every (nonce,d)
// by its distance to the target, and additionally check the arithmetic at the exact boundary with difficulty 1
// (target = 2^256 >= every result) and with the largest d such that a found result still passes / first that fails.
func (e *env) boundaries() {
	c := e.c
	n := c.Scale(40, 400)
	for it := 0; it < n; it++ {
		v := []int{1, 2, 3, 4}[c.Rng.Intn(4)]
		h := randHeader(c.Rng, big.NewInt(int64(c.Rng.Intn(50000))), v)
		// fixed point search: d such that floor(2^256 / r(d)) is close to d.  For d in 2..40 scan nonces; among the
		// scanned (d, nonce) keep the pair minimising |r*d - 2^256| on each side.
		d := int64(2 + c.Rng.Intn(40))
		h.Difficulty = big.NewInt(d)
		var bestIn, bestOut *types.Header
		var bestInGap, bestOutGap *big.Int
		start := c.Rng.Uint64()
		tries := 48
		if v == 1 {
			tries = 24
		}
		for k := 0; k < tries; k++ {
			hh := types.CopyHeader(h)
			hh.Nonce = types.EncodeNonce(start + uint64(k))
			_, r, _, _ := e.powOf(hh)
			if r == nil {
				continue
			}
			gap := new(big.Int).Sub(two256, new(big.Int).Mul(new(big.Int).SetBytes(r), big.NewInt(d)))
			if gap.Sign() >= 0 && (bestInGap == nil || gap.Cmp(bestInGap) < 0) {
				bestIn, bestInGap = hh, gap
			}
			if gap.Sign() < 0 && (bestOutGap == nil || gap.Cmp(bestOutGap) > 0) {
				bestOut, bestOutGap = hh, gap
			}
		}
		for _, hh := range []*types.Header{bestIn, bestOut} {
			if hh == nil {
				continue
			}
			digest, result, oracle, _ := e.powOf(hh)
			copy(hh.MixDigest[:], digest)
			side := "nearest-passing"
			if hh == bestOut {
				side = "nearest-failing"
			}
			e.checkSeal("boundary/v"+fmt.Sprint(v)+"/"+side, hh, digest, result, oracle)
		}
	}
	// arithmetic straddle, exact: the comparison `result > 2^256/d` is probed at q-1, q, q+1 for q = floor(2^256/r) through
	// the model and an independent evaluation with the implementation's own big.Int expression on synthetic results.
	for it := 0; it < c.Scale(200, 2000); it++ {
		r := new(big.Int).SetBytes(c.Rng.Bytes(1 + c.Rng.Intn(32)))
		if r.Sign() == 0 {
			continue
		}
		q := new(big.Int).Div(two256, r)
		for _, k := range []int64{-1, 0, 1} {
			d := new(big.Int).Add(q, big.NewInt(k))
			if d.Sign() <= 0 {
				continue
			}
			target := new(big.Int).Div(aquahash.VerifMaxUint256(), d)
			implAccept := r.Cmp(target) <= 0
			specAccept := new(big.Int).Mul(r, d).Cmp(two256) <= 0
			c.Eval("target-arithmetic", "")
			if implAccept != specAccept {
				c.Violate("target-arithmetic/"+r.String()+"/"+d.String(), "result <= maxUint256/difficulty disagrees with result*difficulty <= 2^256", map[string]string{"r": r.String(), "d": d.String()})
			}
		}
	}
}

// header hashing by version: Hash, HashNoNonce against the model (which computes the RLP pre-image and Keccak itself)
func (e *env) hashes() {
	c := e.c
	for it := 0; it < c.Scale(120, 1500); it++ {
		v := []int{0, 1, 1, 2, 3, 4, 5, 200}[c.Rng.Intn(8)]
		h := randHeader(c.Rng, new(big.Int).SetUint64(c.Rng.Uint64()>>uint(c.Rng.Intn(64))), v)
		h.Difficulty = new(big.Int).SetBytes(c.Rng.Bytes(c.Rng.Intn(12)))
		copy(h.MixDigest[:], c.Rng.Bytes(32))
		full, _ := rlp.EncodeToBytes(h)
		pre := rlpNoNonce(h)
		c.Eval(fmt.Sprintf("hash/v%d", v), "")
		c.Correspond("rlp(header)~rlp_full", shTok(h), vh.Hex(full), e.m.Ask("rlpfull "+shTok(h)))
		c.Correspond("rlp(13 fields)~rlp_no_nonce", shTok(h), vh.Hex(pre), e.m.Ask("rlpnn "+shTok(h)))
		var oracle []string
		if v >= 2 && v <= 4 {
			oracle = append(oracle, argonTag(v)+":"+vh.Hex(full)+"="+vh.Hex(crypto.VersionHash(byte(v), full)))
		}
		oracle = append(oracle, "B:"+vh.Hex(pre)+"="+vh.Hex(crypto.Argon2idB(pre)))
		var hash, hnn common.Hash
		pan, _ := vh.CatchPanic(func() { hash = h.Hash() })
		obs := "ok " + hash.Hex()
		if pan {
			obs = "panic"
		}
		c.Correspond("Header.Hash~header_hash", shTok(h), obs, e.m.Ask("hash "+shTok(h)+" "+oracleTok(oracle)))
		pan, _ = vh.CatchPanic(func() { hnn = h.HashNoNonce() })
		obs = hnn.Hex()
		if pan {
			obs = "panic"
		}
		c.Correspond("Header.HashNoNonce~hash_no_nonce", shTok(h), obs, e.m.Ask("hnn "+shTok(h)+" "+oracleTok(oracle)))
		// direct oracle: the hash is the version's algorithm applied to the RLP of the header (Version itself not serialised)
		if !pan && v >= 1 && v <= 4 {
			want := crypto.VersionHash(byte(v), full)
			if hash != common.BytesToHash(want) {
				c.Violate("hash-by-version/"+shTok(h), "Header.Hash is not VersionHash(version, rlp(header))", map[string]string{"header": shTok(h)})
			}
			// MinerHash (the work hash) = VersionHash(version, HashNoNonce || le64 nonce)
			b := types.NewBlockWithHeader(h)
			if b.MinerHash() != common.BytesToHash(crypto.VersionHash(byte(v), seedOf(hnn[:], h.Nonce.Uint64()))) {
				c.Violate("minerhash/"+shTok(h), "Block.MinerHash is not the seal hash", map[string]string{"header": shTok(h)})
			}
		}
	}
}

var builtin = []struct {
	name string
	cfg  *params.ChainConfig
}{
	{"mainnet", params.MainnetChainConfig}, {"testnet", params.TestnetChainConfig}, {"testnet2", params.Testnet2ChainConfig},
	{"testnet3", params.Testnet3ChainConfig}, {"dev", params.AllAquahashProtocolChanges}, {"test", params.TestChainConfig},
}

func cfgTok(cfg *params.ChainConfig) string {
	parts := []string{}
	for k := 0; k <= 16; k++ {
		if v := cfg.HF[k]; v != nil {
			parts = append(parts, fmt.Sprintf("%d=%s", k, v))
		}
	}
	return cfg.ChainId.String() + ":" + strings.Join(parts, ",")
}

// version by height around every version-changing fork of every configuration
func (e *env) versions() {
	c := e.c
	cfgs := append([]struct {
		name string
		cfg  *params.ChainConfig
	}{}, builtin...)
	hf := params.ForkMap{}
	for k, v := range params.AquachainHF {
		if v != nil {
			hf[k] = new(big.Int).Set(v)
		}
	}
	hf[8], hf[9] = big.NewInt(90000), big.NewInt(90500) // mainnet with HF8 set by flag and a scheduled HF9
	cfgs = append(cfgs, struct {
		name string
		cfg  *params.ChainConfig
	}{"mainnet+hf8+hf9", &params.ChainConfig{ChainId: big.NewInt(61717561), HF: hf}})
	cfgs = append(cfgs, struct {
		name string
		cfg  *params.ChainConfig
	}{"hf9-before-hf8", &params.ChainConfig{ChainId: big.NewInt(5), HF: params.ForkMap{5: big.NewInt(10), 8: big.NewInt(30), 9: big.NewInt(20)}}})
	for _, nc := range cfgs {
		ct := cfgTok(nc.cfg)
		for _, n := range []int{5, 8, 9} {
			f := nc.cfg.HF[n]
			hs := []int64{0, 1, 1 << 40}
			if f != nil {
				hs = append(hs, f.Int64()-1, f.Int64(), f.Int64()+1)
			}
			for _, hh := range hs {
				if hh < 0 {
					continue
				}
				v := nc.cfg.GetBlockVersion(big.NewInt(hh))
				c.Eval("version/"+nc.name, fmt.Sprintf("%s/%d", nc.name, hh))
				c.Correspond("GetBlockVersion~block_version", fmt.Sprintf("%s %d", ct, hh), fmt.Sprintf("0x%x", int(v)), e.m.Ask(fmt.Sprintf("version %s %d", ct, hh)))
				// direct oracle: determined solely by height through the schedule: 4 from HF9, 3 from HF8, 2 from HF5, else 1
				want := 1
				for _, p := range [][2]int{{5, 2}, {8, 3}, {9, 4}} {
					if x := nc.cfg.HF[p[0]]; x != nil && x.Int64() <= hh {
						want = p[1]
					}
				}
				if int(v) != want {
					c.Violate(fmt.Sprintf("version-by-height/%s/%d", nc.name, hh), "GetBlockVersion is not the highest of HF5/HF8/HF9 active at the height", map[string]string{"config": nc.name, "height": fmt.Sprint(hh), "got": fmt.Sprint(int(v)), "want": fmt.Sprint(want)})
				}
			}
		}
	}
}

// the sealer: Seal with 1, 2, 8 threads at low difficulty then VerifySeal; mine with a chosen start nonce vs the model
func (e *env) sealer() {
	c := e.c
	type sched struct {
		name string
		cfg  *params.ChainConfig
	}
	scheds := []sched{
		{"testnet2", params.Testnet2ChainConfig}, {"testnet", params.TestnetChainConfig}, {"test", params.TestChainConfig}, {"mainnet", params.MainnetChainConfig},
	}
	n := c.Scale(72, 432)
	for it := 0; it < n; it++ {
		sc := scheds[it%len(scheds)]
		// heights around the version-changing forks
		var number int64
		fk := []int{5, 8, 9}[(it/len(scheds))%3]
		if f := sc.cfg.HF[fk]; f != nil {
			number = f.Int64() - 1 + int64(c.Rng.Intn(3))
		} else {
			number = int64(c.Rng.Intn(40))
		}
		if number < 0 {
			number = 0
		}
		v := int(sc.cfg.GetBlockVersion(big.NewInt(number)))
		if v == 1 && number > 50000 {
			number = number % 50000
			v = int(sc.cfg.GetBlockVersion(big.NewInt(number)))
		}
		h := randHeader(c.Rng, big.NewInt(number), v)
		h.Difficulty = big.NewInt(int64(1 + c.Rng.Intn(12)))
		h.Nonce, h.MixDigest = types.BlockNonce{}, common.Hash{}
		versioned := (it/12)%3 != 2
		if !versioned {
			h.Version = 0 // the caller forgot header.Version (the miner's worker always sets it)
		}
		eng := e.engineFor(v)
		threads := []int{1, 2, 8}[(it/4)%3]
		eng.SetThreads(threads)
		var blk *types.Block
		var err error
		done := make(chan struct{})
		stop := make(chan struct{})
		go func() {
			defer close(done)
			blk, err = eng.Seal(cfgOnly{sc.cfg}, types.NewBlockWithHeader(h), stop)
		}()
		select {
		case <-done:
		case <-time.After(30 * time.Second):
			close(stop)
			<-done
			c.Fatal("Seal did not return within 30 s at difficulty %v", h.Difficulty)
		}
		class := fmt.Sprintf("sealer/v%d/threads%d", v, threads)
		if !versioned {
			class += "/unversioned"
		}
		if err != nil || blk == nil {
			c.Violate("seal-returned-nothing/"+shTok(h), "Seal returned no block", map[string]string{"header": shTok(h), "err": fmt.Sprint(err)})
			continue
		}
		sealed := blk.Header()
		verr := eng.VerifySeal(nil, sealed)
		key := ""
		if verr == nil {
			key = sealed.Hash().Hex()
		}
		c.Eval(class, key)
		if int(sealed.Version) != v {
			c.Violate("sealed-version/"+shTok(sealed), "sealed header's version is not the version of its height", map[string]string{"header": shTok(sealed), "want": fmt.Sprint(v)})
		}
		if verr != nil {
			rep := map[string]string{"config": sc.name, "input": shTok(h), "sealed": shTok(sealed), "verify": sealClass(verr)}
			if !versioned && v == 3 {
				c.Count("sealer-unversioned-v3-seal-fails-verification")
				c.Note("Seal on a block whose header.Version is unset at a version-3 height returns a seal that fails VerifySeal (mine hashes before setting the version); the miner's worker sets Version, so this is outside the property's precondition: %s", shTok(h))
			} else {
				c.Violate("mined-seal-rejected/"+shTok(sealed), "a seal returned by Seal does not pass VerifySeal", rep)
			}
		}
		// the nonce search itself against the model and the reference, from a chosen start nonce
		seed := c.Rng.Uint64()
		if c.Rng.Chance(20) {
			seed = ^uint64(0) - uint64(c.Rng.Intn(3)) // wrap-around of nonce++
		}
		e.mineFrom("mine/random-start", eng, h, v, seed)
	}
	e.normal.SetThreads(1)
	e.tester.SetThreads(1)
}

// ---- independent reference for the argon2id seal (golang.org/x/crypto directly, not through crypto/hash.go or
// core/types/block.go): seal-free hash = Keccak-256 (argon2id 16 KiB for version 3) of the RLP list of the 13 fields;
// result = argon2id(hash || le64 nonce) with 1 / 16 / 32 KiB for versions 2 / 3 / 4, time 1, 1 lane, 32 bytes.
func refArgon(v int, in []byte) []byte {
	return argon2.IDKey(in, nil, 1, map[int]uint32{2: 1, 3: 16, 4: 32}[v], 1, 32)
}
func refSealFree(hv *types.Header) []byte {
	pre := rlpNoNonce(hv)
	if int(hv.Version) == 3 {
		return refArgon(3, pre)
	}
	k := xsha3.NewLegacyKeccak256()
	k.Write(pre)
	return k.Sum(nil)
}

// refResult: the PoW value of (header as handed to mine, version v, nonce) by the reference; ethash (v = 1) through the
// light verifier (mine uses the full dataset)
func (e *env) refResult(h *types.Header, v int, hnn []byte, nonce uint64) (digest, result []byte) {
	if v == 1 {
		hx := types.CopyHeader(h)
		hx.Version = 1
		hx.Nonce = types.EncodeNonce(nonce)
		_, d, r, _ := e.dag.VerifySeal(hx.Number.Uint64(), hx)
		return d, r
	}
	in := make([]byte, 40)
	copy(in, hnn)
	for i := 0; i < 8; i++ {
		in[32+i] = byte(nonce >> (8 * uint(i)))
	}
	return make([]byte, 32), refArgon(v, in)
}

func meets(result []byte, d *big.Int) bool {
	return result != nil && new(big.Int).Mul(new(big.Int).SetBytes(result), d).Cmp(two256) <= 0
}

// mineFrom: the nonce search (sealer.go mine, through the export hook) from a chosen start nonce.
// Direct oracle, with a concrete replay: the returned seal passes VerifySeal AND meets the target according to the
// independent reference for the nonce it reports.  Correspondence: the model's search over the reference values of
// every nonce from the start up to the first reference solution returns the same (nonce, mix digest, version).
func (e *env) mineFrom(class string, eng *aquahash.Aquahash, h *types.Header, v int, start uint64) {
	c := e.c
	hnn := refSealFree(h) // from the header as given (mine hashes before it sets the version)
	// reference search: the first nonce at or after start (uint64 wrap-around) that meets the target
	var oracle []string
	if int(h.Version) == 3 {
		oracle = append(oracle, "B:"+vh.Hex(rlpNoNonce(h))+"="+vh.Hex(hnn))
	}
	want, attempts := uint64(0), uint64(0)
	for k := uint64(0); k < 6000; k++ {
		n := start + k
		d, r := e.refResult(h, v, hnn, n)
		if v == 1 {
			oracle = append(oracle, fmt.Sprintf("H:0x%x:%s:0x%x=%s:%s", h.Number.Uint64(), vh.Hex(hnn), n, vh.Hex(d), vh.Hex(r)))
		} else {
			oracle = append(oracle, argonTag(v)+":"+vh.Hex(seedOf(hnn, n))+"="+vh.Hex(r))
		}
		if meets(r, h.Difficulty) {
			want, attempts = n, k+1
			break
		}
	}
	if attempts == 0 {
		c.Count("mine-too-many-attempts-skipped")
		return
	}
	abort, found := make(chan struct{}), make(chan *types.Block, 1)
	go eng.VerifMine(params.HeaderVersion(v), types.NewBlockWithHeader(h), 0, start, abort, found)
	var mined *types.Block
	select {
	case mined = <-found:
	case <-time.After(20 * time.Second):
		close(abort)
		c.Violate(fmt.Sprintf("mine-no-seal/v%d/start=0x%x/%s", v, start, shTok(h)), "the nonce search returned nothing within 20 s although the reference finds a solution after a few attempts",
			map[string]string{"header": shTok(h), "version": fmt.Sprint(v), "start_nonce": fmt.Sprintf("0x%x", start), "reference_solution": fmt.Sprintf("0x%x", want)})
		return
	}
	mh := mined.Header()
	got := mh.Nonce.Uint64()
	verr := eng.VerifySeal(nil, mh)
	_, rr := e.refResult(h, v, hnn, got)
	refOK := meets(rr, h.Difficulty) && int(mh.Version) == v && (v == 1 || mh.MixDigest == (common.Hash{}))
	key := ""
	if verr == nil && refOK {
		key = fmt.Sprintf("%s/0x%x", mh.Hash().Hex(), start)
	}
	c.Eval(fmt.Sprintf("%s/v%d", class, v), key)
	if (int(h.Version) == 3) != (v == 3) {
		// the header was handed over without its version at a version-3 height: outside the miner's precondition
		// (C14_mined_seal_without_version_refuted); the reference follows the code's order, VerifySeal cannot agree
		c.Count("mine-unversioned-v3")
	} else if verr != nil || !refOK {
		c.Violate(fmt.Sprintf("mined-seal-rejected/v%d/start=0x%x/nonce=0x%x/%s", v, start, got, shTok(mh)),
			"the seal returned by the miner's nonce search does not meet the target: VerifySeal and/or the independent argon2id/keccak reference reject the (header, nonce) it reports",
			map[string]string{"header": shTok(h), "version": fmt.Sprint(v), "difficulty": h.Difficulty.String(), "start_nonce": fmt.Sprintf("0x%x", start),
				"returned_nonce": fmt.Sprintf("0x%x", got), "returned_mix": mh.MixDigest.Hex(), "VerifySeal": sealClass(verr),
				"reference_result_of_returned_nonce": vh.Hex(rr), "reference_accepts": fmt.Sprint(refOK), "reference_first_solution": fmt.Sprintf("0x%x", want), "sealed": shTok(mh)})
	}
	cas := fmt.Sprintf("mine %d %d %s %d %s", attempts+3, v, shTok(h), start, oracleTok(oracle))
	obs := fmt.Sprintf("found 0x%x %s 0x%x", got, mh.MixDigest.Hex(), int(mh.Version))
	c.Correspond("mine~mine", cas, obs, e.m.Ask(cas))
}

// startNonces: start nonces just below the byte / word boundaries of the 64-bit nonce (2^8, 2^16, 2^24, 2^32, 2^40, 2^48,
// 2^56 and the wrap at 2^64), for every version, on headers chosen (by the reference) so that the search really
// crosses the boundary before it finds a solution.
func (e *env) startNonces() {
	c := e.c
	for _, v := range []int{2, 3, 4, 1} {
		for _, bits := range []uint{8, 16, 24, 32, 40, 48, 56, 64} {
			if v == 1 && bits != 8 && bits != 32 && bits != 64 && !c.Thorough() {
				continue
			}
			for _, below := range []uint64{1, 2, 5} {
				if !c.Thorough() && below == 2 && bits != 32 {
					continue
				}
				boundary := uint64(0) // 2^64 wraps to 0
				if bits < 64 {
					boundary = 1 << bits
				}
				start := boundary - below
				eng := e.engineFor(v)
				// a header whose first reference solution lies at or after the boundary
				var h *types.Header
				for try := 0; try < 40; try++ {
					cand := randHeader(c.Rng, big.NewInt(int64(1+c.Rng.Intn(20000))), v)
					cand.Difficulty = big.NewInt(int64(8 + c.Rng.Intn(9)))
					cand.Nonce, cand.MixDigest = types.BlockNonce{}, common.Hash{}
					hnn := refSealFree(cand)
					crosses := true
					for k := uint64(0); k < below; k++ {
						if _, r := e.refResult(cand, v, hnn, start+k); meets(r, cand.Difficulty) {
							crosses = false
							break
						}
					}
					if crosses {
						h = cand
						break
					}
				}
				if h == nil {
					c.Fatal("no header found whose search crosses the nonce boundary")
				}
				e.mineFrom(fmt.Sprintf("mine/start=2^%d-%d", bits, below), eng, h, v, start)
			}
		}
	}
}

// ---------------------------------------------------------------- identity of sealed blocks (memoised values)

// refHeaderHash: the version-selected hash of a header recomputed from scratch: RLP of the header (Version is rlp:"-"),
// Keccak-256 for version 1, argon2id 1/16/32 KiB for versions 2/3/4 — with golang.org/x/crypto, not crypto/hash.go / rlpHash.
func refHeaderHash(h *types.Header) common.Hash {
	enc, _ := rlp.EncodeToBytes(h)
	if int(h.Version) == 1 {
		k := xsha3.NewLegacyKeccak256()
		k.Write(enc)
		return common.BytesToHash(k.Sum(nil))
	}
	return common.BytesToHash(refArgon(int(h.Version), enc))
}

// touchBlock: every way the node looks at a work block before / while it is being sealed (RPC marshalling of the pending
// block calls Hash() and Size(); GetWork calls HashNoNonce(); agents take Header() copies)
var touches = []string{"none", "Hash", "HashNoNonce", "Size", "Header", "String", "all"}

func touchBlock(b *types.Block, how string) {
	switch how {
	case "Hash":
		b.Hash()
	case "HashNoNonce":
		b.HashNoNonce()
	case "Size":
		b.Size()
	case "Header":
		h := b.Header()
		h.Nonce = types.EncodeNonce(12345) // a copy: must not leak into the block
	case "String":
		_ = b.String()
	case "all":
		b.Hash()
		b.HashNoNonce()
		b.Size()
		_ = b.Header()
		_ = b.MinerHash()
		b.Hash()
	}
}

// checkSealedBlock: what must hold of a block the sealer (or a constructor chain) returns: Hash() is the hash of ITS
// header, equal to the version-selected hash recomputed from scratch; nonce / mix digest as in its header; version that of
// its height; the hash survives an RLP round trip; (sealed) the header passes VerifySeal.
func (e *env) checkSealedBlock(path, touch string, cfg *params.ChainConfig, blk *types.Block, eng *aquahash.Aquahash, sealed bool) {
	c := e.c
	hdr := blk.Header()
	want := cfg.GetBlockVersion(hdr.Number)
	var problems []string
	if blk.Hash() != hdr.Hash() {
		problems = append(problems, fmt.Sprintf("block.Hash() %s != block.Header().Hash() %s", blk.Hash().Hex(), hdr.Hash().Hex()))
	}
	if hdr.Version != want || blk.Version() != want {
		problems = append(problems, fmt.Sprintf("version %d/%d, height's version %d", int(hdr.Version), int(blk.Version()), int(want)))
	} else if ref := refHeaderHash(hdr); blk.Hash() != ref {
		problems = append(problems, fmt.Sprintf("block.Hash() %s != version-%d hash of the RLP of its header %s", blk.Hash().Hex(), int(want), ref.Hex()))
	}
	if blk.Nonce() != hdr.Nonce.Uint64() || blk.MixDigest() != hdr.MixDigest || blk.NumberU64() != hdr.Number.Uint64() {
		problems = append(problems, "nonce / mix digest / number accessors differ from the header")
	}
	if enc, err := rlp.EncodeToBytes(blk); err != nil {
		problems = append(problems, "rlp encode: "+err.Error())
	} else {
		var b2 types.Block
		if err := rlp.DecodeBytes(enc, &b2); err != nil {
			problems = append(problems, "rlp decode: "+err.Error())
		} else if h2 := b2.SetVersion(cfg.GetBlockVersion(b2.Number())); h2 != blk.Hash() {
			problems = append(problems, fmt.Sprintf("hash after an RLP round trip %s != block.Hash() %s", h2.Hex(), blk.Hash().Hex()))
		}
	}
	if sealed {
		if err := eng.VerifySeal(nil, hdr); err != nil {
			problems = append(problems, "VerifySeal: "+sealClass(err))
		}
	}
	key := ""
	if len(problems) == 0 {
		key = path + "/" + touch + "/" + blk.Hash().Hex()
	}
	c.Eval("block-identity/"+path+"/touched="+touch, key)
	if len(problems) > 0 {
		c.Violate(fmt.Sprintf("sealed-block-identity/%s/touched-before=%s/v%d/#%s", path, touch, int(want), hdr.Number),
			"a block returned by the sealer / a block constructor does not identify as its own header (hash computed with the version's algorithm over its header)",
			map[string]string{"path": path, "touched_before_sealing": touch, "number": hdr.Number.String(), "version": fmt.Sprint(int(want)), "problems": strings.Join(problems, "; "), "header": shTok(hdr)})
	}
}

// blockIdentity: the work block is touched first in every way the node can, then sealed through engine.Seal (1, 2, 3
// threads), mine, CpuAgent and RemoteAgent (GetWork / SubmitWork); and blocks are passed through NewBlock / WithBody /
// WithSeal chains.  Heights: one per hash algorithm incl. version-changing forks.
func (e *env) blockIdentity() {
	c := e.c
	type sc struct {
		name string
		cfg  *params.ChainConfig
		num  int64
	}
	for _, s := range []sc{{"testnet2", params.Testnet2ChainConfig, 8}, {"testnet2", params.Testnet2ChainConfig, 19}, {"test", params.TestChainConfig, 5}, {"test", params.TestChainConfig, 3}} {
		cfg := s.cfg
		chain := cfgOnly{cfg}
		v := int(cfg.GetBlockVersion(big.NewInt(s.num)))
		eng := e.engineFor(v)
		mk := func() *types.Block { // as worker.commitNewWork + Engine.Finalize assemble the work block
			header := &types.Header{Number: big.NewInt(s.num), GasLimit: 4712388, Extra: []byte("verif"), Time: big.NewInt(1700000000 + s.num),
				Version: cfg.GetBlockVersion(big.NewInt(s.num)), Difficulty: big.NewInt(int64(2 + c.Rng.Intn(5)))}
			copy(header.ParentHash[:], c.Rng.Bytes(32))
			copy(header.Coinbase[:], c.Rng.Bytes(20))
			return types.NewBlock(header, nil, nil, nil)
		}
		for ti, touch := range touches {
			// engine.Seal, 1..3 threads
			for _, threads := range []int{1, 2, 3} {
				if !c.Thorough() && threads != 1+ti%3 {
					continue
				}
				blk := mk()
				touchBlock(blk, touch)
				eng.SetThreads(threads)
				res, err := eng.Seal(chain, blk, nil)
				if err != nil || res == nil {
					c.Violate("seal-returned-nothing/identity", "Seal returned no block", map[string]string{"err": fmt.Sprint(err)})
					continue
				}
				e.checkSealedBlock(fmt.Sprintf("Seal/threads=%d", threads), touch, cfg, res, eng, true)
			}
			// mine (one search thread, chosen start)
			{
				blk := mk()
				touchBlock(blk, touch)
				abort, found := make(chan struct{}), make(chan *types.Block, 1)
				go eng.VerifMine(params.HeaderVersion(v), blk, 0, c.Rng.Uint64(), abort, found)
				select {
				case res := <-found:
					e.checkSealedBlock("mine", touch, cfg, res, eng, true)
				case <-time.After(20 * time.Second):
					close(abort)
					c.Fatal("mine did not return")
				}
			}
			// CpuAgent
			{
				blk := mk()
				touchBlock(blk, touch)
				ret := make(chan *miner.Result, 1)
				cpu := miner.NewCpuAgent(chain, eng)
				cpu.SetReturnCh(ret)
				cpu.Start()
				cpu.Work() <- &miner.Work{Block: blk}
				select {
				case res := <-ret:
					touchBlock(blk, touch) // the pending block keeps being queried while the result travels to the worker
					e.checkSealedBlock("CpuAgent", touch, cfg, res.Block, eng, true)
				case <-time.After(30 * time.Second):
					c.Fatal("CpuAgent did not seal within 30 s")
				}
				cpu.Stop()
			}
			// RemoteAgent: GetWork -> external search -> SubmitWork -> block on the return channel
			if v >= 2 {
				blk := mk()
				touchBlock(blk, touch)
				ret := make(chan *miner.Result, 1)
				ra := miner.NewRemoteAgent(chain, eng)
				ra.SetReturnCh(ret)
				ra.Start()
				ra.Work() <- &miner.Work{Block: blk}
				var work [3]string
				var err error
				for i := 0; i < 400; i++ {
					if work, err = ra.GetWork(); err == nil {
						break
					}
					time.Sleep(5 * time.Millisecond)
				}
				if err != nil {
					c.Fatal("RemoteAgent.GetWork: %v", err)
				}
				touchBlock(blk, touch)
				hash := common.HexToHash(work[0])
				target := new(big.Int).SetBytes(common.HexToHash(work[2]).Bytes())
				for nonce := c.Rng.Uint64(); ; nonce++ {
					if r := crypto.VersionHash(byte(v), seedOf(hash[:], nonce)); new(big.Int).SetBytes(r).Cmp(target) <= 0 {
						if !ra.SubmitWork(types.EncodeNonce(nonce), common.Hash{}, hash) {
							c.Violate(fmt.Sprintf("miner-remote-agent-solution-rejected/identity/%s/%d", s.name, s.num), "SubmitWork rejects a valid solution", map[string]string{"touch": touch})
						}
						break
					}
				}
				select {
				case res := <-ret:
					e.checkSealedBlock("RemoteAgent", touch, cfg, res.Block, eng, true)
				case <-time.After(5 * time.Second):
				}
				ra.Stop()
			}
			// constructor chains: NewBlock -> (touch) -> WithBody -> (touch) -> WithSeal(header with another nonce)
			{
				blk := mk()
				touchBlock(blk, touch)
				uncle := blk.Header()
				uncle.Extra = []byte("u")
				wb := blk.WithBody(nil, []*types.Header{uncle})
				e.checkSealedBlock("NewBlock.WithBody", touch, cfg, wb, eng, false)
				touchBlock(wb, touch)
				h2 := wb.Header()
				h2.Nonce = types.EncodeNonce(c.Rng.Uint64())
				copy(h2.MixDigest[:], c.Rng.Bytes(32))
				ws := wb.WithSeal(h2)
				e.checkSealedBlock("WithBody.WithSeal", touch, cfg, ws, eng, false)
				touchBlock(ws, touch)
				h3 := ws.Header()
				h3.Nonce = types.EncodeNonce(c.Rng.Uint64())
				e.checkSealedBlock("WithSeal.WithSeal", touch, cfg, ws.WithSeal(h3), eng, false)
			}
		}
	}
	e.normal.SetThreads(1)
	e.tester.SetThreads(1)
}

// ---------------------------------------------------------------- Block as an object with memoised values

func versionCfg(v int) *params.ChainConfig { // a schedule under which every height has version v
	hf := params.ForkMap{}
	switch v {
	case 2:
		hf[5] = big.NewInt(0)
	case 3:
		hf[5], hf[8] = big.NewInt(0), big.NewInt(0)
	case 4:
		hf[9] = big.NewInt(0)
	}
	return &params.ChainConfig{ChainId: big.NewInt(9), HF: hf}
}

// blockOps: random sequences of the operations that read, fill, keep or drop a block's memoised hash / size
// (Hash, Size, Header, SetVersion, SetVersionConfig, WithSeal, WithBody after NewBlock) on a real types.Block and on the
// model (Consensus/BlockModel.v block_op); every observation is compared.  Direct oracle: at the end of a sequence that
// never changed the version under a memoised hash through SetVersionConfig, Hash() is the reference hash of the current
// header and Size() the length of the current encoding.
func (e *env) blockOps() {
	c := e.c
	// Block.SetVersion / Header.Hash report misuse on stderr (with a stack trace and the raw extra data): keep it off the log
	if null, err := os.OpenFile(os.DevNull, os.O_WRONLY, 0); err == nil {
		old := os.Stderr
		os.Stderr = null
		defer func() { os.Stderr = old; null.Close() }()
	}
	ascii := func(h *types.Header) *types.Header {
		h.Extra = []byte(fmt.Sprintf("%x", h.Extra))
		if len(h.Extra) > 32 {
			h.Extra = h.Extra[:32]
		}
		return h
	}
	nseq := c.Scale(160, 3000)
	for it := 0; it < nseq; it++ {
		v0 := []int{1, 2, 3, 4, 1, 2, 3, 4, 0, 5}[c.Rng.Intn(10)]
		mkUncles := func() []*types.Header {
			var us []*types.Header
			for k := c.Rng.Intn(3); k > 0; k-- {
				us = append(us, randHeader(c.Rng, big.NewInt(int64(c.Rng.Intn(1000))), 1+c.Rng.Intn(4)))
			}
			return us
		}
		us := mkUncles()
		blk := types.NewBlock(ascii(randHeader(c.Rng, big.NewInt(int64(c.Rng.Intn(100000))), v0)), nil, us, nil)
		enc := func(us []*types.Header) string {
			if len(us) == 0 {
				return "0xc0"
			}
			b, _ := rlp.EncodeToBytes(us)
			return vh.Hex(b)
		}
		init := fmt.Sprintf("%s 0xc0 %s", shTok(blk.Header()), enc(us))
		var ops, obs, oracle []string
		hashed, unsafe, panicked := false, false, false
		addOracle := func(h *types.Header, v int) {
			if v >= 2 && v <= 4 {
				full, _ := rlp.EncodeToBytes(h)
				oracle = append(oracle, argonTag(v)+":"+vh.Hex(full)+"="+vh.Hex(crypto.VersionHash(byte(v), full)))
			}
		}
		for k := 1 + c.Rng.Intn(9); k > 0 && !panicked; k-- {
			switch c.Rng.Intn(9) {
			case 0, 1, 2:
				ops = append(ops, "H")
				addOracle(blk.Header(), int(blk.Version()))
				var x common.Hash
				if pan, _ := vh.CatchPanic(func() { x = blk.Hash() }); pan {
					obs, panicked = append(obs, "panic"), true
				} else {
					obs, hashed = append(obs, "h:"+x.Hex()), true
				}
			case 3:
				ops = append(ops, "Z")
				obs = append(obs, fmt.Sprintf("z:%d", int(blk.Size())))
			case 4:
				ops = append(ops, "G")
				hd := blk.Header()
				full, _ := rlp.EncodeToBytes(hd)
				obs = append(obs, fmt.Sprintf("g:%s:0x%x", vh.Hex(full), int(hd.Version)))
				hd.Nonce, hd.Number = types.EncodeNonce(c.Rng.Uint64()), big.NewInt(1) // a copy: must not leak into the block
			case 5:
				n := c.Rng.Intn(6)
				ops = append(ops, fmt.Sprintf("V.%d", n))
				hd := blk.Header()
				hd.Version = params.HeaderVersion(n)
				addOracle(hd, n)
				var x common.Hash
				if pan, _ := vh.CatchPanic(func() { x = blk.SetVersion(params.HeaderVersion(n)) }); pan {
					obs, panicked = append(obs, "panic"), true
				} else {
					obs, hashed = append(obs, "h:"+x.Hex()), true
				}
			case 6:
				n := 1 + c.Rng.Intn(4)
				if hashed && n != int(blk.Version()) {
					unsafe = true
				}
				ops = append(ops, fmt.Sprintf("C.%d", n))
				blk.SetVersionConfig(versionCfg(n))
				obs = append(obs, "-")
			case 7:
				nh := blk.Header()
				nh.Nonce = types.EncodeNonce(c.Rng.Uint64())
				copy(nh.MixDigest[:], c.Rng.Bytes(32))
				if c.Rng.Chance(30) {
					nh.Extra = c.Rng.Bytes(c.Rng.Intn(17))
					ascii(nh)
				}
				if c.Rng.Chance(20) {
					nh.Version = params.HeaderVersion(1 + c.Rng.Intn(4))
				}
				ops = append(ops, "S."+shTok(nh))
				blk = blk.WithSeal(nh)
				obs, hashed = append(obs, "-"), false
			case 8:
				us = mkUncles()
				ops = append(ops, "B.0xc0."+enc(us))
				blk = blk.WithBody(nil, us)
				obs, hashed = append(obs, "-"), false
			}
		}
		cas := fmt.Sprintf("blockops %s %s %s", init, strings.Join(ops, "/"), oracleTok(oracle))
		key := ""
		if !panicked && hashed {
			key = blk.Hash().Hex()
		}
		c.Eval(fmt.Sprintf("block-ops/v%d/len%d", v0, len(ops)), key)
		c.Correspond("Block{Hash,Size,Header,SetVersion,SetVersionConfig,WithSeal,WithBody}~block_op", cas, strings.Join(obs, "/"), e.m.Ask(cas))
		if unsafe {
			c.Count("block-ops/setversionconfig-under-memoised-hash")
		}
		if v := int(blk.Version()); !panicked && !unsafe && v >= 1 && v <= 4 {
			full, _ := rlp.EncodeToBytes(blk)
			if blk.Hash() != refHeaderHash(blk.Header()) || int(blk.Size()) != len(full) {
				c.Violate("block-cache-incoherent/"+strings.Join(ops, "/"), "after a sequence of block operations Hash() / Size() is not that of the block's current header / encoding",
					map[string]string{"initial": init, "ops": strings.Join(ops, "/"), "hash": blk.Hash().Hex(), "reference_hash_of_current_header": refHeaderHash(blk.Header()).Hex(),
						"size": fmt.Sprint(int(blk.Size())), "encoding_length": fmt.Sprint(len(full))})
			}
		}
	}
}

// ---------------------------------------------------------------- Seal with several search threads

// sealThreads: engine.Seal with 1..4 threads.  Seal draws every thread's start nonce from the global math/rand source; the
// harness seeds that source (go:debug randseednop=0) and so knows the start nonces.  Reference: the first solution of
// every thread.  Direct oracle: the block Seal returns carries the first solution of ONE of its threads, passes VerifySeal
// and the reference, and identifies as its header.  Correspondence: the model (SealerModel.v seal_threads) run on the
// interleaving in which that thread gets there first — the others see the closed abort — returns the same seal, once.
func (e *env) sealThreads() {
	c := e.c
	for it, n := 0, c.Scale(48, 600); it < n; it++ {
		threads := 1 + it%4
		v := []int{2, 3, 4, 2, 3, 4, 1}[it%7]
		cfg := versionCfg(v)
		h := randHeader(c.Rng, big.NewInt(int64(1+c.Rng.Intn(20000))), v)
		h.Difficulty = big.NewInt(int64(5 + c.Rng.Intn(10)))
		h.Nonce, h.MixDigest = types.BlockNonce{}, common.Hash{}
		blk := types.NewBlockWithHeader(h)
		h = blk.Header()
		eng := e.engineFor(v)
		eng.SetThreads(threads)
		seed := int64(c.Rng.Uint64() >> 1)
		mrand.Seed(seed)
		starts := make([]uint64, threads)
		for i := range starts {
			starts[i] = uint64(mrand.Int63())
		}
		mrand.Seed(seed)
		res, err := eng.Seal(cfgOnly{cfg}, blk, nil)
		if err != nil || res == nil {
			c.Violate("seal-returned-nothing/threads", "Seal returned no block", map[string]string{"err": fmt.Sprint(err), "threads": fmt.Sprint(threads)})
			continue
		}
		mh := res.Header()
		got := mh.Nonce.Uint64()
		// reference: first solution of every thread
		hnn := refSealFree(h)
		winner, attempts := -1, uint64(0)
		var firsts []string
		for i, st := range starts {
			for k := uint64(0); k < 4000; k++ {
				if _, r := e.refResult(h, v, hnn, st+k); meets(r, h.Difficulty) {
					firsts = append(firsts, fmt.Sprintf("0x%x", st+k))
					if st+k == got && winner < 0 {
						winner, attempts = i, k+1
					}
					break
				}
			}
		}
		rep := map[string]string{"threads": fmt.Sprint(threads), "version": fmt.Sprint(v), "header": shTok(h), "rand_seed": fmt.Sprint(seed),
			"start_nonces": fmt.Sprint(starts), "first_solutions": strings.Join(firsts, ","), "returned_nonce": fmt.Sprintf("0x%x", got)}
		key := ""
		if winner >= 0 {
			key = fmt.Sprintf("%d/%s", threads, mh.Hash().Hex())
		}
		c.Eval(fmt.Sprintf("seal-threads/%d/v%d", threads, v), key)
		if winner < 0 {
			c.Violate(fmt.Sprintf("seal-threads-result-not-a-first-solution/threads=%d/v%d/nonce=0x%x/%s", threads, v, got, shTok(h)),
				"the nonce Seal returns is not the first solution of any of its search threads (start nonces known from the seeded math/rand source)", rep)
			continue
		}
		e.checkSealedBlock(fmt.Sprintf("Seal/seeded/threads=%d", threads), "none", cfg, res, eng, true)
		// the model on the interleaving in which the winner runs to its solution and is received; then everybody else steps once
		var oracle, events []string
		if v == 3 {
			oracle = append(oracle, "B:"+vh.Hex(rlpNoNonce(h))+"="+vh.Hex(hnn))
		}
		for k := uint64(0); k < attempts; k++ {
			nn := starts[winner] + k
			d, r := e.refResult(h, v, hnn, nn)
			if v == 1 {
				oracle = append(oracle, fmt.Sprintf("H:0x%x:%s:0x%x=%s:%s", h.Number.Uint64(), vh.Hex(hnn), nn, vh.Hex(d), vh.Hex(r)))
			} else {
				oracle = append(oracle, argonTag(v)+":"+vh.Hex(seedOf(hnn, nn))+"="+vh.Hex(r))
			}
			events = append(events, fmt.Sprintf("s%d", winner))
		}
		events = append(events, fmt.Sprintf("s%d", winner)) // the offer is received
		for i := range starts {
			if i != winner {
				events = append(events, fmt.Sprintf("s%d", i))
			}
		}
		st := make([]string, len(starts))
		for i, x := range starts {
			st[i] = fmt.Sprint(x)
		}
		cas := fmt.Sprintf("sealer %d %s %s %s %s", v, shTok(h), strings.Join(st, ","), strings.Join(events, ","), oracleTok(oracle))
		obs := fmt.Sprintf("found 0x%x %s 0x%x delivered=1 threads=%s", got, mh.MixDigest.Hex(), int(mh.Version), strings.Repeat("D", threads))
		c.Correspond("Seal(1..4 threads)~seal_threads", cas, obs, e.m.Ask(cas))
	}
	e.normal.SetThreads(1)
	e.tester.SetThreads(1)
}

// minerPaths: the two ways a header reaches Seal / VerifySeal from the node's own miner, driven through the real
// agents of opt/miner with a block assembled the way worker.commitNewWork + Engine.Finalize assemble it
// (header.Version = GetBlockVersion(number), types.NewBlock copies it):
//
//	local  : CpuAgent.mine -> engine.Seal(chain, work.Block)            -> result must pass VerifySeal
//	remote : RemoteAgent.GetWork (HashNoNonce of work.Block) -> external search -> RemoteAgent.SubmitWork -> VerifySeal
//
// Directed at the heights where the seal-free hash depends on the version (version 3) and around them.
func (e *env) minerPaths() {
	c := e.c
	type sc struct {
		name string
		cfg  *params.ChainConfig
		nums []int64
	}
	for _, s := range []sc{
		{"testnet2", params.Testnet2ChainConfig, []int64{7, 8, 9, 18, 19, 20}},
		{"testnet", params.TestnetChainConfig, []int64{4, 5, 649, 650, 651}},
		{"mainnet", params.MainnetChainConfig, []int64{22799, 22800}},
	} {
		for _, num := range s.nums {
			chain := cfgOnly{s.cfg}
			v := int(s.cfg.GetBlockVersion(big.NewInt(num)))
			// worker.commitNewWork
			header := &types.Header{Number: big.NewInt(num), GasLimit: 4712388, Extra: []byte("verif"), Time: big.NewInt(1700000000 + num),
				Version: s.cfg.GetBlockVersion(big.NewInt(num))}
			copy(header.ParentHash[:], c.Rng.Bytes(32))
			copy(header.Coinbase[:], c.Rng.Bytes(20))
			header.Difficulty = big.NewInt(int64(2 + c.Rng.Intn(6))) // Prepare would put the scheduled difficulty; kept minable here
			// Engine.Finalize
			header.SetVersion(byte(s.cfg.GetBlockVersion(header.Number)))
			blk := types.NewBlock(header, nil, nil, nil)
			if int(blk.Version()) != v {
				c.Violate(fmt.Sprintf("miner-work-unversioned/%s/%d", s.name, num), "the block assembled for sealing does not carry the version of its height", map[string]string{"config": s.name, "number": fmt.Sprint(num)})
			}
			eng := e.engineFor(v)
			eng.SetThreads(2)
			// --- local agent
			ret := make(chan *miner.Result, 1)
			cpu := miner.NewCpuAgent(chain, eng)
			cpu.SetReturnCh(ret)
			cpu.Start()
			cpu.Work() <- &miner.Work{Block: blk}
			var res *miner.Result
			select {
			case res = <-ret:
			case <-time.After(30 * time.Second):
				c.Fatal("CpuAgent did not seal within 30 s")
			}
			cpu.Stop()
			sealed := res.Block.Header()
			verr := eng.VerifySeal(chain, sealed)
			key := ""
			if verr == nil {
				key = "cpu/" + sealed.Hash().Hex()
			}
			c.Eval(fmt.Sprintf("miner-path/cpu-agent/%s/v%d", s.name, v), key)
			if verr != nil || int(sealed.Version) != v {
				c.Violate("miner-cpu-agent-seal-rejected/"+shTok(sealed), "a block sealed through CpuAgent/engine.Seal does not pass VerifySeal", map[string]string{"config": s.name, "sealed": shTok(sealed), "verify": sealClass(verr)})
			}
			if v < 2 {
				continue // the external ethash search needs the DAG; the local path above covers version 1
			}
			// --- remote agent (getWork / submitWork)
			ret2 := make(chan *miner.Result, 1)
			ra := miner.NewRemoteAgent(chain, eng)
			ra.SetReturnCh(ret2)
			ra.Start()
			ra.Work() <- &miner.Work{Block: blk}
			var work [3]string
			var err error
			for i := 0; i < 400; i++ {
				if work, err = ra.GetWork(); err == nil {
					break
				}
				time.Sleep(5 * time.Millisecond)
			}
			if err != nil {
				c.Fatal("RemoteAgent.GetWork: %v", err)
			}
			hash := common.HexToHash(work[0])
			target := new(big.Int).SetBytes(common.HexToHash(work[2]).Bytes())
			accepted := false
			for nonce := c.Rng.Uint64(); ; nonce++ {
				r := crypto.VersionHash(byte(v), seedOf(hash[:], nonce))
				if new(big.Int).SetBytes(r).Cmp(target) <= 0 {
					accepted = ra.SubmitWork(types.EncodeNonce(nonce), common.Hash{}, hash)
					break
				}
			}
			ra.Stop()
			key = ""
			if accepted {
				key = "remote/" + work[0]
			}
			c.Eval(fmt.Sprintf("miner-path/remote-agent/%s/v%d", s.name, v), key)
			if !accepted {
				c.Violate(fmt.Sprintf("miner-remote-agent-solution-rejected/%s/%d", s.name, num), "a nonce meeting the getWork target for the getWork hash is rejected by SubmitWork (VerifySeal)", map[string]string{"config": s.name, "number": fmt.Sprint(num), "work": strings.Join(work[:], ",")})
			} else {
				select {
				case r2 := <-ret2:
					if r2.Block.Nonce() == 0 && r2.Block.Version() == 0 {
						c.Note("remote result without version")
					}
				default:
				}
			}
		}
	}
	e.normal.SetThreads(1)
	e.tester.SetThreads(1)
}

func main() {
	c := vh.Init("C14")
	log.Root().SetHandler(log.DiscardHandler())
	m := c.StartModel()
	defer m.Close()
	c.Res.Rule = "random headers x nonces x versions 1 (ethash, test mode), 2, 3, 4 (argon2id 1/16/32 KiB) and versions without algorithm; difficulties 1, 2, 0, negative, small, 64-bit, nearest passing / failing (result*difficulty straddling 2^256) among scanned nonces; wrong mix digest; numbers at the epoch-range limit and >= 2^64; Header.Hash / HashNoNonce / MinerHash by version; GetBlockVersion around HF5/HF8/HF9 of every built-in schedule; Seal with 1/2/8 threads then VerifySeal; mine from chosen start nonces: random, and just below every byte boundary 2^8..2^56 and the 2^64 wrap on headers whose search provably crosses the boundary, the returned seal re-verified by VerifySeal and by an independent x/crypto argon2id + keccak reference. A case is distinct and non-trivial when VerifySeal accepts it (distinct (difficulty, version, result))"
	cfgT := &aquahash.Config{CachesInMem: 2, DatasetsInMem: 1, PowMode: aquahash.ModeTest}
	e := &env{c: c, m: m, normal: aquahash.New(&aquahash.Config{StartVersion: 2, PowMode: aquahash.ModeNormal}), tester: aquahash.New(cfgT), dag: ethashdag.New(cfgT)}
	e.versions()
	e.hashes()
	e.seals()
	e.boundaries()
	e.sealer()
	e.startNonces()
	e.minerPaths()
	e.blockIdentity()
	e.blockOps()
	e.sealThreads()
	c.Assume("ethash (version 1) is exercised in ModeTest (32 KiB dataset); hashimotoLight = hashimotoFull is taken as a property of the primitive")
	c.Assume("argon2id / hashimoto outputs enter the model as oracle values recorded from the implementation; Keccak-256 and the RLP pre-images are computed by the model")
	c.Finish()
}
