// c16: correspondence between the log-bloom / log-filter code (core/types/bloom9.go,
// core/bloombits, aqua/filters, aqua BloomIndexer + core.ChainIndexer) and the Coq
// model of area `bloom`, plus the direct oracles of property C16: no bloom false
// negative, and Filter.Logs == brute-force scan of the canonical receipts.
package main

import (
	"bytes"
	"context"
	"crypto/md5"
	"encoding/hex"
	"encoding/json"
	"fmt"
	"math/big"
	"os"
	"sort"
	"strings"
	"sync/atomic"
	"time"

	"gitlab.com/aquachain/aquachain/aqua"
	"gitlab.com/aquachain/aquachain/aqua/event"
	"gitlab.com/aquachain/aquachain/aqua/filters"
	"gitlab.com/aquachain/aquachain/aquadb"
	"gitlab.com/aquachain/aquachain/common"
	"gitlab.com/aquachain/aquachain/common/bitutil"
	"gitlab.com/aquachain/aquachain/common/log"
	"gitlab.com/aquachain/aquachain/consensus/aquahash"
	"gitlab.com/aquachain/aquachain/core"
	"gitlab.com/aquachain/aquachain/core/bloombits"
	"gitlab.com/aquachain/aquachain/core/types"
	"gitlab.com/aquachain/aquachain/crypto"
	"gitlab.com/aquachain/aquachain/params"
	"gitlab.com/aquachain/aquachain/rpc"
	"gitlab.com/aquachain/aquachain/verifharness/vh"
)

var cfg = params.TestChainConfig

// violate reports at most 5 concrete inputs per defect class (the text before the first '/'), so that one
// noisy class cannot crowd the others out of the result's violation list
var violPerClass = map[string]int{}
var shapeCounter int

func violate(c *vh.Ctx, signature, what string, replay interface{}) {
	cls := strings.SplitN(signature, "/", 2)[0]
	violPerClass[cls]++
	if violPerClass[cls] <= 5 {
		c.Violate(signature, what, replay)
	}
}

// ---------------------------------------------------------------- rendering (line protocol of ocaml/bloom/driver.ml)

func logTok(l *types.Log, tag uint64) string {
	t := "-"
	if len(l.Topics) > 0 {
		p := make([]string, len(l.Topics))
		for i, x := range l.Topics {
			p[i] = vh.Hex(x[:])
		}
		t = strings.Join(p, ",")
	}
	return fmt.Sprintf("%s:%s:%s:%d", vh.Hex(l.Address[:]), t, vh.Hex(l.Data), tag)
}

// receiptTok renders the logs of one receipt; tags are base, base+1, ...
func receiptTok(logs []*types.Log, base uint64) string {
	if len(logs) == 0 {
		return "e"
	}
	p := make([]string, len(logs))
	for i, l := range logs {
		p[i] = logTok(l, base+uint64(i))
	}
	return strings.Join(p, ";")
}

func receiptsTok(rs types.Receipts, base uint64) string {
	if len(rs) == 0 {
		return "none"
	}
	p := make([]string, len(rs))
	for i, r := range rs {
		p[i] = receiptTok(r.Logs, base)
		base += uint64(len(r.Logs))
	}
	return strings.Join(p, "|")
}

type criteria struct {
	addrs []common.Address
	tops  [][]common.Hash
}

func (cr criteria) addrTok() string {
	if len(cr.addrs) == 0 {
		return "-"
	}
	p := make([]string, len(cr.addrs))
	for i, a := range cr.addrs {
		p[i] = vh.Hex(a[:])
	}
	return strings.Join(p, ",")
}

func (cr criteria) topTok() string {
	if len(cr.tops) == 0 {
		return "-"
	}
	p := make([]string, len(cr.tops))
	for i, alts := range cr.tops {
		if len(alts) == 0 {
			p[i] = "*"
			continue
		}
		q := make([]string, len(alts))
		for j, t := range alts {
			q[j] = vh.Hex(t[:])
		}
		p[i] = strings.Join(q, ",")
	}
	return strings.Join(p, "/")
}

func (cr criteria) shape() string {
	wild, multi := 0, 0
	for _, alts := range cr.tops {
		if len(alts) == 0 {
			wild++
		} else if len(alts) > 1 {
			multi++
		}
	}
	return fmt.Sprintf("addrs=%d,positions=%d,wild=%d,multi=%d", len(cr.addrs), len(cr.tops), wild, multi)
}

func tagsTok(tags []uint64) string {
	if len(tags) == 0 {
		return "-"
	}
	p := make([]string, len(tags))
	for i, t := range tags {
		p[i] = fmt.Sprint(t)
	}
	return strings.Join(p, ",")
}

func tagOf(l *types.Log) uint64 { return l.BlockNumber<<16 | uint64(l.Index) }

// independent re-statement of the matching rule (the oracle, not filterLogs):
// address in the list (or list empty); for every position i with alternatives,
// the log has a topic i and it is one of them; positions beyond the log's topics fail.
func oracleMatch(l *types.Log, cr criteria) bool {
	if len(cr.addrs) > 0 {
		ok := false
		for _, a := range cr.addrs {
			ok = ok || a == l.Address
		}
		if !ok {
			return false
		}
	}
	if len(cr.tops) > len(l.Topics) {
		return false
	}
	for i, alts := range cr.tops {
		if len(alts) == 0 {
			continue
		}
		ok := false
		for _, t := range alts {
			ok = ok || t == l.Topics[i]
		}
		if !ok {
			return false
		}
	}
	return true
}

// ---------------------------------------------------------------- EVM emitters

type script struct {
	pre    []scriptLog // emitted before the calls
	logs   []scriptLog // emitted after the calls
	revert bool
	calls  []common.Address
}

// ---- deliberate value relations between addresses and topics (one shared pool)

func lpad(a common.Address) common.Hash { return common.BytesToHash(a[:]) } // 12 zero bytes ++ address
func rpad(a common.Address) common.Hash {
	var h common.Hash
	copy(h[:20], a[:])
	return h
}

// the address in the low 20 bytes, padding bytes non-zero: differs from lpad only in the padding
func dirtyPad(a common.Address) common.Hash {
	h := lpad(a)
	for i := 0; i < 12; i++ {
		h[i] = 0xff - byte(i)
	}
	return h
}

// the same 20 bytes at another position
func shifted(a common.Address) common.Hash {
	var h common.Hash
	copy(h[6:26], a[:])
	return h
}
func lowAddr(h common.Hash) common.Address  { return common.BytesToAddress(h[12:]) }
func highAddr(h common.Hash) common.Address { return common.BytesToAddress(h[:20]) }

func relatedTopics(a common.Address) []common.Hash {
	return []common.Hash{lpad(a), rpad(a), dirtyPad(a), shifted(a)}
}

type valuePool struct {
	addrs   []common.Address
	tops    []common.Hash
	special []common.Hash // the corpus topics in tops
}

// keyCorpus: addresses and topics found by search whose three bloom positions are in a special relation:
// two positions coincide (the bloom then has only two bits for the key), a position is 0 or 2047, two
// positions are neighbouring bits or lie in the same byte.  The positions are computed here from
// crypto.Keccak256 directly (not through bloom9 / calcBloomIndexes).
type keyCorpus struct {
	addrs map[string][]common.Address
	tops  map[string][]common.Hash
	tried int
}

var corpusClasses = []string{"coincide", "pos0", "pos2047", "adjacent", "samebyte"}
var corpus *keyCorpus

func bloomPositions(key []byte) [3]uint {
	h := crypto.Keccak256(key)
	var p [3]uint
	for k := 0; k < 3; k++ {
		p[k] = (uint(h[2*k])<<8 | uint(h[2*k+1])) & 2047
	}
	return p
}

func keyClasses(key []byte) []string {
	p := bloomPositions(key)
	var out []string
	has := map[string]bool{}
	add := func(c string) {
		if !has[c] {
			has[c] = true
			out = append(out, c)
		}
	}
	for i := 0; i < 3; i++ {
		if p[i] == 0 {
			add("pos0")
		}
		if p[i] == 2047 {
			add("pos2047")
		}
		for j := i + 1; j < 3; j++ {
			switch {
			case p[i] == p[j]:
				add("coincide")
			case p[i]+1 == p[j] || p[j]+1 == p[i]:
				add("adjacent")
			case p[i]/8 == p[j]/8:
				add("samebyte")
			}
		}
	}
	return out
}

// searchCorpus hashes n candidate keys drawn from the seed and keeps up to 4 per class and kind
func searchCorpus(r *vh.RNG, n int) *keyCorpus {
	kc := &keyCorpus{addrs: map[string][]common.Address{}, tops: map[string][]common.Hash{}, tried: n}
	for i := 0; i < n; i++ {
		if i%2 == 0 {
			var a common.Address
			copy(a[:], r.Bytes(20))
			for _, c := range keyClasses(a[:]) {
				if len(kc.addrs[c]) < 4 {
					kc.addrs[c] = append(kc.addrs[c], a)
				}
			}
		} else {
			t := common.BytesToHash(r.Bytes(32))
			for _, c := range keyClasses(t[:]) {
				if len(kc.tops[c]) < 4 {
					kc.tops[c] = append(kc.tops[c], t)
				}
			}
		}
	}
	return kc
}

// sharedPool: nCore random addresses plus the zero address and a small one; topics are the
// related forms of every address, random words, the zero word, a near pair; and the pool
// also holds the addresses that sit inside the random topics.
func sharedPool(r *vh.RNG, nCore int) valuePool {
	var p valuePool
	p.addrs = append(p.addrs, common.BytesToAddress([]byte{0x01, 0x00}), common.Address{})
	// corpus addresses first (two with coinciding positions, one per other class), then random ones
	var spec []common.Address
	if corpus != nil {
		for ci, cl := range corpusClasses {
			for k, a := range corpus.addrs[cl] {
				if k < 1 || (ci == 0 && k < 2) {
					spec = append(spec, a)
				}
			}
		}
	}
	for i := 0; i < nCore; i++ {
		var a common.Address
		copy(a[:], r.Bytes(20))
		if i < len(spec) && i < nCore-2 {
			a = spec[i]
		}
		p.addrs = append(p.addrs, a)
	}
	for i, a := range p.addrs {
		p.tops = append(p.tops, lpad(a))
		if i%2 == 0 {
			p.tops = append(p.tops, rpad(a))
		}
		if i%3 == 0 {
			p.tops = append(p.tops, dirtyPad(a), shifted(a))
		}
	}
	for i := 0; i < 4; i++ {
		t := common.BytesToHash(r.Bytes(32))
		p.tops = append(p.tops, t)
		if i < 2 {
			p.addrs = append(p.addrs, lowAddr(t), highAddr(t))
		}
	}
	near := p.tops[len(p.tops)-1]
	near[31] ^= 1
	p.tops = append(p.tops, near, common.BytesToHash([]byte{1}))
	if corpus != nil {
		for ci, cl := range corpusClasses {
			for k, t := range corpus.tops[cl] {
				if k < 1 || (ci == 0 && k < 2) {
					p.special = append(p.special, t)
				}
			}
		}
		// just before the last three (the bloom-level relation cases use those as plain topics)
		p.tops = append(p.tops[:len(p.tops)-4], append(append([]common.Hash(nil), p.special...), p.tops[len(p.tops)-4:]...)...)
	}
	return p
}

type scriptLog struct {
	topics []common.Hash
	data   []byte
}

// straight-line code: for every log, MSTORE the data words, push topics (last first), size, offset, LOGn
func (s script) code() []byte {
	var c []byte
	push1 := func(b byte) { c = append(c, 0x60, b) }
	push32 := func(b []byte) {
		w := make([]byte, 32)
		copy(w, b)
		c = append(c, 0x7f)
		c = append(c, w...)
	}
	emit := func(l scriptLog) {
		for off := 0; off < len(l.data); off += 32 {
			end := off + 32
			if end > len(l.data) {
				end = len(l.data)
			}
			push32(l.data[off:end])
			push1(byte(off))
			c = append(c, 0x52)
		}
		for i := len(l.topics) - 1; i >= 0; i-- {
			push32(l.topics[i][:])
		}
		push1(byte(len(l.data)))
		push1(0)
		c = append(c, 0xa0+byte(len(l.topics)))
	}
	for _, l := range s.pre {
		emit(l)
	}
	for _, a := range s.calls { // CALL(gas, addr, 0, 0, 0, 0, 0); POP
		push1(0)
		push1(0)
		push1(0)
		push1(0)
		push1(0)
		c = append(c, 0x73)
		c = append(c, a[:]...)
		c = append(c, 0x62, 0x01, 0x86, 0xa0) // PUSH3 100000
		c = append(c, 0xf1, 0x50)
	}
	for _, l := range s.logs {
		emit(l)
	}
	if s.revert {
		push1(0)
		push1(0)
		c = append(c, 0xfd)
	} else {
		c = append(c, 0x00)
	}
	return c
}

// ---------------------------------------------------------------- chain world

type world struct {
	c        *vh.Ctx
	m        *vh.Model
	db       aquadb.Database
	headers  []*types.Header  // by number, version set
	receipts []types.Receipts // by number, as read back from the database
	blooms   []types.Bloom    // header blooms
	addrPool []common.Address
	topPool  []common.Hash
	allLogs  []*types.Log
	blocks   []*types.Block // canonical, by number
	emitters []common.Address
	sender   common.Address
	sign     func(nonce uint64, to common.Address) *types.Transaction
	rng      *vh.RNG
	special  []common.Hash // corpus topics of the pool (special bloom positions)
	loaded   int           // blocks the model currently holds that agree with w.headers
}

func (w *world) head() uint64 { return uint64(len(w.headers) - 1) }

func buildWorld(c *vh.Ctx, m *vh.Model, n int, density int, gap func(bn uint64) bool) *world {
	r := c.Rng.Fork()
	w := &world{c: c, m: m, db: aquadb.NewMemDatabase()}
	key, _ := crypto.HexToBtcec("b71c71a67e1177ad4e901695e1b4b9ee17ae16c6668d313eac2f96dbcda3f291")
	sender := crypto.PubkeyToAddress(key.PubKey())
	// one shared pool: emitter addresses and topics stand in deliberate relations
	// (topic = left/right-padded emitter address, same 20 bytes elsewhere, zero values ...)
	pool := sharedPool(r, 9)
	emitters := pool.addrs[:11] // 0x0100, the zero address, 9 random ones
	w.topPool = pool.tops
	w.addrPool = pool.addrs
	rt := func() common.Hash { return pool.tops[r.Intn(len(pool.tops))] }
	tl := func(ts ...common.Hash) scriptLog {
		return scriptLog{topics: ts, data: r.Bytes([]int{0, 1, 31, 32, 33, 64}[r.Intn(6)])}
	}
	E := emitters
	zero := common.Hash{}
	scripts := []script{
		0: {logs: []scriptLog{tl(lpad(E[0]))}},                                                                        // topic = own padded address
		1: {logs: []scriptLog{tl(zero), tl(zero, zero)}},                                                              // zero address emits the zero topic (= its padded address)
		2: {logs: []scriptLog{tl(rt(), lpad(E[2])), tl(lpad(E[2]))}},                                                  // own padded address at position 1, then 0
		3: {logs: []scriptLog{tl()}},                                                                                  // LOG0 only: target of the callers
		4: {pre: []scriptLog{tl(lpad(E[3]), rt())}, calls: []common.Address{E[3]}, logs: []scriptLog{tl(rpad(E[4]))}}, // names E3, then E3 emits
		5: {logs: []scriptLog{tl(dirtyPad(E[5])), tl(shifted(E[5]), rpad(E[5]))}},                                     // differs only in padding / position
		6: {logs: []scriptLog{tl(lpad(E[0]), lpad(E[2]), rt(), lpad(E[0]))}},                                          // 4 topics naming other emitters, one twice
		7: {calls: []common.Address{E[0], E[2]}, logs: []scriptLog{tl(lpad(E[0])), tl(lpad(E[7]), lpad(E[7]))}},       // emitters first, their names after
	}
	if sp := pool.special; len(sp) > 0 {
		var s8, s9 script
		for i, t := range sp { // every corpus topic as topic 0 (at most 6 logs), and at positions 1..3
			if i < 6 {
				s8.logs = append(s8.logs, tl(t))
			}
		}
		for i := 0; i+1 < len(sp); i += 2 {
			s9.logs = append(s9.logs, tl(rt(), sp[i], sp[i+1], sp[(i+2)%len(sp)]))
		}
		scripts = append(scripts, s8, s9)
	}
	w.special = pool.special
	for len(scripts) < len(emitters) {
		var sc script
		for j := 1 + r.Intn(3); j > 0; j-- {
			var ts []common.Hash
			for k := r.Intn(5); k > 0; k-- {
				ts = append(ts, rt())
			}
			sc.logs = append(sc.logs, tl(ts...))
		}
		scripts = append(scripts, sc)
	}
	scripts[len(scripts)-1].revert = true // its logs must not appear anywhere
	alloc := core.GenesisAlloc{sender: {Balance: new(big.Int).Lsh(big.NewInt(1), 100)}}
	for i, a := range emitters {
		alloc[a] = core.GenesisAccount{Code: scripts[i].code(), Balance: new(big.Int)}
	}
	gspec := &core.Genesis{Config: cfg, Alloc: alloc, GasLimit: 8000000, Difficulty: big.NewInt(1)}
	genesis := gspec.MustCommit(w.db)
	w.emitters, w.rng = emitters, r
	w.sign = func(nonce uint64, to common.Address) *types.Transaction {
		tx, err := types.SignTx(types.NewTransaction(nonce, to, new(big.Int), 400000, big.NewInt(1), nil), types.HomesteadSigner{}, key)
		if err != nil {
			panic(err)
		}
		return tx
	}
	w.sender = sender
	blocks := w.generate(genesis, n, func(bn uint64) int {
		switch {
		case bn <= uint64(2*len(emitters)):
			return int(bn-1)%len(emitters) + 1 // the first blocks call every emitter once, alone in its block (nothing masks its bloom bits)
		case (n < 1000 && (bn%64 == 63 || bn%64 == 0 || bn%64 == 1)) || (bn >= 2044 && bn <= 2052) || (bn >= 4092 && bn <= 4100) || bn+2 >= uint64(n):
			return -1 // logs on both sides of every 64-block (hence 8/2048/4096-block) section boundary and at the head
		case gap != nil && gap(bn):
			return 0
		case r.Intn(100) < density:
			return -1
		}
		return 0
	})
	w.setCanonical(append([]*types.Block{genesis}, blocks...))
	return w
}

// generate n blocks on top of parent and store them (blocks + receipts) without touching the canonical
// mapping. what(bn): 0 = empty block, -1 = 1..3 random emitter calls, k>0 = exactly one call of emitter k-1
func (w *world) generate(parent *types.Block, n int, what func(bn uint64) int) []*types.Block {
	var blocks []*types.Block
	var receipts []types.Receipts
	r := w.rng
	_, genErr := vh.CatchPanic(func() {
		blocks, receipts = core.GenerateChain(context.TODO(), cfg, parent, aquahash.NewFaker(), w.db, n, func(i int, gen *core.BlockGen) {
			gen.SetVersion(cfg.GetBlockVersion(gen.Number()))
			k := what(gen.Number().Uint64())
			if k == 0 {
				return
			}
			ntx := 1
			if k < 0 {
				ntx = 1 + r.Intn(3)
			}
			for t := 0; t < ntx; t++ {
				to := w.emitters[r.Intn(len(w.emitters))]
				if k > 0 {
					to = w.emitters[k-1]
				}
				gen.AddTx(w.sign(gen.TxNonce(w.sender), to))
			}
		})
	})
	if genErr != nil {
		w.c.Fatal("GenerateChain: %v", genErr)
	}
	for i, b := range blocks {
		if err := core.WriteBlock(w.db, b); err != nil {
			w.c.Fatal("WriteBlock: %v", err)
		}
		if err := core.WriteBlockReceipts(w.db, b.Hash(), b.NumberU64(), receipts[i]); err != nil {
			w.c.Fatal("WriteBlockReceipts: %v", err)
		}
	}
	return blocks
}

// setCanonical makes `chain` (index = block number, chain[0] = genesis) the canonical chain the way
// BlockChain.insert/reorg leave the database: number->hash for every block, stale numbers above the
// new head deleted, head pointers moved; then reads everything back through the database, as the
// filter backend does.  Returns the number of the first block that changed.
func (w *world) setCanonical(chain []*types.Block) uint64 {
	first := uint64(len(chain))
	for num, b := range chain {
		if num < len(w.blocks) && w.blocks[num].Hash() == b.Hash() {
			continue
		}
		if uint64(num) < first {
			first = uint64(num)
		}
		core.WriteCanonicalHash(w.db, b.Hash(), uint64(num))
	}
	for num := len(chain); num < len(w.blocks); num++ {
		core.DeleteCanonicalHash(w.db, uint64(num))
		if uint64(len(chain)) < first {
			first = uint64(len(chain))
		}
	}
	headHash := chain[len(chain)-1].Hash()
	core.WriteHeadBlockHash(w.db, headHash)
	core.WriteHeadHeaderHash(w.db, headHash)
	w.blocks = append([]*types.Block(nil), chain...)
	if first > uint64(len(w.headers)) {
		first = uint64(len(w.headers))
	}
	w.headers, w.blooms, w.receipts = w.headers[:first], w.blooms[:first], w.receipts[:first]
	for num := first; num < uint64(len(chain)); num++ {
		h := w.headerByNumber(num)
		if h == nil || h.Hash() != chain[num].Hash() {
			w.c.Fatal("canonical header %d missing or wrong after write", num)
		}
		w.headers = append(w.headers, h)
		w.blooms = append(w.blooms, h.Bloom)
		w.receipts = append(w.receipts, core.GetBlockReceipts(w.db, h.Hash(), num))
	}
	w.allLogs = w.allLogs[:0]
	for num, rs := range w.receipts {
		idx := uint(0)
		for _, rc := range rs {
			for _, l := range rc.Logs {
				if l.BlockNumber != uint64(num) || l.Index != idx {
					w.c.Fatal("log identity fields: block %d index %d has BlockNumber=%d Index=%d", num, idx, l.BlockNumber, l.Index)
				}
				idx++
				w.allLogs = append(w.allLogs, l)
			}
		}
	}
	return first
}

func (w *world) headerByNumber(num uint64) *types.Header {
	hash := core.GetCanonicalHash(w.db, num)
	if hash == (common.Hash{}) {
		return nil
	}
	h := core.GetHeaderNoVersion(w.db, hash, num)
	if h != nil {
		h.Version = cfg.GetBlockVersion(h.Number)
	}
	return h
}

// load the chain into the model; per block compare header bloom with create_bloom of its receipts,
// and run the no-false-negative oracle on the implementation's own blooms
func (w *world) loadModel() {
	w.loadModelFrom(0)
}

// loadModelFrom keeps the model's first `keep` blocks and (re)loads the rest of the canonical chain
func (w *world) loadModelFrom(keep int) {
	c, m := w.c, w.m
	if a := m.Ask(fmt.Sprintf("truncate %d", keep)); a != "ok" {
		c.Fatal("model truncate: %s", a)
	}
	lines := make([]string, len(w.headers))
	for n := keep; n < len(w.headers); n++ {
		lines[n] = "block " + vh.Hex(w.blooms[n][:]) + " " + receiptsTok(w.receipts[n], uint64(n)<<16)
	}
	ans := make([]string, len(w.headers))
	copy(ans[keep:], m.AskAll(lines[keep:]))
	if l := m.Ask("len"); l != fmt.Sprint(len(w.headers)) {
		c.Fatal("model chain length %s, want %d", l, len(w.headers))
	}
	for n := keep; n < len(w.headers); n++ {
		nl := 0
		for _, rc := range w.receipts[n] {
			nl += len(rc.Logs)
		}
		key := ""
		if nl > 0 {
			key = fmt.Sprintf("blk-%x", w.blooms[n][:])
		}
		c.Eval(fmt.Sprintf("block/logs=%d", min(nl, 6)), key)
		if nl > 0 || n%16 == 0 {
			c.Correspond("header.Bloom(GenerateChain)~create_bloom", lines[n], vh.Hex(w.blooms[n][:]), ans[n])
		} else if vh.Hex(w.blooms[n][:]) != ans[n] {
			c.Correspond("header.Bloom(GenerateChain)~create_bloom", lines[n], vh.Hex(w.blooms[n][:]), ans[n])
		}
		// types.CreateBloom recomputed from the stored receipts
		if cb := types.CreateBloom(w.receipts[n]); cb != w.blooms[n] {
			violate(c, fmt.Sprintf("header-bloom-not-createbloom/block%d", n), "header bloom differs from CreateBloom(receipts)",
				map[string]string{"block": lines[n], "createbloom": vh.Hex(cb[:])})
		}
		for _, rc := range w.receipts[n] {
			for _, l := range rc.Logs {
				checkNoFalseNegative(c, "header", w.blooms[n], l)
				checkNoFalseNegative(c, "receipt", rc.Bloom, l)
			}
		}
	}
}

func checkNoFalseNegative(c *vh.Ctx, what string, bloom types.Bloom, l *types.Log) {
	miss := ""
	if !types.BloomLookup(bloom, l.Address) {
		miss = vh.Hex(l.Address[:])
	}
	for _, t := range l.Topics {
		if !types.BloomLookup(bloom, t) {
			miss = vh.Hex(t[:])
		}
	}
	if miss != "" {
		violate(c, "bloom-false-negative/"+what+"/"+logTok(l, 0), "a log's address/topic tests negative in the bloom covering it",
			map[string]string{"bloom": vh.Hex(bloom[:]), "log": logTok(l, 0), "item": miss})
	}
}

// ---------------------------------------------------------------- filters.Backend

type rowSource func(bit uint, section uint64) []byte

type backend struct {
	w                   *world
	size                uint64
	sections            uint64
	rows                rowSource
	threads             int
	batch               int
	flaky               uint32 // every flaky-th delivery is left empty once (re-requested by the matcher); 0 = never
	counter             uint32
	mux                 *event.TypeMux
	feed                event.Feed // tx events
	feedC, feedR, feedL event.Feed // chain, removed-logs, logs events (a Feed carries one type)
	papi                *filters.PublicFilterAPI
	node                *aqua.VerifBloomNode // if set: BloomStatus and ServiceFilter are the production ones (AquaApiBackend + startBloomHandlers)
}

func (b *backend) refresh() {
	if b.node != nil {
		b.size, b.sections = b.node.BloomStatus()
	}
}

func (b *backend) ChainDb() aquadb.Database                         { return b.w.db }
func (b *backend) GetHeaderVersion(h *big.Int) params.HeaderVersion { return cfg.GetBlockVersion(h) }
func (b *backend) EventMux() *event.TypeMux                         { return b.mux }
func (b *backend) SubscribeTxPreEvent(ch chan<- core.TxPreEvent) event.Subscription {
	return b.feed.Subscribe(ch)
}
func (b *backend) SubscribeChainEvent(ch chan<- core.ChainEvent) event.Subscription {
	return b.feedC.Subscribe(ch)
}
func (b *backend) SubscribeRemovedLogsEvent(ch chan<- core.RemovedLogsEvent) event.Subscription {
	return b.feedR.Subscribe(ch)
}
func (b *backend) SubscribeLogsEvent(ch chan<- []*types.Log) event.Subscription {
	return b.feedL.Subscribe(ch)
}
func (b *backend) BloomStatus() (uint64, uint64) {
	if b.node != nil {
		return b.node.BloomStatus()
	}
	return b.size, b.sections
}

func (b *backend) HeaderByNumber(ctx context.Context, nr rpc.BlockNumber) (*types.Header, error) {
	if nr == rpc.LatestBlockNumber {
		hash := core.GetHeadBlockHash(b.w.db)
		return b.w.headerByNumber(core.GetBlockNumber(b.w.db, hash)), nil
	}
	if nr < 0 {
		return nil, nil
	}
	return b.w.headerByNumber(uint64(nr)), nil
}

func (b *backend) GetReceipts(ctx context.Context, hash common.Hash) (types.Receipts, error) {
	return core.GetBlockReceipts(b.w.db, hash, core.GetBlockNumber(b.w.db, hash)), nil
}

func (b *backend) GetLogs(ctx context.Context, hash common.Hash) ([][]*types.Log, error) {
	rs := core.GetBlockReceipts(b.w.db, hash, core.GetBlockNumber(b.w.db, hash))
	logs := make([][]*types.Log, len(rs))
	for i, r := range rs {
		logs[i] = r.Logs
	}
	return logs, nil
}

// as aqua/api_backend.go ServiceFilter + aqua/bloombits.go startBloomHandlers
func (b *backend) ServiceFilter(ctx context.Context, session *bloombits.MatcherSession) {
	if b.node != nil {
		b.node.ServiceFilter(ctx, session)
		return
	}
	requests := make(chan chan *bloombits.Retrieval)
	for i := 0; i < b.threads; i++ {
		go session.Multiplex(b.batch, 0, requests)
	}
	for i := 0; i < 2; i++ {
		go func() {
			for {
				select {
				case <-ctx.Done():
					return
				case request := <-requests:
					task := <-request
					task.Bitsets = make([][]byte, len(task.Sections))
					for i, section := range task.Sections {
						if b.flaky != 0 && atomic.AddUint32(&b.counter, 1)%b.flaky == 0 {
							continue
						}
						task.Bitsets[i] = b.rows(task.Bit, section)
					}
					request <- task
				}
			}
		}()
	}
}

// ---------------------------------------------------------------- index construction (bloombits.Generator driven directly)

type memIndex map[[2]uint64][]byte

// buildIndex runs NewGenerator/AddBloom for every complete section and reads all 2048 rows through the
// verif hook (Bitset refuses rows >= sections when sections < 2048)
func (w *world) buildIndex(size uint64) (memIndex, uint64) {
	idx := memIndex{}
	full := uint64(len(w.headers)) / size
	for s := uint64(0); s < full; s++ {
		g, err := bloombits.NewGenerator(uint(size))
		if err != nil {
			w.c.Fatal("NewGenerator(%d): %v", size, err)
		}
		for k := uint64(0); k < size; k++ {
			if err := g.AddBloom(uint(k), w.blooms[s*size+k]); err != nil {
				w.c.Fatal("AddBloom: %v", err)
			}
		}
		for bit := 0; bit < types.BloomBitLength; bit++ {
			idx[[2]uint64{uint64(bit), s}] = g.VerifRow(uint(bit))
		}
	}
	return idx, full
}

// commitSection replays BloomIndexer.Reset/Process/Commit with the exported Generator API only
func (w *world) commitSection(size, s uint64) string {
	g, err := bloombits.NewGenerator(uint(size))
	if err != nil {
		return "err-mult8"
	}
	for k := uint64(0); k < size; k++ {
		g.AddBloom(uint(k), w.blooms[s*size+k])
	}
	var sb strings.Builder
	for i := 0; i < types.BloomBitLength; i++ {
		bits, err := g.Bitset(uint(i))
		if err != nil {
			return genErr(err)
		}
		sb.WriteString(vh.Hex(bits))
	}
	sum := md5.Sum([]byte(sb.String()))
	return "ok " + hex.EncodeToString(sum[:])
}

func genErr(err error) string {
	switch {
	case err == nil:
		return "ok"
	case strings.Contains(err.Error(), "out of bounds"):
		return "err-oob"
	case strings.Contains(err.Error(), "unexpected index"):
		return "err-index"
	case strings.Contains(err.Error(), "not fully generated"):
		return "err-notfull"
	case strings.Contains(err.Error(), "multiple of 8"):
		return "err-mult8"
	}
	return "err-other:" + err.Error()
}

// ---------------------------------------------------------------- the RPC layer (aqua/filters/api.go)

// runAPI: PublicFilterAPI.GetLogs with the criteria decoded from JSON text (FilterCriteria.UnmarshalJSON),
// every way a wildcard / single value / alternative list can be written.  from/to: "" (omitted), "latest",
// "earliest", "pending" or a block number in hex.
func (w *world) runAPI(bk *backend, r *vh.RNG, from, to string, cr criteria, cls string) {
	c, m := w.c, w.m
	bk.refresh()
	num := func(s string) int64 {
		switch s {
		case "", "latest":
			return -1
		case "earliest":
			return 0
		case "pending":
			return -2
		}
		var n int64
		fmt.Sscanf(s, "0x%x", &n)
		return n
	}
	q := func(x string) string { return `"` + x + `"` }
	var fields []string
	if from != "" {
		fields = append(fields, `"fromBlock":`+q(from))
	}
	if to != "" {
		fields = append(fields, `"toBlock":`+q(to))
	}
	switch {
	case len(cr.addrs) == 0 && r.Bool():
		fields = append(fields, `"address":[]`)
	case len(cr.addrs) == 1 && r.Bool():
		fields = append(fields, `"address":`+q(cr.addrs[0].Hex()))
	case len(cr.addrs) > 0:
		var as []string
		for _, a := range cr.addrs {
			as = append(as, q(vh.Hex(a[:])))
		}
		fields = append(fields, `"address":[`+strings.Join(as, ",")+`]`)
	}
	if len(cr.tops) > 0 {
		var ps []string
		for _, alts := range cr.tops {
			var as []string
			for _, t := range alts {
				as = append(as, q(vh.Hex(t[:])))
			}
			switch {
			case len(alts) == 0:
				ps = append(ps, []string{"null", "[]", "[null]", "[" + q(vh.Hex(w.topPool[0][:])) + ",null]", "[null," + q(vh.Hex(w.topPool[1][:])) + "]"}[r.Intn(5)])
			case len(alts) == 1 && r.Bool():
				ps = append(ps, as[0])
			default:
				ps = append(ps, "["+strings.Join(as, ",")+"]")
			}
		}
		fields = append(fields, `"topics":[`+strings.Join(ps, ",")+`]`)
	}
	text := "{" + strings.Join(fields, ",") + "}"
	b, e := num(from), num(to)
	var got []uint64
	obs := ""
	p, pv := vh.CatchPanic(func() {
		var fc filters.FilterCriteria
		if err := json.Unmarshal([]byte(text), &fc); err != nil {
			obs = "err-json"
			return
		}
		ctx, cancel := context.WithTimeout(context.Background(), 20*time.Second)
		defer cancel()
		logs, err := bk.api().GetLogs(ctx, fc)
		if err != nil {
			obs = "err"
			return
		}
		if logs == nil {
			obs = "nil-slice"
			return
		}
		for _, l := range logs {
			got = append(got, tagOf(l))
		}
		obs = tagsTok(got)
	})
	if p {
		obs = fmt.Sprintf("panic %v", pv)
	}
	cas := fmt.Sprintf("query %d %d %d %d %s %s", bk.size, bk.sections, b, e, cr.addrTok(), cr.topTok())
	// the oracle: pending and latest both end at the current head
	eo := e
	if eo == -2 {
		eo = -1
	}
	want := w.brute(b, eo, cr)
	key := ""
	if len(want) > 0 {
		key = text
	}
	c.Eval(fmt.Sprintf("api-getlogs/%s/from=%s,to=%s/hits=%s", cls, apiCls(from), apiCls(to), bucket(len(want))), key)
	c.Correspond("PublicFilterAPI.GetLogs(JSON criteria)~filter_query", text+" => "+cas, obs, m.Ask(cas))
	if obs != tagsTok(want) {
		sig := "getlogs-inexact/" + text
		if to == "pending" && !p && len(got) < len(want) {
			// recognised class: toBlock "pending" (-2) becomes end = 2^64-2; the indexed part runs to
			// sections*size-1 and unindexedLogs' loop `f.begin <= int64(end)` never runs
			sig = "getlogs-toblock-pending-skips-unindexed-blocks"
		}
		violate(c, sig, "aqua_getLogs differs from the brute-force scan of the canonical receipts",
			map[string]string{"criteria_json": text, "index": fmt.Sprintf("section size %d, %d sections", bk.size, bk.sections),
				"head": fmt.Sprint(w.head()), "getlogs": obs, "bruteforce": tagsTok(want), "step": cls})
	}
}

func apiCls(s string) string {
	if strings.HasPrefix(s, "0x") {
		return "number"
	}
	if s == "" {
		return "omitted"
	}
	return s
}

func (b *backend) api() *filters.PublicFilterAPI {
	if b.papi == nil {
		b.papi = filters.NewPublicFilterAPI(b, false)
	}
	return b.papi
}

// ---------------------------------------------------------------- criteria / ranges

func (w *world) genCriteria(r *vh.RNG) criteria {
	var cr criteria
	foreignA := func() common.Address { var a common.Address; copy(a[:], r.Bytes(20)); return a }
	foreignT := func() common.Hash { return common.BytesToHash(r.Bytes(32)) }
	if len(w.allLogs) > 0 && r.Chance(45) {
		// derived from a log that exists: guaranteed hit unless perturbed
		l := w.allLogs[r.Intn(len(w.allLogs))]
		if r.Chance(70) {
			cr.addrs = append(cr.addrs, l.Address)
			if r.Chance(30) {
				cr.addrs = append(cr.addrs, w.addrPool[r.Intn(len(w.addrPool))])
			}
			if r.Chance(20) {
				cr.addrs = append([]common.Address{foreignA()}, cr.addrs...)
			}
		}
		np := r.Intn(len(l.Topics) + 1)
		if r.Chance(10) {
			np = len(l.Topics) + 1 // one position more than the log has: must not match this log
		}
		for i := 0; i < np; i++ {
			switch {
			case i >= len(l.Topics):
				cr.tops = append(cr.tops, []common.Hash{w.topPool[r.Intn(len(w.topPool))]})
			case r.Chance(35):
				cr.tops = append(cr.tops, nil)
			default:
				alts := []common.Hash{l.Topics[i]}
				if r.Chance(30) {
					alts = append(alts, w.topPool[r.Intn(len(w.topPool))])
				}
				if r.Chance(15) {
					alts = append([]common.Hash{foreignT()}, alts...)
				}
				cr.tops = append(cr.tops, alts)
			}
		}
		return cr
	}
	na := []int{0, 0, 1, 1, 2, 3}[r.Intn(6)]
	for i := 0; i < na; i++ {
		switch {
		case r.Chance(15):
			cr.addrs = append(cr.addrs, foreignA())
		case i > 0 && r.Chance(15):
			cr.addrs = append(cr.addrs, cr.addrs[0]) // duplicate
		default:
			cr.addrs = append(cr.addrs, w.addrPool[r.Intn(len(w.addrPool))])
		}
	}
	np := []int{0, 0, 1, 1, 2, 3, 4, 5}[r.Intn(8)]
	for i := 0; i < np; i++ {
		if r.Chance(35) {
			cr.tops = append(cr.tops, nil)
			continue
		}
		var alts []common.Hash
		for j := 1 + r.Intn(3); j > 0; j-- {
			switch {
			case r.Chance(12):
				alts = append(alts, foreignT())
			case len(cr.addrs) > 0 && r.Chance(25): // a related form of a queried address
				rel := relatedTopics(cr.addrs[r.Intn(len(cr.addrs))])
				alts = append(alts, rel[r.Intn(len(rel))])
			case len(alts) > 0 && r.Chance(15):
				alts = append(alts, alts[0]) // duplicate alternative
			default:
				alts = append(alts, w.topPool[r.Intn(len(w.topPool))])
			}
		}
		if i > 0 && len(cr.tops[i-1]) > 0 && r.Chance(10) {
			alts = cr.tops[i-1] // same rule at two positions
		}
		cr.tops = append(cr.tops, alts)
	}
	return cr
}

// sweepCriteria: every pool address alone, every pool topic alone at every position, and the shapes
// that need something specific (trailing / inner empty alternative lists, 4 and 5 positions,
// duplicate addresses / alternatives / rules, an address together with its own padded forms)
func (w *world) sweepCriteria() (out []criteria, cls []string) {
	add := func(name string, cr criteria) { out = append(out, cr); cls = append(cls, name) }
	wild := func(n int, last ...common.Hash) [][]common.Hash {
		t := make([][]common.Hash, n)
		if len(last) > 0 {
			t = append(t, last)
		}
		return t
	}
	for _, a := range w.addrPool {
		add("addr", criteria{addrs: []common.Address{a}})
	}
	for i, t := range w.topPool {
		for _, pos := range []int{0, 1 + i%3} {
			add(fmt.Sprintf("topic@%d", pos), criteria{tops: wild(pos, t)})
		}
	}
	for i, a := range w.addrPool {
		if i >= 11 {
			break
		}
		for _, t := range relatedTopics(a) {
			add("addr+own-related-topic@0", criteria{addrs: []common.Address{a}, tops: wild(0, t)})
			add("addr+own-related-topic@1", criteria{addrs: []common.Address{a}, tops: wild(1, t)})
		}
		add("addr-duplicated", criteria{addrs: []common.Address{a, a}})
		add("addr-or-next", criteria{addrs: []common.Address{w.addrPool[(i+1)%len(w.addrPool)], a}})
	}
	for i := 0; i+1 < len(w.topPool); i += 2 {
		t, u := w.topPool[i], w.topPool[i+1]
		add("trailing-empty", criteria{tops: [][]common.Hash{{t}, nil}})
		add("trailing-empty-explicit", criteria{tops: [][]common.Hash{{t}, {}}})
		add("inner-empty", criteria{tops: [][]common.Hash{{t}, nil, {u, t}}})
		add("alt-duplicated", criteria{tops: [][]common.Hash{{t, t}}})
		add("rule-duplicated", criteria{tops: [][]common.Hash{{t}, {t}}})
		add("alts", criteria{tops: [][]common.Hash{{u, t}}})
		add("4-positions", criteria{tops: [][]common.Hash{nil, nil, {t, u}, {u, t}}})
	}
	add("all", criteria{})
	for n := 1; n <= 5; n++ {
		add(fmt.Sprintf("%d-wildcards", n), criteria{tops: wild(n)})
	}
	return
}

// sweepRanges: ends not aligned to 8 blocks / to the section size, begin inside one section and end in a
// later one, everything around sections*size and around head
func (w *world) sweepRanges(size, indexed uint64) [][2]int64 {
	s, ind, head := int64(size), int64(indexed), int64(w.head())
	rs := [][2]int64{{3, 2*s + 5}, {s - 1, s}, {s, 2*s - 1}, {s + 1, 3*s + 2}, {1, 6}, {7, 7}, {8, 8}, {9, 17}, {0, 0},
		{5, head - 3}, {head, -1}, {head - 1, head + 7}, {-1, -1}, {0, -1}, {s/2 + 1, head - s/2 - 2}}
	if ind > 0 {
		rs = append(rs, [][2]int64{{0, ind - 1}, {0, ind}, {ind - 1, ind + 1}, {ind, ind}, {ind - 1, ind - 1}, {ind + 1, -1},
			{ind - s - 3, ind + s + 3}, {ind - 2, -1}, {3, ind - 2}}...)
	}
	var out [][2]int64
	for _, x := range rs {
		if x[0] >= -1 && x[1] >= -1 && (x[0] >= 0 || x[0] == -1) {
			out = append(out, x)
		}
	}
	return out
}

func (w *world) genRange(r *vh.RNG, indexed uint64) (int64, int64, string) {
	head := int64(w.head())
	near := func(x int64) int64 {
		v := x + int64(r.Intn(7)) - 3
		if v < 0 {
			v = 0
		}
		return v
	}
	var b, e int64
	cls := ""
	switch r.Intn(12) {
	case 0:
		b, cls = -1, "b=latest"
	case 1, 2:
		b, cls = 0, "b=0"
	case 3, 4, 5:
		b, cls = near(int64(indexed)), "b~boundary"
	case 6:
		b, cls = head+int64(r.Intn(3)), "b>=head"
	default:
		b, cls = int64(r.Intn(int(head)+1)), "b=rand"
	}
	bb := b
	if bb < 0 {
		bb = head
	}
	switch r.Intn(12) {
	case 0, 1, 2:
		e, cls = -1, cls+",e=latest"
	case 3, 4:
		e, cls = near(int64(indexed)), cls+",e~boundary"
	case 5, 6:
		e, cls = head+1+int64(r.Intn(50)), cls+",e>head"
	case 7:
		e, cls = bb-int64(r.Intn(int(bb)+1)), cls+",e<=b"
	default:
		span := int(head - bb)
		if span < 0 {
			span = 0
		}
		e, cls = bb+int64(r.Intn(span+1)), cls+",e=rand"
	}
	return b, e, cls
}

// brute force over the canonical receipts: the direct oracle
func (w *world) brute(b, e int64, cr criteria) []uint64 {
	head := int64(w.head())
	if b == -1 {
		b = head
	}
	if e == -1 {
		e = head
	}
	var out []uint64
	for n := b; n <= e && n <= head; n++ {
		if n < 0 {
			continue
		}
		for _, rc := range w.receipts[n] {
			for _, l := range rc.Logs {
				if oracleMatch(l, cr) {
					out = append(out, tagOf(l))
				}
			}
		}
	}
	return out
}

func (w *world) runQuery(bk *backend, b, e int64, cr criteria, rangeCls string) {
	c, m := w.c, w.m
	bk.refresh()
	ctx, cancel := context.WithTimeout(context.Background(), 20*time.Second)
	defer cancel()
	var got []uint64
	obs := ""
	var resLogs []*types.Log
	p, pv := vh.CatchPanic(func() {
		f := filters.New(bk, b, e, cr.addrs, cr.tops)
		logs, err := f.Logs(ctx)
		if err != nil {
			obs = "err"
			return
		}
		resLogs = logs
		for _, l := range logs {
			got = append(got, tagOf(l))
		}
		obs = tagsTok(got)
	})
	cas := fmt.Sprintf("query %d %d %d %d %s %s", bk.size, bk.sections, b, e, cr.addrTok(), cr.topTok())
	if p {
		obs = fmt.Sprintf("panic %v", pv)
		violate(c, "filter-logs-panic/"+cas, "Filter.Logs panics", map[string]string{"case": cas, "panic": fmt.Sprint(pv)})
	}
	want := w.brute(b, e, cr)
	key := ""
	if len(want) > 0 {
		key = cas
	}
	indexedCls := "unindexed-only"
	if ind := bk.size * bk.sections; ind > 0 {
		bb := b
		if bb == -1 {
			bb = int64(w.head())
		}
		ee := e
		if ee == -1 {
			ee = int64(w.head())
		}
		switch {
		case uint64(bb) >= ind:
			indexedCls = "range-above-index"
		case uint64(ee) < ind:
			indexedCls = "range-inside-index"
		default:
			indexedCls = "range-straddles-boundary"
		}
	}
	c.Eval(fmt.Sprintf("query/size=%d/%s/%s/hits=%s", bk.size, indexedCls, rangeCls, bucket(len(want))), key)
	c.Count("criteria/" + cr.shape())
	c.Correspond("Filter.Logs~filter_query", cas, obs, m.Ask(cas))
	bcas := fmt.Sprintf("brute %d %d %s %s", b, e, cr.addrTok(), cr.topTok())
	c.Correspond("bruteforce(GetReceipts)~brute_force", bcas, tagsTok(want), m.Ask(bcas))
	if !p && obs != "err" && tagsTok(want) != obs {
		kind := "extra-or-reordered"
		if len(got) < len(want) {
			kind = "missing"
		}
		violate(c, "logs-query-inexact/"+kind+"/"+cas, "Filter.Logs differs from the brute-force scan of the canonical receipts",
			map[string]string{"case": cas, "filter": obs, "bruteforce": tagsTok(want), "step": rangeCls,
				"canonical_head": fmt.Sprintf("%d %s", w.head(), w.headers[w.head()].Hash().Hex()),
				"how":            "c16 -seed <seed of this run>; `step` names the point of the generated history (reorg-history steps: h<k>-<state>) at which this query was asked"})
	}
	if obs == "err" {
		violate(c, "logs-query-error/"+cas, "Filter.Logs returned an error on a healthy backend", map[string]string{"case": cas})
	}
	// the returned logs are the stored ones (content), not just the right positions
	for _, l := range resLogs {
		n := l.BlockNumber
		var ref *types.Log
		if n <= w.head() {
			for _, rc := range w.receipts[n] {
				for _, x := range rc.Logs {
					if x.Index == l.Index {
						ref = x
					}
				}
			}
		}
		if ref == nil || ref.Address != l.Address || !bytes.Equal(ref.Data, l.Data) || len(ref.Topics) != len(l.Topics) {
			violate(c, "logs-query-content/"+cas, "returned log differs from the canonical receipt log", map[string]string{"case": cas, "log": logTok(l, tagOf(l))})
		}
	}
}

func bucket(n int) string {
	switch {
	case n == 0:
		return "0"
	case n <= 3:
		return "1-3"
	case n <= 20:
		return "4-20"
	}
	return ">20"
}

// the matcher driven directly: Matcher.Start over [b,e] vs model and vs bloomFilter per header
func (w *world) runMatcher(bk *backend, b, e uint64, cr criteria) {
	c, m := w.c, w.m
	var fl [][][]byte
	if len(cr.addrs) > 0 {
		f := make([][]byte, len(cr.addrs))
		for i, a := range cr.addrs {
			f[i] = a.Bytes()
		}
		fl = append(fl, f)
	}
	for _, alts := range cr.tops {
		f := make([][]byte, len(alts))
		for i, t := range alts {
			f[i] = t.Bytes()
		}
		fl = append(fl, f)
	}
	obs, got := startMatcher(bk, fl, b, e)
	cas := fmt.Sprintf("matcher %d %d %d %s %s", bk.size, b, e, cr.addrTok(), cr.topTok())
	key := ""
	if len(got) > 0 {
		key = cas
	}
	c.Eval(fmt.Sprintf("matcher/size=%d/hits=%s", bk.size, bucket(len(got))), key)
	c.Correspond("Matcher.Start~matcher_run", cas, obs, m.Ask(cas))
	c.Correspond("Matcher.Start~matcher_run_b (byte level: packed rows, zero-byte skip)", "matcherb"+cas[7:], obs, m.Ask("matcherb"+cas[7:]))
	// direct oracle: exactly the blocks of the range whose header bloom passes bloomFilter, ascending
	var want []uint64
	for n := b; n <= e && n <= w.head(); n++ {
		if filters.VerifBloomFilter(w.blooms[n], cr.addrs, cr.tops) {
			want = append(want, n)
		}
	}
	if numsTok(want) != obs {
		violate(c, "matcher-differs-from-bloomfilter/"+cas, "bloombits matcher result differs from bloomFilter over the headers of the range",
			map[string]string{"case": cas, "matcher": obs, "bloomfilter": numsTok(want)})
	}
}

// startMatcher runs bloombits.NewMatcher(size, fl).Start(b, e) to the end, serviced by the backend
func startMatcher(bk *backend, fl [][][]byte, b, e uint64) (string, []uint64) {
	ctx, cancel := context.WithTimeout(context.Background(), 20*time.Second)
	defer cancel()
	var got []uint64
	obs := ""
	p, pv := vh.CatchPanic(func() {
		matcher := bloombits.NewMatcher(bk.size, fl)
		res := make(chan uint64, 16)
		session, err := matcher.Start(ctx, b, e, res)
		if err != nil {
			obs = "err"
			return
		}
		bk.ServiceFilter(ctx, session)
		for {
			select {
			case n, ok := <-res:
				if !ok {
					session.Close()
					obs = numsTok(got)
					return
				}
				got = append(got, n)
			case <-ctx.Done():
				session.Close()
				obs = "timeout"
				return
			}
		}
	})
	if p {
		obs = fmt.Sprintf("panic %v", pv)
	}
	return obs, got
}

// the Matcher driven with raw clauses, including nil alternatives (NewMatcher: a nil alternative makes
// its whole clause a wildcard) and empty clauses — shapes filters.New never produces
func (w *world) runMatcherRaw(bk *backend, b, e uint64, fl [][][]byte) {
	c, m := w.c, w.m
	obs, got := startMatcher(bk, fl, b, e)
	var cl []string
	for _, f := range fl {
		if len(f) == 0 {
			cl = append(cl, "*")
			continue
		}
		var al []string
		for _, x := range f {
			if x == nil {
				al = append(al, "nil")
			} else {
				al = append(al, vh.Hex(x))
			}
		}
		cl = append(cl, strings.Join(al, ","))
	}
	ct := "-"
	if len(cl) > 0 {
		ct = strings.Join(cl, "/")
	}
	cas := fmt.Sprintf("matcherraw %d %d %d %s", bk.size, b, e, ct)
	key := ""
	if len(got) > 0 {
		key = cas
	}
	c.Eval(fmt.Sprintf("matcher-raw/size=%d/hits=%s", bk.size, bucket(len(got))), key)
	c.Correspond("NewMatcher(raw clauses).Start~new_matcher_filters,matcher_run", cas, obs, m.Ask(cas))
	// direct oracle: a block passes when every clause that is non-empty and has no nil alternative
	// has an alternative whose three bloom bits are set
	var want []uint64
	for n := b; n <= e && n <= w.head(); n++ {
		ok := true
		for _, f := range fl {
			wild, hit := len(f) == 0, false
			for _, x := range f {
				if x == nil {
					wild = true
				} else if types.BloomLookup(w.blooms[n], common.BytesToHash(x)) && len(x) == 32 || len(x) == 20 && types.BloomLookup(w.blooms[n], common.BytesToAddress(x)) {
					hit = true
				}
			}
			ok = ok && (wild || hit)
		}
		if ok {
			want = append(want, n)
		}
	}
	if numsTok(want) != obs {
		violate(c, "matcher-raw-differs-from-bloom/"+cas, "bloombits matcher with raw clauses differs from the bloom test over the headers of the range",
			map[string]string{"case": cas, "matcher": obs, "bloom": numsTok(want)})
	}
}

func numsTok(ns []uint64) string { return tagsTok(ns) }

// ---------------------------------------------------------------- real ChainIndexer + BloomIndexer

type fakeChain struct {
	w    *world
	feed event.Feed
}

func (f *fakeChain) CurrentHeader() *types.Header {
	return types.CopyHeader(f.w.headers[len(f.w.headers)-1])
}
func (f *fakeChain) SubscribeChainEvent(ch chan<- core.ChainEvent) event.Subscription {
	return f.feed.Subscribe(ch)
}

// switchCanonical makes `chain` canonical in the database (as a reorg / import leaves it) and posts the
// ChainEvents of the newly canonical blocks to the indexer, then brings the model's chain up to date
func (w *world) switchCanonical(chain []*types.Block, fc *fakeChain) {
	first := w.setCanonical(chain)
	if fc != nil {
		for num := first; num < uint64(len(chain)); num++ {
			fc.feed.Send(core.ChainEvent{Block: chain[num], Hash: chain[num].Hash()})
		}
	}
	w.loadModelFrom(int(first))
}

// waitIndexed polls the indexer until it reports `expect` stored sections whose last section head is the
// canonical block it should be (so a re-index after a reorg has really happened)
func (w *world) waitIndexed(ix *core.ChainIndexer, size, expect uint64) uint64 {
	deadline := time.Now().Add(10 * time.Second)
	var stored uint64
	for time.Now().Before(deadline) {
		var head common.Hash
		stored, _, head = ix.Sections()
		if stored == expect && (expect == 0 || head == core.GetCanonicalHash(w.db, expect*size-1)) {
			time.Sleep(150 * time.Millisecond) // nothing further may follow
			stored, _, _ = ix.Sections()
			if stored == expect {
				return stored
			}
		}
		time.Sleep(10 * time.Millisecond)
	}
	return stored
}

// the queries repeated at every step of a reorg history: they touch the replaced blocks, the blocks
// before the fork point, old and new sections and the unindexed tail; the same bits every time
func (w *world) historyQueries(bk *backend, label string, forkAt int64) {
	E := w.emitters
	secEnd := (forkAt/4096 + 1) * 4096
	for i := 0; i < 11; i++ {
		w.runQuery(bk, forkAt-60, -1, criteria{addrs: []common.Address{E[i]}}, label+"/addr")
		if i < 4 {
			w.runQuery(bk, forkAt-100, forkAt+300, criteria{tops: [][]common.Hash{{lpad(E[i])}}}, label+"/topic@0")
		}
	}
	for i, t := range w.special {
		if i < 4 {
			w.runQuery(bk, 0, forkAt+300, criteria{tops: [][]common.Hash{{t}}}, label+"/corpus-topic@0")
		}
	}
	w.runQuery(bk, 0, -1, criteria{addrs: []common.Address{E[2], E[0]}}, label+"/whole-chain")
	w.runQuery(bk, 0, -1, criteria{tops: [][]common.Hash{nil, {lpad(E[2]), lpad(E[0])}}}, label+"/whole-chain")
	w.runQuery(bk, forkAt-5, forkAt+5, criteria{}, label+"/around-fork")
	w.runQuery(bk, secEnd-96, secEnd+14, criteria{}, label+"/around-section-end")
	w.runQuery(bk, secEnd-2056, secEnd+4, criteria{addrs: []common.Address{E[5], E[6]}}, label+"/old+new-sections")
	w.runQuery(bk, forkAt+1, forkAt+190, criteria{addrs: []common.Address{E[4], E[7]}, tops: [][]common.Hash{nil}}, label+"/replaced-blocks")
}

// runs the production indexer over the chain and returns the number of stored sections once it is stable
func (w *world) realIndexer(size uint64, expect uint64) uint64 {
	// forget the progress a previous indexer (other section size) left in the shared index table
	aquadb.NewTable(w.db, string(core.BloomBitsIndexPrefix)).Delete([]byte("count"))
	ix := aqua.NewBloomIndexer(cfg, w.db, size)
	fc := &fakeChain{w: w}
	ix.Start(fc)
	defer ix.Close()
	deadline := time.Now().Add(6 * time.Second)
	var last uint64
	stableSince := time.Now()
	for time.Now().Before(deadline) {
		s, _, _ := ix.Sections()
		if s != last {
			last, stableSince = s, time.Now()
		}
		if s == expect && time.Since(stableSince) > 400*time.Millisecond {
			break
		}
		time.Sleep(20 * time.Millisecond)
	}
	return last
}

func (w *world) dbRows(size uint64) rowSource {
	return func(bit uint, section uint64) []byte {
		head := core.GetCanonicalHash(w.db, (section+1)*size-1)
		comp, err := core.GetBloomBits(w.db, bit, section, head)
		if err != nil {
			return nil
		}
		blob, err := bitutil.DecompressBytes(comp, int(size)/8)
		if err != nil {
			return nil
		}
		return blob
	}
}

// ---------------------------------------------------------------- bloom-level checks on random logs

func randLog(r *vh.RNG, p valuePool) *types.Log {
	l := &types.Log{Data: r.Bytes(r.Intn(5))}
	if r.Chance(85) {
		l.Address = p.addrs[r.Intn(len(p.addrs))]
	} else {
		copy(l.Address[:], r.Bytes(20))
	}
	for k := r.Intn(5); k > 0; k-- {
		switch {
		case r.Chance(25): // a related form of this very log's address
			rel := relatedTopics(l.Address)
			l.Topics = append(l.Topics, rel[r.Intn(len(rel))])
		case r.Chance(85):
			l.Topics = append(l.Topics, p.tops[r.Intn(len(p.tops))])
		default:
			l.Topics = append(l.Topics, common.BytesToHash(r.Bytes(32)))
		}
	}
	return l
}

func mkLog(a common.Address, ts ...common.Hash) *types.Log { return &types.Log{Address: a, Topics: ts} }
func mkReceipts(rs ...[]*types.Log) types.Receipts {
	var out types.Receipts
	for _, logs := range rs {
		out = append(out, &types.Receipt{Logs: logs})
	}
	return out
}

// every order/placement in which an address and a related topic can meet inside one block
func relationCases(p valuePool) (cases []types.Receipts, names []string) {
	add := func(name string, rs types.Receipts) { cases = append(cases, rs); names = append(names, name) }
	relName := []string{"lpad", "rpad", "dirtypad", "shifted"}
	for ai := 0; ai < 3; ai++ {
		A, B := p.addrs[ai], p.addrs[(ai+1)%3]
		X, Y := p.tops[len(p.tops)-3], p.tops[len(p.tops)-4]
		for ti, T := range relatedTopics(A) {
			n := relName[ti]
			add(n+"/same-log", mkReceipts([]*types.Log{mkLog(A, T)}))
			add(n+"/same-log-pos3", mkReceipts([]*types.Log{mkLog(A, X, Y, X, T)}))
			add(n+"/topic-then-emitter", mkReceipts([]*types.Log{mkLog(B, T), mkLog(A)}))
			add(n+"/emitter-then-topic", mkReceipts([]*types.Log{mkLog(A), mkLog(B, T)}))
			add(n+"/other-receipt-before", mkReceipts([]*types.Log{mkLog(B, T)}, []*types.Log{mkLog(A)}))
			add(n+"/other-receipt-after", mkReceipts([]*types.Log{mkLog(A)}, []*types.Log{mkLog(B, X, T)}))
			add(n+"/topic-repeated", mkReceipts([]*types.Log{mkLog(B, T, T, T, T), mkLog(B, X, T), mkLog(A, T, X)}))
		}
		add("address-repeated", mkReceipts([]*types.Log{mkLog(A, X), mkLog(A, Y), mkLog(A)}, []*types.Log{mkLog(A, Y, X)}))
		add("topic-shared-across-receipts", mkReceipts([]*types.Log{mkLog(A, X)}, []*types.Log{mkLog(B, X)}, []*types.Log{mkLog(B, Y, X)}))
		add("address-as-both-paddings", mkReceipts([]*types.Log{mkLog(A, lpad(B), rpad(B)), mkLog(B, rpad(A), lpad(A))}))
	}
	return
}

// one block's worth of receipts: CreateBloom / LogsBloom / BloomLookup / filterLogs / bloomFilter
// against the model, and the no-false-negative oracle over EVERY address and topic of every log
func checkReceiptSet(c *vh.Ctx, m *vh.Model, r *vh.RNG, p valuePool, rs types.Receipts, class string) {
	total := 0
	for _, rc := range rs {
		total += len(rc.Logs)
	}
	tok := receiptsTok(rs, 0)
	cb := types.CreateBloom(rs)
	key := ""
	if total > 0 {
		key = "cb-" + tok
	}
	c.Eval(class, key)
	c.Correspond("types.CreateBloom~create_bloom", tok, vh.Hex(cb[:]), m.Ask("createbloom "+tok))
	cbHex := vh.Hex(cb[:])
	lookup := func(what string, x []byte) {
		obs := types.BloomLookup(cb, common.BytesToHash(x))
		if len(x) == 20 {
			obs = types.BloomLookup(cb, common.BytesToAddress(x))
		}
		c.Correspond("types.BloomLookup~bloom_lookup", what+" "+cbHex+" "+vh.Hex(x), fmt.Sprint(obs), m.Ask("lookup "+cbHex+" "+vh.Hex(x)))
	}
	for _, rc := range rs {
		lb := types.BytesToBloom(types.LogsBloom(rc.Logs).Bytes())
		rt := receiptTok(rc.Logs, 0)
		c.Correspond("types.LogsBloom~logs_bloom", rt, vh.Hex(lb[:]), m.Ask("logsbloom "+rt))
		for _, l := range rc.Logs {
			checkNoFalseNegative(c, "logsbloom", lb, l)
			checkNoFalseNegative(c, "createbloom", cb, l)
			lookup("member", l.Address[:])
			if n := len(l.Topics); n > 0 {
				lookup("member", l.Topics[r.Intn(n)][:])
			}
		}
	}
	// the related-but-different values must agree with the model too (usually negative)
	if total > 0 {
		l := rs[len(rs)-1].Logs
		if len(l) > 0 {
			rel := relatedTopics(l[0].Address)
			lookup("related", rel[r.Intn(len(rel))][:])
			if len(l[0].Topics) > 0 {
				lookup("related", lowAddr(l[0].Topics[0]).Bytes())
				lookup("related", highAddr(l[0].Topics[0]).Bytes())
			}
		}
	}
	lookup("pool", p.tops[r.Intn(len(p.tops))][:])
	lookup("random", r.Bytes(32))
	// filterLogs / bloomFilter on the flattened logs with criteria from the same pool
	var flat []*types.Log
	for _, rc := range rs {
		flat = append(flat, rc.Logs...)
	}
	for i, l := range flat {
		l.Index = uint(i)
	}
	w := &world{allLogs: flat, addrPool: p.addrs, topPool: p.tops}
	for q := 0; q < 3; q++ {
		cr := w.genCriteria(r)
		if q == 2 { // one deterministic shape per set, built from a log of the set
			if len(flat) == 0 {
				break
			}
			shapeCounter++
			l := flat[shapeCounter%len(flat)]
			cr = criteria{}
			switch n := len(l.Topics); {
			case shapeCounter%4 == 0 && n >= 1:
				cr.tops = [][]common.Hash{{l.Topics[0]}, {}} // explicit empty list in a later position
			case shapeCounter%4 == 1 && n >= 1:
				cr.tops = make([][]common.Hash, n) // wildcards up to the last topic, which is named (position up to 3)
				cr.tops[n-1] = []common.Hash{l.Topics[n-1]}
			case shapeCounter%4 == 2 && n >= 1:
				cr.addrs = []common.Address{l.Address, l.Address}
				cr.tops = [][]common.Hash{{l.Topics[0], l.Topics[0]}}
			default:
				cr.tops = make([][]common.Hash, n+1) // one wildcard more than the log has topics
				cr.addrs = []common.Address{l.Address}
			}
		}
		ft := receiptTok(flat, 0)
		var got []uint64
		for _, l := range filters.VerifFilterLogs(flat, cr.addrs, cr.tops) {
			got = append(got, uint64(l.Index))
		}
		var want []uint64
		for _, l := range flat {
			if oracleMatch(l, cr) {
				want = append(want, uint64(l.Index))
			}
		}
		cas := fmt.Sprintf("filterlogs %s %s %s", ft, cr.addrTok(), cr.topTok())
		key := ""
		if len(want) > 0 {
			key = cas
		}
		c.Eval("filterlogs/"+cr.shape(), key)
		c.Correspond("filters.filterLogs~filter_logs", cas, tagsTok(got), m.Ask(cas))
		if tagsTok(got) != tagsTok(want) {
			violate(c, "filterlogs-inexact/"+cas, "filterLogs differs from the matching rule", map[string]string{"case": cas, "got": tagsTok(got), "want": tagsTok(want)})
		}
		bf := filters.VerifBloomFilter(cb, cr.addrs, cr.tops)
		bcas := fmt.Sprintf("bloomfilter %s %s %s", cbHex, cr.addrTok(), cr.topTok())
		c.Correspond("filters.bloomFilter~bloom_filter", bcas, fmt.Sprint(bf), m.Ask(bcas))
		if len(want) > 0 && !bf {
			violate(c, "bloomfilter-false-negative/"+cas, "bloomFilter rejects a bloom that covers a matching log", map[string]string{"case": cas})
		}
	}
}

func bloomLevel(c *vh.Ctx, m *vh.Model) {
	r := c.Rng.Fork()
	// Keccak model validation on the input sizes used here
	for i := 0; i < c.Scale(12, 60); i++ {
		b := r.Bytes([]int{20, 32, 0, 1, 135, 136, 137}[i%7])
		c.Correspond("crypto.Keccak256~keccak256", vh.Hex(b), vh.Hex(crypto.Keccak256(b)), m.Ask("keccak "+vh.Hex(b)))
	}
	p := sharedPool(r, 6)
	var items [][]byte
	for _, a := range p.addrs {
		items = append(items, a.Bytes())
	}
	for _, t := range p.tops {
		items = append(items, t.Bytes())
	}
	for _, cl := range corpusClasses { // the whole searched corpus: keys with coinciding / extreme / neighbouring positions
		for _, a := range corpus.addrs[cl] {
			items = append(items, a.Bytes())
		}
		for _, t := range corpus.tops[cl] {
			items = append(items, t.Bytes())
		}
		c.Count(fmt.Sprintf("corpus/%s/addresses=%d,topics=%d", cl, len(corpus.addrs[cl]), len(corpus.tops[cl])))
	}
	for i := c.Scale(20, 400); i > 0; i-- {
		items = append(items, r.Bytes([]int{20, 32, 32, 20, 0, 1, 33}[r.Intn(7)]))
	}
	for _, b := range items {
		hx := vh.Hex(b)
		bl := types.BytesToBloom(types.Bloom9(b).Bytes())
		c.Eval("bloom9/len="+fmt.Sprint(len(b)), "b9-"+hx)
		c.Correspond("types.bloom9~bloom9", hx, vh.Hex(bl[:]), m.Ask("bloom9 "+hx))
		ix := bloombits.VerifCalcBloomIndexes(b)
		c.Correspond("bloombits.calcBloomIndexes~calc_bloom_indexes", hx, fmt.Sprintf("%d %d %d", ix[0], ix[1], ix[2]), m.Ask("idx "+hx))
		// direct: the three indexes are exactly the set bits of bloom9
		want := new(big.Int)
		for _, k := range ix {
			want.SetBit(want, int(k), 1)
		}
		if want.Cmp(types.Bloom9(b)) != 0 {
			violate(c, "bloom-index-disagree/"+hx, "calcBloomIndexes and bloom9 disagree on the bit positions", map[string]string{"item": hx})
		}
	}
	// deterministic: every address/topic relation in every order and placement
	cases, names := relationCases(p)
	for i, rs := range cases {
		checkReceiptSet(c, m, r, p, rs, "createbloom/relation/"+names[i])
	}
	// random log sets over the shared pool
	nSets := c.Scale(30, 400)
	for i := 0; i < nSets; i++ {
		var rs types.Receipts
		nr := r.Intn(4)
		for j := 0; j < nr; j++ {
			rc := &types.Receipt{}
			for k := r.Intn(4); k > 0; k-- {
				rc.Logs = append(rc.Logs, randLog(r, p))
			}
			rs = append(rs, rc)
		}
		checkReceiptSet(c, m, r, p, rs, fmt.Sprintf("createbloom/random/receipts=%d", nr))
	}
}

// Generator API: operation sequences incl. wrong index, overfull, early and out-of-range Bitset
func generatorLevel(c *vh.Ctx, m *vh.Model) {
	r := c.Rng.Fork()
	rounds := c.Scale(14, 80)
	for i := 0; i < rounds; i++ {
		size := []uint{8, 8, 16, 64, 12, 24, 0}[r.Intn(7)]
		if i == 0 {
			size = 2056 // > BloomBitLength: Bitset(idx) with 2048 <= idx < sections indexes the row array out of range
		}
		var ops, outs []string
		g, err := bloombits.NewGenerator(size)
		if err != nil {
			c.Eval("generator/new-rejected", "")
			c.Correspond("bloombits.NewGenerator~new_generator", fmt.Sprint(size), genErr(err), m.Ask(fmt.Sprintf("gen %d", size)))
			continue
		}
		next := uint(0)
		nadd := int(size)
		if r.Chance(25) {
			nadd = r.Intn(int(size) + 1)
		}
		if r.Chance(20) {
			nadd = int(size) + 1
		}
		for k := 0; k < nadd; k++ {
			var bl types.Bloom
			switch kind := r.Intn(4); {
			case size > 64:
				// all-zero blooms keep the big generator cheap
			case kind == 0:
				copy(bl[:], r.Bytes(256))
			case kind == 1:
				bl[r.Intn(256)] = byte(1 << uint(r.Intn(8)))
			case kind == 2:
				bl = types.BytesToBloom(types.Bloom9(r.Bytes(20)).Bytes())
			default:
				for j := range bl {
					bl[j] = 0xff
				}
				bl[r.Intn(256)] ^= byte(1 << uint(r.Intn(8)))
			}
			index := next
			if r.Chance(6) {
				index = next + 1
			}
			err := g.AddBloom(index, bl)
			if err == nil {
				next++
			}
			ops = append(ops, fmt.Sprintf("a:%d:%s", index, vh.Hex(bytes.TrimLeft(bl[:], "\x00"))))
			outs = append(outs, genErr(err))
		}
		probes := []uint{0, 1, 7, size - 1, size, size + 1, 2047, 2048, 1024}
		for j := 0; j < 6; j++ {
			probes = append(probes, uint(r.Intn(2048)))
		}
		if size > 2048 {
			probes = append(probes, 2049, size-1)
		}
		for _, idx := range probes {
			var bits []byte
			var err error
			ops = append(ops, fmt.Sprintf("s:%d", idx))
			if p, _ := vh.CatchPanic(func() { bits, err = g.Bitset(idx) }); p {
				outs = append(outs, "panic")
				c.Count("generator/bitset-index-panic")
			} else if err != nil {
				outs = append(outs, genErr(err))
			} else {
				outs = append(outs, vh.Hex(bits))
			}
			if idx < 2048 {
				ops = append(ops, fmt.Sprintf("r:%d", idx))
				outs = append(outs, vh.Hex(g.VerifRow(idx)))
			}
		}
		key := ""
		if next == size {
			key = strings.Join(ops, " ")
		}
		c.Eval(fmt.Sprintf("generator/size=%d/full=%v", size, next == size), key)
		c.Correspond("bloombits.Generator(AddBloom,Bitset,rows)~add_bloom,bitset,gen_row", fmt.Sprintf("gen %d %s", size, clipOps(ops)),
			"new "+strings.Join(outs, " "), m.Ask(fmt.Sprintf("gen %d %s", size, strings.Join(ops, " "))))
		// direct oracle for the transposition: row[bit] at position k is bit `bit` of bloom k
		_ = sort.Strings
	}
}

func clipOps(ops []string) string {
	s := strings.Join(ops, " ")
	if len(s) > 3000 {
		return s[:3000] + "..."
	}
	return s
}

func min(a, b int) int {
	if a < b {
		return a
	}
	return b
}

// prodQueries: queries against an index built by the production ChainIndexer+BloomIndexer at `size`
// (rows read from the database exactly as aqua/bloombits.go does), `got` sections stored
func (w *world) prodQueries(size, got uint64, r *vh.RNG) {
	c := w.c
	// deterministic: through the production index, the emitters called alone in blocks 1..22 and their
	// padded-address topics; windows around sections*size
	prodBk := func() *backend {
		return &backend{w: w, size: size, sections: got, rows: w.dbRows(size), threads: 3, batch: 16, mux: new(event.TypeMux)}
	}
	if got > 0 {
		for i := 0; i < 11; i++ {
			a := w.addrPool[i]
			w.runQuery(prodBk(), 0, 40, criteria{addrs: []common.Address{a}}, "prod-sweep/addr")
			w.runQuery(prodBk(), 3, 37, criteria{tops: [][]common.Hash{{lpad(a)}}}, "prod-sweep/topic@0")
			w.runQuery(prodBk(), 0, 40, criteria{tops: [][]common.Hash{nil, {lpad(a), rpad(a)}}}, "prod-sweep/topic@1")
		}
		ind := int64(got * size)
		for _, rg := range [][2]int64{{ind - 9, ind + 9}, {ind - 1, ind}, {ind, ind + 1}, {ind - 8, ind - 1}, {ind - 3, -1}, {ind - 70, ind - 60}} {
			w.runQuery(prodBk(), rg[0], rg[1], criteria{}, "prod-sweep/boundary")
			w.runQuery(prodBk(), rg[0], rg[1], criteria{addrs: []common.Address{w.addrPool[2], w.addrPool[0]}}, "prod-sweep/boundary")
		}
	}
	// queries against the production index (rows read from the database exactly as aqua/bloombits.go does)
	nq := c.Scale(8, 60)
	if got == 0 {
		nq = c.Scale(3, 10)
	}
	for q := 0; q < nq; q++ {
		bk := &backend{w: w, size: size, sections: got, rows: w.dbRows(size), threads: 3, batch: 16, mux: new(event.TypeMux)}
		cr := w.genCriteria(r)
		b, e, cls := w.genRange(r, got*size)
		// keep the scanned part small for the model: windows of at most ~300 blocks unless fully indexed
		if got == 0 {
			if b != -1 && e != -1 && e-b > 300 {
				e = b + 300
			} else if e == -1 && b != -1 && int64(w.head())-b > 300 {
				b = int64(w.head()) - int64(r.Intn(300))
			}
		}
		w.runQuery(bk, b, e, cr, "prod-index,"+cls)
	}
	if got > 0 {
		for q := 0; q < c.Scale(6, 40); q++ {
			bk := &backend{w: w, size: size, sections: got, rows: w.dbRows(size), threads: 3, batch: 16, mux: new(event.TypeMux)}
			cr := w.genCriteria(r)
			hi := got*size - 1
			b := uint64(r.Intn(int(hi) + 1))
			e := b + uint64(r.Intn(int(hi-b)+1))
			if q == 0 {
				b, e = 0, hi
			}
			w.runMatcher(bk, b, e, cr)
		}
	}
}

// ---------------------------------------------------------------- common/bitutil compression (how the rows are stored)

// encLen: the length of the sparse-bitset encoding, re-stated (nil for all-zero data; a single byte stays;
// otherwise encoding of the non-zero bitmap followed by the non-zero bytes)
func encLen(d []byte) int {
	nz := 0
	for _, b := range d {
		if b != 0 {
			nz++
		}
	}
	if len(d) == 0 || nz == 0 {
		return 0
	}
	if len(d) == 1 {
		return 1
	}
	bm := make([]byte, (len(d)+7)/8)
	for i, b := range d {
		if b != 0 {
			bm[i/8] |= 1 << uint(7-i%8)
		}
	}
	return encLen(bm) + nz
}

// DecompressBytes(CompressBytes(d), len d) == d: exhaustive for short vectors, and for the row lengths in use a
// sweep over the number and placement of non-zero bytes that crosses the point where the encoding becomes as
// long as the data (CompressBytes then stores the data itself, DecompressBytes recognises that by the length)
func decompObs(data []byte, target int) string {
	obs := ""
	if p, pv := vh.CatchPanic(func() {
		dec, err := bitutil.DecompressBytes(data, target)
		switch {
		case err == nil:
			obs = "ok " + vh.Hex(dec)
		case strings.Contains(err.Error(), "missing bytes"):
			obs = "err-missing"
		case strings.Contains(err.Error(), "extra bytes"):
			obs = "err-unreferenced"
		case strings.Contains(err.Error(), "size exceeded"):
			obs = "err-exceeded"
		case strings.Contains(err.Error(), "zero byte"):
			obs = "err-zero"
		default:
			obs = "err-other:" + err.Error()
		}
	}); p {
		obs = fmt.Sprintf("panic %v", pv)
	}
	return obs
}

func bitutilLevel(c *vh.Ctx, m *vh.Model) {
	r := c.Rng.Fork()
	var lines, observed, names []string
	ask := func(name, line, obs string) {
		names, lines, observed = append(names, name), append(lines, line), append(observed, obs)
	}
	nvec := 0
	check := func(d []byte, cls string) {
		out := bitutil.CompressBytes(d)
		dec, err := bitutil.DecompressBytes(out, len(d))
		nvec++
		if len(d) != 2 || nvec%8 == 0 { // the model sees every vector except 7 of 8 of the two-byte ones
			ask("bitutil.CompressBytes~compress", "compress "+vh.Hex(d), vh.Hex(out))
			ask("bitutil.DecompressBytes~decompress", fmt.Sprintf("decompress %s %d", vh.Hex(out), len(d)), decompObs(out, len(d)))
		}
		if nvec%5 == 0 && len(out) > 0 { // corrupt inputs: must be an error or a value, never a panic, and as the model says
			var bad []byte
			target := len(d)
			switch (nvec / 5) % 6 {
			case 0:
				bad = out[:len(out)-1]
			case 1:
				bad = append(append([]byte(nil), out...), byte(r.Intn(3)))
			case 2:
				bad = append([]byte(nil), out...)
				bad[r.Intn(len(bad))] = 0
			case 3:
				bad = append([]byte(nil), out...)
				bad[0] |= byte(1 << uint(r.Intn(8)))
			case 4:
				bad, target = out, []int{0, 1, len(d) + 1, len(d) - 1, 8, 64}[r.Intn(6)]
				if target < 0 {
					target = 0
				}
			default:
				bad = r.Bytes(1 + r.Intn(6))
				target = []int{1, 2, 8, 9, 64, 65, 512}[r.Intn(7)]
			}
			obs := decompObs(bad, target)
			c.Count("bitutil/corrupt-input/" + strings.SplitN(obs, " ", 2)[0])
			ask("bitutil.DecompressBytes(corrupt)~decompress", fmt.Sprintf("decompress %s %d", vh.Hex(bad), target), obs)
			if strings.HasPrefix(obs, "panic") {
				violate(c, "bitutil-decompress-panic/"+vh.Hex(bad), "DecompressBytes panics on malformed input", map[string]string{"data": vh.Hex(bad), "target": fmt.Sprint(target), "panic": obs})
			}
		}
		rel := "shorter"
		if el := encLen(d); el == len(d) {
			rel = "equal"
		} else if el > len(d) {
			rel = "longer"
		}
		key := ""
		if rel != "shorter" {
			key = "bu-" + vh.Hex(d)
		}
		c.Eval(fmt.Sprintf("bitutil/%s/encoding-%s-than-data", cls, rel), key)
		if err != nil || !bytes.Equal(dec, d) || len(out) > len(d) {
			violate(c, "bitutil-roundtrip/"+vh.Hex(d), "DecompressBytes(CompressBytes(d), len(d)) != d (or the stored form is longer than d)",
				map[string]string{"data": vh.Hex(d), "compressed": vh.Hex(out), "decompressed": vh.Hex(dec), "error": fmt.Sprint(err)})
		}
	}
	for a := 0; a < 256; a++ {
		check([]byte{byte(a)}, "len1-exhaustive")
		for b := 0; b < 256; b += 1 + 14*(a%2) { // every a with a coarser b on odd a: 256*~137 vectors
			check([]byte{byte(a), byte(b)}, "len2")
		}
	}
	for _, L := range []int{3, 8, 9, 16, 17} { // every zero/non-zero pattern (up to 2^12 of them)
		n := 1 << uint(min(L, 12))
		for pat := 0; pat < n; pat++ {
			d := make([]byte, L)
			for i := 0; i < L && i < 12; i++ {
				if pat>>uint(i)&1 == 1 {
					d[L-1-i] = byte(1 + (pat*7+i)%255)
				}
			}
			check(d, fmt.Sprintf("len%d-patterns", L))
		}
	}
	for _, L := range []int{1, 2, 8, 32, 64, 256, 512} { // the row lengths of section sizes 8..4096
		for k := 0; k <= L; k++ {
			for place := 0; place < 4; place++ {
				d := make([]byte, L)
				for j := 0; j < k; j++ {
					pos := j
					switch place {
					case 1:
						pos = L - 1 - j
					case 2:
						pos = (j * 2) % L
						if j*2 >= L {
							pos = (j*2 + 1) % L
						}
					case 3:
						pos = r.Intn(L)
					}
					d[pos] = byte(1 + r.Intn(255))
				}
				check(d, fmt.Sprintf("len%d-density", L))
			}
		}
	}
	for i, a := range m.AskAll(lines) {
		c.Correspond(names[i], lines[i], observed[i], a)
	}
}

// ---------------------------------------------------------------- the ChainIndexer as a state machine

// gatedBackend is a core.ChainIndexerBackend doing what aqua.BloomIndexer does (Reset = NewGenerator,
// Process = AddBloom, Commit = write the 2048 rows keyed by (bit, section, head)), except that the rows are
// read through the verif hook (so that section sizes below 2048 commit, see bloombits-bitset-bound-uses-sections)
// and that Reset waits at a gate: the harness decides when a section is processed, and may switch the
// canonical chain or deliver notifications while the update loop holds a captured (section, oldHead).
type gatedBackend struct {
	db      aquadb.Database
	size    uint64
	gen     *bloombits.Generator
	section uint64
	head    common.Hash
	atGate  chan uint64
	gate    chan struct{}
}

func (b *gatedBackend) Reset(section uint64, prev common.Hash) error {
	b.atGate <- section
	<-b.gate
	gen, err := bloombits.NewGenerator(uint(b.size))
	b.gen, b.section, b.head = gen, section, common.Hash{}
	return err
}
func (b *gatedBackend) Process(h *types.Header) {
	b.gen.AddBloom(uint(h.Number.Uint64()-b.section*b.size), h.Bloom)
	b.head = h.Hash()
}
func (b *gatedBackend) Commit() error {
	batch := b.db.NewBatch()
	for i := 0; i < types.BloomBitLength; i++ {
		core.WriteBloomBits(batch, uint(i), b.section, b.head, bitutil.CompressBytes(b.gen.VerifRow(uint(i))))
	}
	return batch.Write()
}

var ixFailures uint64 // "Chain index processing failed" records seen (emitted under the indexer's lock)

type ixBlock struct {
	h *types.Header
}

func hashN(h common.Hash) string { return "0x" + new(big.Int).SetBytes(h[:]).Text(16) }

// one lock-step history: the same operations on core.ChainIndexer and on the model
func indexerMachine(c *vh.Ctx, m *vh.Model, r *vh.RNG, size, confirms uint64, nops int) {
	db := aquadb.NewMemDatabase()
	be := &gatedBackend{db: db, size: size, atGate: make(chan uint64, 1), gate: make(chan struct{})}
	ix := core.NewChainIndexer(cfg, db, aquadb.NewTable(db, "ixm-"), be, size, confirms, 0, "verif-ixm")
	defer func() {
		go func() { // let a gated loop run off before closing
			for {
				select {
				case be.gate <- struct{}{}:
				case <-be.atGate:
				case <-time.After(50 * time.Millisecond):
					return
				}
			}
		}()
		ix.Close()
	}()
	var chain []*types.Header
	mk := func(parent *types.Header, salt uint64) *types.Header {
		h := &types.Header{Number: new(big.Int), Difficulty: big.NewInt(1), Time: new(big.Int).SetUint64(salt), Extra: r.Bytes(4)}
		if parent != nil {
			h.Number.Add(parent.Number, big.NewInt(1))
			h.ParentHash = parent.Hash()
		}
		for k := r.Intn(4); k > 0; k-- { // sparse bloom, sometimes empty
			h.Bloom[r.Intn(256)] |= 1 << uint(r.Intn(8))
		}
		h.Version = cfg.GetBlockVersion(h.Number)
		core.WriteHeader(db, h)
		return h
	}
	tok := func(h *types.Header) string {
		return hashN(h.Hash()) + ":" + hashN(h.ParentHash) + ":" + vh.Hex(h.Bloom[:])
	}
	setCanon := func(newChain []*types.Header) {
		for i, h := range newChain {
			core.WriteCanonicalHash(db, h.Hash(), uint64(i))
		}
		for i := len(newChain); i < len(chain); i++ {
			core.DeleteCanonicalHash(db, uint64(i))
		}
		core.WriteHeadHeaderHash(db, newChain[len(newChain)-1].Hash())
	}
	undecided := func(why string) {
		c.Count("indexer-machine/undecided: " + why)
	}
	chain = []*types.Header{mk(nil, 0)}
	setCanon(chain)
	mstate := m.Ask(fmt.Sprintf("ixinit rows %d %d %s", size, confirms, tok(chain[0])))
	type notif struct {
		reorg bool
		n     uint64
	}
	var queue []notif
	gated, gatedSection := false, uint64(0)
	render := func() string {
		known, stored := ix.VerifSections()
		heads := make([]string, stored+2)
		for s := range heads {
			heads[s] = hashN(ix.SectionHead(uint64(s)))
		}
		p := "-"
		if gated {
			p = fmt.Sprint(gatedSection)
		}
		q := "-"
		if len(queue) > 0 {
			var qs []string
			for _, x := range queue {
				if x.reorg {
					qs = append(qs, fmt.Sprintf("R%d", x.n))
				} else {
					qs = append(qs, fmt.Sprintf("H%d", x.n))
				}
			}
			q = strings.Join(qs, ",")
		}
		return fmt.Sprintf("known=%d stored=%d pending=%s heads=%s queue=%s", known, stored, p, strings.Join(heads, ","), q)
	}
	// after anything that may wake the update loop: if it reaches the gate, that is the model's OpBegin
	awaitGate := func() bool {
		known, stored := ix.VerifSections()
		if gated || known <= stored {
			return true
		}
		select {
		case s := <-be.atGate:
			gated, gatedSection = true, s
			mstate = m.Ask("ixbegin")
			return true
		case <-time.After(30 * time.Second):
			undecided("update loop did not reach the gate")
			return false
		}
	}
	compare := func(what string) {
		c.Correspond("core.ChainIndexer(newHead,updateLoop,sections)~new_head,step_begin,step_end", what, render(), mstate)
	}
	for opi := 0; opi < nops; opi++ {
		head := uint64(len(chain) - 1)
		kind := r.Intn(10)
		switch {
		case kind < 2: // the chain grows
			n := 1 + r.Intn(int(2*size))
			nc := append([]*types.Header(nil), chain...)
			var toks []string
			for i := 0; i < n; i++ {
				nc = append(nc, mk(nc[len(nc)-1], uint64(opi)))
				toks = append(toks, tok(nc[len(nc)-1]))
				queue = append(queue, notif{false, uint64(len(nc) - 1)})
			}
			setCanon(nc)
			mstate = m.Ask(fmt.Sprintf("ixchain %d %s", len(chain), strings.Join(toks, " ")))
			chain = nc
			c.Eval("indexer-machine/op=extend", "")
		case kind < 4 && head >= 2: // reorg, up to three sections deep; the new branch may be shorter or longer
			depth := 1 + r.Intn(int(min(int(head), int(3*size))))
			anc := head - uint64(depth)
			n := depth + r.Intn(int(size)) - r.Intn(min(depth, int(size)))
			if n < 1 {
				n = 1
			}
			nc := append([]*types.Header(nil), chain[:anc+1]...)
			var toks []string
			queue = append(queue, notif{true, anc})
			for i := 0; i < n; i++ {
				nc = append(nc, mk(nc[len(nc)-1], uint64(opi)))
				toks = append(toks, tok(nc[len(nc)-1]))
				queue = append(queue, notif{false, uint64(len(nc) - 1)})
			}
			setCanon(nc)
			mstate = m.Ask(fmt.Sprintf("ixchain %d %s", anc+1, strings.Join(toks, " ")))
			chain = nc
			c.Eval(fmt.Sprintf("indexer-machine/op=reorg/depth-sections=%d", uint64(depth)/size), "")
		case kind < 8 && len(queue) > 0: // deliver notifications (one, or all)
			k := 1
			if r.Chance(50) {
				k = len(queue)
			}
			for ; k > 0; k-- {
				ix.VerifNewHead(queue[0].n, queue[0].reorg)
				queue = queue[1:]
				mstate = m.Ask("ixdeliver")
				if !awaitGate() {
					return
				}
			}
			c.Eval("indexer-machine/op=deliver", "")
		case gated: // let the update loop process the section it holds
			_, storedBefore := ix.VerifSections()
			failBefore := atomic.LoadUint64(&ixFailures)
			be.gate <- struct{}{}
			deadline := time.Now().Add(30 * time.Second)
			done := false
			for !done && time.Now().Before(deadline) {
				_, stored := ix.VerifSections()
				if atomic.LoadUint64(&ixFailures) > failBefore || (stored == gatedSection+1 && stored > storedBefore) {
					done = true
				} else {
					time.Sleep(time.Millisecond)
				}
			}
			if !done {
				undecided("section processing did not finish")
				return
			}
			gated = false
			mstate = m.Ask("ixend")
			c.Eval("indexer-machine/op=step", "")
			compare(fmt.Sprintf("op %d step (size %d)", opi, size))
			if !awaitGate() {
				return
			}
		default:
			continue
		}
		compare(fmt.Sprintf("op %d (size %d, confirms %d, head %d)", opi, size, confirms, len(chain)-1))
		// the theorem's statement evaluated on the implementation: all notifications delivered =>
		// every stored section's rows, fetched as the bloom handlers fetch them, are the transposition
		// of the blooms of the canonical headers as they are now
		if len(queue) == 0 {
			_, stored := ix.VerifSections()
			for s := uint64(0); s < stored; s++ {
				headHash := core.GetCanonicalHash(db, (s+1)*size-1)
				for _, bit := range []uint{uint(r.Intn(2048)), uint(r.Intn(2048)), 0, 2047} {
					want := make([]byte, size/8)
					for k := uint64(0); k < size; k++ {
						h := chain[s*size+k]
						if h.Bloom[types.BloomByteLength-1-bit/8]&(1<<(bit%8)) != 0 {
							want[k/8] |= 1 << (7 - k%8)
						}
					}
					obs := "missing"
					if comp, err := core.GetBloomBits(db, bit, s, headHash); err == nil {
						if blob, err := bitutil.DecompressBytes(comp, int(size/8)); err == nil {
							obs = vh.Hex(blob)
						}
					}
					c.Correspond("stored bloombits row (GetBloomBits at canonical head)~index_of_world", fmt.Sprintf("ixrow %d %d", bit, s), obs, m.Ask(fmt.Sprintf("ixrow %d %d", bit, s)))
					if obs != vh.Hex(want) {
						violate(c, fmt.Sprintf("indexer-stale-or-missing-row-after-reorg/size%d", size), "a stored section's bloombits row is not the transposition of the current canonical headers although every notification was delivered",
							map[string]string{"section": fmt.Sprint(s), "bit": fmt.Sprint(bit), "row": obs, "expected": vh.Hex(want), "head": fmt.Sprint(len(chain) - 1), "op": fmt.Sprint(opi), "state": render()})
					}
				}
			}
			c.Eval(fmt.Sprintf("indexer-machine/idle-check/stored=%d", min(int(stored), 6)), fmt.Sprintf("ixm-%d-%d-%d", size, opi, stored))
		}
	}
}

// ---------------------------------------------------------------- reorg histories

// Histories over one database and long-lived service objects: index + query on fork A, make fork B
// canonical (it replaces blocks forkAt+1.. inside already indexed sections), let the ChainIndexer roll
// back and re-index, query the same bits again; compare every answer with the model and with brute force
// over the now-canonical receipts.
func reorgHistories(c *vh.Ctx, m *vh.Model, w *world, forkAt int, withH1 bool, stage func(string)) {
	secEnd := (forkAt/4096 + 1) * 4096
	chainA := append([]*types.Block(nil), w.blocks...)
	headA := len(chainA) - 1
	// fork B: dense logs exactly where fork A has none, 6 blocks longer than A
	forkB := w.generate(chainA[forkAt], headA-forkAt+6, func(bn uint64) int {
		if bn <= uint64(secEnd)+4 || bn%5 == 0 {
			return -1
		}
		return 0
	})
	chainB := append(append([]*types.Block(nil), chainA[:forkAt+1]...), forkB...)
	chainBshort := chainB[:secEnd+205] // e.g. head 4300: the section ending at 4095 is no longer confirmed (256 confirmations)
	// the model's full indexer run (process_section of every confirmed section) once per size; afterwards
	// known_sections, which stored_sections equals for section sizes >= 2048 (C16_process_section_ok_partial)
	askedStored := map[uint64]bool{}
	stored := func(size uint64) uint64 {
		var n uint64
		cmd := "known"
		if !askedStored[size] && (size == 2048 || c.Thorough()) {
			askedStored[size], cmd = true, "stored"
		}
		fmt.Sscan(m.Ask(fmt.Sprintf("%s %d 256", cmd, size)), &n)
		return n
	}
	step := func(ix *core.ChainIndexer, size uint64, label string) uint64 {
		want := stored(size)
		got := w.waitIndexed(ix, size, want)
		c.Eval(fmt.Sprintf("reorg-history/%s/size=%d/sections=%d", label, size, got), fmt.Sprintf("%s-%d", label, size))
		c.Correspond("ChainIndexer+BloomIndexer stored sections after reorg~stored_sections", fmt.Sprintf("%s: stored %d 256 on %d blocks", label, size, len(w.headers)), fmt.Sprint(got), fmt.Sprint(want))
		return got
	}
	resetIndex := func() { aquadb.NewTable(w.db, string(core.BloomBitsIndexPrefix)).Delete([]byte("count")) }

	// history 2: the production bloom node (NewBloomIndexer at params.BloomBitsBlocks, startBloomHandlers,
	// AquaApiBackend.BloomStatus/ServiceFilter), one long-lived instance through the whole history
	{
		resetIndex()
		node := aqua.VerifNewBloomNode(cfg, w.db)
		fc := &fakeChain{w: w}
		node.Indexer().Start(fc)
		bk := &backend{w: w, node: node, mux: new(event.TypeMux)}
		size, _ := node.BloomStatus()
		step(node.Indexer(), size, "h2-forkA")
		w.historyQueries(bk, "h2-forkA", int64(forkAt))
		w.switchCanonical(chainBshort, fc) // deep reorg; the index is rolled back and cannot be rebuilt yet
		step(node.Indexer(), size, "h2-forkB-unconfirmed")
		w.historyQueries(bk, "h2-forkB-unconfirmed", int64(forkAt))
		w.switchCanonical(chainB, fc) // fork B grows: section 0 is confirmed again and re-indexed
		step(node.Indexer(), size, "h2-forkB-reindexed")
		w.historyQueries(bk, "h2-forkB-reindexed", int64(forkAt))
		if c.Thorough() {
			w.switchCanonical(chainA, fc) // a second deep reorg over the same section, caches warm with fork B's vectors
			step(node.Indexer(), size, "h2-back-to-A")
			w.historyQueries(bk, "h2-back-to-A", int64(forkAt))
			w.switchCanonical(chainB, fc)
			step(node.Indexer(), size, "h2-again-B")
			w.historyQueries(bk, "h2-again-B", int64(forkAt))
		}
		node.Stop()
		stage("reorg history 2 (production node, size 4096)")
	}
	// history 1 (continues on the same database, fork B canonical): section size 2048 (two sections; the reorg
	// back to fork A replaces the end of section 1, section 0 stays),
	// rows served from the database by the harness backend
	if withH1 {
		resetIndex()
		ix := aqua.NewBloomIndexer(cfg, w.db, 2048)
		fc := &fakeChain{w: w}
		ix.Start(fc)
		bk := &backend{w: w, size: 2048, rows: w.dbRows(2048), threads: 3, batch: 16, mux: new(event.TypeMux)}
		bk.sections = step(ix, 2048, "h1-forkB")
		w.historyQueries(bk, "h1-forkB", int64(forkAt))
		w.switchCanonical(chainA, fc)
		bk.sections = step(ix, 2048, "h1-forkA")
		w.historyQueries(bk, "h1-forkA", int64(forkAt))
		cs := w.commitSection(2048, 0)
		c.Correspond("BloomIndexer.Commit(section 0)~process_section", "section 2048 0", cs, m.Ask("section 2048 0"))
		w.prodQueries(2048, bk.sections, c.Rng.Fork())
		if c.Thorough() {
			w.switchCanonical(chainB, fc) // and back: a second reorg over the same sections
			bk.sections = step(ix, 2048, "h1-back-to-B")
			w.historyQueries(bk, "h1-back-to-B", int64(forkAt))
		}
		ix.Close()
		stage("reorg history 1 (size 2048)")
	}
}

// ---------------------------------------------------------------- main

func main() {
	c := vh.Init("C16")
	m := c.StartModel()
	defer m.Close()
	c.Res.Rule = "ONE shared value pool per world: emitter addresses (incl. 0x0100 and the zero address) and topics in deliberate relations (topic = left-padded / right-padded emitter address, same 20 bytes with dirty padding or at another offset, zero word, near pair, addresses cut out of random topics). Bloom level: every relation x every placement (same log, topic before/after the emitter's log in one receipt, other receipt of the block, repeated topic/address) plus random log sets over the pool: CreateBloom/LogsBloom(every receipt)/BloomLookup/filterLogs/bloomFilter vs model, no-false-negative oracle over every address and topic of every log on both the receipt and the block bloom. Chain level: core.GenerateChain (faker) calling LOG0-LOG4 emitter contracts with designed scripts (own padded address as topic, caller naming a callee before/after the callee emits, 4-topic logs, reverting contract), every emitter called alone in blocks 1..22, logs forced on both sides of every 64-block boundary, around 2040..2056 and at the head; deterministic sweeps: every pool address / topic (positions 0..3) / special shape (trailing and inner empty alternative lists incl. explicit empty, 4-5 positions, duplicate addresses/alternatives/rules, address with its own related topics) through the indexed, half-indexed and unindexed path; range shapes (ends not aligned to 8 or to the section size, begin inside one section and end in a later one, everything within +-3 of sections*size and of head, -1 ends, begin>end) x index progress; then random criteria/ranges; section sizes 8/64 (harness-built index via bloombits.Generator, any progress) and 2048 (production ChainIndexer+BloomIndexer; 4096 in the thorough tier); operation sequences on bloombits.Generator. Reorg histories on one database with long-lived service objects: the production bloom node (NewBloomIndexer at 4096 + startBloomHandlers + AquaApiBackend.BloomStatus/ServiceFilter, via a verif hook) and the production indexer at 2048 are indexed and queried on fork A (4361 blocks), then fork B (dense logs exactly where A has none, forking at 3900 inside indexed sections, deeper than the 256 confirmations) is made canonical with the ChainEvents a reorg posts, first too short for the section to be confirmed again (valid sections drop, unindexed answers), then long enough (re-indexed), and the same queries (same bits, caches warm: replaced blocks, around the fork, old+new sections, section end, whole chain) are asked at every step; thorough: reorgs back and forth and a 2-section chain with a partial rollback. A case is distinct and non-trivial when its input is new and it has at least one hit (query/matcher: non-empty expected result; bloom: non-empty log set; generator: fully generated)"

	quiet := log.LvlFilterHandler(log.LvlCrit, log.StreamHandler(os.Stderr, log.TerminalFormat(false)))
	log.Root().SetHandler(log.FuncHandler(func(rec *log.Record) error {
		if rec.Msg == "Chain index processing failed" {
			atomic.AddUint64(&ixFailures, 1)
		}
		return quiet.Log(rec)
	}))
	t0 := time.Now()
	stage := func(name string) {
		c.Note("stage %s: %.1fs", name, time.Since(t0).Seconds())
		t0 = time.Now()
	}
	corpus = searchCorpus(c.Rng.Fork(), 12000)
	for _, cl := range corpusClasses {
		if len(corpus.addrs[cl]) == 0 || len(corpus.tops[cl]) == 0 {
			c.Fatal("key corpus search found no %s address/topic in %d candidates", cl, corpus.tried)
		}
	}
	bloomLevel(c, m)
	stage("bloom-level")
	generatorLevel(c, m)
	bitutilLevel(c, m)
	stage("generator-level + bitutil")
	{
		rr := c.Rng.Fork()
		for i := 0; i < c.Scale(6, 30); i++ {
			size := []uint64{8, 16, 8, 16, 8, 12}[i%6]
			indexerMachine(c, m, rr, size, []uint64{0, 2, 5}[i%3], c.Scale(55, 150))
		}
		stage("indexer state machine")
	}

	// ---- short chain: sizes 8 and 64, harness-built index, every progress state
	short := buildWorld(c, m, c.Scale(303, 703), 30, nil) // 304 / 704 blocks with genesis: a whole number of 8- and 64-block sections
	short.loadModel()
	stage("short chain build+load")
	c.Note("short chain: %d blocks, %d logs", len(short.headers), len(short.allLogs))
	if len(short.allLogs) < 20 {
		c.Fatal("generator produced too few logs (%d)", len(short.allLogs))
	}
	r := c.Rng.Fork()
	for _, size := range []uint64{8, 64} {
		idx, full := short.buildIndex(size)
		rows := func(bit uint, s uint64) []byte { return idx[[2]uint64{uint64(bit), s}] }
		// rows of the Go generator vs the model's index_of_chain (transposition of the header blooms)
		for k := 0; k < c.Scale(40, 200); k++ {
			bit, s := uint(r.Intn(2048)), uint64(r.Intn(int(full)))
			if k%2 == 0 && len(short.allLogs) > 0 {
				l := short.allLogs[r.Intn(len(short.allLogs))]
				bit = bloombits.VerifCalcBloomIndexes(l.Address.Bytes())[r.Intn(3)]
				s = l.BlockNumber / size
				if s >= full {
					s = full - 1
				}
			}
			cas := fmt.Sprintf("row %d %d %d", size, s, bit)
			c.Correspond("Generator rows(chain section)~index_of_chain", cas, vh.Hex(rows(bit, s)), m.Ask(cas))
		}
		newBk := func(sections uint64) *backend {
			return &backend{w: short, size: size, sections: sections, rows: rows, threads: 1 + r.Intn(3), batch: []int{1, 4, 16}[r.Intn(3)], mux: new(event.TypeMux)}
		}
		// deterministic sweep 1: every pool value and every special criteria shape over the whole chain,
		// through the indexed path (all sections), a half-indexed state and the unindexed path
		scr, scls := short.sweepCriteria()
		for i, cr := range scr {
			for k, sections := range []uint64{full, 3, 0} {
				if (size == 64 && i%3 != 0) || (k == 1 && (i%3 != 1 || size == 64)) {
					continue // size 64 and the half-indexed state take every third shape
				}
				// blocks 1..22 call every emitter alone; 48 / 128 blocks keep the unindexed scans short
				end := int64(47)
				if size == 64 {
					end = 127
				}
				if sections*size > uint64(end)+1 {
					sections = (uint64(end) + 1) / size
				}
				short.runQuery(newBk(sections), 0, end, cr, "sweep/"+scls[i])
			}
		}
		// deterministic sweep 2: range shapes x progress, with criteria that hit in most blocks
		dense := []criteria{{}, {addrs: []common.Address{short.addrPool[2], short.addrPool[0]}, tops: [][]common.Hash{nil}}}
		for _, sections := range []uint64{full, full/2 + 1, 0} {
			for _, rg := range short.sweepRanges(size, sections*size) {
				for _, cr := range dense {
					short.runQuery(newBk(sections), rg[0], rg[1], cr, "sweep-range")
				}
			}
		}
		for _, rg := range short.sweepRanges(size, full*size) {
			if rg[0] < 0 || rg[1] < 0 || uint64(rg[1]) >= full*size {
				continue
			}
			for _, cr := range dense {
				short.runMatcher(newBk(full), uint64(rg[0]), uint64(rg[1]), cr)
			}
		}
		// the matcher with raw clauses (nil alternatives, empty clauses): shapes filters.New never produces
		for i := 0; i < c.Scale(12, 60); i++ {
			cr := short.genCriteria(r)
			var fl [][][]byte
			for _, a := range cr.addrs {
				fl = append(fl, [][]byte{a.Bytes()})
			}
			for _, alts := range cr.tops {
				var f [][]byte
				for _, t := range alts {
					f = append(f, t.Bytes())
				}
				fl = append(fl, f)
			}
			if len(short.allLogs) > 0 { // a clause that certainly hits somewhere
				l := short.allLogs[r.Intn(len(short.allLogs))]
				fl = append(fl, [][]byte{l.Address.Bytes(), short.topPool[r.Intn(len(short.topPool))].Bytes()})
			}
			switch i % 4 {
			case 0:
				fl = append(fl, [][]byte{r.Bytes(32), nil}) // foreign value OR nil: the clause must not constrain
			case 1:
				fl = append([][][]byte{{nil}}, fl...)
			case 2:
				fl = append(fl, [][]byte{}, [][]byte{nil, nil})
			}
			hi := full*size - 1
			short.runMatcherRaw(newBk(full), uint64(r.Intn(int(hi)/2)), hi-uint64(r.Intn(9)), fl)
		}
		// the RPC layer: aqua_getLogs with JSON criteria
		apiBk := map[uint64]*backend{}
		for i := 0; i < c.Scale(36, 200); i++ {
			sections := []uint64{full, full / 2, 0, 3}[i%4]
			if apiBk[sections] == nil {
				apiBk[sections] = newBk(sections)
			}
			cr := short.genCriteria(r)
			if i%6 == 0 {
				cr = criteria{addrs: []common.Address{short.addrPool[2], short.addrPool[0]}, tops: [][]common.Hash{nil}}
			}
			hexn := func(n uint64) string { return fmt.Sprintf("0x%x", n) }
			from := []string{"", "latest", "earliest", hexn(uint64(r.Intn(int(short.head()) + 1))), hexn(sections * size), "0x0"}[r.Intn(6)]
			to := []string{"", "latest", hexn(short.head() + 5), hexn(uint64(r.Intn(int(short.head()) + 1))), hexn(sections*size + 2)}[r.Intn(5)]
			if i%6 == 0 {
				from, to = "earliest", ""
			}
			short.runAPI(apiBk[sections], r, from, to, cr, "short")
		}
		// toBlock "pending" (the open end of the JSON-RPC interface besides "latest")
		for _, sections := range []uint64{full / 2, 0} {
			if apiBk[sections] == nil {
				apiBk[sections] = newBk(sections)
			}
			short.runAPI(apiBk[sections], r, "earliest", "pending", criteria{addrs: []common.Address{short.addrPool[2], short.addrPool[0]}}, "short-pending")
			short.runAPI(apiBk[sections], r, fmt.Sprintf("0x%x", short.head()-20), "pending", criteria{}, "short-pending")
		}
		nq := c.Scale(80, 600)
		for q := 0; q < nq; q++ {
			sections := uint64(r.Intn(int(full) + 1))
			if q%5 == 0 {
				sections = full
			}
			bk := &backend{w: short, size: size, sections: sections, rows: rows, threads: 1 + r.Intn(3), batch: []int{1, 4, 16}[r.Intn(3)], mux: new(event.TypeMux)}
			if r.Chance(30) {
				bk.flaky = uint32(3 + r.Intn(5))
			}
			cr := short.genCriteria(r)
			b, e, cls := short.genRange(r, sections*size)
			short.runQuery(bk, b, e, cr, cls)
		}
		nm := c.Scale(40, 200)
		for q := 0; q < nm; q++ {
			bk := &backend{w: short, size: size, sections: full, rows: rows, threads: 1 + r.Intn(3), batch: []int{1, 4, 16}[r.Intn(3)], mux: new(event.TypeMux)}
			cr := short.genCriteria(r)
			hi := full*size - 1
			b := uint64(r.Intn(int(hi) + 1))
			e := b + uint64(r.Intn(int(hi-b)+1))
			if q%7 == 0 {
				b, e = 0, hi
			}
			if q%11 == 0 && b > 0 {
				b, e = b, b-1 // empty range
			}
			short.runMatcher(bk, b, e, cr)
		}
		stage(fmt.Sprintf("short chain size %d", size))
	}

	// ---- the production indexer: which section sizes can it index at all.  The long chain is fork A of the
	// reorg histories below: no transactions in the blocks after the fork point that fork B will fill
	const forkAt = 3900
	sizes := []uint64{8, 64} // 2048 and 4096 are indexed in the reorg histories below
	longLen := 4096 + 256 + 8
	long := buildWorld(c, m, longLen, 6, func(bn uint64) bool { return bn > forkAt && bn < 4088 })
	stage("long chain build")
	long.loadModel()
	stage("long chain load")
	c.Note("long chain: %d blocks, %d logs", len(long.headers), len(long.allLogs))
	for _, size := range sizes {
		known := m.Ask(fmt.Sprintf("known %d 256", size))
		mstored := m.Ask(fmt.Sprintf("stored %d 256", size))
		var expect uint64
		fmt.Sscan(mstored, &expect)
		got := long.realIndexer(size, expect)
		c.Eval(fmt.Sprintf("indexer/size=%d/known=%s/stored=%d", size, known, got), fmt.Sprintf("indexer-%d", size))
		c.Correspond("ChainIndexer+BloomIndexer stored sections~stored_sections", fmt.Sprintf("stored %d 256 (known %s)", size, known), fmt.Sprint(got), mstored)
		if got*size > uint64(len(long.headers)) {
			c.Fatal("indexer reports %d sections of %d blocks for a chain of %d blocks", got, size, len(long.headers))
		}
		// deterministic replay of Reset/Process/Commit on section 0 through the exported Generator API
		cs := long.commitSection(size, 0)
		c.Correspond("BloomIndexer.Commit(section 0)~process_section", fmt.Sprintf("section %d 0", size), cs, m.Ask(fmt.Sprintf("section %d 0", size)))
		if known != "0" && got == 0 {
			c.Note("bloombits-bitset-bound-uses-sections: section size %d: %s sections are confirmed but the production indexer stores 0 (Generator.Bitset rejects bit index >= %d: %s); log queries stay exact through the unindexed path (checked below with BloomStatus sections = 0), they are only not accelerated", size, known, size, cs)
		}
		long.prodQueries(size, got, r)
		stage(fmt.Sprintf("long chain size %d", size))
	}
	reorgHistories(c, m, long, forkAt, true, stage)
	if c.Thorough() {
		// two sections of 4096: the fork replaces the end of section 1 only, so the rollback is partial
		// (valid sections 2 -> 1 -> 2) and queries span the old section 0, the re-indexed section 1 and the tail
		const forkAt2 = 8000
		long2 := buildWorld(c, m, 2*4096+256+8, 4, func(bn uint64) bool { return bn > forkAt2 && bn < 8184 })
		long2.loadModel()
		stage("second long chain build+load")
		reorgHistories(c, m, long2, forkAt2, false, stage)
	}
	if len(short.allLogs) > 0 {
		l := short.allLogs[0]
		c.Sample(map[string]string{"log": logTok(l, tagOf(l)), "header_bloom": vh.Hex(short.blooms[l.BlockNumber][:])})
	}
	c.Assume("no reorg while a single query is running (reorgs between queries are covered by the histories); BloomStatus sections*size <= head+1")
	c.Assume("begin and end are >= -1 (rpc aliases pending/earliest as raw negative numbers are backend specific)")
	c.Finish()
}
