// c13: correspondence between the aquahash header / uncle / difficulty / batch
// verification (Go) and the Coq model (Consensus/HeaderModel.v), plus the direct
// oracle for property C13: the consensus rules of the property statement
// (rules_ok / difficulty_spec) re-implemented independently and evaluated on the
// implementation's verdicts.
package main

import (
	"context"
	"fmt"
	"math/big"
	"runtime"
	"sort"
	"strings"
	"time"

	"gitlab.com/aquachain/aquachain/aquadb"
	"gitlab.com/aquachain/aquachain/common"
	"gitlab.com/aquachain/aquachain/common/log"
	"gitlab.com/aquachain/aquachain/consensus"
	"gitlab.com/aquachain/aquachain/consensus/aquahash"
	"gitlab.com/aquachain/aquachain/core"
	"gitlab.com/aquachain/aquachain/core/types"
	"gitlab.com/aquachain/aquachain/core/vm"
	"gitlab.com/aquachain/aquachain/params"
	"gitlab.com/aquachain/aquachain/verifharness/vh"
)

// ---------------------------------------------------------------- fake chain reader

type fakeChain struct {
	cfg     *params.ChainConfig
	headers map[common.Hash]*types.Header
	blocks  map[common.Hash]*types.Block
	order   []*types.Header // insertion order (for the model's list)
	border  []*types.Block
	canon   map[uint64]*types.Header // canonical header by number: the first one stored at that height
}

func newChain(cfg *params.ChainConfig) *fakeChain {
	return &fakeChain{cfg: cfg, headers: map[common.Hash]*types.Header{}, blocks: map[common.Hash]*types.Block{}}
}
func (f *fakeChain) clone() *fakeChain {
	g := newChain(f.cfg)
	for _, h := range f.order {
		g.addHeader(h)
	}
	for _, b := range f.border {
		g.addBlock(b)
	}
	return g
}
func (f *fakeChain) addHeader(h *types.Header) {
	if _, ok := f.headers[h.Hash()]; ok {
		return
	}
	f.headers[h.Hash()] = h
	f.order = append(f.order, h)
	if f.canon == nil {
		f.canon = map[uint64]*types.Header{}
	}
	if _, ok := f.canon[h.Number.Uint64()]; !ok {
		f.canon[h.Number.Uint64()] = h
	}
}

// addBlock stores the block the way core.BlockChain.GetBlock returns it: the body is read without versions and then
// block.SetVersion(version of the block's height) stamps that version on the header AND on every uncle, whatever the
// uncle's own height is.
func (f *fakeChain) addBlock(b *types.Block) {
	if _, ok := f.blocks[b.Hash()]; ok {
		return
	}
	h := b.Header()
	h.Version = 0
	us := b.Uncles()
	for _, u := range us {
		u.Version = 0
	}
	nb := types.NewBlockWithHeader(h).WithBody(nil, us)
	nb.SetVersion(f.cfg.GetBlockVersion(h.Number))
	f.blocks[b.Hash()] = nb
	f.border = append(f.border, nb)
}
func (f *fakeChain) Config() *params.ChainConfig  { return f.cfg }
func (f *fakeChain) GetContext() context.Context  { return context.Background() }
func (f *fakeChain) CurrentHeader() *types.Header { return nil }
func (f *fakeChain) GetHeader(hash common.Hash, number uint64) *types.Header {
	h := f.headers[hash]
	if h == nil || h.Number.Uint64() != number {
		return nil
	}
	return h
}
func (f *fakeChain) GetHeaderByNumber(number uint64) *types.Header  { return f.canon[number] }
func (f *fakeChain) GetHeaderByHash(hash common.Hash) *types.Header { return f.headers[hash] }
func (f *fakeChain) GetBlock(hash common.Hash, number uint64) *types.Block {
	b := f.blocks[hash]
	if b == nil || b.NumberU64() != number {
		return nil
	}
	return b
}

// ---------------------------------------------------------------- rendering for the model

func cfgTok(cfg *params.ChainConfig) string {
	keys := []int{}
	for k, v := range cfg.HF {
		if v != nil {
			keys = append(keys, k)
		}
	}
	sort.Ints(keys)
	parts := []string{}
	for _, k := range keys {
		parts = append(parts, fmt.Sprintf("%d=%s", k, cfg.HF[k]))
	}
	return cfg.ChainId.String() + ":" + strings.Join(parts, ",")
}

// sealCode is what VerifySeal returns for the header under the engine in use (fake engines:
// errInvalidPoW exactly for the configured failing number).
func hdrTok(h *types.Header, sealCode int) string {
	if h == nil {
		return "-"
	}
	return fmt.Sprintf("%s,%s,%s,%s,%s,%d,%d,%d,%d", h.Hash().Hex(), h.ParentHash.Hex(), h.Number, h.Time, h.Difficulty,
		h.GasLimit, h.GasUsed, len(h.Extra), sealCode)
}
func hdrsTok(hs []*types.Header, seal func(*types.Header) int) string {
	if len(hs) == 0 {
		return "-"
	}
	p := make([]string, len(hs))
	for i, h := range hs {
		p[i] = hdrTok(h, seal(h))
	}
	return strings.Join(p, ";")
}
func blockTok(b *types.Block, cfg *params.ChainConfig, seal func(*types.Header) int) string {
	us := b.Uncles()
	for _, u := range us {
		u.Version = cfg.GetBlockVersion(u.Number)
	}
	// the hashes of the same uncles as a chain reader hands them over: under the including block's version
	stamped := []string{}
	for _, u := range b.Uncles() {
		u.Version = b.Version()
		if u.Version == 0 {
			u.Version = cfg.GetBlockVersion(u.Number)
		}
		stamped = append(stamped, u.Hash().Hex())
	}
	st := "-"
	if len(stamped) > 0 {
		st = strings.Join(stamped, ";")
	}
	return hdrTok(b.Header(), seal(b.Header())) + "|" + fmt.Sprint(int(b.Version())) + "|" + hdrsTok(us, seal) + "|" + st
}
func blocksTok(bs []*types.Block, cfg *params.ChainConfig, seal func(*types.Header) int) string {
	if len(bs) == 0 {
		return "-"
	}
	p := make([]string, len(bs))
	for i, b := range bs {
		p[i] = blockTok(b, cfg, seal)
	}
	return strings.Join(p, "/")
}
func noSeal(*types.Header) int { return 0 }

var _ consensus.ChainReader = (*fakeChain)(nil)

// classify maps an engine error to the model's small enum
func classify(err error) string {
	if err == nil {
		return "ok"
	}
	switch c := aquahash.VerifErrClass(err); c {
	case "":
	case "pow":
		return "err seal:0x1"
	case "mix-digest":
		return "err seal:0x2"
	case "nonpositive-difficulty":
		return "err seal:0x3"
	case "nonce-range":
		return "err seal:0x4"
	default:
		return "err " + c
	}
	s := err.Error()
	switch {
	case strings.Contains(s, "extra-data too long"):
		return "err extra"
	case strings.Contains(s, "invalid difficulty"):
		return "err difficulty"
	case strings.Contains(s, "invalid gasLimit:"):
		return "err gas-cap"
	case strings.Contains(s, "invalid gasUsed"):
		return "err gas-used"
	case strings.Contains(s, "invalid gas limit:"):
		return "err gas-limit"
	case strings.HasPrefix(s, "nil grandparent"):
		return "err unknown-grandparent"
	case strings.Contains(s, "block version not set"):
		return "err version-unset"
	}
	return "err ?" + s
}

func bigHex(b *big.Int) string {
	if b.Sign() < 0 {
		return "-0x" + new(big.Int).Neg(b).Text(16)
	}
	return "0x" + b.Text(16)
}

// ---------------------------------------------------------------- independent statement of the rules (direct oracle)

var (
	two63m1   = new(big.Int).SetUint64(1<<63 - 1)
	mainnetID = uint64(61717561)
)

func hfAt(cfg *params.ChainConfig, n int) *big.Int { return cfg.HF[n] }
func active(cfg *params.ChainConfig, n int, next *big.Int) bool {
	return hfAt(cfg, n) != nil && hfAt(cfg, n).Cmp(next) <= 0
}
func isForkBlock(cfg *params.ChainConfig, n int, next *big.Int) bool {
	return hfAt(cfg, n) != nil && hfAt(cfg, n).Cmp(next) == 0
}
func floorDiv(a, b *big.Int) *big.Int { // b > 0
	q, m := new(big.Int).DivMod(a, b, new(big.Int))
	_ = m
	return q
}

// specDifficulty: the fork-scheduled adjustment as a table (divisor / minimum / duration limit
// per fork, resets at the fork blocks), written from the property statement and the protocol
// documentation, not from the control flow of calcDifficultyHFX.  time is the full timestamp.
// panics=true: the specification has no value there (parent not after grandparent under HF10).
func specDifficulty(cfg *params.ChainConfig, t *big.Int, p, gp *types.Header) (d *big.Int, panics bool) {
	d, panics, _ = specDifficultyAlgo(cfg, t, p, gp)
	return
}

// specDifficultyAlgo also names the rule in force: grandparent | reset | simple | homestead
func specDifficultyAlgo(cfg *params.ChainConfig, t *big.Int, p, gp *types.Header) (d *big.Int, panics bool, algo string) {
	next := new(big.Int).Add(p.Number, big.NewInt(1))
	mainnet := cfg.ChainId.Uint64() == mainnetID
	min, div, limit := int64(99999999), int64(2048), int64(240)
	if active(cfg, 1, next) {
		min = 100001792
	}
	if active(cfg, 3, next) {
		min = 30959185800
	}
	if active(cfg, 5, next) {
		min, div = 46039386, 16
	}
	if active(cfg, 6, next) {
		div, limit = 128, 180
	}
	if active(cfg, 8, next) {
		div = 1024
	}
	pd := p.Difficulty
	homestead := func(base *big.Int, delta *big.Int, period int64, dv int64) *big.Int {
		x := floorDiv(delta, big.NewInt(period))
		x.Sub(big.NewInt(1), x)
		if x.Cmp(big.NewInt(-99)) < 0 {
			x.SetInt64(-99)
		}
		y := floorDiv(base, big.NewInt(dv))
		return x.Add(base, x.Mul(y, x))
	}
	bmax := func(a *big.Int, m int64) *big.Int {
		if a.Cmp(big.NewInt(m)) < 0 {
			return big.NewInt(m)
		}
		return a
	}
	simple := func() *big.Int {
		adj := floorDiv(pd, big.NewInt(div))
		var r *big.Int
		if new(big.Int).Sub(t, p.Time).Cmp(big.NewInt(limit)) < 0 {
			r = new(big.Int).Add(pd, adj)
		} else {
			r = new(big.Int).Sub(pd, adj)
		}
		return bmax(r, min)
	}
	switch {
	case active(cfg, 10, next):
		if gp == nil {
			return new(big.Int).Set(pd), false, "grandparent"
		}
		if p.Time.Cmp(gp.Time) <= 0 {
			return nil, true, "grandparent"
		}
		dv := int64(16)
		if active(cfg, 8, p.Number) {
			dv = 1024
		}
		return bmax(homestead(gp.Difficulty, new(big.Int).Sub(p.Time, gp.Time), 240, dv), 46039386), false, "grandparent"
	case isForkBlock(cfg, 8, next):
		return big.NewInt(46039386), false, "reset"
	case isForkBlock(cfg, 6, next), isForkBlock(cfg, 7, next):
		return simple(), false, "simple"
	case isForkBlock(cfg, 5, next):
		return big.NewInt(46039386), false, "reset"
	case isForkBlock(cfg, 3, next):
		return big.NewInt(30959185800), false, "reset"
	case active(cfg, 2, next):
		return simple(), false, "simple"
	case isForkBlock(cfg, 1, next):
		return big.NewInt(100001792), false, "reset"
	default:
		x := homestead(pd, new(big.Int).Sub(t, p.Time), 10, 2048)
		if mainnet {
			if active(cfg, 1, next) {
				return bmax(x, 100001792), false, "homestead"
			}
			return bmax(x, 99999999), false, "homestead"
		}
		return x, false, "homestead"
	}
}

// rulesFail: the conjunction in the property statement (seal aside), clause by clause: the names of ALL
// clauses that fail (empty when the header satisfies the rules).
func rulesFail(cfg *params.ChainConfig, now int64, h, p, gp *types.Header) []string {
	var f []string
	if new(big.Int).Sub(h.Number, p.Number).Cmp(big.NewInt(1)) != 0 {
		f = append(f, "number")
	}
	if h.Time.Cmp(p.Time) <= 0 {
		f = append(f, "time-not-later")
	}
	if h.Time.Cmp(big.NewInt(now+15)) > 0 {
		f = append(f, "time-future")
	}
	if len(h.Extra) > 32 {
		f = append(f, "extra")
	}
	gl, pgl := new(big.Int).SetUint64(h.GasLimit), new(big.Int).SetUint64(p.GasLimit)
	if h.GasUsed > h.GasLimit || gl.Cmp(two63m1) > 0 || h.GasLimit < 5000 {
		f = append(f, "gas")
	}
	delta := new(big.Int).Abs(new(big.Int).Sub(pgl, gl))
	if delta.Cmp(new(big.Int).Div(pgl, big.NewInt(1024))) >= 0 {
		f = append(f, "gas-delta")
	}
	d, pn := specDifficulty(cfg, h.Time, p, gp)
	if pn || d.Cmp(h.Difficulty) != 0 {
		f = append(f, "difficulty")
	}
	return f
}

// rulesOK: "" when all clauses hold, else the failing clauses joined by '+'
func rulesOK(cfg *params.ChainConfig, now int64, h, p, gp *types.Header) string {
	return strings.Join(rulesFail(cfg, now, h, p, gp), "+")
}

var two64 = new(big.Int).Lsh(big.NewInt(1), 64)

// classifyAcceptedInvalid: an ACCEPTED header fails exactly the clauses `fails` of the rules.  Returns the stable
// signature of the known mechanism that explains exactly this set of failing clauses, or "" (unknown: the caller
// reports the concrete case).  Each mechanism is recognised by its own precise footprint and by nothing else.
func classifyAcceptedInvalid(cfg *params.ChainConfig, fails string, h, p, gp *types.Header, uncle bool) (sig, what string) {
	switch {
	case uncle && fails == "time-future":
		// the clock rule, and only the clock rule, is skipped for uncles
		return "uncle-future-timestamp-accepted", "an uncle header whose timestamp is more than 15 s ahead of the clock, and which satisfies every other rule, is accepted (verifyHeader skips the future check for uncles; only Time <= 2^256-1 is required)"
	case uncle && fails == "time-future+difficulty" && h.Time.Cmp(two64) >= 0:
		// the difficulty is right for Time mod 2^64 and wrong for the real timestamp
		trunc := new(big.Int).Mod(h.Time, two64)
		if d, pn := specDifficulty(cfg, trunc, p, gp); !pn && d.Cmp(h.Difficulty) == 0 && trunc.Cmp(p.Time) > 0 {
			return "uncle-timestamp-truncated-to-uint64", "an uncle header with Time >= 2^64 is accepted with the difficulty of Time mod 2^64 (verifyHeader passes header.Time.Uint64() to CalcDifficulty)"
		}
	case !uncle && fails == "gas-delta" && p.GasLimit >= 1<<63:
		return "gaslimit-int64-wrap-parent-above-2^63", "parent gas limit >= 2^63 (only a genesis block can have it): int64(parent.GasLimit)-int64(header.GasLimit) wraps and a gas limit outside parent/1024 is accepted"
	}
	return "", ""
}

// ---------------------------------------------------------------- generators

type env struct {
	c   *vh.Ctx
	m   *vh.Model
	eng *aquahash.Aquahash
}

func baseHeader(r *vh.RNG, cfg *params.ChainConfig, number int64, t int64, diff *big.Int, parent common.Hash, gasLimit uint64) *types.Header {
	h := &types.Header{
		ParentHash: parent, Number: big.NewInt(number), Time: big.NewInt(t), Difficulty: new(big.Int).Set(diff),
		GasLimit: gasLimit, GasUsed: 0, Extra: r.Bytes(r.Intn(33)),
		UncleHash: types.EmptyUncleHash, TxHash: types.EmptyRootHash, ReceiptHash: types.EmptyRootHash,
	}
	copy(h.Coinbase[:], r.Bytes(20))
	copy(h.Root[:], r.Bytes(32))
	h.Version = cfg.GetBlockVersion(h.Number)
	return h
}

// child: a header valid on top of p (per the independent spec), dt seconds later
func child(r *vh.RNG, cfg *params.ChainConfig, p, gp *types.Header, dt int64) *types.Header {
	t := new(big.Int).Add(p.Time, big.NewInt(dt))
	d, pn := specDifficulty(cfg, t, p, gp)
	if pn {
		d = new(big.Int).Set(p.Difficulty)
	}
	gl := p.GasLimit
	if lim := p.GasLimit / 1024; lim > 1 {
		gl = p.GasLimit - (lim - 1) + uint64(r.Intn(int(2*(lim-1)+1)))
	}
	if gl < 5000 {
		gl = 5000
	}
	h := baseHeader(r, cfg, p.Number.Int64()+1, 0, d, p.Hash(), gl)
	h.Time = t
	h.GasUsed = uint64(r.Intn(int(gl%1000000 + 1)))
	return h
}

var builtin = []struct {
	name string
	cfg  *params.ChainConfig
}{
	{"mainnet", params.MainnetChainConfig}, {"testnet", params.TestnetChainConfig}, {"testnet2", params.Testnet2ChainConfig},
	{"testnet3", params.Testnet3ChainConfig}, {"dev", params.AllAquahashProtocolChanges}, {"test", params.TestChainConfig},
}

func customCfg(id int64, m map[int]int64) *params.ChainConfig {
	hf := params.ForkMap{}
	for k, v := range m {
		hf[k] = big.NewInt(v)
	}
	return &params.ChainConfig{ChainId: big.NewInt(id), HF: hf, Aquahash: new(params.AquahashConfig)}
}

// configs under test: the built-in ones, mainnet with HF8 set by flag, schedules with HF8/9/10, random maps
func allConfigs(r *vh.RNG) []struct {
	name string
	cfg  *params.ChainConfig
} {
	out := append([]struct {
		name string
		cfg  *params.ChainConfig
	}{}, builtin...)
	add := func(n string, c *params.ChainConfig) {
		out = append(out, struct {
			name string
			cfg  *params.ChainConfig
		}{n, c})
	}
	add("mainnet+hf8", customCfg(61717561, map[int]int64{1: 3600, 2: 7200, 3: 13026, 4: 21800, 5: 22800, 6: 36000, 7: 36050, 8: 40000, 9: 40100}))
	add("hf10-main", customCfg(61717561, map[int]int64{1: 1, 2: 2, 3: 3, 5: 5, 6: 6, 8: 20, 10: 30}))
	add("hf10-test", customCfg(777, map[int]int64{5: 0, 10: 12}))
	add("hf10-then-hf8", customCfg(778, map[int]int64{5: 0, 10: 5, 8: 20}))
	add("mainid-sparse", customCfg(61717561, map[int]int64{3: 10, 5: 20}))
	for i := 0; i < 3; i++ {
		m := map[int]int64{}
		for k := 1; k <= 10; k++ {
			if r.Chance(60) {
				m[k] = int64(r.Intn(40))
			}
		}
		id := int64(61717561)
		if r.Bool() {
			id = int64(1000 + r.Intn(10))
		}
		add(fmt.Sprintf("random%d", i), customCfg(id, m))
	}
	return out
}

func heightsOf(cfg *params.ChainConfig, r *vh.RNG) []int64 {
	set := map[int64]bool{1: true, 2: true, 3: true}
	for _, v := range cfg.HF {
		if v != nil {
			for d := int64(-2); d <= 2; d++ {
				if v.Int64()+d >= 1 {
					set[v.Int64()+d] = true
				}
			}
		}
	}
	set[int64(15000+r.Intn(20))] = true
	set[int64(50000+r.Intn(100000))] = true
	out := []int64{}
	for h := range set {
		out = append(out, h)
	}
	sort.Slice(out, func(i, j int) bool { return out[i] < out[j] })
	return out
}

// ---------------------------------------------------------------- 0. directed cases

// directed: one fixed case per known defect of the unchanged tree, run on every seed through the same
// checkers (and hence the same mechanism-specific classification) as the generated cases.
func (e *env) directed() {
	c := e.c
	saved := c.Rng
	c.Rng = vh.NewRNG(0xC13D1) // fixed: the directed cases do not depend on -seed
	defer func() { c.Rng = saved }()
	r := c.Rng
	now := time.Now().Unix()

	// (1) fall-through to calcDifficultyStarting: built-in testnet2 / testnet3 (HF5 without HF2)
	for _, cfg := range []*params.ChainConfig{params.Testnet2ChainConfig, params.Testnet3ChainConfig} {
		p := baseHeader(r, cfg, 29, 1000000, big.NewInt(46039386), common.Hash{1}, 5000000)
		e.checkDifficulty("directed", cfg, 1001000, p, nil)
	}
	// (2) HF10 grandparent rule: parent not later than grandparent
	{
		cfg := customCfg(777, map[int]int64{5: 0, 10: 12})
		p := baseHeader(r, cfg, 20, 1000000, big.NewInt(46039386), common.Hash{1}, 5000000)
		gp := baseHeader(r, cfg, 19, 1000000, big.NewInt(46039386), common.Hash{2}, 5000000)
		e.checkDifficulty("directed", cfg, 1000100, p, gp)
	}
	// (3) uncle headers and the clock; (4) uncle timestamp truncated to 64 bits; (5) int64 gas-limit distance
	{
		cfg := params.TestnetChainConfig
		gp := baseHeader(r, cfg, 700, now-5000, big.NewInt(46039386), common.Hash{7}, 4712388)
		p := child(r, cfg, gp, nil, 100)
		ch := newChain(cfg)
		ch.addHeader(gp)
		ch.addHeader(p)
		u := child(r, cfg, p, gp, 100)
		u.Time = big.NewInt(now + 1000000)
		u.Difficulty, _ = specDifficulty(cfg, u.Time, p, gp)
		e.checkHeader("directed/uncle-future", ch, u, p, gp, true)
		u2 := child(r, cfg, p, gp, 50)             // difficulty right for parent+50 ...
		u2.Time = new(big.Int).Add(two64, u2.Time) // ... and the timestamp 2^64 later
		e.checkHeader("directed/uncle-time-2^64", ch, u2, p, gp, true)

		g := baseHeader(r, cfg, 0, now-500, big.NewInt(46039386), common.Hash{}, ^uint64(0)) // a genesis block with gas limit 2^64-1
		ch2 := newChain(cfg)
		ch2.addHeader(g)
		h := child(r, cfg, g, nil, 100)
		h.GasLimit, h.GasUsed = 5000, 0
		e.checkHeader("directed/parent-gaslimit>=2^63", ch2, h, g, nil, false)
	}
	// (6) VerifyHeaders on a batch that starts at number 0 with an unknown parent
	{
		cfg := params.TestChainConfig
		base, seg := buildChain(r, cfg, 1, 3, now)
		seg = append([]*types.Header{base[0]}, seg...)
		e.checkBatch("directed-from-genesis", "test", newChain(cfg), seg, make([]bool, len(seg)), e.eng, 0)
	}
	// (7) the hard-coded uncle exceptions on a chain that is not mainnet: well inside the window, and on both sides of its
	// edge (the loop counter block-1-ancestors is 15000, then 15001: there the uncle must be rejected as dangling)
	for _, start := range []int64{700, 15002, 15003} {
		cfg := params.TestnetChainConfig
		base, seg := buildChain(r, cfg, start, 4, now)
		all := append(append([]*types.Header{}, base...), seg...)
		blocks := map[int]*types.Block{}
		for k := 1; k < len(all); k++ {
			blocks[k] = types.NewBlockWithHeader(all[k]).WithBody(nil, nil)
		}
		hdr := child(r, cfg, all[len(all)-1], all[len(all)-2], 100)
		junk := child(r, cfg, all[2], all[1], 50)
		junk.ParentHash = common.HexToHash("0x6b818656fb5059ab4dd070e2c2822a7774065090e74ff31515764212c88e2923")
		junk.Number = big.NewInt(14003)
		junk.Difficulty = big.NewInt(1)
		e.checkUncles(fmt.Sprintf("directed/whitelist-parent@%d", start), cfg, all, blocks, hdr, []*types.Header{junk}, false)
	}
}

// ---------------------------------------------------------------- 0b. every fork edge, deterministically

// forkEdges: for every configuration and every scheduled fork f, the difficulty of blocks f-1, f, f+1 on a fixed set of
// (parent difficulty, time delta, grandparent) points chosen so that the regimes on the two sides of the edge give
// different values: delta 200 separates the duration limits 240/180, the large difficulties separate the divisors
// 2048/16/128/1024, the difficulties at the minima with a late block separate the minima, and the fork block itself
// separates "reset" from "adjust".  No sub-sampling: an IsHF test fed with the wrong height (parent instead of block)
// changes at least one of these values.
func (e *env) forkEdges() {
	c := e.c
	for _, nc := range allConfigs(c.Rng) {
		cfg := nc.cfg
		edges := map[int64]bool{}
		for _, v := range cfg.HF {
			if v != nil {
				for d := int64(-1); d <= 1; d++ {
					if v.Int64()+d >= 1 {
						edges[v.Int64()+d] = true
					}
				}
			}
		}
		hs := []int64{}
		for h := range edges {
			hs = append(hs, h)
		}
		sort.Slice(hs, func(i, j int) bool { return hs[i] < hs[j] })
		for _, next := range hs {
			for _, pd := range []int64{46039386, 99999999, 100001792, 30959185800, 1 << 40, 1<<40 + 12345} {
				for _, dt := range []int64{1, 200, 1000} {
					pt := int64(2000000)
					p := baseHeader(c.Rng, cfg, next-1, pt, big.NewInt(pd), common.Hash{1}, 5000000)
					var gp *types.Header
					if next >= 2 {
						gp = baseHeader(c.Rng, cfg, next-2, pt-300, big.NewInt(pd+777777), common.Hash{2}, 5000000)
					}
					e.checkDifficulty("edge/"+nc.name, cfg, uint64(pt+dt), p, gp)
				}
			}
		}
	}
}

// treeAt: a main chain ending at height-1 (at most 6 headers, from the genesis when the height is small), with a block
// body for every header, and `n` otherwise valid uncles for a block at `height`: distinct siblings of the block's parent
// (children of its grandparent), so that recency, ancestry, uniqueness and header validity all hold.
func (e *env) treeAt(r *vh.RNG, cfg *params.ChainConfig, height int64, n int, now int64) (all []*types.Header, blocks map[int]*types.Block, hdr *types.Header, us []*types.Header) {
	lo := height - 6
	var base, seg []*types.Header
	if lo <= 0 {
		base, seg = buildChain(r, cfg, 1, int(height-1), now)
	} else {
		base, seg = buildChain(r, cfg, lo+2, int(height-lo-2), now)
	}
	all = append(append([]*types.Header{}, base...), seg...)
	blocks = map[int]*types.Block{}
	for k := 0; k < len(all); k++ {
		blocks[k] = types.NewBlockWithHeader(all[k]).WithBody(nil, nil)
	}
	last := len(all) - 1
	var ggp *types.Header
	if last >= 1 {
		if last >= 2 {
			ggp = all[last-2]
		}
		hdr = child(r, cfg, all[last], all[last-1], 100)
		for i := 0; i < n; i++ {
			us = append(us, child(r, cfg, all[last-1], ggp, []int64{1, 50, 239, 400, 7}[i%5]))
		}
	}
	return
}

// uncleCounts: for every configuration with HF5 (and HF8 / HF9, where the uncle hash version changes), blocks at
// fork-2 .. fork+2 carrying 0, 1, 2 and 3 otherwise valid uncles, through VerifyUncles; oracle: the block's own height
// decides between the limits 2 and 1.
func (e *env) uncleCounts() {
	c := e.c
	now := time.Now().Unix()
	for _, nc := range allConfigs(c.Rng) {
		cfg := nc.cfg
		done := map[int64]bool{}
		for _, f := range []int{5, 8, 9} {
			if cfg.HF[f] == nil {
				continue
			}
			// second inclusion of an uncle: uncle at height u, first included by the ancestor at height i, offered again
			// by the block at height j (u < i < j <= u+6), on both sides of the fork; the chain reader stamps the past
			// uncle with the version of block i
			fk := cfg.HF[f].Int64()
			for _, t := range [][3]int64{{-1, 0, 1}, {-1, 0, 4}, {-1, 1, 2}, {-2, 0, 1}, {-2, 1, 3}, {-3, 0, 2}, {-1, 3, 4}, {0, 1, 2}, {-3, -2, -1}, {-2, -1, 0}} {
				u, i, j := fk+t[0], fk+t[1], fk+t[2]
				if u < 1 {
					continue
				}
				all, blocks, hdr, _ := e.treeAt(c.Rng, cfg, j, 0, now)
				first := all[0].Number.Int64()
				iu, ii := int(u-first), int(i-first)
				if iu < 1 || ii >= len(all) {
					continue
				}
				var gpu *types.Header
				if iu >= 2 {
					gpu = all[iu-2]
				}
				un := child(c.Rng, cfg, all[iu-1], gpu, 33) // a sibling of the main-chain block at height u
				un.Version = cfg.GetBlockVersion(un.Number)
				blocks[ii] = types.NewBlockWithHeader(all[ii]).WithBody(nil, []*types.Header{un})
				e.checkUncles(fmt.Sprintf("twice/hf%d/u%+d/i%+d/j%+d", f, t[0], t[1], t[2]), cfg, all, blocks, hdr, []*types.Header{types.CopyHeader(un)}, false)
			}
			for d := int64(-2); d <= 2; d++ {
				height := cfg.HF[f].Int64() + d
				if height < 2 || done[height] {
					continue // below height 2 no header can be a valid uncle
				}
				done[height] = true
				for n := 0; n <= 3; n++ {
					if f != 5 && n != 1 && n != 2 {
						continue
					}
					all, blocks, hdr, us := e.treeAt(c.Rng, cfg, height, n, now)
					e.checkUncles(fmt.Sprintf("count/hf%d%+d/uncles=%d", f, d, n), cfg, all, blocks, hdr, us, false)
				}
				// the hash of an uncle is taken under the version of the UNCLE's height: across a version-changing fork an
				// ancestor offered as uncle must still be recognised
				if d >= 0 && d <= 1 && height >= 3 {
					all, blocks, hdr, _ := e.treeAt(c.Rng, cfg, height, 0, now)
					last := len(all) - 1
					e.checkUncles(fmt.Sprintf("across/hf%d%+d/grandparent-as-uncle", f, d), cfg, all, blocks, hdr, []*types.Header{types.CopyHeader(all[last-1])}, false)
				}
			}
		}
	}
}

// insertChainUncles: the same question through the whole import path: core.GenerateChain builds a real chain on a
// schedule whose HF5 is low, the block at fork-2 .. fork+2 includes 0..3 real uncles (re-mined copies of its parent),
// and a fresh core.BlockChain imports it with InsertChain (ValidateBody -> VerifyUncles).
func (e *env) insertChainUncles() {
	c := e.c
	type sched struct {
		name string
		cfg  *params.ChainConfig
	}
	scheds := []sched{{"test", params.TestChainConfig}, {"hf5@3", customCfg(4242, map[int]int64{1: 1, 2: 2, 5: 3, 7: 0})}, {"hf5@6-sparse", customCfg(4243, map[int]int64{2: 0, 5: 6, 7: 0})}}
	for _, sc := range scheds {
		cfg := sc.cfg
		f := cfg.HF[5].Int64()
		for d := int64(-2); d <= 2; d++ {
			height := f + d
			if height < 2 {
				continue
			}
			for n := 0; n <= 3; n++ {
				if !c.Thorough() && (d == -2 || d == 2) && (n == 0 || n == 3) {
					continue
				}
				db := aquadb.NewMemDatabase()
				gspec := &core.Genesis{Config: cfg, Difficulty: big.NewInt(46039386)}
				genesis := gspec.MustCommit(db)
				var verdict string
				pan, pv := vh.CatchPanic(func() {
					chain, _ := core.GenerateChain(context.Background(), cfg, genesis, aquahash.NewFaker(), db, int(height), func(i int, gen *core.BlockGen) {
						if int64(i) == height-1 {
							for k := 0; k < n; k++ {
								u := gen.PrevBlock(i - 1).Header() // the parent, re-mined: a sibling of it
								u.Extra = []byte(fmt.Sprintf("uncle-%d", k))
								gen.AddUncle(u)
							}
						}
					})
					db2 := aquadb.NewMemDatabase()
					gspec.MustCommit(db2)
					bc, err := core.NewBlockChain(context.Background(), db2, nil, cfg, aquahash.NewFaker(), vm.Config{})
					if err != nil {
						verdict = "setup " + err.Error()
						return
					}
					defer bc.Stop()
					if idx, err := bc.InsertChain(chain); err != nil {
						verdict = fmt.Sprintf("rejected at #%d: %s", chain[idx].NumberU64(), classify(err))
					} else {
						verdict = "ok"
					}
				})
				if pan {
					verdict = fmt.Sprintf("panic %v", pv)
				}
				max := 2
				if active(cfg, 5, big.NewInt(height)) {
					max = 1
				}
				want := "ok"
				if n > max {
					want = fmt.Sprintf("rejected at #%d: err too-many-uncles", height)
				}
				key := ""
				if verdict == "ok" && n > 0 {
					key = fmt.Sprintf("insert/%s/%d/%d", sc.name, height, n)
				}
				c.Eval(fmt.Sprintf("insertchain-uncles/%s/hf5%+d/uncles=%d", sc.name, d, n), key)
				c.Count("insertchain-verdict/" + strings.SplitN(verdict, ":", 2)[0])
				if verdict != want {
					c.Violate(fmt.Sprintf("insertchain-uncle-count/%s/height=%d/uncles=%d/%s", cfgTok(cfg), height, n, verdict),
						"InsertChain of a generated chain whose block at this height carries this many real (valid, recent, distinct) uncles: the verdict differs from the rule (at most 2 uncles before HF5, at most 1 from the HF5 block on)",
						map[string]string{"config": cfgTok(cfg), "height": fmt.Sprint(height), "uncles": fmt.Sprint(n), "verdict": verdict, "expected": want})
				}
			}
		}
	}
}

// importVerdict: core.GenerateChain builds `length` blocks on a fresh genesis of cfg (gen customises them), a fresh
// core.BlockChain imports them with InsertChain; "ok" or "rejected at #N: <error class>".
func importVerdict(cfg *params.ChainConfig, length int, gen func(int, *core.BlockGen)) (verdict string) {
	pan, pv := vh.CatchPanic(func() {
		db := aquadb.NewMemDatabase()
		gspec := &core.Genesis{Config: cfg, Difficulty: big.NewInt(46039386)}
		genesis := gspec.MustCommit(db)
		chain, _ := core.GenerateChain(context.Background(), cfg, genesis, aquahash.NewFaker(), db, length, gen)
		db2 := aquadb.NewMemDatabase()
		gspec.MustCommit(db2)
		bc, err := core.NewBlockChain(context.Background(), db2, nil, cfg, aquahash.NewFaker(), vm.Config{})
		if err != nil {
			verdict = "setup " + err.Error()
			return
		}
		defer bc.Stop()
		if idx, err := bc.InsertChain(chain); err != nil {
			verdict = fmt.Sprintf("rejected at #%d: %s", chain[idx].NumberU64(), classify(err))
		} else {
			verdict = "ok"
		}
	})
	if pan {
		verdict = fmt.Sprintf("panic %v", pv)
	}
	return
}

// insertChainTwice: uncle identity through the real chain (core.BlockChain.GetBlock stamps a block's uncles with the
// INCLUDING block's version).  Around each version-changing fork f (HF5, HF8, HF9 on schedules where it is at height 4):
// a sibling of the main-chain block at height u in f-3..f+1 is included by block i (u < i <= u+6: accepted, once) and
// again by block j (i < j <= u+6: must be rejected as duplicate); and a main-chain block a below the fork is offered as
// uncle by a block at or above it (must be rejected as ancestor).  Quick tier: every (u,i,j) with u < f <= i plus a
// few on one side; thorough: all.
func (e *env) insertChainTwice() {
	c := e.c
	const f = 4
	scheds := []struct {
		fork int
		cfg  *params.ChainConfig
	}{
		{5, customCfg(4251, map[int]int64{1: 0, 2: 0, 3: 0, 5: f})},
		{8, customCfg(4252, map[int]int64{1: 0, 2: 0, 3: 0, 5: 0, 6: 0, 8: f})},
		{9, customCfg(4253, map[int]int64{1: 0, 2: 0, 3: 0, 5: 0, 6: 0, 8: 0, 9: f})},
	}
	for _, sc := range scheds {
		cfg := sc.cfg
		for u := int64(f - 3); u <= f+1; u++ {
			for i := u + 1; i <= u+6; i++ {
				for j := i + 1; j <= u+6; j++ {
					across := u < f && i >= f
					if !c.Thorough() && !across && !(j == i+1 && (i == u+1 || i == u+5)) {
						continue
					}
					uu, ii, jj := u, i, j
					verdict := importVerdict(cfg, int(jj), func(k int, gen *core.BlockGen) {
						if n := int64(k + 1); n == ii || n == jj {
							uh := gen.PrevBlock(int(uu) - 1).Header() // the main-chain block at height u, re-mined: its sibling
							uh.Extra = []byte("sibling")
							gen.AddUncle(uh)
						}
					})
					want := fmt.Sprintf("rejected at #%d: err duplicate-uncle", jj)
					key := ""
					if verdict == want {
						key = fmt.Sprintf("twice/hf%d/%d/%d/%d", sc.fork, u, i, j)
					}
					c.Eval(fmt.Sprintf("insertchain-twice/hf%d/across=%v", sc.fork, across), key)
					if verdict != want {
						c.Violate(fmt.Sprintf("insertchain-uncle-included-twice/%s/uncle=%d/first=%d/second=%d/%s", cfgTok(cfg), u, i, j, verdict),
							"InsertChain: a sibling of the main-chain block at `uncle` is included by block `first` and again by block `second` (both within its 6-block window): the first inclusion must be accepted and the second rejected as duplicate (the uncle would be rewarded twice)",
							map[string]string{"config": cfgTok(cfg), "version_fork": fmt.Sprintf("HF%d at %d", sc.fork, f), "uncle_height": fmt.Sprint(u), "first_inclusion": fmt.Sprint(i), "second_inclusion": fmt.Sprint(j), "verdict": verdict, "expected": want})
					}
				}
			}
		}
		// sibling accepted once (no second inclusion), and an ancestor offered as uncle across the fork
		for _, ui := range [][2]int64{{f - 1, f}, {f - 1, f + 2}, {f - 2, f}, {f - 3, f + 1}, {f, f + 1}} {
			uu, ii := ui[0], ui[1]
			verdict := importVerdict(cfg, int(ii)+1, func(k int, gen *core.BlockGen) {
				if int64(k+1) == ii {
					uh := gen.PrevBlock(int(uu) - 1).Header()
					uh.Extra = []byte("sibling")
					gen.AddUncle(uh)
				}
			})
			c.Eval(fmt.Sprintf("insertchain-once/hf%d", sc.fork), fmt.Sprintf("once/hf%d/%d/%d", sc.fork, uu, ii))
			if verdict != "ok" {
				c.Violate(fmt.Sprintf("insertchain-uncle-once/%s/uncle=%d/included=%d/%s", cfgTok(cfg), uu, ii, verdict), "InsertChain rejects a block with one valid recent uncle",
					map[string]string{"config": cfgTok(cfg), "uncle_height": fmt.Sprint(uu), "included_at": fmt.Sprint(ii), "verdict": verdict})
			}
		}
		for _, aj := range [][2]int64{{f - 1, f + 1}, {f - 1, f + 3}, {f - 2, f}, {f - 2, f + 2}, {f - 3, f}} {
			a, j := aj[0], aj[1]
			verdict := importVerdict(cfg, int(j), func(k int, gen *core.BlockGen) {
				if int64(k+1) == j {
					gen.AddUncle(gen.PrevBlock(int(a) - 1).Header())
				}
			})
			want := fmt.Sprintf("rejected at #%d: err uncle-is-ancestor", j)
			c.Eval(fmt.Sprintf("insertchain-ancestor-as-uncle/hf%d", sc.fork), "")
			if verdict != want {
				c.Violate(fmt.Sprintf("insertchain-ancestor-as-uncle/%s/ancestor=%d/block=%d/%s", cfgTok(cfg), a, j, verdict), "InsertChain: a block offers one of its own ancestors as uncle",
					map[string]string{"config": cfgTok(cfg), "ancestor": fmt.Sprint(a), "block": fmt.Sprint(j), "verdict": verdict, "expected": want})
			}
		}
	}
}

// hiBits: big.Int header fields with bits above 2^64 set so that the low 64 bits are those of a valid value: wherever the code
// narrows a field (Number.Uint64(), Time.Uint64(), a uint64 comparison) the narrowed value looks right, only the
// full-precision rule can reject.  Number: parent+1+k*2^64; Time: t+k*2^64; Difficulty: expected+k*2^64.
func pow2(n uint) *big.Int { return new(big.Int).Lsh(big.NewInt(1), n) }

var hiBits = []struct {
	name string
	f    func(h *types.Header)
}{
	{"hi/number+2^64", func(h *types.Header) { h.Number = new(big.Int).Add(h.Number, pow2(64)) }},
	{"hi/number+2*2^64", func(h *types.Header) { h.Number = new(big.Int).Add(h.Number, pow2(65)) }},
	{"hi/number+2^63*2^64", func(h *types.Header) { h.Number = new(big.Int).Add(h.Number, pow2(127)) }},
	{"hi/number+2^191*2^64", func(h *types.Header) { h.Number = new(big.Int).Add(h.Number, pow2(255)) }},
	{"hi/time+2^64", func(h *types.Header) { h.Time = new(big.Int).Add(h.Time, pow2(64)) }},
	{"hi/time+2^63*2^64", func(h *types.Header) { h.Time = new(big.Int).Add(h.Time, pow2(127)) }},
	{"hi/diff+2^64", func(h *types.Header) { h.Difficulty = new(big.Int).Add(h.Difficulty, pow2(64)) }},
	{"hi/diff+2^191*2^64", func(h *types.Header) { h.Difficulty = new(big.Int).Add(h.Difficulty, pow2(255)) }},
}

// highBits: every high-bit mutation, deterministically, as header and as uncle header (verifyHeader), inside batches
// at the first, second, a middle and the last position (VerifyHeaders workers, collector, one-by-one VerifyHeader), and as
// the uncle of a block (VerifyUncles); headerChainImport applies them through ValidateHeaderChain.
func (e *env) highBits() {
	c := e.c
	now := time.Now().Unix()
	cfgs := append([]struct {
		name string
		cfg  *params.ChainConfig
	}{}, builtin...)
	cfgs = append(cfgs, struct {
		name string
		cfg  *params.ChainConfig
	}{"mainnet+hf8", customCfg(61717561, map[int]int64{1: 3600, 2: 7200, 3: 13026, 4: 21800, 5: 22800, 6: 36000, 7: 36050, 8: 40000, 9: 40100})})
	for ci, nc := range cfgs {
		cfg := nc.cfg
		number := int64(50 + 7*ci)
		if nc.name == "mainnet" || nc.name == "mainnet+hf8" {
			number = 40200
		}
		for _, hb := range hiBits {
			// (a) verifyHeader, header and uncle
			gp := baseHeader(c.Rng, cfg, number-2, now-5000, big.NewInt(46039386+int64(c.Rng.Intn(1<<20))), common.Hash{7}, 4712388)
			p := child(c.Rng, cfg, gp, nil, 100)
			ch := newChain(cfg)
			ch.addHeader(gp)
			ch.addHeader(p)
			for _, uncle := range []bool{false, true} {
				h := child(c.Rng, cfg, p, gp, 100)
				hb.f(h)
				h.Version = cfg.GetBlockVersion(h.Number)
				e.checkHeader(hb.name+map[bool]string{false: "", true: "/uncle"}[uncle], ch, h, p, gp, uncle)
			}
			// (b) batches: position 0, 1, middle, last
			for _, pos := range []int{0, 1, 3, 5} {
				if !c.Thorough() && (ci+pos)%2 == 1 {
					continue
				}
				base, seg := buildChain(c.Rng, cfg, number, 6, now)
				hb.f(seg[pos])
				seg[pos].Version = cfg.GetBlockVersion(seg[pos].Number)
				for j := pos + 1; j < len(seg); j++ {
					seg[j].ParentHash = seg[j-1].Hash()
				}
				bch := newChain(cfg)
				for _, b := range base {
					bch.addHeader(b)
				}
				seals := make([]bool, len(seg))
				seals[len(seg)-1] = true
				e.checkBatch(hb.name+fmt.Sprintf("@%d", pos), nc.name, bch, seg, seals, e.eng, 0)
			}
			// (c) as the uncle of a block
			all, blocks, hdr, us := e.treeAt(c.Rng, cfg, number, 1, now)
			if len(us) == 1 {
				hb.f(us[0])
				e.checkUncles(hb.name+"/in-block", cfg, all, blocks, hdr, us, false)
			}
		}
	}
}

// ---------------------------------------------------------------- header-first import: ValidateHeaderChain

// recEngine records the seal sample ValidateHeaderChain hands to VerifyHeaders
type recEngine struct {
	*aquahash.Aquahash
	seals []bool
}

func (r *recEngine) VerifyHeaders(chain consensus.ChainReader, headers []*types.Header, seals []bool) (chan<- struct{}, <-chan error) {
	r.seals = append([]bool{}, seals...)
	return r.Aquahash.VerifyHeaders(chain, headers, seals)
}

// headerChainImport: real header chains (core.GenerateChain) imported header-first through core.BlockChain.InsertHeaderChain
// (-> HeaderChain.ValidateHeaderChain) with checkFreq 1, 2, 3, 5, 100: valid, one rule broken in one header (re-linked),
// broken link / number (not contiguous), failing seal at one height (caught only if sampled), known prefix.
// Compared: the recorded seal sample with the model's pick_seals on the random numbers recovered from it; the verdict
// (index, error) with the model's validate_with_seals.  Direct oracle: the sample has the window property; the verdict is
// the first header, in order, that breaks a rule of the property statement or whose sampled seal fails.
func (e *env) headerChainImport() {
	c := e.c
	cfgs := []struct {
		name string
		cfg  *params.ChainConfig
	}{{"test", params.TestChainConfig}, {"hf5@3", customCfg(4242, map[int]int64{1: 1, 2: 2, 5: 3, 7: 0})}, {"hf8@4", customCfg(4252, map[int]int64{1: 0, 2: 0, 3: 0, 5: 0, 6: 0, 8: 4})}}
	type hmut struct {
		name string
		f    func(h, p *types.Header)
	}
	hmuts := []hmut{
		{"extra=33", func(h, p *types.Header) { h.Extra = make([]byte, 33) }},
		{"time=parent", func(h, p *types.Header) { h.Time = new(big.Int).Set(p.Time) }},
		{"diff+1", func(h, p *types.Header) { h.Difficulty = new(big.Int).Add(h.Difficulty, big.NewInt(1)) }},
		{"diff-1", func(h, p *types.Header) { h.Difficulty = new(big.Int).Sub(h.Difficulty, big.NewInt(1)) }},
		{"gaslimit=2^63", func(h, p *types.Header) { h.GasLimit = 1 << 63 }},
		{"gasused=limit+1", func(h, p *types.Header) { h.GasUsed = h.GasLimit + 1 }},
		{"gaslimit=parent+bound", func(h, p *types.Header) { h.GasLimit = p.GasLimit + p.GasLimit/1024 }},
		{"gaslimit=4999", func(h, p *types.Header) { h.GasLimit = 4999; h.GasUsed = 0 }},
	}
	for _, hb := range hiBits {
		f := hb.f
		hmuts = append(hmuts, hmut{hb.name, func(h, p *types.Header) { f(h) }})
	}
	nsc := c.Scale(36, 400)
	for it := 0; it < nsc; it++ {
		sc := cfgs[it%len(cfgs)]
		cfg := sc.cfg
		n := 1 + c.Rng.Intn(24)
		freq := []int{1, 2, 3, 5, 100}[c.Rng.Intn(5)]
		kind := []string{"valid", "valid", "one-bad", "one-bad", "broken-link", "broken-number", "seal-fail", "seal-fail", "known-prefix"}[it%9]
		var (
			verdict  string
			seals    []bool
			headers  []*types.Header
			genesisH *types.Header
			known    int
			failNo   uint64
			mname    string
			badIdx   = -1
		)
		pan, pv := vh.CatchPanic(func() {
			db := aquadb.NewMemDatabase()
			gspec := &core.Genesis{Config: cfg, Difficulty: big.NewInt(46039386)}
			genesis := gspec.MustCommit(db)
			blocks, _ := core.GenerateChain(context.Background(), cfg, genesis, aquahash.NewFaker(), db, n, nil)
			for _, b := range blocks {
				headers = append(headers, b.Header())
			}
			relink := func(from int) {
				for j := from + 1; j < len(headers); j++ {
					headers[j].ParentHash = headers[j-1].Hash()
				}
			}
			parentOf := func(k int) *types.Header {
				if k == 0 {
					return genesis.Header()
				}
				return headers[k-1]
			}
			eng := aquahash.NewFaker()
			switch kind {
			case "one-bad":
				badIdx = c.Rng.Intn(n)
				mu := hmuts[c.Rng.Intn(len(hmuts))]
				mname = mu.name
				mu.f(headers[badIdx], parentOf(badIdx))
				headers[badIdx].Version = cfg.GetBlockVersion(headers[badIdx].Number)
				relink(badIdx)
			case "broken-link":
				if n >= 2 {
					badIdx = 1 + c.Rng.Intn(n-1)
					copy(headers[badIdx].ParentHash[:], c.Rng.Bytes(32))
				}
			case "broken-number":
				if n >= 2 {
					badIdx = 1 + c.Rng.Intn(n-1)
					headers[badIdx].Number = new(big.Int).Add(headers[badIdx].Number, big.NewInt(1))
					relink(badIdx)
				}
			case "seal-fail":
				failNo = headers[c.Rng.Intn(n)].Number.Uint64()
				eng = aquahash.NewFakeFailer(failNo)
			}
			db2 := aquadb.NewMemDatabase()
			gspec.MustCommit(db2)
			rec := &recEngine{Aquahash: eng}
			bc, err := core.NewBlockChain(context.Background(), db2, nil, cfg, rec, vm.Config{})
			if err != nil {
				verdict = "setup " + err.Error()
				return
			}
			defer bc.Stop()
			genesisH = bc.GetHeaderByNumber(0)
			if kind == "known-prefix" && n >= 2 {
				known = 1 + c.Rng.Intn(n-1)
				if _, err := bc.InsertHeaderChain(headers[:known], 1); err != nil {
					verdict = "setup prefix: " + err.Error()
					return
				}
			}
			idx, err := bc.InsertHeaderChain(headers, freq)
			seals = rec.seals
			switch {
			case err == nil:
				verdict = "ok"
			case strings.Contains(err.Error(), "non contiguous insert"):
				verdict = "noncontiguous"
			default:
				verdict = fmt.Sprintf("%d %s", idx, classify(err))
			}
		})
		if pan {
			verdict = fmt.Sprintf("panic %v", pv)
		}
		key := ""
		if verdict == "ok" {
			key = fmt.Sprintf("hc/%s/%d/%d/%d", sc.name, n, freq, it)
		}
		c.Eval("headerchain/"+kind, key)
		c.Count("headerchain-verdict/" + strings.SplitN(verdict, " ", 2)[0])
		rep := map[string]string{"config": cfgTok(cfg), "kind": kind, "mutation": mname, "headers": fmt.Sprint(n), "checkFreq": fmt.Sprint(freq), "verdict": verdict, "bad_index": fmt.Sprint(badIdx), "failing_seal_number": fmt.Sprint(failNo), "known_prefix": fmt.Sprint(known)}
		if strings.HasPrefix(verdict, "setup") || pan {
			c.Violate("headerchain-import/"+verdict, "header-first import failed unexpectedly", rep)
			continue
		}
		// ---- independent expectation
		want := "ok"
		contiguous := true
		for i := 1; i < n; i++ {
			if headers[i].Number.Uint64() != headers[i-1].Number.Uint64()+1 || headers[i].ParentHash != headers[i-1].Hash() {
				contiguous = false
			}
		}
		if !contiguous {
			want = "noncontiguous"
		}
		sb := ""
		if contiguous {
			// the sample: one flag per header, last one set, every complete window has one, at most n/freq+1 set
			okSample := len(seals) == n && seals[n-1]
			cnt := 0
			for _, b := range seals {
				if b {
					cnt++
					sb += "1"
				} else {
					sb += "0"
				}
			}
			for w := 0; okSample && w < n/freq; w++ {
				hit := false
				for j := w * freq; j < (w+1)*freq && j < n; j++ {
					hit = hit || seals[j]
				}
				okSample = okSample && hit
			}
			if !okSample || cnt > n/freq+1 {
				rep["seals"] = sb
				c.Violate(fmt.Sprintf("headerchain-seal-sample/n=%d/freq=%d/%s", n, freq, sb), "the seal sample of ValidateHeaderChain misses a window of checkFreq headers or the last header", rep)
			}
			// recover the random numbers: the first flag of each window (the forced last flag is not a pick unless it is the only one)
			rands := []string{}
			for w := 0; w < n/freq; w++ {
				pick := -1
				for j := w * freq; j < (w+1)*freq && j < n; j++ {
					if seals[j] && (j != n-1 || pick == -1) && pick == -1 {
						pick = j
					}
				}
				if pick < 0 {
					pick = w * freq
				}
				rands = append(rands, fmt.Sprint(pick-w*freq))
			}
			rt := "-"
			if len(rands) > 0 {
				rt = strings.Join(rands, ",")
			}
			c.Correspond("ValidateHeaderChain(seal sample)~pick_seals", fmt.Sprintf("%d %d %s", n, freq, rt), "ok "+sb, e.m.Ask(fmt.Sprintf("pickseals %d %d %s", n, freq, rt)))
			// verdict: first header that is not already known and breaks a rule, or whose sampled seal fails
			for i := 0; i < n && want == "ok"; i++ {
				if i < known {
					continue
				}
				p, gp := genesisH, (*types.Header)(nil)
				if i >= 1 {
					p = headers[i-1]
					gp = genesisH
				}
				if i >= 2 {
					gp = headers[i-2]
				}
				if f := rulesOK(cfg, time.Now().Unix(), headers[i], p, gp); f != "" {
					want = fmt.Sprintf("%d", i)
				} else if seals[i] && failNo != 0 && headers[i].Number.Uint64() == failNo {
					want = fmt.Sprintf("%d", i)
				}
			}
			// model
			chainHs := []*types.Header{genesisH}
			chainHs = append(chainHs, headers[:known]...)
			seal := func(h *types.Header) int {
				if failNo != 0 && h.Number.Uint64() == failNo {
					return 1
				}
				return 0
			}
			cas := fmt.Sprintf("vchain %s %d %s %s %s", cfgTok(cfg), time.Now().Unix(), hdrsTok(chainHs, seal), hdrsTok(headers, seal), sb)
			c.Correspond("InsertHeaderChain/ValidateHeaderChain~validate_with_seals", cas, verdict, e.m.Ask(cas))
		} else {
			cas := fmt.Sprintf("vchain %s %d %s %s -", cfgTok(cfg), time.Now().Unix(), hdrTok(genesisH, 0), hdrsTok(headers, noSeal))
			c.Correspond("InsertHeaderChain/ValidateHeaderChain~validate_with_seals", cas, verdict, e.m.Ask(cas))
		}
		got := strings.SplitN(verdict, " ", 2)[0]
		if got != want {
			rep["expected_first_failing_index"] = want
			rep["seals"] = sb
			c.Violate(fmt.Sprintf("headerchain-verdict/%s/%s/n=%d/freq=%d/bad=%d/%s", cfgTok(cfg), kind+mname, n, freq, badIdx, verdict),
				"header-first import: the verdict of InsertHeaderChain differs from the first header that breaks a rule or whose sampled seal fails", rep)
		}
	}
}

// headerChainKnownBad: a batch that overlaps the local chain (its first k headers are already stored, k in 1, 2, 5) with
// exactly one rule-violating header at EVERY later position — in particular within the last k positions — for every rule
// in turn and checkFreq 1, 2, 100, through BlockChain.InsertHeaderChain.  VerifyHeaders emits one result per header, known
// or not; ValidateHeaderChain must consume one per header.  Oracle: rejected at the bad header's index, the bad header is
// not stored and the head does not move past the last good header; model: validate_with_seals (one result per header).
func (e *env) headerChainKnownBad() {
	c := e.c
	type hmut struct {
		name string
		f    func(h, p *types.Header)
	}
	hmuts := []hmut{
		{"extra=33", func(h, p *types.Header) { h.Extra = make([]byte, 33) }},
		{"time=parent", func(h, p *types.Header) { h.Time = new(big.Int).Set(p.Time) }},
		{"diff+1", func(h, p *types.Header) { h.Difficulty = new(big.Int).Add(h.Difficulty, big.NewInt(1)) }},
		{"gaslimit=2^63", func(h, p *types.Header) { h.GasLimit = 1 << 63 }},
		{"gasused=limit+1", func(h, p *types.Header) { h.GasUsed = h.GasLimit + 1 }},
		{"gaslimit=parent+bound", func(h, p *types.Header) { h.GasLimit = p.GasLimit + p.GasLimit/1024 }},
		{"gaslimit=4999", func(h, p *types.Header) { h.GasLimit = 4999; h.GasUsed = 0 }},
		{"hi/number+2^64", func(h, p *types.Header) { hiBits[0].f(h) }},
		{"hi/diff+2^64", func(h, p *types.Header) { hiBits[6].f(h) }},
	}
	cfg := params.TestChainConfig
	const n = 8
	it := 0
	for _, known := range []int{1, 2, 5} {
		for badIdx := known; badIdx < n; badIdx++ {
			for _, freq := range []int{1, 2, 100} {
				inTail := badIdx >= n-known
				if !c.Thorough() && !inTail && (it+badIdx+freq)%3 != 0 {
					it++
					continue
				}
				mu := hmuts[it%len(hmuts)]
				it++
				var (
					verdict          string
					seals            []bool
					headers          []*types.Header
					genesisH         *types.Header
					stored           bool
					headNo           uint64
					headerInsertedOK = true
				)
				pan, pv := vh.CatchPanic(func() {
					db := aquadb.NewMemDatabase()
					gspec := &core.Genesis{Config: cfg, Difficulty: big.NewInt(46039386)}
					genesis := gspec.MustCommit(db)
					blocks, _ := core.GenerateChain(context.Background(), cfg, genesis, aquahash.NewFaker(), db, n, nil)
					for _, b := range blocks {
						headers = append(headers, b.Header())
					}
					db2 := aquadb.NewMemDatabase()
					gspec.MustCommit(db2)
					rec := &recEngine{Aquahash: aquahash.NewFaker()}
					bc, err := core.NewBlockChain(context.Background(), db2, nil, cfg, rec, vm.Config{})
					if err != nil {
						verdict = "setup " + err.Error()
						return
					}
					defer bc.Stop()
					genesisH = bc.GetHeaderByNumber(0)
					if _, err := bc.InsertHeaderChain(headers[:known], 1); err != nil {
						verdict = "setup prefix: " + err.Error()
						return
					}
					mu.f(headers[badIdx], headers[badIdx-1])
					headers[badIdx].Version = cfg.GetBlockVersion(headers[badIdx].Number)
					for j := badIdx + 1; j < n; j++ {
						headers[j].ParentHash = headers[j-1].Hash()
					}
					idx, err := bc.InsertHeaderChain(headers, freq)
					seals = rec.seals
					if err == nil {
						verdict = "ok"
					} else if strings.Contains(err.Error(), "non contiguous insert") {
						verdict = "noncontiguous"
					} else {
						verdict = fmt.Sprintf("%d %s", idx, classify(err))
					}
					stored = bc.GetHeaderByHash(headers[badIdx].Hash()) != nil
					headNo = bc.CurrentHeader().Number.Uint64()
					_ = headerInsertedOK
				})
				if pan {
					verdict = fmt.Sprintf("panic %v", pv)
				}
				c.Eval(fmt.Sprintf("headerchain-known%d/bad@%d/tail=%v", known, badIdx, inTail), "")
				rep := map[string]string{"config": cfgTok(cfg), "headers": fmt.Sprint(n), "known_prefix": fmt.Sprint(known), "bad_index": fmt.Sprint(badIdx), "rule_broken": mu.name,
					"checkFreq": fmt.Sprint(freq), "verdict": verdict, "bad_header_stored": fmt.Sprint(stored), "head_number_after": fmt.Sprint(headNo)}
				if pan || strings.HasPrefix(verdict, "setup") {
					c.Violate("headerchain-import/"+verdict, "header-first import failed unexpectedly", rep)
					continue
				}
				sb := ""
				for _, b := range seals {
					if b {
						sb += "1"
					} else {
						sb += "0"
					}
				}
				chainHs := append([]*types.Header{genesisH}, headers[:known]...)
				cas := fmt.Sprintf("vchain %s %d %s %s %s", cfgTok(cfg), time.Now().Unix(), hdrsTok(chainHs, noSeal), hdrsTok(headers, noSeal), sb)
				c.Correspond("InsertHeaderChain/ValidateHeaderChain~validate_with_seals", cas, verdict, e.m.Ask(cas))
				got := strings.SplitN(verdict, " ", 2)[0]
				if got != fmt.Sprint(badIdx) || stored || headNo > uint64(badIdx) {
					rep["expected"] = fmt.Sprintf("rejected at index %d; the bad header is not stored; head stays at or below #%d", badIdx, badIdx)
					c.Violate(fmt.Sprintf("headerchain-known-prefix-bad-header/known=%d/bad=%d/n=%d/freq=%d/%s/%s", known, badIdx, n, freq, mu.name, verdict),
						"header-first import of a batch overlapping the local chain: a rule-violating header after the known prefix is not rejected at its position (accepted / stored / becomes head)", rep)
				}
			}
		}
	}
}

// testnet3: calcDifficultyTestnet3 (export hook) on the lattice of its thresholds: block delta and grandparent delta
// (taken, as in the code, as grandparent - parent) at 9/10/11, 19/20/21, 99/100/101 and negative, difficulties 0, 999,
// 1000, 1001, odd/even, negative; nil grandparent.  Oracle: the four-case rule restated independently.
func (e *env) testnet3() {
	c := e.c
	cfg := params.Testnet3ChainConfig
	deltas := []int64{-50, -1, 0, 1, 9, 10, 11, 19, 20, 21, 22, 99, 100, 101, 102, 5000}
	diffs := []int64{0, 1, 999, 1000, 1001, 2001, 46039386, 46039387, -7}
	for _, d := range deltas {
		for _, gd := range deltas {
			pd := big.NewInt(diffs[c.Rng.Intn(len(diffs))])
			pt := int64(1000000)
			p := baseHeader(c.Rng, cfg, 50, pt, pd, common.Hash{1}, 5000000)
			gp := baseHeader(c.Rng, cfg, 49, pt+gd, big.NewInt(7), common.Hash{2}, 5000000)
			var given *types.Header = gp
			if c.Rng.Chance(8) {
				given = nil
			}
			t := uint64(pt + d)
			got := aquahash.VerifCalcDifficultyTestnet3(t, p, given)
			cas := fmt.Sprintf("testnet3 %d %s %s", t, hdrTok(p, 0), hdrTok(given, 0))
			c.Eval("difficulty/testnet3", fmt.Sprintf("t3/%d/%d/%s", d, gd, pd))
			c.Correspond("calcDifficultyTestnet3~calc_testnet3", cas, bigHex(got), e.m.Ask(cas))
			want := new(big.Int).Set(pd)
			if given != nil {
				switch {
				case d < 10 && gd < 10:
					want.Add(pd, big.NewInt(1000))
				case d > 20 && gd > 20:
					want.Sub(pd, big.NewInt(1000))
				case d > 100 && gd > 100:
					want.Quo(pd, big.NewInt(2))
				}
			}
			if want.Cmp(got) != 0 {
				c.Violate("testnet3-rule/"+cas, "calcDifficultyTestnet3 differs from its four-case rule", map[string]string{"case": cas, "got": got.String(), "want": want.String()})
			}
		}
	}
}

// ---------------------------------------------------------------- state-dependent short cuts: "already known"

// knownTwins: VerifyHeader / verifyHeaderWorker / VerifyHeaders return nil for a header the chain already has.  Histories in
// which the chain reader already holds, at the submitted header's height, the canonical block B and a side-chain block B';
// submitted: the identical header (must short-circuit) and near-twins of B and of B' that differ ONLY in the nonce, ONLY in the
// mix digest, only in the extra data, only in the time (re-sealed, i.e. difficulty recomputed, or not) — with an engine whose
// VerifySeal fails at that height, seal checking on.  Oracle: unless the header is byte-identical to a stored one, its verdict
// equals the verdict against a chain reader that holds only the ancestors (what is stored at the height must not matter).
func (e *env) knownTwins() {
	c := e.c
	now := time.Now().Unix()
	for ci, nc := range builtin {
		cfg := nc.cfg
		number := int64(40 + 11*ci)
		if nc.name == "mainnet" {
			number = 40300
		}
		base, seg := buildChain(c.Rng, cfg, number, 1, now)
		gp, p, B := base[0], base[1], seg[0]
		side := child(c.Rng, cfg, p, gp, 77)
		store, fresh := newChain(cfg), newChain(cfg)
		for _, h := range []*types.Header{gp, p} {
			store.addHeader(h)
			fresh.addHeader(h)
		}
		store.addHeader(B) // canonical at `number`
		store.addHeader(side)
		eng := aquahash.NewFakeFailer(uint64(number))
		seal := func(h *types.Header) int {
			if h.Number.Uint64() == uint64(number) {
				return 1
			}
			return 0
		}
		type variant struct {
			name string
			f    func(h *types.Header)
		}
		variants := []variant{
			{"identical", func(h *types.Header) {}},
			{"nonce-only", func(h *types.Header) { h.Nonce = types.EncodeNonce(h.Nonce.Uint64() + 1 + c.Rng.Uint64()%1000) }},
			{"mix-only", func(h *types.Header) { h.MixDigest[c.Rng.Intn(32)] ^= 0x40 }},
			{"nonce+mix", func(h *types.Header) { h.Nonce = types.EncodeNonce(c.Rng.Uint64() | 1); h.MixDigest[0] ^= 1 }},
			{"extra-only", func(h *types.Header) { h.Extra = append([]byte("twin"), byte(c.Rng.Intn(256))) }},
			{"time-only", func(h *types.Header) { h.Time = new(big.Int).Add(h.Time, big.NewInt(1)) }},
			{"time-resealed", func(h *types.Header) {
				h.Time = new(big.Int).Add(h.Time, big.NewInt(1))
				if d, pn := specDifficulty(cfg, h.Time, p, gp); !pn {
					h.Difficulty = d
				}
			}},
		}
		for _, of := range []struct {
			name string
			h    *types.Header
		}{{"canonical", B}, {"side", side}} {
			for _, va := range variants {
				tw := types.CopyHeader(of.h)
				va.f(tw)
				identical := tw.Hash() == of.h.Hash()
				class := fmt.Sprintf("known/%s/%s", of.name, va.name)
				run := func(ch *fakeChain) string {
					var err error
					if pan, _ := vh.CatchPanic(func() { err = eng.VerifyHeader(ch, tw, true) }); pan {
						return "panic"
					}
					return classify(err)
				}
				got, want := run(store), run(fresh)
				cas := fmt.Sprintf("vtop %s %d %s %s 1", cfgTok(cfg), time.Now().Unix(), hdrsTok(store.order, seal), hdrTok(tw, seal(tw)))
				key := ""
				if got == "ok" {
					key = class + "/" + nc.name
				}
				c.Eval(class, key)
				c.Correspond("VerifyHeader(known twin)~verify_header_top", cas, got, e.m.Ask(cas))
				rep := map[string]string{"config": cfgTok(cfg), "entry": "VerifyHeader", "twin_of": of.name, "differs_in": va.name, "stored_at_height": hdrsTok([]*types.Header{B, side}, seal),
					"submitted": hdrTok(tw, seal(tw)), "verdict_with_store": got, "verdict_with_ancestors_only": want}
				if identical {
					if got != "ok" {
						c.Violate(fmt.Sprintf("known-header-not-short-circuited/%s/%s/%s", nc.name, of.name, got), "a header byte-identical to a stored one is not accepted as known", rep)
					}
				} else if got != want {
					c.Violate(fmt.Sprintf("known-shortcut-twin/VerifyHeader/%s/%s/%s/%s", of.name, va.name, nc.name, got),
						"the verdict for a header that is NOT stored depends on what is stored at its height (a near-twin of a known block is treated as known: no rule / seal check)", rep)
				}
				// the batch entry points: the twin alone and followed by a child (in-batch parent); every worker synchronously
				kid := child(c.Rng, cfg, tw, p, 100)
				for _, batch := range [][]*types.Header{{tw}, {tw, kid}} {
					seals := make([]bool, len(batch))
					for i := range seals {
						seals[i] = true
					}
					for i := range batch {
						w := func(ch *fakeChain) string {
							var err error
							if pan, _ := vh.CatchPanic(func() { err = eng.VerifVerifyHeaderWorker(ch, batch, seals, i) }); pan {
								return "panic"
							}
							return classify(err)
						}
						g, f := w(store), w(fresh)
						if !identical && g != f {
							rep2 := map[string]string{"config": cfgTok(cfg), "entry": fmt.Sprintf("verifyHeaderWorker index %d of %d", i, len(batch)), "twin_of": of.name, "differs_in": va.name,
								"submitted": hdrsTok(batch, seal), "verdict_with_store": g, "verdict_with_ancestors_only": f}
							c.Violate(fmt.Sprintf("known-shortcut-twin/VerifyHeaders/%s/%s/%s/%d-of-%d/%s", of.name, va.name, nc.name, i, len(batch), g),
								"a batch worker's verdict for a header that is NOT stored depends on what is stored at its height", rep2)
						}
					}
					e.checkBatch(class+fmt.Sprintf("/batch%d", len(batch)), nc.name, store, batch, seals, eng, uint64(number))
				}
			}
		}
	}
}

// insertHeaderTwin: the same through a real core.BlockChain: a canonical header chain is imported, then near-twins of one of
// its headers are submitted alone through InsertHeaderChain with every seal checked by an engine whose VerifySeal fails at
// that height.  Oracle: the verdict equals that of a second chain which only has the ancestors; a rejected twin is not stored.
func (e *env) insertHeaderTwin() {
	c := e.c
	cfg := params.TestChainConfig
	const n, k = 6, 3 // headers 1..6; twins of header #3
	type variant struct {
		name string
		f    func(h *types.Header)
	}
	for _, va := range []variant{
		{"identical", func(h *types.Header) {}},
		{"nonce-only", func(h *types.Header) { h.Nonce = types.EncodeNonce(7 + c.Rng.Uint64()%1000) }},
		{"mix-only", func(h *types.Header) { h.MixDigest[3] ^= 0x10 }},
		{"extra-only", func(h *types.Header) { h.Extra = []byte("twin") }},
	} {
		var got, want string
		var stored bool
		var headers []*types.Header
		var tw, genesisH *types.Header
		pan, pv := vh.CatchPanic(func() {
			db := aquadb.NewMemDatabase()
			gspec := &core.Genesis{Config: cfg, Difficulty: big.NewInt(46039386)}
			genesis := gspec.MustCommit(db)
			blocks, _ := core.GenerateChain(context.Background(), cfg, genesis, aquahash.NewFaker(), db, n, nil)
			for _, b := range blocks {
				headers = append(headers, b.Header())
			}
			tw = types.CopyHeader(headers[k-1])
			va.f(tw)
			verdict := func(prefix int) (string, bool) {
				db2 := aquadb.NewMemDatabase()
				gspec.MustCommit(db2)
				bc, err := core.NewBlockChain(context.Background(), db2, nil, cfg, aquahash.NewFakeFailer(k), vm.Config{})
				if err != nil {
					return "setup " + err.Error(), false
				}
				defer bc.Stop()
				genesisH = bc.GetHeaderByNumber(0)
				if _, err := bc.InsertHeaderChain(headers[:prefix], 100); err != nil { // only the last header's seal is sampled
					return "setup prefix: " + err.Error(), false
				}
				idx, err := bc.InsertHeaderChain([]*types.Header{tw}, 1)
				v := "ok"
				if err != nil {
					v = fmt.Sprintf("%d %s", idx, classify(err))
				}
				return v, bc.GetHeaderByHash(tw.Hash()) != nil
			}
			got, stored = verdict(n)
			want, _ = verdict(k - 1)
		})
		if pan {
			got = fmt.Sprintf("panic %v", pv)
		}
		identical := va.name == "identical"
		c.Eval("known/insertheaderchain/"+va.name, "")
		rep := map[string]string{"config": cfgTok(cfg), "entry": "BlockChain.InsertHeaderChain", "twin_of_canonical_header": fmt.Sprint(k), "differs_in": va.name,
			"verdict_with_canonical_chain": got, "verdict_with_ancestors_only": want, "twin_stored": fmt.Sprint(stored)}
		if pan || strings.HasPrefix(got, "setup") || strings.HasPrefix(want, "setup") {
			c.Violate("headerchain-import/"+got+"/"+want, "header-first import failed unexpectedly", rep)
			continue
		}
		seal := func(h *types.Header) int {
			if h.Number.Uint64() == k {
				return 1
			}
			return 0
		}
		chainHs := append([]*types.Header{genesisH}, headers...)
		cas := fmt.Sprintf("vchain %s %d %s %s 1", cfgTok(cfg), time.Now().Unix(), hdrsTok(chainHs, seal), hdrTok(tw, 1))
		c.Correspond("InsertHeaderChain(known twin)~validate_with_seals", cas, got, e.m.Ask(cas))
		if identical {
			if got != "ok" {
				c.Violate("known-header-not-short-circuited/insertheaderchain/"+got, "re-importing a stored header is rejected", rep)
			}
		} else if got != want || (got != "ok" && stored) {
			c.Violate(fmt.Sprintf("known-shortcut-twin/InsertHeaderChain/%s/%s", va.name, got),
				"header-first import of a near-twin of a canonical header: the verdict depends on the canonical header being stored (no rule / seal check), or a rejected twin is stored", rep)
		}
	}
}

// insertChainUncleCommitment: the header commits to its uncle list (UncleHash).  Real chains (GenerateChain) whose block #4
// is re-bodied: the committed list (accepted), another valid uncle instead of the committed one, an uncle although the header
// commits to none, no uncle although the header commits to one — each must be rejected at #4 by InsertChain.
func (e *env) insertChainUncleCommitment() {
	c := e.c
	cfg := params.TestChainConfig
	for _, kind := range []string{"committed", "other-uncle", "uncle-but-commits-to-none", "none-but-commits-to-one"} {
		var verdict string
		pan, pv := vh.CatchPanic(func() {
			db := aquadb.NewMemDatabase()
			gspec := &core.Genesis{Config: cfg, Difficulty: big.NewInt(46039386)}
			genesis := gspec.MustCommit(db)
			var other *types.Header
			chain, _ := core.GenerateChain(context.Background(), cfg, genesis, aquahash.NewFaker(), db, 4, func(i int, gen *core.BlockGen) {
				if i == 3 {
					u := gen.PrevBlock(2).Header()
					u.Extra = []byte("uncle-a")
					other = gen.PrevBlock(2).Header()
					other.Extra = []byte("uncle-b")
					if kind != "uncle-but-commits-to-none" {
						gen.AddUncle(u)
					}
				}
			})
			switch kind {
			case "other-uncle", "uncle-but-commits-to-none":
				chain[3] = chain[3].WithBody(nil, []*types.Header{other})
			case "none-but-commits-to-one":
				chain[3] = chain[3].WithBody(nil, nil)
			}
			db2 := aquadb.NewMemDatabase()
			gspec.MustCommit(db2)
			bc, err := core.NewBlockChain(context.Background(), db2, nil, cfg, aquahash.NewFaker(), vm.Config{})
			if err != nil {
				verdict = "setup " + err.Error()
				return
			}
			defer bc.Stop()
			if idx, err := bc.InsertChain(chain); err != nil {
				verdict = fmt.Sprintf("rejected at #%d", chain[idx].NumberU64())
			} else {
				verdict = "ok"
			}
		})
		if pan {
			verdict = fmt.Sprintf("panic %v", pv)
		}
		want := "rejected at #4"
		if kind == "committed" {
			want = "ok"
		}
		c.Eval("insertchain-uncle-commitment/"+kind, "")
		if verdict != want {
			c.Violate(fmt.Sprintf("insertchain-uncle-commitment/%s/%s", kind, verdict), "InsertChain of a block whose body's uncle list is not the one its header commits to",
				map[string]string{"config": cfgTok(cfg), "kind": kind, "verdict": verdict, "expected": want})
		}
	}
}

// ---------------------------------------------------------------- 1. CalcDifficulty lattice

// monotone: the defined forks are scheduled in increasing order of their index
func monotone(cfg *params.ChainConfig) bool {
	var last *big.Int
	for k := 1; k <= 10; k++ {
		if v := cfg.HF[k]; v != nil {
			if last != nil && v.Cmp(last) < 0 {
				return false
			}
			last = v
		}
	}
	return true
}

// checkDifficulty: CalcDifficulty on one point against the model, the fork table and the minimum
func (e *env) checkDifficulty(name string, cfg *params.ChainConfig, t uint64, p, gp *types.Header) {
	c := e.c
	ct := cfgTok(cfg)
	next := p.Number.Int64() + 1
	var got *big.Int
	obs := ""
	pan, pv := vh.CatchPanic(func() { got = aquahash.CalcDifficulty(cfg, t, p, gp) })
	if pan {
		obs = "panic"
	} else {
		obs = "ok " + bigHex(got)
	}
	cas := fmt.Sprintf("calcdiff %s %d %s %s", ct, t, hdrTok(p, 0), hdrTok(gp, 0))
	key := ""
	if !pan {
		key = fmt.Sprintf("%s/%d/%s/%d", name, next, p.Difficulty, int64(t)-p.Time.Int64())
	}
	c.Eval("difficulty/"+name, key)
	c.Correspond("CalcDifficulty~calc_difficulty", cas, obs, e.m.Ask(cas))
	// direct oracle: the table specification
	want, wp, algo := specDifficultyAlgo(cfg, new(big.Int).SetUint64(t), p, gp)
	nx := big.NewInt(next)
	switch {
	case pan && wp && fmt.Sprint(pv) == "invalid code" && active(cfg, 10, nx) && gp != nil && p.Time.Cmp(gp.Time) <= 0:
		c.Violate("calcdifficulty-grandparent-panic", "CalcDifficulty (HF10 grandparent algorithm) panics (\"invalid code\") when parent.Time <= grandparent.Time",
			map[string]string{"case": cas})
		return
	case pan:
		c.Violate("calcdifficulty-panic/"+cas, fmt.Sprintf("CalcDifficulty panics: %v", pv), map[string]string{"case": cas})
		return
	case wp || want.Cmp(got) != 0:
		c.Violate("difficulty-spec/"+cas, "CalcDifficulty differs from the fork table", map[string]string{"case": cas, "got": got.String(), "want": fmt.Sprint(want)})
		return
	}
	// size of one step (independent of the table): simple rule within parent/divisor, homestead rules within +parent/2048, -99*(parent/2048)
	if p.Difficulty.Sign() >= 0 && int64(t) >= p.Time.Int64() && (algo == "simple" || algo == "homestead") {
		div := int64(2048)
		if algo == "simple" {
			if active(cfg, 5, nx) {
				div = 16
			}
			if active(cfg, 6, nx) {
				div = 128
			}
			if active(cfg, 8, nx) {
				div = 1024
			}
		}
		q := new(big.Int).Div(p.Difficulty, big.NewInt(div))
		down := new(big.Int).Set(q)
		if algo == "homestead" {
			down.Mul(q, big.NewInt(99))
		}
		lo, hi := new(big.Int).Sub(p.Difficulty, down), new(big.Int).Add(p.Difficulty, q)
		if got.Cmp(lo) < 0 || (got.Cmp(hi) > 0 && got.Cmp(big.NewInt(30959185800)) > 0) {
			c.Violate("difficulty-step-bound/"+cas, "one block moves the difficulty by more than the rule's bound", map[string]string{"case": cas, "got": got.String(), "lower": lo.String(), "upper": hi.String(), "rule": algo})
			return
		}
	}
	// never below the active minimum (the minimum of the highest of HF1/HF3/HF5 active at the block)
	if p.Difficulty.Sign() < 0 {
		return
	}
	am := int64(99999999)
	if active(cfg, 1, nx) {
		am = 100001792
	}
	if active(cfg, 3, nx) {
		am = 30959185800
	}
	if active(cfg, 5, nx) {
		am = 46039386
	}
	if got.Cmp(big.NewInt(am)) >= 0 {
		return
	}
	c.Count("below-active-minimum/" + algo)
	rep := map[string]string{"config": name, "case": cas, "got": got.String(), "minimum": fmt.Sprint(am), "rule": algo}
	switch algo {
	case "simple":
		c.Violate("difficulty-below-minimum/"+cas, "difficulty below the active minimum under the simple algorithm", rep)
	case "reset":
		if monotone(cfg) {
			c.Violate("difficulty-below-minimum/"+cas, "fork-block reset below the active minimum on an ordered schedule", rep)
		}
	case "grandparent":
		if gp != nil && active(cfg, 5, nx) {
			c.Violate("difficulty-below-minimum/"+cas, "difficulty below the active minimum under the grandparent algorithm", rep)
		}
	case "homestead":
		// reached only when HF2 is not active at the block
		if active(cfg, 3, nx) || active(cfg, 5, nx) {
			c.Violate("difficulty-below-active-minimum-no-hf2", "fork map activates HF3/HF5 without HF2 (built-in testnet2/testnet3): calcDifficultyHFX falls through to calcDifficultyStarting/HF1, which ignore the minimum selected for the active fork",
				rep)
		} else if cfg.ChainId.Uint64() == mainnetID {
			c.Violate("difficulty-below-minimum/"+cas, "difficulty below the genesis/HF1 minimum on the mainnet chain id", rep)
		}
		// other chain ids before HF2/HF3/HF5: "testnet no minimum" is the documented rule
	}
}

func (e *env) difficultyLattice() {
	c := e.c
	for _, nc := range allConfigs(c.Rng) {
		cfg := nc.cfg
		for _, next := range heightsOf(cfg, c.Rng) {
			mins := []int64{99999999, 100001792, 30959185800, 46039386}
			diffs := []*big.Int{big.NewInt(0), big.NewInt(1), big.NewInt(2047), big.NewInt(2048), big.NewInt(131072),
				new(big.Int).Lsh(big.NewInt(1), 70), new(big.Int).SetUint64(c.Rng.Uint64())}
			for _, m := range mins {
				diffs = append(diffs, big.NewInt(m-1), big.NewInt(m), big.NewInt(m+1), big.NewInt(m+m/16), big.NewInt(m+m/1024+1))
			}
			deltas := []int64{1, 2, 9, 10, 11, 19, 20, 179, 180, 181, 239, 240, 241, 989, 990, 991, 1000, 1001, 10000, 0, -5}
			nd := c.Scale(7, len(diffs))
			for k := 0; k < nd; k++ {
				pd := diffs[c.Rng.Intn(len(diffs))]
				if c.Thorough() {
					pd = diffs[k]
				}
				for _, dt := range deltas {
					if !c.Thorough() && c.Rng.Chance(50) {
						continue
					}
					pt := int64(1000000 + c.Rng.Intn(1000000))
					p := baseHeader(c.Rng, cfg, next-1, pt, pd, common.Hash{1}, 5000000)
					var gp *types.Header
					if next >= 2 && c.Rng.Chance(70) {
						gdt := []int64{1, 239, 240, 241, 479, 480, 24000, 0, -3}[c.Rng.Intn(9)]
						gp = baseHeader(c.Rng, cfg, next-2, pt-gdt, diffs[c.Rng.Intn(len(diffs))], common.Hash{2}, 5000000)
					}
					e.checkDifficulty(nc.name, cfg, uint64(pt+dt), p, gp)
				}
			}
		}
	}
}

// ---------------------------------------------------------------- 2. single header rules at their bounds

type mut struct {
	name string
	f    func(h, p *types.Header, now int64)
}

func muts(r *vh.RNG) []mut {
	bump := func(h *types.Header, d int64) { h.Difficulty = new(big.Int).Add(h.Difficulty, big.NewInt(d)) }
	return []mut{
		{"valid", func(h, p *types.Header, now int64) {}},
		{"extra=32", func(h, p *types.Header, now int64) { h.Extra = r.Bytes(32) }},
		{"extra=33", func(h, p *types.Header, now int64) { h.Extra = r.Bytes(33) }},
		{"extra=0", func(h, p *types.Header, now int64) { h.Extra = nil }},
		{"time=parent", func(h, p *types.Header, now int64) { h.Time = new(big.Int).Set(p.Time) }},
		{"time=parent-1", func(h, p *types.Header, now int64) { h.Time = new(big.Int).Sub(p.Time, big.NewInt(1)) }},
		{"time=parent+1", func(h, p *types.Header, now int64) { h.Time = new(big.Int).Add(p.Time, big.NewInt(1)) }},
		{"time=now+14", func(h, p *types.Header, now int64) { h.Time = big.NewInt(now + 14) }},
		{"time=now+15", func(h, p *types.Header, now int64) { h.Time = big.NewInt(now + 15) }},
		{"time=now+16", func(h, p *types.Header, now int64) { h.Time = big.NewInt(now + 16) }},
		{"time=now+1000", func(h, p *types.Header, now int64) { h.Time = big.NewInt(now + 1000) }},
		{"time=2^64+k", func(h, p *types.Header, now int64) {
			h.Time = new(big.Int).Add(new(big.Int).Lsh(big.NewInt(1), 64), new(big.Int).Add(p.Time, big.NewInt(int64(1+r.Intn(400)))))
		}},
		{"time=2^256-1", func(h, p *types.Header, now int64) {
			h.Time = new(big.Int).Sub(new(big.Int).Lsh(big.NewInt(1), 256), big.NewInt(1))
		}},
		{"time=2^256", func(h, p *types.Header, now int64) { h.Time = new(big.Int).Lsh(big.NewInt(1), 256) }},
		{"diff+1", func(h, p *types.Header, now int64) { bump(h, 1) }},
		{"diff-1", func(h, p *types.Header, now int64) { bump(h, -1) }},
		{"diff=parent", func(h, p *types.Header, now int64) { h.Difficulty = new(big.Int).Set(p.Difficulty) }},
		{"diff=0", func(h, p *types.Header, now int64) { h.Difficulty = new(big.Int) }},
		{"gaslimit=2^63-1", func(h, p *types.Header, now int64) { h.GasLimit = 1<<63 - 1 }},
		{"gaslimit=2^63", func(h, p *types.Header, now int64) { h.GasLimit = 1 << 63 }},
		{"gaslimit=2^64-1", func(h, p *types.Header, now int64) { h.GasLimit = ^uint64(0) }},
		{"gasused=limit", func(h, p *types.Header, now int64) { h.GasUsed = h.GasLimit }},
		{"gasused=limit+1", func(h, p *types.Header, now int64) { h.GasUsed = h.GasLimit + 1 }},
		{"gaslimit=parent+bound-1", func(h, p *types.Header, now int64) { h.GasLimit = p.GasLimit + p.GasLimit/1024 - 1; h.GasUsed = 0 }},
		{"gaslimit=parent+bound", func(h, p *types.Header, now int64) { h.GasLimit = p.GasLimit + p.GasLimit/1024; h.GasUsed = 0 }},
		{"gaslimit=parent-bound+1", func(h, p *types.Header, now int64) { h.GasLimit = p.GasLimit - p.GasLimit/1024 + 1; h.GasUsed = 0 }},
		{"gaslimit=parent-bound", func(h, p *types.Header, now int64) { h.GasLimit = p.GasLimit - p.GasLimit/1024; h.GasUsed = 0 }},
		{"gaslimit=4999", func(h, p *types.Header, now int64) { h.GasLimit = 4999; h.GasUsed = 0 }},
		{"gaslimit=5000", func(h, p *types.Header, now int64) { h.GasLimit = 5000; h.GasUsed = 0 }},
		{"number=parent", func(h, p *types.Header, now int64) { h.Number = new(big.Int).Set(p.Number) }},
		{"number=parent+2", func(h, p *types.Header, now int64) { h.Number = new(big.Int).Add(p.Number, big.NewInt(2)) }},
		{"hi/number+2^64", func(h, p *types.Header, now int64) { hiBits[0].f(h) }},
		{"hi/number+2^191*2^64", func(h, p *types.Header, now int64) { hiBits[3].f(h) }},
		{"hi/time+2^64", func(h, p *types.Header, now int64) { hiBits[4].f(h) }},
		{"hi/diff+2^64", func(h, p *types.Header, now int64) { hiBits[6].f(h) }},
	}
}

// checkHeader runs verifyHeader (through the export hook) on (h,p,gp), compares with the model and
// evaluates the property's rules on the verdict.
func (e *env) checkHeader(class string, ch *fakeChain, h, p, gp *types.Header, uncle bool) {
	c := e.c
	var obs string
	var now int64
	for try := 0; try < 5; try++ {
		now = time.Now().Unix()
		var err error
		pan, _ := vh.CatchPanic(func() { err = e.eng.VerifVerifyHeader(ch, h, p, gp, uncle, true) })
		if pan {
			obs = "panic"
		} else {
			obs = classify(err)
		}
		if time.Now().Unix() == now {
			break
		}
	}
	u := "0"
	if uncle {
		u = "1"
	}
	cas := fmt.Sprintf("vh %s %d %s %s %s %s %s 1", cfgTok(ch.cfg), now, hdrsTok(ch.order, noSeal), hdrTok(h, 0), hdrTok(p, 0), hdrTok(gp, 0), u)
	key := ""
	if obs == "ok" {
		key = h.Hash().Hex()
	}
	c.Eval(class, key)
	c.Count("verdict/" + strings.SplitN(obs, ":", 2)[0])
	c.Correspond("verifyHeader~verify_header", cas, obs, e.m.Ask(cas))
	if p == nil || obs == "panic" {
		return
	}
	// direct oracle: accepted iff the rules of the property statement hold
	egp := gp
	if egp == nil && p.Number.Sign() != 0 {
		egp = ch.GetHeader(p.ParentHash, p.Number.Uint64()-1)
	}
	fail := rulesOK(ch.cfg, now, h, p, egp)
	accepted := obs == "ok"
	if accepted != (fail == "") {
		rep := map[string]string{"case": cas, "observed": obs, "rules_ok_fails_at": fail, "uncle": u}
		if accepted {
			if sig, what := classifyAcceptedInvalid(ch.cfg, fail, h, p, egp, uncle); sig != "" {
				c.Violate(sig, what, rep)
				return
			}
		}
		c.Violate("header-rules/"+cas, "verdict of verifyHeader differs from the rules of the property statement", rep)
	}
}

func (e *env) headerRules() {
	c := e.c
	ms := muts(c.Rng)
	for _, nc := range allConfigs(c.Rng) {
		cfg := nc.cfg
		hs := heightsOf(cfg, c.Rng)
		for _, number := range hs {
			if !c.Thorough() && len(hs) > 12 && c.Rng.Chance(50) {
				continue
			}
			if number < 2 {
				continue
			}
			now := time.Now().Unix()
			pgl := []uint64{5000, 5001, 1024 * 5, 4712388, 8000000, 1 << 40, 1<<63 - 1}[c.Rng.Intn(7)]
			var gp *types.Header
			gp = baseHeader(c.Rng, cfg, number-2, now-5000, big.NewInt(46039386+int64(c.Rng.Intn(1<<30))), common.Hash{7}, pgl)
			p := child(c.Rng, cfg, gp, nil, []int64{1, 100, 239, 240, 300}[c.Rng.Intn(5)])
			p.GasLimit, p.GasUsed = pgl, 0
			p.Difficulty = []*big.Int{p.Difficulty, big.NewInt(46039386), big.NewInt(46039387), new(big.Int).Lsh(big.NewInt(1), 60)}[c.Rng.Intn(4)]
			ch := newChain(cfg)
			ch.addHeader(gp)
			ch.addHeader(p)
			for _, mu := range ms {
				if !c.Thorough() && mu.name != "valid" && c.Rng.Chance(55) {
					continue
				}
				for _, uncle := range []bool{false, true} {
					dt := []int64{1, 9, 10, 179, 180, 239, 240, 241, 1000}[c.Rng.Intn(9)]
					h := child(c.Rng, cfg, p, gp, dt)
					mu.f(h, p, time.Now().Unix())
					if strings.HasPrefix(mu.name, "time=") {
						// keep the header otherwise valid: difficulty follows the (full) timestamp
						if d, pn := specDifficulty(cfg, h.Time, p, gp); !pn {
							h.Difficulty = d
						}
					}
					given := gp
					if c.Rng.Chance(30) {
						given = nil // the engine looks the grandparent up itself
					}
					e.checkHeader("header/"+mu.name+map[bool]string{false: "", true: "/uncle"}[uncle], ch, h, p, given, uncle)
				}
			}
		}
	}
	// nil parent: Go dereferences parent.Time
	cfg := params.TestChainConfig
	h := baseHeader(c.Rng, cfg, 9, time.Now().Unix()-50, big.NewInt(46039386), common.Hash{9}, 5000000)
	e.checkHeader("header/nil-parent", newChain(cfg), h, nil, nil, false)
	h2 := baseHeader(c.Rng, cfg, 9, time.Now().Unix()-50, big.NewInt(46039386), common.Hash{9}, 5000000)
	h2.Extra = make([]byte, 40)
	e.checkHeader("header/nil-parent-extra", newChain(cfg), h2, nil, nil, false)
	// parent gas limit above 2^63: int64 wrap-around in the gas-limit distance
	for _, pgl := range []uint64{1 << 63, 1<<63 + 5000, ^uint64(0), ^uint64(0) - (1 << 53), ^uint64(0) - (1 << 54) - 7} {
		for _, hgl := range []uint64{5000, 1 << 53, 1<<54 - 9, 1<<63 - 1, 1<<63 - 1 - (1 << 52)} {
			now := time.Now().Unix()
			p := baseHeader(c.Rng, cfg, 20, now-500, big.NewInt(46039386), common.Hash{3}, pgl)
			ch := newChain(cfg)
			ch.addHeader(p)
			h := child(c.Rng, cfg, p, nil, 100)
			h.GasLimit, h.GasUsed = hgl, 0
			c.Count("parent-gaslimit>=2^63")
			e.checkHeader("header/parent-gaslimit>=2^63", ch, h, p, nil, false)
		}
	}
}

// ---------------------------------------------------------------- 3. VerifyHeader / VerifyHeaders (batch vs sequential)

// buildChain: a valid chain segment of n headers on top of a random base at height start-1
func buildChain(r *vh.RNG, cfg *params.ChainConfig, start int64, n int, now int64) (base []*types.Header, seg []*types.Header) {
	t0 := now - 100000
	var gp, p *types.Header
	if start >= 2 {
		gp = baseHeader(r, cfg, start-2, t0, big.NewInt(46039386+int64(r.Intn(1<<20))), common.Hash{5}, 4712388)
		p = child(r, cfg, gp, nil, 100)
		base = []*types.Header{gp, p}
	} else {
		p = baseHeader(r, cfg, start-1, t0, big.NewInt(99999999), common.Hash{}, 4712388) // genesis
		base = []*types.Header{p}
	}
	for i := 0; i < n; i++ {
		dt := []int64{1, 5, 100, 200, 239, 240, 241, 500}[r.Intn(8)]
		h := child(r, cfg, p, gp, dt)
		seg = append(seg, h)
		gp, p = p, h
	}
	return
}

func (e *env) batches() {
	c := e.c
	cfgs := allConfigs(c.Rng)
	nb := c.Scale(60, 600)
	for it := 0; it < nb; it++ {
		nc := cfgs[c.Rng.Intn(len(cfgs))]
		cfg := nc.cfg
		hs := heightsOf(cfg, c.Rng)
		start := hs[c.Rng.Intn(len(hs))]
		if c.Rng.Chance(15) {
			start = 1
		}
		n := 1 + c.Rng.Intn(64)
		if c.Rng.Chance(40) {
			n = 1 + c.Rng.Intn(6)
		}
		now := time.Now().Unix()
		// corrupt: nothing / one header / two headers / link
		kind := []string{"valid", "one-bad", "two-bad", "known-prefix", "seal-fail", "unknown-parent", "no-grandparent", "from-genesis", "from-genesis-broken-link"}[c.Rng.Intn(9)]
		if strings.HasPrefix(kind, "from-genesis") {
			start = 1
			if n > 8 {
				n = 2 + c.Rng.Intn(6)
			}
		}
		base, seg := buildChain(c.Rng, cfg, start, n, now)
		ms := muts(c.Rng)
		bad := func() {
			i := c.Rng.Intn(len(seg))
			var p *types.Header
			if i == 0 {
				p = base[len(base)-1]
			} else {
				p = seg[i-1]
			}
			mu := ms[1+c.Rng.Intn(len(ms)-1)]
			if strings.HasPrefix(mu.name, "number") {
				return // changes the hash link structure handled below
			}
			mu.f(seg[i], p, now)
			// re-link the descendants (hash changed)
			for j := i + 1; j < len(seg); j++ {
				seg[j].ParentHash = seg[j-1].Hash()
			}
		}
		eng := e.eng
		failNo := uint64(0)
		switch kind {
		case "one-bad":
			bad()
		case "two-bad":
			bad()
			bad()
		case "seal-fail":
			failNo = seg[c.Rng.Intn(len(seg))].Number.Uint64()
			eng = aquahash.NewFakeFailer(failNo)
		}
		ch := newChain(cfg)
		for _, b := range base {
			ch.addHeader(b)
		}
		switch kind {
		case "from-genesis": // the batch itself starts with the number-0 header; sometimes it is not known to the chain
			seg = append([]*types.Header{base[0]}, seg...)
			if c.Rng.Bool() {
				ch = newChain(cfg)
			}
		case "from-genesis-broken-link":
			seg = append([]*types.Header{base[0]}, seg...)
			if len(seg) >= 3 {
				i := 2 + c.Rng.Intn(len(seg)-2)
				copy(seg[i].ParentHash[:], c.Rng.Bytes(32))
				for j := i + 1; j < len(seg); j++ {
					seg[j].ParentHash = seg[j-1].Hash()
				}
			}
		case "known-prefix":
			for i := 0; i < c.Rng.Intn(len(seg)+1); i++ {
				ch.addHeader(seg[i])
			}
		case "unknown-parent":
			ch = newChain(cfg)
			if len(base) > 1 && c.Rng.Bool() {
				ch.addHeader(base[0])
			}
		case "no-grandparent":
			ch = newChain(cfg)
			ch.addHeader(base[len(base)-1])
		}
		seals := make([]bool, len(seg))
		for i := range seals {
			seals[i] = c.Rng.Chance(50)
		}
		e.checkBatch(kind, nc.name, ch, seg, seals, eng, failNo)
	}
}

// workerParents: the parent / grandparent verifyHeaderWorker will use for index i (nil when it finds none)
func workerParents(ch *fakeChain, seg []*types.Header, i int) (p, gp *types.Header) {
	n0 := seg[0].Number.Uint64()
	switch {
	case i == 0:
		p = ch.GetHeader(seg[0].ParentHash, n0-1)
		if n0 > 2 && p != nil {
			gp = ch.GetHeader(p.ParentHash, n0-2)
		}
	case i == 1:
		p = seg[0]
		if n0 > 1 {
			gp = ch.GetHeader(p.ParentHash, n0-1)
		}
	default:
		if seg[i-1].Hash() == seg[i].ParentHash {
			p, gp = seg[i-1], seg[i-2]
		}
	}
	return
}

// checkBatch: one batch through every worker (synchronously), the concurrent VerifyHeaders under GOMAXPROCS 1/2/16,
// the collector model under random schedules, and one-by-one VerifyHeader.
func (e *env) checkBatch(kind, cfgName string, ch *fakeChain, seg []*types.Header, seals []bool, eng *aquahash.Aquahash, failNo uint64) {
	// every verdict in a batch is relative to the wall clock (future-block rule): the whole observation is repeated
	// when the second ticks over while it runs, and only a stable observation is recorded
	for try := 0; ; try++ {
		var acts []func()
		rec := recorder{
			corr:  func(n, cas, o, m string) { acts = append(acts, func() { e.c.Correspond(n, cas, o, m) }) },
			viol:  func(sig, what string, rep interface{}) { acts = append(acts, func() { e.c.Violate(sig, what, rep) }) },
			eval:  func(cl, key string) { acts = append(acts, func() { e.c.Eval(cl, key) }) },
			count: func(cl string) { acts = append(acts, func() { e.c.Count(cl) }) },
		}
		start := time.Now().Unix()
		e.checkBatchOnce(rec, kind, cfgName, ch, seg, seals, eng, failNo)
		if time.Now().Unix() == start || try >= 6 {
			for _, a := range acts {
				a()
			}
			return
		}
	}
}

type recorder struct {
	corr  func(name, cas, observed, model string)
	viol  func(sig, what string, rep interface{})
	eval  func(class, key string)
	count func(class string)
}

func (e *env) checkBatchOnce(c recorder, kind, cfgName string, ch *fakeChain, seg []*types.Header, seals []bool, eng *aquahash.Aquahash, failNo uint64) {
	rng := e.c.Rng
	cfg := ch.cfg
	var now int64
	sb := ""
	for i := range seals {
		if seals[i] {
			sb += "1"
		} else {
			sb += "0"
		}
	}
	seal := func(h *types.Header) int {
		if failNo != 0 && h.Number.Uint64() == failNo {
			return 1
		}
		return 0
	}
	ct := cfgTok(cfg)
	// (a) each worker, synchronously (a panic of a worker goroutine would kill the process)
	workerObs := make([]string, len(seg))
	anyPanic := false
	panicVals := make([]string, len(seg))
	for try := 0; try < 5; try++ {
		now = time.Now().Unix()
		for i := range seg {
			var err error
			pan, pv := vh.CatchPanic(func() { err = eng.VerifVerifyHeaderWorker(ch, seg, seals, i) })
			if pan {
				workerObs[i] = "panic"
				anyPanic = true
				panicVals[i] = fmt.Sprint(pv)
			} else {
				workerObs[i] = classify(err)
			}
		}
		if time.Now().Unix() == now {
			break
		}
	}
	chainTok, segTok := hdrsTok(ch.order, seal), hdrsTok(seg, seal)
	for i := range seg {
		if len(seg) > 12 && i > 3 && i < len(seg)-3 && !rng.Chance(20) {
			continue
		}
		cas := fmt.Sprintf("worker %s %d %s %s %s %d", ct, now, chainTok, segTok, sb, i)
		c.corr("verifyHeaderWorker~verify_worker", cas, workerObs[i], e.m.Ask(cas))
	}
	if anyPanic {
		c.eval("batch/"+kind+"/worker-panic", "")
		for i, o := range workerObs {
			if o != "panic" {
				continue
			}
			p, gp := workerParents(ch, seg, i)
			rep := map[string]string{"config": cfgName, "chain": chainTok, "headers": segTok, "index": fmt.Sprint(i), "workers": strings.Join(workerObs, ","), "panic": panicVals[i]}
			switch {
			case p == nil && seg[0].Number.Sign() == 0 && strings.Contains(panicVals[i], "nil pointer"):
				// the guard `parent == nil && headers[0].Number != 0` lets a nil parent through when the batch starts at number 0
				c.viol("verifyheaders-worker-nil-parent-panic", "a VerifyHeaders worker dereferences a nil parent: the batch's first header has number 0, so `parent == nil && headers[0].Number.Uint64() != 0` does not reject the unknown parent (index 0) / the broken link (index >= 2); the panic is in a goroutine and kills the process", rep)
			case p != nil && gp != nil && panicVals[i] == "invalid code" && active(cfg, 10, new(big.Int).Add(p.Number, big.NewInt(1))) && p.Time.Cmp(gp.Time) <= 0:
				c.viol("calcdifficulty-grandparent-panic", "a VerifyHeaders worker panics in calcDifficultyGrandparent (HF10 schedules only): the header after one whose timestamp is not later than its parent's is verified against it; the panic is in a goroutine and kills the process", rep)
			default:
				c.viol(fmt.Sprintf("worker-panic/%d/%s/%s", i, chainTok, segTok), "a VerifyHeaders worker panics", rep)
			}
		}
		return
	}
	// (b) the real concurrent VerifyHeaders under several GOMAXPROCS, delivered order = input order
	want := strings.Join(workerObs, ",")
	for _, procs := range []int{1, 2, 16} {
		old := runtime.GOMAXPROCS(procs)
		var got []string
		for try := 0; try < 5; try++ {
			t0 := time.Now().Unix()
			got = got[:0]
			abort, results := eng.VerifyHeaders(ch, seg, seals)
			for range seg {
				select {
				case err := <-results:
					got = append(got, classify(err))
				case <-time.After(20 * time.Second):
					got = append(got, "timeout")
				}
			}
			close(abort)
			if time.Now().Unix() == t0 && t0 == now {
				break
			}
			if t0 != now { // the clock moved since the workers were observed: only the future-block class could differ
				break
			}
		}
		runtime.GOMAXPROCS(old)
		// model: the collector under a random schedule
		sched := randomSchedule(rng, len(seg), procs)
		cas := fmt.Sprintf("batch %s %d %s %s %s %s", ct, now, chainTok, segTok, sb, sched)
		c.corr("VerifyHeaders~batch_results", cas, strings.Join(got, ",")+"|fin", e.m.Ask(cas))
		if strings.Join(got, ",") != want {
			c.viol("batch-order/"+cas, "VerifyHeaders delivered results differ from the per-index worker results", map[string]string{"case": cas, "got": strings.Join(got, ","), "want": want})
		}
	}
	// (b') abort: the caller reads j results and closes abort.  What it has read must be the first j per-index results
	// (prefix property); whether further results still arrive depends on timing and is not judged.  Model: the collector
	// under the in-order schedule for j indices, then the abort event, then the remaining events (ignored).
	if len(seg) >= 2 {
		j := 1 + rng.Intn(len(seg)-1)
		abortCh, results := eng.VerifyHeaders(ch, seg, seals)
		var got []string
		for k := 0; k < j; k++ {
			select {
			case err := <-results:
				got = append(got, classify(err))
			case <-time.After(20 * time.Second):
				got = append(got, "timeout")
			}
		}
		close(abortCh)
		undecided := false
		for _, g := range got {
			if g == "timeout" {
				undecided = true // a loaded machine: count, do not judge
			}
		}
		if undecided {
			c.count("batch-abort/undecided-timeout")
		} else {
			ev := []string{}
			for k := 0; k < j; k++ {
				ev = append(ev, "D", fmt.Sprintf("C%d", k))
			}
			ev = append(ev, "A")
			for k := j; k < len(seg); k++ {
				ev = append(ev, "D", fmt.Sprintf("C%d", k))
			}
			cas := fmt.Sprintf("abatch %s %d %s %s %s %s", ct, now, chainTok, segTok, sb, strings.Join(ev, ","))
			c.corr("VerifyHeaders+abort~abatch_results", cas, strings.Join(got, ",")+"|aborted", e.m.Ask(cas))
			if strings.Join(got, ",") != strings.Join(workerObs[:j], ",") {
				c.viol("batch-abort-prefix/"+cas, "the results read before closing abort are not the first results of the un-aborted batch", map[string]string{"case": cas, "got": strings.Join(got, ","), "want": strings.Join(workerObs[:j], ",")})
			}
		}
	}
	// (c) direct oracle: one-by-one VerifyHeader, inserting accepted headers, reports the same first failure
	seqCh := ch.clone()
	seqIdx, seqRes := -1, ""
	for i, h := range seg {
		var err error
		pan, _ := vh.CatchPanic(func() { err = eng.VerifyHeader(seqCh, h, seals[i]) })
		r := classify(err)
		if pan {
			r = "panic"
		}
		if r != "ok" {
			seqIdx, seqRes = i, r
			break
		}
		seqCh.addHeader(h)
	}
	bIdx, bRes := -1, ""
	for i, r := range workerObs {
		if r != "ok" {
			bIdx, bRes = i, r
			break
		}
	}
	casS := fmt.Sprintf("seq %s %d %s %s %s", ct, now, chainTok, segTok, sb)
	so := "none"
	if seqIdx >= 0 {
		so = fmt.Sprintf("%d %s", seqIdx, seqRes)
	}
	c.corr("VerifyHeader(one-by-one)~sequential", casS, so, e.m.Ask(casS))
	key := ""
	if bIdx < 0 {
		key = seg[len(seg)-1].Hash().Hex()
	}
	c.eval("batch/"+kind, key)
	c.count(fmt.Sprintf("batch-first-failure/%s", strings.SplitN(bRes, ":", 2)[0]))
	if bIdx != seqIdx || bRes != seqRes {
		rep := map[string]string{"config": cfgName, "kind": kind, "batch": fmt.Sprintf("%d %s", bIdx, bRes), "sequential": so, "chain": chainTok, "headers": segTok, "seals": sb}
		if kind == "unknown-parent" || kind == "no-grandparent" || kind == "known-prefix" || strings.HasPrefix(kind, "from-genesis") {
			// the chain reader is not ancestor-closed (or the header is already known): outside the theorem's hypotheses; record, do not fail
			c.count("batch-vs-sequential-differs-on-nonclosed-chain")
		} else {
			c.viol("batch-vs-sequential/"+casS, "first failure of VerifyHeaders differs from one-by-one VerifyHeader on a contiguous batch", rep)
		}
	}
}

// randomSchedule: a valid event list for the collector LTS with at most `workers` indices in flight
func randomSchedule(r *vh.RNG, n, workers int) string {
	if workers > n {
		workers = n
	}
	ev := []string{}
	in := 0
	running := []int{}
	for done := 0; done < n; {
		if in < n && len(running) < workers && (len(running) == 0 || r.Chance(60)) {
			ev = append(ev, "D")
			running = append(running, in)
			in++
			continue
		}
		k := r.Intn(len(running))
		ev = append(ev, fmt.Sprintf("C%d", running[k]))
		running = append(running[:k], running[k+1:]...)
		done++
	}
	// the collector returns once the last result is delivered; nothing may follow
	return strings.Join(ev, ",")
}

// ---------------------------------------------------------------- 4. uncles

func mkBlock(h *types.Header, uncles []*types.Header) *types.Block {
	b := types.NewBlock(h, nil, uncles, nil)
	return b
}

func (e *env) uncles() {
	c := e.c
	cfgs := allConfigs(c.Rng)
	nb := c.Scale(150, 2000)
	for it := 0; it < nb; it++ {
		nc := cfgs[c.Rng.Intn(len(cfgs))]
		cfg := nc.cfg
		hs := heightsOf(cfg, c.Rng)
		start := hs[c.Rng.Intn(len(hs))]
		if c.Rng.Chance(25) {
			start = int64(14985 + c.Rng.Intn(40)) // around the historic-exception window (number > 15000)
		}
		if c.Rng.Chance(25) && cfg.HF[5] != nil {
			start = cfg.HF[5].Int64() - int64(c.Rng.Intn(12))
		}
		if start < 2 {
			start = 2
		}
		now := time.Now().Unix()
		depth := 1 + c.Rng.Intn(10)
		base, seg := buildChain(c.Rng, cfg, start, depth, now)
		all := append(append([]*types.Header{}, base...), seg...) // all[i+1] is child of all[i]
		ch := newChain(cfg)
		for _, h := range all {
			ch.addHeader(h)
		}
		// side blocks: siblings of main-chain blocks at random depths (candidate uncles)
		sibling := func(k int) *types.Header { // sibling of all[k] (k>=1): another child of all[k-1]
			var gp *types.Header
			if k >= 2 {
				gp = all[k-2]
			}
			s := child(c.Rng, cfg, all[k-1], gp, []int64{1, 50, 239, 240, 400}[c.Rng.Intn(5)])
			return s
		}
		// the block under test extends the tip
		tip := all[len(all)-1]
		hdr := child(c.Rng, cfg, tip, all[len(all)-2], 100)
		kind := []string{"none", "one-valid", "two-valid", "three", "duplicate-in-block", "already-included", "ancestor", "self",
			"too-old", "sibling-of-block", "invalid-header", "unknown-parent", "whitelist-parent", "future-time", "time-2^64", "child-of-grandparent"}[c.Rng.Intn(16)]
		var us []*types.Header
		pick := func(maxBack int) *types.Header { // sibling of an ancestor within maxBack generations
			lo := len(all) - maxBack
			if lo < 1 {
				lo = 1
			}
			k := lo + c.Rng.Intn(len(all)-lo)
			return sibling(k)
		}
		// some ancestors carry uncles already
		blocks := map[int]*types.Block{}
		var included *types.Header
		for k := 1; k < len(all); k++ {
			var bu []*types.Header
			if k >= 2 && c.Rng.Chance(25) {
				u := sibling(k - 1)
				bu = []*types.Header{u}
				if included == nil || c.Rng.Bool() {
					included = u
				}
			}
			blocks[k] = types.NewBlockWithHeader(all[k]).WithBody(nil, bu)
		}
		switch kind {
		case "one-valid":
			us = []*types.Header{pick(6)}
		case "two-valid":
			us = []*types.Header{pick(6), pick(6)}
		case "three":
			us = []*types.Header{pick(6), pick(6), pick(6)}
		case "duplicate-in-block":
			u := pick(6)
			us = []*types.Header{u, types.CopyHeader(u)}
		case "already-included":
			if included != nil {
				us = []*types.Header{types.CopyHeader(included)}
			} else {
				us = []*types.Header{pick(6)}
			}
		case "ancestor":
			us = []*types.Header{types.CopyHeader(all[len(all)-1-c.Rng.Intn(minInt(len(all)-1, 7))])}
		case "self":
			us = []*types.Header{types.CopyHeader(hdr)}
		case "too-old":
			if len(all) > 9 {
				us = []*types.Header{sibling(1 + c.Rng.Intn(len(all)-8))}
			} else {
				us = []*types.Header{pick(6)}
			}
		case "sibling-of-block":
			us = []*types.Header{child(c.Rng, cfg, tip, all[len(all)-2], 77)}
		case "invalid-header":
			u := pick(6)
			ms := muts(c.Rng)
			var p *types.Header
			for _, a := range all {
				if a.Hash() == u.ParentHash {
					p = a
				}
			}
			ms[1+c.Rng.Intn(len(ms)-1)].f(u, p, now)
			us = []*types.Header{u}
		case "unknown-parent":
			u := pick(6)
			copy(u.ParentHash[:], c.Rng.Bytes(32))
			us = []*types.Header{u}
		case "whitelist-parent":
			u := pick(6)
			u.ParentHash = common.HexToHash([]string{"0x6b818656fb5059ab4dd070e2c2822a7774065090e74ff31515764212c88e2923", "0x0afd1b00b8e1a49652beeb860e3b58dacc865dd3e3d9d303374ed3ffdfef8eea"}[c.Rng.Intn(2)])
			u.Number = big.NewInt([]int64{14003, 14001, 14002}[c.Rng.Intn(3)])
			us = []*types.Header{u, pick(6)}
		case "future-time", "time-2^64":
			u := pick(6)
			var p, gp *types.Header
			for i, a := range all {
				if a.Hash() == u.ParentHash {
					p = a
					if i > 0 {
						gp = all[i-1]
					}
				}
			}
			if kind == "future-time" {
				u.Time = big.NewInt(now + 1000000)
			} else {
				u.Time = new(big.Int).Add(new(big.Int).Lsh(big.NewInt(1), 64), new(big.Int).Add(p.Time, big.NewInt(50)))
			}
			if kind == "future-time" {
				if d, pn := specDifficulty(cfg, u.Time, p, gp); !pn {
					u.Difficulty = d
				}
			} else if d, pn := specDifficulty(cfg, new(big.Int).Add(p.Time, big.NewInt(50)), p, gp); !pn {
				u.Difficulty = d // valid for the truncated time
			}
			us = []*types.Header{u}
		case "child-of-grandparent":
			if len(all) >= 3 {
				us = []*types.Header{sibling(len(all) - 2)}
			}
		}
		e.checkUncles(kind, cfg, all, blocks, hdr, us, c.Rng.Chance(3))
	}
}

// checkUncles: VerifyUncles on the block (hdr, us) whose ancestors are all[..] (all[k+1] child of all[k]; blocks[k] the
// body of all[k] for k >= 1), against the model and against the uncle rules evaluated independently.
func (e *env) checkUncles(kind string, cfg *params.ChainConfig, all []*types.Header, blocks map[int]*types.Block, hdr *types.Header, us []*types.Header, unsetVersion bool) {
	c := e.c
	ch := newChain(cfg)
	for _, h := range all {
		ch.addHeader(h)
	}
	for _, u := range us {
		u.Version = cfg.GetBlockVersion(u.Number)
	}
	blk := types.NewBlockWithHeader(hdr).WithBody(nil, us)
	if unsetVersion {
		// version not set on the block under test
		h0 := types.CopyHeader(hdr)
		h0.Version = 0
		blk = types.NewBlockWithHeader(h0).WithBody(nil, us)
	}
	bl := []*types.Block{}
	for k := len(all) - 1; k >= 0; k-- {
		if blocks[k] == nil {
			break
		}
		ch.addBlock(blocks[k])
		bl = append(bl, blocks[k])
	}
	var err error
	var obs string
	var now int64
	for try := 0; try < 5; try++ {
		now = time.Now().Unix()
		pan, _ := vh.CatchPanic(func() { err = e.eng.VerifyUncles(ch, blk) })
		obs = classify(err)
		if pan {
			obs = "panic"
		}
		if time.Now().Unix() == now {
			break
		}
	}
	if blk.Version() == 0 {
		c.Eval("uncles/version-unset", "")
		if obs != "err version-unset" && !strings.HasPrefix(obs, "err too-many") {
			c.Violate("uncles-version-unset/"+obs, "VerifyUncles on a block without version", map[string]string{"observed": obs})
		}
		return
	}
	cas := fmt.Sprintf("uncles %s %d %s %s %s", cfgTok(cfg), now, hdrsTok(ch.order, noSeal), blocksTok(bl, cfg, noSeal), blockTok(blk, cfg, noSeal))
	key := ""
	if obs == "ok" && len(us) > 0 {
		key = blk.Hash().Hex()
	}
	c.Eval("uncles/"+kind, key)
	c.Count("uncles-verdict/" + obs)
	if strings.HasPrefix(kind, "count/") {
		c.Count("uncle-count-verdict/" + kind[strings.LastIndex(kind, "/")+1:] + "/" + obs)
	}
	mod := e.m.Ask(cas)
	c.Correspond("VerifyUncles~verify_uncles", cas, obs, mod)
	asStamped := false
	if mod != obs {
		// diagnosis: does the implementation behave like the model variant that takes the identity of past uncles as
		// stamped by the chain reader (including block's version) instead of re-stamping them with their own height's?
		asStamped = e.m.Ask("uncles-as-stamped"+cas[len("uncles"):]) == obs
	}
	// direct oracle: the uncle rules of the property statement, evaluated independently
	v := e.unclesOK(cfg, now, all, blocks, hdr, us)
	if (obs == "ok") != (v.rule == "") {
		rep := map[string]string{"case": cas, "observed": obs, "rule_failing": v.rule + ":" + v.fails, "uncle_index": fmt.Sprint(v.idx), "kind": kind}
		if obs == "ok" && v.rule == "uncle-invalid" {
			if sig, what := classifyAcceptedInvalid(cfg, v.fails, us[v.idx], v.parent, v.gp, true); sig != "" {
				c.Violate(sig, "VerifyUncles: "+what, rep)
				return
			}
		}
		if obs == "ok" && v.rule == "not-recent" {
			// the loop counter the code compares with 15000: block number - 1 - (ancestors walked)
			counter := int64(hdr.Number.Uint64()) - 1 - int64(v.walked)
			u := us[v.idx]
			wl := map[string]uint64{"0x6b818656fb5059ab4dd070e2c2822a7774065090e74ff31515764212c88e2923": 14003, "0x0afd1b00b8e1a49652beeb860e3b58dacc865dd3e3d9d303374ed3ffdfef8eea": 14001}
			if n, ok := wl[u.ParentHash.Hex()]; ok && n == u.Number.Uint64() && counter <= 15000 {
				c.Violate("uncles-historic-whitelist-on-any-chain", "below block ~15008 an uncle that is not recent but whose ParentHash equals a hard-coded mainnet hash (with the matching number) makes VerifyUncles return nil at once, on every chain configuration: it and the remaining uncles are not validated", rep)
				return
			}
		}
		if obs == "ok" && v.rule == "duplicate" {
			u := us[v.idx]
			rep["config"], rep["height"], rep["uncle_height"], rep["verdict"] = cfgTok(cfg), hdr.Number.String(), u.Number.String(), obs
			rep["behaves_like_identity_as_stamped_by_chain_reader"] = fmt.Sprint(asStamped)
			c.Violate(fmt.Sprintf("uncle-included-twice/%s/block=%s/uncle=%s", cfgTok(cfg), hdr.Number, u.Number),
				"VerifyUncles accepts an uncle that one of the last 7 ancestors already included (it would be rewarded twice)", rep)
			return
		}
		if v.rule == "count" || obs == "err too-many-uncles" {
			rep["config"], rep["height"], rep["uncles"], rep["verdict"] = cfgTok(cfg), hdr.Number.String(), fmt.Sprint(len(us)), obs
			rep["rule"] = "at most 2 uncles before HF5, at most 1 from the HF5 block on (the block's own height decides)"
			c.Violate(fmt.Sprintf("uncle-count/%s/height=%s/uncles=%d/%s", cfgTok(cfg), hdr.Number, len(us), obs), "VerifyUncles applies the wrong uncle limit for the block's height", rep)
			return
		}
		c.Violate("uncle-rules/"+cas, "verdict of VerifyUncles differs from the uncle rules of the property statement", rep)
	}
}

func minInt(a, b int) int {
	if a < b {
		return a
	}
	return b
}

type uncleVerdict struct {
	rule       string // "" | count | duplicate | is-ancestor | not-recent | uncle-invalid
	fails      string // for uncle-invalid: the failing header clauses
	idx        int    // the first uncle that fails
	parent, gp *types.Header
	walked     int // ancestors the 7-generation walk found
}

// unclesOK: count <= max(fork); each uncle recent (parent among the 7 ancestors, not the block's
// parent), unique (not in the block twice, not included by an ancestor), not an ancestor (nor the
// block itself) and individually valid.  all = main chain up to the block's parent.
func (e *env) unclesOK(cfg *params.ChainConfig, now int64, all []*types.Header, blocks map[int]*types.Block, hdr *types.Header, us []*types.Header) (v uncleVerdict) {
	max := 2
	if active(cfg, 5, hdr.Number) {
		max = 1
	}
	anc := map[common.Hash]int{}
	seen := map[common.Hash]bool{hdr.Hash(): true}
	for g := 1; g <= 7; g++ {
		k := len(all) - g
		if k < 0 || blocks[k] == nil {
			break // all[0] has no block body in the fake chain: the ancestor walk stops before it
		}
		anc[all[k].Hash()] = k
		v.walked++
		for _, u := range blocks[k].Uncles() {
			u.Version = cfg.GetBlockVersion(u.Number)
			seen[u.Hash()] = true
		}
	}
	if len(us) > max {
		v.rule = "count"
		return
	}
	for i, u := range us {
		v.idx = i
		h := u.Hash()
		if seen[h] {
			v.rule = "duplicate"
			return
		}
		seen[h] = true
		if _, ok := anc[h]; ok {
			v.rule = "is-ancestor"
			return
		}
		k, ok := anc[u.ParentHash]
		if !ok || u.ParentHash == hdr.ParentHash {
			v.rule = "not-recent"
			return
		}
		v.parent, v.gp = all[k], nil
		if k >= 1 {
			v.gp = all[k-1]
		}
		if f := rulesOK(cfg, now, u, v.parent, v.gp); f != "" {
			v.rule, v.fails = "uncle-invalid", f
			return
		}
	}
	return
}

// ---------------------------------------------------------------- 5. version / IsHF probes

func (e *env) versions() {
	c := e.c
	for _, nc := range allConfigs(c.Rng) {
		ct := cfgTok(nc.cfg)
		for _, h := range heightsOf(nc.cfg, c.Rng) {
			for _, hh := range []int64{h - 1, h} {
				v := nc.cfg.GetBlockVersion(big.NewInt(hh))
				c.Correspond("GetBlockVersion~block_version", fmt.Sprintf("%s %d", ct, hh), fmt.Sprintf("0x%x", int(v)), e.m.Ask(fmt.Sprintf("version %s %d", ct, hh)))
				n := 1 + c.Rng.Intn(10)
				c.Correspond("IsHF~is_hf", fmt.Sprintf("%s %d %d", ct, n, hh), fmt.Sprint(nc.cfg.IsHF(n, big.NewInt(hh))), e.m.Ask(fmt.Sprintf("ishf %s %d %d", ct, n, hh)))
			}
		}
	}
}

func main() {
	c := vh.Init("C13")
	log.Root().SetHandler(log.DiscardHandler())
	m := c.StartModel()
	defer m.Close()
	c.Res.Rule = "per chain configuration (every built-in one, mainnet with HF8/HF9 scheduled, HF10 schedules, sparse and random fork maps) and per height around every fork: CalcDifficulty over parent-difficulty x time-delta lattices; candidate headers with each field at / just inside / just outside its bound relative to generated valid parents (as header and as uncle); batches of 1-64 headers (valid, corrupted, known prefix, failing seal, unknown ancestry) through VerifyHeaders under GOMAXPROCS 1/2/16 and one-by-one; uncle sets drawn from generated block trees; deterministically (no sub-sampling): every fork edge f-1/f/f+1 of every configuration on difficulty points that separate the two regimes, blocks at HF5/HF8/HF9 -2..+2 with 0-3 otherwise valid uncles (VerifyUncles) and on low-HF5 schedules through core.GenerateChain + BlockChain.InsertChain, ancestor / already-included uncles across version-changing forks, one directed case per known defect. A case is distinct and non-trivial when the implementation accepts it (distinct accepted header / block hashes, distinct difficulty lattice points)"
	if aquahash.VerifFakeDifficultyMode() {
		c.Fatal("FAKEPOWTEST is set: the difficulty algorithm is disabled in this process")
	}
	e := &env{c: c, m: m, eng: aquahash.NewFaker()}
	e.directed()
	e.forkEdges()
	e.uncleCounts()
	e.insertChainUncles()
	t0 := time.Now()
	e.insertChainTwice()
	c.Note("insertChainTwice took %.1fs", time.Since(t0).Seconds())
	e.highBits()
	e.knownTwins()
	e.insertHeaderTwin()
	e.insertChainUncleCommitment()
	t1 := time.Now()
	e.headerChainImport()
	e.headerChainKnownBad()
	c.Note("headerChainImport took %.1fs", time.Since(t1).Seconds())
	e.versions()
	e.testnet3()
	e.difficultyLattice()
	e.headerRules()
	e.batches()
	e.uncles()
	c.Assume("FAKEPOWTEST unset (fakedifficultymode false)")
	c.Assume("seal verification enters header verification as an oracle value (ModeFake engines; C14 covers VerifySeal)")
	c.Assume("header hashes are the implementation's Header.Hash() under the version selected by height; the model treats them as opaque identifiers")
	c.Finish()
}
