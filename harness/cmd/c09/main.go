// c09: correspondence between core/state.StateDB (Go) and the Coq model
// State/StateModel.v after EVERY operation of random histories, plus the direct
// oracles of property C09 evaluated on the implementation alone:
//
//	O1 revert-observable : every public getter before Snapshot == after RevertToSnapshot
//	O2 revert-neutral    : root after (prefix up to the snapshot [+w]) == root after
//	                       (prefix through the revert [+w]) for IntermediateRoot(true/false)
//	                       and a continuation write w (hidden state: dirty set, one-shot callback)
//	O3 root-is-content   : IntermediateRoot/Commit root == root of a fresh StateDB populated
//	                       from what the getters return
//	O4 copy-obs          : getters of Copy() == getters of the original
//	O5 commit-reopen     : getters of New(root, db) == getters of the committed StateDB
package main

import (
	"encoding/json"
	"fmt"
	"math/big"
	"os"
	"sort"
	"strings"

	"gitlab.com/aquachain/aquachain/aquadb"
	"gitlab.com/aquachain/aquachain/common"
	"gitlab.com/aquachain/aquachain/core/state"
	"gitlab.com/aquachain/aquachain/core/types"
	"gitlab.com/aquachain/aquachain/crypto"
	"gitlab.com/aquachain/aquachain/trie"
	"gitlab.com/aquachain/aquachain/verifharness/vh"
)

// ------------------------------------------------------------------ universe

var addrs = []int64{1, 2, 3, 4, 5, 6} // 3 = the ripemd precompile singled out by touchChange.undo
var slots = []int64{0, 1, 2, 3}
var thashes = []int64{0, 0xaa, 0xbb}
var pres = []int64{1, 2}

func addrOf(a int64) common.Address { return common.BigToAddress(big.NewInt(a)) }
func hashOf(a int64) common.Hash    { return common.BigToHash(big.NewInt(a)) }
func bigOf(s string) *big.Int {
	b, ok := new(big.Int).SetString(s, 0)
	if !ok {
		panic("bad int " + s)
	}
	return b
}
func qhex(b *big.Int) string {
	if b.Sign() < 0 {
		return "-0x" + new(big.Int).Neg(b).Text(16)
	}
	return "0x" + b.Text(16)
}
func qi(i int64) string  { return qhex(big.NewInt(i)) }
func qu(i uint64) string { return qhex(new(big.Int).SetUint64(i)) }
func csv(l []int64) string {
	p := make([]string, len(l))
	for i, x := range l {
		p[i] = fmt.Sprint(x)
	}
	return strings.Join(p, ",")
}
func b01(b bool) string {
	if b {
		return "1"
	}
	return "0"
}

// ------------------------------------------------------------------ programs

type Op struct {
	K    string `json:"k"`             // kind
	S    int    `json:"s"`             // state id the op acts on
	A    int64  `json:"a,omitempty"`   // address
	V    string `json:"v,omitempty"`   // value (decimal / 0x, may be negative)
	Key  int64  `json:"key,omitempty"` // slot / preimage key
	Code string `json:"code,omitempty"`
	B    bool   `json:"b,omitempty"`   // deleteEmptyObjects
	Id   int64  `json:"id,omitempty"`  // revert id / commit index for reopen
	Dst  int    `json:"dst,omitempty"` // copy / reopen destination
	Th   int64  `json:"th,omitempty"`
}

func (o Op) String() string {
	switch o.K {
	case "create", "suicide":
		return fmt.Sprintf("%d:%s(%d)", o.S, o.K, o.A)
	case "addbal", "subbal", "setbal", "setnonce":
		return fmt.Sprintf("%d:%s(%d,%s)", o.S, o.K, o.A, o.V)
	case "setcode":
		return fmt.Sprintf("%d:setcode(%d,%s)", o.S, o.A, o.Code)
	case "setstate":
		return fmt.Sprintf("%d:setstate(%d,%d,%s)", o.S, o.A, o.Key, o.V)
	case "addlog", "addrefund":
		return fmt.Sprintf("%d:%s(%s)", o.S, o.K, o.V)
	case "addpreimage":
		return fmt.Sprintf("%d:addpreimage(%d,%s)", o.S, o.Key, o.Code)
	case "prepare":
		return fmt.Sprintf("%d:prepare(%d)", o.S, o.Th)
	case "revert":
		return fmt.Sprintf("%d:revert(%d)", o.S, o.Id)
	case "finalise", "iroot", "commit":
		return fmt.Sprintf("%d:%s(%v)", o.S, o.K, o.B)
	case "copy":
		return fmt.Sprintf("%d:copy->%d", o.S, o.Dst)
	case "reopen":
		return fmt.Sprintf("reopen(%d)->%d", o.Id, o.Dst)
	}
	return fmt.Sprintf("%d:%s", o.S, o.K)
}

func progString(p []Op) string {
	s := make([]string, len(p))
	for i, o := range p {
		s[i] = o.String()
	}
	return strings.Join(s, " ")
}

// the request line for the model
func (o Op) modelLine() string {
	p := fmt.Sprintf("op %d ", o.S)
	switch o.K {
	case "create", "suicide":
		return p + fmt.Sprintf("%s %d", o.K, o.A)
	case "addbal", "subbal", "setbal", "setnonce":
		return p + fmt.Sprintf("%s %d %s", o.K, o.A, o.V)
	case "setcode":
		return p + fmt.Sprintf("setcode %d %s", o.A, o.Code)
	case "setstate":
		return p + fmt.Sprintf("setstate %d %d %s", o.A, o.Key, o.V)
	case "addlog", "addrefund":
		return p + fmt.Sprintf("%s %s", o.K, o.V)
	case "addpreimage":
		return p + fmt.Sprintf("addpreimage %d %s", o.Key, o.Code)
	case "prepare":
		return p + fmt.Sprintf("prepare %d %d %d", o.Th, o.Th+1, o.Th%7)
	case "snapshot":
		return p + "snapshot"
	case "revert":
		return p + fmt.Sprintf("revert %d", o.Id)
	case "finalise", "iroot", "commit":
		return p + fmt.Sprintf("%s %s", o.K, b01(o.B))
	case "copy":
		return fmt.Sprintf("copy %d %d", o.S, o.Dst)
	case "reopen":
		return fmt.Sprintf("reopen %d %d", o.Dst, o.Id)
	case "new":
		return fmt.Sprintf("new %d", o.S)
	}
	return "bad"
}

// ------------------------------------------------------------------ implementation runner

type Runner struct {
	disk    *aquadb.MemDatabase
	db      state.Database
	sts     map[int]*state.StateDB
	commits []common.Hash
	dead    bool // a panic left some StateDB half-updated: stop
	// ---- bookkeeping used ONLY to decide whether a failure has the exact shape of a known defect
	hist     []Op                     // ops applied so far (successful or not)
	orphan   map[orphanKey]orphanInfo // live, modified, not dirty, callback consumed: since which op
	snaps    map[int][]snapHidden     // live snapshots per StateDB with the hidden state when taken
	finTrue  map[int]bool             // a Finalise/IntermediateRoot/Commit(true) ran on this StateDB (or its Copy source)
	lastFinB map[int]int              // last finalise-like flag on this StateDB: 0 none, 1 false, 2 true
}

type orphanKey struct {
	sid int
	a   int64
}

type hid struct{ present, armed, deleted, dirty, inTrie, leafEmpty bool }

type snapHidden struct {
	id  int64
	at  int
	hid map[int64]hid
}

// orphanInfo: which op made the object an orphan; for a revert, the reverted region and the
// hidden state at its snapshot
type orphanInfo struct {
	kind string
	at   int
	snap *snapHidden
}

func hidOf(s *state.StateDB, a int64) hid {
	h := s.VerifHidden(addrOf(a))
	_, in := s.VerifLeaf(addrOf(a))
	return hid{h.Present, h.Armed, h.Deleted, s.VerifIsDirty(addrOf(a)), in, in && leafEmpty(s, a)}
}

func isOrphan(s *state.StateDB, a int64) bool {
	h := s.VerifHidden(addrOf(a))
	return h.Present && !h.Deleted && !h.Armed && !s.VerifIsDirty(addrOf(a))
}

func isWrite(k string) bool {
	switch k {
	case "create", "addbal", "subbal", "setbal", "setnonce", "setcode", "setstate", "suicide":
		return true
	}
	return false
}

// region ops (from < idx < to) on (sid, a): is there a zero-value AddBalance (a touch candidate)? any other write?
func (r *Runner) region(sid int, a int64, from, to int) (touch, other bool) {
	for i := from + 1; i < to && i < len(r.hist); i++ {
		o := r.hist[i]
		if o.S != sid || o.A != a || !isWrite(o.K) {
			continue
		}
		if o.K == "addbal" && bigOf(o.V).Sign() == 0 {
			touch = true
		} else {
			other = true
		}
	}
	return
}

// track is called after every successful op (ans = its answer)
func (r *Runner) track(o Op, ans string) {
	idx := len(r.hist) - 1
	var reverted *snapHidden
	switch o.K {
	case "copy":
		for _, a := range addrs {
			delete(r.orphan, orphanKey{o.Dst, a})
		}
		r.snaps[o.Dst] = nil
		r.finTrue[o.Dst] = r.finTrue[o.S]
		r.lastFinB[o.Dst] = 0
	case "reopen", "new":
		d := o.Dst
		if o.K == "new" {
			d = o.S
		}
		for _, a := range addrs {
			delete(r.orphan, orphanKey{d, a})
		}
		r.snaps[d], r.finTrue[d], r.lastFinB[d] = nil, false, 0
	case "snapshot":
		var id int64
		fmt.Sscanf(ans, "id 0x%x", &id)
		h := map[int64]hid{}
		for _, a := range addrs {
			h[a] = hidOf(r.sts[o.S], a)
		}
		r.snaps[o.S] = append(r.snaps[o.S], snapHidden{id, idx, h})
	case "revert":
		l := r.snaps[o.S]
		for i := range l {
			if l[i].id == o.Id {
				c := l[i]
				reverted = &c
				r.snaps[o.S] = l[:i]
				break
			}
		}
	case "finalise", "iroot", "commit":
		r.snaps[o.S] = nil
		if o.B {
			r.finTrue[o.S] = true
			r.lastFinB[o.S] = 2
		} else {
			r.lastFinB[o.S] = 1
		}
	}
	for sid, s := range r.sts {
		for _, a := range addrs {
			key := orphanKey{sid, a}
			if !isOrphan(s, a) {
				delete(r.orphan, key)
			} else if _, ok := r.orphan[key]; !ok {
				info := orphanInfo{kind: o.K, at: idx}
				if o.K == "revert" && sid == o.S {
					info.snap = reverted
				}
				r.orphan[key] = info
			}
		}
	}
}

const (
	sigK1 = "revert-leaves-dirty-empty-account-deleted"
	sigK2 = "write-after-commit-lost"
	sigK3 = "write-after-reverted-touch-lost"
	sigK4 = "ripemd-touch-survives-revert"
	sigK5 = "deleted-object-rewritten-by-later-finalise"
	sigK6 = "reverted-touch-undirties-dirty-object"
)

// classify returns a known signature ONLY when the hidden state of (sid, a) and the history that
// led to it have exactly the shape of that known defect; "" otherwise (the caller then reports
// a signature that embeds the concrete history, which no known finding can match).
//
//	K2: the object became (not dirty, callback consumed) at a Commit and a write to it followed
//	K3: ... at a RevertToSnapshot whose region contains AddBalance(a,0) and whose snapshot saw the
//	    object clean (not dirty; absent or armed)
//	K6: same, but the snapshot saw the object dirty AND armed (a Copy re-arms dirty objects)
//	K5: stateObjects says deleted (not by self-destruct), the trie holds the leaf again, the last
//	    finalise-like call on this StateDB had deleteEmptyObjects=false and an earlier one had true
func (r *Runner) classify(sid int, a int64) string {
	st := r.sts[sid]
	if st == nil {
		return ""
	}
	if isOrphan(st, a) {
		info := r.orphan[orphanKey{sid, a}]
		switch info.kind {
		case "commit":
			for i := info.at + 1; i < len(r.hist); i++ {
				if o := r.hist[i]; o.S == sid && o.A == a && isWrite(o.K) {
					return sigK2
				}
			}
		case "revert":
			if info.snap != nil {
				touch, _ := r.region(sid, a, info.snap.at, info.at)
				h := info.snap.hid[a]
				if touch && !h.dirty && (!h.present || h.armed) {
					return sigK3
				}
				if touch && h.dirty && h.present && h.armed {
					return sigK6
				}
			}
		}
	}
	h := st.VerifHidden(addrOf(a))
	if h.Present && h.Deleted && !h.Suicided && r.finTrue[sid] && r.lastFinB[sid] == 1 {
		if _, ok := st.VerifLeaf(addrOf(a)); ok {
			return sigK5
		}
	}
	return ""
}

func newRunner() *Runner {
	disk := aquadb.NewMemDatabase()
	return &Runner{disk: disk, db: state.NewDatabase(disk), sts: map[int]*state.StateDB{}, orphan: map[orphanKey]orphanInfo{},
		snaps: map[int][]snapHidden{}, finTrue: map[int]bool{}, lastFinB: map[int]int{}}
}

// apply runs one op on the implementation; the answer uses the model's vocabulary.
// For iroot/commit the root is returned separately.
func (r *Runner) apply(o Op) (ans string, root common.Hash) {
	st := r.sts[o.S]
	r.hist = append(r.hist, o)
	p, pv := vh.CatchPanic(func() {
		switch o.K {
		case "new":
			s, err := state.New(common.Hash{}, r.db)
			if err != nil {
				panic(err)
			}
			r.sts[o.S] = s
			ans = "ok"
		case "create":
			st.CreateAccount(addrOf(o.A))
			ans = "ok"
		case "addbal":
			st.AddBalance(addrOf(o.A), bigOf(o.V))
			ans = "ok"
		case "subbal":
			st.SubBalance(addrOf(o.A), bigOf(o.V))
			ans = "ok"
		case "setbal":
			st.SetBalance(addrOf(o.A), bigOf(o.V))
			ans = "ok"
		case "setnonce":
			st.SetNonce(addrOf(o.A), bigOf(o.V).Uint64())
			ans = "ok"
		case "setcode":
			st.SetCode(addrOf(o.A), append([]byte{}, vh.UnHex(o.Code)...))
			ans = "ok"
		case "setstate":
			st.SetState(addrOf(o.A), hashOf(o.Key), common.BigToHash(bigOf(o.V)))
			ans = "ok"
		case "suicide":
			ans = fmt.Sprint(st.Suicide(addrOf(o.A)))
		case "addlog":
			st.AddLog(&types.Log{Data: bigOf(o.V).Bytes()})
			ans = "ok"
		case "addrefund":
			st.AddRefund(bigOf(o.V).Uint64())
			ans = "ok"
		case "addpreimage":
			st.AddPreimage(hashOf(o.Key), vh.UnHex(o.Code))
			ans = "ok"
		case "prepare":
			st.Prepare(hashOf(o.Th), hashOf(o.Th+1), int(o.Th%7))
			ans = "ok"
		case "snapshot":
			ans = "id " + qi(int64(st.Snapshot()))
		case "revert":
			st.RevertToSnapshot(int(o.Id))
			ans = "ok"
		case "finalise":
			st.Finalise(o.B)
			ans = "ok"
		case "iroot":
			root = st.IntermediateRoot(o.B)
			ans = "root"
		case "commit":
			rt, err := st.Commit(o.B)
			if err != nil {
				panic(err)
			}
			root = rt
			r.commits = append(r.commits, rt)
			ans = "root"
		case "copy":
			r.sts[o.Dst] = st.Copy()
			ans = "ok"
		case "reopen":
			if o.Id < 0 || int(o.Id) >= len(r.commits) {
				ans = "err"
				return
			}
			s, err := state.New(r.commits[o.Id], r.db)
			if err != nil {
				panic(err)
			}
			r.sts[o.Dst] = s
			ans = "ok"
		default:
			panic("unknown op " + o.K)
		}
	})
	if p {
		_ = pv
		if o.K != "revert" { // RevertToSnapshot panics before touching anything
			r.dead = true
		}
		return "panic", common.Hash{}
	}
	if ans != "err" {
		r.track(o, ans)
	}
	return ans, root
}

// public observation of one address (what vm.StateDB callers can read)
func pubAddr(s *state.StateDB, a int64) string {
	ad := addrOf(a)
	st := make([]string, len(slots))
	for i, k := range slots {
		st[i] = qhex(s.GetState(ad, hashOf(k)).Big())
	}
	return fmt.Sprintf("A%s:e=%s,m=%s,b=%s,n=%s,h=%s,c=%s,z=%s,s=%s,st=%s", qi(a), b01(s.Exist(ad)), b01(s.Empty(ad)),
		qhex(s.GetBalance(ad)), qu(s.GetNonce(ad)), vh.Hex(s.GetCodeHash(ad).Bytes()), vh.Hex(s.GetCode(ad)),
		qi(int64(s.GetCodeSize(ad))), b01(s.HasSuicided(ad)), strings.Join(st, "/"))
}

func renderLogs(s *state.StateDB, th int64) string {
	ls := s.GetLogs(hashOf(th))
	p := make([]string, len(ls))
	for i, l := range ls {
		p[i] = fmt.Sprintf("%s/%s/%s/%s/%s", qhex(new(big.Int).SetBytes(l.Data)), qhex(l.TxHash.Big()), qhex(l.BlockHash.Big()), qi(int64(l.TxIndex)), qu(uint64(l.Index)))
	}
	return strings.Join(p, ",")
}

func pubTail(s *state.StateDB) string {
	var b strings.Builder
	b.WriteString("R=" + qu(s.GetRefund()))
	for _, th := range thashes {
		b.WriteString(" L" + qi(th) + "=" + renderLogs(s, th))
	}
	for _, p := range pres {
		v, ok := s.Preimages()[hashOf(p)]
		if ok {
			b.WriteString(" P" + qi(p) + "=" + vh.Hex(v))
		} else {
			b.WriteString(" P" + qi(p) + "=-")
		}
	}
	return b.String()
}

// pubObs: every public observable (the `obs` of theorem C09_revert_observable)
func pubObs(s *state.StateDB) string {
	var b strings.Builder
	for _, a := range addrs {
		b.WriteString(pubAddr(s, a) + " ")
	}
	b.WriteString(pubTail(s))
	return b.String()
}

// persistent part (survives commit + reopen): accounts only, no suicide flag
func persObs(s *state.StateDB) []string {
	out := make([]string, len(addrs))
	for i, a := range addrs {
		x := pubAddr(s, a)
		out[i] = x[:strings.Index(x, ",s=")] + x[strings.Index(x, ",st="):]
	}
	return out
}

func renderDS(m map[common.Hash]common.Hash) string {
	type kv struct{ k, v *big.Int }
	l := []kv{}
	for k, v := range m {
		l = append(l, kv{k.Big(), v.Big()})
	}
	sort.Slice(l, func(i, j int) bool { return l[i].k.Cmp(l[j].k) < 0 })
	p := make([]string, len(l))
	for i, e := range l {
		p[i] = qhex(e.k) + "=" + qhex(e.v)
	}
	return strings.Join(p, ",")
}

// fullObs: public observables + hidden state, in the format of ocaml/state/driver.ml `obs`
func fullObs(s *state.StateDB) string {
	var b strings.Builder
	for _, a := range addrs {
		b.WriteString(pubAddr(s, a))
		h := s.VerifHidden(addrOf(a))
		if h.Present {
			b.WriteString(fmt.Sprintf(",arm=%s,del=%s,tch=%s,dc=%s,ds=%s", b01(h.Armed), b01(h.Deleted), b01(h.Touched), b01(h.DirtyCode), renderDS(h.DirtyStorage)))
		} else {
			b.WriteString(",arm=1,del=0,tch=0,dc=0,ds=")
		}
		b.WriteString(",d=" + b01(s.VerifIsDirty(addrOf(a))) + " ")
	}
	b.WriteString("R=" + qu(s.GetRefund()))
	b.WriteString(" LS=" + qu(uint64(s.VerifLogSize())))
	for _, th := range thashes {
		b.WriteString(" L" + qi(th) + "=" + renderLogs(s, th))
	}
	for _, p := range pres {
		v, ok := s.Preimages()[hashOf(p)]
		if ok {
			b.WriteString(" P" + qi(p) + "=" + vh.Hex(v))
		} else {
			b.WriteString(" P" + qi(p) + "=-")
		}
	}
	b.WriteString(fmt.Sprintf(" jl=%d", s.VerifJournalLen()))
	rv := s.VerifRevisions()
	p := make([]string, len(rv))
	for i, r := range rv {
		p[i] = qi(int64(r[0])) + ":" + qi(int64(r[1]))
	}
	b.WriteString(" revs=" + strings.Join(p, ","))
	b.WriteString(fmt.Sprintf(" ndirty=%d", len(s.VerifDirty())))
	return b.String()
}

// content of a committed state read back through a StateDB reopened at the root,
// in the format of the driver's render_trie.  (RawDump is not used: it resolves
// storage keys through the account trie's preimage cache and prints "" for slots
// whose preimage that cache does not hold.)  Slots outside the universe are never written.
func renderCommitted(db state.Database, root common.Hash) string {
	s, err := state.New(root, db)
	if err != nil {
		return "reopen-error"
	}
	p := []string{}
	for _, a := range addrs {
		ac, ok := s.VerifLeaf(addrOf(a))
		if !ok {
			continue
		}
		sp := []string{}
		for _, k := range slots {
			if v := s.GetState(addrOf(a), hashOf(k)); v != (common.Hash{}) {
				sp = append(sp, qi(k)+"="+qhex(v.Big()))
			}
		}
		p = append(p, fmt.Sprintf("%s:%s:%s:%s:[%s]", qi(a), qu(ac.Nonce), qhex(ac.Balance), vh.Hex(ac.CodeHash), strings.Join(sp, ",")))
	}
	return "{" + strings.Join(p, ";") + "}"
}

// freshRoot: root of a brand-new StateDB holding exactly what s's getters report
// Accounts whose visible balance is negative cannot be encoded at all: they are left out and
// returned in neg (such an account can never be what the trie holds).
func freshFrom(s *state.StateDB) (f *state.StateDB, root common.Hash, neg []int64) {
	f, _ = state.New(common.Hash{}, state.NewDatabase(aquadb.NewMemDatabase()))
	for _, a := range addrs {
		ad := addrOf(a)
		if !s.Exist(ad) {
			continue
		}
		if s.GetBalance(ad).Sign() < 0 {
			neg = append(neg, a)
			continue
		}
		f.CreateAccount(ad)
		f.SetBalance(ad, new(big.Int).Set(s.GetBalance(ad)))
		f.SetNonce(ad, s.GetNonce(ad))
		if c := s.GetCode(ad); len(c) > 0 {
			f.SetCode(ad, c)
		}
		for _, k := range slots {
			if v := s.GetState(ad, hashOf(k)); v != (common.Hash{}) {
				f.SetState(ad, hashOf(k), v)
			}
		}
	}
	root = f.IntermediateRoot(false)
	return f, root, neg
}

func leafStr(s *state.StateDB, a int64) string {
	ac, ok := s.VerifLeaf(addrOf(a))
	if !ok {
		return "absent"
	}
	return fmt.Sprintf("n=%d,b=%s,root=%x,ch=%x", ac.Nonce, ac.Balance, ac.Root[:4], ac.CodeHash[:4])
}

func leafEmpty(s *state.StateDB, a int64) bool {
	ac, ok := s.VerifLeaf(addrOf(a))
	return ok && ac.Nonce == 0 && ac.Balance.Sign() == 0 && string(ac.CodeHash) == string(crypto.Keccak256(nil))
}

// ------------------------------------------------------------------ the checker

type snapRec struct {
	id    int64
	opIdx int
	obs   string
}

type Checker struct {
	c       *vh.Ctx
	m       *vh.Model
	g2m     map[common.Hash]string // Go root -> model content
	m2g     map[string]common.Hash
	nOracle map[string]int
	nProbes int
	nReal   int
	maxReal int
	nFam    map[string]int
}

var obsReq = ""

// violate: known-class signatures pass through; signatures that embed a concrete history are capped
// per oracle family (the first ones are kept as replays, the rest only counted) so that one defect
// does not produce thousands of replay objects
func (k *Checker) violate(sig, what string, replay interface{}) {
	if i := strings.Index(sig, "/"); i > 0 {
		fam := sig[:i]
		k.nFam[fam]++
		k.c.Count("violations-" + fam)
		if k.nFam[fam] > 8 {
			return
		}
	}
	k.c.Violate(sig, what, replay)
}

func (k *Checker) rootCorr(cas string, root common.Hash, content string) {
	obs := content
	if prev, ok := k.g2m[root]; ok {
		obs = prev // same Go root must mean same model content
	} else if g, ok := k.m2g[content]; ok && g != root {
		obs = "same-content-different-root " + g.Hex() + " vs " + root.Hex()
	} else {
		k.g2m[root] = content
		k.m2g[content] = root
	}
	k.c.Correspond("IntermediateRoot/Commit root-equality-class~st_trie content", cas, obs, content)
}

// runProgram: lockstep model/implementation + oracles O1, O3, O4, O5 on the way; O2 by replay afterwards.
func (k *Checker) runProgram(class string, prog []Op, withModel bool) {
	c := k.c
	r := newRunner()
	if withModel {
		k.m.Ask("reset")
	}
	live := map[int][]snapRec{} // per state: live snapshots
	type revPair struct{ i, j, sid int }
	pairs := []revPair{}
	ptxt := progString(prog)
	replayObj := func(extra map[string]interface{}) map[string]interface{} {
		m := map[string]interface{}{"program": prog, "text": ptxt}
		for kk, v := range extra {
			m[kk] = v
		}
		return m
	}
	// report: every differing address must be explained by a known defect whose exact shape the hidden
	// state and the history of that address have; anything else gets a signature embedding the history
	report := func(diff []int64, sid int, oracle, what string, detail func(a int64) map[string]interface{}) {
		for _, a := range diff {
			sig := ""
			if a != 0 {
				sig = r.classify(sid, a)
			}
			if sig == "" {
				sig = fmt.Sprintf("%s/%d/%s", oracle, a, ptxt)
			}
			k.violate(sig, fmt.Sprintf("%s (address %d)", what, a), replayObj(detail(a)))
		}
	}
	nontriv := ""
	firstDis := -1
	absLiveOf := map[int]string{}
	for idx, o := range prog {
		ans, root := r.apply(o)
		st := r.sts[o.S]
		if o.K == "copy" || o.K == "reopen" {
			st = r.sts[o.Dst]
		}
		nd := c.Res.NDisagreements
		if withModel {
			absLive := ""
			if o.K == "revert" {
				absLive = k.m.Ask(fmt.Sprintf("alive %d %d", o.S, o.Id)) // what the abstract system says BEFORE the op
			}
			absLiveOf[idx] = absLive
			mans := k.m.Ask(o.modelLine())
			cas := fmt.Sprintf("%s @%d %s", ptxt, idx, o)
			if ans == "root" {
				content := ""
				suffix := ""
				if strings.HasPrefix(mans, "root ") {
					content = strings.TrimPrefix(mans, "root ")
					if o.K == "commit" {
						i := strings.LastIndex(content, " ")
						content, suffix = content[:i], content[i:]
					}
					k.rootCorr(cas, root, content)
					if k.nReal < k.maxReal || strings.HasPrefix(class, "directed") {
						// the real Merkle root: Go's hash vs C10's specification root of the model content
						k.nReal++
						c.Correspond("IntermediateRoot/Commit root hash~StateRoot.state_root keccak256 (st_trie)", cas, vh.Hex(root[:]), k.m.Ask(fmt.Sprintf("realroot %d", o.S)))
					}
					if o.K == "commit" {
						// node-database side of Commit (State/StateDb.v): every key the model inserts is in the
						// trie.Database (memory or disk) and every key the account root references is reachable
						// from the state root through the child references, or already on disk
						mk := k.m.Ask(fmt.Sprintf("dbkeys %d", o.S))
						c.Correspond("trie.Database nodes + references after Commit~StateDb.commit_db_keys / refs", cas, dbObserve(r, root, mk), mk)
						// committed: the full content is readable -> compare it literally
						c.Correspond("Commit, reopen, read back~commit content", cas, renderCommitted(r.db, root)+suffix, content+fmt.Sprintf(" %d", len(r.commits)-1))
					}
				} else {
					c.Correspond("StateDB op result~model op result", cas, ans, mans)
				}
			} else {
				c.Correspond("StateDB op result~model op result", cas, ans, mans)
			}
			if ans != "panic" && ans != "err" && st != nil {
				sid := o.S
				if o.K == "copy" || o.K == "reopen" {
					sid = o.Dst
				}
				c.Correspond("StateDB getters+hidden state after every op~model obs", cas, fullObs(st), k.m.Ask(fmt.Sprintf("obs %d %s", sid, obsReq)))
				// the independent abstract system (accounts as a map, snapshot = copy, revert = restore)
				c.Correspond("StateDB public getters after every op~abstract system StateAbs.astep", cas, pubObs(st), k.m.Ask(fmt.Sprintf("aobs %d %s", sid, obsReq)))
			}
		}
		if c.Res.NDisagreements > nd && firstDis < 0 {
			firstDis = idx
		}
		if r.dead {
			c.Count("program-ended-by-panic")
			break
		}
		if ans == "panic" && o.K == "revert" {
			// direct oracle: RevertToSnapshot(id) of a snapshot that is LIVE (taken, not reverted, no older
			// one reverted or finalised since) must not panic.  Live = the harness's own bookkeeping, or the
			// abstract system's snapshot stack (StateAbs: revert panics only on ids that are not live).
			harnessLive := false
			for _, sr := range live[o.S] {
				harnessLive = harnessLive || sr.id == o.Id
			}
			if harnessLive || absLiveOf[idx] == "1" {
				pre := prog[:idx+1]
				k.violate("revert-live-snapshot-panics/"+progString(pre), fmt.Sprintf("RevertToSnapshot(%d) panics although snapshot %d is live", o.Id, o.Id),
					map[string]interface{}{"program": pre, "text": progString(pre), "at": idx, "live_by_harness_bookkeeping": harnessLive, "live_by_abstract_system": absLiveOf[idx]})
				c.Count("program-ended-by-live-revert-panic")
				prog = prog[:idx+1]
				break
			}
		}
		if ans == "panic" || ans == "err" {
			c.Count("op-" + o.K + "-" + ans)
			continue
		}
		c.Count("op-" + o.K)
		// --- bookkeeping of live snapshots + oracles on the way
		switch o.K {
		case "snapshot":
			var id int64
			fmt.Sscanf(ans, "id 0x%x", &id)
			live[o.S] = append(live[o.S], snapRec{id, idx, pubObs(st)})
		case "revert":
			l := live[o.S]
			for i := range l {
				if l[i].id == o.Id {
					// O1
					k.nOracle["O1"]++
					now := pubObs(st)
					if now != l[i].obs {
						sig := "revert-live-snapshot-wrong-state/" + progString(prog[:idx+1]) // never a known class: histories end at the first K5 state
						k.violate(sig, "a public getter differs between Snapshot and RevertToSnapshot",
							replayObj(map[string]interface{}{"snapshot_at": l[i].opIdx, "revert_at": idx, "before": l[i].obs, "after": now}))
					}
					pairs = append(pairs, revPair{l[i].opIdx, idx, o.S})
					live[o.S] = l[:i]
					nontriv = "r"
					break
				}
			}
		case "finalise", "iroot", "commit":
			live[o.S] = nil
		case "reopen":
			live[o.Dst] = nil
		case "copy":
			live[o.Dst] = nil
			// O4
			k.nOracle["O4"]++
			src, dst := r.sts[o.S], r.sts[o.Dst]
			diff := []int64{}
			for _, a := range addrs {
				if pubAddr(src, a) != pubAddr(dst, a) {
					diff = append(diff, a)
				}
			}
			report(diff, o.S, "copy-obs", "Copy() reads differently from the original", func(a int64) map[string]interface{} {
				return map[string]interface{}{"at": idx, "address": a, "original": pubAddr(src, a), "copy": pubAddr(dst, a)}
			})
			if pubTail(src) != pubTail(dst) {
				k.violate("copy-obs-tail/"+ptxt, "Copy() differs in refund/logs/preimages", replayObj(map[string]interface{}{"at": idx, "original": pubTail(src), "copy": pubTail(dst)}))
			}
		}
		if o.K == "iroot" || o.K == "commit" {
			// O3: the root commits to what the getters show
			k.nOracle["O3"]++
			f, froot, neg := freshFrom(st)
			if froot != root {
				diff := append([]int64{}, neg...)
				for _, a := range addrs {
					isNeg := false
					for _, n := range neg {
						isNeg = isNeg || n == a
					}
					if !isNeg && leafStr(f, a) != leafStr(st, a) {
						diff = append(diff, a)
					}
				}
				if len(diff) == 0 {
					diff = []int64{0} // roots differ but no leaf of the universe does: never a known class
				}
				report(diff, o.S, "root-not-content", o.K+" root is not the root of the content the getters report", func(a int64) map[string]interface{} {
					return map[string]interface{}{"at": idx, "address": a, "trie_leaf": leafStr(st, a), "getters": leafStr(f, a), "root": root.Hex(), "root_of_content": froot.Hex()}
				})
			}
			nontriv += "f"
		}
		if o.K == "commit" {
			// O5: reopen at the committed root reads back identically
			k.nOracle["O5"]++
			// O6: before the flush, every account leaf's storage root and code hash must be referenced from
			// the state root in the trie.Database (or be on disk already): what Database.Commit(root) will keep
			g := newDbGraph(r, root)
			for _, a := range addrs {
				ac, ok := st.VerifLeaf(addrOf(a))
				if !ok {
					continue
				}
				keys := [][]byte{}
				if ac.Root != emptyRootHash {
					keys = append(keys, ac.Root[:])
				}
				if string(ac.CodeHash) != string(crypto.Keccak256(nil)) {
					keys = append(keys, ac.CodeHash)
				}
				for _, key := range keys {
					if !g.kept(key) {
						pre := prog[:idx+1]
						k.violate("commit-leaf-not-referenced/"+progString(pre), fmt.Sprintf("after Commit the storage root / code hash %x of account %d is neither reachable from the state root in the trie.Database memory layer nor in the disk store: Database.Commit(root) will not persist it", key[:4], a),
							map[string]interface{}{"program": pre, "text": progString(pre), "at": idx, "address": a, "key": vh.Hex(key)})
					}
				}
			}
			// flush the committed trie (and the code it references) to the underlying key-value store and
			// read it back through a brand-new state.Database: no shared trie-node, code or code-size cache
			var re *state.StateDB
			err := r.db.TrieDB().Commit(root, false)
			if err == nil {
				re, err = state.New(root, state.NewDatabase(r.disk))
			}
			if err != nil {
				k.violate("reopen-fails/"+ptxt, "state.New at a committed root fails: "+err.Error(), replayObj(nil))
			} else {
				x, y := persObs(st), persObs(re)
				diff := []int64{}
				for i, a := range addrs {
					if x[i] != y[i] {
						diff = append(diff, a)
					}
				}
				report(diff, o.S, "commit-reopen", "state reopened at the committed root reads differently", func(a int64) map[string]interface{} {
					return map[string]interface{}{"at": idx, "address": a, "committed_statedb": pubAddr(st, a), "reopened": pubAddr(re, a)}
				})
			}
		}
		// beyond this point the implementation is internally inconsistent (stateObjects says deleted, the
		// trie holds the leaf, possibly with a storage root that was never committed); the model does not
		// track implementation behaviour past it.  O3 has reported it at the finalise that caused it.
		k5 := false
		for sid := range r.sts {
			for _, a := range addrs {
				if r.classify(sid, a) == sigK5 {
					k5 = true
				}
			}
		}
		if k5 {
			k.violate(sigK5, "a state object deleted by Finalise(true) was written back into the account trie by a later Finalise/Commit(false): getters say it does not exist, the root says it does",
				replayObj(map[string]interface{}{"at": idx}))
			c.Count("program-ended-by-rewritten-deleted-object")
			prog = prog[:idx+1]
			break
		}
	}
	c.Eval(class, map[bool]string{true: ptxt, false: ""}[nontriv != ""])
	if r.dead {
		return
	}
	// --- O2: revert neutrality by replay (implementation only)
	for _, pr := range pairs {
		k.checkNeutral(prog, pr.i, pr.j, pr.sid, ptxt)
	}
	// --- model and implementation disagreed somewhere in this history: before giving up, push the
	// implementation from exactly that point to where a hidden difference must show through a public
	// API (revert to the live snapshots, one more write, Commit + reopen through a fresh database)
	// and evaluate every oracle on those extended histories
	if withModel && firstDis >= 0 && k.nProbes < 40 {
		k.nProbes++
		k.probe(prog, firstDis)
	}
}

func (k *Checker) probe(prog []Op, d int) {
	rp := replay(prog, d)
	if rp == nil {
		return
	}
	o := prog[d]
	sid := o.S
	if o.K == "copy" || o.K == "reopen" {
		sid = o.Dst
	}
	if rp.sts[sid] == nil {
		return
	}
	flag := rp.lastFinB[sid] != 1
	commit := Op{K: "commit", S: sid, B: flag}
	sufs := [][]Op{{commit}, {{K: "iroot", S: sid, B: flag}, commit}}
	if o.A != 0 {
		sufs = append(sufs, []Op{{K: "addbal", S: sid, A: o.A, V: "1"}, commit})
	}
	if l := rp.snaps[sid]; len(l) > 0 {
		sufs = append(sufs, []Op{{K: "revert", S: sid, Id: l[0].id}, commit}, []Op{{K: "revert", S: sid, Id: l[len(l)-1].id}, commit})
	}
	for _, suf := range sufs {
		p := append(append([]Op{}, prog[:d+1]...), suf...)
		k.runProgram("probe-after-disagreement", p, false)
	}
}

func replay(prog []Op, upto int) *Runner {
	r := newRunner()
	for i := 0; i <= upto; i++ {
		r.apply(prog[i])
		if r.dead {
			return nil
		}
	}
	return r
}

func (k *Checker) checkNeutral(prog []Op, i, j, sid int, ptxt string) {
	// continuation writes: none, every address the reverted region wrote to, and one bystander
	conts := []int64{0}
	seen := map[int64]bool{}
	for _, o := range prog[i+1 : j] {
		if o.S == sid && isWrite(o.K) && !seen[o.A] {
			seen[o.A] = true
			conts = append(conts, o.A)
		}
	}
	for _, a := range addrs {
		if !seen[a] {
			conts = append(conts, a)
			break
		}
	}
	for _, b := range []bool{true, false} {
		for _, w := range conts {
			k.nOracle["O2"]++
			ra, rb := replay(prog, i), replay(prog, j)
			if ra == nil || rb == nil {
				return
			}
			sa, sb := ra.sts[sid], rb.sts[sid]
			// hidden state before the continuation: does a known defect (exact shape, see classify)
			// already affect the address on either side?
			preA, preB := map[int64]string{}, map[int64]string{}
			hidA, hidB := map[int64]hid{}, map[int64]hid{}
			if w != 0 { // the continuation write is part of the history the shapes are judged on
				cont := Op{K: "addbal", S: sid, A: w, V: "1"}
				ra.hist, rb.hist = append(ra.hist, cont), append(rb.hist, cont)
			}
			for _, a := range addrs {
				preA[a], preB[a] = ra.classify(sid, a), rb.classify(sid, a)
				hidA[a], hidB[a] = hidOf(sa, a), hidOf(sb, a)
			}
			if w != 0 {
				sa.AddBalance(addrOf(w), big.NewInt(1))
				sb.AddBalance(addrOf(w), big.NewInt(1))
			}
			var rootA, rootB common.Hash
			pa, _ := vh.CatchPanic(func() { rootA = sa.IntermediateRoot(b) })
			pb, _ := vh.CatchPanic(func() { rootB = sb.IntermediateRoot(b) })
			if pa || pb {
				if pa != pb {
					k.violate("revert-neutral-panic/"+ptxt, "IntermediateRoot panics on only one side of a revert", map[string]interface{}{"program": prog, "text": ptxt, "snapshot_at": i, "revert_at": j})
				}
				continue
			}
			if rootA == rootB {
				continue
			}
			// register the finalise-like call so that classify sees the flag (K5 shape)
			fin := Op{K: "iroot", S: sid, B: b}
			ra.hist, rb.hist = append(ra.hist, fin), append(rb.hist, fin)
			ra.track(fin, "root")
			rb.track(fin, "root")
			diff := []int64{}
			for _, a := range addrs {
				if leafStr(sa, a) != leafStr(sb, a) {
					diff = append(diff, a)
				}
			}
			if len(diff) == 0 {
				diff = []int64{0}
			}
			for _, bad := range diff {
				sig := ""
				_, inB := sb.VerifLeaf(addrOf(bad))
				touch, other := rb.region(sid, bad, i, j)
				switch {
				case bad == 0:
				case ra.classify(sid, bad) == sigK5 || rb.classify(sid, bad) == sigK5:
					// one side re-wrote a deleted object into the trie in this very IntermediateRoot(false)
					sig = sigK5
				case preA[bad] != "" || preB[bad] != "":
					// the address was already in a known defective hidden state before the continuation
					// (unmarked write with the K2/K3/K6 shape); the root difference is its consequence
					sig = preA[bad]
					if sig == "" {
						sig = preB[bad]
					}
				case b && hidA[bad].inTrie && hidA[bad].leafEmpty && !hidA[bad].dirty && leafEmpty(sa, bad) && !inB && hidB[bad].dirty && (touch || other):
					// a pre-existing EMPTY, clean account; the reverted region wrote to it; after the revert it is
					// still empty (same getters) but left in the dirty set, so IntermediateRoot(true) deletes it
					if bad == 3 && touch && !other {
						sig = sigK4 // journal.go: touchChange.undo deliberately skips the ripemd address
					} else if other {
						sig = sigK1
					}
				}
				if sig == "" {
					sig = fmt.Sprintf("revert-neutral/%v/%d/%d-%d/%d/%s", b, w, i, j, bad, ptxt)
				}
				k.violate(sig, fmt.Sprintf("IntermediateRoot(%v) after [ops up to the snapshot%s] differs from IntermediateRoot after [ops through the revert%s]: address %d leaf %s vs %s",
					b, contS(w), contS(w), bad, leafStr(sa, bad), leafStr(sb, bad)),
					map[string]interface{}{"program": prog, "text": ptxt, "snapshot_at": i, "revert_at": j, "delete_empty": b, "continuation_addbalance_1_to": w,
						"root_without_the_reverted_ops": rootA.Hex(), "root_with_them": rootB.Hex()})
			}
		}
	}
}

// ---- core/state/managed_state.go: nonce management on a copied StateDB (correspondence only)
func (k *Checker) runManaged(r *vh.RNG) {
	c := k.c
	run := newRunner()
	k.m.Ask("reset")
	pre := prelude(r)
	pre = genBody(r, len(pre)+r.Intn(12), pre)
	for _, o := range pre {
		if o.S != 0 && o.K != "reopen" {
			continue
		}
		if o.K == "copy" || (o.K == "reopen" && o.Dst != 0) {
			continue
		}
		ans, _ := run.apply(o)
		k.m.Ask(o.modelLine())
		if run.dead || ans == "panic" {
			return
		}
	}
	ms := state.ManageState(run.sts[0])
	if got := k.m.Ask("manage 0 0"); got != "ok" {
		c.Correspond("ManageState~manage_state", progString(pre), "ok", got)
		return
	}
	mobs := func() string {
		p := make([]string, len(addrs))
		for i, a := range addrs {
			ok, ns, nn := ms.VerifManagedAccount(addrOf(a))
			if !ok {
				p[i] = "M" + qi(a) + ":-"
				continue
			}
			bits := ""
			for _, b := range nn {
				bits += b01(b)
			}
			p[i] = "M" + qi(a) + ":" + qu(ns) + "/" + bits
		}
		return strings.Join(p, " ")
	}
	txt := progString(pre) + " | manage"
	nonces := []string{"0", "1", "2", "3", "5", "7", "18446744073709551615"}
	for i := 0; i < 18; i++ {
		a := addrs[r.Intn(len(addrs))]
		n := nonces[r.Intn(len(nonces))]
		var line, got string
		switch r.Intn(6) {
		case 0, 1:
			line, got = fmt.Sprintf("newnonce %d", a), "n "+qu(ms.NewNonce(addrOf(a)))
		case 2:
			line, got = fmt.Sprintf("getnonce %d", a), "n "+qu(ms.GetNonce(addrOf(a)))
		case 3:
			ms.SetNonce(addrOf(a), bigOf(n).Uint64())
			line, got = fmt.Sprintf("setnonce %d %s", a, n), "ok"
		case 4:
			ms.RemoveNonce(addrOf(a), bigOf(n).Uint64())
			line, got = fmt.Sprintf("removenonce %d %s", a, n), "ok"
		default:
			line, got = fmt.Sprintf("has %d", a), b01(ms.HasAccount(addrOf(a)))
		}
		txt += " " + line
		c.Correspond("ManagedState method result~ManagedModel", txt, got, k.m.Ask("mop 0 "+line))
		c.Correspond("ManagedState accounts (nstart, nonces)~ms_accts", txt, mobs(), k.m.Ask("mobs 0 "+csv(addrs)))
		c.Correspond("ManagedState inner StateDB getters+hidden state~ms_db obs", txt, fullObs(ms.StateDB), k.m.Ask("obs 1000 "+obsReq))
		c.Count("managed-op")
	}
	c.Eval("managed-state", txt)
}

var emptyRootHash = common.HexToHash("56e81f171bcc55a6ff8345e692c0f86e5b48e01b996cadc001622fb5e363b421")

// the memory layer of the trie.Database as a graph, and what is reachable from the state root
type dbGraph struct {
	inMem map[string]bool
	reach map[string]bool
	r     *Runner
}

func newDbGraph(r *Runner, root common.Hash) *dbGraph {
	nodes, _ := trie.VerifDbDump(r.db.TrieDB())
	g := &dbGraph{map[string]bool{}, map[string]bool{}, r}
	ch := map[string][][]byte{}
	for _, n := range nodes {
		g.inMem[string(n.Hash)] = true
		ch[string(n.Hash)] = n.Children
	}
	todo := [][]byte{root[:]}
	for len(todo) > 0 {
		h := todo[len(todo)-1]
		todo = todo[:len(todo)-1]
		if !g.inMem[string(h)] || g.reach[string(h)] {
			continue
		}
		g.reach[string(h)] = true
		todo = append(todo, ch[string(h)]...)
	}
	return g
}

func (g *dbGraph) onDisk(key []byte) bool { v, err := g.r.disk.Get(key); return err == nil && v != nil }

// kept: Database.Commit(root) leaves this key readable from the disk store
func (g *dbGraph) kept(key []byte) bool {
	// reachable in the memory layer (will be flushed), or already in the disk store (an unreferenced
	// in-memory duplicate of a blob that is on disk is harmless)
	return (g.inMem[string(key)] && g.reach[string(key)]) || g.onDisk(key)
}

// dbObserve answers the model's "ins=.. refs=.." line with the keys for which the implementation agrees
func dbObserve(r *Runner, root common.Hash, modelLine string) string {
	if !strings.HasPrefix(modelLine, "ins=") {
		return "none"
	}
	g := newDbGraph(r, root)
	parts := strings.SplitN(modelLine, " refs=", 2)
	filter := func(csvKeys string, ok func([]byte) bool) string {
		out := []string{}
		for _, h := range strings.Split(csvKeys, ",") {
			if h == "" {
				continue
			}
			if ok(vh.UnHex(h)) {
				out = append(out, h)
			}
		}
		return strings.Join(out, ",")
	}
	ins := filter(strings.TrimPrefix(parts[0], "ins="), func(k []byte) bool { return g.inMem[string(k)] || g.onDisk(k) })
	refs := filter(parts[1], g.kept)
	return "ins=" + ins + " refs=" + refs
}

func contS(w int64) string {
	if w == 0 {
		return ""
	}
	return fmt.Sprintf(" + AddBalance(%d,1)", w)
}

// ------------------------------------------------------------------ generators

func prelude(r *vh.RNG) []Op {
	p := []Op{{K: "new", S: 0}}
	p = append(p, Op{K: "setbal", A: 1, V: fmt.Sprint(1000 + r.Intn(1000))}, Op{K: "setnonce", A: 1, V: fmt.Sprint(r.Intn(5))})
	p = append(p, Op{K: "setcode", A: 2, Code: "0x6001600255"}, Op{K: "setstate", A: 2, Key: 1, V: "7"}, Op{K: "setstate", A: 2, Key: 2, V: "0x8000000000000000000000000000000000000000000000000000000000000001"})
	if r.Chance(60) {
		p = append(p, Op{K: "create", A: 3}) // pre-existing EMPTY ripemd
	}
	if r.Chance(70) {
		p = append(p, Op{K: "create", A: 4}) // pre-existing EMPTY account
	}
	if r.Chance(30) {
		p = append(p, Op{K: "setstate", A: 4, Key: 0, V: "5"}) // empty account that has storage
	}
	if r.Chance(40) {
		p = append(p, Op{K: "setbal", A: 6, V: "50"}, Op{K: "suicide", A: 6}) // suicided before the commit -> gone
	}
	if r.Chance(30) {
		p = append(p, Op{K: "setbal", A: 6, V: "9"})
	}
	p = append(p, Op{K: "commit", B: false}, Op{K: "reopen", Id: 0, Dst: 0})
	return p
}

func genValue(r *vh.RNG) string {
	switch r.Intn(10) {
	case 0, 1, 2:
		return "0"
	case 3:
		return "0xffffffffffffffffffffffffffffffffffffffffffffffffffffffffffffffff"
	case 4:
		return "0x10000000000000000"
	default:
		return fmt.Sprint(1 + r.Intn(40))
	}
}

// code blobs: a few fixed ones (so that identical code meets on different accounts) and fresh random
// ones (so that the first Commit of a blob is often the only thing that can put it into the database)
func genCode(r *vh.RNG) string {
	if r.Chance(45) {
		return vh.Hex(append([]byte{0x60}, r.Bytes(1+r.Intn(3))...))
	}
	return []string{"0x", "0x00", "0x6001600255", "0xfe"}[r.Intn(4)]
}

func genBody(r *vh.RNG, n int, prog []Op) []Op {
	alive := []int{0}
	nextSid := 1
	liveIds := map[int][]int64{}
	nextId := map[int]int64{}
	ncommits := 1
	// deleteEmptyObjects is a function of the block number in production: most histories keep one value
	fixed, fixedB := r.Chance(75), r.Chance(75)
	flag := func() bool {
		if fixed {
			return fixedB
		}
		return r.Chance(60)
	}
	snap := func(s int) int64 {
		prog = append(prog, Op{K: "snapshot", S: s})
		id := nextId[s]
		liveIds[s] = append(liveIds[s], id)
		nextId[s]++
		return id
	}
	revertTo := func(s int, id int64) {
		prog = append(prog, Op{K: "revert", S: s, Id: id})
		l := liveIds[s]
		for i := range l {
			if l[i] == id {
				liveIds[s] = l[:i]
				break
			}
		}
	}
	for len(prog) < n {
		s := alive[r.Intn(len(alive))]
		a := addrs[r.Intn(len(addrs))]
		if r.Chance(14) {
			// ---- macro patterns: what a subtle journal / write-cache bug needs
			k := slots[r.Intn(len(slots))]
			if r.Chance(55) { // the contract of the prelude: slots 1 and 2 are trie-backed, it has committed code
				a, k = 2, int64(1+r.Intn(2))
			}
			nz := func() string { return fmt.Sprint(1 + r.Intn(40)) }
			switch r.Intn(9) {
			case 0: // clear a (possibly trie-backed) slot, then overwrite it inside a reverted region
				prog = append(prog, Op{K: "setstate", S: s, A: a, Key: k, V: "0"})
				id := snap(s)
				prog = append(prog, Op{K: "setstate", S: s, A: a, Key: k, V: nz()})
				revertTo(s, id)
			case 1: // X -> snapshot -> Y -> revert -> X (storage)
				v := genValue(r)
				prog = append(prog, Op{K: "setstate", S: s, A: a, Key: k, V: v})
				id := snap(s)
				prog = append(prog, Op{K: "setstate", S: s, A: a, Key: k, V: genValue(r)})
				revertTo(s, id)
				prog = append(prog, Op{K: "setstate", S: s, A: a, Key: k, V: v})
			case 2: // X -> snapshot -> Y -> revert -> X (code)
				c := genCode(r)
				prog = append(prog, Op{K: "setcode", S: s, A: a, Code: c})
				id := snap(s)
				prog = append(prog, Op{K: "setcode", S: s, A: a, Code: genCode(r)})
				revertTo(s, id)
				prog = append(prog, Op{K: "setcode", S: s, A: a, Code: c})
			case 3: // the same code twice
				c := genCode(r)
				prog = append(prog, Op{K: "setcode", S: s, A: a, Code: c}, Op{K: "setcode", S: s, A: a, Code: c})
			case 4: // the same storage value twice
				v := genValue(r)
				prog = append(prog, Op{K: "setstate", S: s, A: a, Key: k, V: v}, Op{K: "setstate", S: s, A: a, Key: k, V: v})
			case 5: // the same nonce / balance twice, once inside a reverted region
				v := nz()
				prog = append(prog, Op{K: "setnonce", S: s, A: a, V: v}, Op{K: "setbal", S: s, A: a, V: v})
				id := snap(s)
				prog = append(prog, Op{K: "setnonce", S: s, A: a, V: v}, Op{K: "setbal", S: s, A: a, V: v})
				revertTo(s, id)
			case 6, 7: // make everything trie-backed: Commit, then continue on a StateDB re-opened at that root
				prog = append(prog, Op{K: "commit", S: s, B: flag()})
				ncommits++
				prog = append(prog, Op{K: "reopen", Id: int64(ncommits - 1), Dst: s})
				liveIds[s], nextId[s] = nil, 0
			case 8: // flush to the storage trie without committing, then clear inside a reverted region
				prog = append(prog, Op{K: "setstate", S: s, A: a, Key: k, V: nz()}, Op{K: "iroot", S: s, B: flag()})
				liveIds[s] = nil
				prog = append(prog, Op{K: "setstate", S: s, A: a, Key: k, V: "0"})
				id := snap(s)
				prog = append(prog, Op{K: "setstate", S: s, A: a, Key: k, V: nz()})
				revertTo(s, id)
			}
			continue
		}
		x := r.Intn(100)
		switch {
		case x < 6:
			prog = append(prog, Op{K: "create", S: s, A: a})
		case x < 19:
			prog = append(prog, Op{K: "addbal", S: s, A: a, V: genValue(r)})
		case x < 24:
			v := []string{"0", "1", "3", "2000", "5"}[r.Intn(5)]
			if r.Chance(85) && v == "2000" {
				v = "2"
			}
			if r.Chance(85) {
				a = 1
			}
			prog = append(prog, Op{K: "subbal", S: s, A: a, V: v})
		case x < 29:
			prog = append(prog, Op{K: "setbal", S: s, A: a, V: genValue(r)})
		case x < 35:
			prog = append(prog, Op{K: "setnonce", S: s, A: a, V: []string{"0", "1", "7", "18446744073709551615"}[r.Intn(4)]})
		case x < 40:
			prog = append(prog, Op{K: "setcode", S: s, A: a, Code: genCode(r)})
		case x < 51:
			prog = append(prog, Op{K: "setstate", S: s, A: a, Key: slots[r.Intn(len(slots))], V: genValue(r)})
		case x < 56:
			prog = append(prog, Op{K: "suicide", S: s, A: a})
		case x < 59:
			prog = append(prog, Op{K: "addlog", S: s, V: fmt.Sprint(r.Intn(1000))})
		case x < 62:
			prog = append(prog, Op{K: "addrefund", S: s, V: []string{"1", "15000", "18446744073709551615"}[r.Intn(3)]})
		case x < 64:
			prog = append(prog, Op{K: "addpreimage", S: s, Key: pres[r.Intn(len(pres))], Code: vh.Hex(r.Bytes(1 + r.Intn(3)))})
		case x < 66:
			prog = append(prog, Op{K: "prepare", S: s, Th: thashes[r.Intn(len(thashes))]})
		case x < 76:
			prog = append(prog, Op{K: "snapshot", S: s})
			liveIds[s] = append(liveIds[s], nextId[s])
			nextId[s]++
		case x < 85:
			l := liveIds[s]
			if len(l) == 0 || r.Chance(3) {
				if r.Chance(20) {
					prog = append(prog, Op{K: "revert", S: s, Id: nextId[s] + int64(r.Intn(3))}) // not live: panics
				}
				continue
			}
			i := r.Intn(len(l))
			prog = append(prog, Op{K: "revert", S: s, Id: l[i]})
			liveIds[s] = l[:i]
		case x < 88:
			prog = append(prog, Op{K: "finalise", S: s, B: flag()})
			liveIds[s] = nil
		case x < 92:
			prog = append(prog, Op{K: "iroot", S: s, B: flag()})
			liveIds[s] = nil
		case x < 96:
			prog = append(prog, Op{K: "commit", S: s, B: flag()})
			liveIds[s] = nil
			ncommits++
		case x < 98:
			if nextSid < 4 {
				prog = append(prog, Op{K: "copy", S: s, Dst: nextSid})
				alive = append(alive, nextSid)
				nextSid++
			}
		default:
			if nextSid < 4 {
				prog = append(prog, Op{K: "reopen", Id: int64(r.Intn(ncommits)), Dst: nextSid})
				alive = append(alive, nextSid)
				nextSid++
			}
		}
	}
	return prog
}

// scripted histories: the corners a subtle journal bug needs
func directed() map[string][]Op {
	pre := []Op{{K: "new"}, {K: "create", A: 4}, {K: "create", A: 3}, {K: "setbal", A: 1, V: "100"}, {K: "setcode", A: 2, Code: "0x6001"}, {K: "setstate", A: 2, Key: 1, V: "7"},
		{K: "commit", B: false}, {K: "reopen", Id: 0, Dst: 0}}
	mk := func(ops ...Op) []Op { return append(append([]Op{}, pre...), ops...) }
	nest := map[string][]Op{}
	for d := 1; d <= 4; d++ {
		ops := []Op{}
		for i := 0; i < d; i++ { // d outer call frames
			ops = append(ops, Op{K: "snapshot"}, Op{K: "addbal", A: 1, V: fmt.Sprint(i + 1)})
		}
		id := int64(d)
		for rep := 0; rep < 3; rep++ { // a frame whose sub-calls fail one after the other: ids stop being consecutive
			ops = append(ops, Op{K: "snapshot"}, Op{K: "setstate", A: 2, Key: 1, V: fmt.Sprint(20 + rep)}, Op{K: "setnonce", A: 5, V: "3"}, Op{K: "revert", Id: id})
			id++
		}
		ops = append(ops, Op{K: "snapshot"}, Op{K: "setcode", A: 5, Code: "0xfe"}) // one that stays, then unwind the outer frames
		for i := d - 1; i >= 0; i-- {
			ops = append(ops, Op{K: "revert", Id: int64(i)})
		}
		ops = append(ops, Op{K: "commit", B: true})
		nest[fmt.Sprintf("revert-snapshot-again-revert-depth-%d", d)] = mk(ops...)
	}
	all := map[string][]Op{
		"reverted-transfer-to-empty-account":                mk(Op{K: "snapshot"}, Op{K: "addbal", A: 4, V: "5"}, Op{K: "revert", Id: 0}, Op{K: "iroot", B: true}),
		"reverted-touch-of-empty-account":                   mk(Op{K: "snapshot"}, Op{K: "addbal", A: 4, V: "0"}, Op{K: "revert", Id: 0}, Op{K: "addbal", A: 4, V: "9"}, Op{K: "iroot", B: true}),
		"reverted-touch-of-ripemd":                          mk(Op{K: "snapshot"}, Op{K: "addbal", A: 3, V: "0"}, Op{K: "revert", Id: 0}, Op{K: "iroot", B: true}),
		"write-after-commit":                                mk(Op{K: "addbal", A: 1, V: "1"}, Op{K: "commit", B: true}, Op{K: "addbal", A: 1, V: "1"}, Op{K: "commit", B: true}),
		"write-after-commit-copy":                           mk(Op{K: "setnonce", A: 1, V: "3"}, Op{K: "commit", B: true}, Op{K: "setnonce", A: 1, V: "4"}, Op{K: "copy", Dst: 1}, Op{K: "iroot", S: 1, B: true}),
		"recreate-across-suicide":                           mk(Op{K: "snapshot"}, Op{K: "suicide", A: 2}, Op{K: "create", A: 2}, Op{K: "setstate", A: 2, Key: 1, V: "9"}, Op{K: "snapshot"}, Op{K: "setcode", A: 2, Code: "0xfe"}, Op{K: "revert", Id: 1}, Op{K: "revert", Id: 0}, Op{K: "iroot", B: true}),
		"finalise-true-then-false":                          mk(Op{K: "addbal", A: 4, V: "0"}, Op{K: "iroot", B: true}, Op{K: "iroot", B: false}),
		"copy-then-reverted-touch":                          mk(Op{K: "setstate", A: 4, Key: 1, V: "3"}, Op{K: "copy", Dst: 1}, Op{K: "snapshot", S: 1}, Op{K: "addbal", S: 1, A: 4, V: "0"}, Op{K: "revert", S: 1, Id: 0}, Op{K: "iroot", S: 1, B: false}, Op{K: "iroot", B: false}),
		"nested-reverts":                                    mk(Op{K: "snapshot"}, Op{K: "setstate", A: 2, Key: 1, V: "0"}, Op{K: "snapshot"}, Op{K: "addlog", V: "5"}, Op{K: "addrefund", V: "7"}, Op{K: "snapshot"}, Op{K: "suicide", A: 1}, Op{K: "revert", Id: 2}, Op{K: "create", A: 5}, Op{K: "revert", Id: 0}, Op{K: "commit", B: true}),
		"clear-of-trie-backed-slot-then-reverted-overwrite": mk(Op{K: "setstate", A: 2, Key: 1, V: "0"}, Op{K: "snapshot"}, Op{K: "setstate", A: 2, Key: 1, V: "9"}, Op{K: "revert", Id: 0}, Op{K: "commit", B: true}),
		"clear-of-flushed-slot-then-reverted-overwrite":     mk(Op{K: "setstate", A: 1, Key: 3, V: "5"}, Op{K: "iroot", B: true}, Op{K: "setstate", A: 1, Key: 3, V: "0"}, Op{K: "snapshot"}, Op{K: "setstate", A: 1, Key: 3, V: "6"}, Op{K: "revert", Id: 0}, Op{K: "commit", B: true}),
		"same-code-twice-then-commit":                       mk(Op{K: "setcode", A: 5, Code: "0x60aabb"}, Op{K: "setcode", A: 5, Code: "0x60aabb"}, Op{K: "commit", B: true}),
		"code-x-y-revert-x-then-commit":                     mk(Op{K: "setcode", A: 5, Code: "0x60aacc"}, Op{K: "snapshot"}, Op{K: "setcode", A: 5, Code: "0xfe"}, Op{K: "revert", Id: 0}, Op{K: "setcode", A: 5, Code: "0x60aacc"}, Op{K: "commit", B: true}, Op{K: "reopen", Id: 1, Dst: 0}, Op{K: "setstate", A: 5, Key: 0, V: "1"}, Op{K: "commit", B: true}),
		"negative-balance-panics":                           mk(Op{K: "subbal", A: 5, V: "1"}, Op{K: "iroot", B: false}),
	}
	for n, p := range nest {
		all[n] = p
	}
	return all
}

func main() {
	c := vh.Init("C09")
	m := c.StartModel()
	defer m.Close()
	obsReq = fmt.Sprintf("%s %s %s %s", csv(addrs), csv(slots), csv(thashes), csv(pres))
	c.Res.Rule = "a case is one history: prelude (accounts incl. pre-existing EMPTY ones, a contract with code+storage, the ripemd address, a suicided account; Commit(false); reopen) " +
		"followed by 25-60 random ops over 6 addresses x 4 slots on up to 4 StateDBs (writes, nested Snapshot, RevertToSnapshot to any live id, Finalise/IntermediateRoot/Commit(true|false), Copy, reopen at any committed root); " +
		"after EVERY op all getters + hidden state (dirty set, onDirty armed, deleted, touched, dirtyStorage, journal length, revisions) are compared with the model; non-trivial = contains at least one valid revert or finalise; distinct by op text"
	k := &Checker{c: c, m: m, g2m: map[common.Hash]string{}, m2g: map[string]common.Hash{}, nOracle: map[string]int{}, nFam: map[string]int{}, maxReal: c.Scale(250, 5000)}
	// Keccak of the model is the hash the implementation uses
	for _, x := range [][]byte{{}, {0x60, 0x01}, c.Rng.Bytes(137)} {
		c.Correspond("crypto.Keccak256~Lib.Keccak.keccak256", vh.Hex(x), vh.Hex(crypto.Keccak256(x)), m.Ask("keccak "+vh.Hex(x)))
	}
	c.Assume("Go map iteration order (stateObjectsDirty, stateObjects, dirtyStorage) is whatever the runtime picked in this run; all orders are covered by C09_finalise_perm, C09_update_trie_perm, C09_commit_root_perm")
	c.Assume("balances may be negative (StateDB never checks): folding one panics in rlp; model and implementation agree on that")
	if c.Replay != "" {
		raw, err := os.ReadFile(c.Replay)
		if err != nil {
			c.Fatal("cannot read replay: %v", err)
		}
		var f struct {
			Replay struct {
				Program []Op `json:"program"`
			} `json:"replay"`
		}
		if err := json.Unmarshal(raw, &f); err != nil || len(f.Replay.Program) == 0 {
			c.Fatal("replay file has no program: %v", err)
		}
		k.runProgram("replay", f.Replay.Program, true)
		c.Finish()
		return
	}
	d := directed()
	names := make([]string, 0, len(d))
	for n := range d {
		names = append(names, n)
	}
	sort.Strings(names)
	for _, n := range names {
		k.runProgram("directed/"+n, d[n], true)
		c.Sample(map[string]string{"directed": n, "history": progString(d[n])})
	}
	nprog := c.Scale(220, 6000)
	for i := 0; i < nprog; i++ {
		r := c.Rng.Fork()
		p := prelude(r)
		p = genBody(r, len(p)+25+r.Intn(36), p)
		class := "random/single-statedb"
		for _, o := range p {
			if o.K == "copy" || (o.K == "reopen" && o.Dst != 0) {
				class = "random/with-copy-or-reopen"
			}
		}
		k.runProgram(class, p, true)
		if i < 3 {
			c.Sample(map[string]string{"history": progString(p)})
		}
	}
	for i := 0; i < c.Scale(40, 600); i++ {
		k.runManaged(c.Rng.Fork())
	}
	for o, n := range k.nOracle {
		c.Res.Distribution["oracle-"+o+"-evaluations"] = n
	}
	c.Finish()
}
