// c17: property C17 "network input is authenticated or rejected, and never fatal".
//
//   - RLPx frame codec (p2p/rlpx.go rlpxFrameRW): sessions between two real
//     rlpxFrameRW built by newRLPXFrameRW from random secrets over in-memory
//     streams.  Model correspondence (Net/Frame.v write_msg/read_msg): the model
//     computes the wire bytes and the read results itself, with Keccak-256 in
//     Gallina; AES is an oracle table recorded from the implementation's own
//     macCipher.Encrypt calls, the CTR key stream and snappy tables are computed
//     with the standard library / snappy package.  Direct oracle: every
//     single-byte flip / drop (all positions of short streams, sampled in long
//     ones) must stop the reader before the tampered frame is delivered.
//   - discovery (p2p/discover/udp.go): decodePacket / encodePacket against
//     Net/Discover.v, handlePacket for "never fatal".
//   - aqua sub-protocol (aqua/handler.go handleMsg): size gate and serving
//     limits against Net/Limits.v on a mock peer.
package main

import (
	"bytes"
	"crypto/aes"
	"crypto/cipher"
	"encoding/binary"
	"encoding/json"
	"fmt"
	"hash"
	"io"
	"net"
	"os"
	"runtime"
	"runtime/debug"
	"strings"
	"time"

	"github.com/golang/snappy"
	"gitlab.com/aquachain/aquachain/aqua"
	"gitlab.com/aquachain/aquachain/common/log"
	"gitlab.com/aquachain/aquachain/crypto"
	"gitlab.com/aquachain/aquachain/crypto/sha3"
	"gitlab.com/aquachain/aquachain/p2p"
	"gitlab.com/aquachain/aquachain/p2p/discover"
	"gitlab.com/aquachain/aquachain/rlp"
	"gitlab.com/aquachain/aquachain/verifharness/vh"
)

type H = map[string]interface{}

// ------------------------------------------------------------------ frames

type conn struct {
	io.Reader
	io.Writer
}

type secrets struct {
	aes, mac, egSeed, inSeed []byte // from the writer's point of view
	ks                       []byte // AES-CTR key stream (IV 0), computed with crypto/aes independently
}

func newSecrets(r *vh.RNG, ksLen int) *secrets {
	s := &secrets{aes: r.Bytes([]int{16, 32}[r.Intn(2)]), mac: r.Bytes([]int{16, 32}[r.Intn(2)]),
		egSeed: r.Bytes(r.Intn(70)), inSeed: r.Bytes(r.Intn(70))}
	s.extendKS(ksLen)
	return s
}
func (s *secrets) extendKS(n int) {
	if len(s.ks) >= n {
		return
	}
	blk, _ := aes.NewCipher(s.aes)
	st := cipher.NewCTR(blk, make([]byte, 16))
	s.ks = make([]byte, n)
	st.XORKeyStream(s.ks, s.ks)
}

type msg struct {
	Code    uint64
	Payload []byte
}

// writeSession writes ms with a fresh writer; returns the stream, frame end offsets, the writer.
func writeSession(s *secrets, snap bool, ms []msg) (stream []byte, ends []int, w *p2p.VerifFrameRW, errs []error) {
	var buf bytes.Buffer
	w = p2p.VerifNewFrameRW(conn{nil, &buf}, s.aes, s.mac, s.egSeed, s.inSeed, snap)
	for _, m := range ms {
		errs = append(errs, w.WriteMsg(m.Code, m.Payload))
		ends = append(ends, buf.Len())
	}
	return buf.Bytes(), ends, w, errs
}

type readStep struct {
	class   string
	code    uint64
	payload []byte
	used    int // bytes of the stream consumed so far
}

type countReader struct {
	r *bytes.Reader
	n int
}

func (c *countReader) Read(p []byte) (int, error) { n, err := c.r.Read(p); c.n += n; return n, err }

// readSession reads up to max messages from stream with a fresh reader (ingress = writer's egress).
func readSession(s *secrets, snap bool, stream []byte, max int) (steps []readStep, r *p2p.VerifFrameRW, panicked interface{}) {
	cr := &countReader{r: bytes.NewReader(stream)}
	r = p2p.VerifNewFrameRW(conn{cr, io.Discard}, s.aes, s.mac, s.inSeed, s.egSeed, snap)
	for i := 0; i < max; i++ {
		var st readStep
		p, pv := vh.CatchPanic(func() {
			code, _, payload, class, _ := r.ReadMsg()
			st = readStep{class, code, payload, cr.n}
		})
		if p {
			return steps, r, pv
		}
		steps = append(steps, st)
		if st.class != "" {
			break
		}
	}
	return steps, r, nil
}

func aesTable(calls ...[]p2p.VerifAESCall) string {
	seen := map[string]bool{}
	var parts []string
	for _, cs := range calls {
		for _, c := range cs {
			k := vh.Hex(c.In)
			if !seen[k] {
				seen[k] = true
				parts = append(parts, k+":"+vh.Hex(c.Out))
			}
		}
	}
	if len(parts) == 0 {
		return "-"
	}
	return strings.Join(parts, ",")
}

func tbl(m map[string]string) string {
	if len(m) == 0 {
		return "-"
	}
	var parts []string
	for k, v := range m {
		parts = append(parts, k+":"+v)
	}
	return strings.Join(parts, ",")
}

func snapDecEntry(t map[string]string, c []byte) {
	if n, err := snappy.DecodedLen(c); err != nil || n > 1<<24 {
		// the harness itself must not decompress what the reader has to refuse;
		// a model query for this entry then yields a plain decode error
		t[vh.Hex(c)] = "none"
		return
	}
	d, err := snappy.Decode(nil, c)
	if err != nil {
		t[vh.Hex(c)] = "none"
	} else {
		t[vh.Hex(c)] = vh.Hex(d)
	}
}

// modelSession: write ms in the model (state threaded through the model's own
// answers) and compare with the implementation's bytes; then read `stream`
// (possibly tampered) in the model and compare every step with Go.
func modelWrite(c *vh.Ctx, m *vh.Model, s *secrets, snap bool, ms []msg, stream []byte, ends []int, w *p2p.VerifFrameRW, errs []error) {
	pos, mac := "0", vh.Hex(s.egSeed)
	at := aesTable(w.AESCalls)
	prev := 0
	for i, x := range ms {
		st := map[string]string{}
		if snap {
			st[vh.Hex(x.Payload)] = vh.Hex(snappy.Encode(nil, x.Payload))
		}
		obs := ""
		if errs[i] != nil {
			obs = "err"
		} else {
			obs = "ok " + vh.Hex(stream[prev:ends[i]])
		}
		ans := m.Ask(fmt.Sprintf("fwrite %s %s %s %d %s %s %s %s", b01(snap), pos, mac, x.Code, vh.Hex(x.Payload), vh.Hex(s.ks), at, tbl(st)))
		f := strings.Fields(ans)
		mod := ans
		if len(f) == 4 && f[0] == "ok" {
			mod = "ok " + f[1]
			pos, mac = f[2], f[3]
		} else if len(f) == 2 && f[0] == "err" {
			mod = "err"
		}
		c.Correspond("rlpxFrameRW.WriteMsg~write_msg", fmt.Sprintf("snappy=%v msg#%d code=%d len=%d", snap, i, x.Code, len(x.Payload)), obs, mod)
		prev = ends[i]
	}
}

func b01(b bool) string {
	if b {
		return "1"
	}
	return "0"
}

func modelRead(c *vh.Ctx, m *vh.Model, what string, s *secrets, snap bool, stream []byte, steps []readStep, at string, sdec map[string]string) {
	pos, mac := "0", vh.Hex(s.egSeed)
	off := 0
	for i, st := range steps {
		ans := m.Ask(fmt.Sprintf("fread %s %s %s %s %s %s %s", b01(snap), pos, mac, vh.Hex(stream[off:]), vh.Hex(s.ks), at, tbl(sdec)))
		f := strings.Fields(ans)
		obs := ""
		if st.class == "" {
			obs = fmt.Sprintf("ok 0x%x %s used=%d", st.code, vh.Hex(st.payload), st.used)
		} else {
			obs = "err " + st.class
		}
		mod := ans
		if len(f) == 6 && f[0] == "ok" {
			rest := (len(f[5]) - 2) / 2
			mod = fmt.Sprintf("ok %s %s used=%d", f[1], f[2], len(stream)-rest)
			pos, mac = f[3], f[4]
			off = len(stream) - rest
		}
		c.Correspond("rlpxFrameRW.ReadMsg~read_msg", fmt.Sprintf("%s step %d of %d-byte stream", what, i, len(stream)), obs, mod)
		if st.class != "" {
			break
		}
	}
}

// intactFrames: number of whole frames of the original stream that are still a prefix of t.
func intactFrames(orig, t []byte, ends []int) int {
	n := 0
	for _, e := range ends {
		if e <= len(t) && bytes.Equal(orig[:e], t[:e]) {
			n++
		} else {
			break
		}
	}
	return n
}

// tamperOracle: the reader must deliver exactly the intact frames, unchanged, then fail.
func tamperOracle(c *vh.Ctx, kind string, s *secrets, snap bool, ms []msg, orig, t []byte, ends []int, pos int) (steps []readStep, r *p2p.VerifFrameRW) {
	steps, r, pv := readSession(s, snap, t, len(ms)+1)
	rep := H{"kind": "frame-tamper", "tamper": kind, "pos": pos, "snappy": snap, "aes": vh.Hex(s.aes), "mac": vh.Hex(s.mac),
		"egress_seed": vh.Hex(s.egSeed), "ingress_seed": vh.Hex(s.inSeed), "original_stream": vh.Hex(orig), "tampered_stream": vh.Hex(t)}
	if pv != nil {
		c.Violate("frame-readmsg-panic", fmt.Sprintf("rlpxFrameRW.ReadMsg panics on a tampered stream: %v", pv), rep)
		return
	}
	want := intactFrames(orig, t, ends)
	delivered := 0
	for _, st := range steps {
		if st.class == "" {
			if delivered >= len(ms) || st.code != ms[delivered].Code || !bytes.Equal(st.payload, ms[delivered].Payload) {
				c.Violate("frame-tamper-delivered-altered", "a message different from what was written was delivered from a tampered stream", rep)
				return
			}
			delivered++
		}
	}
	if delivered != want {
		c.Violate("frame-tamper-delivered", fmt.Sprintf("tampered stream (%s at %d): %d frames intact but %d messages delivered", kind, pos, want, delivered), rep)
	}
	if len(steps) == 0 || steps[len(steps)-1].class == "" {
		c.Violate("frame-tamper-no-error", "reader did not end with an error on a tampered stream", rep)
	}
	return steps, r
}

func genMsgs(r *vh.RNG, sizes []int, n int) []msg {
	codes := []uint64{0, 1, 0x10, 0x7f, 0x80, 0xff, 0x100, 1 << 32, 1<<64 - 1}
	var ms []msg
	for i := 0; i < n; i++ {
		sz := sizes[r.Intn(len(sizes))]
		p := r.Bytes(sz)
		if r.Chance(30) { // compressible
			for j := range p {
				p[j] = byte(j % 3)
			}
		}
		ms = append(ms, msg{codes[r.Intn(len(codes))], p})
	}
	return ms
}

func frames(c *vh.Ctx, m *vh.Model) {
	small := []int{0, 1, 15, 16, 17, 31, 32, 33, 100}
	// --- 1. short sessions: model correspondence on write and read, every flip and drop position
	nSess := c.Scale(6, 60)
	for i := 0; i < nSess; i++ {
		r := c.Rng.Fork()
		snap := i%2 == 1
		s := newSecrets(r, 4096)
		ms := genMsgs(r, small, 1+r.Intn(4))
		stream, ends, w, errs := writeSession(s, snap, ms)
		c.Eval(fmt.Sprintf("frame/session snappy=%v msgs=%d", snap, len(ms)), vh.Hex(stream[:16]))
		modelWrite(c, m, s, snap, ms, stream, ends, w, errs)
		sdec := map[string]string{}
		if snap {
			for _, x := range ms {
				snapDecEntry(sdec, snappy.Encode(nil, x.Payload))
			}
		}
		// clean read: direct round-trip oracle + model
		steps, rd, pv := readSession(s, snap, stream, len(ms))
		if pv != nil {
			c.Violate("frame-readmsg-panic", fmt.Sprint(pv), H{"stream": vh.Hex(stream)})
			continue
		}
		ok := len(steps) == len(ms)
		for j := 0; ok && j < len(ms); j++ {
			ok = steps[j].class == "" && steps[j].code == ms[j].Code && bytes.Equal(steps[j].payload, ms[j].Payload) && steps[j].used == ends[j]
		}
		if !ok {
			c.Violate("frame-roundtrip/"+vh.Hex(stream[:8]), "reading what was written does not return the same messages",
				H{"kind": "frame-roundtrip", "snappy": snap, "msgs": ms, "stream": vh.Hex(stream)})
		}
		modelRead(c, m, "clean", s, snap, stream, steps, aesTable(w.AESCalls, rd.AESCalls), sdec)
		// every flip / drop position: direct oracle on all, model on a sample
		modelEvery := len(stream)/c.Scale(6, 40) + 1
		for p := 0; p < len(stream); p++ {
			for _, kind := range []string{"flip", "drop"} {
				var t []byte
				if kind == "flip" {
					t = append([]byte(nil), stream...)
					t[p] ^= byte(1 + r.Intn(255))
				} else {
					t = append(append([]byte(nil), stream[:p]...), stream[p+1:]...)
				}
				c.Eval("frame/"+kind, "")
				st, rd2 := tamperOracle(c, kind, s, snap, ms, stream, t, ends, p)
				if rd2 != nil && p%modelEvery == 0 {
					modelRead(c, m, fmt.Sprintf("%s@%d", kind, p), s, snap, t, st, aesTable(w.AESCalls, rd2.AESCalls), sdec)
				}
			}
		}
		// truncation at every length
		for p := 0; p < len(stream); p += 1 + r.Intn(3) {
			c.Eval("frame/truncate", "")
			st, rd2 := tamperOracle(c, "truncate", s, snap, ms, stream, stream[:p], ends, p)
			if rd2 != nil && p%modelEvery == 0 {
				modelRead(c, m, fmt.Sprintf("truncate@%d", p), s, snap, stream[:p], st, aesTable(w.AESCalls, rd2.AESCalls), sdec)
			}
		}
	}

	// --- 2. long messages: direct oracle only (model hashing of MB-sized MAC states is too slow)
	long := []int{1 << 16}
	if c.Thorough() {
		long = append(long, 1<<20, 1<<24-2)
	}
	for i, sz := range long {
		for _, snap := range []bool{false, true} {
			r := c.Rng.Fork()
			s := newSecrets(r, 64)
			ms := []msg{{1, r.Bytes(17)}, {uint64(i + 2), r.Bytes(sz)}, {3, r.Bytes(1)}}
			if snap { // half compressible
				for j := 0; j < sz/2; j++ {
					ms[1].Payload[j] = byte(j % 7)
				}
			}
			stream, ends, _, errs := writeSession(s, snap, ms)
			c.Eval(fmt.Sprintf("frame/long size=%d snappy=%v", sz, snap), fmt.Sprintf("long%d%v", sz, snap))
			for _, e := range errs {
				if e != nil {
					c.Violate(fmt.Sprintf("frame-write-refused/size=%d", sz), "WriteMsg refused a message within the 24-bit limit: "+e.Error(), H{"size": sz, "snappy": snap})
				}
			}
			steps, _, pv := readSession(s, snap, stream, len(ms))
			ok := pv == nil && len(steps) == len(ms)
			for j := 0; ok && j < len(ms); j++ {
				ok = steps[j].class == "" && steps[j].code == ms[j].Code && bytes.Equal(steps[j].payload, ms[j].Payload)
			}
			if !ok {
				c.Violate(fmt.Sprintf("frame-roundtrip/long-size=%d-snappy=%v", sz, snap), "long message does not round-trip", H{"size": sz, "snappy": snap})
			}
			nPos := c.Scale(24, 120)
			if sz > 1<<20 {
				nPos = 12
			}
			for k := 0; k < nPos; k++ {
				p := r.Intn(len(stream))
				switch k % 4 { // make sure the field boundaries are hit
				case 0:
					p = ends[0] + r.Intn(48)
				case 1:
					p = ends[1] - 1 - r.Intn(48)
				}
				kind := []string{"flip", "drop"}[k%2]
				var t []byte
				if kind == "flip" {
					t = append([]byte(nil), stream...)
					t[p] ^= byte(1 + r.Intn(255))
				} else {
					t = append(append([]byte(nil), stream[:p]...), stream[p+1:]...)
				}
				c.Eval("frame/long-"+kind, "")
				tamperOracle(c, kind, s, snap, ms, stream, t, ends, p)
			}
		}
	}

	// --- 3. size limits
	{
		r := c.Rng.Fork()
		s := newSecrets(r, 64)
		// (a) oversize plain message refused by the writer
		var buf bytes.Buffer
		w := p2p.VerifNewFrameRW(conn{nil, &buf}, s.aes, s.mac, s.egSeed, s.inSeed, false)
		big := make([]byte, 1<<24-1) // + 1 byte of code = 2^24 > maxUint24
		err := w.WriteMsg(1, big)
		c.Eval("frame/oversize-write", "oversize-write")
		if err == nil || buf.Len() != 0 {
			c.Violate("frame-oversize-written", "a frame larger than 2^24-1 was written", H{"size": len(big)})
		}
		ws := p2p.VerifNewFrameRW(conn{nil, &buf}, s.aes, s.mac, s.egSeed, s.inSeed, true)
		err = ws.WriteMsg(1, make([]byte, 1<<24))
		c.Eval("frame/oversize-write-snappy", "oversize-write-snappy")
		if err == nil || buf.Len() != 0 {
			c.Violate("frame-oversize-written-snappy", "a snappy message larger than 2^24-1 was accepted by WriteMsg", H{"size": 1 << 24})
		}
		// (b) snappy payloads whose declared length is at / over the limit, corrupt varints:
		// writer without snappy, reader with snappy => the payload is read as attacker-chosen snappy data
		decl := [][]byte{uvarint(1<<24 - 1), uvarint(1 << 24), uvarint(1<<32 - 1), uvarint(1 << 32), uvarint(1<<63 + 5),
			{0xff, 0xff, 0xff, 0xff, 0xff, 0xff, 0xff, 0xff, 0xff, 0x01}, {0xff, 0xff, 0xff, 0xff, 0xff, 0xff, 0xff, 0xff, 0xff, 0x02},
			{0x80, 0x80, 0x80, 0x80, 0x80, 0x80, 0x80, 0x80, 0x80, 0x80, 0x01}, {0x80}, {}, {0x00}, {0x05, 0x10, 'h', 'e', 'l', 'l', 'o'}, {0x05, 0x10, 'h'}}
		for i, d := range decl {
			pl := append(append([]byte(nil), d...), r.Bytes(i%3)...)
			if i >= 11 {
				pl = d
			}
			s2 := newSecrets(r, 256)
			stream, _, w2, _ := writeSession(s2, false, []msg{{7, pl}})
			var ms0, ms1 runtime.MemStats
			runtime.ReadMemStats(&ms0)
			steps, rd, pv := readSession(s2, true, stream, 1)
			runtime.ReadMemStats(&ms1)
			c.Eval("frame/snappy-declared-length", vh.Hex(d))
			if pv != nil {
				c.Violate("frame-readmsg-panic", fmt.Sprint(pv), H{"payload": vh.Hex(pl)})
				continue
			}
			n, nerr := snappy.DecodedLen(pl)
			if nerr == nil && n > 1<<24-1 && steps[0].class != "toolarge" {
				c.Violate("frame-snappy-overlimit-not-refused", "snappy payload declaring more than 2^24-1 bytes not refused with errPlainMessageTooLarge",
					H{"payload": vh.Hex(pl), "declared": n, "class": steps[0].class})
			}
			if ms1.TotalAlloc-ms0.TotalAlloc > 1<<24+1<<20 {
				c.Violate("frame-snappy-alloc", "reader allocated more than the frame limit for a small snappy payload", H{"payload": vh.Hex(pl), "alloc": ms1.TotalAlloc - ms0.TotalAlloc})
			}
			sdec := map[string]string{}
			snapDecEntry(sdec, pl)
			modelRead(c, m, "snappy-declared "+vh.Hex(d), s2, true, stream, steps, aesTable(w2.AESCalls, rd.AESCalls), sdec)
			obs := "err"
			if nerr == nil {
				obs = fmt.Sprintf("ok %d", n)
			}
			c.Correspond("snappy.DecodedLen~snappy_declen", vh.Hex(pl), obs, m.Ask("declen "+vh.Hex(pl)))
		}
		// (c) frames crafted by an authenticated peer (it knows the secrets): arbitrary header size
		// field and content — empty frame, non-canonical / non-integer message codes, and a header
		// announcing the maximal frame with nothing behind it (allocation bound).
		type craft struct {
			name  string
			fsize uint32
			body  []byte
		}
		pad := func(b []byte) []byte {
			for len(b)%16 != 0 {
				b = append(b, 0)
			}
			return b
		}
		crafts := []craft{
			{"empty", 0, nil}, {"code-00", 1, pad([]byte{0x00})}, {"code-8105", 2, pad([]byte{0x81, 0x05})},
			{"code-list", 1, pad([]byte{0xc0})}, {"code-9bytes", 10, pad([]byte{0x89, 1, 2, 3, 4, 5, 6, 7, 8, 9})},
			{"code-leading-zero", 3, pad([]byte{0x82, 0x00, 0x01})}, {"code-truncated", 1, pad([]byte{0x83})},
			{"code-8bytes", 12, pad([]byte{0x88, 0xff, 2, 3, 4, 5, 6, 7, 8, 0xaa, 0xbb, 0xcc})},
			{"size-lt-body", 3, pad(append([]byte{0x05}, r.Bytes(20)...))},
			{"code-80", 5, pad([]byte{0x80, 1, 2, 3, 4})},
			{"max-size-no-body", 1<<24 - 1, nil}, {"size-2^24-16-short-body", 1<<24 - 16, r.Bytes(64)},
		}
		for _, cr := range crafts {
			s3 := newSecrets(r, 1<<10)
			rw := newRawWriter(s3)
			stream := rw.frame(cr.fsize, cr.body)
			stream = append(stream, rw.frame(2, pad([]byte{0x09, 0x77}))...) // a good frame behind it
			debug.FreeOSMemory()
			var ms0, ms1 runtime.MemStats
			runtime.ReadMemStats(&ms0)
			steps, rd, pv := readSession(s3, false, stream, 2)
			runtime.ReadMemStats(&ms1)
			c.Eval("frame/crafted-"+cr.name, "crafted-"+cr.name)
			if pv != nil {
				c.Violate("frame-readmsg-panic", fmt.Sprintf("ReadMsg panics on authenticated crafted frame %s: %v", cr.name, pv), H{"kind": "frame-crafted", "stream": vh.Hex(stream)})
				continue
			}
			alloc := ms1.TotalAlloc - ms0.TotalAlloc
			if alloc > 1<<24+15+1<<18 {
				c.Violate("frame-alloc-exceeds-limit", fmt.Sprintf("ReadMsg allocated %d bytes for one frame (limit 2^24+15)", alloc), H{"craft": cr.name, "alloc": alloc})
			}
			c.Correspond("rlpxFrameRW.ReadMsg buffer~frame_buf_size", cr.name, fmt.Sprint((cr.fsize+15)/16*16), m.Ask(fmt.Sprintf("bufsize %d", cr.fsize)))
			if cr.fsize < 1<<20 {
				s3.extendKS(len(stream) + 64)
				modelRead(c, m, "crafted "+cr.name, s3, false, stream, steps, aesTable(rw.calls, rd.AESCalls), nil)
			} else if len(steps) != 1 || steps[0].class != "short" {
				c.Violate("frame-crafted-"+cr.name, "expected a short-read error", H{"steps": fmt.Sprint(steps)})
			}
		}
	}
}

func uvarint(v uint64) []byte {
	b := make([]byte, binary.MaxVarintLen64)
	return b[:binary.PutUvarint(b, v)]
}

// rawWriter: an authenticated peer that frames arbitrary bytes (harness-side
// re-implementation of the sender, used only to craft adversarial but correctly
// MAC'd frames; its AES calls are recorded for the model's oracle table).
type rawWriter struct {
	enc   cipher.Stream
	macc  cipher.Block
	mac   hash.Hash
	calls []p2p.VerifAESCall
}

func newRawWriter(s *secrets) *rawWriter {
	encc, _ := aes.NewCipher(s.aes)
	macc, _ := aes.NewCipher(s.mac)
	mac := sha3.NewKeccak256()
	mac.Write(s.egSeed)
	return &rawWriter{enc: cipher.NewCTR(encc, make([]byte, 16)), macc: macc, mac: mac}
}
func (w *rawWriter) update(seed []byte) []byte {
	buf := make([]byte, 16)
	in := w.mac.Sum(nil)[:16]
	w.macc.Encrypt(buf, in)
	w.calls = append(w.calls, p2p.VerifAESCall{In: append([]byte(nil), in...), Out: append([]byte(nil), buf...)})
	for i := range buf {
		buf[i] ^= seed[i]
	}
	w.mac.Write(buf)
	return w.mac.Sum(nil)[:16]
}
func (w *rawWriter) frame(fsize uint32, body []byte) []byte {
	head := make([]byte, 16)
	head[0], head[1], head[2] = byte(fsize>>16), byte(fsize>>8), byte(fsize)
	copy(head[3:], []byte{0xC2, 0x80, 0x80})
	w.enc.XORKeyStream(head, head)
	out := append([]byte(nil), head...)
	out = append(out, w.update(head)...)
	ct := make([]byte, len(body))
	w.enc.XORKeyStream(ct, body)
	w.mac.Write(ct)
	out = append(out, ct...)
	seed := w.mac.Sum(nil)
	return append(out, w.update(seed)...)
}

// ------------------------------------------------------------------ discovery

type dkey struct {
	priv *discover.PrivateKey
	id   discover.NodeID
}

func newKey(r *vh.RNG) dkey {
	for {
		k := crypto.ToECDSAUnsafe(r.Bytes(32))
		if k != nil {
			return dkey{k, discover.PubkeyID(k.PubKey().ToECDSA())}
		}
	}
}

func epText(e discover.VerifEndpoint) string {
	return fmt.Sprintf("%s/%d/%d", vh.Hex(e.IP), e.UDP, e.TCP)
}
func restText(rest [][]byte) string {
	if len(rest) == 0 {
		return "-"
	}
	var p []string
	for _, r := range rest {
		p = append(p, vh.Hex(r))
	}
	return strings.Join(p, ",")
}

func genEndpoint(r *vh.RNG) discover.VerifEndpoint {
	ipl := []int{4, 16, 4, 0, 1}[r.Intn(5)]
	ip := r.Bytes(ipl)
	if ipl == 1 {
		ip[0] = []byte{0, 0x7f, 0x80}[r.Intn(3)]
	}
	ports := []uint16{0, 1, 127, 128, 255, 256, 30303, 65535}
	return discover.VerifEndpoint{IP: ip, UDP: ports[r.Intn(len(ports))], TCP: ports[r.Intn(len(ports))]}
}
func genRest(r *vh.RNG) [][]byte {
	if r.Chance(60) {
		return nil
	}
	var out [][]byte
	for i := 0; i < 1+r.Intn(3); i++ {
		switch r.Intn(5) {
		case 0:
			out = append(out, []byte{byte(r.Intn(128))})
		case 1:
			b, _ := rlp.EncodeToBytes(r.Bytes(r.Intn(70)))
			out = append(out, b)
		case 2:
			b, _ := rlp.EncodeToBytes([]interface{}{r.Bytes(3), []interface{}{}, uint(7)})
			out = append(out, b)
		case 3:
			out = append(out, []byte{0xc2, 0xff, 0xff}) // a list whose content is not RLP: Raw() does not look inside
		case 4:
			out = append(out, []byte{0x81, 0x05}) // non-canonical single byte: accepted by Stream.Raw
		}
	}
	return out
}

var expVals = []uint64{0, 1, 127, 128, 1 << 32, 1<<63 - 1, 1 << 63, 1<<64 - 1}

// genRequest returns the Go request, its text form for the model, and the aqua type byte.
func genRequest(r *vh.RNG, kind int) (interface{}, string, byte) {
	exp := expVals[r.Intn(len(expVals))]
	if r.Bool() {
		exp = uint64(time.Now().Unix()) + 20
	}
	rest := genRest(r)
	switch kind {
	case 0:
		v := []uint{0, 4, 127, 128, 1 << 40, 1<<64 - 1}[r.Intn(6)]
		f, t := genEndpoint(r), genEndpoint(r)
		return discover.VerifMakePing(v, f, t, exp, rest), fmt.Sprintf("P;%d;%s;%s;%d;%s", v, epText(f), epText(t), exp, restText(rest)), discover.VerifAquaPing
	case 1:
		t := genEndpoint(r)
		tok := r.Bytes([]int{0, 1, 32, 60}[r.Intn(4)])
		return discover.VerifMakePong(t, tok, exp, rest), fmt.Sprintf("O;%s;%s;%d;%s", epText(t), vh.Hex(tok), exp, restText(rest)), discover.VerifAquaPong
	case 2:
		var tg discover.NodeID
		copy(tg[:], r.Bytes(64))
		return discover.VerifMakeFindnode(tg, exp, rest), fmt.Sprintf("F;%s;%d;%s", vh.Hex(tg[:]), exp, restText(rest)), discover.VerifAquaFindnode
	default:
		n := []int{0, 1, 2, 5, discover.VerifMaxNeighbors()}[r.Intn(5)]
		var ns []discover.VerifNode
		var txt []string
		for i := 0; i < n; i++ {
			e := genEndpoint(r)
			var id discover.NodeID
			copy(id[:], r.Bytes(64))
			ns = append(ns, discover.VerifNode{IP: e.IP, UDP: e.UDP, TCP: e.TCP, ID: id})
			txt = append(txt, fmt.Sprintf("%s/%d/%d/%s", vh.Hex(e.IP), e.UDP, e.TCP, vh.Hex(id[:])))
		}
		nt := "-"
		if len(txt) > 0 {
			nt = strings.Join(txt, "|")
		}
		return discover.VerifMakeNeighbors(ns, exp, rest), fmt.Sprintf("N;%s;%d;%s", nt, exp, restText(rest)), discover.VerifAquaNeighbors
	}
}

type decObs struct {
	line     string
	class    string
	panicked bool
	pval     string
}

func goDecode(netcompat bool, buf []byte) decObs {
	var o decObs
	b := append([]byte(nil), buf...) // decodePacket rewrites the type byte in place when netcompat
	p, pv := vh.CatchPanic(func() {
		class, kind, reenc, id, hash := discover.VerifDecodePacket(netcompat, b)
		o.class = class
		switch class {
		case "ok":
			o.line = "ok " + kind + " " + vh.Hex(id[:]) + " " + vh.Hex(hash) + " " + vh.Hex(reenc)
		case "unknowntype":
			o.line = "unknowntype " + vh.Hex(id[:])
		case "badbody":
			o.line = "badbody " + vh.Hex(id[:]) + " " + kind
		case "toosmall":
			o.line = "toosmall"
			if (id != discover.NodeID{}) { // errPacketTooSmall after authentication (signed data shorter than type + tag)
				o.line = "toosmallbody " + vh.Hex(id[:])
				o.class = "toosmallbody"
			}
		default:
			o.line = class
		}
	})
	if p {
		o = decObs{line: "panic", class: "panic", panicked: true, pval: fmt.Sprint(pv)}
	}
	return o
}

func modelDecodeReq(netcompat bool, buf []byte) string {
	rh, rs, rr := "0x", "0x", "none"
	if len(buf) >= discover.VerifHeadSize+1 {
		h := crypto.Keccak256(buf[discover.VerifHeadSize:])
		sig := buf[discover.VerifMacSize:discover.VerifHeadSize]
		rh, rs = vh.Hex(h), vh.Hex(sig)
		if id, err := discover.VerifRecoverNodeID(h, sig); err == nil {
			rr = vh.Hex(id[:])
		}
	}
	return fmt.Sprintf("decode %s %s %s %s %s", b01(netcompat), vh.Hex(buf), rh, rs, rr)
}

// checkDatagram: implementation vs model + direct oracle (never panics) on one datagram.
// modelStride: in the exhaustive truncation / mutation sweeps the model is asked on every
// modelStride-th datagram (the implementation and the direct oracle run on all of them).
var modelStride, strideCtr = 1, 0

// time budget of the exhaustive discovery sweeps: the position step and the model stride of
// each packet's sweep are derived from what is left of the budget and the measured cost of one
// implementation run / one model query, so that the tier's wall time is bounded on any machine
// while everything the budget allows is covered (thorough on an idle machine: every position).
var (
	sweepModelTime   time.Duration
	sweepModelCalls  int
	sweepDeadline    time.Time
	sweepPacketsLeft int
)

func planSweep(c *vh.Ctx, positions int) (pstep, stride int) {
	costModel := 8 * time.Millisecond
	if sweepModelCalls > 20 {
		costModel = sweepModelTime / time.Duration(sweepModelCalls)
	}
	costGo := 400 * time.Microsecond // decode + recover + sign of a re-signed variant
	share := time.Until(sweepDeadline)
	if sweepPacketsLeft > 1 {
		share /= time.Duration(sweepPacketsLeft)
	}
	if share < 50*time.Millisecond {
		share = 50 * time.Millisecond
	}
	total := 4 * positions // truncations, mutations, re-signed truncations, re-signed mutations
	pstep = 1
	if goAll := time.Duration(total) * costGo; goAll > share/2 {
		pstep = int(2*goAll/share) + 1
		total = total/pstep + 4
	}
	rest := share - time.Duration(total)*costGo
	stride = 1
	if need := time.Duration(total) * costModel; need > rest {
		if rest < costModel {
			rest = costModel
		}
		stride = int(need/rest) + 1
	}
	c.Count(fmt.Sprintf("discover/sweep-plan pstep=%d", pstep))
	return pstep, stride
}

func checkDatagramSampled(c *vh.Ctx, m *vh.Model, class string, netcompat bool, buf []byte) decObs {
	strideCtr++
	if strideCtr%modelStride == 0 {
		return checkDatagram(c, m, class, netcompat, buf)
	}
	o := goDecode(netcompat, buf)
	c.Eval(class, "")
	c.Count("discover/result-" + o.class)
	if o.panicked {
		return checkDatagram(c, m, class, netcompat, buf) // full treatment (violation record)
	}
	return o
}

func checkDatagram(c *vh.Ctx, m *vh.Model, class string, netcompat bool, buf []byte) decObs {
	o := goDecode(netcompat, buf)
	key := ""
	if o.class == "ok" || o.class == "badbody" || o.class == "panic" {
		key = vh.Hex(buf)
	}
	c.Eval(class, key)
	c.Count("discover/result-" + o.class)
	tm := time.Now()
	ans := m.Ask(modelDecodeReq(netcompat, buf))
	sweepModelTime += time.Since(tm)
	sweepModelCalls++
	c.Correspond("decodePacket~decode_packet", fmt.Sprintf("netcompat=%v %s", netcompat, vh.Hex(buf)), o.line, ans)
	if o.panicked {
		rep := H{"kind": "decode", "netcompat": netcompat, "buf": vh.Hex(buf), "panic": o.pval, "sigdata_len": len(buf) - discover.VerifHeadSize}
		if !netcompat && len(buf)-discover.VerifHeadSize < 5 && strings.Contains(o.pval, "slice bounds out of range") {
			c.Violate("discover-decodepacket-short-sigdata-panic",
				"decodePacket panics (remote crash of the UDP read loop) on a correctly hashed and signed datagram whose signed data is shorter than 5 bytes: sigdata[1+4:] is sliced without a length check: "+o.pval, rep)
		} else {
			c.Violate("discover-decodepacket-panic/"+vh.Hex(buf), "decodePacket panics: "+o.pval, rep)
		}
	}
	return o
}

// sealed: hash || sig || sigdata for arbitrary signed data (what any key holder can produce)
func sealed(k dkey, sigdata []byte) []byte {
	sig, err := crypto.Sign(crypto.Keccak256(sigdata), k.priv)
	if err != nil {
		panic(err)
	}
	tail := append(append([]byte(nil), sig...), sigdata...)
	return append(crypto.Keccak256(tail), tail...)
}

func discovery(c *vh.Ctx, m *vh.Model) {
	r := c.Rng.Fork()
	keys := []dkey{newKey(r), newKey(r)}
	udps := map[bool]*discover.VerifUDP{}
	for _, nc := range []bool{false, true} {
		chain := uint64(61717561)
		if nc {
			chain = 1
		}
		u, err := discover.VerifNewUDP(keys[0].priv, chain)
		if err != nil {
			c.Fatal("cannot create udp transport: %v", err)
		}
		if u.Netcompat() != nc {
			c.Fatal("netcompat mismatch")
		}
		udps[nc] = u
		defer u.Close()
	}
	from := &net.UDPAddr{IP: net.IP{10, 1, 2, 3}, Port: 30399}
	handle := func(nc bool, buf []byte) {
		b := append([]byte(nil), buf...)
		var cls string
		done := make(chan struct{})
		var pv interface{}
		var p bool
		go func() {
			p, pv = vh.CatchPanic(func() { cls = udps[nc].HandlePacket(from, b) })
			close(done)
		}()
		select {
		case <-done:
		case <-time.After(20 * time.Second):
			c.Violate("discover-handlepacket-wedged/"+vh.Hex(buf), "handlePacket did not return within 20s", H{"kind": "handle", "netcompat": nc, "buf": vh.Hex(buf)})
			return
		}
		c.Count("discover/handlePacket-" + cls)
		if p {
			sig := "discover-handlepacket-panic/" + vh.Hex(buf)
			if !nc && len(buf)-discover.VerifHeadSize < 5 && strings.Contains(fmt.Sprint(pv), "slice bounds out of range") {
				sig = "discover-decodepacket-short-sigdata-panic"
			}
			c.Violate(sig, "udp.handlePacket panics (the read loop goroutine has no recover: the process dies): "+fmt.Sprint(pv),
				H{"kind": "handle", "netcompat": nc, "buf": vh.Hex(buf), "panic": fmt.Sprint(pv)})
		}
	}

	sweepDeadline = time.Now().Add(time.Duration(c.Scale(9, 360)) * time.Second)
	sweepPacketsLeft = c.Scale(1, 6) * 8
	nValid := c.Scale(10, 80)
	for i := 0; i < nValid; i++ {
		for kind := 0; kind < 4; kind++ {
			for _, nc := range []bool{false, true} {
				k := keys[r.Intn(2)]
				req, txt, ptype := genRequest(r, kind)
				wire := ptype
				if nc && r.Chance(70) {
					wire = ptype - 133 // the 1..4 numbering of the original network
				}
				pkt, hash, err := discover.VerifEncodePacket(nc, k.priv, wire, req)
				if err != nil {
					c.Fatal("encodePacket: %v", err)
				}
				// model encoder (sign oracle = the signature the implementation produced)
				sh := vh.Hex(crypto.Keccak256(pkt[discover.VerifHeadSize:]))
				c.Correspond("encodePacket~encode_packet", txt, vh.Hex(pkt),
					m.Ask(fmt.Sprintf("encode %s %d %s %s %s", b01(nc), wire, txt, sh, vh.Hex(pkt[discover.VerifMacSize:discover.VerifHeadSize]))))
				o := checkDatagram(c, m, fmt.Sprintf("discover/valid kind=%d netcompat=%v", kind, nc), nc, pkt)
				// direct oracle: round trip, identity, hash
				x := 5
				if nc {
					x = 1
				}
				body := pkt[discover.VerifHeadSize+x:]
				want := "ok " + []string{"ping", "pong", "findnode", "neighbors"}[kind] + " " + vh.Hex(k.id[:]) + " " + vh.Hex(hash) + " " + vh.Hex(body)
				if o.line != want {
					c.Violate("discover-roundtrip/"+vh.Hex(pkt[:8]), "decodePacket(encodePacket(req)) does not return req / the signer / the hash",
						H{"kind": "decode", "netcompat": nc, "buf": vh.Hex(pkt), "want": want, "got": o.line})
				}
				handle(nc, pkt)
				if i >= c.Scale(1, 6) {
					continue
				}
				// every truncation (quick tier: every position of packets up to 160 bytes, a stride on longer ones)
				var pstep int
				pstep, modelStride = planSweep(c, len(pkt))
				sweepPacketsLeft--
				for l := 0; l < len(pkt); l += pstep {
					ot := checkDatagramSampled(c, m, "discover/truncated", nc, pkt[:l])
					if ot.class == "ok" {
						c.Violate("discover-truncated-accepted/"+vh.Hex(pkt[:l]), "a truncated datagram was accepted", H{"kind": "decode", "netcompat": nc, "buf": vh.Hex(pkt[:l])})
					}
					if l%7 == 0 {
						handle(nc, pkt[:l])
					}
				}
				// every single-byte mutation
				for p := r.Intn(pstep); p < len(pkt); p += pstep {
					t := append([]byte(nil), pkt...)
					t[p] ^= byte(1 + r.Intn(255))
					om := checkDatagramSampled(c, m, "discover/mutated", nc, t)
					if om.class == "ok" {
						c.Violate("discover-mutated-accepted/"+vh.Hex(t), "a datagram with one byte changed was accepted", H{"kind": "decode", "netcompat": nc, "buf": vh.Hex(t)})
					}
					if p%11 == 0 {
						handle(nc, t)
					}
				}
				// re-signed malformed bodies: the attacker owns a key and signs whatever it likes
				sd := pkt[discover.VerifHeadSize:]
				for l := 1; l <= len(sd); l += pstep { // every truncation of the signed data, re-signed
					buf := sealed(keys[1], sd[:l])
					checkDatagramSampled(c, m, "discover/resigned-truncated", nc, buf)
					if l <= 8 || l%9 == 0 {
						handle(nc, buf)
					}
				}
				for p := r.Intn(pstep); p < len(sd); p += pstep { // every single-byte mutation of the signed data, re-signed
					t := append([]byte(nil), sd...)
					t[p] ^= byte(1 + r.Intn(255))
					buf := sealed(keys[1], t)
					checkDatagramSampled(c, m, "discover/resigned-mutated", nc, buf)
					if p%13 == 0 {
						handle(nc, buf)
					}
				}
			}
		}
	}
	// short signed data, all type bytes of interest, both modes (the slice-bounds defect lives here)
	for _, nc := range []bool{false, true} {
		for _, t := range []byte{0, 1, 2, 3, 4, 5, 122, 123, 132, 133, 134, 135, 136, 137, 138, 255} {
			for l := 1; l <= 6; l++ {
				sd := append([]byte{t}, []byte("aqua\xc0")[:l-1]...)
				buf := sealed(keys[1], sd)
				checkDatagram(c, m, fmt.Sprintf("discover/short-sigdata len=%d", l), nc, buf)
				handle(nc, buf)
			}
		}
	}
	// signed random / structured-random bodies
	nRand := c.Scale(300, 6000)
	for i := 0; i < nRand; i++ {
		nc := r.Bool()
		t := byte(134 + r.Intn(4))
		if nc && r.Bool() {
			t -= 133
		}
		sd := []byte{t}
		if !nc {
			sd = append(sd, []byte("aqua")...)
		}
		switch r.Intn(4) {
		case 0:
			sd = append(sd, r.Bytes(r.Intn(40))...)
		case 1: // a list header with random content
			n := r.Intn(50)
			sd = append(sd, byte(0xc0+n))
			sd = append(sd, r.Bytes(n+r.Intn(3)-1+1)...)
		case 2: // right shape, random field encodings
			var items []interface{}
			for j := 0; j < r.Intn(6); j++ {
				switch r.Intn(4) {
				case 0:
					items = append(items, r.Bytes(r.Intn(70)))
				case 1:
					items = append(items, uint64(r.Uint64()>>uint(r.Intn(64))))
				case 2:
					items = append(items, []interface{}{r.Bytes(4), uint(r.Intn(70000)), uint(r.Intn(70000))})
				case 3:
					items = append(items, []interface{}{})
				}
			}
			b, _ := rlp.EncodeToBytes(items)
			sd = append(sd, b...)
		case 3: // long-form sizes
			sd = append(sd, 0xf8+byte(r.Intn(8)))
			sd = append(sd, r.Bytes(r.Intn(12))...)
		}
		buf := sealed(keys[1], sd)
		checkDatagram(c, m, "discover/resigned-random", nc, buf)
		if i%5 == 0 {
			handle(nc, buf)
		}
	}
	// unsigned random strings
	for i := 0; i < c.Scale(200, 3000); i++ {
		nc := r.Bool()
		buf := r.Bytes([]int{0, 1, 96, 97, 98, 99, 101, 102, 130, 300, 1280}[r.Intn(11)])
		checkDatagram(c, m, "discover/random", nc, buf)
		if i%5 == 0 {
			handle(nc, buf)
		}
	}
	// expiration rule
	now := uint64(time.Now().Unix())
	for _, ts := range []uint64{0, 1, now - 100, now - 2, now + 3, now + 100, 1<<63 - 62135596800 - 1, 1<<63 - 62135596800, 1<<63 - 1, 1 << 63, 1<<64 - 1, 1 << 62} {
		n0 := time.Now().Unix()
		e := discover.VerifExpired(ts)
		if time.Now().Unix() != n0 {
			continue
		}
		c.Eval("discover/expired", fmt.Sprintf("exp%d", ts))
		c.Correspond("expired~expired", fmt.Sprintf("ts=%d now=%d", ts, n0), fmt.Sprint(e), m.Ask(fmt.Sprintf("expired %d %d", ts, n0)))
	}
}

// ------------------------------------------------------------------ replay

func replay(c *vh.Ctx, m *vh.Model, file string) {
	raw, err := os.ReadFile(file)
	if err != nil {
		c.Fatal("cannot read replay: %v", err)
	}
	var doc struct {
		Replay map[string]interface{} `json:"replay"`
	}
	if err := json.Unmarshal(raw, &doc); err != nil {
		c.Fatal("bad replay file: %v", err)
	}
	rp := doc.Replay
	str := func(k string) string { s, _ := rp[k].(string); return s }
	bl := func(k string) bool { b, _ := rp[k].(bool); return b }
	switch str("kind") {
	case "decode", "handle":
		checkDatagram(c, m, "replay/decode", bl("netcompat"), vh.UnHex(str("buf")))
	case "child-case":
		ch := startChild(c, str("case"))
		ch.model = m
		ch.finish(c)
	case "queue-deliver":
		pm, err := aqua.VerifNewPM(20)
		if err != nil {
			c.Fatal("cannot build protocol manager: %v", err)
		}
		queueDeliveries(c, m, pm)
	case "disc-reason", "base-msg", "protohandshake":
		baseProtocolProbes(c, m, c.Rng.Fork())
	case "frame-io":
		frameIOProbes(c, m)
	case "frame-lifetime":
		replayLifetime(c, m, rp)
	case "discover-history":
		discoveryHistories(c, m)
	case "discover-lifetime":
		lifetimeDiscovery(c)
	case "frame-tamper":
		s := &secrets{aes: vh.UnHex(str("aes")), mac: vh.UnHex(str("mac")), egSeed: vh.UnHex(str("egress_seed")), inSeed: vh.UnHex(str("ingress_seed"))}
		orig, t := vh.UnHex(str("original_stream")), vh.UnHex(str("tampered_stream"))
		steps, _, _ := readSession(s, bl("snappy"), orig, 1000)
		var ms []msg
		var ends []int
		for _, st := range steps {
			if st.class == "" {
				ms = append(ms, msg{st.code, st.payload})
				ends = append(ends, st.used)
			}
		}
		c.Eval("replay/frame-tamper", "replay")
		tamperOracle(c, str("tamper"), s, bl("snappy"), ms, orig, t, ends, 0)
	default:
		c.Note("replay kind %q is not replayable by input; re-running the generators", str("kind"))
		frames(c, m)
		discovery(c, m)
	}
}

func main() {
	log.Root().SetHandler(log.DiscardHandler()) // the node's own logging is not an observable
	if os.Getenv("VERIF_C17_CHILD") != "" {
		childMain() // the sub-protocol consumers under an adversarial peer, in a process that may die
		return
	}
	c := vh.Init("C17")
	m := c.StartModel()
	defer m.Close()
	c.Res.Rule = "frame sessions between two real rlpxFrameRW (random secrets, 1-4 messages of sizes 0,1,15,16,17,31,32,33,100, 2^16 (thorough: 2^20, 2^24-2), with and without snappy): every single-byte flip, drop and truncation position of the short streams, sampled positions of the long ones; frames crafted by an authenticated peer (bad codes, size-field lies, over-limit snappy lengths); discovery datagrams: valid packets of the four types in both network modes, every truncation, every single-byte mutation, every truncation and mutation of the signed data re-signed by an attacker key, signed random bodies, unsigned random strings; aqua sub-protocol payloads for every message code on a mock peer; lifetime of delivered data: sessions of 2..8 messages read under consumption schedules (all reads first, reverse, lagging, partial, discarded, random) with a writer that reuses its payload buffer, and discovery packets decoded from one reused read buffer; sub-protocol responses driven through to their consumers: a real downloader queue (reserve, then deliveries with more/fewer/zero/duplicated/reordered/mismatching/unsolicited/cancelled/expired entries), and in a child process a node whose peer answers a downloader sync and fetcher requests adversarially, sends unsolicited responses, inconsistent announcements and invalid transactions (a crash of the child = a crash of the node); RLPx auth/ack packets (real, truncated, mutated, size-prefix lies, correctly encrypted adversarial bodies, noise) through readHandshakeMsg and the full handshake functions, stalling peers over net.Pipe. A case is distinct and non-trivial when the decoder got past authentication (accepted, bad body or panic) or is a distinct session/limit probe."
	// watchdog + memory ceiling for "never fatal"
	debug.SetMemoryLimit(3 << 30)
	go func() {
		limit := 10 * time.Minute
		if c.Thorough() {
			limit = 60 * time.Minute
		}
		time.Sleep(limit)
		c.Fatal("watchdog: harness did not finish within %v (a handler is wedged)", limit)
	}()
	go func() {
		for {
			var ms runtime.MemStats
			runtime.ReadMemStats(&ms)
			if ms.HeapAlloc > 2<<30 {
				c.Violate("memory-ceiling", fmt.Sprintf("heap grew to %d bytes while handling network input", ms.HeapAlloc), H{"heap": ms.HeapAlloc})
				c.Finish()
				os.Exit(0)
			}
			time.Sleep(200 * time.Millisecond)
		}
	}()
	c.Assume("AES, the CTR key stream, snappy compression, ECDSA sign/recover are oracles of the executable model (tables recorded from the implementation's own calls or computed with the same library); Keccak-256 is computed by the model itself")
	c.Assume("Msg.Size equals the payload length (what p2p.Send passes)")
	if c.Replay != "" {
		replay(c, m, c.Replay)
		c.Finish()
		return
	}
	// constants of Net/Limits.v and Net/Frame.v against the Go constants
	c.Correspond("constants~Limits.v", "ProtocolMaxMsgSize softResponseLimit estHeaderRlpSize MaxBlockFetch MaxHeaderFetch MaxReceiptFetch MaxStateFetch baseProtocolMaxMsgSize maxUint24",
		goConsts(), m.Ask("consts"))
	t0 := time.Now()
	child := startChild(c, "")
	child.model = m
	finishHandshake := handshake(c, m)
	th := time.Now()
	frames(c, m)
	lifetimeFrames(c, m)
	frameIOProbes(c, m)
	t1 := time.Now()
	lifetimeDiscovery(c)
	discoveryHistories(c, m)
	discovery(c, m)
	t2 := time.Now()
	subproto(c, m)
	t3 := time.Now()
	finishHandshake()
	child.finish(c)
	c.Note("wall: handshake %.1fs (+%.1fs waiting for time-out probes), frames %.1fs, discovery %.1fs, sub-protocol %.1fs", th.Sub(t0).Seconds(), time.Since(t3).Seconds(), t1.Sub(th).Seconds(), t2.Sub(t1).Seconds(), t3.Sub(t2).Seconds())
	c.Finish()
}
