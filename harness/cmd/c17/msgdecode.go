package main

// handleMsg's per-message decoding against Net/Messages.v handle_decode (decode targets generated
// by reflection, interpreted with C11's typed model): valid payloads of every typed message built
// from real chain data, with trailing bytes, truncations, byte flips, dropped / duplicated /
// foreign elements, payloads of one message under the code of another, lying Size fields.

import (
	"fmt"
	"math/big"
	"strings"

	"gitlab.com/aquachain/aquachain/aqua"
	"gitlab.com/aquachain/aquachain/common"
	"gitlab.com/aquachain/aquachain/core/types"
	"gitlab.com/aquachain/aquachain/rlp"
	"gitlab.com/aquachain/aquachain/verifharness/vh"
)

func messageDecodeProbes(c *vh.Ctx, m *vh.Model, pm *aqua.VerifPM, run func(string, uint64, uint32, []byte) (string, []aqua.VerifReply)) {
	r := c.Rng.Fork()
	pm.SetAcceptTxs()
	blocks, receipts := pm.ExtendChain(4, -3)
	enc := func(v interface{}) []byte { b, _ := rlp.EncodeToBytes(v); return b }
	type body struct {
		Txs    []*types.Transaction
		Uncles []*types.Header
	}
	var txs []*types.Transaction
	var hdrs []*types.Header
	var bodies []body
	var rcpts [][]*types.Receipt
	for i, b := range blocks {
		txs = append(txs, b.Transactions()...)
		hdrs = append(hdrs, b.Header())
		bodies = append(bodies, body{b.Transactions(), b.Uncles()})
		rcpts = append(rcpts, receipts[i])
	}
	type ann struct {
		Hash   common.Hash
		Number uint64
	}
	valid := map[uint64][][]byte{
		aqua.NewBlockHashesMsg: {enc([]ann{{blocks[0].Hash(), 1}, {common.Hash{9}, 1 << 40}}), enc([]ann{})},
		aqua.TxMsg:             {enc(txs), enc(txs[:1]), enc([]*types.Transaction{})},
		aqua.BlockHeadersMsg:   {enc(hdrs), enc(hdrs[:1]), enc([]*types.Header{})},
		aqua.BlockBodiesMsg:    {enc(bodies), enc(bodies[:1]), enc([]body{})},
		aqua.NewBlockMsg:       {enc([]interface{}{blocks[0], big.NewInt(1000)}), enc([]interface{}{blocks[3], new(big.Int).Lsh(big.NewInt(1), 200)})},
		aqua.NodeDataMsg:       {enc([][]byte{{1, 2, 3}, {}, r.Bytes(300)}), enc([][]byte{})},
		aqua.ReceiptsMsg:       {enc(rcpts), enc(rcpts[:1]), enc([][]*types.Receipt{})},
	}
	codes := []uint64{aqua.NewBlockHashesMsg, aqua.TxMsg, aqua.BlockHeadersMsg, aqua.BlockBodiesMsg, aqua.NewBlockMsg, aqua.NodeDataMsg, aqua.ReceiptsMsg}
	check := func(class string, code uint64, size int, payload []byte) {
		cls, _ := run("msgdecode", code, uint32(size), payload)
		obs := cls
		switch cls {
		case "decode":
			obs = "reject"
		case "invalidcode":
			obs = "invalid"
		case "ok", "err":
			obs = "accept"
		}
		key := ""
		if obs == "accept" {
			key = fmt.Sprintf("%d/%s", code, vh.Hex(clipb(payload)))
		}
		c.Eval("msgdecode/"+class, key)
		ans := m.Ask(fmt.Sprintf("hdec %d %d %s", code, size, vh.Hex(payload)))
		if strings.HasPrefix(ans, "accept ") {
			ans = "accept"
		}
		c.Correspond("handleMsg msg.Decode~handle_decode", fmt.Sprintf("%s code=%d size=%d payload=%s", class, code, size, vh.Hex(clipb(payload))), obs, ans)
	}
	// the per-peer known sets (MarkTransaction / MarkBlock) against mark_known
	for _, blocks := range []bool{false, true} {
		which, max := "txs", 32768
		if blocks {
			which, max = "blocks", 1024
		}
		for _, n := range []int{0, 1, 2, max - 1, max, max + 1, max + 500} {
			d, rep := aqua.VerifKnownAfter(n, blocks)
			prev := n - 1
			if prev > max {
				prev = max
			}
			c.Eval("msgdecode/known-set-"+which, fmt.Sprintf("known%s%d", which, n))
			if n > 0 {
				c.Correspond("peer.Mark*~mark_known", fmt.Sprintf("%s: %d distinct hashes", which, n), fmt.Sprint(d), m.Ask(fmt.Sprintf("markknown %s %d 0 0", which, prev)))
				a, b := m.Ask(fmt.Sprintf("markknown %s %d 1 1", which, d)), m.Ask(fmt.Sprintf("markknown %s %d 1 0", which, d))
				obs := fmt.Sprint(rep)
				if obs == b {
					a = b // Pop removed another element than the one re-marked
				}
				c.Correspond("peer.Mark*~mark_known", fmt.Sprintf("%s: re-marking a known hash at %d", which, d), obs, a)
			}
			if d > max || rep > max {
				c.Violate("known-set-exceeds-cap/"+which, fmt.Sprintf("known %s set has %d entries (cap %d)", which, d, max), H{"kind": "known-set", "n": n})
			}
		}
	}
	nFlip := c.Scale(10, 120)
	for _, code := range codes {
		for _, v := range valid[code] {
			check("valid", code, len(v), v)
			check("trailing-garbage", code, len(v)+7, append(append([]byte(nil), v...), r.Bytes(7)...))
			check("size-larger-than-payload", code, len(v)+100, v)
			if len(v) > 3 {
				check("size-smaller-than-payload", code, len(v)-1-r.Intn(3), v)
				for i := 0; i < 4; i++ {
					t := v[:r.Intn(len(v))]
					check("truncated", code, len(t), t)
				}
			}
			for i := 0; i < nFlip && len(v) > 0; i++ {
				t := append([]byte(nil), v...)
				t[r.Intn(len(t))] ^= byte(1 + r.Intn(255))
				check("byte-flip", code, len(t), t)
			}
			// element-level edits of the top-level list
			var items []rlp.RawValue
			if rlp.DecodeBytes(v, &items) == nil && len(items) > 0 {
				check("element-dropped", code, 0, nil)
				d := enc(items[1:])
				check("element-dropped", code, len(d), d)
				d = enc(append(append([]rlp.RawValue{}, items...), items[0]))
				check("element-duplicated", code, len(d), d)
				d = enc(append(append([]rlp.RawValue{}, items...), rlp.RawValue{0x05}))
				check("foreign-element", code, len(d), d)
				d = enc(append(append([]rlp.RawValue{}, items...), rlp.RawValue{0xc0}))
				check("empty-list-element", code, len(d), d)
			}
			// the same bytes under every other typed code
			for _, other := range codes {
				if other != code {
					check("other-code", other, len(v), v)
				}
			}
		}
		for _, p := range [][]byte{nil, {0xc0}, {0x80}, {0xc1, 0xc0}, {0xc1, 0x80}, r.Bytes(20)} {
			check("tiny", code, len(p), p)
		}
	}
}
