package main

// doProtoHandshake under forced schedules (child process): two honest ends over a buffered
// in-memory connection; the remote handshake is already in the buffer before our writer goroutine
// gets to run (GOMAXPROCS(1), remote first), or ours goes first, or both run freely.  Afterwards a
// message travels each way.  An honest peer must never be rejected, whatever the schedule.

import (
	"bytes"
	"fmt"
	"net"
	"runtime"
	"sync"
	"time"

	"gitlab.com/aquachain/aquachain/p2p"
	"gitlab.com/aquachain/aquachain/p2p/discover"
	"gitlab.com/aquachain/aquachain/rlp"
	"gitlab.com/aquachain/aquachain/verifharness/vh"
)

type bufHalf struct {
	mu     sync.Mutex
	cond   *sync.Cond
	buf    []byte
	closed bool
}

func newBufHalf() *bufHalf { h := &bufHalf{}; h.cond = sync.NewCond(&h.mu); return h }
func (h *bufHalf) pending() int {
	h.mu.Lock()
	defer h.mu.Unlock()
	return len(h.buf)
}

// bufConn: a net.Conn whose writes never block (unbounded buffer) and whose deadlines are no-ops
type bufConn struct{ in, out *bufHalf }

func bufPipe() (*bufConn, *bufConn) {
	x, y := newBufHalf(), newBufHalf()
	return &bufConn{in: x, out: y}, &bufConn{in: y, out: x}
}
func (c *bufConn) Read(p []byte) (int, error) {
	c.in.mu.Lock()
	defer c.in.mu.Unlock()
	for len(c.in.buf) == 0 && !c.in.closed {
		c.in.cond.Wait()
	}
	if len(c.in.buf) == 0 {
		return 0, fmt.Errorf("closed")
	}
	n := copy(p, c.in.buf)
	c.in.buf = c.in.buf[n:]
	return n, nil
}
func (c *bufConn) Write(p []byte) (int, error) {
	c.out.mu.Lock()
	defer c.out.mu.Unlock()
	if c.out.closed {
		return 0, fmt.Errorf("closed")
	}
	c.out.buf = append(c.out.buf, p...)
	c.out.cond.Broadcast()
	return len(p), nil
}
func (c *bufConn) Close() error {
	for _, h := range []*bufHalf{c.in, c.out} {
		h.mu.Lock()
		h.closed = true
		h.cond.Broadcast()
		h.mu.Unlock()
	}
	return nil
}
func (c *bufConn) LocalAddr() net.Addr                { return &net.TCPAddr{IP: net.IP{127, 0, 0, 1}, Port: 1} }
func (c *bufConn) RemoteAddr() net.Addr               { return &net.TCPAddr{IP: net.IP{127, 0, 0, 1}, Port: 2} }
func (c *bufConn) SetDeadline(t time.Time) error      { return nil }
func (c *bufConn) SetReadDeadline(t time.Time) error  { return nil }
func (c *bufConn) SetWriteDeadline(t time.Time) error { return nil }

func childProtoHandshake(run func(string, func())) {
	rng := vh.NewRNG(11)
	var idA, idB discover.NodeID
	copy(idA[:], rng.Bytes(64))
	copy(idB[:], rng.Bytes(64))
	payloadAB, payloadBA := bytes.Repeat([]byte("ab"), 300), rng.Bytes(500)
	for _, pair := range []string{"v5-v5", "v5-v4"} { // the node under test is always v5; the peer is v5 or a pre-snappy v4
		for _, sched := range []string{"remote-first", "local-first", "concurrent"} {
			pair, sched := pair, sched
			name := "protohs/" + pair + "/" + sched
			run(name, func() {
				old := runtime.GOMAXPROCS(0)
				if sched != "concurrent" {
					runtime.GOMAXPROCS(1)
				}
				defer runtime.GOMAXPROCS(old)
				s := newSecrets(rng, 16)
				ca, cb := bufPipe()
				wd := time.AfterFunc(30*time.Second, func() { ca.Close(); cb.Close() })
				defer wd.Stop()
				started := time.Now()
				// "local" = the node under test (always v5, real doProtoHandshake); "remote" = the honest peer:
				// v5 = another real transport, v4 = a pre-snappy peer (plain frames, Version 4 in its handshake)
				local := p2p.VerifNewTransport(ca, s.aes, s.mac, s.egSeed, s.inSeed)
				remoteV5 := pair == "v5-v5"
				var remote *p2p.VerifTransport
				var raw *p2p.VerifFrameRW
				if remoteV5 {
					remote = p2p.VerifNewTransport(cb, s.aes, s.mac, s.inSeed, s.egSeed)
				} else {
					raw = p2p.VerifNewFrameRW(cb, s.aes, s.mac, s.inSeed, s.egSeed, false)
				}
				type hres struct {
					v   uint64
					err error
				}
				remoteHS := func() hres { // the remote's whole handshake
					if remoteV5 {
						v, err := remote.DoProtoHandshake(5, "remote", idB)
						return hres{v, err}
					}
					hs, _ := rlp.EncodeToBytes([]interface{}{uint64(4), "old-peer", []interface{}{}, uint64(0), idB[:]})
					if err := raw.WriteMsg(p2p.VerifHandshakeMsg, hs); err != nil {
						return hres{0, err}
					}
					code, _, payload, cls, err := raw.ReadMsg()
					if cls != "" {
						return hres{0, fmt.Errorf("reading the node's handshake: %s %v", cls, err)}
					}
					var their struct {
						Version uint64
						Rest    []rlp.RawValue `rlp:"tail"`
					}
					if code != p2p.VerifHandshakeMsg || rlp.DecodeBytes(payload, &their) != nil {
						return hres{0, fmt.Errorf("the node's handshake is not readable as plain RLP (code %d, %d bytes)", code, len(payload))}
					}
					return hres{their.Version, nil}
				}
				rc, lc := make(chan hres, 1), make(chan hres, 1)
				localHS := func() { v, err := local.DoProtoHandshake(5, "local", idA); lc <- hres{v, err} }
				switch sched {
				case "remote-first":
					go func() { rc <- remoteHS() }()
					for i := 0; ca.in.pending() == 0 && i < 1000000; i++ { // until the remote handshake sits in our buffer
						runtime.Gosched()
					}
					localHS() // reader inline: finds the remote handshake at once; the writer goroutine runs when it blocks
				case "local-first":
					go localHS()
					for i := 0; cb.in.pending() == 0 && i < 1000000; i++ {
						runtime.Gosched()
					}
					rc <- remoteHS()
				default:
					go func() { rc <- remoteHS() }()
					go localHS()
				}
				var lr, rr hres
				for i := 0; i < 2; i++ {
					select {
					case lr = <-lc:
						lc = nil
					case rr = <-rc:
						rc = nil
					case <-time.After(40 * time.Second):
					}
				}
				if time.Since(started) > 25*time.Second {
					fmt.Println("PHSUNDECIDED " + name + " (took longer than 25 s: machine load)")
					return
				}
				if lr.err != nil || rr.err != nil {
					fmt.Printf("PHSFAIL %s handshake between two honest ends failed: local=%v remote=%v\n", name, lr.err, rr.err)
					return
				}
				// a message each way
				fail := ""
				if remoteV5 {
					if err := local.Send(16, payloadAB); err != nil {
						fail = "send: " + err.Error()
					} else if c, p, err := remote.Read(); err != nil || c != 16 || !bytes.Equal(p, payloadAB) {
						fail = fmt.Sprintf("message local->remote not delivered intact: %v", err)
					} else if err := remote.Send(17, payloadBA); err != nil {
						fail = "send: " + err.Error()
					} else if c, p, err := local.Read(); err != nil || c != 17 || !bytes.Equal(p, payloadBA) {
						fail = fmt.Sprintf("message remote->local not delivered intact: %v", err)
					} else if !local.Snappy() || !remote.Snappy() {
						fail = "both ends speak version 5 but snappy is not enabled on both"
					}
				} else {
					if err := local.Send(16, payloadAB); err != nil {
						fail = "send: " + err.Error()
					} else if c, _, p, cls, _ := raw.ReadMsg(); cls != "" || c != 16 || !bytes.Equal(p, payloadAB) {
						fail = "message node->v4 peer not delivered intact (" + cls + ")"
					} else if err := raw.WriteMsg(17, payloadBA); err != nil {
						fail = "send: " + err.Error()
					} else if c, p, err := local.Read(); err != nil || c != 17 || !bytes.Equal(p, payloadBA) {
						fail = fmt.Sprintf("message v4 peer->node not delivered intact: %v", err)
					} else if local.Snappy() {
						fail = "snappy enabled towards a version-4 peer"
					}
				}
				if fail != "" {
					fmt.Printf("PHSFAIL %s %s\n", name, fail)
					return
				}
				flag := "nosnappy"
				if local.Snappy() {
					flag = "snappy"
				}
				fmt.Printf("PHS %d plain/%s\n", lr.v, flag) // the remote read our handshake as plain RLP
			})
		}
	}
}
