package main

import (
	"fmt"
	"strings"
	"time"

	"gitlab.com/aquachain/aquachain/aqua"
	"gitlab.com/aquachain/aquachain/aqua/downloader"
	"gitlab.com/aquachain/aquachain/common"
	"gitlab.com/aquachain/aquachain/p2p"
	"gitlab.com/aquachain/aquachain/rlp"
	"gitlab.com/aquachain/aquachain/verifharness/vh"
)

func goConsts() string {
	return fmt.Sprintf("%d %d %d %d %d %d %d %d %d", aqua.ProtocolMaxMsgSize, aqua.VerifSoftResponseLimit, aqua.VerifEstHeaderRlpSize,
		downloader.MaxBlockFetch, downloader.MaxHeaderFetch, downloader.MaxReceiptFetch, downloader.MaxStateFetch,
		p2p.VerifBaseProtocolMaxMsgSize, p2p.VerifMaxUint24)
}

var aquaCodes = []uint64{aqua.StatusMsg, aqua.NewBlockHashesMsg, aqua.TxMsg, aqua.GetBlockHeadersMsg, aqua.BlockHeadersMsg,
	aqua.GetBlockBodiesMsg, aqua.BlockBodiesMsg, aqua.NewBlockMsg, aqua.GetNodeDataMsg, aqua.NodeDataMsg, aqua.GetReceiptsMsg, aqua.ReceiptsMsg}

// subproto: aqua/handler.go handleMsg on a mock peer: size gate, code dispatch,
// serving limits (model: Net/Limits.v) and "never fatal" on malformed payloads.
func subproto(c *vh.Ctx, m *vh.Model) {
	r := c.Rng.Fork()
	nBlocks := 200
	pm, err := aqua.VerifNewPM(nBlocks)
	if err != nil {
		c.Fatal("cannot build protocol manager: %v", err)
	}
	defer pm.Stop()
	queueDeliveries(c, m, pm)
	run := func(what string, code uint64, size uint32, payload []byte) (string, []aqua.VerifReply) {
		class, replies, pv := pm.HandleOne(code, size, payload, 20*time.Second)
		rep := H{"kind": "handlemsg", "code": code, "size": size, "payload": vh.Hex(clipb(payload))}
		if class == "timeout" {
			c.Violate(fmt.Sprintf("handlemsg-wedged/code=%d/%s", code, what), "handleMsg did not return within 20s", rep)
		}
		if pv != nil {
			c.Violate(fmt.Sprintf("handlemsg-panic/code=%d/%s", code, vh.Hex(clipb(payload))), fmt.Sprintf("handleMsg panics: %v", pv), rep)
		}
		c.Count("handleMsg/result-" + class)
		return class, replies
	}
	gateOf := func(class string) string {
		switch class {
		case "toolarge":
			return "toolarge"
		case "extrastatus":
			return "extrastatus"
		case "invalidcode":
			return "invalid"
		case "ok", "decode", "err":
			return "decode"
		}
		return class
	}
	// --- size gate and dispatch: every code 0..0x12 and a few beyond, sizes around the limit
	codes := []uint64{}
	for i := uint64(0); i <= 0x12; i++ {
		codes = append(codes, i)
	}
	codes = append(codes, 0x7f, 0x100, 1<<63, 1<<64-1)
	for _, code := range codes {
		for _, size := range []uint32{0, 1, aqua.ProtocolMaxMsgSize - 1, aqua.ProtocolMaxMsgSize, aqua.ProtocolMaxMsgSize + 1, 1<<24 - 1, 1<<32 - 1} {
			payload := []byte{0xc0}
			if size == 0 {
				payload = nil
			}
			class, _ := run("gate", code, size, payload)
			c.Eval("handleMsg/gate", fmt.Sprintf("gate%d/%d", code, size))
			c.Correspond("handleMsg(size gate, dispatch)~handle_gate", fmt.Sprintf("code=%d size=%d", code, size), gateOf(class), m.Ask(fmt.Sprintf("gate %d %d", code, size)))
		}
	}
	// --- serving limits
	known := pm.Hashes
	serveCase := func(code uint64, limit int, name string, elems []interface{}, model []string) {
		payload, _ := rlp.EncodeToBytes(elems)
		class, replies := run(name, code, uint32(len(payload)), payload)
		obs := "err"
		if class == "ok" && len(replies) == 1 {
			obs = fmt.Sprintf("ok %d", replies[0].Count)
			if replies[0].Count > limit {
				c.Violate(fmt.Sprintf("handlemsg-limit-exceeded/%s", name), fmt.Sprintf("%s served %d entries, limit %d", name, replies[0].Count, limit), H{"kind": "handlemsg", "code": code, "n": len(elems)})
			}
			if int(replies[0].Size) > aqua.VerifSoftResponseLimit+1<<20 {
				c.Violate(fmt.Sprintf("handlemsg-response-too-large/%s", name), "response exceeds the soft limit by more than one entry", H{"size": replies[0].Size})
			}
		}
		ms := "-"
		if len(model) > 0 {
			ms = strings.Join(model, ",")
		}
		ans := m.Ask(fmt.Sprintf("serve %d %s", limit, ms))
		if f := strings.Fields(ans); len(f) == 4 && f[0] == "ok" {
			ans = "ok " + f[1]
		}
		c.Eval("handleMsg/serve-"+name, fmt.Sprintf("%s/%d/%s", name, len(elems), obs))
		c.Correspond("handleMsg(serving loop)~serve", fmt.Sprintf("%s n=%d", name, len(elems)), obs, ans)
	}
	for _, n := range []int{0, 1, 127, 128, 129, 255, 256, 257, 383, 384, 385, 1000} {
		for variant := 0; variant < 3; variant++ {
			// bodies / receipts: known block hashes (repeats allowed), unknown hashes, a bad element
			var eb, er, en []interface{}
			var mb, mr, mn []string
			for i := 0; i < n; i++ {
				switch {
				case variant == 2 && i == n/2:
					eb, er, en = append(eb, r.Bytes(31)), append(er, r.Bytes(31)), append(en, r.Bytes(33))
					mb, mr, mn = append(mb, "b"), append(mr, "b"), append(mn, "b")
				case variant >= 1 && r.Chance(30):
					h := common.BytesToHash(r.Bytes(32))
					eb, er, en = append(eb, h), append(er, h), append(en, h)
					mb, mr, mn = append(mb, "n"), append(mr, "n"), append(mn, "n")
				default:
					h := known[r.Intn(len(known))]
					eb, er = append(eb, h), append(er, h)
					mb = append(mb, fmt.Sprintf("h%d", pm.BodyRLPSize(h)))
					mr = append(mr, "h1")
					root := pm.StateRoot(r.Intn(len(known)))
					en = append(en, root)
					mn = append(mn, fmt.Sprintf("h%d", pm.TrieNodeSize(root)))
				}
			}
			serveCase(aqua.GetBlockBodiesMsg, downloader.MaxBlockFetch, "GetBlockBodies", eb, mb)
			serveCase(aqua.GetReceiptsMsg, downloader.MaxReceiptFetch, "GetReceipts", er, mr)
			serveCase(aqua.GetNodeDataMsg, downloader.MaxStateFetch, "GetNodeData", en, mn)
		}
	}
	// --- GetBlockHeaders: Amount / chain length / MaxHeaderFetch
	for _, amount := range []uint64{0, 1, 5, 191, 192, 193, 1000, 1<<63 - 1, 1 << 63, 1<<64 - 1} {
		for _, origin := range []uint64{0, 3, uint64(nBlocks) - 1, uint64(nBlocks), uint64(nBlocks) + 1} {
			payload, _ := rlp.EncodeToBytes([]interface{}{origin, amount, uint64(0), false})
			class, replies := run("GetBlockHeaders", aqua.GetBlockHeadersMsg, uint32(len(payload)), payload)
			obs := class
			if class == "ok" && len(replies) == 1 {
				obs = fmt.Sprint(replies[0].Count)
				if replies[0].Count > downloader.MaxHeaderFetch {
					c.Violate("handlemsg-limit-exceeded/GetBlockHeaders", "more than MaxHeaderFetch headers served", H{"amount": amount, "origin": origin, "served": replies[0].Count})
				}
			}
			avail := 0
			if origin <= uint64(nBlocks) {
				avail = nBlocks + 1 - int(origin)
			}
			c.Eval("handleMsg/GetBlockHeaders", fmt.Sprintf("hdr%d/%d", amount, origin))
			c.Correspond("handleMsg(GetBlockHeaders loop)~headers_served", fmt.Sprintf("amount=%d origin=%d", amount, origin), obs, m.Ask(fmt.Sprintf("headers %d %d", amount, avail)))
		}
	}
	// hash-mode queries with adversarial Skip / Reverse (termination, no panic)
	// (large Skip values are swept in the child process, under a memory ceiling: a reply buffer sized
	// from Skip would take this process down instead of being reported)
	for _, skip := range []uint64{0, 1, 5} {
		for _, rev := range []bool{false, true} {
			for _, o := range []interface{}{known[nBlocks], known[nBlocks/2], known[0], uint64(nBlocks / 2), uint64(0)} {
				payload, _ := rlp.EncodeToBytes([]interface{}{o, uint64(1 << 40), skip, rev})
				class, replies := run("GetBlockHeaders-skip", aqua.GetBlockHeadersMsg, uint32(len(payload)), payload)
				c.Eval("handleMsg/GetBlockHeaders-skip", fmt.Sprintf("skip%d/%v/%v", skip, rev, o))
				if class == "ok" && len(replies) == 1 && replies[0].Count > downloader.MaxHeaderFetch {
					c.Violate("handlemsg-limit-exceeded/GetBlockHeaders", "more than MaxHeaderFetch headers served", H{"skip": skip, "reverse": rev})
				}
			}
		}
	}
	// --- malformed payloads for every message code
	var valid [][]byte
	{
		b1, _ := rlp.EncodeToBytes([]interface{}{pm.Blocks[nBlocks], pm.Blocks[nBlocks].Difficulty()})
		b2, _ := rlp.EncodeToBytes([]interface{}{pm.Blocks[1].Header(), pm.Blocks[2].Header()})
		b3, _ := rlp.EncodeToBytes([]interface{}{[]interface{}{known[1], uint64(1)}, []interface{}{common.BytesToHash(r.Bytes(32)), uint64(7)}})
		b4, _ := rlp.EncodeToBytes([]interface{}{[]interface{}{[]interface{}{}, []interface{}{pm.Blocks[1].Header()}}})
		b5, _ := rlp.EncodeToBytes([]interface{}{r.Bytes(40), r.Bytes(3)})
		b6, _ := rlp.EncodeToBytes([]interface{}{uint64(3), uint64(4), uint64(5), true})
		valid = [][]byte{b1, b2, b3, b4, b5, b6, {0xc0}, {0xc1, 0xc0}, {0xc2, 0xc0, 0xc0}, {0xc3, 0xc2, 0xc0, 0xc0}}
	}
	nMal := c.Scale(40, 600)
	for _, code := range aquaCodes {
		for i := 0; i < nMal; i++ {
			var p []byte
			switch i % 8 {
			case 0:
				p = r.Bytes(r.Intn(64))
			case 1: // list header announcing more than there is
				p = append([]byte{0xf9, byte(r.Intn(256)), byte(r.Intn(256))}, r.Bytes(r.Intn(32))...)
			case 2: // huge declared sizes
				p = append([]byte{[]byte{0xbb, 0xfb, 0xbf, 0xff}[r.Intn(4)]}, r.Bytes(9)...)
			case 3: // deep nesting
				d := 1 + r.Intn(2000)
				inner := []byte{}
				for j := 0; j < d && len(inner) < 60000; j++ {
					inner, _ = rlp.EncodeToBytes([]interface{}{rlp.RawValue(inner)})
					if len(inner) == 0 {
						inner = []byte{0xc0}
					}
				}
				p = inner
			case 4, 5: // a valid payload of some message type with one byte changed / truncated
				v := valid[r.Intn(len(valid))]
				p = append([]byte(nil), v...)
				if len(p) > 0 {
					if i%8 == 4 {
						p[r.Intn(len(p))] ^= byte(1 + r.Intn(255))
					} else {
						p = p[:r.Intn(len(p))]
					}
				}
			case 6: // valid payload of (possibly) another message type
				p = valid[r.Intn(len(valid))]
			case 7: // many empty elements
				n := r.Intn(5000)
				el := make([]byte, n)
				for j := range el {
					el[j] = []byte{0xc0, 0x80}[r.Intn(2)]
				}
				p, _ = rlp.EncodeToBytes(rlp.RawValue(append(rlpListHeader(n), el...)))
			}
			size := uint32(len(p))
			if r.Chance(10) {
				size = uint32(r.Intn(2 * (len(p) + 1))) // Size field disagreeing with the payload
			}
			key := ""
			class, _ := run("malformed", code, size, p)
			if class == "ok" {
				key = fmt.Sprintf("%d/%s", code, vh.Hex(clipb(p)))
			}
			c.Eval(fmt.Sprintf("handleMsg/malformed code=%d", code), key)
		}
	}
	// last: these probes import a block (a valid NewBlock) and so change the chain the cases above rely on
	messageDecodeProbes(c, m, pm, run)
}

func rlpListHeader(n int) []byte {
	if n < 56 {
		return []byte{0xc0 + byte(n)}
	}
	if n < 256 {
		return []byte{0xf8, byte(n)}
	}
	return []byte{0xf9, byte(n >> 8), byte(n)}
}

func clipb(b []byte) []byte {
	if len(b) > 200 {
		return b[:200]
	}
	return b
}
