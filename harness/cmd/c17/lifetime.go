package main

// Lifetime / aliasing of delivered data.  In the model delivered values are
// immutable: read_n returns the list of messages of a session, and nothing that
// happens later can change an element of that list.  The implementation hands
// out readers and slices; Peer.readLoop passes a Msg to the protocol goroutine
// and calls ReadMsg again before the payload is consumed, udp.readLoop reads the
// next datagram into the same buffer, and callers of WriteMsg reuse their
// payload buffers.  What is compared here is therefore what the consumers
// EVENTUALLY see, under every consumption schedule, with the model's read_n
// output for the whole session (and with what was written).

import (
	"bytes"
	"fmt"
	"io"
	"net"
	"strconv"
	"strings"
	"time"

	"github.com/golang/snappy"
	"gitlab.com/aquachain/aquachain/p2p"
	"gitlab.com/aquachain/aquachain/p2p/discover"
	"gitlab.com/aquachain/aquachain/verifharness/vh"
)

// one step of a receiver: R = ReadMsg (next message), C i = consume the rest of
// message i, P i n = consume n bytes of message i, D i = Msg.Discard on message i.
type op struct {
	k    byte
	i, n int
}

func schedString(s []op) string {
	var p []string
	for _, o := range s {
		switch o.k {
		case 'R':
			p = append(p, "R")
		case 'P':
			p = append(p, fmt.Sprintf("P%d:%d", o.i, o.n))
		default:
			p = append(p, fmt.Sprintf("%c%d", o.k, o.i))
		}
	}
	return strings.Join(p, ",")
}

func parseSched(s string) []op {
	var out []op
	for _, t := range strings.Split(s, ",") {
		if t == "" {
			continue
		}
		o := op{k: t[0]}
		if t[0] != 'R' {
			rest := t[1:]
			if j := strings.IndexByte(rest, ':'); j >= 0 {
				o.n, _ = strconv.Atoi(rest[j+1:])
				rest = rest[:j]
			}
			o.i, _ = strconv.Atoi(rest)
		}
		out = append(out, o)
	}
	return out
}

// genSchedule: k reads and a consumption pattern; anything left is consumed at the very end.
func genSchedule(r *vh.RNG, k, pattern int, ms []msg) []op {
	var s []op
	switch pattern {
	case 0: // read everything first, then consume in order
		for i := 0; i < k; i++ {
			s = append(s, op{k: 'R'})
		}
	case 1: // read everything first, consume in reverse order
		for i := 0; i < k; i++ {
			s = append(s, op{k: 'R'})
		}
		for i := k - 1; i >= 0; i-- {
			s = append(s, op{'C', i, 0})
		}
	case 2, 3: // the consumer lags 1 or 2 messages behind the reader
		lag := pattern - 1
		for i := 0; i < k; i++ {
			s = append(s, op{k: 'R'})
			if i-lag >= 0 {
				s = append(s, op{'C', i - lag, 0})
			}
		}
	case 4: // partially consumed when the next read happens
		for i := 0; i < k; i++ {
			s = append(s, op{k: 'R'}, op{'P', i, len(ms[i].Payload) / 2})
			if i > 0 {
				s = append(s, op{'C', i - 1, 0})
			}
		}
	case 5: // some messages are discarded by their handler, after later reads
		for i := 0; i < k; i++ {
			s = append(s, op{k: 'R'})
			if i > 0 && (i-1)%2 == 0 {
				s = append(s, op{'D', i - 1, 0})
			}
		}
	case 6: // baseline: consume immediately
		for i := 0; i < k; i++ {
			s = append(s, op{k: 'R'}, op{'C', i, 0})
		}
	default: // random valid interleaving
		read := 0
		for read < k || r.Chance(40) {
			if read < k && (read == 0 || r.Chance(60)) {
				s = append(s, op{k: 'R'})
				read++
				continue
			}
			if read == 0 {
				continue
			}
			i := r.Intn(read)
			switch r.Intn(3) {
			case 0:
				s = append(s, op{'C', i, 0})
			case 1:
				s = append(s, op{'P', i, r.Intn(len(ms[i].Payload) + 1)})
			default:
				if r.Chance(30) {
					s = append(s, op{'D', i, 0})
				}
			}
			if len(s) > 6*k {
				break
			}
		}
		for ; read < k; read++ {
			s = append(s, op{k: 'R'})
		}
	}
	return s
}

func lifetimeMsgs(r *vh.RNG, k, sizePat int, sizes []int) []msg {
	codes := []uint64{0, 1, 0x10, 0x7f, 0x80, 0x100}
	n := make([]int, k)
	base := sizes[r.Intn(len(sizes))]
	for i := range n {
		switch sizePat {
		case 0: // later ones smaller
			n[i] = base * (k - i) / k
		case 1: // all equal
			n[i] = base
		case 2: // later ones larger
			n[i] = base * (i + 1) / k
		default:
			n[i] = sizes[r.Intn(len(sizes))]
		}
	}
	ms := make([]msg, k)
	for i := range ms {
		p := r.Bytes(n[i])
		if r.Chance(40) { // compressible, but different per message
			for j := range p {
				p[j] = byte(i*37 + j%5)
			}
		}
		ms[i] = msg{codes[r.Intn(len(codes))], p}
	}
	return ms
}

func lifetimeSession(c *vh.Ctx, m *vh.Model, class string, s *secrets, snap bool, ms []msg, sched []op, askModel bool) {
	rep := H{"kind": "frame-lifetime", "snappy": snap, "aes": vh.Hex(s.aes), "mac": vh.Hex(s.mac), "egress_seed": vh.Hex(s.egSeed),
		"ingress_seed": vh.Hex(s.inSeed), "schedule": schedString(sched)}
	var mtxt []string
	for _, x := range ms {
		mtxt = append(mtxt, fmt.Sprintf("%d:%s", x.Code, vh.Hex(x.Payload)))
	}
	rep["msgs"] = strings.Join(mtxt, ",")
	// --- writer: the caller owns ONE payload buffer, reuses it for every message and
	// scribbles over it as soon as WriteMsg has returned
	var wire bytes.Buffer
	w := p2p.VerifNewFrameRW(conn{nil, &wire}, s.aes, s.mac, s.egSeed, s.inSeed, snap)
	maxLen := 0
	for _, x := range ms {
		if len(x.Payload) > maxLen {
			maxLen = len(x.Payload)
		}
	}
	wb := make([]byte, maxLen)
	for _, x := range ms {
		copy(wb, x.Payload)
		if err := w.WriteMsg(x.Code, wb[:len(x.Payload)]); err != nil {
			c.Violate("frame-write-refused/lifetime", "WriteMsg refused a small message: "+err.Error(), rep)
			return
		}
		for j := range wb {
			wb[j] ^= 0xA5
		}
	}
	stream := append([]byte(nil), wire.Bytes()...)
	ref, _, wref, _ := writeSession(s, snap, ms) // same session from private copies
	c.Eval(class, fmt.Sprintf("%s/%v/%d/%s", class, snap, len(ms), schedString(sched)))
	if !bytes.Equal(stream, ref) {
		c.Violate("frame-writer-aliases-caller-buffer", "the bytes on the wire depend on what the caller did with its payload buffer after WriteMsg returned", rep)
	}
	// --- reader under the schedule
	cr := &countReader{r: bytes.NewReader(stream)}
	rd := p2p.VerifNewFrameRW(conn{cr, io.Discard}, s.aes, s.mac, s.inSeed, s.egSeed, snap)
	var lazies []*p2p.VerifLazyMsg
	seen := map[int][]byte{}
	discarded := map[int]bool{}
	done := map[int]bool{}
	endClass := "none"
	p, pv := vh.CatchPanic(func() {
		for _, o := range sched {
			switch o.k {
			case 'R':
				if endClass != "none" {
					continue
				}
				lm, cls, _ := rd.ReadMsgLazy()
				if lm == nil {
					endClass = cls
					continue
				}
				lazies = append(lazies, lm)
			case 'C':
				if o.i < len(lazies) && !done[o.i] {
					seen[o.i] = append(seen[o.i], lazies[o.i].ReadAll()...)
					done[o.i] = true
				}
			case 'P':
				if o.i < len(lazies) && !done[o.i] {
					seen[o.i] = append(seen[o.i], lazies[o.i].ReadN(o.n)...)
				}
			case 'D':
				if o.i < len(lazies) && !done[o.i] {
					lazies[o.i].Discard()
					discarded[o.i], done[o.i] = true, true
				}
			}
		}
		for i, lm := range lazies { // whatever is still pending is consumed at the very end
			if !done[i] {
				seen[i] = append(seen[i], lm.ReadAll()...)
			}
		}
	})
	if p {
		c.Violate("frame-readmsg-panic", fmt.Sprintf("panic while reading / consuming a session: %v", pv), rep)
		return
	}
	// --- direct oracle: what the consumers eventually saw is what the peer wrote
	if len(lazies) != len(ms) || endClass != "none" {
		c.Violate("frame-roundtrip/lifetime", fmt.Sprintf("%d of %d messages read, session ended with %s", len(lazies), len(ms), endClass), rep)
	}
	var items []string
	for i, lm := range lazies {
		if i >= len(ms) {
			break
		}
		if discarded[i] {
			items = append(items, fmt.Sprintf("0x%x:-", lm.Code))
			if lm.Code != ms[i].Code {
				c.Violate("frame-delivered-payload-changed", "message code differs from what was written", rep)
			}
			continue
		}
		items = append(items, fmt.Sprintf("0x%x:%s", lm.Code, vh.Hex(seen[i])))
		if lm.Code != ms[i].Code || int(lm.Size) != len(ms[i].Payload) || !bytes.Equal(seen[i], ms[i].Payload) {
			rep["message_index"] = i
			rep["consumer_saw"] = vh.Hex(clipb(seen[i]))
			rep["peer_wrote"] = vh.Hex(clipb(ms[i].Payload))
			c.Violate("frame-delivered-payload-changed",
				fmt.Sprintf("message %d was delivered by ReadMsg, and by the time its consumer read the payload the bytes were no longer what the peer wrote and authenticated (a later ReadMsg reused the memory behind Msg.Payload?)", i), rep)
			break
		}
	}
	// --- model: read_n on the whole session = the values delivered, immutable
	if askModel {
		s.extendKS(len(stream) + 64)
		sdec := map[string]string{}
		if snap {
			for _, x := range ms {
				snapDecEntry(sdec, snappy.Encode(nil, x.Payload))
			}
		}
		obs := "-"
		if len(items) > 0 {
			obs = strings.Join(items, ",")
		}
		obs += " " + endClass
		ans := m.Ask(fmt.Sprintf("freadn %s %d 0 %s %s %s %s %s", b01(snap), len(ms), vh.Hex(s.egSeed), vh.Hex(stream), vh.Hex(s.ks),
			aesTable(wref.AESCalls, w.AESCalls, rd.AESCalls), tbl(sdec)))
		// a discarded message has no consumer: mask its payload in the model's answer
		if f := strings.Fields(ans); len(f) == 2 && f[0] != "-" {
			parts := strings.Split(f[0], ",")
			for i := range parts {
				if discarded[i] {
					parts[i] = parts[i][:strings.IndexByte(parts[i], ':')] + ":-"
				}
			}
			ans = strings.Join(parts, ",") + " " + f[1]
		}
		c.Correspond("ReadMsg session, deferred consumption~read_n", fmt.Sprintf("snappy=%v k=%d schedule=%s", snap, len(ms), schedString(sched)), obs, ans)
	}
}

func lifetimeFrames(c *vh.Ctx, m *vh.Model) {
	r := c.Rng.Fork()
	small := []int{0, 1, 16, 17, 60, 100, 200}
	mid := []int{17, 300, 1000, 5000, 20000, 70000}
	if c.Thorough() {
		mid = append(mid, 1<<20-3, 1<<20, 1<<20+1, 3<<19)
	}
	nModel := 0
	for _, snap := range []bool{true, false} {
		for pattern := 0; pattern < 8; pattern++ {
			for sizePat := 0; sizePat < 4; sizePat++ {
				for rep := 0; rep < c.Scale(1, 6); rep++ {
					k := 2 + r.Intn(7)
					sizes := mid
					if rep == 0 && sizePat == pattern%4 { // the model-compared ones: short streams
						sizes = small
						if k > 4 {
							k = 2 + r.Intn(3)
						}
					}
					ms := lifetimeMsgs(r, k, sizePat, sizes)
					sched := genSchedule(r, k, pattern, ms)
					s := newSecrets(r, 64)
					ask := len(sizes) == len(small)
					if ask {
						nModel++
					}
					lifetimeSession(c, m, fmt.Sprintf("frame/lifetime snappy=%v pattern=%d sizes=%d", snap, pattern, sizePat), s, snap, ms, sched, ask)
				}
			}
		}
	}
	c.Note("lifetime sessions compared with the model's read_n: %d", nModel)
}

// discovery: udp.readLoop reuses one 1280-byte buffer for every datagram.
func lifetimeDiscovery(c *vh.Ctx) {
	r := c.Rng.Fork()
	k := newKey(r)
	rb := make([]byte, 1280) // the shared read buffer
	load := func(p []byte) []byte {
		n := copy(rb, p)
		for i := n; i < len(rb); i++ {
			rb[i] = 0xAA
		}
		return rb[:n]
	}
	aliasHash := 0
	for i := 0; i < c.Scale(60, 600); i++ {
		nc := r.Bool()
		reqA, _, tA := genRequest(r, r.Intn(4))
		reqB, _, tB := genRequest(r, r.Intn(4))
		pa, _, _ := discover.VerifEncodePacket(nc, k.priv, tA, reqA)
		pb, _, _ := discover.VerifEncodePacket(nc, k.priv, tB, reqB)
		want := goDecode(nc, pa) // from a private copy
		d := discover.VerifDecodePacketKeep(nc, load(pa))
		load(pb) // the next datagram arrives in the same buffer
		kind, id, hashNow, reenc := d.Render()
		got := "ok " + kind + " " + vh.Hex(id[:]) + " " + vh.Hex(d.HashAtRet) + " " + vh.Hex(reenc)
		c.Eval("discover/lifetime-decode", "")
		if got != want.line {
			c.Violate("discover-decoded-packet-aliases-input", "a request returned by decodePacket changed when the input buffer was reused for the next datagram",
				H{"kind": "discover-lifetime", "netcompat": nc, "first": vh.Hex(pa), "second": vh.Hex(pb), "want": want.line, "got": got})
		}
		if !bytes.Equal(hashNow, d.HashAtRet) {
			aliasHash++
		}
	}
	if aliasHash > 0 {
		// true of the unchanged code and of upstream: `hash` is buf[:macSize]. Its only consumer
		// (ping.handle -> pong.ReplyTok) runs before readLoop reuses the buffer; that is what is
		// checked next, at the consumer.
		c.Note("decodePacket's returned hash slice aliases the input buffer (%d of the reuse probes observed it change); checked at its consumer (pong ReplyTok) instead", aliasHash)
		c.Count("discover/hash-slice-aliases-input")
	}
	// consumer level: two pings through handlePacket from one reused buffer; the pongs
	// written must carry the hash of the ping they answer
	for _, nc := range []bool{false, true} {
		chain := uint64(61717561)
		if nc {
			chain = 1
		}
		u, err := discover.VerifNewUDP(newKey(r).priv, chain)
		if err != nil {
			c.Fatal("cannot create udp transport: %v", err)
		}
		from := &net.UDPAddr{IP: net.IP{10, 9, 8, 7}, Port: 30388}
		var hashes [][]byte
		for i := 0; i < 6; i++ {
			exp := uint64(time.Now().Unix()) + 20
			req := discover.VerifMakePing(4, genEndpoint(r), genEndpoint(r), exp, genRest(r))
			t := byte(discover.VerifAquaPing)
			if nc && i%2 == 0 {
				t = discover.VerifEthPing
			}
			p, h, _ := discover.VerifEncodePacket(nc, k.priv, t, req)
			hashes = append(hashes, h)
			u.HandlePacket(from, load(p))
		}
		load(r.Bytes(500))
		toks := u.SentPongTokens()
		c.Eval("discover/lifetime-handle", fmt.Sprintf("lifetime-handle-%v", nc))
		for i, h := range hashes {
			found := false
			for _, t := range toks {
				if bytes.Equal(t, h) {
					found = true
				}
			}
			if !found {
				c.Violate("discover-pong-token-not-ping-hash", "the pong written for a ping does not carry that ping's hash (read buffer reused under the handler?)",
					H{"kind": "discover-lifetime", "netcompat": nc, "ping_index": i, "ping_hash": vh.Hex(h)})
			}
		}
		u.Close()
	}
}

func replayLifetime(c *vh.Ctx, m *vh.Model, rp map[string]interface{}) {
	str := func(k string) string { s, _ := rp[k].(string); return s }
	snap, _ := rp["snappy"].(bool)
	s := &secrets{aes: vh.UnHex(str("aes")), mac: vh.UnHex(str("mac")), egSeed: vh.UnHex(str("egress_seed")), inSeed: vh.UnHex(str("ingress_seed"))}
	s.extendKS(64)
	var ms []msg
	for _, t := range strings.Split(str("msgs"), ",") {
		j := strings.IndexByte(t, ':')
		if j < 0 {
			continue
		}
		code, _ := strconv.ParseUint(t[:j], 10, 64)
		ms = append(ms, msg{code, vh.UnHex(t[j+1:])})
	}
	total := 0
	for _, x := range ms {
		total += len(x.Payload)
	}
	lifetimeSession(c, m, "replay/frame-lifetime", s, snap, ms, parseSched(str("schedule")), total < 2000)
}
