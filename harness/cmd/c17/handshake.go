package main

import (
	"bytes"
	"crypto/ecdsa"
	"encoding/binary"
	"fmt"
	"net"
	"runtime"
	"strings"
	"time"

	"gitlab.com/aquachain/aquachain/crypto"
	"gitlab.com/aquachain/aquachain/crypto/ecies"
	"gitlab.com/aquachain/aquachain/p2p"
	"gitlab.com/aquachain/aquachain/p2p/discover"
	"gitlab.com/aquachain/aquachain/rlp"
	"gitlab.com/aquachain/aquachain/verifharness/vh"
)

// RLPx encryption handshake (p2p/rlpx.go): parsing robustness of the auth / ack
// readers.  The cryptographic soundness of the key agreement is NOT claimed; the
// claim checked here is "never fatal": no panic, no hang beyond the handshake
// timeout, no buffer beyond what the 2-byte size prefix declares — and the
// framing logic of readHandshakeMsg agrees with Net/Handshake.v.

type rngReader struct{ r *vh.RNG }

func (r rngReader) Read(p []byte) (int, error) { copy(p, r.r.Bytes(len(p))); return len(p), nil }

type teeConn struct {
	net.Conn
	got bytes.Buffer
}

func (t *teeConn) Read(p []byte) (int, error) {
	n, err := t.Conn.Read(p)
	t.got.Write(p[:n])
	return n, err
}

type hsKey struct {
	prv *ecdsa.PrivateKey
	id  discover.NodeID
	pub *ecies.PublicKey
}

func newHsKey(r *vh.RNG) hsKey {
	k := newKey(r)
	prv := k.priv.ToECDSA()
	return hsKey{prv, k.id, ecies.ImportECDSAPublic(&prv.PublicKey)}
}

// memConn: reads come from a fixed byte string (then EOF), writes are recorded.
type memConn struct {
	r *bytes.Reader
	w bytes.Buffer
}

func (m *memConn) Read(p []byte) (int, error)  { return m.r.Read(p) }
func (m *memConn) Write(p []byte) (int, error) { return m.w.Write(p) }

type hsTimeout struct {
	name string
	done chan string
}

// startTimeoutProbes launches, in the background, real transports (newRLPX over
// net.Pipe, deadline set by the code itself) against a peer that goes silent.
func startTimeoutProbes(c *vh.Ctx, kI, kR hsKey, validAuth []byte) []hsTimeout {
	var out []hsTimeout
	probe := func(name string, send []byte, dial bool) {
		t := hsTimeout{name, make(chan string, 1)}
		out = append(out, t)
		go func() {
			a, b := net.Pipe()
			defer a.Close()
			defer b.Close()
			go func() { // the silent / stalling peer
				if dial {
					buf := make([]byte, 4096)
					b.Read(buf) // swallow the auth packet, answer with `send`, then silence
				}
				b.Write(send)
			}()
			start := time.Now()
			res := make(chan error, 1)
			var pv interface{}
			go func() {
				p, v := vh.CatchPanic(func() {
					var err error
					if dial {
						_, err = p2p.VerifDoEncHandshake(a, kI.prv, &discover.Node{ID: kR.id})
					} else {
						_, err = p2p.VerifDoEncHandshake(a, kR.prv, nil)
					}
					res <- err
				})
				if p {
					pv = v
					res <- fmt.Errorf("panic")
				}
			}()
			limit := p2p.VerifHandshakeTimeout + 3*time.Second
			select {
			case err := <-res:
				switch {
				case pv != nil:
					t.done <- fmt.Sprintf("panic %v", pv)
				case err == nil:
					t.done <- "accepted"
				case time.Since(start) > limit:
					t.done <- "late"
				default:
					t.done <- "ok"
				}
			case <-time.After(limit + 5*time.Second):
				t.done <- "hang"
			}
		}()
	}
	probe("silent-peer", nil, false)
	probe("partial-auth-then-silence", validAuth[:100], false)
	big := append([]byte{0xff, 0xff}, validAuth[2:]...)
	probe("prefix-0xffff-then-silence", big, false)
	probe("dial-partial-ack-then-silence", []byte{0x01, 0x90, 1, 2, 3}, true)
	return out
}

func handshake(c *vh.Ctx, m *vh.Model) func() {
	r := c.Rng.Fork()
	kI, kR := newHsKey(r), newHsKey(r)
	rnd := rngReader{r}

	// --- a real handshake between the two real implementations, both packets recorded
	a, b := net.Pipe()
	ta, tb := &teeConn{Conn: a}, &teeConn{Conn: b}
	type hres struct {
		id  discover.NodeID
		err error
	}
	rc := make(chan hres, 1)
	go func() { id, err := p2p.VerifReceiverEncHandshake(tb, kR.prv); rc <- hres{id, err} }()
	idR, errI := p2p.VerifInitiatorEncHandshake(ta, kI.prv, kR.id)
	hr := <-rc
	a.Close()
	b.Close()
	c.Eval("handshake/real", "real")
	if errI != nil || hr.err != nil || idR != kR.id || hr.id != kI.id {
		c.Violate("handshake-roundtrip", fmt.Sprintf("initiator/receiver handshake failed or mis-identified the peer: %v %v", errI, hr.err), H{"kind": "handshake"})
		return func() {}
	}
	validAuth := append([]byte(nil), tb.got.Bytes()...) // EIP-8 auth as sent by initiatorEncHandshake
	validAck := append([]byte(nil), ta.got.Bytes()...)  // EIP-8 ack
	probes := startTimeoutProbes(c, kI, kR, validAuth)

	plainPacket := func(to hsKey, plaintext []byte) []byte {
		ct, err := ecies.Encrypt(rnd, to.pub, plaintext, nil, nil)
		if err != nil {
			c.Fatal("ecies.Encrypt: %v", err)
		}
		return ct
	}
	eip8Packet := func(to hsKey, body []byte) []byte {
		prefix := make([]byte, 2)
		binary.BigEndian.PutUint16(prefix, uint16(len(body)+p2p.VerifEciesOverhead))
		ct, err := ecies.Encrypt(rnd, to.pub, body, nil, prefix)
		if err != nil { // the library refuses an empty plaintext
			return nil
		}
		return append(prefix, ct...)
	}
	// a pre-EIP-8 auth whose signature is a real signature (it recovers to *some* key,
	// which is all the receiver can check) and whose initiator key is on the curve
	someSig, _ := crypto.Sign(r.Bytes(32), newKey(r).priv)
	plainAuthBody := append(append(append(append([]byte(nil), someSig...), r.Bytes(32)...), kI.id[:]...), r.Bytes(32)...)
	plainAuthBody = append(plainAuthBody, 0)
	plainAuth := plainPacket(kR, plainAuthBody)
	mc := &memConn{r: bytes.NewReader(plainAuth)}
	if _, err := p2p.VerifReceiverEncHandshake(mc, kR.prv); err != nil {
		c.Note("plain auth not accepted by the receiver: %v", err)
	}
	plainAck := append([]byte(nil), mc.w.Bytes()...) // sealPlain answer (encrypted to kI)

	decrypt := func(k hsKey, ct, s2 []byte) string {
		d, err := ecies.ImportECDSA(k.prv).Decrypt(ct, nil, s2)
		if err != nil {
			return "none"
		}
		return vh.Hex(d)
	}

	probe := func(class string, ack bool, stream []byte) {
		k, ps := kR, p2p.VerifEncAuthMsgLen
		if ack {
			k, ps = kI, p2p.VerifEncAuthRespLen
		}
		// 1. readHandshakeMsg itself: class, buffer length, allocation
		var cls string
		var n int
		var plain bool
		var ms0, ms1 runtime.MemStats
		runtime.ReadMemStats(&ms0)
		p, pv := vh.CatchPanic(func() { cls, n, plain = p2p.VerifReadHandshakeMsg(ack, k.prv, bytes.NewReader(stream)) })
		runtime.ReadMemStats(&ms1)
		key := ""
		if cls == "ok" {
			key = vh.Hex(stream[:8])
		}
		c.Eval("handshake/"+class, key)
		c.Count("handshake/result-" + cls)
		rep := H{"kind": "handshake-read", "ack": ack, "stream": vh.Hex(stream)}
		if p {
			c.Violate("handshake-read-panic/"+vh.Hex(clipb(stream)), fmt.Sprintf("readHandshakeMsg panics: %v", pv), rep)
			return
		}
		if n > 1<<16+1 || ms1.TotalAlloc-ms0.TotalAlloc > 1<<20 {
			c.Violate("handshake-alloc", fmt.Sprintf("readHandshakeMsg buffered %d bytes / allocated %d bytes (declared size is 2 bytes)", n, ms1.TotalAlloc-ms0.TotalAlloc), rep)
		}
		obs := fmt.Sprintf("%s %d", cls, n)
		if cls == "ok" && plain {
			obs = fmt.Sprintf("ok-plain %d", n)
		}
		// 2. model, decryption results as oracle
		pl, e8 := "none", "none"
		if len(stream) >= ps {
			pl = decrypt(k, stream[:ps], nil)
			size := int(binary.BigEndian.Uint16(stream[:2]))
			if size >= ps && len(stream) >= size+2 {
				e8 = decrypt(k, stream[2:size+2], stream[:2])
			}
		}
		ans := m.Ask(fmt.Sprintf("hs %s %s %s %s", b01(ack), vh.Hex(stream), pl, e8))
		if ack && len(ans) > 8 && ans[:8] == "ok-plain" {
			ans = "ok" + ans[8:] // authRespV4 does not record which format it came in
		}
		c.Correspond("readHandshakeMsg~read_handshake_msg", fmt.Sprintf("ack=%v %s", ack, vh.Hex(clipb(stream))), obs, ans)
		// 2b. staging of receiverEncHandshake = readHandshakeMsg ; handleAuthMsg, the three primitive
		// checks evaluated independently as oracle bits
		if !ack {
			var sig, pub, nonce []byte
			switch {
			case pl != "none":
				d := vh.UnHex(pl)
				if len(d) >= 193 {
					sig, pub, nonce = d[:65], d[97:161], d[161:193]
				}
			case e8 != "none":
				var am struct {
					Sig     [65]byte
					Pub     [64]byte
					Nonce   [32]byte
					Version uint
					Rest    []rlp.RawValue `rlp:"tail"`
				}
				if rlp.NewStream(bytes.NewReader(vh.UnHex(e8)), 0).Decode(&am) == nil {
					sig, pub, nonce = am.Sig[:], am.Pub[:], am.Nonce[:]
				}
			}
			b1, b2, b3 := false, false, false
			if sig != nil {
				b1, b2, b3 = p2p.VerifAuthChecks(kR.prv, sig, pub, nonce)
			}
			var stage string
			if sp, spv := vh.CatchPanic(func() { stage = p2p.VerifReceiverStage(bytes.NewReader(stream), kR.prv) }); sp {
				c.Violate("handshake-panic/"+vh.Hex(clipb(stream)), fmt.Sprintf("handleAuthMsg panics: %v", spv), rep)
			} else {
				c.Count("handshake/stage-" + stage)
				c.Correspond("receiverEncHandshake stages~receiver_handshake", vh.Hex(clipb(stream)), stage,
					m.Ask(fmt.Sprintf("rhs %s %s %s %s %s %s", vh.Hex(stream), pl, e8, b01(b1), b01(b2), b01(b3))))
			}
		}
		// 3. the whole handshake function on the same bytes: never a panic, never a hang
		done := make(chan struct{})
		var hp bool
		var hv interface{}
		go func() {
			hp, hv = vh.CatchPanic(func() {
				mc := &memConn{r: bytes.NewReader(stream)}
				if ack {
					p2p.VerifInitiatorEncHandshake(mc, kI.prv, kR.id)
				} else {
					p2p.VerifReceiverEncHandshake(mc, kR.prv)
				}
			})
			close(done)
		}()
		select {
		case <-done:
			if hp {
				c.Violate("handshake-panic/"+vh.Hex(clipb(stream)), fmt.Sprintf("encryption handshake panics on a received packet: %v", hv), H{"kind": "handshake", "ack": ack, "stream": vh.Hex(stream)})
			}
		case <-time.After(15 * time.Second):
			c.Violate("handshake-wedged/"+vh.Hex(clipb(stream)), "encryption handshake did not return on an in-memory connection", H{"kind": "handshake", "ack": ack, "stream": vh.Hex(stream)})
		}
	}

	type base struct {
		name string
		ack  bool
		pkt  []byte
	}
	bases := []base{{"auth-eip8", false, validAuth}, {"ack-eip8", true, validAck}, {"auth-plain", false, plainAuth}, {"ack-plain", true, plainAck}}
	for _, bs := range bases {
		ps := p2p.VerifEncAuthMsgLen
		if bs.ack {
			ps = p2p.VerifEncAuthRespLen
		}
		probe(bs.name+"/valid", bs.ack, bs.pkt)
		probe(bs.name+"/valid+garbage", bs.ack, append(append([]byte(nil), bs.pkt...), r.Bytes(40)...))
		step := c.Scale(23, 1)
		for l := 0; l < len(bs.pkt); l += 1 + r.Intn(step) { // truncations (all lengths near the two boundaries)
			probe(bs.name+"/truncated", bs.ack, bs.pkt[:l])
		}
		for _, l := range []int{1, 2, ps - 1, ps, ps + 1, len(bs.pkt) - 1} {
			if l >= 0 && l <= len(bs.pkt) {
				probe(bs.name+"/truncated", bs.ack, bs.pkt[:l])
			}
		}
		nMut := c.Scale(20, 300)
		for i := 0; i < nMut; i++ { // single-byte mutations: the first bytes always, the rest sampled
			p := r.Intn(len(bs.pkt))
			if i < 4 {
				p = i
			}
			t := append([]byte(nil), bs.pkt...)
			t[p] ^= byte(1 + r.Intn(255))
			probe(bs.name+"/mutated", bs.ack, t)
		}
		actual := len(bs.pkt) - 2
		for _, sz := range []int{0, 1, ps - 1, ps, ps + 1, actual - 1, actual + 1, 0x7fff, 0xfffe, 0xffff} { // size-prefix lies
			if sz < 0 {
				continue
			}
			t := append([]byte(nil), bs.pkt...)
			binary.BigEndian.PutUint16(t, uint16(sz))
			probe(bs.name+"/prefix-lie", bs.ack, t)
			if sz > actual {
				probe(bs.name+"/prefix-lie-padded", bs.ack, append(t, make([]byte, sz-actual)...))
			}
		}
	}
	// correctly encrypted packets with adversarial contents: anyone can produce these,
	// the receiver's key is public
	okPub, okNonce := kI.id[:], r.Bytes(32)
	enc := func(v ...interface{}) []byte { b, _ := rlp.EncodeToBytes(v); return b }
	pad := func(b []byte, n int) []byte { return append(b, make([]byte, n)...) }
	bodies := [][]byte{
		nil, {0xc0}, {0x80}, r.Bytes(50), r.Bytes(300),
		pad(enc(someSig, okPub, okNonce, uint(4)), 120),          // well formed, signature of an unrelated key
		pad(enc(someSig, okPub, okNonce, uint(4)), 0),            // no padding
		pad(enc(someSig, r.Bytes(64), okNonce, uint(4)), 100),    // initiator key not on the curve
		pad(enc(make([]byte, 65), okPub, okNonce, uint(4)), 100), // zero signature
		pad(enc(bytes.Repeat([]byte{0xff}, 65), okPub, okNonce, uint(4)), 100),
		pad(enc(someSig[:64], okPub, okNonce, uint(4)), 100), // short signature array
		pad(enc(someSig, okPub[:63], okNonce, uint(4)), 100),
		pad(enc(someSig, okPub, okNonce[:31], uint(4)), 100),
		pad(enc(someSig, okPub, okNonce), 100),                                               // too few elements
		pad(enc(someSig, okPub, okNonce, r.Bytes(9)), 100),                                   // version overflows uint
		pad(enc(someSig, okPub, okNonce, uint(4), r.Bytes(10), []interface{}{uint(1)}), 100), // extra fields (forward compatibility)
		pad(enc(someSig, okPub, okNonce, []interface{}{}), 100),                              // list where an integer is expected
		append([]byte{0xf9, 0xff, 0xff}, r.Bytes(100)...),                                    // list header larger than the data
		pad(enc(make([]byte, 64), okNonce, uint(4)), 100),                                    // (ack shape) zero random key
		pad(enc(okPub, okNonce, uint(4)), 100),                                               // (ack shape) valid
		pad(enc(r.Bytes(64), okNonce, uint(4)), 100),                                         // (ack shape) key not on the curve
	}
	sigV := append([]byte(nil), someSig...)
	sigV[64] = 4
	bodies = append(bodies, pad(enc(sigV, okPub, okNonce, uint(4)), 100)) // recovery id out of range
	for _, body := range bodies {
		if p := eip8Packet(kR, body); p != nil {
			probe("crafted-eip8", false, p)
		}
		if p := eip8Packet(kI, body); p != nil {
			probe("crafted-eip8", true, p)
		}
	}
	for i := 0; i < c.Scale(6, 60); i++ { // crafted pre-EIP-8 packets
		pa := r.Bytes(p2p.VerifAuthMsgLen)
		switch i % 3 {
		case 1:
			copy(pa[97:], okPub)
		case 2:
			copy(pa, someSig)
			copy(pa[97:], okPub)
		}
		probe("crafted-plain", false, plainPacket(kR, pa))
		pk := r.Bytes(p2p.VerifAuthRespLen)
		if i%2 == 1 {
			copy(pk, okPub)
		}
		probe("crafted-plain", true, plainPacket(kI, pk))
	}
	for i := 0; i < c.Scale(30, 400); i++ { // unauthenticated noise
		ack := r.Bool()
		probe("random", ack, r.Bytes([]int{0, 1, 2, 209, 210, 211, 306, 307, 308, 600}[r.Intn(10)]))
	}
	protoHandshakeProbes(c, m, r)
	baseProtocolProbes(c, m, r)
	// collected at the very end of the run: the time-out probes
	return func() {
		for _, t := range probes {
			res := <-t.done
			c.Eval("handshake/timeout-"+t.name, "timeout-"+t.name)
			if res != "ok" {
				c.Violate("handshake-timeout/"+t.name+"/"+res, "encryption handshake against a stalling peer: "+res+" (expected an error within handshakeTimeout)", H{"kind": "handshake-timeout", "probe": t.name})
			}
		}
	}
}

// readProtocolHandshake (p2p/rlpx.go): the first framed message of a connection — size gate,
// code dispatch, typed body, zero identity — against Net/Handshake.v read_protocol_handshake.
func protoHandshakeProbes(c *vh.Ctx, m *vh.Model, r *vh.RNG) {
	type capT struct {
		Name    string
		Version uint
	}
	mk := func(ver uint64, name string, caps interface{}, port uint64, id []byte, rest ...interface{}) []byte {
		v := []interface{}{ver, name, caps, port, id}
		v = append(v, rest...)
		b, _ := rlp.EncodeToBytes(v)
		return b
	}
	id := r.Bytes(64)
	caps := []capT{{"aqua", 64}, {"aqua", 65}}
	base := mk(5, "aquachain/v1.7", caps, 21303, id)
	pad := func(total int) []byte { // a valid handshake of exactly `total` bytes
		for n := 0; n < 4000; n++ {
			if b := mk(5, strings.Repeat("x", n), caps, 21303, id); len(b) == total {
				return b
			}
		}
		return nil
	}
	type pc struct {
		name    string
		code    uint64
		size    int // -1: len(payload)
		payload []byte
	}
	reason, _ := rlp.EncodeToBytes([]uint{4})
	cases := []pc{
		{"valid", 0, -1, base}, {"valid+rest", 0, -1, mk(5, "n", caps, 0, id, uint(7), []byte{1, 2})}, {"no-caps", 0, -1, mk(5, "n", []capT{}, 0, id)},
		{"zero-id", 0, -1, mk(5, "n", caps, 0, make([]byte, 64))}, {"short-id", 0, -1, mk(5, "n", caps, 0, id[:63])},
		{"cap-extra-field", 0, -1, mk(5, "n", []interface{}{[]interface{}{"aqua", uint(1), uint(2)}}, 0, id)},
		{"version-9-bytes", 0, -1, mk(5, "n", caps, 0, id)[:0]},
		{"size-2047", 0, -1, pad(2047)}, {"size-2048", 0, -1, pad(2048)}, {"size-2049", 0, -1, pad(2049)}, {"size-3000", 0, -1, pad(3000)},
		{"declared-huge", 0, 1<<24 - 1, base}, {"declared-2049-short-payload", 0, 2049, base}, {"declared-smaller", 0, len(base) - 3, base}, {"declared-larger", 0, len(base) + 50, base},
		{"disc-valid", 1, -1, reason}, {"disc-garbage", 1, -1, r.Bytes(9)}, {"disc-empty", 1, 0, nil}, {"disc-too-big", 1, 4000, reason},
		{"ping-code", 2, -1, base}, {"subproto-code", 16, -1, base}, {"code-2^63", 1 << 63, -1, base}, {"empty", 0, 0, nil}, {"empty-list", 0, -1, []byte{0xc0}},
	}
	for l := 0; l < len(base); l += 1 + r.Intn(c.Scale(6, 1)) {
		cases = append(cases, pc{"truncated", 0, -1, base[:l]})
	}
	for i := 0; i < c.Scale(40, len(base)*3); i++ {
		t := append([]byte(nil), base...)
		t[r.Intn(len(t))] ^= byte(1 + r.Intn(255))
		cases = append(cases, pc{"mutated", 0, -1, t})
	}
	for i := 0; i < c.Scale(20, 300); i++ {
		cases = append(cases, pc{"random", uint64(r.Intn(3)), -1, r.Bytes(r.Intn(120))})
	}
	for _, x := range cases {
		if x.payload == nil && x.size != 0 && x.name != "empty" {
			if x.name[:4] == "size" {
				c.Fatal("could not build a protocol handshake for case %s", x.name)
			}
		}
		size := x.size
		if size < 0 {
			size = len(x.payload)
		}
		var cls string
		var pid discover.NodeID
		p, pv := vh.CatchPanic(func() { cls, pid = p2p.VerifReadProtocolHandshake(x.code, uint32(size), x.payload) })
		key := ""
		if cls == "ok" {
			key = vh.Hex(x.payload)
		}
		c.Eval("protohandshake/"+x.name, key)
		c.Count("protohandshake/result-" + cls)
		if p {
			c.Violate("protohandshake-panic/"+vh.Hex(clipb(x.payload)), fmt.Sprintf("readProtocolHandshake panics: %v", pv), H{"kind": "protohandshake", "code": x.code, "size": size, "payload": vh.Hex(x.payload)})
			continue
		}
		if cls == "ok" && size > p2p.VerifBaseProtocolMaxMsgSize {
			c.Violate("protohandshake-oversize-accepted", "a protocol handshake larger than baseProtocolMaxMsgSize was accepted", H{"kind": "protohandshake", "size": size})
		}
		obs := cls
		if cls == "ok" {
			obs = "ok " + vh.Hex(pid[:])
		}
		c.Correspond("readProtocolHandshake~read_protocol_handshake", fmt.Sprintf("%s code=%d size=%d", x.name, x.code, size), obs,
			m.Ask(fmt.Sprintf("phs %d %d %s", x.code, size, vh.Hex(x.payload))))
	}
}

// Base-protocol messages through the real (*Peer).handle and readProtocolHandshake, in process:
// the disconnect reason taken from a discMsg (any uint64, any payload shape) and its String/Error
// (what Server.runPeer evaluates) against Net/Handshake.v disc_reason; other base codes for panics.
// (Full peer runs — run / readLoop / pingLoop — are in the child process.)
func baseProtocolProbes(c *vh.Ctx, m *vh.Model, r *vh.RNG) {
	enc := func(v interface{}) []byte { b, _ := rlp.EncodeToBytes(v); return b }
	var payloads [][]byte
	reasons := []uint64{255, 256, 1 << 31, 1 << 32, 1<<63 - 1, 1 << 63, 1<<64 - 1}
	for i := uint64(0); i <= 20; i++ {
		reasons = append(reasons, i)
	}
	for _, v := range reasons {
		payloads = append(payloads, enc([]uint64{v}), enc([]uint64{v, 3}))
		// DiscReason.String / Error directly
		p, pv := vh.CatchPanic(func() { _ = p2p.DiscReason(v).String() + p2p.DiscReason(v).Error() })
		c.Eval("base/DiscReason.String", fmt.Sprintf("discstr%d", v))
		if p {
			c.Violate("disc-reason-string-panic", fmt.Sprintf("DiscReason(%d).String() panics: %v — Server.runPeer calls err.Error() on the reason a remote peer sent", v, pv), H{"kind": "disc-reason", "reason": v})
		}
	}
	payloads = append(payloads, nil, []byte{0xc0}, []byte{0x11}, []byte{0x80}, []byte{0x83, 1, 2, 3}, []byte{0xc1, 0xc0}, []byte{0xc1, 0x80}, []byte{0xc1, 0x00},
		[]byte{0xc2, 0x81, 0x11}, []byte{0xc3, 0x82, 0x00, 0x11}, []byte{0xca, 0x89, 1, 2, 3, 4, 5, 6, 7, 8, 9}, []byte{0xc5, 0x11}, []byte{0xc1, 0x11, 0xff, 0xff}, []byte{0xf8, 0x01, 0x11})
	for i := 0; i < c.Scale(20, 300); i++ {
		payloads = append(payloads, r.Bytes(r.Intn(12)))
	}
	for _, pl := range payloads {
		var cls, text string
		var rsn uint64
		p, pv := vh.CatchPanic(func() { cls, rsn, text = p2p.VerifPeerHandle(p2p.VerifDiscMsg, uint32(len(pl)), pl) })
		c.Eval("base/disc-handle", vh.Hex(pl))
		if p {
			c.Violate("disc-reason-string-panic", fmt.Sprintf("Peer.handle / DiscReason.Error panics on a disconnect message with payload %s: %v (readLoop has no recover)", vh.Hex(pl), pv),
				H{"kind": "base-msg", "code": p2p.VerifDiscMsg, "payload": vh.Hex(pl)})
			continue
		}
		obs := cls
		if cls == "disc" {
			obs = fmt.Sprintf("0x%x named", rsn)
			if strings.HasPrefix(text, "unknown disconnect reason") {
				obs = fmt.Sprintf("0x%x unknown", rsn)
			}
		}
		c.Correspond("Peer.handle(discMsg)+DiscReason.Error~disc_reason", vh.Hex(pl), obs, m.Ask("discreason "+vh.Hex(pl)))
		// the same message during the protocol handshake
		var hcls string
		p, pv = vh.CatchPanic(func() { hcls, _ = p2p.VerifReadProtocolHandshake(p2p.VerifDiscMsg, uint32(len(pl)), pl) })
		if p {
			c.Violate("disc-reason-string-panic", fmt.Sprintf("readProtocolHandshake panics on a disconnect message with payload %s: %v", vh.Hex(pl), pv),
				H{"kind": "protohandshake", "code": p2p.VerifDiscMsg, "size": len(pl), "payload": vh.Hex(pl)})
		} else if hcls != "disc" && !(hcls == "zeroid" && cls == "disc" && rsn == 7) { // reason 7 is DiscInvalidIdentity itself
			c.Violate("protohandshake-disc-not-returned/"+vh.Hex(pl), "a disconnect during the protocol handshake was not returned as a disconnect reason: "+hcls, H{"kind": "protohandshake", "payload": vh.Hex(pl)})
		}
	}
	// every other base code and the sub-protocol range, with a few payloads
	for _, code := range []uint64{p2p.VerifHandshakeMsg, p2p.VerifPingMsg, p2p.VerifPongMsg, 4, 5, 15, 16, 32, 33, 1 << 31, 1 << 63, 1<<64 - 1} {
		for _, pl := range [][]byte{nil, {0xc0}, {0x11}, r.Bytes(40)} {
			p, pv := vh.CatchPanic(func() { p2p.VerifPeerHandle(code, uint32(len(pl)), pl) })
			c.Eval("base/other-codes", "")
			if p {
				c.Violate(fmt.Sprintf("base-msg-panic/code=%d/%s", code, vh.Hex(pl)), fmt.Sprintf("Peer.handle panics: %v", pv), H{"kind": "base-msg", "code": code, "payload": vh.Hex(pl)})
			}
		}
	}
}
