package main

// Sub-protocol messages driven THROUGH to their consumers:
//   - a real downloader queue (Schedule, Reserve for a peer, Deliver* with replies of
//     adversarial shape relative to the request) — in process, compared with
//     Net/Limits.v deliver_rule;
//   - the ProtocolManager with a peer that went through the whole life cycle
//     (status handshake, registration, handleMsg loop), a real downloader sync and the
//     real fetcher, against a remote that answers requests with more / fewer / zero /
//     duplicated / reordered / mismatching entries, sends unsolicited responses,
//     inconsistent announcements and invalid transactions.  This part runs in a CHILD
//     PROCESS: the node's goroutines have no recover, so a panic anywhere (downloader
//     fetch loop, fetcher loop, handler) kills the child, which is what is detected.

import (
	"bytes"
	"fmt"
	"math/big"
	"net"
	"os"
	"os/exec"
	"runtime"
	"strings"
	"syscall"
	"time"

	"gitlab.com/aquachain/aquachain/aqua"
	"gitlab.com/aquachain/aquachain/aqua/downloader"
	"gitlab.com/aquachain/aquachain/common"
	"gitlab.com/aquachain/aquachain/core/types"
	"gitlab.com/aquachain/aquachain/p2p"
	"gitlab.com/aquachain/aquachain/params"
	"gitlab.com/aquachain/aquachain/rlp"
	"gitlab.com/aquachain/aquachain/verifharness/vh"
)

// ------------------------------------------------------------------ queue level

// shape: the block indices (into ext) of the reply, given the indices that were requested
type shape struct {
	name string
	f    func(req []int, n int) []int
}

func cat(a []int, b ...int) []int { return append(append([]int(nil), a...), b...) }

var shapes = []shape{
	{"exact", func(r []int, n int) []int { return r }},
	{"fewer-1", func(r []int, n int) []int { return r[:len(r)-1] }},
	{"only-first", func(r []int, n int) []int { return r[:1] }},
	{"zero", func(r []int, n int) []int { return nil }},
	{"more+1", func(r []int, n int) []int { return cat(r, (r[len(r)-1]+1)%n) }},
	{"more+5", func(r []int, n int) []int {
		o := r
		for i := 1; i <= 5; i++ {
			o = cat(o, (r[len(r)-1]+i)%n)
		}
		return o
	}},
	{"double", func(r []int, n int) []int { return cat(r, r...) }},
	{"more-dup-last", func(r []int, n int) []int { l := r[len(r)-1]; return cat(r, l, l, l) }},
	{"dup-first", func(r []int, n int) []int {
		o := cat(r)
		if len(o) > 1 {
			o[1] = o[0]
		}
		return o
	}},
	{"swap-0-1", func(r []int, n int) []int {
		o := cat(r)
		if len(o) > 1 {
			o[0], o[1] = o[1], o[0]
		}
		return o
	}},
	{"reversed", func(r []int, n int) []int {
		o := cat(r)
		for i, j := 0, len(o)-1; i < j; i, j = i+1, j-1 {
			o[i], o[j] = o[j], o[i]
		}
		return o
	}},
	{"mismatch-first", func(r []int, n int) []int { o := cat(r); o[0] = (o[0] + n/2) % n; return o }},
	{"mismatch-middle", func(r []int, n int) []int { o := cat(r); o[len(o)/2] = (o[len(o)/2] + n/2) % n; return o }},
	{"mismatch-last", func(r []int, n int) []int { o := cat(r); o[len(o)-1] = (o[len(o)-1] + n/2) % n; return o }},
	{"unrelated", func(r []int, n int) []int {
		o := cat(r)
		for i := range o {
			o[i] = (o[i] + n/2) % n
		}
		return o
	}},
	{"more+mismatch-middle", func(r []int, n int) []int {
		o := cat(r, (r[len(r)-1]+1)%n, (r[len(r)-1]+2)%n)
		o[len(r)/2] = (o[len(r)/2] + n/2) % n
		return o
	}},
}

var preSteps = []string{"pending", "unsolicited", "cancelled", "expired", "second-delivery"}

// wire: v as the handler hands it over — the result of an RLP encode / decode round trip of the
// message (custom decoders run, non-encoded fields such as Header.Version are at their zero value)
func wire(v interface{}, out interface{}) {
	b, err := rlp.EncodeToBytes(v)
	if err != nil {
		panic(err)
	}
	if err := rlp.DecodeBytes(b, out); err != nil {
		panic(err)
	}
}

func queueDeliveries(c *vh.Ctx, m *vh.Model, pm *aqua.VerifPM) {
	queueHeaderFills(c, m, pm)
	blocks, receipts := pm.ExtendChain(40, -3)
	if len(blocks) != 40 {
		c.Fatal("ExtendChain returned %d blocks", len(blocks))
	}
	headers := make([]*types.Header, len(blocks))
	index := map[common.Hash]int{}
	for i, b := range blocks {
		headers[i] = b.Header()
		index[b.Hash()] = i
	}
	first := blocks[0].NumberU64()
	rule := params.TestChainConfig.GetBlockVersion
	for _, kind := range []string{"bodies", "bodies-fastsync", "receipts"} {
		mode := downloader.FullSync
		if kind != "bodies" {
			mode = downloader.FastSync
		}
		for _, count := range []int{1, 2, 7, 16} {
			for _, sh := range shapes {
				for _, pre := range preSteps {
					if pre != "pending" && sh.name != "exact" && sh.name != "more+5" && sh.name != "zero" {
						continue
					}
					if count == 1 && (sh.name == "fewer-1") {
						continue
					}
					name := fmt.Sprintf("%s/count=%d/%s/%s", kind, count, sh.name, pre)
					hs := make([]*types.Header, len(headers))
					for i, h := range headers {
						hs[i] = types.CopyHeader(h)
					}
					q := downloader.VerifNewQueue(mode, first, rule)
					if got := q.Schedule(hs, first); got != len(hs) {
						c.Fatal("Schedule accepted %d of %d headers", got, len(hs))
					}
					var req []common.Hash
					if kind == "receipts" {
						req, _ = q.ReserveReceipts("p1", count)
					} else {
						req, _ = q.ReserveBodies("p1", count)
					}
					if len(req) == 0 {
						c.Fatal("nothing reserved for %s", name)
					}
					ridx := make([]int, len(req))
					for i, h := range req {
						ridx[i] = index[h]
					}
					reply := sh.f(ridx, len(blocks))
					deliver := func(id string) (int, string) {
						if kind == "receipts" {
							rs := [][]*types.Receipt{}
							for _, bi := range reply {
								rs = append(rs, receipts[bi])
							}
							var w [][]*types.Receipt
							wire(rs, &w)
							return q.DeliverReceipts(id, w)
						}
						type wbody struct {
							Transactions []*types.Transaction
							Uncles       []*types.Header
						}
						bs := []*wbody{}
						for _, bi := range reply {
							bs = append(bs, &wbody{blocks[bi].Transactions(), blocks[bi].Uncles()})
						}
						var w []*wbody
						wire(bs, &w)
						txs := make([][]*types.Transaction, len(w))
						uncles := make([][]*types.Header, len(w))
						for i, b := range w {
							txs[i], uncles[i] = b.Transactions, b.Uncles
						}
						return q.DeliverBodies(id, txs, uncles)
					}
					pend, peer := fmt.Sprint(len(req)), "p1"
					switch pre {
					case "unsolicited":
						pend, peer = "-", "ghost"
					case "cancelled":
						if kind == "receipts" {
							q.CancelReceipts("p1")
						} else {
							q.CancelBodies("p1")
						}
						pend = "-"
					case "expired":
						time.Sleep(time.Millisecond)
						if kind == "receipts" {
							q.ExpireReceipts(0)
						} else {
							q.ExpireBodies(0)
						}
						pend = "-"
					case "second-delivery":
						vh.CatchPanic(func() { deliver("p1") })
						pend = "-"
					}
					// which reply entries reconstruct against the header requested at the same position
					flags := ""
					for i, bi := range reply {
						ok := false
						if i < len(ridx) {
							want := headers[ridx[i]]
							if kind == "receipts" {
								ok = types.DeriveSha(types.Receipts(receipts[bi])) == want.ReceiptHash
							} else {
								ok = types.DeriveSha(blocks[bi].Transactions()) == want.TxHash && types.CalcUncleHash(blocks[bi].Uncles()) == want.UncleHash
							}
						}
						if ok {
							flags += "1"
						} else {
							flags += "0"
						}
					}
					if flags == "" {
						flags = "-"
					}
					var acc int
					var cls string
					p, pv := vh.CatchPanic(func() { acc, cls = deliver(peer) })
					c.Eval("downloader/deliver-"+kind+"/"+pre, name)
					if p {
						c.Violate(fmt.Sprintf("downloader-deliver-panic/%s/%s", strings.Split(kind, "-")[0], sh.name),
							fmt.Sprintf("downloader queue Deliver panics on a reply with %d entries for a request of %d (%s): %v — in the node this runs on the downloader's fetch goroutine, which has no recover", len(reply), len(req), name, pv),
							H{"kind": "queue-deliver", "case": name, "requested": len(req), "reply_entries": len(reply), "reply_block_indices": fmt.Sprint(reply), "requested_block_indices": fmt.Sprint(ridx), "panic": fmt.Sprint(pv)})
						continue
					}
					if acc > len(req) || acc > len(reply) {
						c.Violate("downloader-deliver-overaccept/"+name, fmt.Sprintf("accepted %d entries for a request of %d and a reply of %d", acc, len(req), len(reply)), H{"kind": "queue-deliver", "case": name})
					}
					c.Correspond("queue.DeliverBodies/DeliverReceipts~deliver_rule", name, fmt.Sprintf("%d %s", acc, cls), m.Ask(fmt.Sprintf("deliver %s %s", pend, flags)))
				}
			}
		}
	}
}

// queueHeaderFills: queue.DeliverHeaders (skeleton fill) with wire-decoded batches that reach every
// rejection branch at full size, against Net/Limits.v headers_fill_rule.
func queueHeaderFills(c *vh.Ctx, m *vh.Model, pm *aqua.VerifPM) {
	F := downloader.MaxHeaderFetch
	blocks, _ := pm.ExtendChain(2*F+8, 0)
	rule := params.TestChainConfig.GetBlockVersion
	hs := make([]*types.Header, len(blocks))
	for i, b := range blocks {
		hs[i] = b.Header()
		hs[i].SetVersion(byte(rule(hs[i].Number)))
	}
	from := hs[0].Number.Uint64()
	tweak := func(h *types.Header) *types.Header { // same number and parent, another hash
		cp := types.CopyHeader(h)
		cp.Extra = append(append([]byte(nil), cp.Extra...), 0x42)
		cp.SetVersion(byte(rule(cp.Number)))
		return cp
	}
	type fill struct {
		name string
		hs   []*types.Header
	}
	seq := func(a, n int) []*types.Header { return append([]*types.Header(nil), hs[a:a+n]...) }
	with := func(l []*types.Header, i int, h *types.Header) []*types.Header { l[i] = h; return l }
	rev := seq(0, F)
	for i, j := 0, F-1; i < j; i, j = i+1, j-1 {
		rev[i], rev[j] = rev[j], rev[i]
	}
	same := make([]*types.Header, F)
	for i := range same {
		same[i] = hs[5]
	}
	fills := []fill{
		{"exact", seq(0, F)}, {"count-191", seq(0, F-1)}, {"count-193", seq(0, F+1)}, {"count-0", nil}, {"count-1", seq(0, 1)}, {"count-384", seq(0, 2*F)},
		{"shifted+1", seq(1, F)}, {"shifted+7", seq(7, F)}, {"second-batch-instead", seq(F, F)},
		{"last-replaced", with(seq(0, F), F-1, tweak(hs[F-1]))}, {"first-replaced", with(seq(0, F), 0, tweak(hs[0]))},
		{"bad-link-middle", with(seq(0, F), F/2, tweak(hs[F/2]))}, {"gap-middle", with(seq(0, F), F/2, hs[F/2+1])},
		{"duplicate-middle", with(seq(0, F), F/2, hs[F/2-1])}, {"reversed", rev}, {"same-header-192", same},
	}
	for _, f := range fills {
		for _, pre := range []string{"pending", "unsolicited", "expired", "second-delivery"} {
			if pre != "pending" && f.name != "exact" && f.name != "shifted+1" {
				continue
			}
			name := fmt.Sprintf("headers/%s/%s", f.name, pre)
			q := downloader.VerifNewQueue(downloader.FullSync, from, rule)
			q.ScheduleSkeleton(from, []*types.Header{types.CopyHeader(hs[F-1]), types.CopyHeader(hs[2*F-1])})
			got := q.ReserveHeaders("p1")
			if got != from {
				c.Fatal("ReserveHeaders returned %d, want %d", got, from)
			}
			deliver := func(id string) (int, string) {
				w := []*types.Header{}
				wire(append([]*types.Header{}, f.hs...), &w) // what handleMsg decodes: Version is not on the wire
				return q.DeliverHeaders(id, w)
			}
			pend, peer := true, "p1"
			switch pre {
			case "unsolicited":
				pend, peer = false, "ghost"
			case "expired":
				time.Sleep(time.Millisecond)
				q.ExpireHeaders(0)
				pend = false
			case "second-delivery":
				vh.CatchPanic(func() { deliver("p1") })
				pend = false
			}
			firstOK := len(f.hs) > 0 && f.hs[0].Number.Uint64() == from
			lastOK := len(f.hs) > 0 && f.hs[len(f.hs)-1].Hash() == hs[F-1].Hash()
			chainOK := true
			for i := 1; i < len(f.hs); i++ {
				if f.hs[i].Number.Uint64() != from+uint64(i) || f.hs[i].ParentHash != f.hs[i-1].Hash() {
					chainOK = false
				}
			}
			var n int
			var cls string
			p, pv := vh.CatchPanic(func() { n, cls = deliver(peer) })
			c.Eval("downloader/deliver-headers/"+pre, name)
			if p {
				c.Violate("downloader-deliver-panic/headers/"+f.name,
					fmt.Sprintf("queue.DeliverHeaders panics on a wire-decoded batch of %d headers (%s): %v — in the node this runs on the downloader's goroutine, which has no recover", len(f.hs), name, clipStr(fmt.Sprint(pv), 300)),
					H{"kind": "queue-deliver", "case": name, "headers": len(f.hs), "first_number": firstNum(f.hs), "requested_origin": from})
				continue
			}
			c.Correspond("queue.DeliverHeaders~headers_fill_rule", name, fmt.Sprintf("%d %s", n, cls),
				m.Ask(fmt.Sprintf("hfill %s %d %s %s %s", b01(pend), len(f.hs), b01(firstOK), b01(lastOK), b01(chainOK))))
		}
	}
}

func firstNum(hs []*types.Header) interface{} {
	if len(hs) == 0 {
		return nil
	}
	return hs[0].Number.Uint64()
}

func clipStr(s string, n int) string {
	if len(s) > n {
		return s[:n] + "..."
	}
	return s
}

// ------------------------------------------------------------------ child process

type childRun struct {
	model *vh.Model
	cmd   *exec.Cmd
	out   bytes.Buffer
	done  chan error
}

func startChild(c *vh.Ctx, only string) *childRun {
	cr := &childRun{done: make(chan error, 1)}
	cr.cmd = exec.Command(os.Args[0])
	cr.cmd.Env = append(os.Environ(), "VERIF_C17_CHILD=1", fmt.Sprintf("VERIF_C17_SEED=%d", c.Seed), "VERIF_C17_TIER="+c.Tier, "VERIF_C17_CASE="+only)
	cr.cmd.Stdout = &cr.out
	cr.cmd.Stderr = &cr.out
	if err := cr.cmd.Start(); err != nil {
		c.Fatal("cannot start child process: %v", err)
	}
	go func() { cr.done <- cr.cmd.Wait() }()
	return cr
}

func (cr *childRun) finish(c *vh.Ctx) {
	limit := time.Duration(c.Scale(90, 600)) * time.Second
	var err error
	timedOut := false
	select {
	case err = <-cr.done:
	case <-time.After(limit):
		cr.cmd.Process.Kill()
		timedOut = true
	}
	out := cr.out.String()
	last := ""
	nCases := 0
	for _, l := range strings.Split(out, "\n") {
		switch {
		case strings.HasPrefix(l, "CASE "):
			last = strings.TrimPrefix(l, "CASE ")
			nCases++
			c.Eval("subproto-consumers/"+strings.SplitN(last, "/", 2)[0], "child/"+last)
		case strings.HasPrefix(l, "HANG "):
			c.Violate("subproto-consumer-hang/"+strings.TrimPrefix(l, "HANG "), "a sync / fetch driven by an adversarial peer did not come back within its watchdog", H{"kind": "child-case", "case": strings.TrimPrefix(l, "HANG ")})
		case strings.HasPrefix(l, "BASELINE-FAILED"):
			c.Fatal("child: honest baseline did not work: %s", l)
		case strings.HasPrefix(l, "PHSFAIL "):
			f := strings.SplitN(strings.TrimPrefix(l, "PHSFAIL "), " ", 2)
			sched := f[0][strings.LastIndex(f[0], "/")+1:]
			c.Violate("handshake-honest-peer-rejected/"+sched, "protocol handshake / first messages between two honest ends ("+f[0]+"): "+f[1], H{"kind": "child-case", "case": f[0]})
		case strings.HasPrefix(l, "PHSUNDECIDED "):
			c.Note("undecided: %s", strings.TrimPrefix(l, "PHSUNDECIDED "))
		case strings.HasPrefix(l, "PHS "):
			f := strings.Fields(l)
			if len(f) == 3 && cr.model != nil {
				c.Correspond("doProtoHandshake (forced schedules)~handshake_outcomes", last, f[2], cr.model.Ask("phsoutcomes 0 "+f[1]))
			}
		case strings.HasPrefix(l, "MEMORY "):
			c.Violate("subproto-consumer-memory/"+last, "the node's heap exceeded the ceiling while serving: "+l, H{"kind": "child-case", "case": last})
		case strings.HasPrefix(l, "HDR "):
			f := strings.Fields(l)
			if len(f) == 8 && cr.model != nil {
				c.Correspond("handleMsg(GetBlockHeaders, four modes)~serve_headers", last, f[7], cr.model.Ask("hdrs "+strings.Join(f[1:7], " ")))
			}
		case strings.HasPrefix(l, "RESULT "):
			c.Count("subproto-consumers/result-" + strings.Fields(l)[1])
		}
	}
	c.Note("child process: %d consumer scenarios", nCases)
	if timedOut {
		c.Violate("subproto-consumer-hang/"+last, "the child process did not finish; last scenario: "+last, H{"kind": "child-case", "case": last})
		return
	}
	if err != nil || !strings.Contains(out, "\nDONE") {
		// the node died: find the panic and the first frames
		excerpt := ""
		if i := strings.Index(out, "panic:"); i >= 0 {
			excerpt = out[i:]
		} else if i := strings.Index(out, "fatal error:"); i >= 0 {
			excerpt = out[i:]
		} else if len(out) > 1500 {
			excerpt = out[len(out)-1500:]
		} else {
			excerpt = out
		}
		var keep []string
		for _, l := range strings.Split(excerpt, "\n") {
			if strings.Contains(l, "aquachain/") || strings.HasPrefix(l, "panic:") || strings.HasPrefix(l, "fatal error:") || strings.HasPrefix(l, "goroutine ") {
				keep = append(keep, strings.TrimSpace(l))
			}
			if len(keep) > 14 {
				break
			}
		}
		c.Violate("subproto-consumer-crash/"+last,
			fmt.Sprintf("the node process died while an adversarial peer drove scenario %q (exit: %v): %s", last, err, strings.Join(keep, " | ")),
			H{"kind": "child-case", "case": last, "seed": c.Seed, "crash": keep})
	}
}

// remote: the adversarial peer's view of the chain (local blocks + extension) and its behaviour
type remote struct {
	r        *aqua.VerifRemote
	byNum    map[uint64]*types.Block
	byHash   map[common.Hash]*types.Block
	top      uint64
	bodySh   string
	headerSh string
	stop     chan struct{}
	// fast sync: receipts and state data of an honest server, and how replies to them are bent
	srv       *aqua.VerifServer
	receiptSh string
	stateSh   string
	fills     int
	fillSh    string // how skeleton-fill replies (Amount = MaxHeaderFetch, Skip = 0, by number) are bent
}

// bendFill: a full-size reply to a skeleton-fill request that reaches one rejection branch of
// queue.DeliverHeaders (hs = the honest 192 headers, next = the headers after them)
func (rm *remote) bendFill(hs []*types.Header, from uint64) []*types.Header {
	tweak := func(h *types.Header) *types.Header {
		cp := types.CopyHeader(h)
		cp.Extra = append(append([]byte(nil), cp.Extra...), 0x42)
		return cp
	}
	out := append([]*types.Header(nil), hs...)
	n := len(out)
	switch rm.fillSh {
	case "shifted+1":
		out = out[1:]
		if b := rm.byNum[from+uint64(n)]; b != nil {
			out = append(out, b.Header())
		}
	case "count-191":
		out = out[:n-1]
	case "count-193":
		if b := rm.byNum[from+uint64(n)]; b != nil {
			out = append(out, b.Header())
		}
	case "last-replaced":
		out[n-1] = tweak(out[n-1])
	case "bad-link-middle":
		out[n/2] = tweak(out[n/2])
	case "gap-middle":
		out[n/2] = out[n/2+1]
	case "same-header":
		for i := range out {
			out[i] = hs[3]
		}
	case "zero":
		out = nil
	}
	return out
}

func (rm *remote) headersFor(origin rlp.RawValue, amount, skip uint64, reverse bool) []*types.Header {
	var cur *types.Block
	kind, content, _, _ := rlp.Split(origin)
	if kind == rlp.String && len(content) == 32 {
		cur = rm.byHash[common.BytesToHash(content)]
	} else {
		var n uint64
		rlp.DecodeBytes(origin, &n)
		cur = rm.byNum[n]
	}
	var out []*types.Header
	for cur != nil && uint64(len(out)) < amount && len(out) < downloader.MaxHeaderFetch {
		out = append(out, cur.Header())
		n := cur.NumberU64()
		if reverse {
			if n < skip+1 {
				break
			}
			cur = rm.byNum[n-skip-1]
		} else {
			cur = rm.byNum[n+skip+1]
		}
	}
	return out
}

func mutateList(sh string, n int) []int { // positions of the honest reply to send, -1 = an unrelated entry
	idx := make([]int, n)
	for i := range idx {
		idx[i] = i
	}
	switch sh {
	case "honest":
	case "more":
		idx = append(idx, -1, -1, -1)
	case "more-dup":
		if n > 0 {
			idx = append(idx, n-1, n-1, 0)
		}
	case "double":
		idx = append(idx, idx...)
	case "zero":
		idx = nil
	case "fewer":
		if n > 0 {
			idx = idx[:n-1]
		}
	case "reordered":
		if n > 1 {
			idx[0], idx[1] = idx[1], idx[0]
		}
	case "dup-first":
		if n > 1 {
			idx[1] = idx[0]
		}
	case "mismatch":
		if n > 0 {
			idx[n/2] = -1
		}
	case "reversed":
		for i, j := 0, n-1; i < j; i, j = i+1, j-1 {
			idx[i], idx[j] = idx[j], idx[i]
		}
	}
	return idx
}

func (rm *remote) serve() {
	for {
		select {
		case <-rm.stop:
			return
		default:
		}
		code, payload, ok := rm.r.ReadMsg(200 * time.Millisecond)
		if !ok {
			continue
		}
		switch code {
		case aqua.GetBlockHeadersMsg:
			var q struct {
				Origin  rlp.RawValue
				Amount  uint64
				Skip    uint64
				Reverse bool
			}
			if rlp.DecodeBytes(payload, &q) != nil {
				continue
			}
			hs := rm.headersFor(q.Origin, q.Amount, q.Skip, q.Reverse)
			if rm.fillSh != "" && rm.fillSh != "honest" && q.Amount == uint64(downloader.MaxHeaderFetch) && q.Skip == 0 && !q.Reverse && len(hs) == downloader.MaxHeaderFetch {
				b, _ := rlp.EncodeToBytes(rm.bendFill(hs, hs[0].Number.Uint64()))
				rm.fills++
				rm.r.Send(aqua.BlockHeadersMsg, b, 5*time.Second)
				continue
			}
			var reply []*types.Header
			for _, i := range mutateList(rm.headerSh, len(hs)) {
				if i < 0 {
					reply = append(reply, rm.byNum[rm.top/2].Header())
				} else {
					reply = append(reply, hs[i])
				}
			}
			b, _ := rlp.EncodeToBytes(reply)
			rm.r.Send(aqua.BlockHeadersMsg, b, 5*time.Second)
		case aqua.GetBlockBodiesMsg:
			var hashes []common.Hash
			if rlp.DecodeBytes(payload, &hashes) != nil {
				continue
			}
			type body struct {
				Txs    []*types.Transaction
				Uncles []*types.Header
			}
			var honest []body
			for _, h := range hashes {
				if b := rm.byHash[h]; b != nil {
					honest = append(honest, body{b.Transactions(), b.Uncles()})
				}
			}
			var reply []body
			for _, i := range mutateList(rm.bodySh, len(honest)) {
				if i < 0 {
					o := rm.byNum[rm.top-1]
					reply = append(reply, body{o.Transactions(), o.Uncles()})
				} else {
					reply = append(reply, honest[i])
				}
			}
			b, _ := rlp.EncodeToBytes(reply)
			rm.r.Send(aqua.BlockBodiesMsg, b, 5*time.Second)
		case aqua.GetReceiptsMsg:
			if rm.srv == nil {
				rm.r.Send(aqua.ReceiptsMsg, []byte{0xc0}, 5*time.Second)
				continue
			}
			var hashes []common.Hash
			if rlp.DecodeBytes(payload, &hashes) != nil {
				continue
			}
			var honest [][]*types.Receipt
			for _, h := range hashes {
				if b := rm.byHash[h]; b != nil {
					honest = append(honest, rm.srv.Receipts[b.NumberU64()])
				}
			}
			reply := [][]*types.Receipt{}
			for _, i := range mutateList(rm.receiptSh, len(honest)) {
				if i < 0 {
					reply = append(reply, rm.srv.Receipts[rm.top-1])
				} else {
					reply = append(reply, honest[i])
				}
			}
			b, _ := rlp.EncodeToBytes(reply)
			rm.r.Send(aqua.ReceiptsMsg, b, 5*time.Second)
		case aqua.GetNodeDataMsg:
			if rm.srv == nil {
				rm.r.Send(aqua.NodeDataMsg, []byte{0xc0}, 5*time.Second)
				continue
			}
			var hashes []common.Hash
			if rlp.DecodeBytes(payload, &hashes) != nil {
				continue
			}
			var honest [][]byte
			for _, h := range hashes {
				if d, ok := rm.srv.NodeData(h); ok {
					honest = append(honest, d)
				}
			}
			reply := [][]byte{}
			for _, i := range mutateList(rm.stateSh, len(honest)) {
				if i < 0 {
					reply = append(reply, []byte{0xc5, 0x83, 1, 2, 3, 0x80}) // a blob nobody asked for
				} else {
					reply = append(reply, honest[i])
				}
			}
			b, _ := rlp.EncodeToBytes(reply)
			rm.r.Send(aqua.NodeDataMsg, b, 5*time.Second)
		}
	}
}

func newScenario(name string, local, ext int, txs int) (*aqua.VerifPM, *remote, []*types.Block, []types.Receipts) {
	pm, err := aqua.VerifNewPM(local)
	if err != nil {
		fmt.Println("BASELINE-FAILED cannot build node:", err)
		os.Exit(4)
	}
	blocks, receipts := pm.ExtendChain(ext, txs)
	rm := &remote{byNum: map[uint64]*types.Block{}, byHash: map[common.Hash]*types.Block{}, bodySh: "honest", headerSh: "honest", stop: make(chan struct{})}
	_, _, td := pm.Head()
	td = new(big.Int).Set(td)
	for _, b := range append(append([]*types.Block(nil), pm.Blocks...), blocks...) {
		rm.byNum[b.NumberU64()] = b
		rm.byHash[b.Hash()] = b
		rm.top = b.NumberU64()
	}
	for _, b := range blocks {
		td.Add(td, b.Difficulty())
	}
	r, err := pm.Connect(name, blocks[len(blocks)-1].Hash(), td)
	if err != nil {
		fmt.Println("BASELINE-FAILED cannot connect:", err)
		os.Exit(4)
	}
	rm.r = r
	return pm, rm, blocks, receipts
}

var (
	baselineTries int
	retryBaseline bool
)

func childMain() {
	childMemoryCeiling()
	only := os.Getenv("VERIF_C17_CASE")
	thorough := os.Getenv("VERIF_C17_TIER") == "thorough"
	syncWatchdog := 30 * time.Second
	if thorough || only != "" {
		syncWatchdog = 45 * time.Second
	}
	run := func(name string, f func()) {
		if only != "" && only != name {
			return
		}
		fmt.Println("CASE " + name)
		f()
	}
	// --- A. a downloader sync against a remote whose replies have adversarial shape
	syncCase := func(headerSh, bodySh string) {
		name := fmt.Sprintf("sync/headers=%s/bodies=%s", headerSh, bodySh)
		run(name, func() {
			pm, rm, _, _ := newScenario(name, 12, 40, -3)
			rm.headerSh, rm.bodySh = headerSh, bodySh
			go rm.serve()
			done := rm.r.Sync()
			select {
			case <-done:
			case <-time.After(syncWatchdog):
				// A peer may legitimately keep a sync waiting for as long as it stays connected (it is the
				// only source of data here).  What must hold: once it is gone, the sync comes back.
				fmt.Println("RESULT stalled-until-disconnect")
				rm.r.Close()
				select {
				case <-done:
				case <-time.After(60 * time.Second):
					fmt.Println("HANG " + name)
				}
			}
			close(rm.stop)
			h := pm.LocalHeight()
			if headerSh == "honest" && bodySh == "honest" && h != 52 {
				// under heavy machine load the downloader's rtt-based time-outs can drop even an honest
				// peer: retry before declaring the mock remote broken
				baselineTries++
				fmt.Printf("RESULT baseline-retry height=%d\n", h)
				if baselineTries >= 4 {
					fmt.Printf("BASELINE-FAILED honest sync ended at height %d, want 52 (4 attempts)\n", h)
					os.Exit(4)
				}
				rm.r.Close()
				retryBaseline = true
				return
			}
			res := "rejected"
			if h == 52 {
				res = "synced"
			} else if h > 12 {
				res = "partial"
			}
			fmt.Printf("RESULT %s height=%d connected=%v\n", res, h, rm.r.Connected())
			rm.r.Close()
		})
	}
	syncCase("honest", "honest")
	for retryBaseline {
		retryBaseline = false
		syncCase("honest", "honest")
	}
	bs := []string{"more", "more-dup", "double", "zero", "fewer", "dup-first", "mismatch"}
	if thorough || only != "" {
		// a reply whose FIRST entry does not match is a stale delivery: the downloader neither idles nor
		// drops the peer for it, the request times out (rtt-based, tens of seconds), the peer is idled
		// with capacity 0 and asked again: the sync does not end while that peer stays connected
		// (observed > 300 s).  Too slow for the quick tier; the shapes themselves are covered at queue
		// level in every run.
		bs = append(bs, "reordered", "reversed")
	}
	for _, sh := range bs {
		syncCase("honest", sh)
	}
	hs := []string{"more", "fewer", "zero", "reordered", "mismatch", "double"}
	if thorough {
		hs = append(hs, "more-dup", "dup-first", "reversed")
	}
	for _, sh := range hs {
		syncCase(sh, "honest")
	}
	// --- A1b. a sync long enough for the skeleton / fill protocol (local 12, remote 12 + 420 empty
	// blocks): fill requests (192 headers) answered with full-size batches bent towards each
	// rejection branch of queue.DeliverHeaders — over the wire, so the node sees decoded headers
	skelCase := func(fillSh string) {
		name := "skeleton/fill=" + fillSh
		run(name, func() {
			pm, rm, _, _ := newScenario(name, 12, 420, 0)
			rm.fillSh = fillSh
			go rm.serve()
			done := rm.r.Sync()
			select {
			case <-done:
			case <-time.After(syncWatchdog):
				fmt.Println("RESULT stalled-until-disconnect")
				rm.r.Close()
				select {
				case <-done:
				case <-time.After(60 * time.Second):
					fmt.Println("HANG " + name)
				}
			}
			close(rm.stop)
			h := pm.LocalHeight()
			if fillSh == "honest" && h != 432 {
				baselineTries++
				fmt.Printf("RESULT baseline-retry skeleton height=%d\n", h)
				if baselineTries >= 4 {
					fmt.Printf("BASELINE-FAILED honest skeleton sync ended at height %d, want 432\n", h)
					os.Exit(4)
				}
				rm.r.Close()
				retryBaseline = true
				return
			}
			if fillSh != "honest" && rm.fills == 0 {
				fmt.Println("BASELINE-FAILED no skeleton-fill request was seen in " + name)
				os.Exit(4)
			}
			res := "rejected"
			if h == 432 {
				res = "synced"
			} else if h > 12 {
				res = "partial"
			}
			fmt.Printf("RESULT skeleton-%s height=%d fills-bent=%d connected=%v\n", res, h, rm.fills, rm.r.Connected())
			rm.r.Close()
		})
	}
	skelCase("honest")
	for retryBaseline {
		retryBaseline = false
		skelCase("honest")
	}
	fs := []string{"shifted+1", "count-191", "bad-link-middle"}
	if thorough {
		fs = []string{"shifted+1", "count-191", "count-193", "last-replaced", "bad-link-middle", "gap-middle", "same-header", "zero"}
	}
	for _, sh := range fs {
		skelCase(sh)
	}
	// --- A2. fast sync (headers, bodies, receipts, state trie nodes) against a server whose
	// receipt / node-data replies are bent
	const fastN = 90
	fastCase := func(receiptSh, stateSh string) {
		name := fmt.Sprintf("fastsync/receipts=%s/state=%s", receiptSh, stateSh)
		run(name, func() {
			pm, srv, err := aqua.VerifNewFastPair(fastN)
			if err != nil {
				fmt.Println("BASELINE-FAILED cannot build fast-sync pair:", err)
				os.Exit(4)
			}
			rm := &remote{byNum: map[uint64]*types.Block{}, byHash: map[common.Hash]*types.Block{}, bodySh: "honest", headerSh: "honest",
				receiptSh: receiptSh, stateSh: stateSh, srv: srv, stop: make(chan struct{}), top: fastN}
			for _, b := range srv.Blocks {
				rm.byNum[b.NumberU64()] = b
				rm.byHash[b.Hash()] = b
			}
			r, err := pm.Connect(name, srv.Blocks[fastN].Hash(), srv.TD(fastN))
			if err != nil {
				fmt.Println("BASELINE-FAILED cannot connect:", err)
				os.Exit(4)
			}
			rm.r = r
			go rm.serve()
			done := rm.r.Sync()
			select {
			case <-done:
			case <-time.After(syncWatchdog):
				fmt.Println("RESULT stalled-until-disconnect")
				rm.r.Close()
				select {
				case <-done:
				case <-time.After(60 * time.Second):
					fmt.Println("HANG " + name)
				}
			}
			close(rm.stop)
			h, fh := pm.LocalHeight(), pm.FastHeight()
			if receiptSh == "honest" && stateSh == "honest" && (h != fastN || pm.FastSyncEnabled()) {
				baselineTries++
				fmt.Printf("RESULT baseline-retry fast height=%d fastheight=%d\n", h, fh)
				if baselineTries >= 4 {
					fmt.Printf("BASELINE-FAILED honest fast sync ended at height %d / fast block %d, want %d\n", h, fh, fastN)
					os.Exit(4)
				}
				rm.r.Close()
				retryBaseline = true
				return
			}
			res := "rejected"
			if h == fastN {
				res = "synced"
			} else if fh > 0 {
				res = "partial"
			}
			fmt.Printf("RESULT fast-%s height=%d fastheight=%d connected=%v\n", res, h, fh, rm.r.Connected())
			rm.r.Close()
		})
	}
	fastCase("honest", "honest")
	for retryBaseline {
		retryBaseline = false
		fastCase("honest", "honest")
	}
	// quick tier: the over-long replies only (a bent state reply stalls the state sync until the peer
	// leaves, tens of seconds)
	rs, ss := []string{"more"}, []string{"more"}
	if thorough {
		rs = []string{"more", "more-dup", "double", "zero", "fewer", "dup-first", "mismatch"}
		ss = []string{"more", "more-dup", "double", "zero", "fewer", "reordered", "mismatch"}
	}
	for _, sh := range rs {
		fastCase(sh, "honest")
	}
	for _, sh := range ss {
		fastCase("honest", sh)
	}
	// --- B. responses nobody asked for, on a connected peer without and with a sync in progress
	run("unsolicited/responses", func() {
		pm, rm, blocks, receipts := newScenario("unsolicited", 12, 40, -3)
		_ = pm
		var hl []*types.Header
		type body struct {
			Txs    []*types.Transaction
			Uncles []*types.Header
		}
		var bl []body
		var rl [][]*types.Receipt
		for i, b := range blocks {
			hl = append(hl, b.Header())
			bl = append(bl, body{b.Transactions(), b.Uncles()})
			rl = append(rl, receipts[i])
		}
		enc := func(v interface{}) []byte { b, _ := rlp.EncodeToBytes(v); return b }
		send := func() {
			for _, n := range []int{0, 1, 2, 40} {
				rm.r.Send(aqua.BlockHeadersMsg, enc(hl[:n]), 3*time.Second)
				rm.r.Send(aqua.BlockBodiesMsg, enc(bl[:n]), 3*time.Second)
				rm.r.Send(aqua.ReceiptsMsg, enc(rl[:n]), 3*time.Second)
				rm.r.Send(aqua.NodeDataMsg, enc([][]byte{{1, 2, 3}, {}, bytes.Repeat([]byte{7}, 600)}[:min(n, 3)]), 3*time.Second)
			}
		}
		send() // no sync active
		// now with a sync in progress whose requests are never answered
		go func() {
			for {
				if _, _, ok := rm.r.ReadMsg(100 * time.Millisecond); !ok {
					select {
					case <-rm.stop:
						return
					default:
					}
				}
			}
		}()
		done := rm.r.Sync()
		time.Sleep(150 * time.Millisecond)
		send()
		select {
		case <-done:
		case <-time.After(3 * time.Second): // an unanswered sync legitimately waits for its own timeouts
		}
		close(rm.stop)
		fmt.Printf("RESULT unsolicited height=%d\n", pm.LocalHeight())
		rm.r.Close()
	})
	// --- C. the fetcher: announcements answered adversarially, inconsistent NewBlock, invalid transactions
	run("fetcher/announce", func() {
		pm, rm, blocks, _ := newScenario("fetcher", 12, 6, -3)
		enc := func(v interface{}) []byte { b, _ := rlp.EncodeToBytes(v); return b }
		type ann struct {
			Hash   common.Hash
			Number uint64
		}
		// announces: right number, wrong number, far ahead, far behind, unknown hash, duplicates
		rm.r.Send(aqua.NewBlockHashesMsg, enc([]ann{{blocks[0].Hash(), 13}, {blocks[1].Hash(), 99}, {blocks[2].Hash(), 1 << 62}, {blocks[3].Hash(), 0},
			{common.Hash{1}, 13}, {blocks[0].Hash(), 13}, {blocks[0].Hash(), 14}}), 3*time.Second)
		rm.headerSh, rm.bodySh = "more", "more" // the fetcher asks for 1 header / n bodies and gets more
		go rm.serve()
		time.Sleep(900 * time.Millisecond)
		rm.headerSh, rm.bodySh = "honest", "double"
		rm.r.Send(aqua.NewBlockHashesMsg, enc([]ann{{blocks[0].Hash(), 13}}), 3*time.Second)
		time.Sleep(900 * time.Millisecond)
		rm.headerSh, rm.bodySh = "honest", "zero"
		rm.r.Send(aqua.NewBlockHashesMsg, enc([]ann{{blocks[0].Hash(), 13}}), 3*time.Second)
		time.Sleep(900 * time.Millisecond)
		// NewBlock: TD smaller than the block's difficulty, absurd TD, block far ahead, then the right one
		type nb struct {
			Block *types.Block
			TD    *big.Int
		}
		rm.r.Send(aqua.NewBlockMsg, enc(nb{blocks[0], big.NewInt(0)}), 3*time.Second)
		rm.r.Send(aqua.NewBlockMsg, enc(nb{blocks[5], new(big.Int).Lsh(big.NewInt(1), 300)}), 3*time.Second)
		rm.r.Send(aqua.NewBlockMsg, enc(nb{blocks[0], new(big.Int).Add(blocks[0].Difficulty(), big.NewInt(1))}), 3*time.Second)
		time.Sleep(400 * time.Millisecond)
		// transactions: valid, duplicated, re-signed garbage, empty list
		txs := blocks[1].Transactions()
		bad := types.NewTransaction(7, common.Address{9}, big.NewInt(1), 21000, big.NewInt(1), nil) // unsigned: r,s,v = 0
		rm.r.Send(aqua.TxMsg, enc([]*types.Transaction{}), 3*time.Second)
		rm.r.Send(aqua.TxMsg, enc(append(append(types.Transactions{}, txs...), txs...)), 3*time.Second)
		rm.r.Send(aqua.TxMsg, enc([]*types.Transaction{bad, bad}), 3*time.Second)
		time.Sleep(200 * time.Millisecond)
		close(rm.stop)
		fmt.Printf("RESULT fetcher height=%d connected=%v\n", pm.LocalHeight(), rm.r.Connected())
		rm.r.Close()
	})
	childProtoHandshake(run)
	childBaseProtocol(run, thorough)
	childHeaderQueries(run, thorough, only)
	fmt.Println("DONE")
}

// memory ceiling of the child: an address-space limit (a reply buffer sized from an attacker's
// field must fail to allocate instead of taking the machine down) and a heap watchdog.
func childMemoryCeiling() {
	lim := syscall.Rlimit{Cur: 12 << 30, Max: 12 << 30}
	syscall.Setrlimit(syscall.RLIMIT_AS, &lim)
	go func() {
		for {
			var ms runtime.MemStats
			runtime.ReadMemStats(&ms)
			if ms.HeapSys > 3<<30 {
				fmt.Printf("MEMORY heap grew to %d bytes\n", ms.HeapSys)
				os.Exit(5)
			}
			time.Sleep(100 * time.Millisecond)
		}
	}()
}

// --- D. base-protocol messages through a real p2p.Peer (run / readLoop / pingLoop / handle) over
// the real rlpx transport on a net.Pipe: every peer run must end with an error or a disconnect.
func childBaseProtocol(run func(string, func()), thorough bool) {
	rng := vh.NewRNG(7)
	type bm struct {
		code    uint64
		payload []byte
	}
	enc := func(v interface{}) []byte { b, _ := rlp.EncodeToBytes(v); return b }
	type bc struct {
		name string
		msgs []bm
		ends bool // the message itself must end the peer run
	}
	var cases []bc
	for _, rsn := range []uint64{0, 1, 2, 3, 4, 5, 6, 7, 8, 9, 10, 11, 12, 13, 14, 15, 16, 17, 18, 19, 20, 255, 256, 1 << 31, 1<<63 - 1, 1 << 63, 1<<64 - 1} {
		cases = append(cases, bc{fmt.Sprintf("disc/reason=%d", rsn), []bm{{p2p.VerifDiscMsg, enc([]uint64{rsn})}}, true})
	}
	cases = append(cases,
		bc{"disc/empty-payload", []bm{{p2p.VerifDiscMsg, nil}}, true},
		bc{"disc/empty-list", []bm{{p2p.VerifDiscMsg, []byte{0xc0}}}, true},
		bc{"disc/non-list", []bm{{p2p.VerifDiscMsg, []byte{0x11}}}, true},
		bc{"disc/string", []bm{{p2p.VerifDiscMsg, []byte{0x83, 1, 2, 3}}}, true},
		bc{"disc/two-elements", []bm{{p2p.VerifDiscMsg, enc([]uint64{17, 1 << 63})}}, true},
		bc{"disc/nested-list", []bm{{p2p.VerifDiscMsg, []byte{0xc1, 0xc0}}}, true},
		bc{"disc/9-byte-int", []bm{{p2p.VerifDiscMsg, []byte{0xca, 0x89, 1, 2, 3, 4, 5, 6, 7, 8, 9}}}, true},
		bc{"disc/truncated", []bm{{p2p.VerifDiscMsg, []byte{0xc5, 0x11}}}, true},
		bc{"disc/garbage", []bm{{p2p.VerifDiscMsg, rng.Bytes(40)}}, true},
		bc{"ping/empty", []bm{{p2p.VerifPingMsg, nil}}, false},
		bc{"ping/list", []bm{{p2p.VerifPingMsg, []byte{0xc0}}, {p2p.VerifPingMsg, rng.Bytes(300)}}, false},
		bc{"pong/payloads", []bm{{p2p.VerifPongMsg, nil}, {p2p.VerifPongMsg, rng.Bytes(100)}}, false},
		bc{"handshake-again", []bm{{p2p.VerifHandshakeMsg, enc([]interface{}{uint(5), "x", []interface{}{}, uint(0), rng.Bytes(64)})}}, false},
		bc{"unknown-base-codes", []bm{{4, nil}, {5, []byte{0xc0}}, {15, rng.Bytes(50)}}, false},
		bc{"subprotocol-codes", []bm{{16, []byte{0xc0}}, {32, rng.Bytes(10)}}, false},
		bc{"code-out-of-range", []bm{{33, []byte{0xc0}}}, true},
		bc{"code-2^63", []bm{{1 << 63, nil}}, true},
		bc{"code-2^64-1", []bm{{1<<64 - 1, []byte{0xc0}}}, true},
		bc{"many-pings-then-disc", []bm{{2, nil}, {2, nil}, {2, nil}, {3, nil}, {p2p.VerifDiscMsg, enc([]uint64{17})}}, true},
	)
	for _, x := range cases {
		x := x
		run("base/"+x.name, func() {
			a, b := net.Pipe()
			s := newSecrets(rng, 16)
			res := p2p.VerifRunPeer(a, s.aes, s.mac, s.inSeed, s.egSeed) // the node: its ingress is our egress
			w := p2p.VerifNewFrameRW(b, s.aes, s.mac, s.egSeed, s.inSeed, false)
			go func() { // drain what the node sends (pongs, its disconnect reason)
				for {
					if _, _, _, cls, _ := w.ReadMsg(); cls != "" {
						return
					}
				}
			}()
			sent := make(chan struct{})
			go func() {
				for _, mm := range x.msgs {
					b.SetWriteDeadline(time.Now().Add(3 * time.Second))
					if w.WriteMsg(mm.code, mm.payload) != nil {
						break
					}
				}
				close(sent)
			}()
			select {
			case <-sent:
			case <-time.After(8 * time.Second):
			}
			closed := false
			if !x.ends {
				time.Sleep(30 * time.Millisecond)
				b.Close()
				closed = true
			}
			select {
			case r := <-res:
				fmt.Printf("RESULT base-ended remote=%v closed-by-us=%v\n", r.RemoteRequested, closed)
			case <-time.After(8 * time.Second):
				if x.ends {
					fmt.Println("HANG base/" + x.name + " (peer run did not end on a message that must end it)")
				} else {
					fmt.Println("HANG base/" + x.name)
				}
			}
			a.Close()
			b.Close()
		})
	}
}

// --- E. GetBlockHeaders: the query fields swept over boundary values in all four modes on a
// connected peer; every reply is printed for the parent, which compares it with serve_headers.
func childHeaderQueries(run func(string, func()), thorough bool, only string) {
	const H = 30
	var pm *aqua.VerifPM
	var rm *remote
	setup := func() {
		if pm == nil {
			pm, rm, _, _ = newScenario("headers", H, 2, 1)
			go func() { <-rm.r.Done }()
		}
	}
	skips := []uint64{0, 1, 2, 1 << 31, 1 << 32, 1 << 43, 1<<63 - 1, 1 << 63, 1<<64 - 2, 1<<64 - 1}
	amounts := []uint64{0, 1, 3, 193, 1 << 63}
	if thorough {
		amounts = []uint64{0, 1, 2, 3, 191, 192, 193, 1000, 1<<63 - 1, 1 << 63, 1<<64 - 1}
		skips = append(skips, 3, 7, 28, 29, 30, 31, 1<<31-1, 1<<42, 1<<62)
	}
	for _, hm := range []bool{false, true} {
		for _, rev := range []bool{false, true} {
			for _, skip := range skips {
				for _, amount := range amounts {
					for _, o := range []int{0, H / 2, H, H + 1} {
						name := fmt.Sprintf("headers/hash=%v/reverse=%v/skip=%d/amount=%d/origin=%d", hm, rev, skip, amount, o)
						if only != "" && only != name {
							continue
						}
						setup()
						fmt.Println("CASE " + name)
						var origin interface{} = uint64(o)
						otxt := fmt.Sprint(o)
						if hm {
							if o <= H {
								origin = pm.Hashes[o]
							} else {
								origin = common.Hash{0xde, 0xad}
								otxt = "-"
							}
						}
						q, _ := rlp.EncodeToBytes([]interface{}{origin, amount, skip, rev})
						if !rm.r.Send(aqua.GetBlockHeadersMsg, q, 5*time.Second) {
							fmt.Println("RESULT headers-peer-dropped")
							return
						}
						var nums []string
						got := false
						for tries := 0; tries < 100 && !got; tries++ {
							code, payload, ok := rm.r.ReadMsg(10 * time.Second)
							if !ok {
								break
							}
							if code != aqua.BlockHeadersMsg {
								continue
							}
							var hs []*types.Header
							if rlp.DecodeBytes(payload, &hs) != nil {
								break
							}
							for _, h := range hs {
								nums = append(nums, h.Number.String())
							}
							got = true
						}
						if !got {
							fmt.Println("HANG " + name + " (no BlockHeaders reply within 10 s)")
							return
						}
						l := "-"
						if len(nums) > 0 {
							l = strings.Join(nums, ",")
						}
						fmt.Printf("HDR %d %s %s %d %d %s %s\n", H, b01(hm), otxt, amount, skip, b01(rev), l)
					}
				}
			}
		}
	}
}
