package main

// The frame reader on arbitrary streams (Net/FrameIO.v read_msg_io): the real rlpxFrameRW.ReadMsg
// reads from a net.Pipe whose other end writes an arbitrary / truncated / oversized / authenticated-
// but-lying stream and closes.  Observed: outcome class, message code, payload length, bytes taken
// from the connection, bytes allocated (runtime.MemStats) — compared with the model's I/O account.

import (
	"fmt"
	"net"
	"runtime"
	"strings"
	"sync/atomic"
	"time"

	"github.com/golang/snappy"
	"gitlab.com/aquachain/aquachain/p2p"
	"gitlab.com/aquachain/aquachain/verifharness/vh"
)

type countConn struct {
	net.Conn
	n int64
}

func (c *countConn) Read(p []byte) (int, error) {
	n, err := c.Conn.Read(p)
	atomic.AddInt64(&c.n, int64(n))
	return n, err
}

type ioObs struct {
	line     string // class [code payloadLen] consumed=N
	alloc    uint64
	panicked interface{}
	hung     bool
}

// readOverPipe: one ReadMsg of a fresh reader (ingress = the peer's egress) over a net.Pipe.
func readOverPipe(s *secrets, snap bool, stream []byte) (ioObs, *p2p.VerifFrameRW) {
	a, b := net.Pipe()
	go func() { // the remote: writes what it has and hangs up
		b.SetWriteDeadline(time.Now().Add(20 * time.Second))
		b.Write(stream)
		b.Close()
	}()
	cc := &countConn{Conn: a}
	rd := p2p.VerifNewFrameRW(cc, s.aes, s.mac, s.inSeed, s.egSeed, snap)
	var o ioObs
	done := make(chan struct{})
	go func() {
		defer close(done)
		var ms0, ms1 runtime.MemStats
		runtime.ReadMemStats(&ms0)
		p, pv := vh.CatchPanic(func() {
			lm, cls, _ := rd.ReadMsgLazy()
			used := atomic.LoadInt64(&cc.n)
			runtime.ReadMemStats(&ms1)
			if lm == nil {
				o.line = fmt.Sprintf("err %s consumed=%d", cls, used)
			} else {
				o.line = fmt.Sprintf("ok 0x%x %d consumed=%d", lm.Code, lm.Size, used)
			}
		})
		if p {
			o.panicked = pv
		}
		o.alloc = ms1.TotalAlloc - ms0.TotalAlloc
	}()
	select {
	case <-done:
	case <-time.After(60 * time.Second):
		o.hung = true
	}
	a.Close()
	return o, rd
}

func frameIOProbes(c *vh.Ctx, m *vh.Model) {
	r := c.Rng.Fork()
	pad16 := func(b []byte) []byte {
		for len(b)%16 != 0 {
			b = append(b, 0)
		}
		return b
	}
	type probe struct {
		name   string
		snap   bool
		build  func(s *secrets, w *rawWriter) []byte
		noModl bool
	}
	var probes []probe
	goodFrame := func(w *rawWriter, code byte, payload []byte) []byte {
		content := append([]byte{code}, payload...)
		return w.frame(uint32(len(content)), pad16(content))
	}
	// (a) authenticated frames whose size field and body length disagree in every way
	sizes := []uint32{0, 1, 16, 17, 256, 1<<24 - 1}
	if c.Thorough() {
		sizes = []uint32{0, 1, 2, 15, 16, 17, 255, 256, 4096, 65535, 1<<24 - 17, 1<<24 - 1}
	}
	for _, fs := range sizes {
		fs := fs
		rs := int((fs + 15) / 16 * 16)
		for _, rel := range []string{"exact", "minus1", "plus16", "none", "short"} {
			rel := rel
			if rs > 4096 && (rel == "exact" || rel == "minus1" || rel == "plus16") {
				continue // long bodies: covered by the long-message sessions (the model hashes the whole MAC state per frame)
			}
			probes = append(probes, probe{fmt.Sprintf("frameio/size=%d/body=%s", fs, rel), false, func(s *secrets, w *rawWriter) []byte {
				var n int
				switch rel {
				case "exact":
					n = rs
				case "minus1":
					n = rs - 1
				case "plus16":
					n = rs + 16
				case "none":
					n = 0
				default:
					n = r.Intn(rs + 1)
					if n > 1500 {
						n = 1 + r.Intn(1500)
					}
				}
				if n < 0 {
					n = 0
				}
				body := r.Bytes(n)
				if n > 0 && r.Bool() {
					body[0] = byte(1 + r.Intn(0x7f)) // a well-formed message code
				}
				st := w.frame(fs, body)
				if r.Bool() {
					st = append(st, goodFrame(w, 9, r.Bytes(5))...)
				}
				return st
			}, false})
		}
	}
	// (b) valid two-frame streams cut anywhere, extended with garbage, with one tag byte flipped
	for i := 0; i < c.Scale(16, 400); i++ {
		mode := i % 4
		probes = append(probes, probe{[]string{"frameio/truncated", "frameio/garbage-after", "frameio/flipped", "frameio/valid"}[mode], false, func(s *secrets, w *rawWriter) []byte {
			st := append(goodFrame(w, byte(1+r.Intn(100)), r.Bytes(r.Intn(60))), goodFrame(w, 7, r.Bytes(r.Intn(40)))...)
			switch mode {
			case 0:
				return st[:r.Intn(len(st))]
			case 1:
				return append(st, r.Bytes(r.Intn(50))...)
			case 2:
				st[r.Intn(64)] ^= byte(1 + r.Intn(255))
			}
			return st
		}, false})
	}
	// (c) unauthenticated noise of every interesting length
	for _, n := range []int{0, 1, 15, 16, 31, 32, 33, 47, 48, 64, 100, 1000, 70000} {
		n := n
		probes = append(probes, probe{fmt.Sprintf("frameio/noise len=%d", n), n%2 == 0, func(s *secrets, w *rawWriter) []byte { return r.Bytes(n) }, false})
	}
	// (d) snappy sessions: well-formed, lying about the decoded length, corrupt
	snapPayloads := [][]byte{snappy.Encode(nil, []byte("hello hello hello hello")), snappy.Encode(nil, nil), snappy.Encode(nil, r.Bytes(300)),
		uvarint(1<<24 - 1), uvarint(1 << 24), append(uvarint(1<<24-1), 0x00, 0x41), uvarint(1<<32 - 1), uvarint(1 << 32), {0x80}, {}, {0x05, 0x10, 'h'}, {0xff, 0xff, 0xff, 0xff, 0xff, 0xff, 0xff, 0xff, 0xff, 0x02}}
	for i, pl := range snapPayloads {
		pl := pl
		probes = append(probes, probe{fmt.Sprintf("frameio/snappy-%d", i), true, func(s *secrets, w *rawWriter) []byte { return goodFrame(w, 5, pl) }, false})
	}
	limit := uint64(32 + 1<<24 + 15)
	var tRead, tModel time.Duration
	tAll := time.Now()
	defer func() {
		c.Note("frame-io probes: %d in %.1fs (ReadMsg over pipe %.1fs, model %.1fs)", len(probes), time.Since(tAll).Seconds(), tRead.Seconds(), tModel.Seconds())
	}()
	for _, p := range probes {
		s := newSecrets(r, 64)
		w := newRawWriter(s)
		stream := p.build(s, w)
		t0 := time.Now()
		o, rd := readOverPipe(s, p.snap, stream)
		tRead += time.Since(t0)
		c.Eval(strings.SplitN(p.name, " ", 2)[0], p.name+"/"+o.line)
		rep := H{"kind": "frame-io", "snappy": p.snap, "aes": vh.Hex(s.aes), "mac": vh.Hex(s.mac), "egress_seed": vh.Hex(s.egSeed), "ingress_seed": vh.Hex(s.inSeed),
			"stream": vh.Hex(clipb(stream)), "stream_len": len(stream), "probe": p.name}
		if o.hung {
			c.Note("frame-io probe %s undecided: ReadMsg over a closed pipe did not return within 60 s (machine load?)", p.name)
			continue
		}
		if o.panicked != nil {
			c.Violate("frame-readmsg-panic", fmt.Sprintf("ReadMsg panics on stream %s: %v", p.name, o.panicked), rep)
			continue
		}
		// hard bound of the property: nothing beyond the protocol's size limits
		hard := limit + 1<<20
		if p.snap {
			hard += 3 << 24
		}
		if o.alloc > hard {
			c.Violate("frame-alloc-exceeds-limit", fmt.Sprintf("ReadMsg allocated %d bytes on %s", o.alloc, p.name), rep)
		}
		// direct oracle, independent of the model: an unauthenticated stream is given up after exactly the
		// 32 header bytes, and nothing is sized from it
		if strings.Contains(p.name, "noise") && len(stream) >= 32 {
			if want := "err hmac consumed=32"; o.line != want || o.alloc > 1<<16 {
				c.Violate("frame-unauthenticated-header-acted-upon", fmt.Sprintf("on %d bytes of noise ReadMsg answered %q and allocated %d bytes (expected a header-MAC error after exactly 32 bytes)", len(stream), o.line, o.alloc), rep)
			}
		}
		if len(stream) > 40000 && strings.Contains(p.name, "noise") {
			continue // MAC fails on the first 32 bytes; the model needs no 70 kB hex line for that
		}
		s.extendKS(len(stream) + 64)
		sdec := map[string]string{}
		if p.snap {
			for _, pl := range snapPayloads {
				snapDecEntry(sdec, pl)
			}
		}
		t0 = time.Now()
		ans := m.Ask(fmt.Sprintf("freadio %s 0 %s %s %s %s %s", b01(p.snap), vh.Hex(s.egSeed), vh.Hex(stream), vh.Hex(s.ks), aesTable(w.calls, rd.AESCalls), tbl(sdec)))
		tModel += time.Since(t0)
		// model line: "<result> consumed=N alloc=N declared=D"
		f := strings.Fields(ans)
		mod := ans
		var modAlloc uint64
		if len(f) >= 4 {
			mod = strings.Join(f[:len(f)-2], " ")
			fmt.Sscanf(f[len(f)-2], "alloc=%d", &modAlloc)
		}
		c.Correspond("ReadMsg over net.Pipe (result, bytes consumed)~read_msg_io", p.name, o.line, mod)
		// the model's allocation account bounds the measured one (ReadAll doubles its buffer; fixed slack for the runtime)
		if modAlloc > 0 && o.alloc > 3*modAlloc+1<<19 {
			c.Violate("frame-alloc-beyond-model/"+p.name, fmt.Sprintf("ReadMsg allocated %d bytes where the model accounts for %d", o.alloc, modAlloc), rep)
		}
	}
}
