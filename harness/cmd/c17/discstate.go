package main

// Discovery as a packet-history state machine (Net/DiscState.v): generated histories of signed
// datagrams from a few remote identities are fed to the real udp.handlePacket of a real transport
// (fake socket); after every event the handler's verdict, the datagrams the node wrote (kinds,
// neighbor counts, sizes), the set of bonded ids and the table size are compared with the model.
// The node's own asynchronous reactions (the bonding ping goes out from a goroutine) are awaited
// with a generous bound; if the machine is too loaded for that, the history is counted as
// undecided, never as an alarm.

import (
	"bytes"
	"fmt"
	"net"
	"sort"
	"strings"
	"time"

	"gitlab.com/aquachain/aquachain/p2p/discover"
	"gitlab.com/aquachain/aquachain/verifharness/vh"
)

type dsmRemote struct {
	key  dkey
	addr *net.UDPAddr
}

func discoveryHistories(c *vh.Ctx, m *vh.Model) {
	r := c.Rng.Fork()
	nHist := c.Scale(2, 12)
	for hi := 0; hi < nHist; hi++ {
		nc := hi%2 == 1
		nRem := 3
		if hi%2 == 0 {
			nRem = 14 // enough bonded nodes for a neighbors reply in two packets (maxNeighbors = 12)
		}
		discoveryHistory(c, m, r, nc, nRem, fmt.Sprintf("history#%d netcompat=%v remotes=%d", hi, nc, nRem))
	}
}

func discoveryHistory(c *vh.Ctx, m *vh.Model, r *vh.RNG, nc bool, nRem int, name string) {
	chain := uint64(61717561)
	if nc {
		chain = 1
	}
	u, err := discover.VerifNewUDP(newKey(r).priv, chain)
	if err != nil {
		c.Fatal("cannot create udp transport: %v", err)
	}
	defer u.Close()
	if !u.WaitInit(20 * time.Second) {
		c.Note("discovery %s undecided: table initialisation did not finish within 20 s", name)
		return
	}
	rem := make([]dsmRemote, nRem+1) // ids 1..nRem
	for i := 1; i <= nRem; i++ {
		rem[i] = dsmRemote{newKey(r), &net.UDPAddr{IP: net.IP{5, byte(10 + i), 7, 9}, Port: 30000 + i}} // distinct /24s: the table admits at most 10 nodes per subnet
	}
	t0 := time.Now().Unix()
	modelNow := t0 + 2 // the model's clock never runs behind the real one during the history
	live, dead := func() uint64 { return uint64(modelNow + 30) }, func() uint64 { return uint64(t0 - 10) }
	wire := func(base byte) byte {
		if nc {
			return base - 133
		}
		return base
	}
	ep := func(a *net.UDPAddr) discover.VerifEndpoint {
		return discover.VerifEndpoint{IP: a.IP.To4(), UDP: uint16(a.Port), TCP: uint16(a.Port)}
	}
	var events, observed []string
	tokens := map[string]int{} // hash of a ping the node sent -> its sequence number
	tokHash := map[int][]byte{}
	sentSoFar := 0
	undecided := false
	bonded := map[int]bool{}
	obsState := func() string {
		var ids []string
		for i := 1; i <= nRem; i++ {
			if u.HasBond(rem[i].key.id) {
				ids = append(ids, fmt.Sprint(i))
			}
		}
		sort.Slice(ids, func(a, b int) bool {
			return len(ids[a]) < len(ids[b]) || (len(ids[a]) == len(ids[b]) && ids[a] < ids[b])
		})
		return "bonded=" + strings.Join(ids, ".") + "/table=" + fmt.Sprint(u.TableLen())
	}
	// collect what the node wrote since the last event; wantPing: wait for the asynchronous bonding ping
	collect := func(to int, wantPing bool) string {
		deadline := time.Now().Add(10 * time.Second)
		for {
			sent := u.SentFrom(sentSoFar)
			hasPing := false
			for _, s := range sent {
				if s.Kind == "ping" {
					hasPing = true
				}
			}
			if !wantPing || hasPing || time.Now().After(deadline) {
				if wantPing && !hasPing {
					undecided = true
				}
				var outs []string
				for _, s := range sent {
					if s.Size > 1280 {
						c.Violate("discover-packet-exceeds-1280", fmt.Sprintf("the node wrote a %d-byte %s datagram", s.Size, s.Kind), H{"kind": "discover-history", "history": name})
					}
					switch s.Kind {
					case "ping":
						k := len(tokens)
						tokens[string(s.Hash)] = k
						tokHash[k] = s.Hash
						outs = append(outs, fmt.Sprintf("ping>%d#%d", to, k))
					case "neighbors":
						outs = append(outs, fmt.Sprintf("neighbors>%d*%d", to, s.Nodes))
					default:
						outs = append(outs, fmt.Sprintf("%s>%d", s.Kind, to))
					}
				}
				sentSoFar += len(sent)
				if len(outs) == 0 {
					return "-"
				}
				return strings.Join(outs, "+")
			}
			time.Sleep(2 * time.Millisecond)
		}
	}
	inbound := func(from int, ev string, ptype byte, req interface{}, expectPing bool, expectBond bool) {
		pkt, _, err := discover.VerifEncodePacket(nc, rem[from].key.priv, wire(ptype), req)
		if err != nil {
			c.Fatal("encodePacket: %v", err)
		}
		hadBond := u.HasBond(rem[from].key.id)
		var cls string
		p, pv := vh.CatchPanic(func() { cls = u.HandlePacket(rem[from].addr, pkt) })
		if p {
			c.Violate("discover-handlepacket-panic/"+vh.Hex(pkt), fmt.Sprintf("handlePacket panics in %s: %v", name, pv), H{"kind": "handle", "netcompat": nc, "buf": vh.Hex(pkt)})
			undecided = true
			return
		}
		if expectBond { // the bond is recorded by the goroutine that was waiting for this pong
			for d := time.Now().Add(10 * time.Second); !u.HasBond(rem[from].key.id) && time.Now().Before(d); {
				time.Sleep(2 * time.Millisecond)
			}
			for d := time.Now().Add(10 * time.Second); u.TableLen() < len(bonded)+1 && time.Now().Before(d); {
				time.Sleep(2 * time.Millisecond)
			}
			if !u.HasBond(rem[from].key.id) {
				undecided = true
			}
			bonded[from] = true
		}
		outs := collect(from, expectPing)
		if strings.Contains(outs, "neighbors>") && !hadBond {
			c.Violate("discover-findnode-answered-without-bond", "neighbors were sent to a node without a valid bond in "+name, H{"kind": "discover-history", "history": name, "events": strings.Join(events, ",")})
		}
		events = append(events, ev)
		observed = append(observed, cls+"/"+outs+"/"+obsState())
	}
	ping := func(from int, expired bool, expectPing bool) {
		exp := live()
		if expired {
			exp = dead()
		}
		inbound(from, fmt.Sprintf("I%d:P:%d", from, exp), discover.VerifAquaPing, discover.VerifMakePing(4, ep(rem[from].addr), ep(&net.UDPAddr{IP: net.IP{127, 0, 0, 1}, Port: 30303}), exp, nil), expectPing && !expired, false)
	}
	pong := func(from, tok int, expired, completes bool) {
		exp := live()
		if expired {
			exp = dead()
		}
		h := tokHash[tok]
		if h == nil {
			h = bytes.Repeat([]byte{byte(tok)}, 32) // a token the node never issued
		}
		inbound(from, fmt.Sprintf("I%d:O:%d:%d", from, tok, exp), discover.VerifAquaPong, discover.VerifMakePong(ep(rem[from].addr), h, exp, nil), false, completes && !expired)
	}
	findnode := func(from int, expired bool) {
		exp := live()
		if expired {
			exp = dead()
		}
		var tg discover.NodeID
		copy(tg[:], r.Bytes(64))
		inbound(from, fmt.Sprintf("I%d:F:%d", from, exp), discover.VerifAquaFindnode, discover.VerifMakeFindnode(tg, exp, nil), false, false)
	}
	neighbors := func(from, n int, expired bool) {
		exp := live()
		if expired {
			exp = dead()
		}
		var ns []discover.VerifNode
		for i := 0; i < n; i++ {
			k := rem[1+i%nRem]
			ns = append(ns, discover.VerifNode{IP: net.IP{5, 6, 8, byte(i + 1)}.To4(), UDP: 31000, TCP: 31000, ID: k.key.id})
		}
		inbound(from, fmt.Sprintf("I%d:N:%d:%d", from, n, exp), discover.VerifAquaNeighbors, discover.VerifMakeNeighbors(ns, exp, nil), false, false)
	}
	// --- the history
	findnode(1, false) // no bond
	pong(1, 200, false, false)
	neighbors(1, 3, false)
	order := r.Intn(2)
	for i := 1; i <= nRem && !undecided; i++ {
		tok := len(tokens)
		ping(i, i%5 == 3, true) // some first pings are expired: then nothing happens at all
		if i%5 == 3 {
			ping(i, false, true)
		}
		if i <= 3 {
			findnode(i, false)             // still no bond: the node has only been pinged
			pong(i, tok+100, false, false) // solicited sender, wrong token: matched but no bond
			pong(i, tok, true, false)      // right token, expired
			if i > 1 && order == 0 {
				pong(i-1, tok, false, false) // right token from the wrong (already bonded) node: unsolicited
			}
		}
		pong(i, tok, false, true) // completes the bond
		if i <= 3 {
			ping(i, false, false) // bonded: pong only
			pong(i, tok, false, false)
		}
		if i <= 3 || i == nRem || i == 12 || i == 13 {
			findnode(i, false)
		}
		findnode(i, true)
	}
	if !undecided {
		// the node asks 1 for neighbors; replies from others are unsolicited; 1 answers in two packets
		u.IssueFindnode(rem[1].key.id, rem[1].addr)
		for d := time.Now().Add(10 * time.Second); len(u.SentFrom(sentSoFar)) == 0 && time.Now().Before(d); {
			time.Sleep(2 * time.Millisecond)
		}
		started := time.Now()
		outs := collect(1, false)
		events = append(events, "F1")
		observed = append(observed, "local/"+outs+"/"+obsState())
		neighbors(2, 4, false)
		neighbors(1, 5, true)
		neighbors(1, 5, false)
		neighbors(1, 11, false)
		if time.Since(started) > 3*time.Second { // the request may have timed out in real time meanwhile
			undecided = true
		}
		neighbors(1, 2, false)
		// the clock advances by more than the bond expiration (quiescent: nothing pending)
		for i := 1; i <= nRem; i++ {
			if bonded[i] {
				u.SetBondTime(rem[i].key.id, t0-3700)
			}
		}
		modelNow += 3700
		events = append(events, "T3700")
		observed = append(observed, "local/-/"+obsState())
		findnode(1, false)
		findnode(2, false)
	}
	c.Eval("discover/history", name)
	if undecided {
		c.Note("discovery %s undecided: an asynchronous reaction of the node did not show up in time (machine load)", name)
		return
	}
	ans := m.Ask(fmt.Sprintf("dsm %d %s", t0+2, strings.Join(events, ",")))
	got := strings.Split(ans, ";")
	for i, o := range observed {
		mod := "?"
		if i < len(got) {
			mod = got[i]
		}
		c.Correspond("udp.handlePacket over a packet history~DiscState.step", fmt.Sprintf("%s step %d: %s", name, i, events[i]), o, mod)
	}
}
