// forks.go — part (d) of the C01 harness: two competing forks that are adversarial about
// shared identities.  From a common prefix, fork A and fork B put DIFFERENT things at the
// SAME identities (same deployer and nonce => same contract address with code of different
// length; constructor storage, storage slots of a shared contract, balances of a shared
// account, a selfdestruct on one fork only), and later blocks of each fork READ them
// (EXTCODESIZE, EXTCODECOPY, BALANCE, CALL into them, SSTORE of everything read).  One
// running node then imports both forks in every order (A then B, B then A, interleaved,
// batch / per block, archive / pruning, with restarts, after a failed block of the other
// fork) and every block's receipts and post-state must be those of a cold node that only
// ever saw that fork.  Anything a node-level cache keys too coarsely (code size by address,
// code, past tries, receipts, bodies) shows up as a refused block or a differing result.
package main

import (
	"fmt"
	"math/big"
	"strings"

	"gitlab.com/aquachain/aquachain/common"
	"gitlab.com/aquachain/aquachain/core"
	"gitlab.com/aquachain/aquachain/core/types"
	"gitlab.com/aquachain/aquachain/crypto"
	"gitlab.com/aquachain/aquachain/rlp"
	"gitlab.com/aquachain/aquachain/verifharness/vh"
)

var probeAddrs = []common.Address{
	common.HexToAddress("0x00000000000000000000000000000000000c0021"),
	common.HexToAddress("0x00000000000000000000000000000000000c0022"),
}

// t := cd[0]; SSTORE(0, EXTCODESIZE(t)); SSTORE(1, BALANCE(t)); EXTCODECOPY(t,0,0,32); SSTORE(2, MLOAD(0));
// CALLDATACOPY(32,32,64); SSTORE(3, CALL(gas,t,0,32,64,0,0)); LOG1(0,32,t)
var probeCode = hx("600035 803b600055 8031600155 602060006000833c 600051600255 604060206020 37 60006000604060206000855af1 600355 60206000a1")

var ctxAddr = common.HexToAddress("0x00000000000000000000000000000000000c0031")

// ctxCode: SSTORE(0x10+i, BLOCKHASH(NUMBER-k)) for k = 1..12, 256, 257; BLOCKHASH(NUMBER); BLOCKHASH(NUMBER+1);
// SSTORE(0x30.., COINBASE, TIMESTAMP, NUMBER, DIFFICULTY, GASLIMIT); SSTORE(0x100+cd[0], BLOCKHASH(NUMBER-cd[0]));
// LOG1(0,0,BLOCKHASH(NUMBER-1))
func ctxCode() []byte {
	var c []byte
	slot := byte(0x10)
	for k := 1; k <= 12; k++ {
		c = append(c, 0x60, byte(k), 0x43, 0x03, 0x40, 0x60, slot, 0x55)
		slot++
	}
	for _, k := range []int{256, 257} {
		c = append(c, 0x61, byte(k>>8), byte(k), 0x43, 0x03, 0x40, 0x60, slot, 0x55)
		slot++
	}
	c = append(c, 0x43, 0x40, 0x60, slot, 0x55)
	slot++
	c = append(c, 0x60, 0x01, 0x43, 0x01, 0x40, 0x60, slot, 0x55)
	for i, op := range []byte{0x41, 0x42, 0x43, 0x44, 0x45} {
		c = append(c, op, 0x60, byte(0x30+i), 0x55)
	}
	c = append(c, 0x60, 0x00, 0x35, 0x43, 0x03, 0x40, 0x60, 0x00, 0x35, 0x61, 0x01, 0x00, 0x01, 0x55)
	c = append(c, 0x60, 0x01, 0x43, 0x03, 0x40, 0x60, 0x00, 0x60, 0x00, 0xa1)
	return c
}

type twinT struct {
	ch     *chainT // spec, genesis spec, generation database
	prefix []*types.Block
	fork   [2][]*types.Block
	x, y   common.Address
}

func (tw *twinT) replay(extra map[string]interface{}) map[string]interface{} {
	enc := func(bs []*types.Block) []string {
		var out []string
		for _, b := range bs {
			e, _ := rlp.EncodeToBytes(b)
			out = append(out, vh.Hex(e))
		}
		return out
	}
	m := map[string]interface{}{"config": tw.ch.spec.name, "genesis": "genesisSpec() of harness/cmd/c01",
		"prefix_rlp": enc(tw.prefix), "fork_A_rlp": enc(tw.fork[0]), "fork_B_rlp": enc(tw.fork[1]),
		"same_address_different_code": tw.x.Hex(), "same_address_different_ctor": tw.y.Hex()}
	for k, v := range extra {
		m[k] = v
	}
	return m
}

func buildTwin(c *vh.Ctx, spec cfgSpec) *twinT {
	r := c.Rng
	ch := &chainT{spec: spec, gspec: genesisSpec(spec.cfg)}
	pn := newNode(c, ch, &core.CacheConfig{Disabled: true})
	defer func() { pn.bc.Stop() }()
	ch.genesis = pn.bc.Genesis()
	tw := &twinT{ch: ch}
	g := &txgen{r: r, cfg: spec.cfg}
	randomTxs := func(b *blockGen, max int, nonces map[int]uint64) {
		for j := r.Intn(max + 1); j > 0; j-- {
			from := r.Intn(4)
			if _, ok := nonces[from]; !ok {
				nonces[from] = b.TxNonce(addrs[from])
			}
			tx, _ := g.make(from, nonces[from], b.Number(), true)
			nonces[from]++
			b.AddTx(tx)
		}
	}
	np := 2 + r.Intn(5)
	parent := ch.genesis
	for i := 0; i < np; i++ {
		blk, _ := extend(pn, parent, func(b *blockGen) {
			b.SetCoinbase(minerA)
			randomTxs(b, 3, map[int]uint64{})
		})
		tw.prefix = append(tw.prefix, blk)
		parent = blk
	}
	tip := parent
	la := 3 + r.Intn(2)
	lens := [2]int{la, la + 1}
	if r.Bool() {
		lens = [2]int{la + 1, la}
	}
	for f := 0; f < 2; f++ {
		f := f
		fnode := newNode(c, ch, &core.CacheConfig{Disabled: true}) // holds prefix + this fork only
		if err := fnode.insert(tw.prefix); err != nil {
			panic(fmt.Sprintf("fork builder node: %v", err))
		}
		fparent := tip
		for j := 0; j < lens[f]; j++ {
			j := j
			blk, _ := extend(fnode, fparent, func(b *blockGen) {
				b.SetCoinbase([]common.Address{minerA, minerB}[f])
				b.SetExtra([]byte{'f', byte('A' + f)})
				b.OffsetTime(int64(1 + 3*f + r.Intn(3))) // TIMESTAMP and DIFFICULTY differ between the forks
				nonces := map[int]uint64{}
				send := func(from int, tx *types.Transaction) {
					stx, err := types.SignTx(tx, types.HomesteadSigner{}, keys[from])
					if err != nil {
						panic(err)
					}
					b.AddTx(stx)
				}
				nonce := func(from int) uint64 {
					if _, ok := nonces[from]; !ok {
						nonces[from] = b.TxNonce(addrs[from])
					}
					n := nonces[from]
					nonces[from]++
					return n
				}
				price := big.NewInt(2000000000)
				// block context as seen from this fork: BLOCKHASH reaching back across the fork point
				// (and out of range), COINBASE, TIMESTAMP, NUMBER, DIFFICULTY, GASLIMIT — stored
				ctx := func() {
					from := r.Intn(4)
					depth := uint64(r.Intn(np + lens[f] + 2))
					send(from, types.NewTransaction(nonce(from), ctxAddr, big.NewInt(0), 900000, price, word(depth)))
				}
				switch {
				case j == 0:
					// same deployer, same nonce => same address; different init code => code of different length
					n0 := nonce(0)
					tw.x = crypto.CreateAddress(addrs[0], n0)
					send(0, types.NewContractCreation(n0, big.NewInt(int64(3+6*f)), 400000, price, initReturning([][]byte{storeCode, revlogCode}[f])))
					n1 := nonce(1)
					tw.y = crypto.CreateAddress(addrs[1], n1)
					send(1, types.NewContractCreation(n1, big.NewInt(0), 400000, price, [][]byte{initCtor(0x2a, 0x77, sdCode), initCtor(0x99, 0x55, storeCode[:40])}[f]))
					// same slots of a shared contract, different values (one fork clears a slot)
					d := append(append(append(append(append(word(1), word(uint64(100+f))...), word(2)...), word(uint64(222*f))...), word(5)...), word(uint64(50+f))...)
					send(2, types.NewTransaction(nonce(2), storeAddr, big.NewInt(0), 200000, price, d))
					// same fresh account, different balance
					send(2, types.NewTransaction(nonce(2), freshPool[0], big.NewInt(int64(5+2*f)), 21000, price, nil))
					// a selfdestruct of a different shared contract on each fork
					send(3, types.NewTransaction(nonce(3), sdAddrs[f], big.NewInt(0), 100000, price, common.LeftPadBytes(freshPool[1].Bytes(), 32)))
					ctx()
				default:
					ctx()
					targets := []common.Address{tw.x, tw.x, tw.y, freshPool[0], freshPool[1], sdAddrs[0], sdAddrs[1], storeAddr, emptyAddr}
					for q := 2 + r.Intn(3); q > 0; q-- {
						from := r.Intn(4)
						t := targets[r.Intn(len(targets))]
						if q == 1 {
							t = tw.x
						}
						data := append(common.LeftPadBytes(t.Bytes(), 32), append(word(uint64(1+r.Intn(6))), word(uint64(r.Intn(200)))...)...)
						send(from, types.NewTransaction(nonce(from), probeAddrs[r.Intn(2)], big.NewInt(0), 500000, price, data))
					}
					if j == 2 { // on A this writes X's storage, on B it reverts or logs; Y (probed above) destroys itself on fork A only
						send(0, types.NewTransaction(nonce(0), tw.x, big.NewInt(1), 200000, price, common.LeftPadBytes(freshPool[2].Bytes(), 32)))
					}
					if r.Bool() {
						ctx()
					}
					randomTxs(b, 2, nonces)
				}
			})
			tw.fork[f] = append(tw.fork[f], blk)
			fparent = blk
		}
		fnode.bc.Stop()
	}
	return tw
}

type forkHistory struct {
	name  string
	cache *core.CacheConfig
	run   func(c *vh.Ctx, n *node, tw *twinT) error
}

func perBlock(n *node, bs []*types.Block) error {
	for _, b := range bs {
		if err := n.insert([]*types.Block{b}); err != nil {
			return fmt.Errorf("block %d (%x): %v", b.NumberU64(), b.Hash().Bytes()[:4], err)
		}
	}
	return nil
}
func batch(n *node, bs []*types.Block) error {
	if err := n.insert(bs); err != nil {
		return fmt.Errorf("batch %d..%d: %v", bs[0].NumberU64(), bs[len(bs)-1].NumberU64(), err)
	}
	return nil
}
func interleave(a, b []*types.Block) []*types.Block {
	var out []*types.Block
	for i := 0; i < len(a) || i < len(b); i++ {
		if i < len(a) {
			out = append(out, a[i])
		}
		if i < len(b) {
			out = append(out, b[i])
		}
	}
	return out
}

func forkHistories() []forkHistory {
	archive := func() *core.CacheConfig { return &core.CacheConfig{Disabled: true} }
	var hs []forkHistory
	for first := 0; first < 2; first++ {
		first := first
		nm := []string{"A-then-B", "B-then-A"}[first]
		hs = append(hs,
			forkHistory{nm + "/batches/archive", archive(), func(c *vh.Ctx, n *node, tw *twinT) error {
				if err := batch(n, tw.fork[first]); err != nil {
					return err
				}
				return batch(n, tw.fork[1-first])
			}},
			forkHistory{nm + "/per-block+reads/pruning-default", nil, func(c *vh.Ctx, n *node, tw *twinT) error {
				for _, b := range append(append([]*types.Block{}, tw.fork[first]...), tw.fork[1-first]...) {
					if err := perBlock(n, []*types.Block{b}); err != nil {
						return err
					}
					n.warm()
				}
				return nil
			}},
			forkHistory{nm + "/restart-between-forks/archive", archive(), func(c *vh.Ctx, n *node, tw *twinT) error {
				if err := batch(n, tw.fork[first]); err != nil {
					return err
				}
				n.reopen(c)
				return perBlock(n, tw.fork[1-first])
			}},
			forkHistory{nm + "/restart-between-forks/pruning-default", nil, func(c *vh.Ctx, n *node, tw *twinT) error {
				if err := batch(n, tw.fork[first]); err != nil {
					return err
				}
				n.reopen(c) // only the newest states survive: the other fork arrives on pruned ancestors
				return perBlock(n, tw.fork[1-first])
			}},
			forkHistory{nm + "/failed-block-of-other-fork-first/archive", archive(), func(c *vh.Ctx, n *node, tw *twinT) error {
				// a block of the other fork with a wrong state root is executed and refused first
				bad := withHeader(tw.fork[1-first][0], func(h *types.Header) { h.Root = flipHash(c.Rng, h.Root) })
				if err := n.insert([]*types.Block{bad}); err == nil {
					return fmt.Errorf("a block with a corrupted state root was accepted")
				}
				if err := perBlock(n, tw.fork[first]); err != nil {
					return err
				}
				n.insert([]*types.Block{bad})
				return perBlock(n, tw.fork[1-first])
			}},
		)
	}
	hs = append(hs,
		forkHistory{"interleaved/per-block/archive", archive(), func(c *vh.Ctx, n *node, tw *twinT) error {
			return perBlock(n, interleave(tw.fork[0], tw.fork[1]))
		}},
		forkHistory{"interleaved/per-block/pruning-flush-every-block", &core.CacheConfig{}, func(c *vh.Ctx, n *node, tw *twinT) error {
			return perBlock(n, interleave(tw.fork[1], tw.fork[0]))
		}},
		forkHistory{"interleaved/random-restarts/archive", archive(), func(c *vh.Ctx, n *node, tw *twinT) error {
			for _, b := range interleave(tw.fork[0], tw.fork[1]) {
				if err := perBlock(n, []*types.Block{b}); err != nil {
					return err
				}
				if c.Rng.Intn(3) == 0 {
					n.reopen(c)
				}
			}
			return nil
		}},
	)
	return hs
}

// what a node says about one block: its receipts (with derived fields) and its post-state content
func blockObs(n *node, b *types.Block) (rcpt string, st string) {
	rs := n.bc.GetReceiptsByHash(b.Hash())
	if len(rs) == 0 && len(b.Transactions()) > 0 {
		rcpt = "unavailable"
	} else {
		rcpt = receiptsText(rs)
	}
	st = "unavailable"
	if sdb, err := n.bc.StateAt(b.Root()); err == nil {
		if d, err := stateDigest(sdb.Database(), b.Root(), nil); err == nil {
			st = d
		} else {
			st = "walk-error: " + err.Error()
		}
	}
	return
}

func partForks(c *vh.Ctx, spec cfgSpec, idx int) {
	var tw *twinT
	if pan, pv := vh.CatchPanic(func() { tw = buildTwin(c, spec) }); pan {
		c.Fatal("fork generation panicked (%s): %v", spec.name, pv)
	}
	runForkHistories(c, tw, idx, true)
}

// runForkHistories: cold references, then every arrival order of the two forks on one node
// (selfcheck: the generator's own sanity checks; off when the forks come from a replay file)
func runForkHistories(c *vh.Ctx, tw *twinT, idx int, selfcheck bool) {
	// the two forks really differ at the shared identities, and later blocks read them
	c.Count(fmt.Sprintf("forks:prefix=%d/A=%d/B=%d", len(tw.prefix), len(tw.fork[0]), len(tw.fork[1])))
	// cold references
	ref := map[common.Hash][2]string{}
	for f := 0; f < 2; f++ {
		n := newNode(c, tw.ch, &core.CacheConfig{Disabled: true})
		if err := n.insert(append(append([]*types.Block{}, tw.prefix...), tw.fork[f]...)); err != nil {
			c.Violate("valid-chain-refused/cold-fork", fmt.Sprintf("a fresh node refused prefix + fork %c: %v", 'A'+f, err), tw.replay(map[string]interface{}{"error": err.Error()}))
			n.bc.Stop()
			return
		}
		for _, b := range tw.fork[f] {
			r, s := blockObs(n, b)
			ref[b.Hash()] = [2]string{r, s}
		}
		// self-check of the generator: the code at X has this fork's length, and a later block of the
		// fork stored EXTCODESIZE(X) — the forks are adversarial about X and the difference is read
		wantSize := []int{len(storeCode), len(revlogCode)}[f]
		s0, _ := n.bc.StateAt(tw.fork[f][0].Root())
		s1, _ := n.bc.StateAt(tw.fork[f][1].Root())
		seen := false
		for _, p := range probeAddrs {
			if s1 != nil && s1.GetState(p, common.Hash{}).Big().Int64() == int64(wantSize) {
				seen = true
			}
		}
		if selfcheck && (s0 == nil || s1 == nil || s0.GetCodeSize(tw.x) != wantSize || !seen) {
			c.Fatal("fork generator is not adversarial: fork %c code size at %x = %d (want %d), EXTCODESIZE stored by a probe: %v (slots %v %v; receipts %s)", 'A'+f, tw.x, s0.GetCodeSize(tw.x), wantSize, seen,
				s1.GetState(probeAddrs[0], common.Hash{}).Big(), s1.GetState(probeAddrs[1], common.Hash{}).Big(), func() string {
					out := ""
					for i, r := range n.bc.GetReceiptsByHash(tw.fork[f][1].Hash()) {
						tx := tw.fork[f][1].Transactions()[i]
						out += fmt.Sprintf(" [to=%x data=%x status=%d gas=%d logs=%d]", tx.To().Bytes()[17:], tx.Data()[:min(len(tx.Data()), 40)], r.Status, r.GasUsed, len(r.Logs))
					}
					return out
				}())
		}
		// ... and the block-context probe really stored the ancestry as seen from this fork: for the block
		// N in which it last ran (slot NUMBER), BLOCKHASH(N-1) is the hash of this fork's block N-1
		if tip, _ := n.bc.StateAt(tw.fork[f][len(tw.fork[f])-1].Root()); tip != nil && selfcheck {
			num := tip.GetState(ctxAddr, common.BytesToHash([]byte{0x32})).Big().Uint64()
			all := append(append([]*types.Block{}, tw.prefix...), tw.fork[f]...)
			if num < 2 || int(num) > len(all) || tip.GetState(ctxAddr, common.BytesToHash([]byte{0x10})) != all[num-2].Hash() ||
				tip.GetState(ctxAddr, common.BytesToHash([]byte{0x30})) != common.BytesToHash(all[num-1].Coinbase().Bytes()) {
				c.Fatal("block-context probe did not record this fork's ancestry (fork %c, NUMBER slot = %d)", 'A'+f, num)
			}
		}
		n.bc.Stop()
	}
	// the forks must be adversarial: the code at X differs and a later block's result depends on it
	heavier := tw.fork[0]
	if len(tw.fork[1]) > len(tw.fork[0]) {
		heavier = tw.fork[1]
	}
	wantHead := heavier[len(heavier)-1].Hash()
	for _, h := range forkHistories() {
		n := newNode(c, tw.ch, h.cache)
		class := "fork-history:" + h.name
		if err := batch(n, tw.prefix); err != nil {
			c.Violate("valid-chain-refused/fork-prefix", err.Error(), tw.replay(nil))
			n.bc.Stop()
			return
		}
		err := h.run(c, n, tw)
		c.Eval(class, fmt.Sprintf("forks/%d/%s", idx, h.name))
		if err != nil {
			sig := "fork-history-import-error/" + h.name
			if strings.Contains(err.Error(), "invalid merkle root") || strings.Contains(err.Error(), "invalid receipt root") || strings.Contains(err.Error(), "invalid gas used") || strings.Contains(err.Error(), "invalid bloom") {
				sig = "warm-node-refuses-block-a-cold-node-accepts/" + h.name
			}
			c.Violate(sig, fmt.Sprintf("a node that had seen the competing fork refused a block that a cold node accepts (history %q): %v", h.name, err),
				tw.replay(map[string]interface{}{"history": h.name, "error": err.Error()}))
			n.bc.Stop()
			continue
		}
		if got := n.bc.CurrentBlock().Hash(); got != wantHead {
			c.Violate("fork-history-divergence/"+h.name+"/head", "after importing both forks the head is not the tip of the longer (heavier) fork",
				tw.replay(map[string]interface{}{"history": h.name, "head": got.Hex(), "expected": wantHead.Hex()}))
		}
		for f := 0; f < 2; f++ {
			for _, b := range tw.fork[f] {
				if n.bc.GetBlockByHash(b.Hash()) == nil {
					c.Violate("fork-history-divergence/"+h.name+"/block-lost", fmt.Sprintf("block %d of fork %c was imported without error but cannot be read back", b.NumberU64(), 'A'+f),
						tw.replay(map[string]interface{}{"history": h.name}))
					continue
				}
				r, s := blockObs(n, b)
				want := ref[b.Hash()]
				for k, got := range []string{r, s} {
					if got == "unavailable" {
						c.Count("fork-history:observable-unavailable(pruned/side-without-state)")
						continue
					}
					if got != want[k] {
						what := []string{"receipts", "state"}[k]
						c.Violate("fork-history-divergence/"+h.name+"/"+what,
							fmt.Sprintf("block %d of fork %c: %s on a node that imported both forks differ from a cold node's (history %q)", b.NumberU64(), 'A'+f, what, h.name),
							tw.replay(map[string]interface{}{"history": h.name, "block": b.Hash().Hex(), "cold": clip(want[k]), "observed": clip(got)}))
					}
				}
			}
		}
		n.bc.Stop()
	}
}
