// crash.go — arrival history "the node dies at a database write boundary while importing":
// the database wrapper lets exactly N writes through (a batch counts as one atomic write)
// and then kills the import; the node is restarted on what reached the database (no
// orderly Stop: nothing is flushed) and is offered the whole chain again.  Whatever the
// crash point, the restarted node must accept the chain and end with the head, canonical
// chain, receipts and state content of a node that never crashed.  (That the database
// itself stays consistent at every boundary is property C04; here the question is whether
// the RESULT of import can depend on such a history.)
package main

import (
	"context"
	"fmt"

	"gitlab.com/aquachain/aquachain/aquadb"
	"gitlab.com/aquachain/aquachain/core"
	"gitlab.com/aquachain/aquachain/core/types"
	"gitlab.com/aquachain/aquachain/core/vm"
	"gitlab.com/aquachain/aquachain/verifharness/vh"
)

type crashSignal struct{}

type crashDB struct {
	*aquadb.MemDatabase
	budget int // number of writes still allowed; negative = unlimited
	writes int
}

func (d *crashDB) tick() {
	d.writes++
	if d.budget == 0 {
		panic(crashSignal{})
	}
	if d.budget > 0 {
		d.budget--
	}
}
func (d *crashDB) Put(k, v []byte) error { d.tick(); return d.MemDatabase.Put(k, v) }
func (d *crashDB) Delete(k []byte) error { d.tick(); return d.MemDatabase.Delete(k) }
func (d *crashDB) NewBatch() aquadb.Batch {
	return &crashBatch{Batch: d.MemDatabase.NewBatch(), d: d}
}

type crashBatch struct {
	aquadb.Batch
	d *crashDB
}

func (b *crashBatch) Write() error { b.d.tick(); return b.Batch.Write() }

type crashNode struct {
	db  *crashDB
	bc  *core.BlockChain
	ch  *chainT
	cfg *core.CacheConfig
}

func newCrashNode(c *vh.Ctx, ch *chainT, cache *core.CacheConfig) *crashNode {
	n := &crashNode{db: &crashDB{MemDatabase: aquadb.NewMemDatabase(), budget: -1}, ch: ch, cfg: cache}
	ch.gspec.MustCommit(n.db)
	if err := n.open(); err != nil {
		c.Fatal("crash node: %v", err)
	}
	return n
}
func (n *crashNode) open() (err error) {
	pan, pv := vh.CatchPanic(func() {
		n.bc, err = core.NewBlockChain(context.Background(), n.db, n.cfg, n.ch.spec.cfg, newEngine(), vm.Config{})
	})
	if pan {
		return fmt.Errorf("panic: %v", pv)
	}
	return err
}

// insert imports cold copies; crashed reports that the write budget ran out inside InsertChain
func (n *crashNode) insert(blocks []*types.Block) (crashed bool, err error) {
	cp := make(types.Blocks, len(blocks))
	for i, b := range blocks {
		cp[i] = decodedCopy(n.ch.spec.cfg, b)
	}
	pan, pv := vh.CatchPanic(func() { _, err = n.bc.InsertChain(cp) })
	if pan {
		if _, ok := pv.(crashSignal); ok {
			return true, nil
		}
		return false, fmt.Errorf("panic: %v", pv)
	}
	return false, err
}

func partCrash(c *vh.Ctx, ch *chainT, idx int) {
	r := c.Rng
	for mode := 0; mode < 2; mode++ {
		cache, cname := &core.CacheConfig{Disabled: true}, "archive"
		if mode == 1 {
			cache, cname = nil, "pruning-default"
		}
		// reference pass: writes per block, final observation
		ref := newCrashNode(c, ch, cache)
		writes := make([]int, len(ch.blocks))
		for i, b := range ch.blocks {
			w0 := ref.db.writes
			if _, err := ref.insert([]*types.Block{b}); err != nil {
				c.Violate("valid-chain-refused/crash-reference", fmt.Sprintf("block %d refused on a node with a counting database: %v", i+1, err), replayOf(ch, nil))
				return
			}
			writes[i] = ref.db.writes - w0
		}
		want := observe(ref.bc, ch, false)
		ref.bc.Stop()
		type point struct{ k, j, batch int }
		var pts []point
		if c.Thorough() {
			for t := 0; t < 1; t++ {
				k := r.Intn(len(ch.blocks))
				for j := 0; j < writes[k]; j++ {
					pts = append(pts, point{k, j, 1 + r.Intn(2)})
				}
			}
		} else {
			for t := 0; t < 4; t++ {
				k := r.Intn(len(ch.blocks))
				pts = append(pts, point{k, r.Intn(max(writes[k], 1)), 1 + r.Intn(2)})
			}
		}
		for _, p := range pts {
			runCrashPoint(c, ch, idx, cache, cname, p.k, p.j, p.batch, want)
		}
	}
}

// runCrashPoint: crash j writes into the import of blocks[k:k+batch], restart, re-offer the chain
func runCrashPoint(c *vh.Ctx, ch *chainT, idx int, cache *core.CacheConfig, cname string, pk, pj, pbatch int, want map[string]string) {
	type point struct{ k, j, batch int }
	p := point{pk, pj, pbatch}
	{
		{
			n := newCrashNode(c, ch, cache)
			if _, err := n.insert(ch.blocks[:p.k]); err != nil && p.k > 0 {
				c.Fatal("crash node refused a valid prefix: %v", err)
			}
			end := min(p.k+p.batch, len(ch.blocks))
			n.db.budget = p.j
			crashed, err := n.insert(ch.blocks[p.k:end])
			n.db.budget = -1
			class := fmt.Sprintf("crash-history:%s/batch=%d/crashed=%v", cname, end-p.k, crashed)
			c.Eval(class, fmt.Sprintf("crash/%d/%s/%d/%d", idx, cname, p.k, p.j))
			rep := replayOf(ch, map[string]interface{}{"history": "crash", "cache": cname, "crash_in_block": p.k + 1, "after_writes": p.j, "batch_blocks": end - p.k})
			if err != nil {
				c.Violate("history-import-error/crash-counting", fmt.Sprintf("valid block %d refused: %v", p.k+1, err), rep)
				return
			}
			// the process is gone: no Stop, nothing flushed; a new node on what reached the database
			n.bc = nil
			if err := n.open(); err != nil {
				rep["error"] = err.Error()
				c.Violate("restart-after-crash-fails/"+cname, fmt.Sprintf("after a crash %d writes into the import of block %d the node cannot be restarted: %v", p.j, p.k+1, err), rep)
				return
			}
			if _, err := n.insert(ch.blocks); err != nil {
				rep["error"] = err.Error()
				c.Violate("history-import-error/restart-after-crash/"+cname, fmt.Sprintf("after a crash %d writes into the import of block %d and a restart, the valid chain is refused: %v", p.j, p.k+1, err), rep)
				n.bc.Stop()
				return
			}
			got := observe(n.bc, ch, false)
			if headerHeadBehind(n.bc, got, want) {
				c.Violate(sigHeaderBehind, whatHeaderBehind(p.k+1, p.j), rep)
				n.bc.Stop()
				return
			}
			for k, v := range want {
				if got[k] != v {
					rep["observable"], rep["reference"], rep["observed"] = k, clip(v), clip(got[k])
					c.Violate("history-divergence/restart-after-crash/"+cname, fmt.Sprintf("observable %s differs between a node that crashed %d writes into the import of block %d and one that never crashed", k, p.j, p.k+1), rep)
					break
				}
			}
			n.bc.Stop()
		}
	}
}

// A consequence of the write order of BlockChain.insert (number->hash entry, then head-block
// pointer, then — only if the number index did not already name the block — header head and
// fast-block head): a crash after the number entry and before the pointers restarts on the old
// head; when the same block is imported again, insert finds the number index already naming it,
// skips SetCurrentHeader / WriteHeadFastBlockHash, and the node runs with CurrentBlock = the
// block but CurrentHeader / CurrentFastBlock one behind.  Same root cause as the C04 finding
// crash-window-canon-before-head; here it shows as a result of import that depends on the history.
const sigHeaderBehind = "crash-window-canon-before-head/header-head-stays-behind-after-reimport"

func whatHeaderBehind(block, writes int) string {
	return fmt.Sprintf("crash %d writes into the import of block %d, restart, the same block imported again: CurrentBlock is the block, CurrentHeader and CurrentFastBlock stay at its parent (BlockChain.insert skips them because the number index was already written before the crash)", writes, block)
}

// headerHeadBehind: everything equals the reference except the header / fast-block heads
func headerHeadBehind(bc *core.BlockChain, got, want map[string]string) bool {
	if got["head"] != want["head"] || got["headheader"] == want["headheader"] {
		return false
	}
	for k, v := range want {
		if k != "headheader" && got[k] != v {
			return false
		}
	}
	return bc.CurrentHeader().Hash() == bc.CurrentBlock().ParentHash()
}

func cloneDB(src *aquadb.MemDatabase) *aquadb.MemDatabase {
	dst := aquadb.NewMemDatabase()
	for _, k := range src.Keys() {
		v, _ := src.Get(k)
		dst.Put(k, v)
	}
	return dst
}

// partCrashScan: every write boundary of the import of the last block (archive mode), from a
// cloned database: crash, restart, import the block again; the three heads must be the block.
func partCrashScan(c *vh.Ctx, ch *chainT, idx int) {
	cache := &core.CacheConfig{Disabled: true}
	last := len(ch.blocks) - 1
	base := newCrashNode(c, ch, cache)
	if _, err := base.insert(ch.blocks[:last]); err != nil {
		c.Violate("valid-chain-refused/crash-scan", err.Error(), replayOf(ch, nil))
		return
	}
	base.bc.Stop()
	fresh := func() *crashNode {
		n := &crashNode{db: &crashDB{MemDatabase: cloneDB(base.db.MemDatabase), budget: -1}, ch: ch, cfg: cache}
		if err := n.open(); err != nil {
			c.Fatal("crash scan: cannot open a cloned database: %v", err)
		}
		return n
	}
	cnt := fresh()
	w0 := cnt.db.writes
	cnt.insert(ch.blocks[last:])
	total := cnt.db.writes - w0
	cnt.bc.Stop()
	tip := ch.blocks[last].Hash()
	for j := 0; j < total; j++ {
		n := fresh()
		n.db.budget = j
		crashed, err := n.insert(ch.blocks[last:])
		n.db.budget = -1
		c.Eval("crash-scan:last-block/every-write-boundary", fmt.Sprintf("scan/%d/%d", idx, j))
		rep := replayOf(ch, map[string]interface{}{"history": "crash", "cache": "archive", "crash_in_block": last + 1, "after_writes": j, "batch_blocks": 1})
		if err != nil || !crashed {
			n.bc.Stop()
			continue
		}
		old := n.bc
		if err := n.open(); err != nil {
			rep["error"] = err.Error()
			c.Violate("restart-after-crash-fails/archive", fmt.Sprintf("after a crash %d writes into the import of block %d the node cannot be restarted: %v", j, last+1, err), rep)
			continue
		}
		old.Stop() // archive mode: Stop writes nothing; it only ends the abandoned object's goroutines
		if _, err := n.insert(ch.blocks[last:]); err != nil {
			rep["error"] = err.Error()
			c.Violate("history-import-error/restart-after-crash/archive", fmt.Sprintf("after a crash %d writes into the import of block %d and a restart, the block is refused: %v", j, last+1, err), rep)
			n.bc.Stop()
			continue
		}
		hb, hh, hf := n.bc.CurrentBlock().Hash(), n.bc.CurrentHeader().Hash(), n.bc.CurrentFastBlock().Hash()
		switch {
		case hb == tip && hh == tip && hf == tip:
		case hb == tip && hh == ch.blocks[last].ParentHash():
			c.Violate(sigHeaderBehind, whatHeaderBehind(last+1, j), rep)
		case hb == tip && hh == tip && hf == ch.blocks[last].ParentHash():
			// the crash fell between SetCurrentHeader and WriteHeadFastBlockHash: after the restart the block
			// is known and current, so the second import is ignored and nothing repairs the fast-block head
			c.Violate("crash-window-head-pointers/fast-block-head-stays-behind", fmt.Sprintf("crash %d writes into the import of block %d (between the header-head and the fast-block-head writes of BlockChain.insert), restart, the same block offered again (ignored as known): CurrentBlock and CurrentHeader are the block, CurrentFastBlock stays at its parent", j, last+1), rep)
		default:
			rep["heads"] = fmt.Sprintf("block %x header %x fast %x", hb.Bytes()[:4], hh.Bytes()[:4], hf.Bytes()[:4])
			c.Violate("history-divergence/restart-after-crash/archive", fmt.Sprintf("after a crash %d writes into the import of block %d, a restart and the block imported again, the heads are not the block", j, last+1), rep)
		}
		n.bc.Stop()
	}
}
