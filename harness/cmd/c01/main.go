// Command c01: property C01 "Block import is deterministic and accepts only
// self-consistent blocks" — generators, implementation runner, model correspondence and
// direct oracles.
//
//	(a) determinism: chains built with core.GenerateChain (transfers, creations, calls into
//	    contracts with storage / logs / selfdestruct / revert, uncles, empty blocks, heights
//	    crossing every hard fork of a low-height config) are imported into fresh BlockChains
//	    under nine arrival histories; head, TD, canonical hashes, receipts with derived
//	    fields, logs, gas and the full state content (walked by hashed key) must agree;
//	    commitments and the accept verdict are compared with the extracted Coq model.
//	(b) own builder: opt/miner's worker.commitNewWork is driven synchronously over a real
//	    TxPool (hook opt/miner/zz_verif_c01_export.go); the sealed block must import into a
//	    second chain with identical receipts/root; header compared with the model's build_block.
//	(c) corruption: every single-field corruption of header commitments and body of every
//	    block must be refused and leave head, TD, state and every database key unchanged.
//	(d) forks.go: fork pairs adversarial about shared identities and block context, imported in
//	    every order on one warm node and compared with cold nodes.
//	(e) objects.go: the same Go objects (pool, miner, other blocks, refused imports, another
//	    signer schedule) versus cold copies: same verdict.
//	(f) crash.go: the node dies at a database write boundary during import, restarts and is
//	    offered the chain again.   replay.go: `-replay FILE` re-runs a recorded violation.
//	Blocks are assembled on a live chain (gen.go), so transactions can read block context.
package main

import (
	"bytes"
	"context"
	"crypto/sha256"
	"encoding/hex"
	"fmt"
	"math/big"
	"sort"
	"strings"
	"time"

	"github.com/btcsuite/btcd/btcec/v2"
	"gitlab.com/aquachain/aquachain/aqua/accounts"
	"gitlab.com/aquachain/aquachain/aquadb"
	"gitlab.com/aquachain/aquachain/common"
	"gitlab.com/aquachain/aquachain/common/log"
	"gitlab.com/aquachain/aquachain/consensus"
	"gitlab.com/aquachain/aquachain/consensus/aquahash"
	"gitlab.com/aquachain/aquachain/consensus/misc"
	"gitlab.com/aquachain/aquachain/core"
	"gitlab.com/aquachain/aquachain/core/state"
	"gitlab.com/aquachain/aquachain/core/types"
	"gitlab.com/aquachain/aquachain/core/vm"
	"gitlab.com/aquachain/aquachain/crypto"
	"gitlab.com/aquachain/aquachain/opt/miner"
	"gitlab.com/aquachain/aquachain/params"
	"gitlab.com/aquachain/aquachain/rlp"
	"gitlab.com/aquachain/aquachain/verifharness/vh"
)

// ---------------------------------------------------------------- fixtures

var (
	keys  []*btcec.PrivateKey
	addrs []common.Address

	storeAddr  = common.HexToAddress("0x00000000000000000000000000000000000c0001")
	revlogAddr = common.HexToAddress("0x00000000000000000000000000000000000c0002")
	callerAddr = common.HexToAddress("0x00000000000000000000000000000000000c0003")
	sdAddrs    = []common.Address{
		common.HexToAddress("0x00000000000000000000000000000000000c0011"),
		common.HexToAddress("0x00000000000000000000000000000000000c0012"),
		common.HexToAddress("0x00000000000000000000000000000000000c0013"),
	}
	emptyAddr = common.HexToAddress("0x00000000000000000000000000000000000e0001")
	freshPool = []common.Address{
		common.HexToAddress("0x00000000000000000000000000000000000f0001"),
		common.HexToAddress("0x00000000000000000000000000000000000f0002"),
		common.HexToAddress("0x00000000000000000000000000000000000f0003"),
		common.HexToAddress("0x00000000000000000000000000000000000f0004"),
	}
	minerA = common.HexToAddress("0x00000000000000000000000000000000000a0001")
	minerB = common.HexToAddress("0x00000000000000000000000000000000000a0002")
)

func hx(s string) []byte { b, _ := hex.DecodeString(strings.ReplaceAll(s, " ", "")); return b }

// SSTORE(cd[0],cd[32]); SSTORE(cd[64],cd[96]); SSTORE(cd[128],cd[160]); CALLDATACOPY(0,0,64);
// LOG2(0,64,cd[0],cd[32]); LOG1(0,32,cd[64])
var storeCode = hx("602035600035 55 606035604035 55 60a035608035 55 604060006000 37 602035600035 60406000 a2 604035 60206000 a1")

// if cd[0]==0 REVERT(0,0) else LOG0(0,32) ; (REVERT is an invalid opcode before Byzantium)
var revlogCode = hx("600035 6009 57 60006000 fd 5b 60206000 a0")

// SELFDESTRUCT(cd[0])
var sdCode = hx("600035 ff")

// CALLDATACOPY(0,0,size); CALL(gas, store, 0, 0, size, 0, 0); LOG1(0,32,result)
func callerCode() []byte {
	return append(append(hx("36 6000 6000 37 6000 6000 36 6000 6000 73"), storeAddr.Bytes()...), hx("5a f1 6020 6000 a1")...)
}

// init code returning `runtime`
func initReturning(runtime []byte) []byte {
	return append([]byte{0x60, byte(len(runtime)), 0x80, 0x60, 0x0b, 0x60, 0x00, 0x39, 0x60, 0x00, 0xf3}, runtime...)
}

// constructor: SSTORE(1,0x2a); LOG1(0,0,0x77); then return the selfdestruct runtime
func initWithCtor() []byte { return initCtor(0x2a, 0x77, sdCode) }

// constructor: SSTORE(1,val); LOG1(0,0,topic); then return `rt`
func initCtor(val, topic byte, rt []byte) []byte {
	pre := []byte{0x60, val, 0x60, 0x01, 0x55, 0x60, topic, 0x60, 0x00, 0x60, 0x00, 0xa1}
	ret := []byte{0x60, byte(len(rt)), 0x80, 0x60, byte(len(pre) + 11), 0x60, 0x00, 0x39, 0x60, 0x00, 0xf3}
	return append(append(append([]byte{}, pre...), ret...), rt...)
}

func word(v uint64) []byte { return common.LeftPadBytes(new(big.Int).SetUint64(v).Bytes(), 32) }

func init() {
	// keys 0-3: rich senders; keys 4-6: accounts with 0.01 coin, used only for the worker's pending sets
	for i := 0; i < 7; i++ {
		k := crypto.ToECDSAUnsafe(common.LeftPadBytes([]byte{0xC0, 0x01, byte(i + 1)}, 32))
		keys = append(keys, k)
		addrs = append(addrs, crypto.PubkeyToAddress(k.PubKey()))
	}
}

type cfgSpec struct {
	name string
	cfg  *params.ChainConfig
}

func configs() []cfgSpec {
	staged := *params.TestChainConfig
	staged.HF = params.ForkMap{1: big.NewInt(2), 2: big.NewInt(3), 3: big.NewInt(4), 4: big.NewInt(5), 5: big.NewInt(7),
		6: big.NewInt(8), 7: big.NewInt(9), 8: big.NewInt(11), 9: big.NewInt(12)}
	staged.EIP155Block, staged.EIP158Block, staged.ByzantiumBlock = big.NewInt(9), big.NewInt(9), big.NewInt(9)
	staged.HomesteadBlock = big.NewInt(3)
	test := *params.TestChainConfig
	return []cfgSpec{{"staged-homestead@3,hf1@2..hf9@12,eip155/158/byz@9", &staged}, {"TestChainConfig", &test}}
}

var poorBalance = big.NewInt(10000000000000000)

func genesisSpec(cfg *params.ChainConfig) *core.Genesis {
	big20, _ := new(big.Int).SetString("100000000000000000000", 10)
	alloc := core.GenesisAlloc{}
	for i, a := range addrs {
		if i < 4 {
			alloc[a] = core.GenesisAccount{Balance: big20}
		} else {
			alloc[a] = core.GenesisAccount{Balance: new(big.Int).Set(poorBalance)}
		}
	}
	alloc[ctxAddr] = core.GenesisAccount{Code: ctxCode(), Balance: big.NewInt(0)}
	for _, a := range probeAddrs {
		alloc[a] = core.GenesisAccount{Code: probeCode, Balance: big.NewInt(0)}
	}
	alloc[storeAddr] = core.GenesisAccount{Code: storeCode, Balance: big.NewInt(1), Storage: map[common.Hash]common.Hash{
		common.BytesToHash(word(1)): common.BytesToHash(word(11)), common.BytesToHash(word(2)): common.BytesToHash(word(22))}}
	alloc[revlogAddr] = core.GenesisAccount{Code: revlogCode, Balance: big.NewInt(0)}
	alloc[callerAddr] = core.GenesisAccount{Code: callerCode(), Balance: big.NewInt(5)}
	for i, a := range sdAddrs {
		alloc[a] = core.GenesisAccount{Code: sdCode, Balance: big.NewInt(int64(1000 * (i + 1)))}
	}
	alloc[emptyAddr] = core.GenesisAccount{Balance: big.NewInt(0)}
	// two accounts of the hard-fork-4 list: their balance is zeroed at the fork block by Process and by both builders
	alloc[common.HexToAddress(misc.DeallocListHF4[0])] = core.GenesisAccount{Balance: big.NewInt(123456789)}
	alloc[common.HexToAddress(misc.DeallocListHF4[3])] = core.GenesisAccount{Balance: big.NewInt(1)}
	return &core.Genesis{Config: cfg, Alloc: alloc, GasLimit: 8000000, Difficulty: big.NewInt(131072)}
}

// ---------------------------------------------------------------- transaction generator

type txgen struct {
	r       *vh.RNG
	cfg     *params.ChainConfig
	created []common.Address // contracts created by earlier transactions
	highS   int
}

// genNoHighS: generate chains that are valid under every signer schedule (no high-S signatures)
var genNoHighS bool

// signHighS signs with the non-canonical (high) S value: s' = N - s, recovery id flipped
func signHighS(tx *types.Transaction, key *btcec.PrivateKey) (*types.Transaction, error) {
	h := types.FrontierSigner{}.Hash(tx)
	sig, err := crypto.Sign(h[:], key)
	if err != nil {
		return nil, err
	}
	sv := new(big.Int).SetBytes(sig[32:64])
	sv.Sub(btcec.S256().N, sv)
	copy(sig[32:64], common.LeftPadBytes(sv.Bytes(), 32))
	sig[64] ^= 1
	return tx.WithSignature(types.FrontierSigner{}, sig)
}

var kindNames = []string{"transfer", "transfer-fresh", "touch-zero", "store", "selfdestruct", "revlog", "caller",
	"create-store", "create-ctor", "create-fail", "low-gas-call", "precompile", "call-created", "ctx-probe", "ctx-probe"}

func (g *txgen) storeData() []byte {
	var d []byte
	for i := 0; i < 3; i++ {
		d = append(d, word(uint64(1+g.r.Intn(6)))...)
		if g.r.Intn(3) == 0 {
			d = append(d, word(0)...)
		} else {
			d = append(d, word(uint64(1+g.r.Intn(250)))...)
		}
	}
	return d[:32*(2+2*g.r.Intn(3))]
}

// make builds one signed transaction of a random kind from account `from` with the given nonce
func (g *txgen) make(from int, nonce uint64, number *big.Int, protectedOK bool) (*types.Transaction, string) {
	r := g.r
	k := r.Intn(len(kindNames))
	price := big.NewInt(int64(1+r.Intn(4)) * 1000000000)
	var tx *types.Transaction
	gas := uint64(200000)
	switch kindNames[k] {
	case "transfer":
		tx = types.NewTransaction(nonce, addrs[(from+1+r.Intn(3))%4], big.NewInt(int64(1+r.Intn(1000))), 21000, price, nil)
	case "transfer-fresh":
		tx = types.NewTransaction(nonce, freshPool[r.Intn(len(freshPool))], big.NewInt(int64(r.Intn(3))), 21000, price, nil)
	case "touch-zero":
		to := emptyAddr
		if r.Bool() {
			to = freshPool[r.Intn(len(freshPool))]
		}
		tx = types.NewTransaction(nonce, to, big.NewInt(0), 21000, price, nil)
	case "store":
		tx = types.NewTransaction(nonce, storeAddr, big.NewInt(int64(r.Intn(2))), gas, price, g.storeData())
	case "selfdestruct":
		ben := [][]byte{addrs[0].Bytes(), freshPool[0].Bytes(), sdAddrs[0].Bytes(), emptyAddr.Bytes()}[r.Intn(4)]
		tx = types.NewTransaction(nonce, sdAddrs[r.Intn(len(sdAddrs))], big.NewInt(int64(r.Intn(5))), gas, price, common.LeftPadBytes(ben, 32))
	case "revlog":
		tx = types.NewTransaction(nonce, revlogAddr, big.NewInt(0), gas, price, word(uint64(r.Intn(2))))
	case "caller":
		tx = types.NewTransaction(nonce, callerAddr, big.NewInt(0), gas, price, g.storeData())
	case "create-store":
		tx = types.NewContractCreation(nonce, big.NewInt(int64(r.Intn(3))), 300000, price, initReturning(storeCode))
	case "create-ctor":
		tx = types.NewContractCreation(nonce, big.NewInt(7), 300000, price, initWithCtor())
	case "create-fail":
		tx = types.NewContractCreation(nonce, big.NewInt(0), 100000, price, []byte{0xfe})
	case "low-gas-call":
		d := g.storeData()
		tx = types.NewTransaction(nonce, storeAddr, big.NewInt(0), 21000+uint64(68*len(d))+uint64(r.Intn(9000)), price, d)
	case "precompile":
		tx = types.NewTransaction(nonce, common.BytesToAddress([]byte{byte(2 + r.Intn(3))}), big.NewInt(int64(r.Intn(2))), 60000, price, r.Bytes(1+r.Intn(40)))
	case "ctx-probe":
		// BLOCKHASH of 14 fixed depths (1..12, 256, 257, own and next number) and of a chosen depth,
		// COINBASE, TIMESTAMP, NUMBER, DIFFICULTY, GASLIMIT — all stored
		depth := uint64(r.Intn(14))
		if r.Intn(6) == 0 {
			depth = uint64(254 + r.Intn(5))
		}
		tx = types.NewTransaction(nonce, ctxAddr, big.NewInt(0), 900000, price, word(depth))
	case "call-created":
		if len(g.created) == 0 {
			tx = types.NewTransaction(nonce, storeAddr, big.NewInt(0), gas, price, g.storeData())
		} else {
			tx = types.NewTransaction(nonce, g.created[r.Intn(len(g.created))], big.NewInt(0), gas, price, g.storeData())
		}
	}
	var signer types.Signer = types.HomesteadSigner{}
	if protectedOK && g.cfg.IsEIP155(number) && r.Intn(4) != 0 {
		signer = types.NewEIP155Signer(g.cfg.ChainId)
	}
	var stx *types.Transaction
	var err error
	if _, eip := signer.(types.EIP155Signer); !eip && !genNoHighS && !g.cfg.IsHomestead(number) && r.Intn(2) == 0 {
		stx, err = signHighS(tx, keys[from]) // valid before Homestead only
		g.highS++
	} else {
		stx, err = types.SignTx(tx, signer, keys[from])
	}
	if err != nil {
		panic(err)
	}
	if tx.To() == nil {
		g.created = append(g.created, crypto.CreateAddress(addrs[from], nonce))
	}
	return stx, kindNames[k]
}

// ---------------------------------------------------------------- chains

type chainT struct {
	spec     cfgSpec
	gspec    *core.Genesis
	genesis  *types.Block
	blocks   []*types.Block
	receipts []types.Receipts
	side     []*types.Block // side[i]: a sibling of blocks[i]
	fork     []*types.Block // a competing fork leaving the main chain after block forkAt (1-based number)
	forkAt   int
	kinds    [][]string
	gendb    aquadb.Database
}

func newEngine() consensus.Engine { return aquahash.NewFaker() }

func buildChain(c *vh.Ctx, spec cfgSpec, n int) *chainT {
	r := c.Rng
	ch := &chainT{spec: spec, gspec: genesisSpec(spec.cfg)}
	gn := newNode(c, ch, &core.CacheConfig{Disabled: true}) // holds the main chain only
	defer func() { gn.bc.Stop() }()
	ch.genesis = gn.bc.Genesis()
	g := &txgen{r: r, cfg: spec.cfg}
	parent := ch.genesis
	usedUncle := map[int]bool{}
	fill := func(b *blockGen, maxTx int, kinds *[]string) {
		ntx := 0
		switch x := r.Intn(10); {
		case x == 0:
			ntx = 0
		case x < 7:
			ntx = 1 + r.Intn(maxTx)
		default:
			ntx = maxTx
		}
		nonces := map[int]uint64{}
		for j := 0; j < ntx; j++ {
			from := r.Intn(4)
			if _, ok := nonces[from]; !ok {
				nonces[from] = b.TxNonce(addrs[from])
			}
			tx, kind := g.make(from, nonces[from], b.Number(), true)
			nonces[from]++
			b.AddTx(tx)
			if kinds != nil {
				*kinds = append(*kinds, kind)
			}
		}
	}
	for i := 0; i < n; i++ {
		// a sibling first (it can serve as an uncle of later blocks and as a competing block)
		sib, _ := assemble(gn, parent, func(b *blockGen) {
			b.SetCoinbase(minerB)
			b.SetExtra([]byte{'s', byte(i)})
			b.OffsetTime(int64(1 + r.Intn(5)))
			if r.Intn(3) == 0 {
				fill(b, 2, nil)
			}
		})
		ch.side = append(ch.side, sib)
		var kinds []string
		blk, rec := extend(gn, parent, func(b *blockGen) {
			if r.Intn(4) == 0 {
				b.SetCoinbase(addrs[3]) // a miner that also sends transactions
			} else {
				b.SetCoinbase(minerA)
			}
			fill(b, 6, &kinds)
			if i >= 2 && r.Intn(2) == 0 { // one uncle is allowed before and after hard fork 5
				// an uncle: the sibling of an ancestor 2..6 generations back
				j := i - 1 - r.Intn(min(i-1, 5))
				if j >= 0 && j < i && !usedUncle[j] {
					usedUncle[j] = true
					b.AddUncle(ch.side[j].Header())
					kinds = append(kinds, "uncle")
				}
			}
		})
		ch.blocks = append(ch.blocks, blk)
		ch.receipts = append(ch.receipts, rec)
		ch.kinds = append(ch.kinds, kinds)
		parent = blk
	}
	// a competing fork, shorter than what remains of the main chain (built on its own node)
	ch.forkAt = 1 + r.Intn(n-3)
	flen := min(3, n-ch.forkAt-1)
	fparent := ch.blocks[ch.forkAt-1]
	fn := newNode(c, ch, &core.CacheConfig{Disabled: true})
	defer func() { fn.bc.Stop() }()
	if err := fn.insert(ch.blocks[:ch.forkAt]); err != nil {
		panic(fmt.Sprintf("fork builder node: %v", err))
	}
	gf := &txgen{r: r, cfg: spec.cfg}
	for k := 0; k < flen; k++ {
		fb, _ := extend(fn, fparent, func(b *blockGen) {
			b.SetCoinbase(minerB)
			b.SetExtra([]byte("fork"))
			b.OffsetTime(int64(1 + r.Intn(7)))
			nonces := map[int]uint64{}
			for j := 0; j < 1+r.Intn(3); j++ {
				from := r.Intn(4)
				if _, ok := nonces[from]; !ok {
					nonces[from] = b.TxNonce(addrs[from])
				}
				tx, _ := gf.make(from, nonces[from], b.Number(), true)
				nonces[from]++
				b.AddTx(tx)
			}
		})
		ch.fork = append(ch.fork, fb)
		fparent = fb
	}
	return ch
}

// ---------------------------------------------------------------- observation

func postBytes(r *types.Receipt) []byte {
	if len(r.PostState) == 0 {
		if r.Status == types.ReceiptStatusFailed {
			return []byte{}
		}
		return []byte{1}
	}
	return r.PostState
}

// stateDigest walks the account trie and every storage trie by hashed key (no preimages needed)
func stateDigest(sdb state.Database, root common.Hash, full *[]string) (string, error) {
	tr, err := sdb.OpenTrie(root)
	if err != nil {
		return "", err
	}
	h := sha256.New()
	it := tr.NodeIterator(nil)
	n := 0
	for it.Next(true) {
		if !it.Leaf() {
			continue
		}
		var acc state.Account
		if err := rlp.DecodeBytes(it.LeafBlob(), &acc); err != nil {
			return "", err
		}
		key := it.LeafKey()
		line := fmt.Sprintf("acct %x nonce=%d bal=%s sroot=%x code=%x", key, acc.Nonce, acc.Balance, acc.Root, acc.CodeHash)
		if !bytes.Equal(acc.CodeHash, crypto.Keccak256(nil)) {
			code, err := sdb.ContractCode(common.BytesToHash(key), common.BytesToHash(acc.CodeHash))
			if err != nil || !bytes.Equal(crypto.Keccak256(code), acc.CodeHash) {
				return "", fmt.Errorf("code of %x missing or wrong: %v", key, err)
			}
		}
		if acc.Root != types.EmptyRootHash && acc.Root != (common.Hash{}) {
			st, err := sdb.OpenStorageTrie(common.BytesToHash(key), acc.Root)
			if err != nil {
				return "", err
			}
			sit := st.NodeIterator(nil)
			for sit.Next(true) {
				if sit.Leaf() {
					line += fmt.Sprintf(" %x=%x", sit.LeafKey(), sit.LeafBlob())
				}
			}
			if sit.Error() != nil {
				return "", sit.Error()
			}
		}
		h.Write([]byte(line + "\n"))
		if full != nil {
			*full = append(*full, line)
		}
		n++
	}
	if it.Error() != nil {
		return "", it.Error()
	}
	return fmt.Sprintf("%d:%x", n, h.Sum(nil)[:12]), nil
}

func receiptsText(rs types.Receipts) string {
	var sb strings.Builder
	for _, r := range rs {
		enc, _ := rlp.EncodeToBytes(r)
		fmt.Fprintf(&sb, "[%x tx=%x ca=%x gas=%d", enc, r.TxHash, r.ContractAddress, r.GasUsed)
		for _, l := range r.Logs {
			fmt.Fprintf(&sb, " log(%d,%x,%d,%x,%d,%v)", l.BlockNumber, l.TxHash, l.TxIndex, l.BlockHash, l.Index, l.Removed)
		}
		sb.WriteString("]")
	}
	return sb.String()
}

// observe reads everything the property talks about from a BlockChain that imported ch
func observe(bc *core.BlockChain, ch *chainT, allStates bool) map[string]string {
	o := map[string]string{}
	head := bc.CurrentBlock()
	o["head"] = fmt.Sprintf("%x/%d", head.Hash(), head.NumberU64())
	o["headheader"] = fmt.Sprintf("%x", bc.CurrentHeader().Hash())
	if td := bc.GetTd(head.Hash(), head.NumberU64()); td != nil {
		o["td"] = td.String()
	} else {
		o["td"] = "nil"
	}
	for i, b := range ch.blocks {
		n := uint64(i + 1)
		cb := bc.GetBlockByNumber(n)
		if cb == nil {
			o[fmt.Sprintf("canon%02d", n)] = "nil"
			continue
		}
		o[fmt.Sprintf("canon%02d", n)] = fmt.Sprintf("%x root=%x gas=%d", cb.Hash(), cb.Root(), cb.GasUsed())
		rs := bc.GetReceiptsByHash(b.Hash())
		o[fmt.Sprintf("receipts%02d", n)] = receiptsText(rs)
		if allStates || i == len(ch.blocks)-1 {
			sdb, err := bc.StateAt(b.Root())
			if err != nil {
				o[fmt.Sprintf("state%02d", n)] = "unavailable: " + err.Error()
				continue
			}
			d, err := stateDigest(sdb.Database(), b.Root(), nil)
			if err != nil {
				d = "walk-error: " + err.Error()
			}
			o[fmt.Sprintf("state%02d", n)] = d
		}
	}
	return o
}

// ---------------------------------------------------------------- arrival histories

type node struct {
	db    *aquadb.MemDatabase
	bc    *core.BlockChain
	cache *core.CacheConfig
	cfg   *params.ChainConfig
	// mirror, if set, is a second node that receives the very objects this node is given (this node
	// imports cold copies decoded from RLP); the two verdicts must agree, else diff is called
	mirror *node
	diff   func(blocks []*types.Block, cold, warm string)
}

// withMirror attaches a warm-object mirror to n; differences become violations
func withMirror(c *vh.Ctx, ch *chainT, n *node, where string) {
	n.mirror = newNode(c, ch, n.cache)
	n.diff = func(blocks []*types.Block, cold, warm string) {
		var enc []string
		for _, b := range blocks {
			e, _ := rlp.EncodeToBytes(b)
			enc = append(enc, vh.Hex(e))
		}
		c.Violate("warm-objects-change-verdict/"+where, fmt.Sprintf("the same block(s) on the same parent: a node given cold copies decoded from RLP says %q, a node given the Go objects already used elsewhere (transaction pool, miner, other blocks, a refused import) says %q", cold, warm),
			replayOf(ch, map[string]interface{}{"blocks_rlp": enc, "first_number": blocks[0].NumberU64(), "cold": cold, "warm": warm, "where": where}))
	}
}

func newNode(c *vh.Ctx, ch *chainT, cache *core.CacheConfig) *node {
	n := &node{db: aquadb.NewMemDatabase(), cache: cache, cfg: ch.spec.cfg}
	ch.gspec.MustCommit(n.db)
	n.open(c)
	return n
}
func (n *node) open(c *vh.Ctx) {
	bc, err := core.NewBlockChain(context.Background(), n.db, n.cache, n.cfg, newEngine(), vm.Config{})
	if err != nil {
		c.Fatal("NewBlockChain: %v", err)
	}
	n.bc = bc
}
func (n *node) reopen(c *vh.Ctx) { n.bc.Stop(); n.open(c) }
func (n *node) stop() {
	n.bc.Stop()
	if n.mirror != nil {
		n.mirror.bc.Stop()
	}
}

func (n *node) insert(blocks []*types.Block) (err error) {
	if len(blocks) == 0 {
		return nil
	}
	// give every history its own block objects (no shared caches of hash / sender / size)
	cp := make(types.Blocks, len(blocks))
	for i, b := range blocks {
		enc, _ := rlp.EncodeToBytes(b)
		nb := new(types.Block)
		if e := rlp.DecodeBytes(enc, nb); e != nil {
			return fmt.Errorf("re-decode: %v", e)
		}
		nb.SetVersion(n.cfg.GetBlockVersion(nb.Number()))
		cp[i] = nb
	}
	pan, pv := vh.CatchPanic(func() { _, err = n.bc.InsertChain(cp) })
	if pan {
		err = fmt.Errorf("panic: %v", pv)
	}
	if n.mirror != nil {
		werr := n.mirror.insertSame(blocks)
		if cv, wv := classify(err), classify(werr); cv != wv && n.diff != nil {
			n.diff(blocks, cv, wv)
		}
	}
	return err
}

// insertSame imports the very block objects it is given (their cached hashes, sizes and the
// sender caches of their transactions travel with them)
func (n *node) insertSame(blocks []*types.Block) (err error) {
	for _, b := range blocks {
		if b.Version() == 0 {
			b.SetVersion(n.cfg.GetBlockVersion(b.Number()))
		}
	}
	pan, pv := vh.CatchPanic(func() { _, err = n.bc.InsertChain(blocks) })
	if pan {
		return fmt.Errorf("panic: %v", pv)
	}
	return err
}

// warm reads accounts and storage of the head state through the node's shared state cache
func (n *node) warm() {
	if sdb, err := n.bc.State(); err == nil {
		for _, a := range append(append([]common.Address{storeAddr, callerAddr, emptyAddr}, addrs...), sdAddrs...) {
			sdb.GetBalance(a)
			sdb.GetState(a, common.BytesToHash(word(1)))
			sdb.GetCode(a)
		}
	}
}

type history struct {
	name      string
	cache     *core.CacheConfig
	allStates bool
	run       func(c *vh.Ctx, n *node, ch *chainT) error
}

func splits(r *vh.RNG, blocks []*types.Block) [][]*types.Block {
	var out [][]*types.Block
	for i := 0; i < len(blocks); {
		k := 1 + r.Intn(4)
		if i+k > len(blocks) {
			k = len(blocks) - i
		}
		out = append(out, blocks[i:i+k])
		i += k
	}
	return out
}

func histories() []history {
	archive := &core.CacheConfig{Disabled: true}
	capEvery := &core.CacheConfig{TrieNodeLimit: 0, TrieTimeLimit: 0}
	return []history{
		{"one-batch/archive", archive, true, func(c *vh.Ctx, n *node, ch *chainT) error { return n.insert(ch.blocks) }},
		{"per-block/archive", archive, true, func(c *vh.Ctx, n *node, ch *chainT) error {
			for _, b := range ch.blocks {
				if err := n.insert([]*types.Block{b}); err != nil {
					return err
				}
			}
			return nil
		}},
		{"per-block/same-objects-as-the-builder/archive", archive, true, func(c *vh.Ctx, n *node, ch *chainT) error {
			for _, b := range ch.blocks {
				if err := n.insertSame([]*types.Block{b}); err != nil {
					return err
				}
			}
			return nil
		}},
		{"random-splits/pruning-default", nil, false, func(c *vh.Ctx, n *node, ch *chainT) error {
			for _, s := range splits(c.Rng, ch.blocks) {
				if err := n.insert(s); err != nil {
					return err
				}
			}
			return nil
		}},
		{"fork-first/archive", archive, true, func(c *vh.Ctx, n *node, ch *chainT) error {
			if err := n.insert(ch.blocks[:ch.forkAt]); err != nil {
				return err
			}
			if err := n.insert(ch.fork); err != nil {
				return fmt.Errorf("fork: %v", err)
			}
			return n.insert(ch.blocks[ch.forkAt:])
		}},
		{"reopen-between-imports/archive", archive, true, func(c *vh.Ctx, n *node, ch *chainT) error {
			for _, b := range ch.blocks {
				if err := n.insert([]*types.Block{b}); err != nil {
					return err
				}
				n.reopen(c)
			}
			return nil
		}},
		{"reopen-at-random/pruning-default", nil, false, func(c *vh.Ctx, n *node, ch *chainT) error {
			for _, s := range splits(c.Rng, ch.blocks) {
				if err := n.insert(s); err != nil {
					return err
				}
				if c.Rng.Bool() {
					n.reopen(c)
				}
			}
			return nil
		}},
		{"per-block/pruning-flush-every-block", capEvery, false, func(c *vh.Ctx, n *node, ch *chainT) error {
			for _, b := range ch.blocks {
				if err := n.insert([]*types.Block{b}); err != nil {
					return err
				}
			}
			return nil
		}},
		{"warm-cache+siblings+fork-interleaved/pruning-default", nil, false, func(c *vh.Ctx, n *node, ch *chainT) error {
			for i, b := range ch.blocks {
				// (not at the tip: two blocks of equal total difficulty at the tip are a coin flip of
				// the fork choice, property C02, not a question of import)
				if c.Rng.Bool() && i < len(ch.blocks)-1 {
					if err := n.insert([]*types.Block{ch.side[i]}); err != nil {
						return fmt.Errorf("sibling %d: %v", i+1, err)
					}
				}
				n.warm()
				if err := n.insert([]*types.Block{b}); err != nil {
					return err
				}
				if i+1 == ch.forkAt+1 { // main is one block ahead of the fork point: the fork arrives late
					if err := n.insert(ch.fork); err != nil {
						return fmt.Errorf("fork: %v", err)
					}
				}
				n.warm()
			}
			return nil
		}},
		{"rewind-and-reimport/archive", archive, true, func(c *vh.Ctx, n *node, ch *chainT) error {
			if err := n.insert(ch.blocks); err != nil {
				return err
			}
			k := 1 + c.Rng.Intn(len(ch.blocks)-1)
			if err := n.bc.SetHead(uint64(k)); err != nil {
				return fmt.Errorf("SetHead: %v", err)
			}
			return n.insert(ch.blocks[k:])
		}},
	}
}

// ---------------------------------------------------------------- model requests

func joinHex(items [][]byte) string {
	if len(items) == 0 {
		return "_"
	}
	s := make([]string, len(items))
	for i, b := range items {
		s[i] = vh.Hex(b)
	}
	return strings.Join(s, ",")
}

func logsText(logs []*types.Log) string {
	if len(logs) == 0 {
		return "_"
	}
	var out []string
	for _, l := range logs {
		t := "_"
		if len(l.Topics) > 0 {
			ts := make([]string, len(l.Topics))
			for i, x := range l.Topics {
				ts[i] = vh.Hex(x[:])
			}
			t = strings.Join(ts, "|")
		}
		out = append(out, vh.Hex(l.Address[:])+"/"+t+"/"+vh.Hex(l.Data))
	}
	return strings.Join(out, ";")
}

// receipts as post:num:logs; num = cumulative gas (perTx=false) or the transaction's own gas
func receiptsReq(rs types.Receipts, perTx bool) string {
	if len(rs) == 0 {
		return "_"
	}
	var out []string
	for _, r := range rs {
		n := r.CumulativeGasUsed
		if perTx {
			n = r.GasUsed
		}
		out = append(out, fmt.Sprintf("%s:%d:%s", vh.Hex(postBytes(r)), n, logsText(r.Logs)))
	}
	return strings.Join(out, ",")
}

func txsReq(txs types.Transactions) string {
	var items [][]byte
	for i := range txs {
		items = append(items, txs.GetRlp(i))
	}
	return joinHex(items)
}

func headersReq(hs []*types.Header) string {
	var items [][]byte
	for _, h := range hs {
		enc, _ := rlp.EncodeToBytes(h)
		items = append(items, enc)
	}
	return joinHex(items)
}

// processOracle runs the real StateProcessor on the parent state: what the model takes as its
// execution layer
func processOracle(n *node, b *types.Block, parentRoot common.Hash) string {
	sdb, err := n.bc.StateAt(parentRoot)
	if err != nil {
		return "err"
	}
	var (
		rs   types.Receipts
		perr error
	)
	pan, _ := vh.CatchPanic(func() {
		rs, _, _, perr = core.NewStateProcessor(n.cfg, n.bc, n.bc.Engine()).Process(b, sdb, vm.Config{})
	})
	if pan || perr != nil {
		lastProcessErr = fmt.Sprint(pan, perr)
		return "err"
	}
	root := sdb.IntermediateRoot(n.cfg.IsEIP158(b.Number()))
	return "ok " + vh.Hex(root[:]) + " " + receiptsReq(rs, true)
}

var lastProcessErr string

func importReq(n *node, b *types.Block, parentRoot common.Hash) string {
	hdr, _ := rlp.EncodeToBytes(b.Header())
	return "import " + vh.Hex(hdr) + " " + txsReq(b.Transactions()) + " " + headersReq(b.Uncles()) + " " + processOracle(n, b, parentRoot)
}

func classify(err error) string {
	if err == nil {
		return "accepted"
	}
	s := err.Error()
	switch {
	case strings.Contains(s, "uncle root hash mismatch"):
		return "rejected uncle-hash"
	case strings.Contains(s, "transaction root hash mismatch"):
		return "rejected tx-root"
	case strings.Contains(s, "invalid gas used"):
		return "rejected gas-used"
	case strings.Contains(s, "invalid bloom"):
		return "rejected bloom"
	case strings.Contains(s, "invalid receipt root hash"):
		return "rejected receipt-root"
	case strings.Contains(s, "invalid merkle root"):
		return "rejected state-root"
	case strings.Contains(s, "uncle") || strings.Contains(s, "ancestor") || strings.Contains(s, "invalid difficulty") ||
		strings.Contains(s, "invalid gas limit") || strings.Contains(s, "timestamp") || strings.Contains(s, "invalid gasUsed") ||
		strings.Contains(s, "extra-data") || strings.Contains(s, "invalid block number"):
		return "rejected engine"
	case strings.HasPrefix(s, "panic"):
		return "panic"
	default:
		return "rejected process"
	}
}

// ---------------------------------------------------------------- part (a)

func replayOf(ch *chainT, extra map[string]interface{}) map[string]interface{} {
	var bl []string
	for _, b := range ch.blocks {
		enc, _ := rlp.EncodeToBytes(b)
		bl = append(bl, vh.Hex(enc))
	}
	m := map[string]interface{}{"config": ch.spec.name, "genesis": "genesisSpec() of harness/cmd/c01", "main_chain_rlp": bl}
	for k, v := range extra {
		m[k] = v
	}
	return m
}

func partDeterminism(c *vh.Ctx, m *vh.Model, ch *chainT, idx int) {
	hs := histories()
	var ref map[string]string
	for hi, h := range hs {
		if len(ch.side) == 0 && (strings.Contains(h.name, "fork") || strings.Contains(h.name, "sibling")) {
			continue // a chain read from a replay file has no siblings / competing fork
		}
		n := newNode(c, ch, h.cache)
		err := h.run(c, n, ch)
		class := "history:" + h.name
		if err != nil {
			c.Eval(class, "")
			c.Violate("history-import-error/"+h.name, fmt.Sprintf("a valid chain was refused under arrival history %q: %v", h.name, err),
				replayOf(ch, map[string]interface{}{"history": h.name, "error": err.Error()}))
			n.bc.Stop()
			continue
		}
		o := observe(n.bc, ch, h.allStates)
		c.Eval(class, fmt.Sprintf("%d/%s", idx, h.name))
		if hi == 0 {
			partStateRoot(c, m, n, ch)
			ref = o
			// the reference history must itself agree with the builder (GenerateChain)
			last := ch.blocks[len(ch.blocks)-1]
			if o["head"] != fmt.Sprintf("%x/%d", last.Hash(), last.NumberU64()) {
				c.Violate("head-is-not-chain-tip", "after importing a valid chain in one batch the head is not its last block", replayOf(ch, map[string]interface{}{"head": o["head"]}))
			}
			for i, b := range ch.blocks {
				if got, want := o[fmt.Sprintf("receipts%02d", i+1)], receiptsText(fixDerived(ch.receipts[i], b)); got != want {
					c.Violate("import-receipts-differ-from-builder", fmt.Sprintf("block %d: receipts stored by import differ from the builder's", i+1),
						replayOf(ch, map[string]interface{}{"block": i + 1, "import": got, "builder": want}))
				}
			}
		} else {
			keys := make([]string, 0, len(o))
			for k := range o {
				keys = append(keys, k)
			}
			sort.Strings(keys)
			for _, k := range keys {
				if rv, ok := ref[k]; ok && rv != o[k] {
					c.Violate("history-divergence/"+h.name+"/"+strings.TrimRight(k, "0123456789"),
						fmt.Sprintf("observable %s differs between arrival histories %q and %q", k, hs[0].name, h.name),
						replayOf(ch, map[string]interface{}{"history": h.name, "observable": k, "reference": clip(rv), "observed": clip(o[k])}))
				}
			}
		}
		n.bc.Stop()
	}
}

func clip(s string) string {
	if len(s) > 1200 {
		return s[:1200] + "..."
	}
	return s
}

// fixDerived fills the derived log fields the way import does (the builder leaves block hash empty)
func fixDerived(rs types.Receipts, b *types.Block) types.Receipts {
	out := make(types.Receipts, len(rs))
	idx := uint(0)
	for i, r := range rs {
		cp := *r
		cp.Logs = nil
		for _, l := range r.Logs {
			lc := *l
			lc.BlockHash = b.Hash()
			lc.BlockNumber = b.NumberU64()
			lc.TxHash = b.Transactions()[i].Hash()
			lc.TxIndex = uint(i)
			lc.Index = idx
			idx++
			cp.Logs = append(cp.Logs, &lc)
		}
		out[i] = &cp
	}
	return out
}

// partStateRoot: the state root of the composed model (C10 specification root of the account listing
// keccak(address) -> rlp([nonce, balance, storage root, code hash]), Import/ImportTx.v tx_state_root)
// against header.Root / StateDB.IntermediateRoot for the post-state of every block; the accounts are
// sent in a random order (the driver additionally feeds them to the trie in two orders)
func partStateRoot(c *vh.Ctx, m *vh.Model, n *node, ch *chainT) {
	for i, b := range ch.blocks {
		sdb, err := n.bc.StateAt(b.Root())
		if err != nil {
			continue
		}
		dump := sdb.RawDump()
		var accts []string
		ok := true
		for a, acc := range dump.Accounts {
			if len(a) != 40 {
				ok = false // no address preimage for this leaf
				break
			}
			accts = append(accts, fmt.Sprintf("0x%s:%d:%s:0x%s:0x%s", a, acc.Nonce, acc.Balance, acc.Root, acc.CodeHash))
		}
		if !ok {
			c.Count("state-root:preimage-missing(skipped)")
			continue
		}
		sort.Strings(accts)
		for k := len(accts) - 1; k > 0; k-- {
			j := c.Rng.Intn(k + 1)
			accts[k], accts[j] = accts[j], accts[k]
		}
		req := "_"
		if len(accts) > 0 {
			req = strings.Join(accts, ",")
		}
		c.Correspond("StateDB.IntermediateRoot~tx_state_root", fmt.Sprintf("%s block %d (%d accounts)", ch.spec.name, i+1, len(accts)),
			"ok "+vh.Hex(b.Root().Bytes()), m.Ask("stateroot "+req))
	}
}

// model correspondence on the commitments of every block of the chain
func partCommitments(c *vh.Ctx, m *vh.Model, ch *chainT) {
	for i, b := range ch.blocks {
		cas := fmt.Sprintf("%s block %d", ch.spec.name, i+1)
		txroot := types.DeriveSha(b.Transactions())
		c.Correspond("DeriveSha(Transactions)~derive_sha", cas, "ok "+vh.Hex(txroot[:]), m.Ask("derive "+txsReq(b.Transactions())))
		rs := ch.receipts[i]
		rroot := types.DeriveSha(rs)
		bloom := types.CreateBloom(rs)
		c.Correspond("DeriveSha(Receipts),CreateBloom~receipts_root,receipts_bloom", cas,
			"ok "+vh.Hex(rroot[:])+" "+vh.Hex(bloom[:]), m.Ask("receipts "+receiptsReq(rs, false)))
		uh := types.CalcUncleHash(b.Uncles())
		c.Correspond("CalcUncleHash~calc_uncle_hash", cas, "ok "+vh.Hex(uh[:]), m.Ask("unclehash "+headersReq(b.Uncles())))
		if txroot != b.TxHash() || uh != b.UncleHash() || rroot != b.ReceiptHash() || bloom != b.Bloom() {
			c.Violate("builder-commitment-mismatch", "a block from core.GenerateChain carries a commitment that is not the recomputed one", replayOf(ch, map[string]interface{}{"block": i + 1}))
		}
	}
}

// ---------------------------------------------------------------- part (c): corruption

type corrupt struct {
	name  string
	blk   *types.Block
	fixed bool // commitments of the body re-derived: the block may be a valid different block
}

func withHeader(b *types.Block, f func(h *types.Header)) *types.Block {
	h := b.Header()
	f(h)
	return types.NewBlockWithHeader(h).WithBody(b.Transactions(), b.Uncles())
}
func withBody(b *types.Block, txs []*types.Transaction, uncles []*types.Header, fix bool) *types.Block {
	h := b.Header()
	if fix {
		h.TxHash = types.DeriveSha(types.Transactions(txs))
		h.UncleHash = types.CalcUncleHash(uncles)
	}
	return types.NewBlockWithHeader(h).WithBody(txs, uncles)
}
func flipHash(r *vh.RNG, h common.Hash) common.Hash { h[r.Intn(32)] ^= 1 << uint(r.Intn(8)); return h }

func corruptions(r *vh.RNG, ch *chainT, i int, parent *types.Block) []corrupt {
	b := ch.blocks[i]
	var out []corrupt
	add := func(name string, nb *types.Block, fixed bool) {
		if nb.Hash() != b.Hash() {
			out = append(out, corrupt{name, nb, fixed})
		}
	}
	hc := func(name string, f func(h *types.Header)) { add(name, withHeader(b, f), false) }
	// header commitments
	hc("TxHash/bitflip", func(h *types.Header) { h.TxHash = flipHash(r, h.TxHash) })
	hc("TxHash/empty-root", func(h *types.Header) { h.TxHash = types.EmptyRootHash })
	hc("TxHash/receipt-hash", func(h *types.Header) { h.TxHash = h.ReceiptHash })
	hc("UncleHash/bitflip", func(h *types.Header) { h.UncleHash = flipHash(r, h.UncleHash) })
	hc("UncleHash/empty", func(h *types.Header) { h.UncleHash = types.EmptyUncleHash })
	hc("Root/bitflip", func(h *types.Header) { h.Root = flipHash(r, h.Root) })
	hc("Root/parent-root", func(h *types.Header) { h.Root = parent.Root() })
	hc("Root/zero", func(h *types.Header) { h.Root = common.Hash{} })
	hc("ReceiptHash/bitflip", func(h *types.Header) { h.ReceiptHash = flipHash(r, h.ReceiptHash) })
	hc("ReceiptHash/empty-root", func(h *types.Header) { h.ReceiptHash = types.EmptyRootHash })
	hc("ReceiptHash/tx-hash", func(h *types.Header) { h.ReceiptHash = h.TxHash })
	hc("Bloom/bitflip", func(h *types.Header) { h.Bloom[r.Intn(256)] ^= 1 << uint(r.Intn(8)) })
	hc("Bloom/zero", func(h *types.Header) { h.Bloom = types.Bloom{} })
	hc("Bloom/all-ones", func(h *types.Header) {
		for k := range h.Bloom {
			h.Bloom[k] = 0xff
		}
	})
	hc("GasUsed/+1", func(h *types.Header) { h.GasUsed++ })
	hc("GasUsed/-1", func(h *types.Header) { h.GasUsed-- })
	hc("GasUsed/zero", func(h *types.Header) { h.GasUsed = 0 })
	// receipts that differ only in a status / a log order / a cumulative gas: a plausible ReceiptHash
	rs := ch.receipts[i]
	if len(rs) > 0 {
		alt := func(name string, f func(cp types.Receipts) bool) {
			cp := make(types.Receipts, len(rs))
			for k, x := range rs {
				y := *x
				y.Logs = append([]*types.Log{}, x.Logs...)
				cp[k] = &y
			}
			if f(cp) {
				hc("ReceiptHash/"+name, func(h *types.Header) { h.ReceiptHash = types.DeriveSha(cp) })
			}
		}
		alt("status-flip", func(cp types.Receipts) bool {
			k := r.Intn(len(cp))
			if len(cp[k].PostState) != 0 {
				cp[k].PostState = flipHash(r, common.BytesToHash(cp[k].PostState)).Bytes()
				return true
			}
			cp[k].Status = 1 - cp[k].Status
			return true
		})
		alt("log-order", func(cp types.Receipts) bool {
			for _, x := range cp {
				if len(x.Logs) >= 2 {
					x.Logs[0], x.Logs[1] = x.Logs[1], x.Logs[0]
					return true
				}
			}
			return false
		})
		alt("cumulative-gas", func(cp types.Receipts) bool { cp[len(cp)-1].CumulativeGasUsed++; return true })
	}
	// body
	txs := b.Transactions()
	uncles := b.Uncles()
	for _, fix := range []bool{false, true} {
		sfx := ""
		if fix {
			sfx = "+rederived-roots"
		}
		if len(txs) >= 2 {
			k := r.Intn(len(txs) - 1)
			sw := append(types.Transactions{}, txs...)
			sw[k], sw[k+1] = sw[k+1], sw[k]
			add("body/swap-txs"+sfx, withBody(b, sw, uncles, fix), fix)
		}
		if len(txs) >= 1 {
			k := r.Intn(len(txs))
			dr := append(append(types.Transactions{}, txs[:k]...), txs[k+1:]...)
			add("body/drop-tx"+sfx, withBody(b, dr, uncles, fix), fix)
			du := append(append(append(types.Transactions{}, txs[:k+1]...), txs[k]), txs[k+1:]...)
			add("body/duplicate-tx"+sfx, withBody(b, du, uncles, fix), fix)
			// alter a field of a transaction and sign it again with the same key
			t := txs[k]
			var signer types.Signer = types.HomesteadSigner{}
			if t.Protected() {
				signer = types.NewEIP155Signer(ch.spec.cfg.ChainId)
			}
			from, _ := types.Sender(signer, t)
			for ki, a := range addrs {
				if a == from {
					var nt *types.Transaction
					val := new(big.Int).Add(t.Value(), big.NewInt(1))
					if t.To() == nil {
						nt = types.NewContractCreation(t.Nonce(), val, t.Gas(), t.GasPrice(), t.Data())
					} else {
						nt = types.NewTransaction(t.Nonce(), *t.To(), val, t.Gas(), t.GasPrice(), t.Data())
					}
					st, _ := types.SignTx(nt, signer, keys[ki])
					al := append(types.Transactions{}, txs...)
					al[k] = st
					add("body/alter-tx-value"+sfx, withBody(b, al, uncles, fix), fix)
				}
			}
		}
		extraTx, _ := types.SignTx(types.NewTransaction(1<<40, addrs[0], big.NewInt(1), 21000, big.NewInt(1), nil), types.HomesteadSigner{}, keys[1])
		add("body/add-tx"+sfx, withBody(b, append(append(types.Transactions{}, txs...), extraTx), uncles, fix), fix)
		{
			ptx, _ := types.SignTx(types.NewTransaction(0, addrs[0], big.NewInt(1), 21000, big.NewInt(1000000000), nil), types.NewEIP155Signer(ch.spec.cfg.ChainId), keys[4])
			types.Sender(types.NewEIP155Signer(ch.spec.cfg.ChainId), ptx)
			add("body/add-protected-tx"+sfx, withBody(b, append(append(types.Transactions{}, txs...), ptx), uncles, fix), fix)
			htx, _ := signHighS(types.NewTransaction(0, addrs[0], big.NewInt(1), 21000, big.NewInt(1000000000), nil), keys[5])
			types.Sender(types.FrontierSigner{}, htx)
			add("body/add-high-S-tx"+sfx, withBody(b, append(append(types.Transactions{}, txs...), htx), uncles, fix), fix)
		}
		if len(uncles) > 0 {
			add("body/drop-uncle"+sfx, withBody(b, txs, nil, fix), fix)
			au := types.CopyHeader(uncles[0])
			au.Coinbase = minerA
			au.Extra = []byte("altered")
			add("body/alter-uncle"+sfx, withBody(b, txs, []*types.Header{au}, fix), fix)
		}
		if i >= 1 {
			add("body/add-uncle"+sfx, withBody(b, txs, append(append([]*types.Header{}, uncles...), ch.side[i-1].Header()), fix), fix)
		}
	}
	return out
}

func dbDigest(db *aquadb.MemDatabase) string {
	ks := db.Keys()
	sort.Slice(ks, func(a, b int) bool { return bytes.Compare(ks[a], ks[b]) < 0 })
	h := sha256.New()
	for _, k := range ks {
		v, _ := db.Get(k)
		h.Write(k)
		h.Write([]byte{0})
		h.Write(v)
		h.Write([]byte{1})
	}
	return fmt.Sprintf("%d:%x", len(ks), h.Sum(nil)[:12])
}

func snapshot(n *node) map[string]string {
	s := map[string]string{}
	head := n.bc.CurrentBlock()
	s["head"] = fmt.Sprintf("%x/%d", head.Hash(), head.NumberU64())
	s["head-header"] = fmt.Sprintf("%x", n.bc.CurrentHeader().Hash())
	s["head-fast"] = fmt.Sprintf("%x", n.bc.CurrentFastBlock().Hash())
	s["td"] = fmt.Sprint(n.bc.GetTd(head.Hash(), head.NumberU64()))
	s["db"] = dbDigest(n.db)
	if sdb, err := n.bc.State(); err == nil {
		d, err := stateDigest(sdb.Database(), head.Root(), nil)
		s["state"] = fmt.Sprint(d, err)
	} else {
		s["state"] = "unavailable " + err.Error()
	}
	var canon []string
	for k := uint64(0); k <= head.NumberU64(); k++ {
		if b := n.bc.GetBlockByNumber(k); b != nil {
			canon = append(canon, fmt.Sprintf("%x:%s", b.Hash().Bytes()[:6], receiptsDigest(n.bc.GetReceiptsByHash(b.Hash()))))
		} else {
			canon = append(canon, "nil")
		}
	}
	s["canon"] = strings.Join(canon, ",")
	return s
}
func receiptsDigest(rs types.Receipts) string {
	h := sha256.Sum256([]byte(receiptsText(rs)))
	return fmt.Sprintf("%x", h[:6])
}

func partCorruption(c *vh.Ctx, m *vh.Model, ch *chainT, idx int, cache *core.CacheConfig, cacheName string) {
	n := newNode(c, ch, cache)     // is offered every single-field corruption
	clean := newNode(c, ch, cache) // never sees a bad block
	n2 := newNode(c, ch, cache)    // receives the variants with re-derived body roots (may be valid blocks)
	withMirror(c, ch, n, "corruptions")
	withMirror(c, ch, n2, "rederived-variants")
	defer func() { n.stop(); clean.bc.Stop(); n2.stop() }()
	all := make([][]corrupt, len(ch.blocks))
	for i := range ch.blocks {
		parent := ch.genesis
		if i > 0 {
			parent = ch.blocks[i-1]
		}
		all[i] = corruptions(c.Rng, ch, i, parent)
	}
	parent := ch.genesis
	for i, b := range ch.blocks {
		cs := all[i]
		if i+1 < len(ch.blocks) { // the child before its parent: refused without a trace (not parked anywhere)
			cs = append(cs, corrupt{"orphan/child-before-parent", ch.blocks[i+1], false})
		}
		// 1. single-field corruptions, before the good block arrives: must be refused, nothing may change
		before := snapshot(n)
		for _, cr := range cs {
			if cr.fixed {
				continue
			}
			err := n.insert([]*types.Block{cr.blk})
			verdict := classify(err)
			c.Eval("corruption:"+cr.name, fmt.Sprintf("%d/%d/%s", idx, i, cr.name))
			enc, _ := rlp.EncodeToBytes(cr.blk)
			rep := replayOf(ch, map[string]interface{}{"parent_number": i, "corruption": cr.name, "corrupted_block_rlp": vh.Hex(enc), "cache": cacheName, "verdict": verdict})
			if err == nil {
				c.Violate("corrupted-block-accepted/"+cr.name, fmt.Sprintf("block %d with corruption %s was accepted by InsertChain", i+1, cr.name), rep)
				// the node is now off the reference chain: rebuild it up to the parent
				n.bc.Stop()
				n = newNode(c, ch, cache)
				if e := n.insert(ch.blocks[:i]); e != nil {
					c.Violate("valid-chain-refused/rebuild", fmt.Sprintf("cannot rebuild a node up to block %d: %v", i, e), rep)
					return
				}
				before = snapshot(n)
				continue
			}
			if verdict == "panic" {
				c.Violate("import-panics/"+cr.name, fmt.Sprintf("InsertChain panicked on block %d with corruption %s: %v", i+1, cr.name, err), rep)
			}
			after := snapshot(n)
			for k, v := range before {
				if after[k] != v {
					rep["changed"] = k
					rep["before"], rep["after"] = clip(v), clip(after[k])
					c.Violate("rejected-block-changed-"+k+"/"+cr.name, fmt.Sprintf("refusing block %d (%s) changed %s", i+1, cr.name, k), rep)
				}
			}
			if n.bc.HasBlock(cr.blk.Hash(), cr.blk.NumberU64()) || n.bc.GetBlockByHash(cr.blk.Hash()) != nil {
				c.Violate("rejected-block-readable/"+cr.name, fmt.Sprintf("block %d (%s) was refused but can be read back from the chain", i+1, cr.name), rep)
			}
			// model: same verdict and same reason, for the checks the model decides
			if verdict != "rejected engine" && verdict != "panic" && (c.Thorough() || c.Rng.Intn(3) == 0 || strings.HasPrefix(cr.name, "ReceiptHash/")) {
				c.Correspond("InsertChain(corrupted)~import_block", fmt.Sprintf("%s block %d %s", ch.spec.name, i+1, cr.name), verdict, firstTwo(m.Ask(importReq(n, cr.blk, parent.Root()))))
			}
		}
		// 2. the good block — half of the time with a corrupted successor behind it in the same batch
		req := importReq(n, b, parent.Root())
		batch := []*types.Block{b}
		var tail *corrupt
		if i+1 < len(ch.blocks) && c.Rng.Bool() {
			var cand []int
			for k, cr := range all[i+1] {
				if !cr.fixed {
					cand = append(cand, k)
				}
			}
			tail = &all[i+1][cand[c.Rng.Intn(len(cand))]]
			batch = append(batch, tail.blk)
		}
		err := n.insert(batch)
		if tail == nil {
			if err != nil {
				c.Violate("valid-block-refused", fmt.Sprintf("block %d of a generated chain was refused after corrupted variants had been offered: %v", i+1, err), replayOf(ch, map[string]interface{}{"block": i + 1}))
				return
			}
			c.Eval("import:valid-block", fmt.Sprintf("%d/%d", idx, i))
		} else {
			c.Eval("batch:valid-block+corrupted-successor:"+tail.name, fmt.Sprintf("%d/%d/batch/%s", idx, i, tail.name))
			enc, _ := rlp.EncodeToBytes(tail.blk)
			rep := replayOf(ch, map[string]interface{}{"batch": []int{i + 1, i + 2}, "corruption_of_second": tail.name, "corrupted_block_rlp": vh.Hex(enc), "cache": cacheName})
			if err == nil {
				c.Violate("corrupted-block-accepted-in-batch/"+tail.name, fmt.Sprintf("batch [block %d, block %d with %s]: the corrupted second block was accepted", i+1, i+2, tail.name), rep)
				return
			}
			if n.bc.CurrentBlock().Hash() != b.Hash() {
				c.Violate("failed-batch-lost-good-prefix", fmt.Sprintf("batch [block %d, corrupted block %d]: after the failure the head is not block %d", i+1, i+2, i+1), rep)
				return
			}
		}
		// a block that was refused before is refused again now that its sibling is the head (bad-block
		// LRU, block/body caches and the state cache must not turn it into a known or valid block)
		{
			var cand []int
			for k, cr := range cs {
				if !cr.fixed && !strings.HasPrefix(cr.name, "orphan/") {
					cand = append(cand, k)
				}
			}
			for t := 0; t < 2 && len(cand) > 0; t++ {
				cr := cs[cand[c.Rng.Intn(len(cand))]]
				c.Eval("re-offer-after-good-block:"+strings.SplitN(cr.name, "/", 2)[0], fmt.Sprintf("%d/%d/re/%s", idx, i, cr.name))
				if err := n.insert([]*types.Block{cr.blk}); err == nil {
					enc, _ := rlp.EncodeToBytes(cr.blk)
					c.Violate("corrupted-block-accepted-on-second-offer/"+cr.name, fmt.Sprintf("block %d with %s was refused first and accepted when offered again after the good block", i+1, cr.name),
						replayOf(ch, map[string]interface{}{"parent_number": i, "corruption": cr.name, "corrupted_block_rlp": vh.Hex(enc)}))
					return
				}
			}
		}
		if err := clean.insert([]*types.Block{b}); err != nil {
			c.Violate("valid-block-refused/clean-node", fmt.Sprintf("block %d of a generated chain was refused by a node that saw only valid blocks: %v", i+1, err), replayOf(ch, map[string]interface{}{"block": i + 1, "error": err.Error()}))
			return
		}
		// a node that was offered bad blocks must be indistinguishable from one that never saw them
		sa, sb := snapshot(n), snapshot(clean)
		for k, v := range sb {
			if sa[k] != v {
				c.Violate("bad-blocks-left-a-trace/"+k, fmt.Sprintf("after block %d, %s differs between a node that was offered corrupted blocks and a node that was not", i+1, k),
					replayOf(ch, map[string]interface{}{"block": i + 1, "observable": k, "clean": clip(v), "offered": clip(sa[k]), "cache": cacheName}))
			}
		}
		c.Correspond("InsertChain~import_block", fmt.Sprintf("%s block %d", ch.spec.name, i+1),
			fmt.Sprintf("accepted %s %d", vh.Hex(b.Root().Bytes()), b.GasUsed()), m.Ask(req))
		// 3. variants with re-derived body roots (may be valid different blocks), on their own node: the
		// model decides; if accepted every commitment must be the recomputed one
		early := map[int]bool{}
		for k, cr := range cs {
			if cr.fixed && c.Rng.Intn(3) == 0 {
				early[k] = true
				n2.insert([]*types.Block{cr.blk}) // verdict irrelevant here; it executes other transactions on the same parent
				c.Count("rederived-variant:offered-before-good-block")
			}
		}
		if err := n2.insert([]*types.Block{b}); err != nil {
			c.Violate("valid-block-refused/variant-node", fmt.Sprintf("block %d of a generated chain was refused by a node that had accepted valid sibling variants: %v", i+1, err), replayOf(ch, map[string]interface{}{"block": i + 1, "error": err.Error()}))
			return
		}
		if got, want := receiptsText(n2.bc.GetReceiptsByHash(b.Hash())), receiptsText(clean.bc.GetReceiptsByHash(b.Hash())); got != want {
			c.Violate("variants-changed-good-block-receipts", fmt.Sprintf("block %d: receipts differ between a node that executed sibling variants first and a clean node", i+1),
				replayOf(ch, map[string]interface{}{"block": i + 1, "clean": clip(want), "observed": clip(got)}))
		}
		for k, cr := range cs {
			if !cr.fixed || early[k] || (!c.Thorough() && c.Rng.Intn(2) == 0) {
				continue
			}
			req := importReq(n2, cr.blk, parent.Root())
			err := n2.insert([]*types.Block{cr.blk})
			verdict := classify(err)
			c.Eval("corruption:"+cr.name, fmt.Sprintf("%d/%d/%s", idx, i, cr.name))
			enc, _ := rlp.EncodeToBytes(cr.blk)
			rep := replayOf(ch, map[string]interface{}{"parent_number": i, "corruption": cr.name, "corrupted_block_rlp": vh.Hex(enc), "verdict": verdict})
			if verdict == "panic" {
				c.Violate("import-panics/"+cr.name, fmt.Sprintf("InsertChain panicked on block %d with %s: %v", i+1, cr.name, err), rep)
				continue
			}
			if err == nil {
				// direct oracle: recompute every commitment independently
				stored := n2.bc.GetReceiptsByHash(cr.blk.Hash())
				h := cr.blk.Header()
				po := strings.Fields(processOracle(n2, cr.blk, parent.Root()))
				ok := len(po) >= 2 && po[0] == "ok" && po[1] == vh.Hex(h.Root[:]) &&
					types.DeriveSha(stored) == h.ReceiptHash && types.CreateBloom(stored) == h.Bloom &&
					types.DeriveSha(cr.blk.Transactions()) == h.TxHash && types.CalcUncleHash(cr.blk.Uncles()) == h.UncleHash
				if ok && len(stored) > 0 {
					ok = stored[len(stored)-1].CumulativeGasUsed == h.GasUsed
				} else if ok {
					ok = h.GasUsed == 0
				}
				if !ok {
					c.Violate("accepted-inconsistent-block/"+cr.name, fmt.Sprintf("block %d variant %s was accepted although a commitment is not the recomputed value", i+1, cr.name), rep)
				}
				verdict = fmt.Sprintf("accepted %s %d", vh.Hex(h.Root[:]), h.GasUsed)
				c.Count("rederived-variant:accepted-as-valid-different-block")
			} else {
				c.Count("rederived-variant:" + verdict)
			}
			if !strings.HasPrefix(verdict, "rejected engine") {
				ans := m.Ask(req)
				if err != nil {
					ans = firstTwo(ans)
				}
				c.Correspond("InsertChain(rederived-variant)~import_block", fmt.Sprintf("%s block %d %s", ch.spec.name, i+1, cr.name), verdict, ans)
			}
		}
		parent = b
	}
}

func firstTwo(s string) string {
	f := strings.Fields(s)
	if len(f) > 2 {
		f = f[:2]
	}
	return strings.Join(f, " ")
}

// ---------------------------------------------------------------- part (b): the node's own builder

type backend struct {
	bc   *core.BlockChain
	pool *core.TxPool
	db   aquadb.Database
}

func (b *backend) AccountManager() *accounts.Manager { return nil }
func (b *backend) BlockChain() *core.BlockChain      { return b.bc }
func (b *backend) TxPool() *core.TxPool              { return b.pool }
func (b *backend) ChainDb() aquadb.Database          { return b.db }

// partBuilder builds block k+1 on top of main block k with the miner's worker
func partBuilder(c *vh.Ctx, m *vh.Model, ch *chainT, idx int, k int) {
	r := c.Rng
	a := newNode(c, ch, &core.CacheConfig{Disabled: true})
	defer func() { a.bc.Stop() }()
	if err := a.insert(ch.blocks[:k]); err != nil {
		c.Violate("valid-chain-refused/builder-node", fmt.Sprintf("a fresh archive node refused the first %d blocks of a generated chain in one batch: %v", k, err), replayOf(ch, map[string]interface{}{"blocks": k, "error": err.Error()}))
		return
	}
	if k >= 2 { // let the node know a recent side block (a possible uncle)
		a.insert([]*types.Block{ch.side[k-1]})
	}
	pcfg := core.DefaultTxPoolConfig
	pcfg.NoLocals = false
	pcfg.Journal = ""
	pool := core.NewTxPool(pcfg, ch.spec.cfg, a.bc)
	defer pool.Stop()
	// pending transactions: the next nonces of the funded accounts (some with a gap, some unaffordable)
	st, _ := a.bc.State()
	g := &txgen{r: r, cfg: ch.spec.cfg}
	next := new(big.Int).SetUint64(uint64(k + 1))
	var offered types.Transactions
	for from := 0; from < 4; from++ {
		nonce := st.GetNonce(addrs[from])
		cnt := r.Intn(4)
		for j := 0; j < cnt; j++ {
			tx, _ := g.make(from, nonce, next, r.Intn(4) != 0)
			nonce++
			if r.Intn(10) == 0 {
				nonce++ // gap: later ones stay queued
			}
			offered = append(offered, tx)
		}
	}
	// transactions that pass the pool's checks but fail inside ApplyTransaction, at price-dependent
	// positions among the good ones
	gwei := func() *big.Int { return big.NewInt(int64(1+r.Intn(6)) * 1000000000) }
	sign := func(ki int, tx *types.Transaction) {
		stx, err := types.SignTx(tx, types.HomesteadSigner{}, keys[ki])
		if err != nil {
			panic(err)
		}
		offered = append(offered, stx)
	}
	frac := func(b *big.Int, num int64) *big.Int {
		return new(big.Int).Div(new(big.Int).Mul(b, big.NewInt(num)), big.NewInt(10))
	}
	var failKinds []string
	if r.Intn(6) != 0 { // two transfers, each affordable alone, not together: the second fails after nonce bump and gas purchase
		n4, b4 := st.GetNonce(addrs[4]), st.GetBalance(addrs[4])
		sign(4, types.NewTransaction(n4, freshPool[1], frac(b4, 6), 21000, gwei(), nil))
		sign(4, types.NewTransaction(n4+1, addrs[1], frac(b4, 6), 21000, gwei(), nil))
		sign(4, types.NewTransaction(n4+2, addrs[1], big.NewInt(1), 21000, gwei(), nil)) // then: nonce too high
		failKinds = append(failKinds, "overdraft-value")
	}
	if r.Intn(3) != 0 { // two creations with value: the second fails in Create after the gas purchase
		n5, b5 := st.GetNonce(addrs[5]), st.GetBalance(addrs[5])
		sign(5, types.NewContractCreation(n5, frac(b5, 6), 300000, gwei(), initReturning(storeCode)))
		sign(5, types.NewContractCreation(n5+1, frac(b5, 6), 300000, gwei(), initCtor(1, 2, sdCode)))
		failKinds = append(failKinds, "overdraft-create")
	}
	if r.Intn(3) != 0 { // the second cannot buy its gas after the first
		n6, b6 := st.GetNonce(addrs[6]), st.GetBalance(addrs[6])
		sign(6, types.NewTransaction(n6, freshPool[2], frac(b6, 9), 21000, gwei(), nil))
		sign(6, types.NewTransaction(n6+1, storeAddr, big.NewInt(0), 300000, big.NewInt(4000000000), g.storeData()))
		failKinds = append(failKinds, "cannot-buy-gas")
	}
	if r.Intn(2) == 0 { // a gas hog that does not fit behind the others
		hog := r.Intn(4)
		hn := st.GetNonce(addrs[hog])
		for _, tx := range offered {
			if f, _ := types.Sender(types.NewEIP155Signer(ch.spec.cfg.ChainId), tx); f == addrs[hog] && tx.Nonce() >= hn {
				hn = tx.Nonce() + 1
			}
		}
		sign(hog, types.NewTransaction(hn, addrs[(hog+1)%4], big.NewInt(1), a.bc.CurrentBlock().GasLimit()-uint64(30000+r.Intn(40000)), big.NewInt(1000000000), nil))
		failKinds = append(failKinds, "gas-hog")
	}
	nextNonce := func(ki int) uint64 {
		hn := st.GetNonce(addrs[ki])
		for _, tx := range offered {
			if f, _ := types.Sender(types.NewEIP155Signer(ch.spec.cfg.ChainId), tx); f == addrs[ki] && tx.Nonce() >= hn {
				hn = tx.Nonce() + 1
			}
		}
		return hn
	}
	if !ch.spec.cfg.IsEIP155(next) && r.Bool() {
		// replay-protected before the EIP155 height: the pool takes it, the worker must leave it out
		ki := r.Intn(4)
		ptx, _ := types.SignTx(types.NewTransaction(nextNonce(ki), addrs[(ki+1)%4], big.NewInt(3), 21000, gwei(), nil), types.NewEIP155Signer(ch.spec.cfg.ChainId), keys[ki])
		offered = append(offered, ptx)
		failKinds = append(failKinds, "replay-protected-before-fork")
	}
	if r.Intn(3) == 0 { // underpriced: below the pool's price limit, never pending
		ki := r.Intn(4)
		utx, _ := types.SignTx(types.NewTransaction(nextNonce(ki), addrs[(ki+1)%4], big.NewInt(1), 21000, big.NewInt(0), nil), types.HomesteadSigner{}, keys[ki])
		offered = append(offered, utx)
		failKinds = append(failKinds, "underpriced")
	}
	// random arrival order at the pool
	for i := len(offered) - 1; i > 0; i-- {
		j := r.Intn(i + 1)
		offered[i], offered[j] = offered[j], offered[i]
	}
	for _, e := range pool.AddRemotes(offered) {
		_ = e
	}
	// nonce-ordered arrival may have left some queued: offer again so that every executable one is pending
	pool.AddRemotes(offered)
	pend, _ := pool.Pending()
	npend := 0
	for _, l := range pend {
		npend += len(l)
	}
	var uncles []*types.Block
	if k >= 2 {
		uncles = append(uncles, ch.side[k-1])
	}
	coinbase := []common.Address{minerA, addrs[2]}[r.Intn(2)]
	var blk *types.Block
	var brs []*types.Receipt
	pan, pv := vh.CatchPanic(func() {
		blk, brs = miner.VerifBuildBlock(ch.spec.cfg, a.bc.Engine(), coinbase, []byte("c01"), &backend{a.bc, pool, a.db}, uncles)
	})
	class := fmt.Sprintf("builder:worker/pending=%s/uncle-offered=%d", bucket(npend), len(uncles))
	if !pan && blk != nil {
		class = fmt.Sprintf("builder:worker/height=%d/pending=%s/included=%s/skipped=%s/uncles=%d", k+1, bucket(npend), bucket(len(blk.Transactions())), bucket(npend-len(blk.Transactions())), len(blk.Uncles()))
		for _, fk := range failKinds {
			c.Count("builder-pending-with:" + fk)
		}
	}
	if pan || blk == nil {
		c.Eval(class, "")
		c.Violate("builder-panics-or-fails", fmt.Sprintf("worker.commitNewWork panicked or produced no block on top of block %d: %v", k, pv), replayOf(ch, map[string]interface{}{"parent_number": k}))
		return
	}
	sealed, err := a.bc.Engine().Seal(a.bc, blk, nil)
	if err != nil {
		c.Fatal("Seal: %v", err)
	}
	c.Eval(class, fmt.Sprintf("%d/%d/%d", idx, k, len(blk.Transactions())))
	enc, _ := rlp.EncodeToBytes(sealed)
	rep := replayOf(ch, map[string]interface{}{"parent_number": k, "built_block_rlp": vh.Hex(enc), "offered": len(offered), "pending": npend, "included": len(blk.Transactions())})
	rep["fail_kinds_offered"] = failKinds
	// (ii) the transactions the worker dropped must have left no trace: the header's state root is the
	// root of executing exactly the included transactions on the parent state
	if aparent := a.bc.GetBlockByHash(sealed.ParentHash()); aparent != nil {
		po := strings.Fields(processOracle(a, sealed, aparent.Root()))
		if len(po) < 2 || po[0] != "ok" {
			rep["error"] = lastProcessErr
			c.Violate("own-block-does-not-execute", "the transactions the worker included do not execute in order on the parent state", rep)
		} else if po[1] != vh.Hex(sealed.Root().Bytes()) {
			rep["root_of_included_only"], rep["header_root"] = po[1], vh.Hex(sealed.Root().Bytes())
			sig := "own-block-root-mismatch"
			if npend > len(blk.Transactions()) {
				sig = "builder-skipped-tx-left-trace"
			}
			c.Violate(sig, fmt.Sprintf("worker-built block on %d: the header state root is not the root of executing the %d included transactions (%d pending were dropped)", k, len(blk.Transactions()), npend-len(blk.Transactions())), rep)
		}
	}
	// second node (other cache mode), same prefix
	b := newNode(c, ch, nil)
	withMirror(c, ch, b, "worker-built-block")
	defer func() { b.stop() }()
	if err := b.insert(ch.blocks[:k]); err != nil {
		c.Violate("valid-chain-refused/second-node", fmt.Sprintf("a fresh pruning node refused the first %d blocks of a generated chain in one batch: %v", k, err), replayOf(ch, map[string]interface{}{"blocks": k, "error": err.Error()}))
		return
	}
	if k >= 2 {
		b.insert([]*types.Block{ch.side[k-1]})
	}
	// model: the builder's header from the recorded execution results
	{
		inc := map[common.Hash]int{}
		for i, tx := range blk.Transactions() {
			inc[tx.Hash()] = i
		}
		var cands [][]byte
		var oracle []string
		for i, tx := range blk.Transactions() {
			e, _ := rlp.EncodeToBytes(tx)
			cands = append(cands, e)
			oracle = append(oracle, fmt.Sprintf("%s:%d:%s", vh.Hex(postBytes(brs[i])), brs[i].GasUsed, logsText(brs[i].Logs)))
			// a pending transaction the worker did not take is offered right behind
			if i == len(blk.Transactions())/2 {
				for _, l := range pend {
					for _, ptx := range l {
						if _, ok := inc[ptx.Hash()]; !ok {
							pe, _ := rlp.EncodeToBytes(ptx)
							cands = append(cands, pe)
							oracle = append(oracle, "skip")
						}
					}
				}
			}
		}
		or := "_"
		if len(oracle) > 0 {
			or = strings.Join(oracle, ",")
		}
		hdr, _ := rlp.EncodeToBytes(sealed.Header())
		req := fmt.Sprintf("build %s %s %s %d %s %s", vh.Hex(hdr), joinHex(cands), headersReq(sealed.Uncles()), params.TxGas, vh.Hex(sealed.Root().Bytes()), or)
		c.Correspond("worker.commitNewWork~build_block", fmt.Sprintf("%s on block %d", ch.spec.name, k),
			fmt.Sprintf("ok %s %d %d", vh.Hex(hdr), len(blk.Transactions()), sealed.GasUsed()), m.Ask(req))
	}
	bparent := b.bc.GetBlockByHash(sealed.ParentHash())
	if bparent == nil {
		c.Fatal("second node does not know the parent of the built block")
	}
	req := importReq(b, sealed, bparent.Root())
	if err := b.insert([]*types.Block{sealed}); err != nil {
		rep["error"] = err.Error()
		c.Violate("own-block-refused", fmt.Sprintf("a block assembled by worker.commitNewWork on block %d was refused by InsertChain of a second node: %v", k, err), rep)
		return
	}
	if strings.HasSuffix(req, " err") {
		c.Note("process oracle failed on own block: %s", lastProcessErr)
	}
	c.Correspond("InsertChain(own block)~import_block", fmt.Sprintf("%s own block on %d", ch.spec.name, k),
		fmt.Sprintf("accepted %s %d", vh.Hex(sealed.Root().Bytes()), sealed.GasUsed()), m.Ask(req))
	got := receiptsText(b.bc.GetReceiptsByHash(sealed.Hash()))
	want := receiptsText(fixDerived(brs, sealed))
	if got != want {
		rep["import"], rep["builder"] = clip(got), clip(want)
		c.Violate("own-block-receipts-differ", "receipts computed by import differ from the ones the worker computed while building", rep)
	}
	if b.bc.CurrentBlock().Hash() != sealed.Hash() {
		c.Violate("own-block-not-head", "the node's own block extends the head but did not become the head of the second node", rep)
	}
	// ... and into the building node itself
	if err := a.insert([]*types.Block{sealed}); err != nil {
		rep["error"] = err.Error()
		c.Violate("own-block-refused-by-self", fmt.Sprintf("the building node refused its own block: %v", err), rep)
	}
	if len(c.Res.Samples) < 4 {
		c.Sample(map[string]interface{}{"builder": class, "included": len(blk.Transactions()), "pending": npend, "offered": len(offered), "gas": sealed.GasUsed()})
	}
}

func bucket(n int) string {
	switch {
	case n == 0:
		return "0"
	case n <= 3:
		return "1-3"
	default:
		return "4+"
	}
}

// ---------------------------------------------------------------- main

func main() {
	log.Root().SetHandler(log.DiscardHandler())
	c := vh.Init("C01")
	m := c.StartModel()
	defer m.Close()
	c.Res.Rule = "chains of 13 blocks from core.GenerateChain (faker engine) on two configurations (hard forks 1-9 at heights 2-12 with EIP155/158/Byzantium at 9; TestChainConfig with forks at 1-7), 0-6 transactions per block drawn from 13 kinds (transfers to funded / fresh / empty accounts, zero-value touches, calls into contracts that write and clear storage slots from a small pool and emit LOG1/LOG2, selfdestruct to varying beneficiaries, REVERT-or-LOG0, a contract calling another, creations with and without constructor effects, a failing creation, out-of-gas calls, precompiles, calls into contracts created earlier), homestead- and EIP155-signed, a miner that is also a sender, uncles (at most one per block, 2-6 generations back), empty blocks, a sibling per block and a competing fork. Each chain: (a) nine arrival histories compared observable by observable; commitments and verdict compared with the extracted model; (b) one block assembled by opt/miner's worker over a real TxPool and imported into a second node; (c) every single-field corruption of every block offered before the good block (invariance of head/TD/state/every database key) and re-derived variants afterwards. (d) per chain one pair of competing forks that put different code (same deployer and nonce, different init code and code length), constructor storage, storage values, balances and a one-sided selfdestruct at the SAME identities and read them in later blocks through a probe contract (EXTCODESIZE, EXTCODECOPY, BALANCE, CALL, SSTORE of what was read): eleven orders of arrival of both forks on one running node (A then B, B then A, interleaved; batches / per block; archive / pruning; restarts; after a failed block of the other fork), every block compared with a cold node that only saw its fork. The worker's pending sets in (b) contain transactions that pass the pool but fail inside ApplyTransaction (overdraft by value after nonce bump and gas purchase, overdraft in Create, cannot buy gas after the previous one, gas hog, nonce gaps) at price-dependent positions, at every fork height; the header root must be the root of executing only the included transactions. All blocks are assembled on a live BlockChain (harness/cmd/c01/gen.go: makeHeader-shaped header, core.ApplyTransaction with the chain as context, engine.Finalize), so transactions can read block context: a ctx-probe kind stores BLOCKHASH of 16 fixed depths (1..12, 256, 257, own and next number) and of a chosen depth, COINBASE, TIMESTAMP, NUMBER, DIFFICULTY, GASLIMIT; fork blocks have their own timestamps/coinbases and their BLOCKHASH depths reach across the fork point; the staged configuration has Homestead at 3 and chains carry high-S transactions below it. (e) object identity: every cold import (copies decoded from RLP) is mirrored on a second node that receives the very Go objects (shared between corrupted variants, the good block, the worker and the pool) and the verdicts must agree; per height below a signer fork a block assembled under another signer schedule (EIP155 from 0: replay-protected transactions; Homestead one block later: high-S) is offered cold, as the assembled objects, after a pass through a TxPool, and again after a refused import. (f) crash histories: a counting database stops the import after N writes (a batch is one write) inside a random block (every boundary of one block per mode in the thorough tier), archive and pruning; the node is restarted without Stop and offered the whole chain; head, canonical chain, receipts and state must be those of a node that never crashed. A case is distinct and non-trivial by (chain, history | block, corruption | builder parent and included count | fork history | object case, height, source of the objects)."
	c.Assume("header verification and uncle verification are the faker engine's (all rules of C13 except the seal); seals are not checked")
	c.Assume("database = aquadb.MemDatabase; restart = BlockChain.Stop + NewBlockChain on the same database")
	c.Assume("Go map iteration orders and cache contents actually taken are sampled (one run per history); the theorems cover all of them in the model")
	if c.Replay != "" {
		runReplay(c, m, c.Replay)
		c.Finish()
		return
	}
	nchains := c.Scale(2, 12)
	specs := configs()
	for idx := 0; idx < nchains; idx++ {
		spec := specs[idx%len(specs)]
		var ch *chainT
		pan, pv := vh.CatchPanic(func() { ch = buildChain(c, spec, 13) })
		if pan {
			c.Fatal("chain generation panicked (chain %d, %s): %v", idx, spec.name, pv)
		}
		nk := 0
		for _, ks := range ch.kinds {
			nk += len(ks)
		}
		c.Count(fmt.Sprintf("chain:%s", spec.name))
		for _, ks := range ch.kinds {
			if len(ks) == 0 {
				c.Count("block:empty")
			}
			for _, k := range ks {
				c.Count("tx-kind:" + k)
			}
		}
		t0 := time.Now()
		partCommitments(c, m, ch)
		t1 := time.Now()
		partDeterminism(c, m, ch, idx)
		t2 := time.Now()
		// the worker builds the block at every height where the rules change, and at a random one
		ks := map[int]bool{1 + c.Rng.Intn(len(ch.blocks)-1): true}
		for _, hf := range []int{4, 5, 7, 8} {
			if h := spec.cfg.GetHF(hf); h != nil && h.Int64() >= 2 && int(h.Int64()) <= len(ch.blocks) {
				ks[int(h.Int64())-1] = true
			}
		}
		if c.Thorough() {
			for k := 1; k < len(ch.blocks); k++ {
				ks[k] = true
			}
		}
		for k := 1; k < len(ch.blocks); k++ {
			if ks[k] {
				partBuilder(c, m, ch, idx, k)
			}
		}
		// several consecutive mined blocks, started just below every height where the header-hash version
		// changes (hard forks 5, 8, 9) and at a random height
		starts := map[int]bool{}
		if c.Thorough() {
			starts[2+c.Rng.Intn(len(ch.blocks)-3)] = true
		}
		for _, hf := range []int{5, 8, 9} {
			if h := spec.cfg.GetHF(hf); h != nil && h.Int64() >= 3 && int(h.Int64()) <= len(ch.blocks) {
				starts[int(h.Int64())-1] = true
			}
		}
		for k := 2; k < len(ch.blocks); k++ {
			if starts[k] {
				hf5 := spec.cfg.GetHF(5)
				partMiningRun(c, m, ch, idx, k, 3, hf5 != nil && int(hf5.Int64())-1 == k, nil)
			}
		}
		t3 := time.Now()
		tnote := fmt.Sprintf("chain %d timing: commitments %.1fs histories %.1fs builder %.1fs", idx, t1.Sub(t0).Seconds(), t2.Sub(t1).Seconds(), t3.Sub(t2).Seconds())
		cache, cname := &core.CacheConfig{Disabled: true}, "archive"
		if idx%3 == 2 {
			cache, cname = nil, "pruning-default"
		}
		partCorruption(c, m, ch, idx, cache, cname)
		t4 := time.Now()
		partForks(c, spec, idx)
		t45 := time.Now()
		partCrash(c, ch, idx)
		partCrashScan(c, ch, idx)
		c.Note("chain %d crash %.1fs", idx, time.Since(t45).Seconds())
		t5 := time.Now()
		partObjects(c, spec)
		c.Note("chain %d objects %.1fs", idx, time.Since(t5).Seconds())
		c.Note("%s corruption %.1fs forks %.1fs", tnote, t4.Sub(t3).Seconds(), time.Since(t4).Seconds())
		if idx == 0 {
			c.Sample(map[string]interface{}{"config": spec.name, "kinds_per_block": ch.kinds, "fork_at": ch.forkAt, "fork_len": len(ch.fork)})
		}
	}
	partDeriveLarge(c)
	c.Finish()
}
