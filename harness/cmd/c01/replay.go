// replay.go — `-replay FILE` (./check C01 --replay replays/C01-….json): re-runs the concrete
// input of a recorded violation instead of generating.  A replay object carries the RLP of
// the chain(s) and, depending on the oracle, of the offending block, the crash point or the
// fork pair; everything else (genesis, configuration) is the harness's fixture.
package main

import (
	"encoding/json"
	"fmt"
	"os"
	"strings"

	"gitlab.com/aquachain/aquachain/core"
	"gitlab.com/aquachain/aquachain/core/types"
	"gitlab.com/aquachain/aquachain/rlp"
	"gitlab.com/aquachain/aquachain/verifharness/vh"
)

func decodeBlocks(c *vh.Ctx, cfgspec cfgSpec, v interface{}) []*types.Block {
	var out []*types.Block
	add := func(s string) {
		b := new(types.Block)
		if err := rlp.DecodeBytes(vh.UnHex(s), b); err != nil {
			c.Fatal("replay: cannot decode a block: %v", err)
		}
		b.SetVersion(cfgspec.cfg.GetBlockVersion(b.Number()))
		out = append(out, b)
	}
	switch x := v.(type) {
	case string:
		add(x)
	case []interface{}:
		for _, e := range x {
			if s, ok := e.(string); ok {
				add(s)
			}
		}
	}
	return out
}

func runReplay(c *vh.Ctx, m *vh.Model, file string) {
	raw, err := os.ReadFile(file)
	if err != nil {
		c.Fatal("replay: %v", err)
	}
	var obj struct {
		Signature string                 `json:"signature"`
		Replay    map[string]interface{} `json:"replay"`
	}
	if err := json.Unmarshal(raw, &obj); err != nil || obj.Replay == nil {
		c.Fatal("replay: not a C01 replay file: %v", err)
	}
	rp := obj.Replay
	spec := configs()[0]
	for _, s := range configs() {
		if name, _ := rp["config"].(string); name == s.name || strings.HasPrefix(name, strings.SplitN(s.name, "-", 2)[0]) {
			spec = s
		}
	}
	c.Res.Rule = "replay of " + file + " (signature " + obj.Signature + ")"
	c.Note("replay: configuration %s", spec.name)
	// a fork pair
	if rp["fork_A_rlp"] != nil {
		ch := &chainT{spec: spec, gspec: genesisSpec(spec.cfg)}
		tw := &twinT{ch: ch, prefix: decodeBlocks(c, spec, rp["prefix_rlp"])}
		tw.fork[0], tw.fork[1] = decodeBlocks(c, spec, rp["fork_A_rlp"]), decodeBlocks(c, spec, rp["fork_B_rlp"])
		runForkHistories(c, tw, 0, false)
		return
	}
	ch := &chainT{spec: spec, gspec: genesisSpec(spec.cfg), blocks: decodeBlocks(c, spec, rp["main_chain_rlp"])}
	ref := newNode(c, ch, &core.CacheConfig{Disabled: true})
	ch.genesis = ref.bc.Genesis()
	if err := ref.insert(ch.blocks); err != nil {
		c.Violate("valid-chain-refused/replay", fmt.Sprintf("the recorded chain is refused in one batch by a fresh archive node: %v", err), rp)
		ref.bc.Stop()
		return
	}
	for _, b := range ch.blocks {
		ch.receipts = append(ch.receipts, ref.bc.GetReceiptsByHash(b.Hash()))
		ch.kinds = append(ch.kinds, nil)
	}
	want := observe(ref.bc, ch, false)
	ref.bc.Stop()
	if len(ch.blocks) > 0 {
		partCommitments(c, m, ch)
		partDeterminism(c, m, ch, 0)
	}
	// a crash point
	if h, _ := rp["history"].(string); h == "crash" {
		cache, cname := &core.CacheConfig{Disabled: true}, "archive"
		if s, _ := rp["cache"].(string); s != "archive" {
			cache, cname = nil, "pruning-default"
		}
		num := func(k string) int { f, _ := rp[k].(float64); return int(f) }
		runCrashPoint(c, ch, 0, cache, cname, num("crash_in_block")-1, num("after_writes"), max(num("batch_blocks"), 1), want)
		if cname == "archive" && num("crash_in_block") == len(ch.blocks) {
			partCrashScan(c, ch, 0)
		}
	}
	// a mining run: mined again with the worker of the tree under test, from the recorded height with the
	// recorded possible uncles
	if f, ok := rp["mining_run_start"].(float64); ok && rp["possible_uncles_rlp"] != nil {
		partMiningRun(c, m, ch, 0, int(f), 3, true, decodeBlocks(c, spec, rp["possible_uncles_rlp"]))
		return
	}
	// offending block(s): offered on their parent to a fresh node (cold copy, mirrored with the same
	// objects, and once more after a pass through a transaction pool)
	for _, key := range []string{"corrupted_block_rlp", "built_block_rlp", "block_rlp", "blocks_rlp"} {
		for _, blk := range decodeBlocks(c, spec, rp[key]) {
			offerReplay(c, m, ch, blk, obj.Signature, key)
		}
	}
}

func offerReplay(c *vh.Ctx, m *vh.Model, ch *chainT, blk *types.Block, sig, key string) {
	num := int(blk.NumberU64())
	if num < 1 || num-1 > len(ch.blocks) || (num >= 2 && ch.blocks[num-2].Hash() != blk.ParentHash()) {
		c.Note("replay: block %d (%s) does not sit on the recorded main chain (built on a sibling?); not offered", num, key)
		return
	}
	n := newNode(c, ch, &core.CacheConfig{Disabled: true})
	withMirror(c, ch, n, "replay")
	defer n.stop()
	if err := n.insert(ch.blocks[:num-1]); err != nil {
		c.Fatal("replay: prefix refused: %v", err)
	}
	parentRoot := n.bc.CurrentBlock().Root()
	before := snapshot(n)
	req := importReq(n, blk, parentRoot)
	err := n.insert([]*types.Block{blk})
	verdict := classify(err)
	c.Eval("replay:"+key+":"+verdict, fmt.Sprintf("%x", blk.Hash()))
	c.Note("replay: block %d (%s) offered on its parent: %s (%v)", num, key, verdict, err)
	enc, _ := rlp.EncodeToBytes(blk)
	rep := replayOf(ch, map[string]interface{}{key: vh.Hex(enc), "verdict": verdict})
	modelAns := m.Ask(req)
	if err == nil {
		c.Correspond("InsertChain(replay)~import_block", key, fmt.Sprintf("accepted %s %d", vh.Hex(blk.Root().Bytes()), blk.GasUsed()), modelAns)
		if strings.HasPrefix(sig, "corrupted-block-accepted") || strings.HasPrefix(sig, "block-with-wrong-signer") {
			c.Violate(sig, "reproduced: the recorded block is accepted on its parent", rep)
		}
		return
	}
	if verdict != "rejected engine" && verdict != "panic" {
		c.Correspond("InsertChain(replay)~import_block", key, verdict, firstTwo(modelAns))
	}
	if strings.HasPrefix(sig, "own-block") || strings.HasPrefix(sig, "builder-") || strings.HasPrefix(sig, "valid-") {
		c.Violate(sig, fmt.Sprintf("reproduced: the recorded block is refused: %v", err), rep)
	}
	after := snapshot(n)
	for k, v := range before {
		if after[k] != v {
			rep["changed"], rep["before"], rep["after"] = k, clip(v), clip(after[k])
			c.Violate("rejected-block-changed-"+k+"/replay", "reproduced: refusing the recorded block changed "+k, rep)
		}
	}
	// the same block after its transactions went through a transaction pool
	n3 := newNode(c, ch, &core.CacheConfig{Disabled: true})
	defer n3.bc.Stop()
	n3.insert(ch.blocks[:num-1])
	cp := decodedCopy(ch.spec.cfg, blk)
	pcfg := core.DefaultTxPoolConfig
	pcfg.Journal = ""
	pool := core.NewTxPool(pcfg, ch.spec.cfg, n3.bc)
	pool.AddRemotes(cp.Transactions())
	pool.Stop()
	if wv := classify(n3.insertSame([]*types.Block{cp})); wv != verdict {
		rep["cold"], rep["warm"] = verdict, wv
		c.Violate("warm-objects-change-verdict/objects-pushed-through-txpool/replay", fmt.Sprintf("reproduced: cold copy %q, objects that went through a TxPool %q", verdict, wv), rep)
	}
}
