// gen.go — block assembly on a real BlockChain.  core.BlockGen executes transactions
// without a chain context (BLOCKHASH would dereference a nil chain), so the harness
// assembles its blocks the way the node's own builders do, but over a live chain:
// header as chain_makers.makeHeader builds it, hard-fork state mutations at the fork
// heights, core.ApplyTransaction with the chain as ChainContext (so BLOCKHASH walks the
// real ancestry of the block under construction), engine.Finalize.  The builder node
// holds only the ancestors of the block being built, all canonical, so that what the
// generator computes does not depend on how the node resolves ancestry on side chains.
package main

import (
	"fmt"
	"math/big"

	"gitlab.com/aquachain/aquachain/common"
	"gitlab.com/aquachain/aquachain/consensus/misc"
	"gitlab.com/aquachain/aquachain/core"
	"gitlab.com/aquachain/aquachain/core/state"
	"gitlab.com/aquachain/aquachain/core/types"
	"gitlab.com/aquachain/aquachain/core/vm"
)

type blockGen struct {
	n        *node
	parent   *types.Block
	header   *types.Header
	statedb  *state.StateDB
	gasPool  *core.GasPool
	txs      []*types.Transaction
	receipts []*types.Receipt
	uncles   []*types.Header
}

func (b *blockGen) SetCoinbase(a common.Address) {
	if len(b.txs) > 0 {
		panic("coinbase must be set before adding transactions")
	}
	b.header.Coinbase = a
}
func (b *blockGen) SetExtra(d []byte)               { b.header.Extra = d }
func (b *blockGen) Number() *big.Int                { return new(big.Int).Set(b.header.Number) }
func (b *blockGen) AddUncle(h *types.Header)        { b.uncles = append(b.uncles, h) }
func (b *blockGen) TxNonce(a common.Address) uint64 { return b.statedb.GetNonce(a) }

// OffsetTime moves the timestamp (and with it the difficulty), as BlockGen.OffsetTime does
func (b *blockGen) OffsetTime(seconds int64) {
	b.header.Time.Add(b.header.Time, big.NewInt(seconds))
	b.header.Difficulty = b.n.bc.Engine().CalcDifficulty(b.n.bc, b.header.Time.Uint64(), b.parent.Header(), nil)
}

// TryTx applies a transaction; an inapplicable one is reported and leaves no trace
func (b *blockGen) TryTx(tx *types.Transaction) error {
	if b.gasPool == nil {
		b.gasPool = new(core.GasPool).AddGas(b.header.GasLimit)
	}
	snap := b.statedb.Snapshot()
	used := b.header.GasUsed
	b.statedb.Prepare(tx.Hash(), common.Hash{}, len(b.txs))
	receipt, _, err := core.ApplyTransaction(b.n.cfg, b.n.bc, &b.header.Coinbase, b.gasPool, b.statedb, b.header, tx, &b.header.GasUsed, vm.Config{})
	if err != nil {
		b.statedb.RevertToSnapshot(snap)
		b.header.GasUsed = used
		return err
	}
	b.txs = append(b.txs, tx)
	b.receipts = append(b.receipts, receipt)
	return nil
}
func (b *blockGen) AddTx(tx *types.Transaction) {
	if err := b.TryTx(tx); err != nil {
		panic(fmt.Sprintf("generator produced an inapplicable transaction at height %v: %v", b.header.Number, err))
	}
}

// assemble builds one block on `parent` (which the node must hold together with its
// ancestors and its state) and returns it with its receipts; nothing is written
func assemble(n *node, parent *types.Block, f func(b *blockGen)) (*types.Block, types.Receipts) {
	cfg := n.cfg
	statedb, err := n.bc.StateAt(parent.Root())
	if err != nil {
		panic(fmt.Sprintf("assemble: parent state: %v", err))
	}
	num := new(big.Int).Add(parent.Number(), common.Big1)
	tm := new(big.Int).Add(parent.Time(), big.NewInt(240))
	h := &types.Header{
		ParentHash: parent.Hash(),
		Coinbase:   parent.Coinbase(),
		Difficulty: n.bc.Engine().CalcDifficulty(n.bc, tm.Uint64(), parent.Header(), nil),
		GasLimit:   core.CalcGasLimit(parent),
		Number:     num,
		Time:       tm,
		Version:    cfg.GetBlockVersion(num),
	}
	b := &blockGen{n: n, parent: parent, header: h, statedb: statedb}
	if hf4 := cfg.GetHF(4); hf4 != nil && hf4.Cmp(num) == 0 {
		misc.ApplyHardFork4(statedb)
	}
	if hf5 := cfg.GetHF(5); hf5 != nil && hf5.Cmp(num) == 0 {
		misc.ApplyHardFork5(statedb)
	}
	if f != nil {
		f(b)
	}
	blk, err := n.bc.Engine().Finalize(n.bc, h, statedb, b.txs, b.uncles, b.receipts)
	if err != nil {
		panic(fmt.Sprintf("assemble: finalize: %v", err))
	}
	return blk, b.receipts
}

// extend assembles a block on the node's chain and imports it there
func extend(n *node, parent *types.Block, f func(b *blockGen)) (*types.Block, types.Receipts) {
	blk, rs := assemble(n, parent, f)
	if err := n.insert([]*types.Block{blk}); err != nil {
		panic(fmt.Sprintf("generator: the assembled block %d was refused by its own builder node: %v", blk.NumberU64(), err))
	}
	return blk, rs
}
