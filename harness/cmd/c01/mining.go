// mining.go — part (g): the worker mines SEVERAL CONSECUTIVE blocks (real commitNewWork through the
// hook) on chains with side blocks around every height where the header-hash version changes, so
// that the uncle bookkeeping of makeCurrent / commitUncle is exercised: an uncle included at height
// h stays a candidate at h+1..h+7 and must not be taken again; candidates are recent siblings, too
// old ones, and the miner's own earlier blocks.  After EVERY mined block: RLP round trip into a
// second node (real validator + engine.VerifyUncles) and into the mining node itself; at the end
// the whole sequence into a fresh node.  The chosen uncle set is compared with the model's
// select_uncles / verify_uncles_struct (Import/UncleModel.v).
package main

import (
	"fmt"
	"math/big"
	"sort"
	"strings"

	"gitlab.com/aquachain/aquachain/core"
	"gitlab.com/aquachain/aquachain/core/types"
	"gitlab.com/aquachain/aquachain/opt/miner"
	"gitlab.com/aquachain/aquachain/rlp"
	"gitlab.com/aquachain/aquachain/verifharness/vh"
)

func uncleReason(err error) string {
	s := err.Error()
	switch {
	case strings.Contains(s, "duplicate uncle"):
		return "duplicate-uncle"
	case strings.Contains(s, "uncle is ancestor"):
		return "uncle-is-ancestor"
	case strings.Contains(s, "uncle's parent"):
		return "dangling-uncle"
	case strings.Contains(s, "too many uncles"):
		return "too-many-uncles"
	}
	return strings.ReplaceAll(strings.TrimPrefix(classify(err), "rejected "), " ", "-")
}

func uncleIdentity(ch *chainT, u *types.Header) string {
	cp := types.CopyHeader(u)
	h := cp.SetVersion(byte(ch.spec.cfg.GetBlockVersion(cp.Number)))
	return vh.Hex(h[:])
}

func partMiningRun(c *vh.Ctx, m *vh.Model, ch *chainT, idx, k, nblocks int, freshBatch bool, possible []*types.Block) {
	r := c.Rng
	cfg := ch.spec.cfg
	a := newNode(c, ch, &core.CacheConfig{Disabled: true})
	b := newNode(c, ch, nil)
	defer func() { a.bc.Stop(); b.bc.Stop() }()
	if a.insert(ch.blocks[:k]) != nil || b.insert(ch.blocks[:k]) != nil {
		return
	}
	pcfg := core.DefaultTxPoolConfig
	pcfg.Journal = ""
	pool := core.NewTxPool(pcfg, cfg, a.bc)
	defer pool.Stop()
	// possible uncles: siblings of the last 8 ancestors (the oldest is too old), never a child of the head
	if possible == nil {
		for j := max(0, k-9); j < k; j++ {
			possible = append(possible, ch.side[j])
		}
	}
	var possRLP []string
	for _, p := range possible {
		e, _ := rlp.EncodeToBytes(p)
		possRLP = append(possRLP, vh.Hex(e))
	}
	var mined []*types.Block
	g := &txgen{r: r, cfg: cfg}
	for step := 0; step < nblocks; step++ {
		head := a.bc.CurrentBlock()
		next := new(big.Int).Add(head.Number(), big.NewInt(1))
		st, _ := a.bc.State()
		var txs types.Transactions
		for from := 0; from < 4; from++ {
			if r.Bool() {
				tx, _ := g.make(from, st.GetNonce(addrs[from]), next, false)
				txs = append(txs, tx)
			}
		}
		pool.AddRemotes(txs)
		var blk *types.Block
		pan, pv := vh.CatchPanic(func() {
			blk, _ = miner.VerifBuildBlock(cfg, a.bc.Engine(), minerA, []byte("mine"), &backend{a.bc, pool, a.db}, possible)
		})
		rep := replayOf(ch, map[string]interface{}{"parent_number": head.NumberU64(), "mining_run_start": k, "step": step})
		if pan || blk == nil {
			c.Violate("builder-panics-or-fails", fmt.Sprintf("worker.commitNewWork panicked or produced no block (mining run from %d, step %d): %v", k, step, pv), rep)
			return
		}
		sealed, _ := a.bc.Engine().Seal(a.bc, blk, nil)
		enc, _ := rlp.EncodeToBytes(sealed)
		rep["built_block_rlp"] = vh.Hex(enc)
		var earlier []string
		for _, mb := range mined {
			e, _ := rlp.EncodeToBytes(mb)
			earlier = append(earlier, vh.Hex(e))
		}
		rep["earlier_mined_rlp"] = earlier   // the blocks mined before it, in order
		rep["possible_uncles_rlp"] = possRLP // the side blocks offered to the worker (replay re-mines with them)
		c.Eval(fmt.Sprintf("mining-run:height=%d/version=%d/uncles=%d/candidates=%d", sealed.NumberU64(), cfg.GetBlockVersion(sealed.Number()), len(sealed.Uncles()), len(possible)),
			fmt.Sprintf("mine/%d/%d/%d", idx, k, step))
		// the model's selection on the same sets: ancestors from the parent back with the identities of
		// their uncles, candidates with the taken one first (the map order is the model's argument)
		var ancs []string
		for cur, i := head, 0; cur != nil && i < 7; i++ {
			us := "_"
			if len(cur.Uncles()) > 0 {
				var l []string
				for _, u := range cur.Uncles() {
					l = append(l, uncleIdentity(ch, u))
				}
				us = strings.Join(l, "|")
			}
			ancs = append(ancs, vh.Hex(cur.Hash().Bytes())+"/"+us)
			if cur.NumberU64() == 0 {
				break
			}
			cur = a.bc.GetBlock(cur.ParentHash(), cur.NumberU64()-1)
		}
		taken := map[string]bool{}
		var cands []string
		for _, u := range sealed.Uncles() {
			id := uncleIdentity(ch, u)
			taken[id] = true
			cands = append(cands, id+"/"+vh.Hex(u.ParentHash[:]))
		}
		var others []string
		for _, p := range possible {
			if id := vh.Hex(p.Hash().Bytes()); !taken[id] {
				others = append(others, id+"/"+vh.Hex(p.ParentHash().Bytes()))
			}
		}
		sort.Strings(others)
		cands = append(cands, others...)
		obs := "picked=none"
		if len(sealed.Uncles()) > 0 {
			var l []string
			for _, u := range sealed.Uncles() {
				l = append(l, uncleIdentity(ch, u))
			}
			obs = "picked=" + strings.Join(l, ",")
		}
		hf5 := "0"
		if cfg.IsHF(5, sealed.Number()) {
			hf5 = "1"
		}
		cl := "_"
		if len(cands) > 0 {
			cl = strings.Join(cands, ",")
		}
		ans := m.Ask(fmt.Sprintf("uncles %s %s %s %s", hf5, strings.Join(ancs, ","), cl, vh.Hex(sealed.Hash().Bytes())))
		f := strings.Fields(ans)
		c.Correspond("worker.commitUncle(selection)~select_uncles", fmt.Sprintf("%s mining run from %d step %d", ch.spec.name, k, step), obs, f[0])
		// every mined block must be accepted by import: a second node (RLP copy, mirrored with the objects) ...
		err := b.insert([]*types.Block{sealed})
		verdict := "ok"
		if err != nil {
			verdict = uncleReason(err)
			rep["error"] = err.Error()
			c.Violate("mined-block-rejected-by-import/"+verdict, fmt.Sprintf("mining run from block %d: the block mined at height %d (step %d, %d uncle(s)) is rejected by a second node: %v", k, sealed.NumberU64(), step, len(sealed.Uncles()), err), rep)
		}
		// the model's VerifyUncles structure on what Go selected must agree with the engine's verdict
		if len(f) == 3 && f[0] == obs {
			want := "verify=ok"
			if err != nil && (verdict == "duplicate-uncle" || verdict == "uncle-is-ancestor" || verdict == "dangling-uncle" || verdict == "too-many-uncles") {
				want = "verify=" + strings.TrimSuffix(strings.TrimSuffix(strings.TrimPrefix(verdict, "uncle-is-"), "-uncle"), "-uncles")
			}
			if err == nil || want != "verify=ok" {
				c.Correspond("VerifyUncles(structure)~verify_uncles_struct", fmt.Sprintf("%s mining run from %d step %d", ch.spec.name, k, step), want, f[2])
			}
		}
		if err != nil {
			return
		}
		// ... and the mining node itself (the real miner writes it without validation; the next block builds on it)
		if err := a.insert([]*types.Block{sealed}); err != nil {
			rep["error"] = err.Error()
			c.Violate("mined-block-rejected-by-import/self/"+uncleReason(err), fmt.Sprintf("the mining node rejects its own block at height %d: %v", sealed.NumberU64(), err), rep)
			return
		}
		mined = append(mined, sealed)
		possible = append(possible, sealed) // the miner's own earlier blocks stay in its candidate set
	}
	// the whole sequence into a fresh node, one batch (one run per chain in the quick tier)
	if !c.Thorough() && !freshBatch {
		return
	}
	fresh := newNode(c, ch, &core.CacheConfig{Disabled: true})
	defer fresh.bc.Stop()
	if err := fresh.insert(append(append([]*types.Block{}, ch.blocks[:k]...), mined...)); err != nil {
		c.Violate("mined-block-rejected-by-import/fresh-batch/"+uncleReason(err), fmt.Sprintf("mining run from block %d: a fresh node rejects prefix + %d mined blocks in one batch: %v", k, len(mined), err),
			replayOf(ch, map[string]interface{}{"mining_run_start": k, "error": err.Error()}))
	}
}
