package main

// Large-list commitments: DeriveSha over lists long enough that the RLP of the index
// changes shape (0 -> 0x80, 1..127 -> one byte, 128.. -> 0x81 xx, 256.. -> 0x82 xx xx).
// The blocks of the generated chains hold a handful of transactions, so the index
// encodings above 0x7f are only reached here.  Two model-independent oracles:
//  (a) the root equals the root of a trie built with hand-encoded canonical index keys;
//  (b) the root depends on every entry (replacing entry j changes the root).

import (
	"fmt"

	"gitlab.com/aquachain/aquachain/common"
	"gitlab.com/aquachain/aquachain/core/types"
	"gitlab.com/aquachain/aquachain/crypto"
	"gitlab.com/aquachain/aquachain/trie"
	"gitlab.com/aquachain/aquachain/verifharness/vh"
)

type rawList [][]byte

func (l rawList) Len() int            { return len(l) }
func (l rawList) GetRlp(i int) []byte { return l[i] }

// canonical RLP of an unsigned index, written out by hand (independent of package rlp)
func indexKey(i int) []byte {
	switch {
	case i == 0:
		return []byte{0x80}
	case i < 0x80:
		return []byte{byte(i)}
	case i < 0x100:
		return []byte{0x81, byte(i)}
	case i < 0x10000:
		return []byte{0x82, byte(i >> 8), byte(i)}
	default:
		return []byte{0x83, byte(i >> 16), byte(i >> 8), byte(i)}
	}
}

func refRoot(l rawList) common.Hash {
	t := new(trie.Trie)
	for i := range l {
		t.Update(indexKey(i), l[i])
	}
	return t.Hash()
}

func partDeriveLarge(c *vh.Ctx) {
	sizes := []int{1, 2, 3, 16, 17, 127, 128, 129, 130, 131, 200, 255, 256, 257, 300}
	if c.Thorough() {
		sizes = append(sizes, 511, 512, 513, 1000, 4097, 65535, 65536, 65537)
	}
	for _, n := range sizes {
		l := make(rawList, n)
		for i := range l {
			// an RLP string of 33 bytes: 0xa0 + 32-byte digest, distinct per (n, i)
			d := crypto.Keccak256([]byte(fmt.Sprintf("entry %d of %d", i, n)))
			l[i] = append([]byte{0xa0}, d...)
		}
		c.Count("derive-large:" + bucket(n))
		root := types.DeriveSha(l)
		c.Eval("derive-large", fmt.Sprintf("n=%d", n))
		if want := refRoot(l); root != want {
			c.Violate("derive-sha-large-list-root", fmt.Sprintf("DeriveSha over %d entries is %x, the trie over canonical index keys has root %x", n, root, want),
				map[string]interface{}{"entries": n, "entry": "0xa0 ++ keccak256(\"entry <i> of <n>\")"})
			continue
		}
		// sensitivity: the root commits to every entry
		probe := map[int]bool{0: true, 1: true, n - 1: true, n / 2: true, 127: true, 128: true, 129: true, 255: true, 256: true}
		for j := range probe {
			if j < 0 || j >= n {
				continue
			}
			old := l[j]
			l[j] = append([]byte{0xa0}, crypto.Keccak256(old)...)
			if types.DeriveSha(l) == root {
				c.Violate("derive-sha-ignores-entry", fmt.Sprintf("replacing entry %d of %d leaves DeriveSha unchanged", j, n),
					map[string]interface{}{"entries": n, "replaced": j})
			}
			l[j] = old
		}
	}
}
