// objects.go — part (e) of the C01 harness: "arrival" includes the identity and the prior
// use of the Go objects.  The same block on the same parent must get the same verdict
// whether the node is handed cold copies decoded from RLP or the *types.Block /
// *types.Transaction objects that were already used elsewhere and carry caches (sender
// cache filled by another signer, hash, size): objects assembled on a chain with another
// configuration (other signer at that height), pushed through a TxPool (always the EIP155
// signer), offered before and refused.  Around every height below a signer fork the block
// carries transactions that are only valid under the other signer (replay-protected below
// the EIP155 height; high-S at the Homestead height), so its correct verdict is "refused".
package main

import (
	"fmt"
	"math/big"
	"strings"

	"gitlab.com/aquachain/aquachain/core"
	"gitlab.com/aquachain/aquachain/core/types"
	"gitlab.com/aquachain/aquachain/params"
	"gitlab.com/aquachain/aquachain/rlp"
	"gitlab.com/aquachain/aquachain/verifharness/vh"
)

func decodedCopy(cfg *params.ChainConfig, b *types.Block) *types.Block {
	enc, _ := rlp.EncodeToBytes(b)
	nb := new(types.Block)
	if err := rlp.DecodeBytes(enc, nb); err != nil {
		panic(err)
	}
	nb.SetVersion(cfg.GetBlockVersion(nb.Number()))
	return nb
}

// objectCase: on top of the first h blocks of the (valid) chain, a block is assembled under the
// alternative configuration `alt` by mk; it is then offered to nodes running the real configuration
func objectCase(c *vh.Ctx, ch *chainT, name string, alt *params.ChainConfig, h int, mustRefuse bool, mk func(b *blockGen)) {
	altCh := &chainT{spec: cfgSpec{name, alt}, gspec: genesisSpec(alt)}
	an := newNode(c, altCh, &core.CacheConfig{Disabled: true})
	defer an.bc.Stop()
	if err := an.insert(ch.blocks[:h]); err != nil {
		c.Count("objects:prefix-not-valid-under-alternative-config(skipped)")
		return
	}
	parent := an.bc.CurrentBlock()
	var blk *types.Block
	if pan, pv := vh.CatchPanic(func() { blk, _ = assemble(an, parent, mk) }); pan {
		c.Fatal("object case %s at height %d: cannot assemble: %v", name, h+1, pv)
	}
	if err := an.insertSame([]*types.Block{blk}); err != nil {
		c.Fatal("object case %s: the assembling node refuses its block: %v", name, err)
	}
	enc, _ := rlp.EncodeToBytes(blk)
	real := func() *node {
		n := newNode(c, ch, &core.CacheConfig{Disabled: true})
		if err := n.insert(ch.blocks[:h]); err != nil {
			c.Fatal("object case: real node refuses the valid prefix: %v", err)
		}
		return n
	}
	verdicts := map[string]string{}
	order := []string{"cold-copy", "objects-assembled-under-other-config", "objects-pushed-through-txpool", "objects-of-a-refused-import-offered-again", "cold-copy-after-warm-offers"}
	// cold
	n1 := real()
	verdicts["cold-copy"] = classify(n1.insertSame([]*types.Block{decodedCopy(ch.spec.cfg, blk)}))
	n1.bc.Stop()
	// the very objects assembled under the other configuration
	n2 := real()
	verdicts["objects-assembled-under-other-config"] = classify(n2.insertSame([]*types.Block{blk}))
	// ... offered again after that import (refused or not), then a cold copy on the same node
	verdicts["objects-of-a-refused-import-offered-again"] = classify(n2.insertSame([]*types.Block{blk}))
	if verdicts["objects-assembled-under-other-config"] == "accepted" {
		verdicts["objects-of-a-refused-import-offered-again"] = "accepted" // known block the second time
	}
	n2.bc.Stop()
	// fresh objects whose transactions went through a transaction pool of a real-config node first
	n3 := real()
	cp := decodedCopy(ch.spec.cfg, blk)
	pcfg := core.DefaultTxPoolConfig
	pcfg.Journal = ""
	pool := core.NewTxPool(pcfg, ch.spec.cfg, n3.bc)
	pool.AddRemotes(cp.Transactions())
	pool.Stop()
	verdicts["objects-pushed-through-txpool"] = classify(n3.insertSame([]*types.Block{cp}))
	if verdicts["objects-pushed-through-txpool"] != "accepted" {
		verdicts["cold-copy-after-warm-offers"] = classify(n3.insertSame([]*types.Block{decodedCopy(ch.spec.cfg, blk)}))
	} else {
		verdicts["cold-copy-after-warm-offers"] = verdicts["cold-copy"]
	}
	n3.bc.Stop()
	for _, k := range order {
		c.Eval(fmt.Sprintf("objects:%s/%s", name, k), fmt.Sprintf("obj/%s/%d/%s/%x", name, h, k, blk.Hash().Bytes()[:6]))
		rep := replayOf(ch, map[string]interface{}{"prefix_blocks": h, "block_rlp": vh.Hex(enc), "assembled_under": name, "verdicts": verdicts})
		if verdicts[k] != verdicts["cold-copy"] {
			c.Violate("warm-objects-change-verdict/"+k+"/"+name, fmt.Sprintf("block %d (%s): cold copy decoded from RLP: %q; %s: %q", h+1, name, verdicts["cold-copy"], k, verdicts[k]), rep)
		}
		if mustRefuse && verdicts[k] == "accepted" {
			c.Violate("block-with-wrong-signer-transactions-accepted/"+k+"/"+name, fmt.Sprintf("block %d carries a transaction that is not valid under the signer of its height (%s) and was accepted (%s)", h+1, name, k), rep)
		}
	}
}

func partObjects(c *vh.Ctx, spec cfgSpec) {
	r := c.Rng
	cfg := spec.cfg
	if (cfg.EIP155Block == nil || cfg.EIP155Block.Sign() == 0) && (cfg.HomesteadBlock == nil || cfg.HomesteadBlock.Sign() == 0) {
		return // no signer fork above genesis in this configuration
	}
	// a prefix chain that is valid under every signer schedule
	genNoHighS = true
	var ch *chainT
	pan, pv := vh.CatchPanic(func() { ch = buildChain(c, spec, 10) })
	genNoHighS = false
	if pan {
		c.Fatal("prefix chain for the object cases: %v", pv)
	}
	transfer := func(b *blockGen, signer types.Signer, from int, highS bool) {
		tx := types.NewTransaction(b.TxNonce(addrs[from]), freshPool[r.Intn(len(freshPool))], big.NewInt(int64(1+r.Intn(9))), 21000, big.NewInt(2000000000), nil)
		var stx *types.Transaction
		var err error
		if highS {
			stx, err = signHighS(tx, keys[from])
		} else {
			stx, err = types.SignTx(tx, signer, keys[from])
		}
		if err != nil {
			panic(err)
		}
		b.AddTx(stx)
	}
	// replay-protected transactions below the EIP155 height: assembled on a chain where EIP155 is active from 0
	if e := cfg.EIP155Block; e != nil && e.Sign() > 0 {
		alt := *cfg
		alt.EIP155Block = big.NewInt(0)
		for h := 0; h+1 < int(e.Int64()) && h < len(ch.blocks); h++ {
			objectCase(c, ch, "eip155-from-0", &alt, h, true, func(b *blockGen) {
				b.SetCoinbase(minerB)
				b.SetExtra([]byte("objects"))
				transfer(b, types.NewEIP155Signer(cfg.ChainId), 0, false)
				if r.Bool() {
					transfer(b, types.HomesteadSigner{}, 1, false)
				}
				if r.Bool() {
					transfer(b, types.NewEIP155Signer(cfg.ChainId), 2, false)
				}
			})
		}
		// at and above the height the same construction is a valid block: every history must accept it
		if h := int(e.Int64()) - 1; h < len(ch.blocks) {
			objectCase(c, ch, "eip155-from-0(at-fork-height)", &alt, h, false, func(b *blockGen) {
				b.SetCoinbase(minerB)
				transfer(b, types.NewEIP155Signer(cfg.ChainId), 0, false)
				transfer(b, types.HomesteadSigner{}, 1, false)
			})
		}
	}
	// high-S transactions at the Homestead height: assembled on a chain where Homestead comes one block later
	if hs := cfg.HomesteadBlock; hs != nil && hs.Sign() > 0 && int(hs.Int64()) <= len(ch.blocks) {
		alt := *cfg
		alt.HomesteadBlock = new(big.Int).Add(hs, big.NewInt(1))
		objectCase(c, ch, "homestead-one-block-later", &alt, int(hs.Int64())-1, true, func(b *blockGen) {
			b.SetCoinbase(minerB)
			transfer(b, nil, 0, true)
			transfer(b, types.HomesteadSigner{}, 1, false)
		})
		// one block below, high-S is valid under both: accepted by every history
		if hs.Int64() >= 2 {
			objectCase(c, ch, "homestead-one-block-later(below)", &alt, int(hs.Int64())-2, false, func(b *blockGen) {
				b.SetCoinbase(minerB)
				transfer(b, nil, 0, true)
			})
		}
	}
	_ = strings.TrimSpace
}
