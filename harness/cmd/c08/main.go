// c08: EVM instructions compute what the specification defines.
//
// Correspondence between core/vm (the real interpreter, vm.NewEVM + Call on tiny
// programs, and the gas / analysis functions through the -tags verif exports) and
// the Coq model coq/Evm/OpsModel.v, plus the direct oracle: the OpsSpec.v
// (Yellow-Paper) value of the same operands, evaluated by the driver, compared
// with what the implementation returned.
package main

import (
	"encoding/json"
	"fmt"
	"math/big"
	"os"
	"strings"

	"gitlab.com/aquachain/aquachain/aquadb"
	"gitlab.com/aquachain/aquachain/common"
	"gitlab.com/aquachain/aquachain/core"
	"gitlab.com/aquachain/aquachain/core/state"
	"gitlab.com/aquachain/aquachain/core/vm"
	"gitlab.com/aquachain/aquachain/crypto"
	"gitlab.com/aquachain/aquachain/params"
	"gitlab.com/aquachain/aquachain/verifharness/vh"
)

// ---------------------------------------------------------------- numbers

func pow2(n uint) *big.Int { return new(big.Int).Lsh(big.NewInt(1), n) }
func sub(a *big.Int, k int64) *big.Int {
	return new(big.Int).Sub(a, big.NewInt(k))
}
func add(a *big.Int, k int64) *big.Int {
	return new(big.Int).Add(a, big.NewInt(k))
}

var tt256 = pow2(256)

// the boundary lattice B of DESIGN.md C08
var lattice = []*big.Int{
	big.NewInt(0), big.NewInt(1), big.NewInt(2), big.NewInt(31), big.NewInt(32), big.NewInt(255), big.NewInt(256), big.NewInt(257),
	pow2(63), sub(pow2(64), 1), pow2(64), sub(pow2(255), 1), pow2(255), add(pow2(255), 1), sub(pow2(256), 2), sub(pow2(256), 1),
}

// 10-point sub-lattice for arity 3
var lattice3 = []*big.Int{
	big.NewInt(0), big.NewInt(1), big.NewInt(2), big.NewInt(257), sub(pow2(64), 1), pow2(64),
	sub(pow2(255), 1), pow2(255), sub(pow2(256), 2), sub(pow2(256), 1),
}

func hx(b *big.Int) string { return "0x" + b.Text(16) }

func rand256(r *vh.RNG) *big.Int {
	switch r.Intn(6) {
	case 0: // small
		return new(big.Int).SetUint64(r.Uint64() % 600)
	case 1: // near a power of two
		p := pow2(uint(r.Intn(257)))
		p.Add(p, big.NewInt(int64(r.Intn(3))-1))
		if p.Sign() < 0 || p.Cmp(tt256) >= 0 {
			return new(big.Int)
		}
		return p
	case 2: // random width
		b := new(big.Int).SetBytes(r.Bytes(32))
		return b.Rsh(b, uint(r.Intn(256)))
	case 3: // negative small (two's complement)
		return new(big.Int).Sub(tt256, new(big.Int).SetUint64(1+r.Uint64()%600))
	default:
		return new(big.Int).SetBytes(r.Bytes(32))
	}
}

// ---------------------------------------------------------------- instructions covered

type opdef struct {
	name  string
	code  byte
	arity int
}

var ops = []opdef{
	{"ADD", 0x01, 2}, {"MUL", 0x02, 2}, {"SUB", 0x03, 2}, {"DIV", 0x04, 2}, {"SDIV", 0x05, 2}, {"MOD", 0x06, 2},
	{"SMOD", 0x07, 2}, {"ADDMOD", 0x08, 3}, {"MULMOD", 0x09, 3}, {"EXP", 0x0a, 2}, {"SIGNEXTEND", 0x0b, 2},
	{"LT", 0x10, 2}, {"GT", 0x11, 2}, {"SLT", 0x12, 2}, {"SGT", 0x13, 2}, {"EQ", 0x14, 2}, {"ISZERO", 0x15, 1},
	{"AND", 0x16, 2}, {"OR", 0x17, 2}, {"XOR", 0x18, 2}, {"NOT", 0x19, 1}, {"BYTE", 0x1a, 2},
	{"SHL", 0x1b, 2}, {"SHR", 0x1c, 2}, {"SAR", 0x1d, 2},
}

// ---------------------------------------------------------------- running the real interpreter

var contractAddr = common.StringToAddress("contract")

type world struct{ st *state.StateDB }

// the block hash the test environment serves for block n (non-zero, depends on n)
func blockHashOf(n uint64) common.Hash {
	return common.BytesToHash(crypto.Keccak256([]byte(fmt.Sprint(n))))
}

func newWorld() *world {
	st, err := state.New(common.Hash{}, state.NewDatabase(aquadb.NewMemDatabase()))
	if err != nil {
		panic(err)
	}
	st.CreateAccount(contractAddr)
	return &world{st}
}

type runres struct {
	ret     []byte
	used    uint64
	errs    string // "" | "invalid-opcode" | "err" | "panic: .."
	errtext string
}

// run executes code at the given mainnet height with the given gas.
func (w *world) run(cfg *params.ChainConfig, block int64, code, input []byte, gas uint64) (r runres) {
	w.st.SetCode(contractAddr, code)
	ctx := vm.Context{CanTransfer: core.CanTransfer, Transfer: core.Transfer, GetHash: blockHashOf,
		Origin: common.Address{}, Coinbase: common.Address{}, BlockNumber: big.NewInt(block), Time: big.NewInt(1000),
		Difficulty: big.NewInt(1), GasLimit: gas, GasPrice: big.NewInt(1)}
	env := vm.NewEVM(ctx, w.st, cfg, vm.Config{})
	p, pv := vh.CatchPanic(func() {
		ret, left, err := env.Call(vm.AccountRef(common.Address{}), contractAddr, input, gas, new(big.Int))
		r.ret, r.used = ret, gas-left
		if err != nil {
			r.errtext = err.Error()
			if strings.HasPrefix(r.errtext, "invalid opcode") {
				r.errs = "invalid-opcode"
			} else {
				r.errs = "err"
			}
		}
	})
	if p {
		r.errs = fmt.Sprintf("panic: %v", pv)
	}
	return r
}

func push32(code []byte, v *big.Int) []byte {
	code = append(code, 0x7f)
	b := v.Bytes()
	code = append(code, make([]byte, 32-len(b))...)
	return append(code, b...)
}

// PUSH32 c PUSH32 b PUSH32 a OP PUSH1 0 MSTORE PUSH1 32 PUSH1 0 RETURN
func opProgram(o opdef, args []*big.Int) []byte {
	var code []byte
	for i := len(args) - 1; i >= 0; i-- {
		code = push32(code, args[i])
	}
	code = append(code, o.code)
	return append(code, 0x60, 0x00, 0x52, 0x60, 0x20, 0x60, 0x00, 0xf3)
}

// gas of everything around OP: pushes + PUSH1 + MSTORE(3 + 3 for one word of memory) + 2 PUSH1 + RETURN
func opOverhead(arity int) uint64 { return uint64(3*arity) + 3 + 6 + 3 + 3 + 0 }

const (
	blockSpring   = 40000 // mainnet: HF5 (22800) and HF7 (36050) active, gas table HF1
	blockSpringB  = 30000 // HF5 active, Byzantium rules (HF7) not yet
	blockPreHF5   = 20000 // homestead instruction set, gas table HF1
	blockEarliest = 1000  // homestead instruction set, gas table Homestead (ExpByte 10)
	progGas       = 10000000
)

type opcase struct {
	o     opdef
	args  []*big.Int
	class string
}

func (k opcase) text() string {
	s := k.o.name
	for _, a := range k.args {
		s += " " + hx(a)
	}
	return s
}

func parseKV(ans string) (m, s string) {
	// "m=<..> s=<..>" where each part may contain spaces
	i := strings.Index(ans, " s=")
	if !strings.HasPrefix(ans, "m=") || i < 0 {
		return "?" + ans, "?"
	}
	return ans[2:i], ans[i+3:]
}

func checkOps(c *vh.Ctx, m *vh.Model, w *world, cases []opcase, block int64, gtn string) {
	reqs := make([]string, 0, 2*len(cases))
	for _, k := range cases {
		a := ""
		for _, x := range k.args {
			a += " " + hx(x)
		}
		reqs = append(reqs, fmt.Sprintf("op 0x%02x%s", k.o.code, a), fmt.Sprintf("opgas 0x%02x %s%s", k.o.code, gtn, a))
	}
	answers := m.AskAll(reqs)
	for i, k := range cases {
		r := w.run(params.MainnetChainConfig, block, opProgram(k.o, k.args), nil, progGas)
		mval, sval := parseKV(answers[2*i])
		mgas, sgas := parseKV(answers[2*i+1])
		obs := r.errs
		if r.errs == "" {
			obs = hx(new(big.Int).SetBytes(r.ret))
			if len(r.ret) != 32 {
				obs = "badlen " + vh.Hex(r.ret)
			}
		}
		c.Eval(fmt.Sprintf("op@%d/%s/%s", block, k.o.name, k.class), fmt.Sprintf("%d %s", block, k.text()))
		c.Correspond("interpreter "+k.o.name+" result~exec_arith", k.text(), obs, mval)
		ogas := "err"
		if r.errs == "" {
			ogas = "ok " + hx(new(big.Int).SetUint64(r.used-opOverhead(k.o.arity)))
		}
		c.Correspond("interpreter "+k.o.name+" gas~opgas", k.text(), ogas, mgas)
		// direct oracle: implementation against the specification value
		if r.errs != "" {
			c.Violate(fmt.Sprintf("op-fails@%d/%s", block, k.text()), "valid instruction on a sufficient stack ends in "+r.errs+" "+r.errtext, replayOp(k, obs, sval))
		} else if obs != sval {
			sig := "op/" + k.text()
			if k.o.name == "SAR" && k.args[1].Sign() == 0 && k.args[0].Cmp(big.NewInt(256)) >= 0 && obs == hx(sub(pow2(256), 1)) && sval == "0x0" {
				sig = "sar-zero-value-shift-ge-256"
			}
			c.Violate(sig, fmt.Sprintf("%s returns %s, the specification defines %s", k.text(), obs, sval), replayOp(k, obs, sval))
		}
		if r.errs == "" && ogas != "ok "+sgas {
			c.Violate("opgas/"+k.text(), fmt.Sprintf("%s charges %s, the specification defines %s", k.text(), ogas, sgas), replayOp(k, ogas, sgas))
		}
	}
}

func replayOp(k opcase, observed, expected string) interface{} {
	args := []string{}
	for _, a := range k.args {
		args = append(args, hx(a))
	}
	return map[string]interface{}{"kind": "op", "op": k.o.name, "args": args, "block": blockSpring, "config": "mainnet",
		"program": vh.Hex(opProgram(k.o, k.args)), "observed": observed, "expected": expected}
}

func genOpCases(c *vh.Ctx) []opcase {
	var cases []opcase
	thorough := c.Thorough()
	for _, o := range ops {
		switch o.arity {
		case 1:
			for _, a := range lattice {
				cases = append(cases, opcase{o, []*big.Int{a}, "lattice"})
			}
		case 2:
			for ia, a := range lattice {
				for ib, b := range lattice {
					if o.name == "EXP" && !thorough {
						// the extracted model multiplies 256-bit numbers in unary-coded binary: keep the
						// quick tier to exponents whose square-and-multiply is short or collapses
						if ib >= 8 && !(ia <= 2 || ia == 15 || (ib <= 10 && ia%3 == 0)) {
							continue
						}
					}
					cases = append(cases, opcase{o, []*big.Int{a, b}, "lattice"})
				}
			}
		case 3:
			for _, a := range lattice3 {
				for _, b := range lattice3 {
					for _, z := range lattice3 {
						cases = append(cases, opcase{o, []*big.Int{a, b, z}, "lattice"})
					}
				}
			}
		}
		// width / index / shift operands: every small first operand against sign- and byte-boundary values
		if o.name == "SIGNEXTEND" || o.name == "BYTE" {
			vals := []*big.Int{big.NewInt(0x7f), big.NewInt(0x80), big.NewInt(0xff), big.NewInt(0x8000), big.NewInt(0x7fff), sub(pow2(255), 1), pow2(255), sub(pow2(256), 1),
				new(big.Int).SetBytes(c.Rng.Bytes(32)), new(big.Int).SetBytes(c.Rng.Bytes(32))}
			for b := int64(0); b <= 33; b++ {
				for _, v := range vals {
					cases = append(cases, opcase{o, []*big.Int{big.NewInt(b), v}, "index"})
				}
				k := uint(8 * (b + 1))
				if k <= 256 { // a value whose sign bit of the b-byte field is set / clear
					cases = append(cases, opcase{o, []*big.Int{big.NewInt(b), sub(pow2(k-1), 0)}, "index"})
					cases = append(cases, opcase{o, []*big.Int{big.NewInt(b), sub(pow2(k-1), 1)}, "index"})
				}
			}
		}
		if o.name == "SHL" || o.name == "SHR" || o.name == "SAR" {
			vals := []*big.Int{big.NewInt(0), big.NewInt(1), sub(pow2(255), 1), pow2(255), add(pow2(255), 1), sub(pow2(256), 1), new(big.Int).SetBytes(c.Rng.Bytes(32))}
			for _, sh := range []int64{0, 1, 7, 8, 63, 64, 65, 127, 128, 254, 255, 256, 257, 511, 512, 65536} {
				for _, v := range vals {
					cases = append(cases, opcase{o, []*big.Int{big.NewInt(sh), v}, "shift"})
				}
			}
		}
		// narrowing lattice on the operand the Go code narrows (index / shift / width / exponent)
		switch o.name {
		case "BYTE", "SIGNEXTEND", "SHL", "SHR", "SAR":
			vals := []*big.Int{sub(pow2(256), 1), pow2(255), new(big.Int).SetBytes(c.Rng.Bytes(32))}
			for _, h := range highBits([]int64{0, 1, 3, 30, 31, 32, 255}, nil) {
				for _, v := range vals {
					cases = append(cases, opcase{o, []*big.Int{h, v}, "highbits"})
				}
			}
		case "EXP":
			for _, h := range highBits([]int64{0, 1, 3}, []*big.Int{big.NewInt(1), big.NewInt(2)}) {
				cases = append(cases, opcase{o, []*big.Int{big.NewInt(3), h}, "highbits"}, opcase{o, []*big.Int{add(pow2(128), 1), h}, "highbits"})
			}
			for _, h := range highBits([]int64{0, 1}, []*big.Int{pow2(63), pow2(191)}) {
				cases = append(cases, opcase{o, []*big.Int{big.NewInt(2), h}, "highbits"}, opcase{o, []*big.Int{sub(pow2(256), 1), h}, "highbits"})
			}
		}
		n := c.Scale(60, 3000)
		if o.name == "EXP" {
			n = c.Scale(4, 300)
		}
		if o.name == "MULMOD" || o.name == "ADDMOD" {
			n = c.Scale(40, 3000)
		}
		for i := 0; i < n; i++ {
			args := make([]*big.Int, o.arity)
			for j := range args {
				args[j] = rand256(c.Rng)
			}
			if o.name == "EXP" && !thorough {
				args[1] = new(big.Int).Rsh(args[1], 192) // <= 64-bit exponents in the quick tier
			}
			if (o.name == "SHL" || o.name == "SHR" || o.name == "SAR" || o.name == "BYTE" || o.name == "SIGNEXTEND") && c.Rng.Chance(70) {
				args[0] = big.NewInt(int64(c.Rng.Intn(300)))
			}
			cases = append(cases, opcase{o, args, "random"})
		}
	}
	return cases
}

// ---------------------------------------------------------------- opcode validity per epoch

func checkValidity(c *vh.Ctx, m *vh.Model, w *world) {
	type epoch struct {
		block int64
		iset  string
	}
	for _, e := range []epoch{{blockEarliest, "homestead"}, {blockPreHF5, "homestead"}, {blockSpringB, "spring"}, {blockSpring, "spring"}} {
		sel := vm.VerifSelectedTable(params.MainnetChainConfig, big.NewInt(e.block))
		c.Correspond("NewInterpreter table~select_iset(mainnet)", fmt.Sprint(e.block), sel,
			strings.Fields(m.Ask(fmt.Sprintf("select 0 36050 none 22800 3600 %d", e.block)))[0])
		for op := 0; op < 256; op++ {
			var code []byte
			for i := 0; i < 17; i++ {
				code = append(code, 0x60, 0x00)
			}
			code = append(code, byte(op))
			r := w.run(params.MainnetChainConfig, e.block, code, nil, progGas)
			obs := "true"
			if r.errs == "invalid-opcode" {
				obs = "false"
			} else if strings.HasPrefix(r.errs, "panic") {
				obs = r.errs
				c.Violate(fmt.Sprintf("opcode-panic/0x%02x@%d", op, e.block), "interpreter panics", map[string]interface{}{"kind": "validity", "op": op, "block": e.block, "panic": r.errs})
			}
			want := m.Ask(fmt.Sprintf("valid %s 0x%02x", e.iset, op))
			c.Eval("validity/"+e.iset, fmt.Sprintf("%d/%02x", e.block, op))
			if !c.Correspond("interpreter accepts opcode~spec_valid", fmt.Sprintf("block %d opcode 0x%02x", e.block, op), obs, want) {
				c.Violate(fmt.Sprintf("valid-opcode-set/0x%02x@%d", op, e.block),
					fmt.Sprintf("opcode 0x%02x at mainnet block %d: interpreter valid=%s, prescribed %s", op, e.block, obs, want),
					map[string]interface{}{"kind": "validity", "op": op, "block": e.block, "observed": obs, "expected": want})
			}
		}
	}
}

// ---------------------------------------------------------------- gas functions (through the exports)

var sizes = []uint64{0, 1, 31, 32, 33, 63, 64, 65, 1024, 1 << 16, 1<<22 + 5, 1<<32 - 1, 1 << 32, 0x1FFFFFFFE0, 0x1FFFFFFFE1, 1 << 37,
	1<<37 + 1, 0x3FFFFFFFE0, 0xffffffffe0, 0xffffffffe1, 1 << 40, 1 << 63, 1<<64 - 32, 1<<64 - 31, 1<<64 - 1}

func cmem(w uint64) uint64 { return 3*w + w*w/512 }

func u(x uint64) string { return fmt.Sprintf("0x%x", x) }

func checkGasFunctions(c *vh.Ctx, m *vh.Model) {
	// toWordSize
	for _, n := range sizes {
		got := vm.VerifToWordSize(n)
		ans := m.Ask("wordsize " + u(n))
		mv, sv := ans, ""
		if i := strings.Index(ans, " s="); i >= 0 {
			mv, sv = ans[:i], ans[i+3:]
		}
		c.Eval("gas/toWordSize", u(n))
		c.Correspond("toWordSize~toWordSize", u(n), u(got), mv)
		if u(got) != sv {
			c.Violate("toWordSize/"+u(n), "toWordSize differs from ceil(n/32)", map[string]interface{}{"kind": "wordsize", "n": u(n), "observed": u(got), "expected": sv})
		}
	}
	// memoryGasCost on memories of w0 words
	memWords := []uint64{0, 1, 2, 33, 1024}
	var extra []uint64
	for i := 0; i < c.Scale(300, 20000); i++ {
		x := c.Rng.Uint64() >> uint(c.Rng.Intn(64))
		extra = append(extra, x)
	}
	for _, w0 := range memWords {
		for _, n := range append(append([]uint64{}, sizes...), extra...) {
			fee, last, failed := vm.VerifMemoryGasCost(32*w0, cmem(w0), n)
			obs := "err"
			if !failed {
				obs = fmt.Sprintf("ok %s %s", u(fee), u(last))
			}
			cas := fmt.Sprintf("memLen=%d last=%d newMemSize=%s", 32*w0, cmem(w0), u(n))
			c.Eval("gas/memoryGasCost", cas)
			c.Correspond("memoryGasCost~memoryGasCost", cas, obs, m.Ask(fmt.Sprintf("memgas %d %d %s", 32*w0, cmem(w0), u(n))))
			// oracle: C_mem(max(w0, ceil(n/32))) - C_mem(w0), error only when that cannot be paid with 64-bit gas
			spec := strings.Fields(m.Ask(fmt.Sprintf("specmem %d %s", w0, u(n))))
			specFee, _ := new(big.Int).SetString(strings.TrimPrefix(spec[0], "0x"), 16)
			if !failed && new(big.Int).SetUint64(fee).Cmp(specFee) != 0 {
				sig := "memgas/" + cas
				if wds := (n + 31) / 32; n > 0x1FFFFFFFE0 && n <= 0xffffffffe0 && fee == 3*wds+(wds*wds)/512-cmem(w0) {
					sig = "memory-gas-square-wraps" // exactly the uint64-wrapped square, nothing else
				}
				c.Violate(sig, fmt.Sprintf("memoryGasCost(%s) = %s, the formula gives %s", cas, u(fee), spec[0]),
					map[string]interface{}{"kind": "memgas", "memLen": 32 * w0, "lastGasCost": cmem(w0), "newMemSize": u(n), "observed": obs, "expected": spec[0]})
			}
			if failed && specFee.BitLen() <= 60 {
				c.Violate("memgas-spurious-error/"+cas, "memoryGasCost fails although the formula fits", map[string]interface{}{"kind": "memgas", "memLen": 32 * w0, "lastGasCost": cmem(w0), "newMemSize": u(n), "observed": obs, "expected": spec[0]})
			}
		}
	}
	// dynamic gas functions: memory size ms (already rounded by the interpreter), length operand x
	lens := []*big.Int{big.NewInt(0), big.NewInt(1), big.NewInt(31), big.NewInt(32), big.NewInt(33), big.NewInt(1 << 20), sub(pow2(64), 1), pow2(64), sub(pow2(256), 1),
		new(big.Int).SetUint64(1<<64 - 31), new(big.Int).SetUint64(0x5555555555555555), new(big.Int).SetUint64(0x5555555555555556), new(big.Int).SetUint64(0x2000000000000000)}
	type gf struct {
		name  string
		depth int // position of the length operand on the stack (Back(depth)); -1 none
	}
	gfs := []gf{{"gasSha3", 1}, {"gasCallDataCopy", 2}, {"gasReturnDataCopy", 2}, {"gasCodeCopy", 2}, {"gasExtCodeCopy", 3}, {"gasMLoad", -1}, {"gasMStore", -1},
		{"gasMStore8", -1}, {"gasCreate", -1}, {"gasReturn", -1}, {"gasRevert", -1}, {"gasLog0", 1}, {"gasLog1", 1}, {"gasLog2", 1}, {"gasLog3", 1}, {"gasLog4", 1}, {"gasExp", 1}}
	mss := []uint64{0, 32, 64, 1 << 20, 0x1FFFFFFFE0, 0xffffffffe0, 0xffffffffe0 + 32}
	for _, g := range gfs {
		for _, gtn := range []string{"homestead", "hf1"} {
			gt := params.GasTableHomestead
			if gtn == "hf1" {
				gt = params.GasTableHF1
			}
			for _, ms := range mss {
				xs := lens
				if g.depth < 0 {
					xs = lens[:1]
				}
				if g.name == "gasExp" {
					xs = append(append([]*big.Int{}, lattice...), lens...)
					if ms != 0 {
						continue
					}
				}
				for _, x := range xs {
					stack := make([]*big.Int, 8)
					for i := range stack {
						stack[i] = new(big.Int)
					}
					if g.depth >= 0 {
						stack[g.depth] = x
					}
					gas, last, ec := vm.VerifGas(g.name, gt, stack, 64, cmem(2), ms)
					obs := "err"
					if ec == 0 {
						obs = fmt.Sprintf("ok %s %s", u(gas), u(last))
					} else if ec != 1 {
						obs = fmt.Sprintf("err-class-%d", ec)
					}
					cas := fmt.Sprintf("%s %s memLen=64 ms=%s x=%s", g.name, gtn, u(ms), hx(x))
					ans := m.Ask(fmt.Sprintf("gasfn %s %s 64 %d %s %s", g.name, gtn, cmem(2), u(ms), hx(x)))
					mv, sv := ans, ""
					if i := strings.Index(ans, " s="); i >= 0 {
						mv, sv = ans[:i], ans[i+3:]
					}
					c.Eval("gas/"+g.name, cas)
					c.Correspond(g.name+"~"+strings.TrimRight(g.name, "01234"), cas, obs, mv)
					// oracle on the proved domain (memory below 2^32 words): memory fee + instruction formula
					if ms <= 0x1FFFFFFFE0 {
						sp := strings.Fields(m.Ask(fmt.Sprintf("specmem 2 %s", u(ms))))
						fee, _ := new(big.Int).SetString(strings.TrimPrefix(sp[0], "0x"), 16)
						dyn, _ := new(big.Int).SetString(strings.TrimPrefix(sv, "0x"), 16)
						total := new(big.Int).Add(fee, dyn)
						want := "err"
						// a length operand beyond 64 bits cannot be paid for (its memory alone costs > 2^64):
						// the function is specified to fail there (gas_mem_words_spec / gasLog_spec)
						lenFits := g.depth < 0 || g.name == "gasExp" || x.BitLen() <= 64
						if total.BitLen() <= 64 && lenFits {
							want = "ok " + hx(total)
						}
						got := "err"
						if ec == 0 {
							got = "ok " + u(gas)
						}
						if got != want {
							c.Violate("gasfn/"+cas, fmt.Sprintf("%s gives %s, the formula gives %s", cas, got, want),
								map[string]interface{}{"kind": "gasfn", "case": cas, "observed": got, "expected": want})
						}
					}
				}
			}
		}
	}
	// callGas
	costs := []*big.Int{big.NewInt(0), big.NewInt(1), big.NewInt(2300), big.NewInt(1 << 40), sub(pow2(64), 1), pow2(64), sub(pow2(256), 1)}
	avails := []uint64{0, 1, 63, 64, 65, 700, 10000, 1 << 40, 1<<64 - 1}
	for _, gtn := range []string{"hf1", "pre150"} {
		gt := params.GasTableHF1
		if gtn == "pre150" {
			gt.CreateBySuicide = 0
		}
		for _, av := range avails {
			for _, base := range []uint64{0, 1, 700, 9700, 1 << 41} {
				for _, cost := range costs {
					g, failed := vm.VerifCallGas(gt, av, base, cost)
					obs := "err"
					if !failed {
						obs = "ok " + u(g)
					}
					cas := fmt.Sprintf("%s avail=%d base=%d cost=%s", gtn, av, base, hx(cost))
					ans := m.Ask(fmt.Sprintf("callgas %s %d %d %s", gtn, av, base, hx(cost)))
					i := strings.Index(ans, " s=")
					c.Eval("gas/callGas", cas)
					c.Correspond("callGas~callGas", cas, obs, ans[:i])
					if gtn == "hf1" && base <= av && obs != "ok "+ans[i+3:] {
						c.Violate("callgas/"+cas, "callGas differs from min(L(avail-base), requested)", map[string]interface{}{"kind": "callgas", "case": cas, "observed": obs, "expected": ans[i+3:]})
					}
				}
			}
		}
	}
}

// ---------------------------------------------------------------- memory instructions at program level

type memop struct {
	name   string
	code   byte
	gasfn  string
	layout string // which operands: "o" offset only (len fixed), "ol" offset,len, "oxl" memOffset, dataOffset, len
	fixed  int64
}

var memops = []memop{
	{"MLOAD", 0x51, "gasMLoad", "o", 32}, {"MSTORE", 0x52, "gasMStore", "ov", 32}, {"MSTORE8", 0x53, "gasMStore8", "ov", 1},
	{"SHA3", 0x20, "gasSha3", "ol", 0}, {"CALLDATACOPY", 0x37, "gasCallDataCopy", "oxl", 0}, {"CODECOPY", 0x39, "gasCodeCopy", "oxl", 0},
	{"LOG0", 0xa0, "gasLog0", "ol", 0}, {"RETURN", 0xf3, "gasReturn", "ol", 0},
}

func checkMemoryPrograms(c *vh.Ctx, m *vh.Model, w *world) {
	offs := []*big.Int{big.NewInt(0), big.NewInt(1), big.NewInt(31), big.NewInt(32), big.NewInt(33), big.NewInt(1000), big.NewInt(65536), big.NewInt(3000000),
		pow2(32), sub(pow2(64), 32), sub(pow2(64), 1), pow2(64), sub(pow2(256), 1)}
	lens := []*big.Int{big.NewInt(0), big.NewInt(1), big.NewInt(32), big.NewInt(33), big.NewInt(100000), pow2(32), sub(pow2(64), 1), pow2(64), sub(pow2(256), 1)}
	// narrowing lattice: bits above 64 / 32 over a small remainder must be overflow / out-of-gas, never a wrap
	for _, h := range highBits([]int64{0, 1}, []*big.Int{big.NewInt(1), pow2(191)}) {
		offs = append(offs, h)
	}
	lens = append(lens, add(pow2(64), 1), add(pow2(64), 32), add(pow2(255), 32), add(pow2(32), 1))
	for _, mo := range memops {
		ls := lens
		if mo.fixed > 0 {
			ls = []*big.Int{big.NewInt(mo.fixed)}
		}
		for _, off := range offs {
			for _, l := range ls {
				var code []byte
				npush := 0
				switch mo.layout {
				case "o":
					code = push32(code, off)
					npush = 1
				case "ov":
					code = push32(push32(code, big.NewInt(0xab)), off)
					npush = 2
				case "ol":
					code = push32(push32(code, l), off)
					npush = 2
				case "oxl":
					code = push32(push32(push32(code, l), big.NewInt(0)), off)
					npush = 3
				}
				code = append(code, mo.code, 0x00)
				r := w.run(params.MainnetChainConfig, blockSpring, code, nil, progGas)
				// model: memory size of the step, then the gas function on an empty memory
				want := "consumes-all"
				ms := m.Ask(fmt.Sprintf("memsize %s %s", hx(off), hx(l)))
				if strings.HasPrefix(ms, "ok ") {
					msv := strings.Fields(ms)[1]
					ans := m.Ask(fmt.Sprintf("gasfn %s hf1 0 0 %s %s", mo.gasfn, msv, hx(l)))
					if strings.HasPrefix(ans, "ok ") {
						g, _ := new(big.Int).SetString(strings.TrimPrefix(strings.Fields(ans)[1], "0x"), 16)
						total := new(big.Int).Add(g, big.NewInt(int64(3*npush)))
						if total.Cmp(big.NewInt(progGas)) <= 0 {
							want = "ok " + hx(total)
						}
					}
				}
				obs := "consumes-all"
				if r.errs == "" {
					obs = "ok " + u(r.used)
				} else if r.used != progGas || strings.HasPrefix(r.errs, "panic") {
					obs = fmt.Sprintf("%s used=%d", r.errs, r.used)
				}
				cas := fmt.Sprintf("%s off=%s len=%s", mo.name, hx(off), hx(l))
				c.Eval("memprog/"+mo.name, cas)
				if !c.Correspond("interpreter "+mo.name+" gas~run_memorySize+"+mo.gasfn, cas, obs, want) && strings.HasPrefix(r.errs, "panic") {
					c.Violate("memprog-panic/"+cas, "interpreter panics", map[string]interface{}{"kind": "memprog", "case": cas, "program": vh.Hex(code), "panic": r.errs})
				}
			}
		}
	}
}

// two successive expansions: the second is charged only for the growth (lastGasCost bookkeeping)
func checkMemoryTwice(c *vh.Ctx, m *vh.Model, w *world) {
	offs := []int64{0, 1, 31, 32, 33, 64, 1000, 4096, 100000, 700000}
	for _, o1 := range offs {
		for _, o2 := range offs {
			var code []byte
			code = push32(push32(code, big.NewInt(1)), big.NewInt(o1))
			code = append(code, 0x52)
			code = push32(push32(code, big.NewInt(2)), big.NewInt(o2))
			code = append(code, 0x52, 0x00)
			r := w.run(params.MainnetChainConfig, blockSpring, code, nil, progGas)
			// model: chain the two MSTORE steps through (memLen, lastGasCost)
			want := "?"
			ms1 := strings.Fields(m.Ask(fmt.Sprintf("memsize %d 32", o1)))
			g1 := strings.Fields(m.Ask(fmt.Sprintf("gasfn gasMStore hf1 0 0 %s 0", ms1[1])))
			ms2 := strings.Fields(m.Ask(fmt.Sprintf("memsize %d 32", o2)))
			memLen := ms1[1]
			g2 := strings.Fields(m.Ask(fmt.Sprintf("gasfn gasMStore hf1 %s %s %s 0", memLen, g1[2], ms2[1])))
			if g1[0] == "ok" && g2[0] == "ok" {
				a, _ := new(big.Int).SetString(strings.TrimPrefix(g1[1], "0x"), 16)
				b, _ := new(big.Int).SetString(strings.TrimPrefix(g2[1], "0x"), 16)
				want = "ok " + hx(new(big.Int).Add(new(big.Int).Add(a, b), big.NewInt(12)))
			}
			obs := r.errs
			if r.errs == "" {
				obs = "ok " + u(r.used)
			}
			cas := fmt.Sprintf("MSTORE@%d MSTORE@%d", o1, o2)
			c.Eval("memprog/two-expansions", cas)
			c.Correspond("interpreter MSTORE;MSTORE gas~memoryGasCost chained", cas, obs, want)
			// oracle: 4 pushes + 2 * Gverylow + C_mem(words covering both stores)
			top := o1
			if o2 > top {
				top = o2
			}
			wds := uint64(top+32+31) / 32
			spec := "ok " + u(12+6+cmem(wds))
			if obs != spec {
				c.Violate("memory-twice/"+cas, fmt.Sprintf("%s uses %s gas, the specification defines %s", cas, obs, spec),
					map[string]interface{}{"kind": "memprog", "case": cas, "program": vh.Hex(code), "observed": obs, "expected": spec})
			}
		}
	}
}

// ---------------------------------------------------------------- JUMPDEST analysis

// independent reference: scan from 0, skipping push data
func refJumpdest(code []byte, d *big.Int) bool {
	if !d.IsUint64() || d.Uint64() >= uint64(len(code)) {
		return false
	}
	for pc := uint64(0); pc < uint64(len(code)); {
		op := code[pc]
		if pc == d.Uint64() {
			return op == 0x5b
		}
		if pc > d.Uint64() {
			return false
		}
		if op >= 0x60 && op <= 0x7f {
			pc += uint64(op-0x60) + 2
		} else {
			pc++
		}
	}
	return false
}

func genCode(r *vh.RNG) []byte {
	n := []int{0, 1, 2, 7, 8, 9, 15, 16, 17, 31, 32, 33, 34, 40, 63, 64, 65, 100}[r.Intn(18)] + r.Intn(3)
	code := make([]byte, 0, n)
	for len(code) < n {
		switch r.Intn(10) {
		case 0, 1, 2:
			code = append(code, 0x5b)
		case 3, 4, 5, 6:
			code = append(code, byte(0x60+[]int{0, 1, 6, 7, 8, 15, 16, 23, 30, 31}[r.Intn(10)]))
		case 7:
			code = append(code, byte(0x5f+r.Intn(3))) // around PUSH1
		case 8:
			code = append(code, byte(0x7e+r.Intn(3))) // around PUSH32
		default:
			code = append(code, byte(r.Intn(256)))
		}
	}
	return code[:n]
}

func checkJumpdests(c *vh.Ctx, m *vh.Model, w *world) {
	huge := []*big.Int{sub(pow2(62), 1), pow2(62), pow2(63), add(pow2(64), 1), sub(pow2(256), 1)}
	for i := 0; i < c.Scale(150, 6000); i++ {
		code := genCode(c.Rng)
		hxc := vh.Hex(code)
		var bm []byte
		p, pv := vh.CatchPanic(func() { bm = vm.VerifCodeBitmap(code) })
		obs := vh.Hex(bm)
		if p {
			obs = "panic"
			c.Violate("codebitmap-panic/"+hxc, fmt.Sprintf("codeBitmap panics: %v", pv), map[string]interface{}{"kind": "jumpdest", "code": hxc})
		}
		c.Correspond("codeBitmap~codeBitmap", hxc, obs, m.Ask("bitmap "+hxc))
		var dests []*big.Int
		for d := 0; d <= len(code)+1; d++ {
			dests = append(dests, new(big.Int).SetInt64(int64(d)))
		}
		dests = append(dests, huge...)
		njd := 0
		for _, d := range dests {
			var got bool
			p, pv := vh.CatchPanic(func() { got = vm.VerifHas(code, d) })
			obs := fmt.Sprintf("ok %v", got)
			if p {
				obs = fmt.Sprintf("panic %v", pv)
			}
			c.Correspond("destinations.has~has", hxc+" "+hx(d), obs, m.Ask("has "+hxc+" "+hx(d)))
			want := refJumpdest(code, d)
			if want {
				njd++
			}
			if p || got != want {
				c.Violate("jumpdest/"+hxc+"/"+hx(d), fmt.Sprintf("has(code, %s) = %s, valid jump destination: %v", hx(d), obs, want),
					map[string]interface{}{"kind": "jumpdest", "code": hxc, "dest": hx(d), "observed": obs, "expected": want})
			}
		}
		c.Eval(fmt.Sprintf("jumpdest/len<=%d", (len(code)/32+1)*32), hxc)
		// through the interpreter: PUSH32 d JUMP in front of the code; destinations shift by 34
		if i%5 == 0 && len(code) > 0 {
			d := c.Rng.Intn(len(code))
			prog := append(append(push32(nil, new(big.Int).SetInt64(int64(d+34))), 0x56), code...)
			r := w.run(params.MainnetChainConfig, blockSpring, prog, nil, 100000)
			jumped := !(r.errs == "err" && strings.HasPrefix(r.errtext, "invalid jump destination"))
			want := refJumpdest(prog, new(big.Int).SetInt64(int64(d+34)))
			c.Eval("jumpdest/program", vh.Hex(prog))
			if jumped != want {
				c.Violate("jump-program/"+vh.Hex(prog), fmt.Sprintf("JUMP to %d accepted=%v, valid destination=%v", d+34, jumped, want),
					map[string]interface{}{"kind": "jumpprog", "program": vh.Hex(prog), "dest": d + 34})
			}
		}
	}
}

// ---------------------------------------------------------------- stack / memory / code / call-data instructions on explicit frames

func splitS(ans string) (string, string) {
	if i := strings.Index(ans, " s="); i >= 0 {
		return ans[:i], ans[i+3:]
	}
	return ans, ""
}

func stackStr(st []*big.Int) string {
	parts := make([]string, len(st))
	for i, v := range st {
		parts[i] = hx(v)
	}
	return strings.Join(parts, ",")
}

func checkFrames(c *vh.Ctx, m *vh.Model) {
	r := c.Rng
	offNear := func(n int) *big.Int { // offsets around a length n, plus far ones
		switch r.Intn(12) {
		case 0:
			return pow2(63)
		case 1:
			return sub(pow2(64), int64(1+r.Intn(40)))
		case 2:
			return sub(pow2(256), 1)
		case 3:
			return big.NewInt(int64(n + r.Intn(40) - 35))
		case 4: // bits above 64 (or 32) over a small in-range remainder
			k := []*big.Int{big.NewInt(1), big.NewInt(2), pow2(63), pow2(191)}[r.Intn(4)]
			base := []*big.Int{pow2(64), pow2(32)}[r.Intn(2)]
			v := new(big.Int).Mul(k, base)
			return v.Add(v, big.NewInt(int64(r.Intn(n+2))))
		default:
			if n <= 0 {
				return big.NewInt(0)
			}
			return big.NewInt(int64(r.Intn(n)))
		}
	}
	nonneg := func(b *big.Int) *big.Int {
		if b.Sign() < 0 {
			return new(big.Int)
		}
		return b
	}
	oracle := func(kind, cas, obs, spec string, inDomain bool) {
		if inDomain && spec != "" && !strings.HasSuffix(spec, "skip") && obs != spec {
			c.Violate("frame/"+kind+"/"+cas, fmt.Sprintf("%s %s gives %s, the specification defines %s", kind, cas, obs, spec),
				map[string]interface{}{"kind": "frame", "op": kind, "case": cas, "observed": obs, "expected": spec})
		}
	}
	for it := 0; it < c.Scale(2500, 100000); it++ {
		memLen := 32 * (1 + r.Intn(3))
		mem := r.Bytes(memLen)
		switch it % 10 {
		case 0: // MLOAD
			off := nonneg(offNear(memLen - 31))
			out, es := vm.VerifExecFrame("spring", 0x51, vm.VerifFrame{Stack: []*big.Int{off}, Mem: mem})
			obs := es
			if es == "" {
				obs = "ok " + hx(out.Stack[0])
			}
			cas := vh.Hex(mem) + " " + hx(off)
			mv, sv := splitS(m.Ask("mload " + cas))
			c.Eval("frame/MLOAD", cas)
			c.Correspond("opMload~op_MLOAD", cas, obs, mv)
			oracle("MLOAD", cas, obs, "ok "+sv, off.IsInt64() && off.Int64()+32 <= int64(memLen))
		case 1, 2: // MSTORE / MSTORE8
			op, cmd, width := byte(0x52), "mstore", 32
			if it%10 == 2 {
				op, cmd, width = 0x53, "mstore8", 1
			}
			off := nonneg(offNear(memLen - width + 1))
			v := rand256(r)
			out, es := vm.VerifExecFrame("spring", op, vm.VerifFrame{Stack: []*big.Int{off, v}, Mem: mem})
			obs := es
			if es == "" {
				obs = "ok " + vh.Hex(out.Mem)
			}
			cas := vh.Hex(mem) + " " + hx(off) + " " + hx(v)
			mv, sv := splitS(m.Ask(cmd + " " + cas))
			c.Eval("frame/"+strings.ToUpper(cmd), cas)
			c.Correspond("opM"+cmd[1:]+"~op_"+strings.ToUpper(cmd), cas, obs, mv)
			oracle(strings.ToUpper(cmd), cas, obs, "ok "+sv, off.IsInt64() && off.Int64()+int64(width) <= int64(memLen))
		case 3: // CALLDATALOAD
			input := r.Bytes(r.Intn(70))
			i := nonneg(offNear(len(input)))
			out, es := vm.VerifExecFrame("spring", 0x35, vm.VerifFrame{Stack: []*big.Int{i}, Input: input})
			obs := es
			if es == "" {
				obs = hx(out.Stack[0])
			}
			cas := vh.Hex(input) + " " + hx(i)
			mv, sv := splitS(m.Ask("cdload " + cas))
			c.Eval("frame/CALLDATALOAD", cas)
			c.Correspond("opCallDataLoad~op_CALLDATALOAD", cas, obs, mv)
			oracle("CALLDATALOAD", cas, obs, sv, true)
		case 4, 5: // CALLDATACOPY / CODECOPY
			data := r.Bytes(r.Intn(50))
			memOff := big.NewInt(int64(r.Intn(memLen)))
			l := big.NewInt(int64(r.Intn(memLen - int(memOff.Int64()) + 1)))
			if r.Chance(8) {
				l = big.NewInt(int64(memLen + 1 + r.Intn(5))) // beyond the memory: Go panics
			}
			dataOff := nonneg(offNear(len(data)))
			f := vm.VerifFrame{Stack: []*big.Int{memOff, dataOff, l}, Mem: mem, Input: data}
			op := byte(0x37)
			if it%10 == 5 {
				op = 0x39
				f.Input, f.Code = nil, data
			}
			out, es := vm.VerifExecFrame("spring", op, f)
			obs := es
			if es == "" {
				obs = "ok " + vh.Hex(out.Mem)
			}
			cas := fmt.Sprintf("%s %s %s %s %s", vh.Hex(mem), vh.Hex(data), hx(memOff), hx(dataOff), hx(l))
			mv, sv := splitS(m.Ask("datacopy " + cas))
			c.Eval(fmt.Sprintf("frame/DATACOPY-0x%02x", op), cas)
			c.Correspond("opCallDataCopy,opCodeCopy~op_DATACOPY", cas, obs, mv)
			oracle("DATACOPY", cas, obs, "ok "+sv, memOff.Int64()+l.Int64() <= int64(memLen))
		case 6: // RETURNDATACOPY
			rd := r.Bytes(r.Intn(40))
			memOff := big.NewInt(int64(r.Intn(memLen)))
			dataOff := nonneg(offNear(len(rd)))
			var l *big.Int
			switch r.Intn(6) {
			case 0:
				l = sub(pow2(64), int64(r.Intn(3)))
			case 1:
				l = new(big.Int).Sub(sub(pow2(64), 0), dataOff) // dataOffset + length = 2^64
				if l.Sign() < 0 {
					l = new(big.Int)
				}
			default:
				l = big.NewInt(int64(r.Intn(memLen - int(memOff.Int64()) + 1)))
			}
			out, es := vm.VerifExecFrame("spring", 0x3e, vm.VerifFrame{Stack: []*big.Int{memOff, dataOff, l}, Mem: mem, ReturnData: rd})
			obs := es
			if es == "" {
				obs = "ok " + vh.Hex(out.Mem)
			} else if es == "returndata-oob" {
				obs = "err"
			}
			cas := fmt.Sprintf("%s %s %s %s %s", vh.Hex(mem), vh.Hex(rd), hx(memOff), hx(dataOff), hx(l))
			c.Eval("frame/RETURNDATACOPY", cas)
			c.Correspond("opReturnDataCopy~op_RETURNDATACOPY", cas, obs, m.Ask("rdcopy "+cas))
			// oracle: out-of-bounds error exactly when dataOffset + length exceeds the buffer
			end := new(big.Int).Add(dataOff, l)
			if (end.Cmp(big.NewInt(int64(len(rd)))) > 0) != (obs == "err") {
				c.Violate("frame/RETURNDATACOPY-bounds/"+cas, "bounds error does not coincide with offset+length > len(returndata)",
					map[string]interface{}{"kind": "frame", "op": "RETURNDATACOPY", "case": cas, "observed": obs})
			}
		case 7: // PUSHn, also truncated by the end of the code
			n := 1 + r.Intn(32)
			code := r.Bytes(1 + r.Intn(45))
			pc := r.Intn(len(code))
			if r.Chance(50) && len(code) > 1 {
				pc = len(code) - 1 - r.Intn(minInt(len(code), n+2))
				if pc < 0 {
					pc = 0
				}
			}
			code[pc] = byte(0x5f + n)
			out, es := vm.VerifExecFrame("spring", byte(0x5f+n), vm.VerifFrame{Code: code, PC: uint64(pc)})
			obs := es
			if es == "" {
				obs = hx(out.Stack[0]) + " " + u(out.PC)
			}
			cas := fmt.Sprintf("%s %d %d", vh.Hex(code), pc, n)
			mv, sv := splitS(m.Ask("push " + cas))
			c.Eval("frame/PUSH", cas)
			c.Correspond("makePush~op_PUSH", cas, obs, mv)
			oracle("PUSH", cas, obs, sv+" "+u(uint64(pc+n)), true)
		case 8: // DUPn / SWAPn
			n := 1 + r.Intn(16)
			dup := r.Bool()
			depth := n + r.Intn(3)
			if !dup {
				depth++
			}
			st := make([]*big.Int, depth)
			for i := range st {
				st[i] = big.NewInt(int64(100 + i))
			}
			op, cmd := byte(0x7f+n), "dup"
			if !dup {
				op, cmd = byte(0x8f+n), "swap"
			}
			out, es := vm.VerifExecFrame("spring", op, vm.VerifFrame{Stack: st})
			obs := es
			if es == "" {
				obs = "ok " + stackStr(out.Stack)
			}
			cas := fmt.Sprintf("%d %s", n, strings.ReplaceAll(stackStr(st), ",", " "))
			mv, sv := splitS(m.Ask(cmd + " " + cas))
			c.Eval("frame/"+strings.ToUpper(cmd), cas)
			c.Correspond("makeDup,makeSwap~op_DUP,op_SWAP", cmd+" "+cas, obs, mv)
			oracle(strings.ToUpper(cmd), cas, obs, "ok "+sv, true)
		case 9: // JUMP / JUMPI
			code := genCode(r)
			pos := nonneg(offNear(len(code)))
			if r.Bool() {
				out, es := vm.VerifExecFrame("spring", 0x56, vm.VerifFrame{Stack: []*big.Int{pos}, Code: code})
				obs := "ok " + u(out.PC)
				if es != "" {
					obs = "err"
					if es == "panic" {
						obs = es
					}
				}
				cas := vh.Hex(code) + " " + hx(pos)
				c.Eval("frame/JUMP", cas)
				c.Correspond("opJump~op_JUMP", cas, obs, m.Ask("jump "+cas))
				if (obs != "err") != refJumpdest(code, pos) {
					c.Violate("frame/JUMP/"+cas, "JUMP accepted iff valid destination fails", map[string]interface{}{"kind": "frame", "op": "JUMP", "case": cas, "observed": obs})
				}
			} else {
				cond := []*big.Int{big.NewInt(0), big.NewInt(1), pow2(255), sub(pow2(256), 1)}[r.Intn(4)]
				pc := uint64(r.Intn(50))
				out, es := vm.VerifExecFrame("spring", 0x57, vm.VerifFrame{Stack: []*big.Int{pos, cond}, Code: code, PC: pc})
				obs := "ok " + u(out.PC)
				if es != "" {
					obs = "err"
					if es == "panic" {
						obs = es
					}
				}
				cas := fmt.Sprintf("%s %d %s %s", vh.Hex(code), pc, hx(pos), hx(cond))
				c.Eval("frame/JUMPI", cas)
				c.Correspond("opJumpi~op_JUMPI", cas, obs, m.Ask("jumpi "+cas))
			}
		}
	}
}

func minInt(a, b int) int {
	if a < b {
		return a
	}
	return b
}

// ---------------------------------------------------------------- SHA3, environment instructions

func checkSha3Env(c *vh.Ctx, m *vh.Model) {
	r := c.Rng
	// the Keccak of the model against crypto.Keccak256
	for _, n := range []int{0, 1, 31, 32, 33, 135, 136, 137, 200, 272} {
		b := r.Bytes(n)
		c.Correspond("crypto.Keccak256~keccakZ", vh.Hex(b), vh.Hex(crypto.Keccak256(b)), m.Ask("keccak "+vh.Hex(b)))
	}
	for it := 0; it < c.Scale(120, 6000); it++ {
		memLen := 32 * (1 + r.Intn(5))
		mem := r.Bytes(memLen)
		var off, l *big.Int
		switch r.Intn(8) {
		case 0: // empty range anywhere
			off, l = rand256(r), big.NewInt(0)
		case 1: // beyond the memory
			off, l = big.NewInt(int64(r.Intn(memLen))), big.NewInt(int64(memLen+1+r.Intn(4)))
		case 2:
			off, l = pow2(63), big.NewInt(1)
		default:
			o := r.Intn(memLen)
			off, l = big.NewInt(int64(o)), big.NewInt(int64(r.Intn(memLen-o+1)))
		}
		out, es := vm.VerifExecFrame("spring", 0x20, vm.VerifFrame{Stack: []*big.Int{off, l}, Mem: mem})
		obs := es
		if es == "" {
			obs = "ok " + hx(out.Stack[0])
		}
		cas := vh.Hex(mem) + " " + hx(off) + " " + hx(l)
		mv, sv := splitS(m.Ask("sha3 " + cas))
		c.Eval("frame/SHA3", cas)
		c.Correspond("opSha3~op_SHA3", cas, obs, mv)
		inRange := l.Sign() == 0 || (off.IsInt64() && l.IsInt64() && off.Int64()+l.Int64() <= int64(memLen))
		if inRange {
			var data []byte
			if l.Sign() != 0 {
				data = mem[off.Int64() : off.Int64()+l.Int64()]
			}
			want := "ok " + hx(new(big.Int).SetBytes(crypto.Keccak256(data)))
			if obs != want || "ok "+sv != want {
				c.Violate("frame/SHA3/"+cas, fmt.Sprintf("SHA3 gives %s, Keccak-256 of the range is %s (spec %s)", obs, want, sv),
					map[string]interface{}{"kind": "frame", "op": "SHA3", "case": cas, "observed": obs, "expected": want})
			}
		}
	}
	envOps := []byte{0x30, 0x32, 0x33, 0x34, 0x36, 0x38, 0x3a, 0x3d, 0x41, 0x42, 0x43, 0x44, 0x45, 0x58, 0x59, 0x5a}
	addr := func() common.Address { return common.BytesToAddress(r.Bytes(20)) }
	for it := 0; it < c.Scale(40, 1500); it++ {
		e := vm.VerifEnv{Address: addr(), Caller: addr(), Origin: addr(), Coinbase: addr(), CallValue: rand256(r), GasPrice: rand256(r),
			Time: rand256(r), Number: rand256(r), Difficulty: rand256(r), GasLimit: r.Uint64() >> uint(r.Intn(64)), Gas: r.Uint64() >> uint(r.Intn(64))}
		if r.Chance(20) {
			e.GasLimit, e.Gas = 1<<64-1, 1<<64-1
		}
		f := vm.VerifFrame{Input: r.Bytes(r.Intn(40)), Code: r.Bytes(1 + r.Intn(40)), ReturnData: r.Bytes(r.Intn(40)), Mem: r.Bytes(32 * r.Intn(4)), PC: uint64(r.Intn(1000))}
		for _, op := range envOps {
			out, es := vm.VerifExecFrameEnv("spring", op, f, e)
			obs := es
			if es == "" && len(out.Stack) == 1 {
				obs = "ok " + hx(out.Stack[0])
			}
			cas := fmt.Sprintf("0x%02x %s %s %s %s %s %s %s %s %s %d %s %s %s %s %d %d", op, hx(e.Address.Big()), hx(e.Caller.Big()), hx(e.CallValue),
				hx(e.Origin.Big()), hx(e.GasPrice), hx(e.Coinbase.Big()), hx(e.Time), hx(e.Number), hx(e.Difficulty), e.GasLimit,
				vh.Hex(f.Input), vh.Hex(f.Code), vh.Hex(f.ReturnData), vh.Hex(f.Mem), f.PC, e.Gas)
			mv, sv := splitS(m.Ask("env " + cas))
			c.Eval(fmt.Sprintf("frame/ENV-0x%02x", op), cas)
			c.Correspond("opAddress..opGas~op_ENV", cas, obs, mv)
			if obs != sv {
				c.Violate("frame/ENV/"+cas, fmt.Sprintf("environment instruction 0x%02x pushes %s, the specification defines %s", op, obs, sv),
					map[string]interface{}{"kind": "frame", "op": "ENV", "case": cas, "observed": obs, "expected": sv})
			}
		}
	}
}

// ---------------------------------------------------------------- state-dependent gas functions

func cfgWith(eip150, eip158 bool) *params.ChainConfig {
	cfg := &params.ChainConfig{ChainId: big.NewInt(1), HomesteadBlock: big.NewInt(0), HF: params.ForkMap{}}
	if eip150 {
		cfg.EIP150Block = big.NewInt(0)
	}
	if eip158 {
		cfg.EIP158Block = big.NewInt(0)
	}
	return cfg
}

func checkStateGas(c *vh.Ctx, m *vh.Model) {
	r := c.Rng
	tables := map[string]params.GasTable{"homestead": params.GasTableHomestead, "hf1": params.GasTableHF1, "pre150": params.GasTableHomestead}
	pre := tables["pre150"]
	pre.CreateBySuicide = 0
	tables["pre150"] = pre
	// gas-table lookups
	for _, gtn := range []string{"homestead", "hf1"} {
		var got []string
		for _, n := range []string{"gasBalance", "gasExtCodeSize", "gasSLoad"} {
			g, _, _, _, ec := vm.VerifGasState(n, vm.VerifStateArgs{Cfg: cfgWith(true, true), Block: big.NewInt(1), GT: tables[gtn]}, []*big.Int{big.NewInt(0)}, 0, 0, 0)
			got = append(got, fmt.Sprintf("%s/%d", u(g), ec))
		}
		want := strings.Fields(m.Ask("gtlookup " + gtn))
		c.Eval("stategas/lookup", gtn)
		c.Correspond("gasBalance,gasExtCodeSize,gasSLoad~gf_*", gtn, strings.Join(got, " "), want[0]+"/0 "+want[1]+"/0 "+want[2]+"/0")
	}
	// SSTORE
	vals := []*big.Int{big.NewInt(0), big.NewInt(1), pow2(255), sub(pow2(256), 1)}
	for _, cur := range vals {
		for _, y := range vals {
			g, _, _, refund, ec := vm.VerifGasState("gasSStore", vm.VerifStateArgs{Cfg: cfgWith(true, true), Block: big.NewInt(1), GT: params.GasTableHF1,
				CurrentValue: common.BigToHash(cur)}, []*big.Int{big.NewInt(7), y}, 0, 0, 0)
			obs := fmt.Sprintf("%s %s", u(g), u(refund))
			if ec != 0 {
				obs = "err"
			}
			cas := hx(cur) + " " + hx(y)
			mv, sv := splitS(m.Ask("sstore " + cas))
			c.Eval("stategas/SSTORE", cas)
			c.Correspond("gasSStore~gasSStore", cas, obs, mv)
			if obs != sv {
				c.Violate("stategas/SSTORE/"+cas, fmt.Sprintf("gasSStore gives %s, the specification %s", obs, sv), map[string]interface{}{"kind": "stategas", "case": "sstore " + cas})
			}
		}
	}
	// SELFDESTRUCT: all combinations
	for _, gtn := range []string{"homestead", "hf1"} {
		for bits := 0; bits < 64; bits++ {
			b := func(i uint) bool { return bits>>i&1 == 1 }
			bal := big.NewInt(0)
			if b(4) {
				bal = big.NewInt(5)
			}
			g, _, _, refund, ec := vm.VerifGasState("gasSuicide", vm.VerifStateArgs{Cfg: cfgWith(b(0), b(1)), Block: big.NewInt(1), GT: tables[gtn],
				AddrEmpty: b(2), AddrExist: b(3), Balance: bal, HasSuicided: b(5)}, []*big.Int{big.NewInt(9)}, 0, 0, 0)
			obs := fmt.Sprintf("%s %s", u(g), u(refund))
			if ec != 0 {
				obs = "err"
			}
			cas := fmt.Sprintf("%s %v %v %v %v %v %v", gtn, b(0), b(1), b(2), b(3), b(4), b(5))
			mv, sv := splitS(m.Ask("suicide " + cas))
			c.Eval("stategas/SELFDESTRUCT", cas)
			c.Correspond("gasSuicide~gasSuicide", cas, obs, mv)
			if obs != sv {
				c.Violate("stategas/SELFDESTRUCT/"+cas, fmt.Sprintf("gasSuicide gives %s, the specification %s", obs, sv), map[string]interface{}{"kind": "stategas", "case": "suicide " + cas})
			}
		}
	}
	// CALL family
	values := []*big.Int{big.NewInt(0), big.NewInt(1), pow2(255)}
	mss := []uint64{0, 64, 96, 1 << 20, 0x1FFFFFFFE0, 0xffffffffe0 + 32}
	avails := []uint64{0, 100, 699, 700, 701, 9700, 34700, 34800, 100000, 1 << 40, 1<<64 - 1}
	costs := []*big.Int{big.NewInt(0), big.NewInt(2300), big.NewInt(90000), big.NewInt(1 << 40), sub(pow2(64), 1), pow2(64), sub(pow2(256), 1)}
	kinds := []struct {
		kind, fn   string
		depthValue bool
	}{{"call", "gasCall", true}, {"callcode", "gasCallCode", true}, {"delegate", "gasDelegateCall", false}, {"static", "gasStaticCall", false}}
	for it := 0; it < c.Scale(2500, 60000); it++ {
		k := kinds[r.Intn(4)]
		gtn := []string{"hf1", "hf1", "homestead", "pre150"}[r.Intn(4)]
		e158 := r.Bool()
		value := values[r.Intn(3)]
		empty, exist := r.Bool(), r.Bool()
		ms, avail, cost := mss[r.Intn(len(mss))], avails[r.Intn(len(avails))], costs[r.Intn(len(costs))]
		if r.Chance(30) {
			avail = r.Uint64() >> uint(r.Intn(64))
		}
		stack := []*big.Int{cost, big.NewInt(0xabc), value, big.NewInt(0), big.NewInt(0), big.NewInt(0), big.NewInt(0)}
		if !k.depthValue {
			stack = []*big.Int{cost, big.NewInt(0xabc), big.NewInt(0), big.NewInt(0), big.NewInt(0), big.NewInt(0)}
			value = big.NewInt(0)
		}
		g, last, temp, _, ec := vm.VerifGasState(k.fn, vm.VerifStateArgs{Cfg: cfgWith(true, e158), Block: big.NewInt(1), GT: tables[gtn],
			AddrEmpty: empty, AddrExist: exist, ContractGas: avail}, stack, 64, cmem(2), ms)
		obs := "err"
		if ec == 0 {
			obs = fmt.Sprintf("ok %s %s %s", u(g), u(temp), u(last))
		} else if ec != 1 {
			obs = fmt.Sprintf("err-class-%d", ec)
		}
		cas := fmt.Sprintf("%s %s %v %s %v %v 64 %d %s %d %s", k.kind, gtn, e158, hx(value), empty, exist, cmem(2), u(ms), avail, hx(cost))
		mv, sv := splitS(m.Ask("gascall " + cas))
		c.Eval("stategas/"+k.fn+"/"+gtn, cas)
		c.Correspond(k.fn+"~"+k.fn, cas, obs, mv)
		// oracle: on the proved domain the charge and the gas passed on are the specified ones; an
		// unaffordable base can never come out as an affordable total
		sp := strings.Fields(sv) // C_call, gascap, base
		base, _ := new(big.Int).SetString(strings.TrimPrefix(sp[2], "0x"), 16)
		if gtn != "pre150" && ms <= 0x1FFFFFFFE0 {
			if base.Cmp(new(big.Int).SetUint64(avail)) <= 0 {
				want := "ok " + sp[0] + " " + sp[1]
				if !strings.HasPrefix(obs, want+" ") {
					c.Violate("stategas/"+k.fn+"/"+cas, fmt.Sprintf("%s gives %s, the specification defines %s", k.fn, obs, want),
						map[string]interface{}{"kind": "stategas", "case": "gascall " + cas, "observed": obs, "expected": want})
				}
			} else if ec == 0 && g <= avail {
				c.Violate("stategas-affordable/"+k.fn+"/"+cas, "base cost exceeds the gas left but the returned total is payable",
					map[string]interface{}{"kind": "stategas", "case": "gascall " + cas, "observed": obs})
			}
		}
	}
}

// ---------------------------------------------------------------- chain rules and write protection

func checkRules(c *vh.Ctx, m *vh.Model, w *world) {
	r := c.Rng
	optBlock := func() *big.Int {
		if r.Chance(30) {
			return nil
		}
		return big.NewInt(int64(r.Intn(12)))
	}
	s := func(b *big.Int) string {
		if b == nil {
			return "none"
		}
		return b.String()
	}
	for i := 0; i < c.Scale(300, 10000); i++ {
		cfg := &params.ChainConfig{ChainId: big.NewInt(1), HomesteadBlock: optBlock(), EIP150Block: optBlock(), EIP155Block: optBlock(), EIP158Block: optBlock(),
			ByzantiumBlock: optBlock(), HF: params.ForkMap{}}
		num := big.NewInt(int64(r.Intn(13)))
		rules, sp, cp := vm.VerifChainRules(cfg, num)
		obs := fmt.Sprintf("%v %v %v %v %v", rules.IsHomestead, rules.IsEIP150, rules.IsEIP155, rules.IsEIP158, rules.IsByzantium)
		cas := fmt.Sprintf("%s %s %s %s %s %s", s(cfg.HomesteadBlock), s(cfg.EIP150Block), s(cfg.EIP155Block), s(cfg.EIP158Block), s(cfg.ByzantiumBlock), num)
		c.Eval("rules", cas)
		c.Correspond("ChainConfig.Rules~select_rules", cas, obs, m.Ask("rules "+cas))
		c.Correspond("enforceRestrictions(readOnly,SSTORE)~enforceRestrictions", cas, fmt.Sprint(sp), m.Ask(fmt.Sprintf("enforce %v true true false 0", rules.IsByzantium)))
		c.Correspond("enforceRestrictions(readOnly,CALL value)~enforceRestrictions", cas, fmt.Sprint(cp), m.Ask(fmt.Sprintf("enforce %v true false true 1", rules.IsByzantium)))
	}
	tab, _ := vm.VerifJumpTable("spring")
	for _, op := range []byte{0x01, 0x54, 0x55, 0xa0, 0xa4, 0xf0, 0xf1, 0xf2, 0xf4, 0xfa, 0xff} {
		for bits := 0; bits < 4; bits++ {
			for _, v := range []*big.Int{big.NewInt(0), big.NewInt(1), pow2(255)} {
				byz, ro := bits&1 == 1, bits&2 == 2
				got := vm.VerifEnforceRestrictions(byz, ro, op, v)
				cas := fmt.Sprintf("%v %v %v %v %s", byz, ro, tab[op].Writes, op == 0xf1, hx(v))
				c.Eval("enforce", fmt.Sprintf("%02x %s", op, cas))
				c.Correspond("Interpreter.enforceRestrictions~enforceRestrictions", fmt.Sprintf("op 0x%02x %s", op, cas), fmt.Sprint(got), m.Ask("enforce "+cas))
			}
		}
	}
	// through the interpreter: A STATICCALLs B, B executes SSTORE; A returns the success flag.
	// The model says whether read-only mode refuses the SSTORE at that height (mainnet rules).
	addrB := common.StringToAddress("calleeB")
	w.st.CreateAccount(addrB)
	w.st.SetCode(addrB, []byte{0x60, 0x01, 0x60, 0x00, 0x55, 0x00})
	codeA := []byte{0x60, 0x00, 0x60, 0x00, 0x60, 0x00, 0x60, 0x00, 0x73}
	codeA = append(codeA, addrB.Bytes()...)
	codeA = append(codeA, 0x5a, 0xfa, 0x60, 0x00, 0x52, 0x60, 0x20, 0x60, 0x00, 0xf3)
	for _, block := range []int64{blockSpringB, blockSpring} {
		rr := w.run(params.MainnetChainConfig, block, codeA, nil, progGas)
		obs := rr.errs
		if rr.errs == "" {
			obs = hx(new(big.Int).SetBytes(rr.ret)) // 1 = the callee's write went through
		}
		rulesLine := strings.Fields(m.Ask(fmt.Sprintf("rules 0 0 36050 36050 36050 %d", block)))
		protected := m.Ask(fmt.Sprintf("enforce %s true true false 0", rulesLine[4]))
		want := "0x1"
		if protected == "true" {
			want = "0x0"
		}
		c.Eval("rules/staticcall-sstore", fmt.Sprint(block))
		c.Correspond("STATICCALL->SSTORE success flag~enforceRestrictions(select_rules mainnet)", fmt.Sprintf("mainnet block %d", block), obs, want)
		c.Note("mainnet block %d: STATICCALL to a callee that executes SSTORE returns %s (1 = write not refused; chain rules IsByzantium=%s)", block, obs, rulesLine[4])
	}
}

// ---------------------------------------------------------------- narrowing lattice through the interpreter

// highBits: k*2^64 + r and k*2^32 + r for k in ks (default {1, 2, 2^63, 2^191}) and the remainders rs
func highBits(rs []int64, ks []*big.Int) []*big.Int {
	if ks == nil {
		ks = []*big.Int{big.NewInt(1), big.NewInt(2), pow2(63), pow2(191)}
	}
	var out []*big.Int
	seen := map[string]bool{}
	for _, base := range []*big.Int{pow2(64), pow2(32)} {
		for _, k := range ks {
			for _, r := range rs {
				if r < 0 {
					continue
				}
				v := new(big.Int).Mul(k, base)
				v.Add(v, big.NewInt(r))
				if v.Cmp(tt256) < 0 && !seen[v.String()] {
					seen[v.String()] = true
					out = append(out, v)
				}
			}
		}
	}
	return out
}

// remainders relative to a buffer length
func around(n int) []int64 { return []int64{0, 1, 3, int64(n - 1), int64(n), int64(n + 1)} }

var ret32 = []byte{0x60, 0x00, 0x52, 0x60, 0x20, 0x60, 0x00, 0xf3} // PUSH1 0 MSTORE PUSH1 32 PUSH1 0 RETURN
var retMem32 = []byte{0x60, 0x20, 0x60, 0x00, 0xf3}                // PUSH1 32 PUSH1 0 RETURN

func nonzeroBytes(r *vh.RNG, n int) []byte {
	b := r.Bytes(n)
	for i := range b {
		if b[i] == 0 {
			b[i] = byte(1 + i%250)
		}
	}
	return b
}

func obsRun(r runres, gas uint64) string {
	switch {
	case r.errs == "":
		return "ok " + vh.Hex(r.ret)
	case strings.HasPrefix(r.errs, "panic"):
		return r.errs
	case r.used == gas:
		return "consumes-all"
	}
	return fmt.Sprintf("%s used=%d", r.errs, r.used)
}

func first32(memHex string) string { // "0x.." of a memory image -> its first 32 bytes
	b := vh.UnHex(memHex)
	if len(b) < 32 {
		b = append(b, make([]byte, 32-len(b))...)
	}
	return vh.Hex(b[:32])
}

func wordHex(v string) string { // quantity "0x1f" -> 32-byte hex
	x, _ := new(big.Int).SetString(strings.TrimPrefix(v, "0x"), 16)
	return vh.Hex(common.LeftPadBytes(x.Bytes(), 32))
}

func checkHighBits(c *vh.Ctx, m *vh.Model, w *world) {
	r := c.Rng
	input := nonzeroBytes(r, 40)
	extAddr := common.StringToAddress("extcode")
	extCode := nonzeroBytes(r, 40)
	extCode[0] = 0xfe
	w.st.CreateAccount(extAddr)
	w.st.SetCode(extAddr, extCode)
	// B returns 40 non-zero bytes
	rd := nonzeroBytes(r, 64)
	addrB := common.StringToAddress("returns40")
	codeB := append(append(push32(nil, new(big.Int).SetBytes(rd[:32])), 0x60, 0x00, 0x52), append(push32(nil, new(big.Int).SetBytes(rd[32:])), 0x60, 0x20, 0x52, 0x60, 0x28, 0x60, 0x00, 0xf3)...)
	w.st.CreateAccount(addrB)
	w.st.SetCode(addrB, codeB)
	rd = rd[:40]
	// G returns the gas it sees
	addrG := common.StringToAddress("reportsgas")
	w.st.CreateAccount(addrG)
	w.st.SetCode(addrG, append([]byte{0x5a}, ret32...))
	gasLimit := uint64(progGas)
	report := func(kind, cas string, code []byte, obs, model, spec string) {
		c.Eval("highbits/"+kind, cas)
		ok := c.Correspond("interpreter "+kind+" (narrowing lattice)~model", cas, obs, model)
		if spec != "" && obs != spec {
			c.Violate("highbits/"+kind+"/"+cas, fmt.Sprintf("%s %s gives %s, the specification defines %s", kind, cas, clipS(obs), clipS(spec)),
				map[string]interface{}{"kind": "highbits", "op": kind, "case": cas, "program": vh.Hex(code), "input": vh.Hex(input), "block": blockSpring,
					"observed": obs, "expected": spec})
		} else if !ok && spec == "" {
			c.Violate("highbits/"+kind+"/"+cas, fmt.Sprintf("%s %s gives %s, the model of the Go code %s", kind, cas, clipS(obs), clipS(model)),
				map[string]interface{}{"kind": "highbits", "op": kind, "case": cas, "program": vh.Hex(code), "input": vh.Hex(input), "block": blockSpring,
					"observed": obs, "expected": model})
		}
	}
	// gas the model charges for a memory-touching step on an empty memory, or nil if it fails
	stepGas := func(gasfn string, off, l, x *big.Int) (*big.Int, string) {
		ms := m.Ask(fmt.Sprintf("memsize %s %s", hx(off), hx(l)))
		if !strings.HasPrefix(ms, "ok ") {
			return nil, ""
		}
		msv := strings.Fields(ms)[1]
		ans := m.Ask(fmt.Sprintf("gasfn %s hf1 0 0 %s %s", gasfn, msv, hx(x)))
		if !strings.HasPrefix(ans, "ok ") {
			return nil, ""
		}
		g, _ := new(big.Int).SetString(strings.TrimPrefix(strings.Fields(ans)[1], "0x"), 16)
		return g, msv
	}
	zeros := func(n string) string {
		k, _ := new(big.Int).SetString(strings.TrimPrefix(n, "0x"), 16)
		return vh.Hex(make([]byte, k.Int64()))
	}

	// (a) CALLDATALOAD
	for _, off := range append(highBits(around(len(input)), nil), big.NewInt(0), big.NewInt(int64(len(input)-1)), big.NewInt(39), big.NewInt(40)) {
		code := append(append(push32(nil, off), 0x35), ret32...)
		rr := w.run(params.MainnetChainConfig, blockSpring, code, input, gasLimit)
		mv, sv := splitS(m.Ask("cdload " + vh.Hex(input) + " " + hx(off)))
		report("CALLDATALOAD", hx(off), code, obsRun(rr, gasLimit), "ok "+wordHex(mv), "ok "+wordHex(sv))
	}
	// (b,c,d) CALLDATACOPY / CODECOPY / EXTCODECOPY
	type cp struct {
		name  string
		op    byte
		gasfn string
	}
	for _, k := range []cp{{"CALLDATACOPY", 0x37, "gasCallDataCopy"}, {"CODECOPY", 0x39, "gasCodeCopy"}, {"EXTCODECOPY", 0x3c, "gasExtCodeCopy"}} {
		type tri struct{ mo, do, l *big.Int }
		var cases []tri
		for _, h := range append(highBits(around(40), nil), big.NewInt(0), big.NewInt(8), big.NewInt(39), big.NewInt(40)) {
			cases = append(cases, tri{big.NewInt(0), h, big.NewInt(32)})
		}
		for _, h := range highBits([]int64{0, 1, 31, 32, 33}, []*big.Int{big.NewInt(1), pow2(191)}) {
			cases = append(cases, tri{h, big.NewInt(0), big.NewInt(32)}, tri{big.NewInt(0), big.NewInt(0), h})
		}
		for _, t := range cases {
			code := push32(push32(push32(nil, t.l), t.do), t.mo)
			if k.op == 0x3c {
				code = append(append(code, 0x73), extAddr.Bytes()...)
			}
			code = append(append(code, k.op), retMem32...)
			data := input
			if k.op == 0x39 {
				data = code
			} else if k.op == 0x3c {
				data = extCode
			}
			rr := w.run(params.MainnetChainConfig, blockSpring, code, input, gasLimit)
			cas := fmt.Sprintf("memOff=%s dataOff=%s len=%s", hx(t.mo), hx(t.do), hx(t.l))
			want, spec := "consumes-all", "consumes-all"
			if g, msv := stepGas(k.gasfn, t.mo, t.l, t.l); g != nil && g.Cmp(big.NewInt(progGas-1000)) < 0 {
				mv, sv := splitS(m.Ask(fmt.Sprintf("datacopy %s %s %s %s %s", zeros(msv), vh.Hex(data), hx(t.mo), hx(t.do), hx(t.l))))
				want, spec = "?"+mv, ""
				if strings.HasPrefix(mv, "ok ") {
					want = "ok " + first32(strings.Fields(mv)[1])
				}
				if strings.HasPrefix(sv, "0x") {
					spec = "ok " + first32(sv)
				}
			}
			report(k.name, cas, code, obsRun(rr, gasLimit), want, spec)
		}
	}
	// (e) RETURNDATACOPY after a call that returned 40 bytes
	{
		type duo struct{ do, l *big.Int }
		var cases []duo
		for _, h := range append(highBits(around(40), nil), big.NewInt(0), big.NewInt(32), big.NewInt(33)) {
			cases = append(cases, duo{h, big.NewInt(8)})
		}
		for _, h := range highBits([]int64{0, 1, 8}, []*big.Int{big.NewInt(1), pow2(191)}) {
			cases = append(cases, duo{big.NewInt(0), h})
		}
		for _, t := range cases {
			code := []byte{0x60, 0x00, 0x60, 0x00, 0x60, 0x00, 0x60, 0x00, 0x60, 0x00, 0x73}
			code = append(code, addrB.Bytes()...)
			code = append(code, 0x62, 0x01, 0x86, 0xa0, 0xf1, 0x50)
			code = append(push32(push32(code, t.l), t.do), 0x60, 0x00, 0x3e)
			code = append(code, retMem32...)
			rr := w.run(params.MainnetChainConfig, blockSpring, code, nil, gasLimit)
			cas := fmt.Sprintf("dataOff=%s len=%s", hx(t.do), hx(t.l))
			want := "consumes-all"
			if g, msv := stepGas("gasReturnDataCopy", big.NewInt(0), t.l, t.l); g != nil && g.Cmp(big.NewInt(progGas-100000)) < 0 {
				mv := m.Ask(fmt.Sprintf("rdcopy %s %s 0x0 %s %s", zeros(msv), vh.Hex(rd), hx(t.do), hx(t.l)))
				if strings.HasPrefix(mv, "ok ") {
					want = "ok " + first32(strings.Fields(mv)[1])
				}
			}
			// specification: out of bounds iff offset + length exceeds the 40 bytes returned
			spec := "consumes-all"
			if end := new(big.Int).Add(t.do, t.l); end.Cmp(big.NewInt(40)) <= 0 {
				img := make([]byte, 32)
				copy(img, rd[t.do.Int64():end.Int64()])
				spec = "ok " + vh.Hex(img)
			}
			report("RETURNDATACOPY", cas, code, obsRun(rr, gasLimit), want, spec)
		}
	}
	// (f) JUMP / JUMPI: dest = high bits + a valid JUMPDEST position must be refused
	for _, jumpi := range []bool{false, true} {
		pos := int64(35)
		if jumpi {
			pos = 68
		}
		for _, d := range append(highBits([]int64{0, 1, pos - 1, pos, pos + 1}, nil), big.NewInt(pos), big.NewInt(pos-1)) {
			var code []byte
			if jumpi {
				code = append(push32(push32(nil, big.NewInt(1)), d), 0x57, 0xfe, 0x5b)
			} else {
				code = append(push32(nil, d), 0x56, 0xfe, 0x5b)
			}
			code = append(append(code, 0x60, 0x01), ret32...)
			rr := w.run(params.MainnetChainConfig, blockSpring, code, nil, gasLimit)
			var mv string
			if jumpi {
				mv = m.Ask(fmt.Sprintf("jumpi %s 66 %s 1", vh.Hex(code), hx(d)))
			} else {
				mv = m.Ask(fmt.Sprintf("jump %s %s", vh.Hex(code), hx(d)))
			}
			want := "consumes-all"
			if strings.HasPrefix(mv, "ok ") {
				want = "ok " + wordHex("0x1")
			}
			spec := "consumes-all"
			if refJumpdest(code, d) {
				spec = "ok " + wordHex("0x1")
			}
			name := "JUMP"
			if jumpi {
				name = "JUMPI"
			}
			report(name, hx(d), code, obsRun(rr, gasLimit), want, spec)
		}
	}
	// (i) BLOCKHASH
	for _, num := range append(highBits([]int64{0, 1, 3, blockSpring - 256, blockSpring - 2, blockSpring - 1, blockSpring}, nil),
		big.NewInt(blockSpring-1), big.NewInt(blockSpring-256), big.NewInt(blockSpring-257), big.NewInt(blockSpring), big.NewInt(0)) {
		code := append(append(push32(nil, num), 0x40), ret32...)
		rr := w.run(params.MainnetChainConfig, blockSpring, code, nil, gasLimit)
		render := func(a string) string {
			if f := strings.Fields(a); len(f) == 2 && f[0] == "hash" {
				n, _ := new(big.Int).SetString(strings.TrimPrefix(f[1], "0x"), 16)
				return "ok " + vh.Hex(blockHashOf(n.Uint64()).Bytes())
			}
			return "ok " + wordHex("0x0")
		}
		mv, sv := splitS(m.Ask(fmt.Sprintf("blockhash %d %s", blockSpring, hx(num))))
		report("BLOCKHASH", hx(num), code, obsRun(rr, gasLimit), render(mv), render(sv))
	}
	// (j) CALL: gas operand and in/out ranges; CREATE ranges
	avail := uint64(progGas - 21)
	for _, g := range append(highBits([]int64{0, 1, 3, 50000}, nil), big.NewInt(50000), big.NewInt(0), sub(pow2(64), 1)) {
		code := []byte{0x60, 0x20, 0x60, 0x00, 0x60, 0x00, 0x60, 0x00, 0x60, 0x00, 0x73}
		code = append(code, addrG.Bytes()...)
		code = append(append(push32(code, g), 0xf1, 0x50), retMem32...)
		rr := w.run(params.MainnetChainConfig, blockSpring, code, nil, gasLimit)
		mv, sv := splitS(m.Ask(fmt.Sprintf("gascall call hf1 true 0x0 false true 0 0 0x20 %d %s", avail, hx(g))))
		rend := func(temp string) string { // the callee reports the gas passed on minus the 2 of its GAS instruction
			t, _ := new(big.Int).SetString(strings.TrimPrefix(temp, "0x"), 16)
			if t.Cmp(big.NewInt(2)) < 0 {
				return "ok " + wordHex("0x0") // callee runs out of gas at once: nothing written to the return area
			}
			return "ok " + vh.Hex(common.LeftPadBytes(t.Sub(t, big.NewInt(2)).Bytes(), 32))
		}
		want := "consumes-all"
		if f := strings.Fields(mv); len(f) == 4 && f[0] == "ok" {
			want = rend(f[2])
		}
		report("CALL-gas", hx(g), code, obsRun(rr, gasLimit), want, rend(strings.Fields(sv)[1]))
	}
	for pos := 0; pos < 4; pos++ { // inOff, inSize, retOff, retSize
		for _, h := range highBits([]int64{0, 1, 32}, []*big.Int{big.NewInt(1), pow2(191)}) {
			ops4 := []*big.Int{big.NewInt(0), big.NewInt(1), big.NewInt(0), big.NewInt(1)}
			ops4[pos] = h
			code := push32(push32(push32(push32(nil, ops4[3]), ops4[2]), ops4[1]), ops4[0]) // retSize retOff inSize inOff
			code = append(append(code, 0x60, 0x00, 0x73), addrG.Bytes()...)
			code = append(code, 0x61, 0xc3, 0x50, 0xf1, 0x00)
			rr := w.run(params.MainnetChainConfig, blockSpring, code, nil, gasLimit)
			cas := fmt.Sprintf("in=(%s,%s) ret=(%s,%s)", hx(ops4[0]), hx(ops4[1]), hx(ops4[2]), hx(ops4[3]))
			want := "consumes-all"
			if ms := m.Ask(fmt.Sprintf("memcall %s %s %s %s", hx(ops4[0]), hx(ops4[1]), hx(ops4[2]), hx(ops4[3]))); strings.HasPrefix(ms, "ok ") {
				mv, _ := splitS(m.Ask(fmt.Sprintf("gascall call hf1 true 0x0 false true 0 0 %s %d 0xc350", strings.Fields(ms)[1], progGas-3*7)))
				if f := strings.Fields(mv); len(f) == 4 && f[0] == "ok" {
					if t, _ := new(big.Int).SetString(strings.TrimPrefix(f[1], "0x"), 16); t.Cmp(big.NewInt(progGas-21)) <= 0 {
						want = "ok 0x"
					}
				}
			}
			// specification: such a range needs more memory than any gas can pay
			report("CALL-range", cas, code, obsRun(rr, gasLimit), want, "consumes-all")
		}
	}
	for pos := 0; pos < 2; pos++ { // CREATE offset, size
		for _, h := range highBits([]int64{0, 1, 32}, []*big.Int{big.NewInt(1), pow2(191)}) {
			ops2 := []*big.Int{big.NewInt(0), big.NewInt(1)}
			ops2[pos] = h
			code := append(push32(push32(nil, ops2[1]), ops2[0]), 0x60, 0x00, 0xf0, 0x00)
			rr := w.run(params.MainnetChainConfig, blockSpring, code, nil, gasLimit)
			cas := fmt.Sprintf("offset=%s size=%s", hx(ops2[0]), hx(ops2[1]))
			want := "consumes-all"
			if g, _ := stepGas("gasCreate", ops2[0], ops2[1], ops2[1]); g != nil && g.Cmp(big.NewInt(progGas-9)) <= 0 {
				want = "ok 0x"
			}
			report("CREATE-range", cas, code, obsRun(rr, gasLimit), want, "consumes-all")
		}
	}
}

func clipS(s string) string {
	if len(s) > 140 {
		return s[:140] + ".."
	}
	return s
}

// ---------------------------------------------------------------- whole memory steps on pre-filled memory, any operands

// The program fills k words of memory, executes one memory instruction with arbitrary operands
// (inside, straddling, beyond the current memory, far beyond, overflowing), and returns the whole
// memory (MSIZE 0 RETURN).  Compared with prepare_mem + instruction body of the model (memory
// image and gas), and with the specification on the zero-extended memory.
func checkMemRun(c *vh.Ctx, m *vh.Model, w *world) {
	r := c.Rng
	input := nonzeroBytes(r, 40)
	offs := func(memLen int) []*big.Int {
		out := []*big.Int{big.NewInt(0), big.NewInt(1), big.NewInt(int64(memLen - 32)), big.NewInt(int64(memLen - 31)), big.NewInt(int64(memLen - 1)),
			big.NewInt(int64(memLen)), big.NewInt(int64(memLen + 1)), big.NewInt(int64(memLen + 33)), big.NewInt(5000), big.NewInt(100000),
			sub(pow2(64), 32), sub(pow2(64), 1), pow2(64), add(pow2(64), 5), add(pow2(255), 7), big.NewInt(0xffffffffe0 - 31), big.NewInt(0xffffffffe0 + 1)}
		var res []*big.Int
		for _, o := range out {
			if o.Sign() >= 0 {
				res = append(res, o)
			}
		}
		return res
	}
	lens := []*big.Int{big.NewInt(0), big.NewInt(1), big.NewInt(31), big.NewInt(32), big.NewInt(33), big.NewInt(100), big.NewInt(5000), pow2(64), sub(pow2(256), 1)}
	type kase struct {
		kind string
		args []*big.Int // operands in model order
	}
	cmem32 := func(words int) uint64 { return cmem(uint64(words)) }
	ks := []int{0, 3}
	if c.Thorough() {
		ks = []int{0, 1, 2, 3, 7}
	} else {
		lens = []*big.Int{big.NewInt(0), big.NewInt(1), big.NewInt(32), big.NewInt(100), big.NewInt(5000), pow2(64)}
	}
	for _, k := range ks {
		memLen := 32 * k
		mem := nonzeroBytes(r, memLen)
		var prefill []byte
		for i := 0; i < k; i++ {
			prefill = append(push32(push32(prefill, new(big.Int).SetBytes(mem[32*i:32*i+32])), big.NewInt(int64(32*i))), 0x52)
		}
		prefillGas := uint64(9*k) + cmem32(k)
		var cases []kase
		for _, o := range offs(memLen) {
			cases = append(cases, kase{"mload", []*big.Int{o}}, kase{"mstore", []*big.Int{o, rand256(r)}}, kase{"mstore8", []*big.Int{o, rand256(r)}})
			for _, l := range lens {
				cases = append(cases, kase{"sha3", []*big.Int{o, l}}, kase{"return", []*big.Int{o, l}}, kase{"log", []*big.Int{o, l}})
				cases = append(cases, kase{"calldatacopy", []*big.Int{o, big.NewInt(int64(r.Intn(50))), l}})
				if r.Chance(30) {
					cases = append(cases, kase{"codecopy", []*big.Int{o, big.NewInt(int64(r.Intn(80))), l}})
				}
			}
		}
		for _, ka := range cases {
			code := append([]byte{}, prefill...)
			var opGasConst uint64                    // pushes of the operands
			suffix := []byte{0x59, 0x60, 0x00, 0xf3} // MSIZE PUSH1 0 RETURN
			suffixGas := uint64(2 + 3)
			valueOp := false
			switch ka.kind {
			case "mload":
				code = append(push32(code, ka.args[0]), 0x51)
				opGasConst, valueOp = 3, true
			case "mstore":
				code = append(push32(push32(code, ka.args[1]), ka.args[0]), 0x52)
				opGasConst = 6
			case "mstore8":
				code = append(push32(push32(code, ka.args[1]), ka.args[0]), 0x53)
				opGasConst = 6
			case "sha3":
				code = append(push32(push32(code, ka.args[1]), ka.args[0]), 0x20)
				opGasConst, valueOp = 6, true
			case "log":
				code = append(push32(push32(code, ka.args[1]), ka.args[0]), 0xa0)
				opGasConst = 6
			case "return":
				code = append(push32(push32(code, ka.args[1]), ka.args[0]), 0xf3)
				opGasConst, suffix, suffixGas = 6, nil, 0
			case "calldatacopy":
				code = append(push32(push32(push32(code, ka.args[2]), ka.args[1]), ka.args[0]), 0x37)
				opGasConst = 9
			case "codecopy":
				code = append(push32(push32(push32(code, ka.args[2]), ka.args[1]), ka.args[0]), 0x39)
				opGasConst = 9
			}
			if valueOp { // store the value at 0 so that it is part of the returned image
				code = append(code, 0x60, 0x00, 0x52)
				suffixGas += 6
			}
			code = append(code, suffix...)
			rr := w.run(params.MainnetChainConfig, blockSpring, code, input, progGas)
			// model
			args := ""
			for _, a := range ka.args {
				args += " " + hx(a)
			}
			var req string
			avail := uint64(progGas) - prefillGas - opGasConst // contract.Gas when the instruction starts
			switch ka.kind {
			case "calldatacopy":
				req = fmt.Sprintf("memrun datacopy %d %s %d %s%s", avail, vh.Hex(mem), cmem32(k), vh.Hex(input), args)
			case "codecopy":
				req = fmt.Sprintf("memrun datacopy %d %s %d %s%s", avail, vh.Hex(mem), cmem32(k), vh.Hex(code), args)
			case "log":
				req = fmt.Sprintf("memrun log %d %s %d 0%s", avail, vh.Hex(mem), cmem32(k), args)
			default:
				req = fmt.Sprintf("memrun %s %d %s %d%s", ka.kind, avail, vh.Hex(mem), cmem32(k), args)
			}
			f := strings.Fields(m.Ask(req))
			want := "consumes-all"
			spec := ""
			if len(f) > 0 && f[0] == "ok" {
				var img []byte
				var g string
				switch ka.kind {
				case "mload", "sha3":
					img = vh.UnHex(f[2])
					v, _ := new(big.Int).SetString(strings.TrimPrefix(f[1], "0x"), 16)
					if len(img) < 32 { // the MSTORE at 0 expands an empty memory (only SHA3 of an empty range)
						img = append(img, make([]byte, 32-len(img))...)
						suffixGas += 3
					}
					copy(img[:32], common.LeftPadBytes(v.Bytes(), 32))
					g = f[3]
				case "return":
					img, g = vh.UnHex(f[1]), f[3]
				case "log":
					img, g = vh.UnHex(f[2]), f[3]
				default:
					img, g = vh.UnHex(f[1]), f[2]
				}
				gv, _ := new(big.Int).SetString(strings.TrimPrefix(g, "0x"), 16)
				total := new(big.Int).Add(gv, new(big.Int).SetUint64(prefillGas+opGasConst+suffixGas))
				if total.Cmp(big.NewInt(progGas)) <= 0 {
					want = fmt.Sprintf("ok %s gas=%s", vh.Hex(img), total)
				}
				// specification on the zero-extended memory (independent of the model): only the cheap cases
				if ka.kind == "mload" && ka.args[0].IsInt64() && ka.args[0].Int64() < 1<<20 {
					o := int(ka.args[0].Int64())
					ext := append(append([]byte{}, mem...), make([]byte, o+64)...)
					word := append([]byte{}, ext[o:o+32]...)
					newLen := ((o + 32 + 31) / 32) * 32
					if newLen < memLen {
						newLen = memLen
					}
					simg := append(append([]byte{}, mem...), make([]byte, newLen-memLen)...)
					copy(simg[:32], word)
					spec = vh.Hex(simg)
				}
			}
			obs := "consumes-all"
			if rr.errs == "" {
				obs = fmt.Sprintf("ok %s gas=%d", vh.Hex(rr.ret), rr.used)
			} else if rr.used != progGas || strings.HasPrefix(rr.errs, "panic") {
				obs = fmt.Sprintf("%s used=%d", rr.errs, rr.used)
			}
			cas := fmt.Sprintf("mem=%dw %s%s", k, ka.kind, args)
			c.Eval("memrun/"+ka.kind, cas)
			ok := c.Correspond("interpreter memory step (content+gas)~prepare_mem+"+ka.kind, cas, clipS(obs), clipS(want))
			if spec != "" && rr.errs == "" && vh.Hex(rr.ret) != spec {
				c.Violate("memrun/"+cas, "MLOAD beyond / across the end of memory does not read the zero-extended memory",
					map[string]interface{}{"kind": "memrun", "case": cas, "program": vh.Hex(code), "observed": vh.Hex(rr.ret), "expected": spec})
			} else if !ok {
				c.Violate("memrun/"+cas, fmt.Sprintf("memory step: implementation %s, model of the step %s", clipS(obs), clipS(want)),
					map[string]interface{}{"kind": "memrun", "case": cas, "program": vh.Hex(code), "input": vh.Hex(input), "observed": obs, "expected": want})
			}
		}
	}
}

// ---------------------------------------------------------------- instruction sequences: values and pointer discipline

// Random straight-line sequences rich in DUP / SWAP / in-place instructions, run on a real Stack
// and intPool (VerifAliasRun): the final values against the value-semantics model, and the
// pointer invariant of OpsProofsAlias.v (stack slots pairwise distinct, none in the pool)
// observed after every step.
func checkAliasing(c *vh.Ctx, m *vh.Model) {
	r := c.Rng
	bin := []byte{0x01, 0x02, 0x03, 0x04, 0x05, 0x06, 0x07, 0x0b, 0x10, 0x11, 0x12, 0x13, 0x14, 0x16, 0x17, 0x18, 0x1a, 0x1b, 0x1c, 0x1d}
	for it := 0; it < c.Scale(400, 20000); it++ {
		var steps []vm.VerifAliasStep
		var items []string
		depth := 0
		push := func() {
			v := rand256(r)
			if r.Chance(40) {
				v = big.NewInt(int64(r.Intn(40)))
			}
			steps = append(steps, vm.VerifAliasStep{Op: 0x7f, Const: v})
			items = append(items, "p:"+hx(v))
			depth++
		}
		op := func(o byte, delta int) {
			steps = append(steps, vm.VerifAliasStep{Op: o})
			items = append(items, fmt.Sprintf("o:0x%02x", o))
			depth += delta
		}
		n := 6 + r.Intn(24)
		for len(steps) < n {
			switch k := r.Intn(12); {
			case depth < 2 || k == 0:
				push()
			case k <= 3: // DUPn within the stack
				d := 1 + r.Intn(minInt(depth, 16))
				if depth < 1000 {
					op(byte(0x7f+d), 1)
				}
			case k <= 5 && depth >= 2: // SWAPn
				d := 1 + r.Intn(minInt(depth-1, 16))
				op(byte(0x8f+d), 0)
			case k == 6:
				op(0x50, -1)
			case k == 7:
				op([]byte{0x15, 0x19}[r.Intn(2)], 0)
			case k == 8 && depth >= 3:
				op([]byte{0x08, 0x09}[r.Intn(2)], -2)
			default:
				op(bin[r.Intn(len(bin))], -1)
			}
		}
		final, aliasing, errs := vm.VerifAliasRun("spring", steps)
		obs := "ok " + stackStr(final)
		if errs != "" {
			obs = "err " + errs
		}
		cas := strings.Join(items, " ")
		c.Eval("sequence", cas)
		c.Correspond("Stack+intPool instruction sequence~value semantics (exec_arith, op_DUP, op_SWAP, op_POP)", cas, obs, m.Ask("seq "+cas))
		if aliasing != "" {
			c.Violate("stack-aliasing/"+clipS(cas), aliasing, map[string]interface{}{"kind": "aliasing", "sequence": cas, "aliasing": aliasing})
		}
	}
}

// ---------------------------------------------------------------- fork -> table selection on random fork maps

func checkSelection(c *vh.Ctx, m *vh.Model) {
	optBlock := func() *big.Int {
		if c.Rng.Chance(30) {
			return nil
		}
		return big.NewInt(int64(c.Rng.Intn(12)))
	}
	s := func(b *big.Int) string {
		if b == nil {
			return "none"
		}
		return b.String()
	}
	for i := 0; i < c.Scale(400, 20000); i++ {
		cfg := &params.ChainConfig{ChainId: big.NewInt(1), HomesteadBlock: optBlock(), ByzantiumBlock: optBlock(), ConstantinopleBlock: optBlock(), HF: params.ForkMap{}}
		if b := optBlock(); b != nil {
			cfg.HF[5] = b
		}
		if b := optBlock(); b != nil {
			cfg.HF[1] = b
		}
		num := big.NewInt(int64(c.Rng.Intn(13)))
		sel := vm.VerifSelectedTable(cfg, num)
		gt := vm.VerifSelectedGasTable(cfg, num)
		cas := fmt.Sprintf("homestead=%s byzantium=%s constantinople=%s hf5=%s hf1=%s num=%s", s(cfg.HomesteadBlock), s(cfg.ByzantiumBlock), s(cfg.ConstantinopleBlock), s(cfg.HF[5]), s(cfg.HF[1]), num)
		c.Eval("selection/"+sel, cas)
		c.Correspond("NewInterpreter table+gas table~select_iset+select_gastable", cas, fmt.Sprintf("%s 0x%x", sel, gt.ExpByte),
			m.Ask(fmt.Sprintf("select %s %s %s %s %s %s", s(cfg.HomesteadBlock), s(cfg.ByzantiumBlock), s(cfg.ConstantinopleBlock), s(cfg.HF[5]), s(cfg.HF[1]), num)))
	}
}

// ---------------------------------------------------------------- replay

func replay(c *vh.Ctx, m *vh.Model, w *world) {
	raw, err := os.ReadFile(c.Replay)
	if err != nil {
		c.Fatal("cannot read replay: %v", err)
	}
	var f struct {
		Replay map[string]interface{} `json:"replay"`
	}
	if err := json.Unmarshal(raw, &f); err != nil {
		c.Fatal("bad replay file: %v", err)
	}
	switch f.Replay["kind"] {
	case "op":
		var o opdef
		for _, x := range ops {
			if x.name == f.Replay["op"] {
				o = x
			}
		}
		var args []*big.Int
		for _, a := range f.Replay["args"].([]interface{}) {
			v, _ := new(big.Int).SetString(strings.TrimPrefix(a.(string), "0x"), 16)
			args = append(args, v)
		}
		checkOps(c, m, w, []opcase{{o, args, "replay"}}, blockSpring, "hf1")
	case "memgas", "gasfn", "callgas", "wordsize":
		checkGasFunctions(c, m)
	case "jumpdest", "jumpprog":
		checkJumpdests(c, m, w)
	case "frame":
		checkFrames(c, m)
		checkSha3Env(c, m)
	case "stategas":
		checkStateGas(c, m)
	case "highbits":
		checkHighBits(c, m, w)
	case "memrun":
		checkMemRun(c, m, w)
	case "aliasing":
		checkAliasing(c, m)
	default:
		checkValidity(c, m, w)
	}
}

func main() {
	c := vh.Init("C08")
	m := c.StartModel()
	defer m.Close()
	w := newWorld()
	c.Res.Rule = "for each of the 25 arithmetic/comparison/bitwise/shift opcodes: every operand tuple over the 16-point boundary lattice {0,1,2,31,32,255,256,257,2^63,2^64-1,2^64,2^255-1,2^255,2^255+1,2^256-2,2^256-1} (arity<=2 exhaustive; arity 3 over a 10-point sub-lattice; EXP restricted to short exponents in the quick tier) plus random 256-bit tuples, each run through vm.NewEVM+Call at mainnet block 40000 as PUSH32.. OP PUSH1 0 MSTORE PUSH1 32 PUSH1 0 RETURN (returned word and gas used); all 256 opcodes at four mainnet heights (validity); gas/memory functions on a size lattice around 2^32 words, 0xffffffffe0 and 2^64; memory instructions as programs; random codes dense in PUSH/JUMPDEST bytes with every destination; random fork maps. Distinct = distinct input tuple/code/config."
	if c.Replay != "" {
		replay(c, m, w)
		c.Finish()
		return
	}
	cases := genOpCases(c)
	checkOps(c, m, w, cases, blockSpring, "hf1")
	// the other epochs: Spring before HF7, the Homestead set before HF5 (no shifts), and the
	// Homestead gas table (EXP byte price 10) before HF1
	var sub1, sub2, sub3 []opcase
	for i, k := range cases {
		shift := k.o.name == "SHL" || k.o.name == "SHR" || k.o.name == "SAR"
		if i%9 == 0 {
			sub1 = append(sub1, k)
		}
		if i%9 == 1 && !shift {
			sub2 = append(sub2, k)
		}
		if !shift && (i%23 == 2 || (k.o.name == "EXP" && i%3 == 0)) {
			sub3 = append(sub3, k)
		}
	}
	checkOps(c, m, w, sub1, blockSpringB, "hf1")
	checkOps(c, m, w, sub2, blockPreHF5, "hf1")
	checkOps(c, m, w, sub3, blockEarliest, "homestead")
	for i, k := range cases {
		if i%997 == 0 {
			c.Sample(k.text())
		}
	}
	checkValidity(c, m, w)
	checkGasFunctions(c, m)
	checkMemoryPrograms(c, m, w)
	checkMemoryTwice(c, m, w)
	checkJumpdests(c, m, w)
	checkFrames(c, m)
	checkHighBits(c, m, w)
	checkMemRun(c, m, w)
	checkAliasing(c, m)
	checkSha3Env(c, m)
	checkStateGas(c, m)
	checkRules(c, m, w)
	checkSelection(c, m)
	c.Assume("block gas limits keep memory below 2^32 words (128 GiB): beyond that memoryGasCost wraps (memory-gas-square-wraps) or fails although the formula fits in 64 bits")
	c.Assume("programs run with 10,000,000 gas at mainnet heights 1000 / 20000 / 30000 / 40000")
	c.Finish()
}
