// Package rlptypes describes Go types as Rlp/Typed.v descriptors (used by the
// translator to write coq/Generated/GenRlpTypes.v and by the C11 harness to
// generate values of the same types), by reflection over the current tree.
package rlptypes

import (
	"fmt"
	"math/big"
	"reflect"
	"sort"
	"strings"

	"gitlab.com/aquachain/aquachain/core/types"
	"gitlab.com/aquachain/aquachain/rlp"
	"gitlab.com/aquachain/aquachain/verifharness/vh"
)

// Synthetic types: exercise every case of rlp's makeDecoder / makeWriter that the
// consensus types do not (bool, narrow uints, strings, non-byte arrays, big.Int by
// value, nested pointers, rlp:"nil" on structs and byte arrays, interface{}, "tail").
type SynthInner struct {
	X uint16
	Y []byte
}
type SynthAll struct {
	U8   uint8
	U16  uint16
	U32  uint32
	U64  uint64
	U    uint
	B    bool
	S    string
	Bs   []byte
	A1   [1]byte
	A3   [3]byte
	Big  *big.Int
	BigV big.Int
	Sl   []uint16
	Arr  [2]uint32
	P    *SynthInner
	N    *SynthInner `rlp:"nil"`
	NA   *[4]byte    `rlp:"nil"`
	I    interface{}
	Skip uint64 `rlp:"-"`
	In   SynthInner
}
type SynthTail struct {
	A    uint8
	B    [2]SynthInner
	Rest []uint64 `rlp:"tail"`
}

type Entry struct {
	Name string
	Type reflect.Type // the public Go type decoded into
}

// Registry: the consensus / storage types covered by the typed layer.
func Registry() []Entry {
	es := []Entry{
		{"Header", reflect.TypeOf(types.Header{})},
		{"Transaction", reflect.TypeOf(types.Transaction{})},
		{"Block", reflect.TypeOf(types.Block{})},
		{"Body", reflect.TypeOf(types.Body{})},
		{"Log", reflect.TypeOf(types.Log{})},
		{"Receipt", reflect.TypeOf(types.Receipt{})},
		{"ReceiptForStorage", reflect.TypeOf(types.ReceiptForStorage{})},
		{"LogForStorage", reflect.TypeOf(types.LogForStorage{})},
		{"Transactions", reflect.TypeOf(types.Transactions{})},
		{"Receipts", reflect.TypeOf(types.Receipts{})},
		{"Headers", reflect.TypeOf([]*types.Header{})},
		{"SynthAll", reflect.TypeOf(SynthAll{})},
		{"SynthTail", reflect.TypeOf(SynthTail{})},
		{"SynthAlls", reflect.TypeOf([]*SynthAll{})},
	}
	sort.Slice(es, func(i, j int) bool { return es[i].Name < es[j].Name })
	return es
}

var bigInt = reflect.TypeOf(big.Int{})
var rawValue = reflect.TypeOf(rlp.RawValue{})

// Wire returns the struct a custom-coder type delegates to (or t itself).
func Wire(t reflect.Type) reflect.Type {
	if w, ok := types.VerifWireTypes()[t]; ok {
		return w
	}
	return t
}

type tags struct{ ignored, nilOK, tail bool }

func parseTag(f reflect.StructField) tags {
	var ts tags
	for _, t := range strings.Split(f.Tag.Get("rlp"), ",") {
		switch strings.TrimSpace(t) {
		case "-":
			ts.ignored = true
		case "nil":
			ts.nilOK = true
		case "tail":
			ts.tail = true
		}
	}
	return ts
}

// Describe prints the Rlp/Typed.v descriptor of t (a Gallina term of type ty).
func Describe(t reflect.Type) (string, error) { return describe(t, tags{}, "") }

func describe(t reflect.Type, tg tags, fieldName string) (string, error) {
	t0 := t
	t = Wire(t)
	k := t.Kind()
	switch {
	case t == rawValue:
		return "", fmt.Errorf("RawValue not covered by the item-interpretation model")
	case t == bigInt || (k == reflect.Ptr && t.Elem() == bigInt):
		return "TBig", nil
	case k >= reflect.Uint && k <= reflect.Uintptr:
		return fmt.Sprintf("(TUint %d)", t.Bits()), nil
	case k == reflect.Bool:
		return "TBool", nil
	case k == reflect.String:
		return "TBytes", nil
	case k == reflect.Slice && t.Elem().Kind() == reflect.Uint8:
		if fieldName == types.VerifStatusField {
			return "TStatus", nil
		}
		return "TBytes", nil
	case k == reflect.Array && t.Elem().Kind() == reflect.Uint8:
		return fmt.Sprintf("(TByteArr %d)", t.Len()), nil
	case k == reflect.Slice:
		e, err := describe(t.Elem(), tags{}, "")
		if err != nil {
			return "", err
		}
		return "(TSlice " + e + ")", nil
	case k == reflect.Array:
		e, err := describe(t.Elem(), tags{}, "")
		if err != nil {
			return "", err
		}
		return fmt.Sprintf("(TArr %d %s)", t.Len(), e), nil
	case k == reflect.Struct:
		var fs []string
		tail := "None"
		for i := 0; i < t.NumField(); i++ {
			f := t.Field(i)
			if f.PkgPath != "" {
				continue
			}
			ft := parseTag(f)
			if ft.ignored {
				continue
			}
			if ft.tail {
				e, err := describe(f.Type.Elem(), tags{}, "")
				if err != nil {
					return "", err
				}
				tail = "(Some " + e + ")"
				continue
			}
			d, err := describe(f.Type, ft, f.Name)
			if err != nil {
				return "", fmt.Errorf("%v.%s: %w", t0, f.Name, err)
			}
			fs = append(fs, d)
		}
		return "(TStruct [" + strings.Join(fs, "; ") + "] " + tail + ")", nil
	case k == reflect.Ptr:
		e, err := describe(t.Elem(), tags{}, "")
		if err != nil {
			return "", err
		}
		if tg.nilOK {
			return "(TNilPtr " + e + ")", nil
		}
		return "(TPtr " + e + ")", nil
	case k == reflect.Interface && t.NumMethod() == 0:
		return "TIface", nil
	}
	return "", fmt.Errorf("type %v not RLP-serialisable", t)
}

// WireType maps t to a plain data type with the same RLP shape: custom-coder
// types are replaced by the struct they delegate to, recursively (built with
// reflect.StructOf / SliceOf / PtrTo), ignored fields dropped, tags kept.
func WireType(t reflect.Type) reflect.Type {
	t = Wire(t)
	switch k := t.Kind(); {
	case t == bigInt, t == rawValue:
		return t
	case k == reflect.Ptr:
		return reflect.PtrTo(WireType(t.Elem()))
	case k == reflect.Slice && t.Elem().Kind() != reflect.Uint8:
		return reflect.SliceOf(WireType(t.Elem()))
	case k == reflect.Array && t.Elem().Kind() != reflect.Uint8:
		return reflect.ArrayOf(t.Len(), WireType(t.Elem()))
	case k == reflect.Struct:
		var fs []reflect.StructField
		for i := 0; i < t.NumField(); i++ {
			f := t.Field(i)
			if f.PkgPath != "" || parseTag(f).ignored {
				continue
			}
			fs = append(fs, reflect.StructField{Name: f.Name, Type: WireType(f.Type), Tag: f.Tag})
		}
		return reflect.StructOf(fs)
	}
	return t
}

// Fill builds a random value of the wire form of t (so that it can be encoded
// with rlp.EncodeToBytes and the bytes decoded into the public type).
func Fill(r *vh.RNG, t reflect.Type, depth int) reflect.Value {
	return fill(r, WireType(t), tags{}, "", depth)
}

func fill(r *vh.RNG, t reflect.Type, tg tags, fieldName string, depth int) reflect.Value {
	v := reflect.New(t).Elem()
	k := t.Kind()
	switch {
	case t == bigInt:
		v.Set(reflect.ValueOf(*randBig(r)))
	case k == reflect.Ptr && t.Elem() == bigInt:
		v.Set(reflect.ValueOf(randBig(r)))
	case k >= reflect.Uint && k <= reflect.Uintptr:
		var x uint64
		switch r.Intn(6) {
		case 0:
			x = 0
		case 1:
			x = uint64(r.Intn(128))
		case 2:
			x = 128 + uint64(r.Intn(128))
		case 3:
			x = 1 << uint(r.Intn(t.Bits()))
		case 4:
			x = ^uint64(0)
		default:
			x = r.Uint64()
		}
		if t.Bits() < 64 {
			x &= (1 << uint(t.Bits())) - 1
		}
		v.SetUint(x)
	case k == reflect.Bool:
		v.SetBool(r.Bool())
	case k == reflect.String:
		v.SetString(string(r.Bytes(r.Intn(5))))
	case k == reflect.Slice && t.Elem().Kind() == reflect.Uint8:
		if fieldName == types.VerifStatusField {
			switch r.Intn(3) {
			case 0:
				v.SetBytes([]byte{1})
			case 1:
				v.SetBytes([]byte{})
			default:
				v.SetBytes(r.Bytes(32))
			}
		} else {
			n := []int{0, 0, 1, 1, 2, 32, 55, 56, 60}[r.Intn(9)]
			b := r.Bytes(n)
			if n == 1 && r.Bool() {
				b[0] = byte(r.Intn(128))
			}
			v.SetBytes(b)
		}
	case k == reflect.Array && t.Elem().Kind() == reflect.Uint8:
		if r.Chance(25) {
			break // all zero
		}
		b := r.Bytes(t.Len())
		if r.Chance(25) {
			b[0] = 0
		}
		reflect.Copy(v, reflect.ValueOf(b))
	case k == reflect.Slice:
		n := 0
		if depth > 0 {
			n = r.Intn(3)
		}
		s := reflect.MakeSlice(t, n, n)
		for i := 0; i < n; i++ {
			s.Index(i).Set(fill(r, t.Elem(), tags{}, "", depth-1))
		}
		v.Set(s)
	case k == reflect.Array:
		for i := 0; i < t.Len(); i++ {
			v.Index(i).Set(fill(r, t.Elem(), tags{}, "", depth-1))
		}
	case k == reflect.Struct:
		for i := 0; i < t.NumField(); i++ {
			f := t.Field(i)
			if f.PkgPath != "" {
				continue
			}
			ft := parseTag(f)
			if ft.ignored {
				continue
			}
			v.Field(i).Set(fill(r, f.Type, ft, f.Name, depth-1))
		}
	case k == reflect.Interface:
		v.Set(reflect.ValueOf(randItem(r, 2)))
	case k == reflect.Ptr:
		if tg.nilOK && r.Bool() {
			break // nil
		}
		p := reflect.New(t.Elem())
		p.Elem().Set(fill(r, t.Elem(), tags{}, "", depth))
		v.Set(p)
	}
	return v
}

func randItem(r *vh.RNG, depth int) interface{} {
	if depth > 0 && r.Chance(40) {
		n := r.Intn(3)
		l := make([]interface{}, n)
		for i := range l {
			l[i] = randItem(r, depth-1)
		}
		return l
	}
	b := r.Bytes([]int{0, 1, 1, 2, 33}[r.Intn(5)])
	if len(b) == 1 && r.Bool() {
		b[0] = byte(r.Intn(128))
	}
	return b
}

func randBig(r *vh.RNG) *big.Int {
	switch r.Intn(5) {
	case 0:
		return new(big.Int)
	case 1:
		return big.NewInt(int64(r.Intn(256)))
	case 2:
		return new(big.Int).SetUint64(r.Uint64())
	case 3:
		return new(big.Int).Lsh(big.NewInt(1), uint(r.Intn(300)))
	default:
		return new(big.Int).SetBytes(r.Bytes(1 + r.Intn(40)))
	}
}
