package chainlib

import (
	"fmt"
	"strings"

	"gitlab.com/aquachain/aquachain/core"
	"gitlab.com/aquachain/aquachain/verifharness/vh"
)

// Tie between the Coq crash model (Chain/Crash.v open_db on crash_disk) and
// core.NewBlockChain on a materialised crash prefix (archive mode): the model
// session replays the same history; a Go prefix of p write records corresponds
// to the model prefix of k log entries, where k counts the projected records
// (state-commit batches of one block merge into the model's single KState
// record, which only counts once its last batch is inside the prefix).

var c04Model *vh.Model
var c04ModelSessions int

// modelSession feeds the history to a fresh model session; "" if no model is attached.
func (r *c04Run) modelSession() string {
	if c04Model == nil || r.cfg != "archive" {
		return ""
	}
	c04ModelSessions++
	sid := fmt.Sprintf("c%d", c04ModelSessions)
	g := r.t.Blocks[0]
	if a := c04Model.Ask(fmt.Sprintf("init %s 1 %d %d", sid, g.Difficulty(), r.t.Ids.Root[g.Root()])); a != "ok" {
		r.c.Fatal("model init: %s", a)
	}
	for _, op := range r.sc.Ops {
		strs := make([]string, len(op.Nodes))
		for i, n := range op.Nodes {
			strs[i] = r.t.BlockStr(n)
		}
		c04Model.Ask(fmt.Sprintf("insert %s %s %s", sid, Coins(op.Seed, len(op.Nodes)+2), strings.Join(strs, ";")))
	}
	want := r.modelIndex(r.log.L, len(r.log.L))
	r.c.Correspond("aquadb-write-log-length~Store.log_of", "scenario "+r.sc.Name, fmt.Sprint(want), c04Model.Ask("nlog "+sid))
	return sid
}

// modelIndex maps a Go prefix length to the model's prefix length.
func (r *c04Run) modelIndex(L []Rec, p int) int {
	isState := func(rec Rec) (state, empty bool) {
		if len(rec.Ops) == 0 {
			return false, true
		}
		for _, o := range rec.Ops {
			if r.t.Ids.keyStr(o.Key) != "S" {
				return false, false
			}
		}
		return true, false
	}
	k, inS := 0, false
	for i := 0; i < p; i++ {
		st, empty := isState(L[i])
		switch {
		case empty:
		case st:
			if !inS {
				k++
				inS = true
			}
		default:
			k++
			inS = false
		}
	}
	if inS {
		// the state commit is complete only if no further state record follows
		for i := p; i < len(L); i++ {
			st, empty := isState(L[i])
			if empty {
				continue
			}
			if st {
				k--
			}
			break
		}
	}
	return k
}

// correspondOpen compares the outcome of NewBlockChain on the crash disk with open_db in the model.
func (r *c04Run) correspondOpen(sid string, L []Rec, p int, st string, bc *core.BlockChain, d *RecDB) {
	if sid == "" {
		return
	}
	k := r.modelIndex(L, p)
	model := c04Model.Ask(fmt.Sprintf("crash %s %d", sid, k))
	obs := st
	if st == "ok" {
		ids := r.t.Ids
		head := bc.CurrentBlock()
		obs = fmt.Sprintf("ok head=%s hdr=%s canon_at_head=%s", ids.B(head.Hash()), ids.B(bc.CurrentHeader().Hash()), ids.B(core.GetCanonicalHash(d, head.NumberU64())))
	} else {
		f := strings.Fields(model)
		if len(f) > 0 {
			model = f[0]
			if strings.HasPrefix(model, "err:") {
				model = "error"
			}
		}
	}
	r.c.Correspond("NewBlockChain-on-crash-prefix~Crash.open_db", fmt.Sprintf("scenario %s, Go prefix %d = model prefix %d", r.sc.Name, p, k), obs, model)
}
