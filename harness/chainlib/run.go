package chainlib

import (
	"context"
	"crypto/sha1"
	"encoding/binary"
	"encoding/json"
	"fmt"
	"math/big"
	mrand "math/rand"
	"os"
	"strings"
	"time"

	"gitlab.com/aquachain/aquachain/common"
	"gitlab.com/aquachain/aquachain/common/log"
	"gitlab.com/aquachain/aquachain/consensus"
	"gitlab.com/aquachain/aquachain/core"
	"gitlab.com/aquachain/aquachain/core/state"
	"gitlab.com/aquachain/aquachain/core/types"
	"gitlab.com/aquachain/aquachain/core/vm"
	"gitlab.com/aquachain/aquachain/verifharness/vh"
)

// Session is one database + one core.BlockChain + one model session.
type Session struct {
	Name string
	DB   *RecDB
	BC   *core.BlockChain
	Dead bool // a panic / unmodelled branch ended it
	// oracle bookkeeping (from the harness' own knowledge of the tree, not from the model)
	Eligible   map[int]bool // full session: delivered, valid, all ancestors eligible
	HdrElig    map[int]bool // delivered as header (or block) with eligible ancestors
	Shortened  bool         // some insert made the head number go down
	Rewound    map[int]bool // blocks that were canonical above a SetHead target
	Mixed      bool         // headers were fed to a full chain: the C03 statement has no single head any more
	RolledBack map[int]bool // blocks a Rollback ever stepped back over (permanent): Rollback is outside C03's operation set
	Forgiven   map[int]bool // blocks above the head after a Rollback: stored and validated but deliberately un-headed, until re-offered
	Pruning    bool         // session "p": a pruning (non-archive) node; the archive-only model is not consulted, the direct oracle runs alone
}

// tdSnap remembers a *big.Int handed out by a getter and the value it had.
type tdSnap struct {
	what string
	p    *big.Int
	v    string
}

type Runner struct {
	C    *vh.Ctx
	M    *vh.Model
	Prop string // "C02" or "C03"
	T    *Tree
	Sc   *Scenario
	S    map[string]*Session
	uniq int
}

func init() { log.Root().SetHandler(log.DiscardHandler()) }

func (r *Runner) sid(name string) string { return fmt.Sprintf("%s%d", name, r.uniq) }

func (r *Runner) open(s *Session) error {
	cfg := &core.CacheConfig{Disabled: true}
	if s.Pruning {
		// large limits: nothing is flushed during import, states older than triesInMemory are garbage collected
		cfg = &core.CacheConfig{Disabled: false, TrieNodeLimit: 256, TrieTimeLimit: 5 * time.Minute}
	}
	bc, err := core.NewBlockChain(context.Background(), s.DB, cfg, r.T.Config, r.T.Engine, vm.Config{})
	if err != nil {
		return err
	}
	s.BC = bc
	return nil
}

func (r *Runner) newSession(name string) *Session {
	s := &Session{Name: name, DB: NewRecDB(), Eligible: map[int]bool{0: true}, HdrElig: map[int]bool{0: true}, Rewound: map[int]bool{}, Forgiven: map[int]bool{}, RolledBack: map[int]bool{}, Pruning: name == "p"}
	r.T.Gspec.MustCommit(s.DB)
	s.DB.Take() // the genesis writes are the model's initial disk
	g := r.T.Blocks[0]
	if s.Pruning {
		if err := r.open(s); err != nil {
			r.C.Fatal("NewBlockChain (pruning) on a fresh genesis: %v", err)
		}
		r.S[name] = s
		s.DB.Take()
		return s
	}
	if a := r.M.Ask(fmt.Sprintf("init %s 1 %d %d", r.sid(name), g.Difficulty(), r.T.Ids.Root[g.Root()])); a != "ok" {
		r.C.Fatal("model init: %s", a)
	}
	if err := r.open(s); err != nil {
		r.C.Fatal("NewBlockChain on a fresh genesis: %v", err)
	}
	r.S[name] = s
	r.compare(s, "open")
	return s
}

// ---------------------------------------------------------------- observation (raw database + memory heads)

func receiptsKey(h common.Hash, n uint64) []byte {
	k := make([]byte, 0, 41)
	k = append(k, 'r')
	var e [8]byte
	binary.BigEndian.PutUint64(e[:], n)
	k = append(k, e[:]...)
	return append(k, h.Bytes()...)
}

func (r *Runner) lists() (hashes, roots, txs string) {
	hs := make([]string, len(r.T.Blocks))
	for i := range r.T.Blocks {
		hs[i] = fmt.Sprint(r.T.Id(i))
	}
	rs := make([]string, len(r.T.Roots))
	for i := range r.T.Roots {
		rs[i] = fmt.Sprint(i + 1)
	}
	ts := make([]string, len(r.T.AllTxs))
	for i := range r.T.AllTxs {
		ts[i] = fmt.Sprint(i + 1)
	}
	j := func(l []string) string {
		if len(l) == 0 {
			return "-"
		}
		return strings.Join(l, ",")
	}
	return j(hs), j(rs), j(ts)
}

func (r *Runner) observe(s *Session) string {
	t, db, ids := r.T, s.DB, r.T.Ids
	var b strings.Builder
	fmt.Fprintf(&b, "cb=%s ch=%s cf=%s", ids.B(s.BC.CurrentBlock().Hash()), ids.B(s.BC.CurrentHeader().Hash()), ids.B(s.BC.CurrentFastBlock().Hash()))
	fmt.Fprintf(&b, " HB=%s HH=%s HF=%s", ids.B(core.GetHeadBlockHash(db)), ids.B(core.GetHeadHeaderHash(db)), ids.B(core.GetHeadFastBlockHash(db)))
	b.WriteString(" canon=")
	for i := uint64(0); i <= t.MaxNum+2; i++ {
		if i > 0 {
			b.WriteString(",")
		}
		b.WriteString(ids.B(core.GetCanonicalHash(db, i)))
	}
	b.WriteString(" blocks=")
	for i, blk := range t.Blocks {
		if i > 0 {
			b.WriteString(",")
		}
		h, n := blk.Hash(), t.Num[i]
		td := "-"
		if x := core.GetTd(db, h, n); x != nil {
			td = hexBig(x)
		}
		fl := func(ok bool, c string) string {
			if ok {
				return c
			}
			return "-"
		}
		rc, _ := db.Get(receiptsKey(h, n))
		fmt.Fprintf(&b, "%d:%s:%s%s%s%s", t.Id(i), td, fl(len(core.GetHeaderRLP(db, h, n)) > 0, "h"), fl(len(core.GetBodyRLP(db, h, n)) > 0, "b"),
			fl(len(rc) > 0, "r"), fl(core.GetBlockNumber(db, h) != ^uint64(0), "n"))
	}
	b.WriteString(" states=")
	for i, root := range t.Roots {
		if i > 0 {
			b.WriteString(",")
		}
		_, err := state.New(root, state.NewDatabase(db))
		if err == nil {
			fmt.Fprintf(&b, "%d:1", i+1)
		} else {
			fmt.Fprintf(&b, "%d:0", i+1)
		}
	}
	b.WriteString(" txs=")
	for i, th := range t.AllTxs {
		if i > 0 {
			b.WriteString(",")
		}
		lk, gt, gr := "-", "-", "-"
		if bh, n, idx := core.GetTxLookupEntry(db, th); bh != (common.Hash{}) {
			lk = fmt.Sprintf("%s/%d/%d", ids.B(bh), n, idx)
		}
		if tx, bh, n, idx := core.GetTransaction(db, th); tx != nil {
			gt = fmt.Sprintf("%s/%d/%d", ids.B(bh), n, idx)
		}
		if rc, bh, n, idx := core.GetReceipt(db, th); rc != nil {
			gr = fmt.Sprintf("%s/%d/%d", ids.B(bh), n, idx)
		}
		fmt.Fprintf(&b, "%d:%s:%s:%s", i+1, lk, gt, gr)
	}
	return b.String()
}

// apiCoherent checks that the cached BlockChain getters agree with the raw
// database (the model treats the LRU caches as transparent).
func (r *Runner) apiCoherent(s *Session) string {
	t := r.T
	for i, blk := range t.Blocks {
		h, n := blk.Hash(), t.Num[i]
		raw := core.GetTd(s.DB, h, n)
		api := s.BC.GetTd(h, n)
		if (raw == nil) != (api == nil) || (raw != nil && raw.Cmp(api) != 0) {
			return fmt.Sprintf("td of node %d: raw %v api %v", i, raw, api)
		}
		if (len(core.GetHeaderRLP(s.DB, h, n)) > 0) != (s.BC.GetHeader(h, n) != nil) {
			return fmt.Sprintf("header of node %d: raw/api presence differ", i)
		}
		hasBlock := len(core.GetHeaderRLP(s.DB, h, n)) > 0 && len(core.GetBodyRLP(s.DB, h, n)) > 0
		if hasBlock != (s.BC.GetBlock(h, n) != nil) {
			return fmt.Sprintf("block of node %d: raw/api presence differ", i)
		}
	}
	return "coherent"
}

func (r *Runner) compare(s *Session, what string) {
	hs, rs, ts := r.lists()
	cas := fmt.Sprintf("scenario %s, session %s, after %s", r.Sc.Name, s.Name, what)
	if os.Getenv("CHAIN_DEBUG") != "" {
		fmt.Fprintln(os.Stderr, cas, "\n  OBS", r.observe(s), "\n  LOG", r.T.Ids.Project(append([]Rec(nil), s.DB.Log...)))
	}
	r.C.Correspond("BlockChain-state~Store.st", cas, r.observe(s), r.M.Ask(fmt.Sprintf("obs %s %d %s %s %s", r.sid(s.Name), r.T.MaxNum+2, hs, rs, ts)))
	r.C.Correspond("aquadb-write-log~Store.log_of", cas, r.T.Ids.Project(s.DB.Take()), MergeS(r.M.Ask("log "+r.sid(s.Name))))
	r.C.Correspond("lru-caches-transparent", cas, r.apiCoherent(s), "coherent")
}

// ---------------------------------------------------------------- operations

func errKind(err error) string {
	if err == nil {
		return "ok"
	}
	m := err.Error()
	switch {
	case err == consensus.ErrUnknownAncestor:
		return "err:unknown-ancestor"
	case strings.Contains(m, "invalid gas used"):
		return "err:invalid-block"
	case strings.Contains(m, "invalid old chain"):
		return "err:invalid-old-chain"
	case strings.Contains(m, "invalid new chain"):
		return "err:invalid-new-chain"
	case strings.Contains(m, "missing trie node"):
		return "err:state-missing"
	case strings.Contains(m, "non contiguous"):
		return "err:non-contiguous"
	case err == core.ErrNoGenesis:
		return "err:no-genesis"
	}
	return "err:?" + m
}

// Coins are the outcomes of mrand.Float64() < 0.5 after mrand.Seed(seed).
func Coins(seed int64, n int) string {
	g := mrand.New(mrand.NewSource(seed))
	var b strings.Builder
	for i := 0; i < n; i++ {
		if g.Float64() < 0.5 {
			b.WriteByte('1')
		} else {
			b.WriteByte('0')
		}
	}
	return b.String()
}

// Apply runs one operation on the implementation and on the model, compares, and runs the oracles.
func (r *Runner) Apply(k int, op OpSpec) {
	s := r.S[op.Sess]
	if s == nil {
		s = r.newSession(op.Sess)
	}
	if s.Dead {
		return
	}
	t := r.T
	headBefore := t.ByHash[s.BC.CurrentBlock().Hash()]
	hdrBefore := t.ByHash[s.BC.CurrentHeader().Hash()]
	var impl, ask string
	what := fmt.Sprintf("op %d %s", k, op.Kind)
	snaps := r.snapshotBigInts(s)
	panicked, pv := vh.CatchPanic(func() {
		switch op.Kind {
		case "insert":
			blocks := make(types.Blocks, len(op.Nodes))
			strs := make([]string, len(op.Nodes))
			for i, n := range op.Nodes {
				blocks[i] = t.Blocks[n]
				strs[i] = t.BlockStr(n)
			}
			ask = fmt.Sprintf("insert %s %s %s", r.sid(s.Name), Coins(op.Seed, len(op.Nodes)+2), strings.Join(strs, ";"))
			mrand.Seed(op.Seed)
			n, err := s.BC.InsertChain(blocks)
			impl = fmt.Sprintf("%s %d", errKind(err), n)
		case "headers":
			hdrs := make([]*types.Header, len(op.Nodes))
			strs := make([]string, len(op.Nodes))
			for i, n := range op.Nodes {
				hdrs[i] = t.Blocks[n].Header()
				strs[i] = t.HeaderStr(n)
			}
			ask = fmt.Sprintf("headers %s %s %s", r.sid(s.Name), Coins(op.Seed, len(op.Nodes)+2), strings.Join(strs, ";"))
			mrand.Seed(op.Seed)
			n, err := s.BC.InsertHeaderChain(hdrs, 1)
			impl = fmt.Sprintf("%s %d", errKind(err), n)
		case "sethead":
			ask = fmt.Sprintf("sethead %s %d", r.sid(s.Name), op.N)
			impl = errKind(s.BC.SetHead(op.N)) + " 0"
		case "rollback":
			hashes := make([]common.Hash, len(op.Nodes))
			strs := make([]string, len(op.Nodes))
			for i, n := range op.Nodes {
				hashes[i] = t.Blocks[n].Hash()
				strs[i] = fmt.Sprint(t.Id(n))
			}
			ask = fmt.Sprintf("rollback %s %s", r.sid(s.Name), strings.Join(strs, ","))
			s.BC.Rollback(hashes)
			impl = "ok 0"
		case "reopen":
			ask = "reopen " + r.sid(s.Name)
			s.BC.Stop()
			impl = errKind(r.open(s)) + " 0"
		default:
			r.C.Fatal("unknown op kind %q", op.Kind)
		}
	})
	model := impl
	if !s.Pruning {
		model = r.M.Ask(ask)
	}
	if panicked {
		impl = "panic"
		if strings.HasPrefix(model, "panic") {
			model = "panic"
		}
		sig, what := r.classifyPanic(s, k, op, fmt.Sprint(pv))
		r.C.Violate(sig, what, map[string]interface{}{"scenario": r.Sc, "failing_op": k, "panic": fmt.Sprint(pv)})
		s.Dead = true
	}
	cas := fmt.Sprintf("scenario %s, session %s, %s %v n=%d", r.Sc.Name, s.Name, what, op.Nodes, op.N)
	r.C.Correspond("chain-op-result~Store.status", cas, impl, model)
	if s.Dead || strings.HasPrefix(model, "unmodelled") || strings.HasPrefix(model, "fuel") || strings.HasPrefix(model, "nocoin") {
		s.Dead = true
		return
	}
	if s.Pruning {
		if os.Getenv("CHAIN_DEBUG") != "" {
			fmt.Fprintln(os.Stderr, "PRUNING", r.Sc.Name, what, op.Nodes, "->", impl, "head", r.T.ByHash[s.BC.CurrentBlock().Hash()], "log", clipStr(r.T.Ids.Project(append([]Rec(nil), s.DB.Log...)), 300))
		}
		s.DB.Take()
		if why := r.apiCoherent(s); why != "coherent" {
			r.C.Violate(fmt.Sprintf("cache-disagrees-with-database/%s/op%d", r.Sc.Name, k), "a cached BlockChain getter disagrees with the database: "+why, r.replay(k, nil))
		}
	} else {
		r.compare(s, what)
	}
	r.checkBigInts(s, k, snaps)

	// ---- bookkeeping + classification of what happened (for the evidence distribution)
	headAfter := t.ByHash[s.BC.CurrentBlock().Hash()]
	class := op.Sess + ":" + op.Kind
	switch op.Kind {
	case "insert":
		for _, n := range op.Nodes { // a re-offered branch counts again
			if t.Spec[n].Valid && (s.Eligible[n] || s.Eligible[t.Spec[n].Parent]) {
				for a := n; a != 0; a = t.Spec[a].Parent {
					delete(s.Forgiven, a)
				}
			}
		}
		if s.Name == "f" || s.Name == "m" || s.Name == "p" {
			for _, n := range op.Nodes {
				if t.Spec[n].Valid && s.Eligible[t.Spec[n].Parent] {
					s.Eligible[n] = true
					s.HdrElig[n] = true
				} else if !s.Eligible[n] {
					break
				}
			}
		}
		switch {
		case !strings.HasPrefix(impl, "ok"):
			class += ":" + strings.Fields(impl)[0]
		case headAfter == headBefore:
			class += ":side-or-known"
		case t.Spec[headAfter].Parent == headBefore && len(op.Nodes) == 1:
			class += ":extend"
		case t.IsAncestor(headBefore, headAfter):
			class += ":extend-many"
		case t.Num[headAfter] < t.Num[headBefore]:
			class += ":reorg-shorter"
			s.Shortened = true
		case t.Num[headAfter] == t.Num[headBefore]:
			class += ":reorg-same-height"
		default:
			class += ":reorg-longer"
		}
		// the known stale-number mechanism needs a switch to ANOTHER, shorter branch
		if t.Num[headAfter] < t.Num[headBefore] && !t.IsAncestor(headAfter, headBefore) {
			s.Shortened = true
		}
		if hdrAfter, ok := t.ByHash[s.BC.CurrentHeader().Hash()]; ok && t.Num[hdrAfter] < t.Num[hdrBefore] && !t.IsAncestor(hdrAfter, hdrBefore) {
			s.Shortened = true // a block import pulled the header head over to a shorter branch
		}
	case "headers":
		for _, n := range op.Nodes {
			if s.HdrElig[t.Spec[n].Parent] {
				s.HdrElig[n] = true
			}
		}
		if !strings.HasPrefix(impl, "ok") {
			class += ":" + strings.Fields(impl)[0]
		}
	case "rollback":
		for b := headBefore; b != 0 && b != headAfter && t.Num[b] > t.Num[headAfter]; b = t.Spec[b].Parent {
			s.Forgiven[b] = true
			s.RolledBack[b] = true
		}
		// the head was lowered on purpose: whatever is heavier than it now (side branches included)
		// does not count against it until it is offered again
		if headAfter != headBefore {
			for i := range t.Blocks {
				if s.Eligible[i] && t.TrueTd[i].Cmp(t.TrueTd[headAfter]) > 0 {
					s.Forgiven[i] = true
				}
			}
		}
	case "sethead":
		for _, from := range []int{headBefore, hdrBefore} {
			for b := from; b != 0 && t.Num[b] > op.N; b = t.Spec[b].Parent {
				s.Rewound[b] = true
			}
		}
		// the block head can fall further than the target (a pruning node whose rewound state is
		// gone falls back to the genesis block): those blocks were rewound by this SetHead too
		for b := headBefore; b != 0 && t.Num[b] > t.Num[headAfter]; b = t.Spec[b].Parent {
			s.Rewound[b] = true
		}
		if op.N >= t.Num[hdrBefore] {
			class += ":noop"
		}
	}
	nt := ""
	if strings.Contains(class, "reorg") || op.Kind == "sethead" || op.Kind == "reopen" || op.Kind == "headers" {
		nt = fmt.Sprintf("%s/%d", r.Sc.Name, k)
	}
	r.C.Eval(class, nt)

	// ---- direct oracle: the property statements on the implementation
	r.oracleSound(s, k)
	if r.Prop == "C02" || s.Pruning {
		r.oracleC02(s, k, op, headBefore, hdrBefore)
	}
	if r.Prop != "C02" {
		r.oracleHeaderCleanup(s, k, op, hdrBefore)
		r.oracleC03(s, k, op)
		r.oracleReceipts(s, k)
	}
}

// classifyPanic recognises the two known panics by the exact shape of the
// history that causes them (checked on the database and on the harness' own
// bookkeeping, not on the panic text alone); every other panic gets a
// signature that embeds a hash of the concrete scenario, so a new nil
// dereference can never hide behind a known one.
func (r *Runner) classifyPanic(s *Session, k int, op OpSpec, msg string) (string, string) {
	t, db := r.T, s.DB
	nilDeref := strings.Contains(msg, "nil pointer dereference")
	hasHdr := func(n int) bool { return len(core.GetHeaderRLP(db, t.Blocks[n].Hash(), t.Num[n])) > 0 }
	hasBody := func(n int) bool { return len(core.GetBodyRLP(db, t.Blocks[n].Hash(), t.Num[n])) > 0 }
	hasTd := func(n int) bool { return core.GetTd(db, t.Blocks[n].Hash(), t.Num[n]) != nil }
	if nilDeref && op.Kind == "headers" && len(s.Rewound) > 0 {
		// HeaderChain.WriteHeader: an imported header whose parent still has its TD (a side
		// header that survived the rewind) but one of whose ancestors was removed by SetHead:
		// the canonical-number rewrite loop walks into the removed header
		for _, n := range op.Nodes {
			p := t.Spec[n].Parent
			if n == 0 || !hasTd(p) {
				continue
			}
			for a := p; a != 0; a = t.Spec[a].Parent {
				if s.Rewound[a] && !hasHdr(a) {
					return "headers-panic-side-header-after-sethead",
						"HeaderChain.WriteHeader dereferences a nil headHeader when an imported header extends a side header (TD still stored) whose ancestor was removed by SetHead"
				}
			}
		}
	}
	if nilDeref && op.Kind == "insert" && len(s.Rewound) > 0 && len(op.Nodes) > 0 {
		// insertChain2, i == 0: the first block is known (header, body, state on disk, above the
		// rewound head) and its parent block was removed by SetHead: parent.Root() on nil
		n := op.Nodes[0]
		p := t.Spec[n].Parent
		if n != 0 && hasHdr(n) && hasBody(n) && s.Rewound[p] && (!hasHdr(p) || !hasBody(p)) && t.Num[n] > s.BC.CurrentBlock().NumberU64() {
			return "insert-panic-known-side-block-parent-removed-by-sethead",
				"InsertChain re-imports a known side block whose parent block was removed by SetHead and calls parent.Root() on the nil result of GetBlock"
		}
	}
	raw, _ := json.Marshal(map[string]interface{}{"sc": r.Sc, "k": k})
	if len(msg) > 80 {
		msg = msg[:80]
	}
	return fmt.Sprintf("chain-op-panics/%s/%x/%s", op.Kind, sha1.Sum(raw), msg), "a chain operation panics on a history of well-formed blocks"
}

// snapshotBigInts collects the *big.Int values the chain hands out (GetTd for
// every block, the difficulty inside every tree block) with their current
// values; checkBigInts verifies after the operation that none of them was
// mutated in place (aliasing of cache entries / header fields).
func (r *Runner) snapshotBigInts(s *Session) []tdSnap {
	var out []tdSnap
	for i, b := range r.T.Blocks {
		if td := s.BC.GetTd(b.Hash(), r.T.Num[i]); td != nil {
			out = append(out, tdSnap{fmt.Sprintf("GetTd(node %d)", i), td, td.String()})
		}
	}
	return out
}

func (r *Runner) checkBigInts(s *Session, k int, snaps []tdSnap) {
	for _, sn := range snaps {
		if sn.p.String() != sn.v {
			r.C.Violate(fmt.Sprintf("bigint-mutated-in-place/%s/op%d/%s", r.Sc.Name, k, sn.what), "a *big.Int returned by a getter before the operation was changed by it: "+sn.what+" was "+sn.v+" now "+sn.p.String(), r.replay(k, nil))
			break
		}
	}
	for i, b := range r.T.Blocks {
		if i > 0 && b.Difficulty().Int64() != r.T.Spec[i].Diff {
			r.C.Violate(fmt.Sprintf("block-difficulty-mutated/%s/op%d/node%d", r.Sc.Name, k, i), "the difficulty inside a delivered block object was changed by a chain operation", r.replay(k, nil))
			break
		}
	}
}

func clipStr(s string, n int) string {
	if len(s) > n {
		return s[:n] + "..."
	}
	return s
}

func (r *Runner) replay(k int, extra map[string]interface{}) map[string]interface{} {
	m := map[string]interface{}{"scenario": r.Sc, "failing_op": k}
	for a, b := range extra {
		m[a] = b
	}
	return m
}

// oracleSound: the part of "number index, head pointers and lookups are mutually consistent" that holds after
// EVERY operation of every session (full, header-only, mixed, pruning; SetHead, Rollback, header imports
// included) - Coq: Chain/ChainAllOps.v sound_all_ops.  Records that are on disk are never wrong about
// content: a height maps only to a block of that height, a hash->number record holds the block's number, a
// stored TD is the sum of difficulties, a lookup entry names a block that contains the transaction at that
// index, and the head pointers name delivered blocks.
func (r *Runner) oracleSound(s *Session, k int) {
	t := r.T
	tag := fmt.Sprintf("%s/%s/op%d", r.Sc.Name, s.Name, k)
	for n := uint64(0); n <= t.MaxNum+2; n++ {
		h := core.GetCanonicalHash(s.DB, n)
		if h == (common.Hash{}) {
			continue
		}
		if x, ok := t.ByHash[h]; !ok || t.Num[x] != n {
			r.C.Violate("index-entry-wrong-height/"+tag, "the number index maps a height to a block of another height (or to an unknown hash)", r.replay(k, map[string]interface{}{"height": n, "got": t.Ids.B(h)}))
			break
		}
	}
	for i, b := range t.Blocks {
		if n := core.GetBlockNumber(s.DB, b.Hash()); n != ^uint64(0) && n != t.Num[i] {
			r.C.Violate("hash-number-record-wrong/"+tag, "the hash->number record of a block holds another number", r.replay(k, map[string]interface{}{"node": i, "got": n}))
			break
		}
		if td := core.GetTd(s.DB, b.Hash(), t.Num[i]); td != nil && td.Cmp(t.TrueTd[i]) != 0 {
			r.C.Violate("td-additive/database/"+tag, "a stored total difficulty is not the sum of the difficulties of the block and its ancestors", r.replay(k, map[string]interface{}{"node": i, "td": td.String(), "want": t.TrueTd[i].String()}))
			break
		}
	}
	for ti, th := range t.AllTxs {
		bh, num, idx := core.GetTxLookupEntry(s.DB, th)
		if bh == (common.Hash{}) {
			continue
		}
		x, ok := t.ByHash[bh]
		if !ok || t.Num[x] != num || int(idx) >= len(t.TxsOf[x]) || t.TxsOf[x][idx] != th {
			r.C.Violate("lookup-entry-wrong-content/"+tag, "a transaction lookup entry names a block / number / index that does not hold the transaction", r.replay(k, map[string]interface{}{"tx": ti + 1, "entry": t.Ids.B(bh), "number": num, "index": idx}))
			break
		}
	}
	for name, h := range map[string]common.Hash{"LastBlock": core.GetHeadBlockHash(s.DB), "LastHeader": core.GetHeadHeaderHash(s.DB), "LastFast": core.GetHeadFastBlockHash(s.DB)} {
		if _, ok := t.ByHash[h]; h != (common.Hash{}) && !ok {
			r.C.Violate("head-pointer-unknown-block/"+tag, "a head pointer names a hash that was never delivered: "+name, r.replay(k, nil))
		}
	}
}

// oracleReceipts: "transaction lookups resolve to the receipts of the canonical block".  For every block of
// the block head's chain that the number index names: its receipts are stored, there is one per
// transaction, and every transaction whose lookup entry names this block resolves through GetReceipt to a
// receipt with that transaction hash, block hash and index.
func (r *Runner) oracleReceipts(s *Session, k int) {
	if s.Name == "h" || s.Dead {
		return
	}
	t := r.T
	head, ok := t.ByHash[s.BC.CurrentBlock().Hash()]
	if !ok {
		return
	}
	tag := fmt.Sprintf("%s/%s/op%d", r.Sc.Name, s.Name, k)
	for b := head; b != 0; b = t.Spec[b].Parent {
		h, n := t.Blocks[b].Hash(), t.Num[b]
		if core.GetCanonicalHash(s.DB, n) != h || len(core.GetBodyRLP(s.DB, h, n)) == 0 {
			continue // reported by the number-index / data clauses
		}
		rcs := core.GetBlockReceipts(s.DB, h, n)
		if rcs == nil || len(rcs) != len(t.TxsOf[b]) {
			if rcs == nil && len(t.TxsOf[b]) == 0 && s.Pruning {
				continue // an EMPTY receipt-less block on a pruning node: the known pruned-side-block class, reported by the data clause
			}
			r.C.Violate("canonical-block-without-receipts/"+tag, "a canonical block's receipts are not stored (or not one per transaction): GetBlockReceipts / GetReceiptsByHash cannot serve it",
				r.replay(k, map[string]interface{}{"node": b, "height": n, "transactions": len(t.TxsOf[b]), "receipts": len(rcs), "receipts_missing": rcs == nil}))
			return
		}
		for i, th := range t.TxsOf[b] {
			lb, _, li := core.GetTxLookupEntry(s.DB, th)
			if lb != h {
				continue // the lookup clause reports entries that are missing or point elsewhere
			}
			rc, rb, _, ri := core.GetReceipt(s.DB, th)
			if rc == nil || rc.TxHash != th || rb != h || ri != uint64(i) || li != uint64(i) {
				r.C.Violate("lookup-receipt-mismatch/"+tag, "a transaction's lookup entry names a canonical block but GetReceipt does not return that transaction's receipt at that block and index",
					r.replay(k, map[string]interface{}{"node": b, "tx_index": i, "receipt_found": rc != nil}))
				return
			}
		}
	}
}

// C02: td additive, head td monotone, head heaviest among fully validated delivered blocks.
func (r *Runner) oracleC02(s *Session, k int, op OpSpec, headBefore, hdrBefore int) {
	t := r.T
	tag := fmt.Sprintf("%s/op%d", r.Sc.Name, k)
	// every stored TD, read through the cached getter AND straight from the database, is the
	// parent's plus the block's difficulty and equals the sum of difficulties from the tree spec
	for i := 1; i < len(t.Blocks); i++ {
		h, n := t.Blocks[i].Hash(), t.Num[i]
		p := t.Spec[i].Parent
		ph, pn := t.Blocks[p].Hash(), t.Num[p]
		for _, src := range []struct {
			name    string
			td, ptd *big.Int
		}{{"cache", s.BC.GetTd(h, n), s.BC.GetTd(ph, pn)}, {"database", core.GetTd(s.DB, h, n), core.GetTd(s.DB, ph, pn)}} {
			td, ptd := src.td, src.ptd
			if td == nil {
				continue
			}
			if td.Cmp(t.TrueTd[i]) != 0 {
				r.C.Violate("td-additive/"+src.name+"/"+tag, "a stored total difficulty is not the sum of the difficulties of the block and its ancestors", r.replay(k, map[string]interface{}{"node": i, "td": td.String(), "want": t.TrueTd[i].String(), "read_from": src.name}))
				continue
			}
			if ptd == nil {
				if op.Kind == "sethead" || len(s.Rewound) > 0 {
					continue // a rewind removes the TD of rewound canonical blocks but keeps their side children
				}
				r.C.Violate("td-additive/parent-td-missing/"+tag, "a stored block's parent has no total difficulty", r.replay(k, map[string]interface{}{"node": i, "read_from": src.name}))
				continue
			}
			if new(big.Int).Add(ptd, t.Blocks[i].Difficulty()).Cmp(td) != 0 {
				r.C.Violate("td-additive/"+src.name+"/"+tag, "td(b) != td(parent b) + difficulty(b)", r.replay(k, map[string]interface{}{"node": i, "td": td.String(), "parent_td": ptd.String(), "read_from": src.name}))
			}
		}
	}
	if s.Mixed || len(s.Rewound) > 0 {
		return
	}
	if s.Name == "f" || s.Name == "p" {
		head, ok := t.ByHash[s.BC.CurrentBlock().Hash()]
		if !ok {
			r.C.Violate("head-unknown-block/"+tag, "the head is not a block that was delivered", r.replay(k, nil))
			return
		}
		if op.Kind != "rollback" && t.TrueTd[head].Cmp(t.TrueTd[headBefore]) < 0 {
			r.C.Violate("head-td-decreased/"+tag, "the head's total difficulty decreased", r.replay(k, map[string]interface{}{"before": headBefore, "after": head}))
		}
		if !s.Eligible[head] {
			r.C.Violate("head-not-validated/"+tag, "the head is not a fully validated delivered block", r.replay(k, map[string]interface{}{"head": head}))
		}
		for i := range t.Blocks {
			if s.Eligible[i] && !s.Forgiven[i] && t.TrueTd[i].Cmp(t.TrueTd[head]) > 0 {
				r.C.Violate("head-not-heaviest/"+tag, "a fully validated delivered block is heavier than the head", r.replay(k, map[string]interface{}{"head": head, "heavier": i}))
				break
			}
		}
	}
	if s.Name == "h" {
		head, ok := t.ByHash[s.BC.CurrentHeader().Hash()]
		if !ok {
			return
		}
		if t.TrueTd[head].Cmp(t.TrueTd[hdrBefore]) < 0 {
			r.C.Violate("header-head-td-decreased/"+tag, "the header head's total difficulty decreased", r.replay(k, nil))
		}
		for i := range t.Blocks {
			if s.HdrElig[i] && t.TrueTd[i].Cmp(t.TrueTd[head]) > 0 {
				r.C.Violate("header-head-not-heaviest/"+tag, "a delivered header is heavier than the header head", r.replay(k, map[string]interface{}{"head": head, "heavier": i}))
				break
			}
		}
	}
}

// C03: CanonOK at rest.
func (r *Runner) oracleC03(s *Session, k int, op OpSpec) {
	if s.Mixed {
		return
	}
	t, bc := r.T, s.BC
	tag := fmt.Sprintf("%s/op%d", r.Sc.Name, k)
	full := s.Name != "h"
	// "the head" of C03: the block head for full imports, the header head for header-first
	// imports.  When a full chain's header head runs AHEAD of its block head on the same branch
	// (headers imported first, bodies later; SetHead on a pruning node that falls back to an
	// older block), the number index must describe the header head's chain, body/receipts
	// are due up to the block head, lookups refer to the block head's chain.  When the header
	// chain is on another branch than the blocks (which HeaderChain.WriteHeader documents as
	// unsupported), C03 names no single head: the session leaves the oracle for good.
	hdrHead, okh := t.ByHash[bc.CurrentHeader().Hash()]
	blkHead, okb := t.ByHash[bc.CurrentBlock().Hash()]
	if !okh || !okb {
		r.C.Violate("head-unknown-block/"+tag, "the head is not a delivered block", r.replay(k, nil))
		return
	}
	head, dataHead := blkHead, blkHead
	if !full {
		head, dataHead = hdrHead, 0
	} else if hdrHead != blkHead {
		if !t.IsAncestor(blkHead, hdrHead) {
			r.C.Count("header-chain-left-the-block-chain:" + s.Name)
			s.Mixed = true
			return
		}
		r.C.Count("oracle-with-header-head-ahead:" + s.Name)
		head = hdrHead
	}
	headerOnly := func(n uint64) bool { return !full || n > t.Num[dataHead] }
	// (1) below the head: number n maps to the head's ancestor at n; (3) its data is retrievable
	for n := uint64(0); n <= t.Num[head]; n++ {
		anc := t.AncestorAt(head, n)
		want := t.Blocks[anc].Hash()
		var got common.Hash
		if !headerOnly(n) {
			if b := bc.GetBlockByNumber(n); b != nil {
				got = b.Hash()
			}
		} else if h := bc.GetHeaderByNumber(n); h != nil {
			got = h.Hash()
		}
		if got != want && len(s.Rewound) > 0 {
			// known mechanism: SetHead removed headers on the then-current chain but kept the side
			// headers (and TDs) that hang off them; a later header import on such an orphaned side
			// header is accepted - WriteHeader only checks the parent's TD, and its number-rewrite
			// loop stops at a stale entry left by an earlier shorter-heavier reorg instead of running
			// into the missing ancestor - so the header head's chain has ancestors that are gone
			orphaned := false
			for a := head; a != 0; a = t.Spec[a].Parent {
				if s.Rewound[a] && bc.GetHeader(t.Blocks[a].Hash(), t.Num[a]) == nil {
					orphaned = true
				}
			}
			if orphaned && op.Kind != "sethead" {
				r.C.Violate("headers-accepted-on-orphaned-side-header-after-sethead", "a header was accepted on top of a side header whose ancestors SetHead removed (no panic this time: the number-rewrite loop of WriteHeader stopped at a stale entry): the header head's chain has missing ancestors and heights without a number entry",
					r.replay(k, map[string]interface{}{"height": n, "want_node": anc, "got": t.Ids.B(got)}))
				return
			}
		}
		if got != want {
			r.C.Violate("canon-below-head/"+tag, "a height at or below the head does not map to the head's ancestor", r.replay(k, map[string]interface{}{"height": n, "want_node": anc, "got": t.Ids.B(got)}))
			continue
		}
		miss := ""
		if bc.GetHeader(want, n) == nil {
			miss += "header "
		}
		if bc.GetTd(want, n) == nil {
			miss += "td "
		}
		if !headerOnly(n) {
			if bc.GetBody(want) == nil {
				miss += "body "
			}
			if bc.GetReceiptsByHash(want) == nil {
				miss += "receipts "
			}
		}
		if miss != "" {
			// known mechanism: on a pruning node a side block whose parent state is gone is stored by
			// WriteBlockWithoutState (no receipts, no state); if its state root happens to exist
			// (a sibling with the same content has it) the next block imports on top of it without
			// the winner re-execution, and a reorg makes the receipt-less block canonical
			sharedRoot := false
			for j, b := range t.Blocks {
				if j != anc && b.Root() == t.Blocks[anc].Root() {
					sharedRoot = true
				}
			}
			if s.Pruning && miss == "receipts " && sharedRoot && anc != 0 && len(t.TxsOf[anc]) == 0 {
				r.C.Violate("pruned-side-block-canonical-without-receipts", "a block stored through the ErrPrunedAncestor path (WriteBlockWithoutState: no receipts) became canonical without being re-executed because its state root already existed: GetReceiptsByHash returns nil for a canonical block",
					r.replay(k, map[string]interface{}{"height": n, "node": anc}))
			} else {
				r.C.Violate("canonical-data-missing/"+tag, "data of a canonical block is not retrievable: "+miss, r.replay(k, map[string]interface{}{"height": n, "node": anc}))
			}
		}
	}
	// (2) above the head: nothing
	for n := t.Num[head] + 1; n <= t.MaxNum+2; n++ {
		var got common.Hash
		if full {
			if b := bc.GetBlockByNumber(n); b != nil {
				got = b.Hash()
			} else if h := core.GetCanonicalHash(s.DB, n); h != (common.Hash{}) {
				got = h
			}
		} else {
			got = core.GetCanonicalHash(s.DB, n)
		}
		if got == (common.Hash{}) {
			continue
		}
		x, known := t.ByHash[got]
		if known && s.RolledBack[x] {
			// C03 quantifies over InsertChain / InsertHeaderChain / SetHead histories; Rollback (a downloader-internal,
			// pointer-only operation) is exercised for the model correspondence and the all-ops soundness clauses, but the
			// number entries it leaves for the blocks it stepped back over are outside the property's statement
			continue
		}
		if full && s.Shortened && known && t.Num[x] == n && !t.IsAncestor(x, head) {
			r.C.Violate("reorg-shorter-heavier-stale-canon", "after a reorganisation to a shorter but heavier branch the abandoned blocks stay reachable by number above the new head (GetBlockByNumber(head+k))",
				r.replay(k, map[string]interface{}{"height": n, "head_height": t.Num[head], "stale_node": x}))
		} else {
			r.C.Violate("canon-above-head/"+tag, "a height above the head maps to a block", r.replay(k, map[string]interface{}{"height": n, "got": t.Ids.B(got)}))
		}
	}
	if !full {
		return
	}
	// (4) lookups: resolve iff in a canonical block, and then to that block and index
	for ti, th := range t.AllTxs {
		wantB, wantI := -1, 0
		for b := dataHead; b != 0; b = t.Spec[b].Parent {
			for i, h := range t.TxsOf[b] {
				if h == th {
					wantB, wantI = b, i
				}
			}
		}
		lb, _, li := core.GetTxLookupEntry(s.DB, th)
		tx, gb, _, gi := core.GetTransaction(s.DB, th)
		rc, rb, _, ri := core.GetReceipt(s.DB, th)
		if wantB >= 0 {
			wh := t.Blocks[wantB].Hash()
			if tx == nil || gb != wh || gi != uint64(wantI) || rc == nil || rb != wh || ri != uint64(wantI) {
				r.C.Violate("lookup-missing-or-wrong/"+tag, "a transaction of a canonical block does not resolve to that block and index", r.replay(k, map[string]interface{}{"tx": ti + 1, "want_node": wantB, "want_index": wantI, "got": t.Ids.B(gb)}))
			}
			continue
		}
		if lb == (common.Hash{}) && tx == nil && rc == nil {
			continue
		}
		x, known := t.ByHash[lb]
		if known && s.RolledBack[x] {
			continue // same: the lookup entries (and receipts) of blocks a Rollback stepped back over
		}
		if known && s.Rewound[x] {
			r.C.Violate("sethead-leaves-lookups-receipts", "SetHead deletes the bodies of rewound blocks but keeps their transaction lookup entries and receipts (GetTxLookupEntry / GetReceipt still resolve a transaction that is in no canonical block)",
				r.replay(k, map[string]interface{}{"tx": ti + 1, "entry_points_at_node": x, "receipt_resolves": rc != nil, "transaction_resolves": tx != nil, "lookup_index": li}))
		} else {
			r.C.Violate("lookup-stale/"+tag, "a transaction that is in no canonical block still resolves", r.replay(k, map[string]interface{}{"tx": ti + 1, "entry": t.Ids.B(lb)}))
		}
	}
}

// RunScenario builds the tree, runs every operation, and closes the chains.
func RunScenario(c *vh.Ctx, m *vh.Model, prop string, sc *Scenario, uniq int) {
	r := &Runner{C: c, M: m, Prop: prop, Sc: sc, S: map[string]*Session{}, uniq: uniq}
	r.T = BuildTree(c, sc.Nodes)
	for k, op := range sc.Ops {
		r.Apply(k, op)
	}
	for _, s := range r.S {
		if s.BC != nil {
			s.BC.Stop()
		}
	}
}

// LoadReplay reads the scenario out of a replay file written by ./check.
func LoadReplay(c *vh.Ctx, path string) *Scenario {
	raw, err := os.ReadFile(path)
	if err != nil {
		c.Fatal("replay: %v", err)
	}
	var f struct {
		Replay struct {
			Scenario *Scenario `json:"scenario"`
		} `json:"replay"`
	}
	if err := json.Unmarshal(raw, &f); err != nil || f.Replay.Scenario == nil {
		c.Fatal("replay file has no scenario: %v", err)
	}
	return f.Replay.Scenario
}
