package chainlib

import (
	"bytes"
	"fmt"

	"gitlab.com/aquachain/aquachain/common"
	"gitlab.com/aquachain/aquachain/core/state"
	"gitlab.com/aquachain/aquachain/crypto"
	"gitlab.com/aquachain/aquachain/rlp"
)

// Node-level closure of the trie store (C04: "a node present on disk has all
// its children on disk").  Trie nodes (and contract code) are stored under
// their 32-byte hash; every other key of the schema has another length.  A
// node is the RLP list of 17 (branch) or 2 (extension / leaf) items; a child
// is a 32-byte string (hash reference), an embedded list, or empty.  A leaf
// of the account trie holds an RLP account whose storage root and code hash
// are references too.

var (
	closureEmptyRoot = common.HexToHash("56e81f171bcc55a6ff8345e692c0f86e5b48e01b996cadc001622fb5e363b421")
	closureEmptyCode = crypto.Keccak256(nil)
)

func nodeRefs(buf []byte, refs *[][]byte) {
	elems, _, err := rlp.SplitList(buf)
	if err != nil {
		return // not a node (a code blob)
	}
	n, err := rlp.CountValues(elems)
	if err != nil {
		return
	}
	child := func(kind rlp.Kind, content, raw []byte) {
		switch {
		case kind == rlp.List:
			nodeRefs(raw, refs)
		case len(content) == 32:
			*refs = append(*refs, content)
		}
	}
	switch n {
	case 2:
		key, rest, err := rlp.SplitString(elems)
		if err != nil || len(key) == 0 {
			return
		}
		kind, content, _, err := rlp.Split(rest)
		if err != nil {
			return
		}
		if key[0]&0x20 == 0 { // extension
			child(kind, content, rest)
			return
		}
		var acc state.Account
		if kind == rlp.String && rlp.DecodeBytes(content, &acc) == nil {
			if acc.Root != closureEmptyRoot && acc.Root != (common.Hash{}) {
				*refs = append(*refs, acc.Root.Bytes())
			}
			if len(acc.CodeHash) == 32 && !bytes.Equal(acc.CodeHash, closureEmptyCode) {
				*refs = append(*refs, acc.CodeHash)
			}
		}
	case 17:
		rest := elems
		for i := 0; i < 16; i++ {
			kind, content, r2, err := rlp.Split(rest)
			if err != nil {
				return
			}
			child(kind, content, rest[:len(rest)-len(r2)])
			rest = r2
		}
	}
}

// nodeClosure returns an error naming the first stored node one of whose children is not stored.
func nodeClosure(d *RecDB) (checked int, err error) {
	for _, k := range d.Inner.Keys() {
		if len(k) != 32 {
			continue
		}
		v, _ := d.Inner.Get(k)
		var refs [][]byte
		nodeRefs(v, &refs)
		checked++
		for _, r := range refs {
			if has, _ := d.Inner.Has(r); !has {
				return checked, fmt.Errorf("node %x is on disk but its child %x is not", k[:6], r[:6])
			}
		}
	}
	return checked, nil
}
