package chainlib

import (
	"fmt"

	"gitlab.com/aquachain/aquachain/common"
	"gitlab.com/aquachain/aquachain/core"
)

// oracleHeaderCleanup (C03, model-independent): a header-only import (InsertHeaderChain) that
// makes one of ITS headers H the new header head leaves no height above H.Number with a number
// entry - whatever an earlier full-block reorganisation to a shorter branch left there.  This is
// what the cleanup loop of HeaderChain.WriteHeader (probe upward from H.Number+1 until the first
// empty height) establishes on the unmodified tree, also on a full chain whose blocks were
// reorganised to a shorter, heavier branch before.  The stale entries that such a BLOCK reorg
// leaves are the known finding `reorg-shorter-heavier-stale-canon`; stale entries that SURVIVE a
// header import which moved the header head are a different defect and get their own signature.
func (r *Runner) oracleHeaderCleanup(s *Session, k int, op OpSpec, hdrBefore int) {
	if op.Kind != "headers" || s.Dead || s.BC == nil {
		return
	}
	t, bc := r.T, s.BC
	hdrAfter, ok := t.ByHash[bc.CurrentHeader().Hash()]
	if !ok || hdrAfter == hdrBefore {
		return
	}
	moved := false
	for _, n := range op.Nodes {
		if n == hdrAfter {
			moved = true
		}
	}
	if !moved {
		return
	}
	r.C.Count("header-import-moved-header-head:" + s.Name)
	if s.Shortened {
		r.C.Count("header-import-moved-header-head-after-shorter-reorg:" + s.Name)
	}
	// contiguous probe, as the unmodified loop does: the first empty height ends the guarantee
	// (entries behind a gap - SetHead debris - are not what this clause is about)
	for n := t.Num[hdrAfter] + 1; n <= t.MaxNum+2; n++ {
		raw := core.GetCanonicalHash(s.DB, n)
		if raw == (common.Hash{}) {
			break
		}
		extra := map[string]interface{}{"height": n, "header_head_height": t.Num[hdrAfter], "header_head_node": hdrAfter, "got": t.Ids.B(raw),
			"header_by_number_resolves": bc.GetHeaderByNumber(n) != nil, "block_by_number_resolves": bc.GetBlockByNumber(n) != nil}
		r.C.Violate("header-import-leaves-numbers-above-header-head", fmt.Sprintf("after a header-only import made header %d (height %d) the header head, height %d still has a canonical number entry (GetCanonicalHash / GetHeaderByNumber resolve a block of an abandoned branch): WriteHeader's cleanup of the heights above the new header head did not reach it", hdrAfter, t.Num[hdrAfter], n),
			r.replay(k, extra))
		return
	}
}

// HeaderAfterShorterScenarios: full-block import of a long easy branch, full-block reorganisation
// to a SHORTER, heavier branch (stale numbers above the head: the known finding), then header-only
// imports extending the short branch by 1..2 headers on the same chain object, then the bodies.
func HeaderAfterShorterScenarios() []*Scenario {
	v := func(p int, d int64, txs ...TxSpec) NodeSpec {
		return NodeSpec{Parent: p, Diff: d, Txs: txs, Valid: true}
	}
	ins := func(n ...int) OpSpec { return OpSpec{Sess: "m", Kind: "insert", Nodes: n, Seed: 1} }
	hdr := func(n ...int) OpSpec { return OpSpec{Sess: "m", Kind: "headers", Nodes: n, Seed: 1} }
	// 1..8 easy (100 each, total 800); 9..12 on genesis heavy (400 each, total 1600); 13,14 extend 12
	nodes := []NodeSpec{{}, v(0, 100, TxSpec{0, 0}), v(1, 100), v(2, 100), v(3, 100, TxSpec{1, 0}), v(4, 100), v(5, 100), v(6, 100), v(7, 100),
		v(0, 400, TxSpec{0, 0}), v(9, 400), v(10, 400), v(11, 400), v(12, 400), v(13, 400)}
	// fork at height 2 instead of genesis: 1-2-3-4-5-6-7 easy, 8-9 heavy on 2 (heights 3,4), 10-11 extend 9
	nodes2 := []NodeSpec{{}, v(0, 100), v(1, 100, TxSpec{0, 0}), v(2, 100), v(3, 100), v(4, 100), v(5, 100), v(6, 100),
		v(2, 500, TxSpec{1, 0}), v(8, 500), v(9, 100), v(10, 100)}
	return []*Scenario{
		{Name: "headers-after-shorter-reorg-1", Nodes: nodes, Ops: []OpSpec{ins(1, 2, 3, 4, 5, 6, 7, 8), ins(9, 10, 11, 12), hdr(13), ins(13), hdr(14)}},
		{Name: "headers-after-shorter-reorg-2", Nodes: nodes, Ops: []OpSpec{ins(1, 2, 3, 4, 5, 6, 7, 8), ins(9, 10, 11, 12), hdr(13, 14), {Sess: "m", Kind: "reopen"}, ins(13, 14)}},
		{Name: "headers-after-shorter-reorg-1-1", Nodes: nodes, Ops: []OpSpec{ins(1, 2, 3, 4, 5, 6, 7, 8), ins(9, 10, 11, 12), hdr(13), hdr(14), ins(13, 14)}},
		{Name: "headers-after-shorter-reorg-midfork", Nodes: nodes2, Ops: []OpSpec{ins(1, 2, 3, 4, 5, 6, 7), ins(8, 9), hdr(10), hdr(11), ins(10, 11)}},
		{Name: "headers-after-shorter-reorg-reopen", Nodes: nodes2, Ops: []OpSpec{ins(1, 2, 3, 4, 5, 6, 7), ins(8, 9), {Sess: "m", Kind: "reopen"}, hdr(10, 11)}},
	}
}
