package chainlib

import (
	"context"
	"fmt"
	"math/big"
	mrand "math/rand"
	"strings"
	"sync/atomic"
	"time"

	"gitlab.com/aquachain/aquachain/core"
	"gitlab.com/aquachain/aquachain/core/types"
	"gitlab.com/aquachain/aquachain/core/vm"
	"gitlab.com/aquachain/aquachain/verifharness/vh"
)

// Bounded concurrent scenarios for C02 (direct oracle only, no model).
//
// The miner (opt/miner/worker.go) calls BlockChain.WriteBlockWithState directly,
// without the chain's insertion lock, so it can race with InsertChain.  The
// interleaving is made deterministic with the recording database: on the k-th
// database operation (get/has/put/del/batch flush) of the first writer a second
// goroutine starts the competing import; the first writer waits until the
// competitor has finished or has demonstrably blocked (on a chain lock), then
// goes on.  Every k of the call is tried, in both directions.

type RaceSpec struct {
	// "wbws-first": WriteBlockWithState(M) is interrupted at its K-th database operation by InsertChain(H);
	// "insert-first": the reverse.  "convoy:<a>:<b>" (a, b in {insert, wbws}): a reader holds the chain
	// mutex (BlockChain.ExportN blocks inside our io.Writer); writer a(H) runs up to the mutex, then writer
	// b(M) runs up to the mutex; the reader lets go: H is written first, then M with whatever it read
	// before it got the mutex.
	Dir string `json:"dir"`
	M   int    `json:"m"` // node written by the first writer
	H   int    `json:"h"` // node written by the competitor
	K   int64  `json:"k"` // the competitor starts at the first writer's k-th database operation
}

// raceTree: 1-2 (100 each); 3 and 4 on 2 (100 and 150: siblings, 4 heavier); 5 on 1 (300: a heavier
// block on another branch, so the competitor reorganises); 6 on 2 (100, with a transaction); 7 on 2 (400:
// heavier than the side block 5).
func raceTree() *Scenario {
	v := func(p int, d int64, txs ...TxSpec) NodeSpec {
		return NodeSpec{Parent: p, Diff: d, Txs: txs, Valid: true}
	}
	return &Scenario{Name: "race", Nodes: []NodeSpec{{}, v(0, 100, TxSpec{0, 0}), v(1, 100), v(2, 100, TxSpec{1, 0}), v(2, 150), v(1, 300, TxSpec{2, 0}), v(2, 100, TxSpec{3, 1}), v(2, 400)}}
}

// writeAsMiner imports one block the way the miner does: state from the parent, a
// StateProcessor run, then WriteBlockWithState without the insertion lock.
func writeAsMiner(bc *core.BlockChain, t *Tree, n int) error {
	b := t.Blocks[n]
	parent := t.Blocks[t.Spec[n].Parent]
	statedb, err := bc.StateAt(parent.Root())
	if err != nil {
		return err
	}
	receipts, _, _, err := bc.Processor().Process(b, statedb, vm.Config{})
	if err != nil {
		return err
	}
	_, err = bc.WriteBlockWithState(b, receipts, statedb)
	return err
}

type raceOutcome struct {
	ops      int64 // database operations of the first writer up to the firing point / in total
	deadlock string
	panicked string
	compRan  string // "during" (finished while the first writer was paused) | "after" | "never"
}

// runRace builds a fresh archive chain holding blocks 1,2, then runs the two writers.
func runRace(c *vh.Ctx, t *Tree, rs RaceSpec) (*core.BlockChain, *RecDB, raceOutcome) {
	var out raceOutcome
	db := NewRecDB()
	t.Gspec.MustCommit(db)
	bc, err := core.NewBlockChain(context.Background(), db, &core.CacheConfig{Disabled: true}, t.Config, t.Engine, vm.Config{})
	if err != nil {
		c.Fatal("race: NewBlockChain: %v", err)
	}
	if _, err := bc.InsertChain(types.Blocks{t.Blocks[1], t.Blocks[2]}); err != nil {
		c.Fatal("race: base import: %v", err)
	}
	// restart: cold caches, so that TD / header / state reads really go to the database
	// (and can be used as interleaving points)
	bc.Stop()
	if bc, err = core.NewBlockChain(context.Background(), db, &core.CacheConfig{Disabled: true}, t.Config, t.Engine, vm.Config{}); err != nil {
		c.Fatal("race: reopen: %v", err)
	}
	first := func() error { return writeAsMiner(bc, t, rs.M) }
	second := func() error { _, e := bc.InsertChain(types.Blocks{t.Blocks[rs.H]}); return e }
	if rs.Dir == "insert-first" {
		first = func() error { _, e := bc.InsertChain(types.Blocks{t.Blocks[rs.M]}); return e }
		second = func() error { return writeAsMiner(bc, t, rs.H) }
	}
	var cnt int64
	var fired int32
	compDone := make(chan struct{})
	started := false
	db.OnOp = func(kind string, key []byte) {
		if atomic.LoadInt32(&fired) != 0 {
			return
		}
		if atomic.AddInt64(&cnt, 1) == rs.K && atomic.CompareAndSwapInt32(&fired, 0, 1) {
			started = true
			go func() {
				defer close(compDone)
				if p, pv := vh.CatchPanic(func() { second() }); p {
					out.panicked = fmt.Sprint("competitor: ", pv)
				}
			}()
			select {
			case <-compDone:
				out.compRan = "during"
			case <-time.After(80 * time.Millisecond):
				out.compRan = "after" // it is waiting for a lock the first writer holds
			}
		}
	}
	mrand.Seed(1)
	firstDone := make(chan struct{})
	go func() {
		defer close(firstDone)
		if p, pv := vh.CatchPanic(func() { first() }); p {
			out.panicked = fmt.Sprint("first writer: ", pv)
		}
	}()
	select {
	case <-firstDone:
	case <-time.After(15 * time.Second):
		out.deadlock = "the first writer never returned"
		return bc, db, out
	}
	out.ops = atomic.LoadInt64(&cnt)
	if !started {
		out.compRan = "never"
		atomic.StoreInt32(&fired, 1)
		db.OnOp = nil
		return bc, db, out
	}
	select {
	case <-compDone:
	case <-time.After(15 * time.Second):
		out.deadlock = "the competing writer never returned"
	}
	db.OnOp = nil
	return bc, db, out
}

// blockingWriter blocks in its first Write until released (keeps ExportN inside bc.mu.RLock).
type blockingWriter struct {
	entered chan struct{}
	release chan struct{}
	once    bool
}

func (w *blockingWriter) Write(p []byte) (int, error) {
	if !w.once {
		w.once = true
		close(w.entered)
		<-w.release
	}
	return len(p), nil
}

// runConvoy: see RaceSpec.Dir.
func runConvoy(c *vh.Ctx, t *Tree, rs RaceSpec) (*core.BlockChain, *RecDB, raceOutcome) {
	var out raceOutcome
	out.compRan = "convoy"
	db := NewRecDB()
	t.Gspec.MustCommit(db)
	bc, err := core.NewBlockChain(context.Background(), db, &core.CacheConfig{Disabled: true}, t.Config, t.Engine, vm.Config{})
	if err != nil {
		c.Fatal("race: NewBlockChain: %v", err)
	}
	if _, err := bc.InsertChain(types.Blocks{t.Blocks[1], t.Blocks[2]}); err != nil {
		c.Fatal("race: base import: %v", err)
	}
	var ka, kb string
	fmt.Sscanf(strings.ReplaceAll(rs.Dir, ":", " "), "convoy %s %s", &ka, &kb)
	writer := func(kind string, n int) func() {
		if kind == "wbws" {
			return func() { writeAsMiner(bc, t, n) }
		}
		return func() { bc.InsertChain(types.Blocks{t.Blocks[n]}) }
	}
	w := &blockingWriter{entered: make(chan struct{}), release: make(chan struct{})}
	expDone := make(chan struct{})
	go func() { defer close(expDone); bc.ExportN(w, 0, 0) }()
	select {
	case <-w.entered:
	case <-time.After(10 * time.Second):
		out.deadlock = "ExportN never reached the writer"
		return bc, db, out
	}
	mrand.Seed(1)
	dones := []chan struct{}{make(chan struct{}), make(chan struct{})}
	for i, f := range []func(){writer(ka, rs.H), writer(kb, rs.M)} {
		i, f := i, f
		go func() {
			defer close(dones[i])
			if p, pv := vh.CatchPanic(f); p {
				out.panicked = fmt.Sprint("writer: ", pv)
			}
		}()
		time.Sleep(250 * time.Millisecond) // long enough to run up to the chain mutex and park there
	}
	close(w.release)
	for _, d := range append(dones, expDone) {
		select {
		case <-d:
		case <-time.After(15 * time.Second):
			out.deadlock = "a writer never returned after the reader released the chain mutex"
			return bc, db, out
		}
	}
	return bc, db, out
}

// raceOracle: both blocks were valid and delivered: the head must be a heaviest one, TDs additive
// (cache and database), and the number index must describe the head's chain.
func raceOracle(c *vh.Ctx, t *Tree, sc *Scenario, rs RaceSpec, bc *core.BlockChain, db *RecDB, out raceOutcome) {
	tag := fmt.Sprintf("%s/m%d/h%d/k%d", rs.Dir, rs.M, rs.H, rs.K)
	rep := map[string]interface{}{"scenario": sc, "race": rs, "competitor_ran": out.compRan}
	if out.deadlock != "" {
		c.Violate("race-deadlock/"+tag, "two concurrent block writers never finish: "+out.deadlock, rep)
		return
	}
	if out.panicked != "" {
		c.Violate("race-panic/"+tag+"/"+clipStr(out.panicked, 60), "a concurrent block writer panics: "+out.panicked, rep)
		return
	}
	head, ok := t.ByHash[bc.CurrentBlock().Hash()]
	if !ok {
		c.Violate("race-head-unknown/"+tag, "the head is not a delivered block", rep)
		return
	}
	stored := func(n int) bool { return bc.GetBlock(t.Blocks[n].Hash(), t.Num[n]) != nil }
	for _, n := range []int{1, 2, rs.M, rs.H} {
		if !stored(n) {
			c.Violate("race-block-lost/"+tag, "a valid block written by one of the two writers is not stored", rep)
			return
		}
		for _, src := range []struct {
			name string
			td   *big.Int
		}{{"cache", bc.GetTd(t.Blocks[n].Hash(), t.Num[n])}, {"database", core.GetTd(db, t.Blocks[n].Hash(), t.Num[n])}} {
			if src.td == nil || src.td.Cmp(t.TrueTd[n]) != 0 {
				c.Violate("race-td-additive/"+src.name+"/"+tag, "after two concurrent writers a stored total difficulty is not the sum of difficulties", rep)
			}
		}
		if t.TrueTd[n].Cmp(t.TrueTd[head]) > 0 {
			rep["head_node"], rep["heavier_node"] = head, n
			c.Violate("race-head-not-heaviest/"+tag, "after two concurrent block writers (the miner's WriteBlockWithState and InsertChain) the head is lighter than a fully validated stored block", rep)
			return
		}
	}
	for n := uint64(0); n <= t.Num[head]; n++ {
		if core.GetCanonicalHash(db, n) != t.Blocks[t.AncestorAt(head, n)].Hash() {
			rep["height"] = n
			c.Violate("race-canon-below-head/"+tag, "after two concurrent block writers a height below the head does not map to the head's ancestor", rep)
			return
		}
	}
	if core.GetHeadBlockHash(db) != bc.CurrentBlock().Hash() {
		c.Violate("race-head-pointer/"+tag, "after two concurrent block writers LastBlock does not name the in-memory head", rep)
	}
}

// RunRaces tries every firing point k for the scripted pairs, in both directions.
func RunRaces(c *vh.Ctx, only *RaceSpec, scIn *Scenario) {
	sc := raceTree()
	if scIn != nil {
		sc = scIn
	}
	t := BuildTree(c, sc.Nodes)
	if only != nil {
		run := runRace
		if strings.HasPrefix(only.Dir, "convoy") {
			run = runConvoy
		}
		bc, db, out := run(c, t, *only)
		raceOracle(c, t, sc, *only, bc, db, out)
		bc.Stop()
		return
	}
	for _, dir := range []string{"convoy:insert:wbws", "convoy:wbws:insert", "convoy:wbws:wbws"} {
		for _, pair := range [][2]int{{3, 4}, {5, 7}} {
			rs := RaceSpec{Dir: dir, M: pair[0], H: pair[1]}
			bc, db, out := runConvoy(c, t, rs)
			raceOracle(c, t, sc, rs, bc, db, out)
			if out.deadlock == "" {
				bc.Stop()
			}
			c.Eval("race:"+dir, fmt.Sprintf("race/%s/%d/%d", dir, pair[0], pair[1]))
		}
	}
	for _, dir := range []string{"wbws-first", "insert-first"} {
		for _, pair := range [][2]int{{3, 4}, {5, 7}, {6, 5}} {
			// learn how many database operations the first writer performs on its own
			bc, _, probe := runRace(c, t, RaceSpec{Dir: dir, M: pair[0], H: pair[1], K: 1 << 40})
			bc.Stop()
			for k := int64(1); k <= probe.ops; k++ {
				rs := RaceSpec{Dir: dir, M: pair[0], H: pair[1], K: k}
				bc, db, out := runRace(c, t, rs)
				raceOracle(c, t, sc, rs, bc, db, out)
				if out.deadlock == "" {
					bc.Stop()
				}
				c.Eval(fmt.Sprintf("race:%s:competitor-%s", dir, out.compRan), fmt.Sprintf("race/%s/%d/%d/%d", dir, pair[0], pair[1], k))
			}
		}
	}
}
