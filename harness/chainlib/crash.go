package chainlib

// Property C04: the chain database survives a crash at any write boundary.
//
// A history of InsertChain calls is run once, crash free, on a recording
// database; its write log L (direct puts / deletes and atomic batch flushes,
// followed by the writes of Stop) is then cut at EVERY prefix, the prefix is
// materialised as a fresh disk, core.NewBlockChain is reopened on it and the
// statements of the property are evaluated directly on the reopened chain.
// Write failures (the n-th write returns an error) run in a child process
// because core's Write* helpers answer a failed Put with log.Crit = os.Exit.
//
// Nothing here talks to the Coq model: every expectation is computed from the
// tree specification and from the prefix of the log itself.

import (
	"bytes"
	"context"
	"encoding/binary"
	"encoding/gob"
	"encoding/json"
	"fmt"
	"gitlab.com/aquachain/aquachain/crypto"
	"gitlab.com/aquachain/aquachain/rlp"
	"gitlab.com/aquachain/aquachain/trie"
	mrand "math/rand"
	"os"
	"os/exec"
	"path/filepath"
	"runtime"
	"strconv"
	"strings"
	"sync"
	"time"

	"gitlab.com/aquachain/aquachain/common"
	"gitlab.com/aquachain/aquachain/core"
	"gitlab.com/aquachain/aquachain/core/state"
	"gitlab.com/aquachain/aquachain/core/types"
	"gitlab.com/aquachain/aquachain/core/vm"
	"gitlab.com/aquachain/aquachain/verifharness/vh"
)

const (
	c04ChildEnv        = "CHAIN_C04_CHILD" // path of the json job file: the process is a child
	c04ChildNEnv       = "CHAIN_C04_N"     // index (1-based) of the write that fails
	sigHeadBeforeBatch = "crash-window-head-pointer-before-batch"
	sigCanonBeforeHead = "crash-window-canon-before-head"
	sigCommitRLock     = "triedb-commit-rlock-leak-on-preimage-write-failure"
)

// ---------------------------------------------------------------- configurations

func c04CacheConfig(name string) *core.CacheConfig {
	switch name {
	case "archive":
		return &core.CacheConfig{Disabled: true}
	case "pruning-0-0":
		return &core.CacheConfig{Disabled: false, TrieNodeLimit: 0, TrieTimeLimit: 0}
	case "pruning-1-5m":
		return &core.CacheConfig{Disabled: false, TrieNodeLimit: 1, TrieTimeLimit: 5 * time.Minute}
	}
	return nil
}

// ---------------------------------------------------------------- scenarios

// c04Scripted: 1-2-3 (100 each), 4 on genesis (350: shorter but heavier than 3),
// 5 on 4 (10), 6-7 on 3 (reorg back to the LONGER branch, re-pointing 1,2,3,6),
// 8 on 5 (300: height 3 beats height 5 = shorter-but-heavier with a multi-block
// re-pointing 4,5,8), then a duplicate delivery.
func c04Scripted() *Scenario {
	v := func(p int, d int64, txs ...TxSpec) NodeSpec {
		return NodeSpec{Parent: p, Diff: d, Txs: txs, Valid: true}
	}
	tx := func(a, variant int) TxSpec { return TxSpec{a, variant} }
	ins := func(seed int64, n ...int) OpSpec { return OpSpec{Sess: "f", Kind: "insert", Nodes: n, Seed: seed} }
	return &Scenario{Name: "c04-longer-and-shorter-heavier",
		Nodes: []NodeSpec{{}, v(0, 100, tx(0, 0), tx(1, 0)), v(1, 100, tx(0, 0)), v(2, 100), v(0, 350, tx(0, 0)), v(4, 10),
			v(3, 100), v(6, 100, tx(3, 1)), v(5, 300, tx(2, 0))},
		Ops: []OpSpec{ins(1, 1, 2, 3), ins(2, 4), ins(3, 5), ins(4, 6, 7), ins(5, 8), ins(6, 1, 2)}}
}

// c04BigState: block 1 creates a contract whose init code writes thousands of storage slots, so the trie commit of its
// state (archive: inside WriteBlockWithState; pruning: inside Stop) writes several hundred
// KiB and is split over several batch flushes (aquadb.IdealBatchSize = 100 KiB): the crash
// points BETWEEN those flushes are where "children before parents" matters.
func c04BigState() *Scenario {
	fan := 4000
	if v, err := strconv.Atoi(os.Getenv("C04_FAN")); err == nil && v > 0 {
		fan = v
	}
	return &Scenario{Name: "c04-big-state",
		Nodes: []NodeSpec{{}, {Parent: 0, Diff: 100, Valid: true, Fan: fan}, {Parent: 1, Diff: 100, Valid: true, Fan: 30}, {Parent: 2, Diff: 100, Valid: true}},
		Ops:   []OpSpec{{Sess: "f", Kind: "insert", Nodes: []int{1}, Seed: 1}, {Sess: "f", Kind: "insert", Nodes: []int{2, 3}, Seed: 2}}}
}

// c04Contracts: contracts with code and no storage, with storage and their own code, two sharing one code
// hash (one with, one without storage), and one whose storage is cleared again by a later block.
func c04Contracts() *Scenario {
	return &Scenario{Name: "c04-contracts",
		Nodes: []NodeSpec{{}, {Parent: 0, Diff: 100, Valid: true, Contracts: "deploy"}, {Parent: 1, Diff: 100, Valid: true, Contracts: "clear"}, {Parent: 2, Diff: 100, Valid: true}},
		Ops:   []OpSpec{{Sess: "f", Kind: "insert", Nodes: []int{1}, Seed: 1}, {Sess: "f", Kind: "insert", Nodes: []int{2, 3}, Seed: 2}}}
}

// c04StopFlush: a pruning node whose shutdown flushes HEAD, HEAD-1 and HEAD-127.  130 linear blocks; block 1
// creates a contract with 300 storage slots, every block moves value between the four accounts, so that
// consecutive states share most of their (never flushed, dirty) nodes.
func c04StopFlush() *Scenario {
	sc := &Scenario{Name: "c04-stop-flush", Nodes: []NodeSpec{{}}}
	var all []int
	for i := 1; i <= 130; i++ {
		ns := NodeSpec{Parent: i - 1, Diff: 100, Valid: true, Txs: []TxSpec{{Acct: i % 3, Variant: i % 2}}}
		if i == 1 {
			ns.Fan = 300
		}
		if i == 127 {
			ns.Fan = 40
		}
		sc.Nodes = append(sc.Nodes, ns)
		all = append(all, i)
	}
	sc.Ops = []OpSpec{{Sess: "f", Kind: "insert", Nodes: all[:60], Seed: 1}, {Sess: "f", Kind: "insert", Nodes: all[60:], Seed: 2}}
	return sc
}

// c04Short: a short import with a shorter-but-heavier reorganisation, for the exhaustive failing-write sweep.
func c04Short() *Scenario {
	return &Scenario{Name: "c04-short",
		Nodes: []NodeSpec{{}, {Parent: 0, Diff: 100, Valid: true, Txs: []TxSpec{{0, 0}}}, {Parent: 1, Diff: 100, Valid: true}, {Parent: 0, Diff: 250, Valid: true, Txs: []TxSpec{{1, 0}}}},
		Ops:   []OpSpec{{Sess: "f", Kind: "insert", Nodes: []int{1, 2}, Seed: 1}, {Sess: "f", Kind: "insert", Nodes: []int{3}, Seed: 2}}}
}

// c04LongChain: n linear blocks and a heavier fork of 6 blocks starting 5 below the top.
func c04LongChain(rng *vh.RNG, n int) *Scenario {
	sc := &Scenario{Name: fmt.Sprintf("c04-long%d", n), Nodes: []NodeSpec{{}}}
	for i := 1; i <= n; i++ {
		ns := NodeSpec{Parent: i - 1, Diff: 100, Valid: true}
		if i%3 == 0 {
			ns.Txs = []TxSpec{{Acct: i % len(keyHex), Variant: i % 2}}
		}
		sc.Nodes = append(sc.Nodes, ns)
	}
	at := n - 5
	for j := 0; j < 6; j++ {
		sc.Nodes = append(sc.Nodes, NodeSpec{Parent: at, Diff: 200, Valid: true, Txs: []TxSpec{{Acct: j % len(keyHex), Variant: 1}}})
		at = len(sc.Nodes) - 1
	}
	for i := 1; i <= n; {
		var ch []int
		for l := 1 + rng.Intn(12); l > 0 && i <= n; l-- {
			ch = append(ch, i)
			i++
		}
		sc.Ops = append(sc.Ops, OpSpec{Sess: "f", Kind: "insert", Nodes: ch, Seed: int64(rng.Intn(1 << 30))})
	}
	sc.Ops = append(sc.Ops, OpSpec{Sess: "f", Kind: "insert", Nodes: []int{n + 1, n + 2, n + 3}, Seed: 7},
		OpSpec{Sess: "f", Kind: "insert", Nodes: []int{n + 4, n + 5, n + 6}, Seed: 8})
	return sc
}

// c04Normalise keeps the block deliveries of a scenario as InsertChain calls on
// one full chain (header deliveries become block deliveries of the same nodes).
func c04Normalise(sc *Scenario) *Scenario {
	out := &Scenario{Name: sc.Name, Nodes: sc.Nodes}
	for _, op := range sc.Ops {
		if (op.Kind == "insert" || op.Kind == "headers") && len(op.Nodes) > 0 {
			out.Ops = append(out.Ops, OpSpec{Sess: "f", Kind: "insert", Nodes: op.Nodes, Seed: op.Seed})
		}
	}
	return out
}

// ---------------------------------------------------------------- the import (shared by parent and child)

type c04Log struct {
	Base      map[string][]byte
	L         []Rec
	OpOf      []int // record index -> op index (-1: NewBlockChain, len(ops): Stop)
	FinalHead common.Hash
	Status    string // ok | error | panic
	Msg       string
}

func c04Blocks(t *Tree, op OpSpec) types.Blocks {
	blocks := make(types.Blocks, len(op.Nodes))
	for i, n := range op.Nodes {
		blocks[i] = t.Blocks[n]
	}
	return blocks
}

// c04Import runs the history on a fresh recording database.  failAt > 0 arms
// the injector (child process only); stopAtErr stops at the first op that
// returns an error once the injected failure has happened.
// phase (if not nil) is kept up to date for the caller's watchdog.
func c04Import(t *Tree, ops []OpSpec, cfg string, failAt int, stopAtErr bool, phase *string) *c04Log {
	setPhase := func(s string) {
		if phase != nil {
			*phase = s
		}
	}
	db := NewRecDB()
	t.Gspec.MustCommit(db)
	out := &c04Log{Base: db.Snapshot(), Status: "ok"}
	db.Take()
	if failAt > 0 {
		db.SetFailAt(failAt, false)
	}
	take := func(k int) {
		for _, r := range db.Take() {
			out.L = append(out.L, r)
			out.OpOf = append(out.OpOf, k)
		}
	}
	setPhase("NewBlockChain")
	bc, err := core.NewBlockChain(context.Background(), db, c04CacheConfig(cfg), t.Config, t.Engine, vm.Config{})
	take(-1)
	if err != nil {
		out.Status, out.Msg = "error", "NewBlockChain: "+err.Error()
		return out
	}
	for k, op := range ops {
		setPhase(fmt.Sprintf("InsertChain op %d", k))
		var ierr error
		panicked, pv := vh.CatchPanic(func() {
			mrand.Seed(op.Seed)
			_, ierr = bc.InsertChain(c04Blocks(t, op))
		})
		take(k)
		if panicked {
			out.Status, out.Msg = "panic", fmt.Sprintf("op %d: %v", k, pv)
			break
		}
		// errors that belong to the history (orphans, invalid blocks) do not end
		// the run; the first error after the injected failure does
		if ierr != nil && stopAtErr && db.Failed > 0 {
			out.Status, out.Msg = "error", fmt.Sprintf("op %d: %v", k, ierr)
			break
		}
	}
	out.FinalHead = bc.CurrentBlock().Hash()
	setPhase("Stop")
	if panicked, pv := vh.CatchPanic(bc.Stop); panicked && out.Status == "ok" {
		out.Status, out.Msg = "panic", fmt.Sprintf("Stop: %v", pv)
	}
	take(len(ops))
	setPhase("done")
	return out
}

// ---------------------------------------------------------------- guarded execution (panic + watchdog)

// guarded runs f in a goroutine; "ok", "panic" (with the value) or "timeout".
// After a timeout the goroutine is abandoned.
func guarded(limit time.Duration, f func()) (string, string) {
	type res struct {
		p bool
		v interface{}
	}
	ch := make(chan res, 1)
	go func() {
		p, v := vh.CatchPanic(f)
		ch <- res{p, v}
	}()
	select {
	case r := <-ch:
		if r.p {
			return "panic", fmt.Sprint(r.v)
		}
		return "ok", ""
	case <-time.After(limit):
		return "timeout", fmt.Sprintf("no answer within %v", limit)
	}
}

func clip60(s string) string {
	s = strings.Map(func(r rune) rune {
		if r == '\n' || r == '\t' {
			return ' '
		}
		return r
	}, s)
	if len(s) > 60 {
		return s[:60]
	}
	return s
}

// ---------------------------------------------------------------- the oracle on one prefix

type c04Run struct {
	c                                          *vh.Ctx
	sc                                         *Scenario
	t                                          *Tree
	cfg                                        string
	log                                        *c04Log
	fixTd                                      string // total difficulty (from the tree spec) of the head that repeated feeding of the history converges to
	nreopen, nconv, nclosure, nKnownA, nKnownB int
	nnodes, nresume                            int
	msid                                       string // model session replaying the same history (archive, model attached)
}

var lastBlockKey = []byte("LastBlock")

// hbValues lists the tree nodes (-1: unknown hash) a record writes to LastBlock, in order.
func (r *c04Run) hbValues(rec Rec) []int {
	var out []int
	for _, o := range rec.Ops {
		if !o.Del && bytes.Equal(o.Key, lastBlockKey) {
			if x, ok := r.t.ByHash[common.BytesToHash(o.Val)]; ok {
				out = append(out, x)
			} else {
				out = append(out, -1)
			}
		}
	}
	return out
}

// lastHB is the last value written to LastBlock in L[:p] (genesis = node 0 when none).
func (r *c04Run) lastHB(L []Rec, p int) int {
	for i := p - 1; i >= 0; i-- {
		if v := r.hbValues(L[i]); len(v) > 0 {
			return v[len(v)-1]
		}
	}
	return 0
}

func isCanonKey(k []byte) bool { return len(k) == 10 && k[0] == 'h' && k[9] == 'n' }

// touchesHeadOrCanon: the record changes the head pointer or the number index.
func touchesHeadOrCanon(rec Rec) bool {
	for _, o := range rec.Ops {
		if bytes.Equal(o.Key, lastBlockKey) || isCanonKey(o.Key) {
			return true
		}
	}
	return false
}

// recKind names a record for the evidence distribution.
func (r *c04Run) recKind(rec Rec) string {
	if !rec.Batch {
		ks := r.t.Ids.keyStr(rec.Ops[0].Key)
		if i := strings.IndexByte(ks, ':'); i >= 0 {
			ks = ks[:i]
		}
		if rec.Ops[0].Del {
			return "del-" + ks
		}
		return "put-" + ks
	}
	if len(rec.Ops) == 0 {
		return "batch-empty"
	}
	for _, o := range rec.Ops {
		if r.t.Ids.keyStr(o.Key) != "S" {
			return "batch-block"
		}
	}
	return "batch-state"
}

// fullState iterates the whole state (account trie, storage tries, code) at root
// straight from the disk d.
func fullState(d *RecDB, root common.Hash) error {
	sdbase := state.NewDatabase(d) // fresh caches: everything comes from the disk d
	sdb, err := state.New(root, sdbase)
	if err != nil {
		return err
	}
	it := state.NewNodeIterator(sdb)
	for it.Next() {
	}
	if it.Error != nil {
		return it.Error
	}
	// explicitly, for EVERY account of the account trie: the account decodes (balance, nonce), its
	// whole storage trie can be walked, and its code blob is there and hashes to the code hash
	tr, err := sdbase.OpenTrie(root)
	if err != nil {
		return err
	}
	ait := trie.NewIterator(tr.NodeIterator(nil))
	for ait.Next() {
		var acc state.Account
		if err := rlp.DecodeBytes(ait.Value, &acc); err != nil {
			return fmt.Errorf("account %x does not decode: %v", ait.Key, err)
		}
		statAccounts++
		addrHash := common.BytesToHash(ait.Key)
		if acc.Root != closureEmptyRoot {
			st, err := sdbase.OpenStorageTrie(addrHash, acc.Root)
			if err != nil {
				return fmt.Errorf("storage trie %x of account %x: %v", acc.Root, ait.Key, err)
			}
			sit := trie.NewIterator(st.NodeIterator(nil))
			for sit.Next() {
			}
			if sit.Err != nil {
				return fmt.Errorf("storage of account %x: %v", ait.Key, sit.Err)
			}
		}
		if !bytes.Equal(acc.CodeHash, closureEmptyCode) {
			code, err := sdbase.ContractCode(addrHash, common.BytesToHash(acc.CodeHash))
			if err != nil || len(code) == 0 {
				return fmt.Errorf("code %x of account %x is not on disk: %v", acc.CodeHash, ait.Key, err)
			}
			if !bytes.Equal(crypto.Keccak256(code), acc.CodeHash) {
				return fmt.Errorf("code of account %x does not hash to its code hash", ait.Key)
			}
			statCodes++
			if acc.Root == closureEmptyRoot {
				statCodeNoStorage++
			}
		}
	}
	return ait.Err
}

// counters for the evidence: how many accounts / code blobs / storage-less contracts the walks read
var statAccounts, statCodes, statCodeNoStorage int

type prefixOpts struct {
	label    string // "p17" or "w18-after": goes into the signatures of unrecognised failures
	converge bool   // step 7
	closure  bool   // step 6 for every tree block (otherwise only along the expected head's walk)
	extra    map[string]interface{}
}

func (r *c04Run) replayObj(L []Rec, p int, o prefixOpts, more map[string]interface{}) map[string]interface{} {
	lo := p - 6
	if lo < 0 {
		lo = 0
	}
	hi := p + 2
	if hi > len(L) {
		hi = len(L)
	}
	m := map[string]interface{}{"scenario": r.sc, "prefix": p, "config": r.cfg, "log_length": len(L),
		"last_writes_before_crash": r.t.Ids.Project(append([]Rec(nil), L[lo:p]...)), "writes_lost_next": r.t.Ids.Project(append([]Rec(nil), L[p:hi]...))}
	for k, v := range o.extra {
		m[k] = v
	}
	for k, v := range more {
		m[k] = v
	}
	return m
}

// feed delivers the whole history once more; returns a panic text or "".
func (r *c04Run) feed(bc *core.BlockChain) string {
	for k, op := range r.sc.Ops {
		panicked, pv := vh.CatchPanic(func() {
			mrand.Seed(op.Seed)
			bc.InsertChain(c04Blocks(r.t, op))
		})
		if panicked {
			return fmt.Sprintf("op %d: %v", k, pv)
		}
	}
	return ""
}

// feedResume offers the history the way a downloader resumes a sync: of every delivery only the part
// the reopened node does not have yet, starting at the first unknown block whose parent it knows.
// Every offered valid block must end up stored and may not be heavier than the head afterwards.
// It returns a description of the first block for which that fails ("" if none).
func (r *c04Run) feedResume(bc *core.BlockChain) (problem string, panicText string) {
	t := r.t
	known := func(n int) bool { return n == 0 || bc.HasBlock(t.Blocks[n].Hash(), t.Num[n]) }
	for k, op := range r.sc.Ops {
		start := -1
		for i, n := range op.Nodes {
			if !known(n) {
				if known(t.Spec[n].Parent) {
					start = i
				}
				break
			}
		}
		if start < 0 {
			continue
		}
		var sub types.Blocks
		var nodes []int
		for _, n := range op.Nodes[start:] {
			if !t.Spec[n].Valid {
				break
			}
			sub = append(sub, t.Blocks[n])
			nodes = append(nodes, n)
		}
		if len(sub) == 0 {
			continue
		}
		var ierr error
		panicked, pv := vh.CatchPanic(func() {
			mrand.Seed(op.Seed)
			_, ierr = bc.InsertChain(sub)
		})
		if panicked {
			return "", fmt.Sprintf("resumed op %d: %v", k, pv)
		}
		r.nresume++
		head, ok := t.ByHash[bc.CurrentBlock().Hash()]
		for _, n := range nodes {
			if !bc.HasBlock(t.Blocks[n].Hash(), t.Num[n]) || (ok && t.TrueTd[n].Cmp(t.TrueTd[head]) > 0) {
				return fmt.Sprintf("delivery %d resumed at node %d: node %d (valid, parent stored) is not stored or is heavier than the head (node %d) afterwards; InsertChain returned %v", k, nodes[0], n, head, ierr), ""
			}
		}
	}
	return "", ""
}

func (r *c04Run) headTd(bc *core.BlockChain) string {
	if x, ok := r.t.ByHash[bc.CurrentBlock().Hash()]; ok {
		return r.t.TrueTd[x].String()
	}
	return "unknown-head"
}

// feedToFixpoint feeds the history until the head's total difficulty stops
// changing (a history that delivers a child before its parent needs a second
// round) or reaches want.
func (r *c04Run) feedToFixpoint(bc *core.BlockChain, want string) (td string, rounds int, panicText string) {
	td = r.headTd(bc)
	for rounds = 1; rounds <= len(r.sc.Ops)+2; rounds++ {
		if pt := r.feed(bc); pt != "" {
			return r.headTd(bc), rounds, pt
		}
		now := r.headTd(bc)
		if now == td || (want != "" && now == want) {
			return now, rounds, ""
		}
		td = now
	}
	return td, rounds, ""
}

// checkPrefix materialises base + L[:p], reopens and evaluates the property.
// It returns the class of the prefix for the distribution.
func (r *c04Run) checkPrefix(L []Rec, opOf []int, p int, o prefixOpts) string {
	c, t := r.c, r.t
	d := Materialise(r.log.Base, L[:p])
	tag := r.sc.Name + "/" + r.cfg + "/" + o.label
	if r.cfg == "archive" {
		tag = r.sc.Name + "/" + o.label
	}
	lastHB := r.lastHB(L, p)
	class := "ok"
	bad := func(sig, what string, more map[string]interface{}) {
		c.Violate(sig, what, r.replayObj(L, p, o, more))
		sev := map[string]int{"ok": 0, "known-b": 1, "known-a": 2, "violation": 3}
		cl := "violation"
		switch sig {
		case sigHeadBeforeBatch:
			cl = "known-a"
		case sigCanonBeforeHead:
			cl = "known-b"
		}
		if sev[cl] > sev[class] {
			class = cl
		}
	}

	// ---- facts about the crash disk itself (before anything reopens it)
	headDataOnDisk := false
	if lastHB >= 0 {
		h, n := t.Blocks[lastHB].Hash(), t.Num[lastHB]
		headDataOnDisk = len(core.GetHeaderRLP(d, h, n)) > 0 && len(core.GetBodyRLP(d, h, n)) > 0
	}
	stateErr := map[common.Hash]error{}
	complete := func(root common.Hash) error {
		if e, ok := stateErr[root]; ok {
			return e
		}
		e := fullState(d, root)
		stateErr[root] = e
		return e
	}
	// step 6, closure: a state root present on disk has its entire trie on disk
	if o.closure {
		for i, b := range t.Blocks {
			if has, _ := d.Inner.Has(b.Root().Bytes()); !has {
				continue
			}
			r.nclosure++
			if err := complete(b.Root()); err != nil {
				bad(fmt.Sprintf("state-closure-broken/%s/node%d", tag, i), "the state root of a block is on disk but its trie is not completely on disk: "+err.Error(), map[string]interface{}{"node": i})
				break
			}
		}
	}
	if o.closure {
		n, err := nodeClosure(d)
		r.nnodes += n
		if err != nil {
			bad("trie-node-closure-broken/"+tag, "a trie node is on disk while one of its children (trie node, storage root or code blob) is not - commit must write children before parents and must reach every referenced blob: "+err.Error(), nil)
		}
	}
	// expected head
	want := lastHB
	if r.cfg != "archive" && want >= 0 {
		for want != 0 && complete(t.Blocks[want].Root()) != nil {
			want = t.Spec[want].Parent
		}
	}

	// ---- step 1: reopen
	var bc *core.BlockChain
	var oerr error
	st, msg := guarded(10*time.Second, func() {
		bc, oerr = core.NewBlockChain(context.Background(), d, c04CacheConfig(r.cfg), t.Config, t.Engine, vm.Config{})
	})
	r.nreopen++
	if st == "ok" && oerr != nil {
		st, msg = "error", oerr.Error()
	}
	if o.label == fmt.Sprintf("p%d", p) {
		r.correspondOpen(r.msid, L, p, st, bc, d)
	}
	if st != "ok" {
		if st == "panic" && strings.Contains(msg, "interface {} is nil, not *types.Block") && lastHB >= 0 && !headDataOnDisk {
			r.nKnownA++
			bad(sigHeadBeforeBatch, "a crash after reorg->insert wrote LastBlock = the incoming block but before WriteBlockWithState flushed the batch holding that block's header and body leaves a head pointer to a block that is not on disk; NewBlockChain -> loadLastState -> Reset -> SetHead then type-asserts the never-stored currentBlock and panics: the database cannot be opened any more",
				map[string]interface{}{"panic": msg, "last_block_pointer_node": lastHB})
		} else {
			bad(fmt.Sprintf("reopen-fails/%s/%s", tag, clip60(st+": "+msg)), "core.NewBlockChain on the crash disk does not succeed ("+st+"): "+msg, map[string]interface{}{"outcome": st, "message": msg, "last_block_pointer_node": lastHB})
		}
		return class
	}

	// ---- steps 2-5 and 7 on the reopened chain
	st, msg = guarded(30*time.Second, func() {
		defer bc.Stop()
		headHash := bc.CurrentBlock().Hash()
		head, known := t.ByHash[headHash]
		// step 2
		if !known || head != want {
			bad("reopened-head-wrong/"+tag, "the reopened head is not the last block the node had made its head (or, pruning, its nearest ancestor with a complete state)",
				map[string]interface{}{"want_node": want, "got": t.Ids.B(headHash), "last_block_pointer_node": lastHB})
		}
		if !known {
			return
		}
		// step 3
		if err := fullState(d, bc.CurrentBlock().Root()); err != nil {
			bad("head-state-incomplete/"+tag, "the state at the reopened head's root is not completely readable: "+err.Error(), map[string]interface{}{"head_node": head})
		}
		// step 4: the number index agrees with the head's ancestry (heights above the head are C03's business)
		for n := int64(t.Num[head]); n >= 0; n-- {
			anc := t.AncestorAt(head, uint64(n))
			got := core.GetCanonicalHash(d, uint64(n))
			if got == t.Blocks[anc].Hash() {
				continue
			}
			x, xknown := t.ByHash[got]
			knownWindow := false
			if xknown && p > 0 && p < len(L) && !(lastHB >= 0 && t.IsAncestor(x, lastHB)) {
				for i := p; i < len(L) && opOf[i] == opOf[p-1] && !knownWindow; i++ {
					for _, hb := range r.hbValues(L[i]) {
						if hb >= 0 && t.IsAncestor(x, hb) {
							knownWindow = true
						}
					}
				}
			}
			more := map[string]interface{}{"height": n, "head_node": head, "want_node": anc, "got": t.Ids.B(got)}
			if knownWindow {
				r.nKnownB++
				bad(sigCanonBeforeHead, "BlockChain.insert writes the canonical-number entry before the head pointer: a crash between the two (first block re-pointed by a reorg) reopens with the old head while the number index at that height already names the other branch", more)
			} else {
				bad("canon-disagrees-with-head/"+tag, "a height at or below the reopened head does not map to the head's ancestor", more)
			}
			break
		}
		// step 5
		for b := head; ; b = t.Spec[b].Parent {
			h, n := t.Blocks[b].Hash(), t.Num[b]
			miss := ""
			if bc.GetBlock(h, n) == nil {
				miss += "block "
			}
			if bc.GetTd(h, n) == nil {
				miss += "td "
			}
			if miss != "" {
				bad("ancestor-data-missing/"+tag, "data of an ancestor of the reopened head is not retrievable: "+miss, map[string]interface{}{"head_node": head, "node": b})
				break
			}
			if b == 0 {
				break
			}
		}
		// step 7
		if o.converge {
			r.nconv++
			if prob, rpt := r.feedResume(bc); rpt != "" {
				bad(fmt.Sprintf("reimport-panics/%s/%s", tag, clip60(rpt)), "resuming the import on the reopened chain panics: "+rpt, nil)
			} else if prob != "" {
				bad("resume-import-rejected/"+tag, "the sync resumed after the restart on the first blocks the node does not have: a valid block whose parent is stored is not accepted, or the head stays lighter than it: "+prob, nil)
			}
			td, rounds, pt := r.feedToFixpoint(bc, r.fixTd)
			if pt != "" {
				bad(fmt.Sprintf("reimport-panics/%s/%s", tag, clip60(pt)), "feeding the original blocks to the reopened chain panics: "+pt, nil)
			} else if td != r.fixTd {
				bad("reimport-does-not-converge/"+tag, "feeding the original blocks again does not reach the head (total difficulty) of the crash-free run",
					map[string]interface{}{"want_td": r.fixTd, "got_td": td, "rounds": rounds, "reopened_head_node": head})
			}
		}
	})
	if st != "ok" {
		bad(fmt.Sprintf("reopened-chain-%s/%s/%s", st, tag, clip60(msg)), "using the reopened chain (getters, state iteration, re-import, Stop) ends in "+st+": "+msg, nil)
	}
	return class
}

// ---------------------------------------------------------------- one scenario under one configuration

type c04Plan struct {
	convEvery    int  // step 7 on every k-th prefix (0: never)
	closureEvery int  // step 6 over all blocks on every k-th prefix
	prefixEvery  int  // 1 = all prefixes
	failEvery    int  // failing write on every k-th index (0: none)
	stopOnly     bool // only the prefixes / failing writes inside Stop() (the shutdown flushes of a pruning node), plus the complete log
}

func c04Prepare(c *vh.Ctx, sc *Scenario, cfg string) *c04Run {
	r := &c04Run{c: c, sc: sc, cfg: cfg, t: BuildTree(c, sc.Nodes)}
	var lg *c04Log
	st, msg := guarded(120*time.Second, func() { lg = c04Import(r.t, sc.Ops, cfg, 0, false, nil) })
	if st != "ok" || lg.Status != "ok" {
		if st == "ok" {
			msg = lg.Status + ": " + lg.Msg
		}
		c.Violate(fmt.Sprintf("crash-free-run-fails/%s/%s/%s", sc.Name, cfg, clip60(msg)), "the crash-free import itself does not complete: "+msg, map[string]interface{}{"scenario": sc, "prefix": -1, "config": cfg})
		return nil
	}
	r.log = lg
	// reference of step 7: what repeated feeding converges to on the complete disk
	d := Materialise(lg.Base, lg.L)
	st, msg = guarded(120*time.Second, func() {
		bc, err := core.NewBlockChain(context.Background(), d, c04CacheConfig(cfg), r.t.Config, r.t.Engine, vm.Config{})
		if err != nil {
			panic(err)
		}
		defer bc.Stop()
		var pt string
		r.fixTd, _, pt = r.feedToFixpoint(bc, "")
		if pt != "" {
			panic(pt)
		}
	})
	if st != "ok" {
		c.Violate(fmt.Sprintf("reopen-fails/%s/%s/complete-log/%s", sc.Name, cfg, clip60(msg)), "reopening / re-feeding the database of a completed run fails: "+msg, map[string]interface{}{"scenario": sc, "prefix": len(lg.L), "config": cfg})
		return nil
	}
	r.msid = r.modelSession()
	if x, ok := r.t.ByHash[lg.FinalHead]; ok && r.t.TrueTd[x].String() != r.fixTd {
		c.Count("history-needs-second-feed:" + cfg)
	}
	return r
}

func c04RunScenario(c *vh.Ctx, sc *Scenario, cfg string, plan c04Plan, jobDir string) {
	t0 := time.Now()
	r := c04Prepare(c, sc, cfg)
	if r == nil {
		c.Count("scenario-skipped:" + cfg)
		return
	}
	L, opOf := r.log.L, r.log.OpOf
	for p := 0; p <= len(L); p++ {
		if plan.stopOnly && p != len(L) && !(p > 0 && opOf[p-1] == len(sc.Ops)) {
			continue
		}
		if plan.prefixEvery > 1 && p%plan.prefixEvery != 0 && p != len(L) && !(p > 0 && touchesHeadOrCanon(L[p-1])) {
			continue
		}
		o := prefixOpts{label: fmt.Sprintf("p%d", p),
			converge: plan.convEvery > 0 && (p%plan.convEvery == 0 || p == len(L)),
			closure:  plan.closureEvery > 0 && (p%plan.closureEvery == 0 || p == len(L))}
		class := r.checkPrefix(L, opOf, p, o)
		nt := ""
		if p > 0 && touchesHeadOrCanon(L[p-1]) {
			nt = fmt.Sprintf("%s/%s/p%d", sc.Name, cfg, p)
		}
		kind := "start"
		if p > 0 {
			kind = r.recKind(L[p-1])
		}
		c.Eval(fmt.Sprintf("prefix:%s:%s:after-%s", cfg, class, kind), nt)
	}
	c.Res.Distribution["reopenings"] += r.nreopen
	c.Res.Distribution["reimports-to-convergence"] += r.nconv
	c.Res.Distribution["closure-roots-iterated"] += r.nclosure
	c.Res.Distribution["closure-trie-nodes-checked"] += r.nnodes
	c.Res.Distribution["resumed-deliveries"] += r.nresume
	c.Res.Distribution["known-a:"+sigHeadBeforeBatch] += r.nKnownA
	c.Res.Distribution["known-b:"+sigCanonBeforeHead] += r.nKnownB
	c.Sample(map[string]interface{}{"scenario": sc.Name, "config": cfg, "blocks": len(sc.Nodes) - 1, "ops": len(sc.Ops), "write_records": len(L), "prefixes_reopened": r.nreopen,
		"log_head": r.t.Ids.Project(append([]Rec(nil), L[:minInt(len(L), 14)]...))})
	t1 := time.Now()
	nfail := 0
	if plan.failEvery > 0 {
		var idx []int
		for n := 1; n <= len(L); n += plan.failEvery {
			if plan.stopOnly && opOf[n-1] != len(sc.Ops) {
				continue
			}
			idx = append(idx, n)
		}
		nfail = len(idx)
		r.failingWrites(idx, jobDir)
	}
	c.Note("%s/%s: %d blocks, %d write records, prefixes %.1fs, %d failing writes %.1fs", sc.Name, cfg, len(sc.Nodes)-1, len(L), t1.Sub(t0).Seconds(), nfail, time.Since(t1).Seconds())
}

func minInt(a, b int) int {
	if a < b {
		return a
	}
	return b
}

// ---------------------------------------------------------------- failing writes (child processes)

type c04Job struct {
	Kind     string    `json:"kind"` // failwrite | triecommit
	Scenario *Scenario `json:"scenario,omitempty"`
	Config   string    `json:"config,omitempty"`
	Blocks   [][]byte  `json:"blocks,omitempty"` // RLP of tree nodes 1.. (saves the child the GenerateChain work)
}

type c04ChildOut struct {
	Status   string `json:"status"` // ok | error | panic | deadlock
	Msg      string `json:"msg"`
	NLogged  int    `json:"nlogged"`
	TreeHash string `json:"treehash,omitempty"`
	Err1     string `json:"err1,omitempty"`
	Err2     string `json:"err2,omitempty"`
}

type c04ChildLog struct {
	L    []Rec
	OpOf []int
}

type childResult struct {
	out     *c04ChildOut // nil: no json line
	exit    string       // "0", "exit N", "timeout", "start: ..."
	outFile string
}

// runChild re-executes this binary as a child with the job file and write index.
func runChild(jobFile string, n int, limit time.Duration) childResult {
	outFile := fmt.Sprintf("%s.w%d.gob", jobFile, n)
	cmd := exec.Command(os.Args[0])
	cmd.Env = append(os.Environ(), c04ChildEnv+"="+jobFile, c04ChildNEnv+"="+strconv.Itoa(n))
	var stdout bytes.Buffer
	cmd.Stdout = &stdout
	cmd.Stderr = nil
	if err := cmd.Start(); err != nil {
		return childResult{exit: "start: " + err.Error(), outFile: outFile}
	}
	done := make(chan error, 1)
	go func() { done <- cmd.Wait() }()
	res := childResult{outFile: outFile}
	select {
	case err := <-done:
		if err == nil {
			res.exit = "0"
		} else if ee, ok := err.(*exec.ExitError); ok {
			res.exit = fmt.Sprintf("exit %d", ee.ExitCode())
		} else {
			res.exit = "wait: " + err.Error()
		}
	case <-time.After(limit):
		cmd.Process.Kill()
		<-done
		res.exit = "timeout"
	}
	for _, line := range strings.Split(stdout.String(), "\n") {
		line = strings.TrimSpace(line)
		if strings.HasPrefix(line, "{") {
			var o c04ChildOut
			if json.Unmarshal([]byte(line), &o) == nil && o.Status != "" {
				res.out = &o
			}
		}
	}
	return res
}

func (r *c04Run) failingWrites(idx []int, jobDir string) {
	c := r.c
	jobFile := filepath.Join(jobDir, fmt.Sprintf("job-%s-%s.json", r.sc.Name, r.cfg))
	job := c04Job{Kind: "failwrite", Scenario: r.sc, Config: r.cfg}
	for _, b := range r.t.Blocks[1:] {
		enc, err := rlp.EncodeToBytes(b)
		if err != nil {
			c.Fatal("cannot encode block: %v", err)
		}
		job.Blocks = append(job.Blocks, enc)
	}
	jb, _ := json.Marshal(job)
	if err := os.WriteFile(jobFile, jb, 0o644); err != nil {
		c.Fatal("cannot write job file: %v", err)
	}
	results := make([]childResult, len(idx))
	workers := runtime.NumCPU()
	if workers > 6 {
		workers = 6
	}
	if workers < 1 {
		workers = 1
	}
	var wg sync.WaitGroup
	next := make(chan int)
	for w := 0; w < workers; w++ {
		wg.Add(1)
		go func() {
			defer wg.Done()
			for i := range next {
				results[i] = runChild(jobFile, idx[i], 25*time.Second)
			}
		}()
	}
	for i := range idx {
		next <- i
	}
	close(next)
	wg.Wait()

	L, opOf := r.log.L, r.log.OpOf
	treeHash := r.t.Blocks[len(r.t.Blocks)-1].Hash().Hex()
	for i, n := range idx {
		res := results[i]
		kind := r.recKind(L[n-1])
		outcome := "process-exit"
		extra := map[string]interface{}{"fail_write": n, "failed_record": r.t.Ids.Project([]Rec{L[n-1]}), "child_exit": res.exit}
		switch {
		case res.exit == "timeout" || (res.out != nil && res.out.Status == "deadlock"):
			outcome = "deadlock"
			msg := "killed by the 25 s watchdog"
			if res.out != nil {
				msg = res.out.Msg
			}
			extra["blocked_in"] = msg
			// the listed lock leak seen through the chain: the failed write is the INTERMEDIATE flush of the preimage
			// loop of trie.Database.Commit (a batch holding only "secure-key-" records, i.e. more than IdealBatchSize of
			// preimages): Commit returns with db.lock read-locked and the next Commit (the next shutdown flush / block) blocks
			preimageFlush := L[n-1].Batch && len(L[n-1].Ops) > 0
			for _, o := range L[n-1].Ops {
				if !(len(o.Key) == 43 && strings.HasPrefix(string(o.Key), "secure-key-")) {
					preimageFlush = false
				}
			}
			if preimageFlush {
				c.Violate(sigCommitRLock, "trie.Database.Commit returns with db.lock read-locked when the intermediate preimage batch write fails; the next Commit blocks forever on db.lock.Lock() (seen through the chain: "+msg+")",
					map[string]interface{}{"scenario": r.sc, "prefix": n - 1, "config": r.cfg, "fail_write": n, "failed_record": "intermediate preimage flush of trie.Database.Commit"})
				break
			}
			c.Violate(fmt.Sprintf("write-failure-deadlock/%s/%s/w%d", r.sc.Name, r.cfg, n), "after one failed database write the import / shutdown never returns: "+msg,
				map[string]interface{}{"scenario": r.sc, "prefix": n - 1, "config": r.cfg, "fail_write": n, "failed_record": extra["failed_record"]})
		case strings.HasPrefix(res.exit, "start:") || strings.HasPrefix(res.exit, "wait:"):
			c.Fatal("child process: %s", res.exit)
		case res.out != nil:
			outcome = res.out.Status
			if res.out.Status == "panic" {
				c.Note("failing write %d (%s) of %s/%s: the import panics: %s", n, kind, r.sc.Name, r.cfg, res.out.Msg)
			}
			if res.out.Status == "ok" && res.out.NLogged == len(L) {
				// the n-th write did not fail?  (the write sequences of parent and child differ)
				c.Note("failing write %d of %s/%s: child logged the complete sequence", n, r.sc.Name, r.cfg)
			}
		}
		c.Eval(fmt.Sprintf("failwrite:%s:%s:%s", r.cfg, outcome, kind), fmt.Sprintf("%s/%s/w%d", r.sc.Name, r.cfg, n))
		// the disk the failed write leaves behind = the writes before it
		r.checkPrefix(L, opOf, n-1, prefixOpts{label: fmt.Sprintf("p%d", n-1), extra: extra})
		// ... and, when the process lived on, whatever it wrote afterwards
		if res.out != nil && res.out.Status != "deadlock" {
			var cl c04ChildLog
			if f, err := os.Open(res.outFile); err == nil {
				derr := gob.NewDecoder(f).Decode(&cl)
				f.Close()
				if derr == nil && res.out.TreeHash == treeHash && len(cl.L) < n-1 {
					c.Fatal("failing write %d of %s/%s: the child logged only %d records before the failure point (it did not replay the history)", n, r.sc.Name, r.cfg, len(cl.L))
				}
				if derr == nil && res.out.TreeHash == treeHash && !sameRecs(cl.L, L[:n-1]) {
					c.Count("failwrite-process-continued:" + r.cfg)
					extra2 := map[string]interface{}{"fail_write": n, "failed_record": extra["failed_record"], "note": "prefix counts the records of the log the process wrote after the failed write was dropped"}
					r.checkPrefix(cl.L, cl.OpOf, len(cl.L), prefixOpts{label: fmt.Sprintf("w%d-after", n), converge: true, closure: true, extra: extra2})
					// ... and every crash point of that continued run: the process swallowed (or returned) the
					// error and went on writing; dying at any later write boundary must still keep the guarantees
					// (in particular: a block InsertChain reported as imported is the head after a restart)
					if len(cl.L)-n <= 64 || c.Thorough() {
						for p := n; p < len(cl.L); p++ {
							r.checkPrefix(cl.L, cl.OpOf, p, prefixOpts{label: fmt.Sprintf("w%d-after-p%d", n, p), closure: true, extra: extra2})
						}
					}
				} else if derr == nil && res.out.TreeHash != treeHash {
					c.Note("child built a different tree (%s vs %s): post-failure log ignored", res.out.TreeHash, treeHash)
				}
			}
		}
		os.Remove(res.outFile)
	}
	os.Remove(jobFile)
}

func sameRecs(a, b []Rec) bool {
	if len(a) != len(b) {
		return false
	}
	for i := range a {
		if a[i].Batch != b[i].Batch || len(a[i].Ops) != len(b[i].Ops) {
			return false
		}
	}
	return true
}

// ---------------------------------------------------------------- the child

func c04Child(jobFile string) {
	raw, err := os.ReadFile(jobFile)
	var job c04Job
	if err != nil || json.Unmarshal(raw, &job) != nil {
		fmt.Fprintln(os.Stderr, "c04 child: bad job file", jobFile, err)
		os.Exit(3)
	}
	emit := func(o c04ChildOut) {
		b, _ := json.Marshal(o)
		fmt.Println(string(b))
		os.Exit(0)
	}
	if job.Kind == "triecommit" {
		emit(c04TrieCommitChild())
	}
	n, _ := strconv.Atoi(os.Getenv(c04ChildNEnv))
	if job.Scenario == nil || n <= 0 || c04CacheConfig(job.Config) == nil {
		fmt.Fprintln(os.Stderr, "c04 child: incomplete job")
		os.Exit(3)
	}
	var t *Tree
	if len(job.Blocks) == len(job.Scenario.Nodes)-1 {
		t = &Tree{Spec: job.Scenario.Nodes, Gspec: GspecFor(job.Scenario.Nodes), Engine: NewDiffEngine(), Blocks: make([]*types.Block, len(job.Scenario.Nodes))}
		t.Config = t.Gspec.Config
		for i, enc := range job.Blocks {
			b := new(types.Block)
			if err := rlp.DecodeBytes(enc, b); err != nil {
				fmt.Fprintln(os.Stderr, "c04 child: bad block", i+1, err)
				os.Exit(3)
			}
			b.SetVersion(t.Config.GetBlockVersion(b.Number()))
			t.Blocks[i+1] = b
		}
	} else {
		cc := &vh.Ctx{Property: "C04", OutDir: filepath.Dir(jobFile), Res: &vh.Result{Property: "C04-child", Distribution: map[string]int{}}}
		t = BuildTree(cc, job.Scenario.Nodes)
	}
	phase := "start"
	done := make(chan *c04Log, 1)
	go func() { done <- c04Import(t, job.Scenario.Ops, job.Config, n, true, &phase) }()
	select {
	case lg := <-done:
		if f, err := os.Create(fmt.Sprintf("%s.w%d.gob", jobFile, n)); err == nil {
			gob.NewEncoder(f).Encode(c04ChildLog{lg.L, lg.OpOf})
			f.Close()
		}
		emit(c04ChildOut{Status: lg.Status, Msg: lg.Msg, NLogged: len(lg.L), TreeHash: t.Blocks[len(t.Blocks)-1].Hash().Hex()})
	case <-time.After(15 * time.Second):
		emit(c04ChildOut{Status: "deadlock", Msg: "blocked in " + phase})
	}
}

// c04TrieCommitChild: directed test of the lock handling of trie.Database.Commit
// when the intermediate preimage batch flush fails.
func c04TrieCommitChild() c04ChildOut {
	d := NewRecDB()
	triedb := trie.NewDatabase(d)
	tr, err := trie.NewSecure(common.Hash{}, triedb, 0)
	if err != nil {
		return c04ChildOut{Status: "error", Msg: "NewSecure: " + err.Error()}
	}
	for i := 0; i < 6000; i++ {
		var b [8]byte
		binary.BigEndian.PutUint64(b[:], uint64(i))
		key := crypto.Keccak256(b[:], []byte("k"))
		val := crypto.Keccak256(b[:], []byte("v"))
		tr.Update(key, val)
	}
	root, err := tr.Commit(nil)
	if err != nil {
		return c04ChildOut{Status: "error", Msg: "trie Commit: " + err.Error()}
	}
	d.SetFailAt(1, false)
	err1 := triedb.Commit(root, false)
	out := c04ChildOut{Err1: fmt.Sprint(err1), NLogged: len(d.Log)}
	done := make(chan error, 1)
	go func() { done <- triedb.Commit(root, false) }()
	select {
	case err2 := <-done:
		out.Status, out.Err2 = "ok", fmt.Sprint(err2)
		if has, _ := d.Has(root.Bytes()); !has && err2 == nil {
			out.Msg = "second Commit returned nil but the root is not on disk"
		}
	case <-time.After(5 * time.Second):
		out.Status, out.Msg = "deadlock", "second trie.Database.Commit did not return within 5 s"
	}
	return out
}

// c04TrieCommitStart launches the directed test in the background (it waits 5 s
// for the deadlock verdict); the returned function evaluates its outcome.
func c04TrieCommitStart(c *vh.Ctx, jobDir string) func() {
	jobFile := filepath.Join(jobDir, "job-triecommit.json")
	jb, _ := json.Marshal(c04Job{Kind: "triecommit"})
	if err := os.WriteFile(jobFile, jb, 0o644); err != nil {
		c.Fatal("cannot write job file: %v", err)
	}
	ch := make(chan childResult, 1)
	go func() { ch <- runChild(jobFile, 0, 25*time.Second) }()
	return func() { c04TrieCommitVerdict(c, <-ch) }
}

func c04TrieCommitVerdict(c *vh.Ctx, res childResult) {
	outcome := res.exit
	if res.out != nil {
		outcome = res.out.Status
	}
	c.Eval("directed:triedb-commit-after-failed-preimage-flush:"+outcome, "directed/triedb-commit")
	replay := map[string]interface{}{"scenario": c04Scripted(), "prefix": 0, "config": "archive", "directed": "triedb-commit",
		"steps": "secure trie with 6000 keys (preimages > aquadb.IdealBatchSize) committed to a trie.Database on a recording disk; first write made to fail; Database.Commit(root) twice", "child_exit": res.exit}
	if res.out != nil {
		replay["first_commit_error"], replay["second_commit_error"], replay["detail"] = res.out.Err1, res.out.Err2, res.out.Msg
	}
	switch {
	case res.out != nil && res.out.Status == "deadlock" || res.exit == "timeout":
		if res.out != nil && res.out.Err1 != ErrInjected.Error() {
			c.Note("triedb directed test: first Commit answered %q, not the injected failure", res.out.Err1)
		}
		c.Violate(sigCommitRLock, "trie.Database.Commit returns with db.lock read-locked when the intermediate preimage batch write fails; the next Commit blocks forever on db.lock.Lock()", replay)
	case res.out == nil:
		c.Fatal("triedb directed test: child gave no result (%s)", res.exit)
	case res.out.Status == "ok" && res.out.Err1 != ErrInjected.Error():
		c.Note("triedb directed test did not reach the failing preimage flush: first Commit answered %q, second %q", res.out.Err1, res.out.Err2)
	case res.out.Status != "ok" || res.out.Msg != "":
		c.Violate("triedb-commit-after-failed-write/"+clip60(res.out.Status+" "+res.out.Msg), "trie.Database.Commit misbehaves after a failed preimage batch write", replay)
	}
}

// ---------------------------------------------------------------- main

// MainC04 is the body of cmd/c04.
func MainC04() {
	if jf := os.Getenv(c04ChildEnv); jf != "" {
		c04Child(jf)
		return
	}
	c := vh.Init("C04")
	if c.ModelBin != "" {
		c04Model = c.StartModel()
		defer c04Model.Close()
	}
	c.Res.Rule = "a case is one crash point: a prefix of the write log (direct puts/deletes and atomic batch flushes, Stop included) of a crash-free run of a history of InsertChain calls over a block tree built with core.GenerateChain (a scripted tree forcing a reorganisation to a longer and to a shorter-but-heavier branch; random trees with branch lengths 1-8, longer-lighter / shorter-heavier / tied branches, shared transactions, invalid and orphan-first deliveries; contracts with code and no storage / with storage and their own code / sharing one code hash / with storage cleared again (archive import, pruning Stop(), clean shutdown); a block whose contract creation writes 4000 storage slots so that ONE trie commit - in WriteBlockWithState on an archive node, in Stop() on a pruning node - is split over several batch flushes, with every prefix inside that commit; thorough: a 150-block chain with a fork so that a pruning node flushes), under archive and pruning cache configurations; the prefix is materialised as a fresh disk, core.NewBlockChain reopens it (panic, error, 10 s watchdog) and the statements are evaluated directly: head = last value written to LastBlock in the prefix (pruning: nearest ancestor with a complete state), complete state iteration at the head root on fresh caches (every account: balance, nonce, whole storage trie, code blob by code hash, hash checked), number index = ancestry below the head, header/body/td of every ancestor, closure of every state root present on disk and of every stored trie node (all its children stored), re-feeding converges - first resumed downloader-style (only what the node lacks, from the first unknown block with a known parent; every offered valid block must end up stored and not heavier than the head), then the whole history - to the total difficulty repeated feeding reaches on the complete disk.  A second kind of case makes the n-th write fail in a child process (log.Crit exits): every write index of one short archive import and of one pruning import + Stop() in the quick tier; 25 s deadlock watchdog, then the same oracle on the writes before the failed one, on the final database of a process that lived on, and on every crash prefix of what that process wrote after the failure (a block InsertChain reported as imported must be the head after a restart).  Non-trivial = the prefix ends right after a write to the head pointer or the number index, or a failing write; distinct by (scenario, configuration, index)"
	c.Assume("LevelDB batches are atomic and writes are ordered; in-memory database stands in for LevelDB")
	c.Assume("header verification by the full-fake engine; tie-break coin controlled through math/rand.Seed (GODEBUG randseednop=0); blocks come from core.GenerateChain")
	c.Assume("convergence reference: the total difficulty that feeding the history repeatedly converges to (a history delivering a child before its parent accepts more on the second feed than the crash-free run did); ties may resolve to either block")
	jobDir, err := os.MkdirTemp(c.OutDir, "c04jobs")
	if err != nil {
		c.Fatal("cannot create job directory: %v", err)
	}
	defer os.RemoveAll(jobDir)
	// (E) lock handling of trie.Database.Commit under a failing preimage flush (runs in the background)
	trieVerdict := c04TrieCommitStart(c, jobDir)

	if c.Replay != "" {
		sc := c04Normalise(LoadReplay(c, c.Replay))
		var f struct {
			Replay struct {
				Config    string `json:"config"`
				FailWrite int    `json:"fail_write"`
			} `json:"replay"`
		}
		raw, _ := os.ReadFile(c.Replay)
		json.Unmarshal(raw, &f)
		cfg := f.Replay.Config
		if c04CacheConfig(cfg) == nil {
			cfg = "archive"
		}
		c04RunScenario(c, sc, cfg, c04Plan{convEvery: 1, closureEvery: 1, prefixEvery: 1}, jobDir)
		if f.Replay.FailWrite > 0 {
			if r := c04Prepare(c, sc, cfg); r != nil && f.Replay.FailWrite <= len(r.log.L) {
				r.failingWrites([]int{f.Replay.FailWrite}, jobDir)
			}
		}
		trieVerdict()
		os.RemoveAll(jobDir)
		c.Finish()
		return
	}

	if os.Getenv("C04_ONLY") == "stop" {
		c04RunScenario(c, c04StopFlush(), "pruning-1-5m", c04Plan{convEvery: 2, closureEvery: 1, prefixEvery: 1, failEvery: 1, stopOnly: true}, jobDir)
		trieVerdict()
		c.Finish()
		return
	}
	if os.Getenv("C04_ONLY") == "big" {
		c04RunScenario(c, c04BigState(), "archive", c04Plan{convEvery: 8, closureEvery: 1, prefixEvery: 1}, jobDir)
		trieVerdict()
		c.Finish()
		return
	}
	// (1) the scripted tree: every prefix, every step on every prefix
	c04RunScenario(c, c04Scripted(), "archive", c04Plan{convEvery: 1, closureEvery: 1, prefixEvery: 1, failEvery: c.Scale(0, 1)}, jobDir)
	// (1b) a state big enough that ONE trie commit is split over several batch flushes: every prefix,
	// closure (root => full iteration; every node => its children) on every prefix; archive import and pruning Stop()
	c04RunScenario(c, c04BigState(), "archive", c04Plan{convEvery: 4, closureEvery: 1, prefixEvery: 1, failEvery: c.Scale(0, 1)}, jobDir)
	c04RunScenario(c, c04BigState(), "pruning-1-5m", c04Plan{convEvery: 4, closureEvery: 1, prefixEvery: 1, failEvery: c.Scale(0, 1)}, jobDir)
	// (1b') contracts: code without storage, shared code, cleared storage; archive import, pruning Stop(), clean shutdown
	c04RunScenario(c, c04Contracts(), "archive", c04Plan{convEvery: 3, closureEvery: 1, prefixEvery: 1}, jobDir)
	c04RunScenario(c, c04Contracts(), "pruning-1-5m", c04Plan{convEvery: 3, closureEvery: 1, prefixEvery: 1}, jobDir)
	// (1b'') every batch flush of a pruning node's Stop() (HEAD, HEAD-1, HEAD-127) made to fail, Stop carrying on as it does
	// (it only logs commit errors); states share most of their dirty nodes; reopen what reached the disk
	c04RunScenario(c, c04StopFlush(), "pruning-1-5m", c04Plan{convEvery: 2, closureEvery: 1, prefixEvery: 1, failEvery: 1, stopOnly: true}, jobDir)
	// (1c) exhaustive failing-write sweep: every write of one short archive import and of one pruning import + Stop()
	c04RunScenario(c, c04Short(), "archive", c04Plan{convEvery: 1, closureEvery: 1, prefixEvery: 1, failEvery: 1}, jobDir)
	c04RunScenario(c, c04Short(), "pruning-1-5m", c04Plan{convEvery: 1, closureEvery: 1, prefixEvery: 1, failEvery: 1}, jobDir)
	if !c.Thorough() {
		sc := c04Normalise(RandomScenario(c.Rng.Fork(), "C02", fmt.Sprintf("seed%d-tree0", c.Seed), 14+c.Rng.Intn(12)))
		c04RunScenario(c, sc, "archive", c04Plan{convEvery: 4, closureEvery: 3, prefixEvery: 1, failEvery: 0}, jobDir)
		c04RunScenario(c, c04Scripted(), "pruning-0-0", c04Plan{convEvery: 2, closureEvery: 1, prefixEvery: 1}, jobDir)
	} else {
		c04RunScenario(c, c04Scripted(), "pruning-0-0", c04Plan{convEvery: 1, closureEvery: 1, prefixEvery: 1, failEvery: 1}, jobDir)
		for i := 0; i < 6; i++ {
			sc := c04Normalise(RandomScenario(c.Rng.Fork(), "C02", fmt.Sprintf("seed%d-tree%d", c.Seed, i), 20+c.Rng.Intn(41)))
			fe := 7
			if i < 2 {
				fe = 1
			}
			c04RunScenario(c, sc, "archive", c04Plan{convEvery: 2, closureEvery: 2, prefixEvery: 1, failEvery: fe}, jobDir)
			pfe := 0
			if i == 0 {
				pfe = 5
			}
			c04RunScenario(c, sc, "pruning-0-0", c04Plan{convEvery: 2, closureEvery: 1, prefixEvery: 1, failEvery: pfe}, jobDir)
			c04RunScenario(c, sc, "pruning-1-5m", c04Plan{convEvery: 3, closureEvery: 1, prefixEvery: 1}, jobDir)
			c.Count(fmt.Sprintf("tree-size:%d0s", (len(sc.Nodes)-1)/10))
		}
		long := c04LongChain(c.Rng.Fork(), 150)
		c04RunScenario(c, long, "pruning-0-0", c04Plan{convEvery: 5, closureEvery: 1, prefixEvery: 1, failEvery: 25}, jobDir)
	}
	trieVerdict()
	os.RemoveAll(jobDir)
	c.Res.Distribution["state-walk:accounts-read"] = statAccounts
	c.Res.Distribution["state-walk:code-blobs-read"] = statCodes
	c.Res.Distribution["state-walk:contracts-with-code-and-no-storage"] = statCodeNoStorage
	c.Finish()
}
