// Package chainlib is the shared Go side of properties C02 / C03 (and C04):
// a recording aquadb.Database, a difficulty-controlled consensus engine, the
// block-tree generator, the runner that drives core.BlockChain and the Coq
// model side by side, and the direct oracles.
package chainlib

import (
	"bytes"
	"encoding/binary"
	"errors"
	"fmt"
	"math/big"
	"strings"
	"sync"

	"gitlab.com/aquachain/aquachain/aquadb"
	"gitlab.com/aquachain/aquachain/common"
	"gitlab.com/aquachain/aquachain/core"
	"gitlab.com/aquachain/aquachain/core/types"
	"gitlab.com/aquachain/aquachain/rlp"
)

// KV is one write inside a record.
type KV struct {
	Del bool
	Key []byte
	Val []byte
}

// Rec is one database write as the chain issued it: a direct Put/Delete or a batch flush.
type Rec struct {
	Batch bool
	Ops   []KV
}

// RecDB wraps a MemDatabase and logs every Put / Delete / Batch.Write in order.
// Failure injection (C04): when FailAt = n > 0, the n-th write record (1-based,
// counted from the moment FailAt was set; direct writes and batch flushes each
// count as one) is NOT applied and NOT logged and returns ErrInjected; every
// later write fails too when FailAfter is set (a dead disk), otherwise they succeed.
type RecDB struct {
	Inner     *aquadb.MemDatabase
	mu        sync.Mutex
	Log       []Rec
	FailAt    int
	FailAfter bool
	nwrites   int
	Failed    int // number of writes that were made to fail
	// OnOp, when set, runs at the start of every database operation (get, has, put, del, batch)
	// on the calling goroutine: the deterministic interleaving device of the race scenarios
	OnOp func(kind string, key []byte)
}

func (d *RecDB) hook(kind string, key []byte) {
	if f := d.OnOp; f != nil {
		f(kind, key)
	}
}

var ErrInjected = errors.New("injected write failure")

func NewRecDB() *RecDB { return &RecDB{Inner: aquadb.NewMemDatabase()} }

// admit decides (under the lock) whether the next write record goes through.
func (d *RecDB) admit(r Rec) bool {
	d.mu.Lock()
	defer d.mu.Unlock()
	d.nwrites++
	if d.FailAt > 0 && (d.nwrites == d.FailAt || (d.FailAfter && d.nwrites > d.FailAt)) {
		d.Failed++
		return false
	}
	d.Log = append(d.Log, r)
	return true
}

// SetFailAt arms the injector: the n-th write from now fails.
func (d *RecDB) SetFailAt(n int, dead bool) {
	d.mu.Lock()
	d.FailAt, d.FailAfter, d.nwrites, d.Failed = n, dead, 0, 0
	d.mu.Unlock()
}

func (d *RecDB) Put(k, v []byte) error {
	d.hook("put", k)
	if !d.admit(Rec{false, []KV{{false, common.CopyBytes(k), common.CopyBytes(v)}}}) {
		return ErrInjected
	}
	return d.Inner.Put(k, v)
}
func (d *RecDB) Delete(k []byte) error {
	d.hook("del", k)
	if !d.admit(Rec{false, []KV{{true, common.CopyBytes(k), nil}}}) {
		return ErrInjected
	}
	return d.Inner.Delete(k)
}

// Snapshot copies the current content of the database.
func (d *RecDB) Snapshot() map[string][]byte {
	m := map[string][]byte{}
	for _, k := range d.Inner.Keys() {
		v, _ := d.Inner.Get(k)
		m[string(k)] = common.CopyBytes(v)
	}
	return m
}

// Materialise builds a fresh recording database holding base + the given
// records applied in order (batches atomically): the disk a crash after
// exactly these writes leaves behind.
func Materialise(base map[string][]byte, recs []Rec) *RecDB {
	d := NewRecDB()
	for k, v := range base {
		d.Inner.Put([]byte(k), v)
	}
	for _, r := range recs {
		for _, o := range r.Ops {
			if o.Del {
				d.Inner.Delete(o.Key)
			} else {
				d.Inner.Put(o.Key, o.Val)
			}
		}
	}
	return d
}
func (d *RecDB) Get(k []byte) ([]byte, error) { d.hook("get", k); return d.Inner.Get(k) }
func (d *RecDB) Has(k []byte) (bool, error)   { d.hook("has", k); return d.Inner.Has(k) }
func (d *RecDB) Close()                       {}
func (d *RecDB) NewBatch() aquadb.Batch       { return &recBatch{db: d} }

// Take returns the records logged since the previous Take.
func (d *RecDB) Take() []Rec {
	d.mu.Lock()
	defer d.mu.Unlock()
	l := d.Log
	d.Log = nil
	return l
}

type recBatch struct {
	db   *RecDB
	ops  []KV
	size int
}

func (b *recBatch) Put(k, v []byte) error {
	b.ops = append(b.ops, KV{false, common.CopyBytes(k), common.CopyBytes(v)})
	b.size += len(v)
	return nil
}
func (b *recBatch) Delete(k []byte) error {
	b.ops = append(b.ops, KV{true, common.CopyBytes(k), nil})
	b.size++
	return nil
}
func (b *recBatch) ValueSize() int { return b.size }
func (b *recBatch) Reset()         { b.ops = b.ops[:0]; b.size = 0 }
func (b *recBatch) Write() error {
	b.db.hook("batch", nil)
	if !b.db.admit(Rec{true, append([]KV(nil), b.ops...)}) {
		return ErrInjected
	}
	ib := b.db.Inner.NewBatch()
	for _, o := range b.ops {
		if o.Del {
			ib.Delete(o.Key)
		} else {
			ib.Put(o.Key, o.Val)
		}
	}
	return ib.Write()
}

// ---------------------------------------------------------------- projection of the log

// Ids maps real hashes to the small ids the model uses.
type Ids struct {
	Block map[common.Hash]int
	Root  map[common.Hash]int
	Tx    map[common.Hash]int
}

func (ids *Ids) B(h common.Hash) string {
	if h == (common.Hash{}) {
		return "0"
	}
	if i, ok := ids.Block[h]; ok {
		return fmt.Sprint(i)
	}
	return "?" + h.Hex()[:10]
}
func (ids *Ids) T(h common.Hash) string {
	if i, ok := ids.Tx[h]; ok {
		return fmt.Sprint(i)
	}
	return "?" + h.Hex()[:10]
}

func hexBig(b *big.Int) string { return fmt.Sprintf("0x%x", b) }

// keyStr classifies a database key by the schema of core/database_util.go and
// renders it as the model's driver does; state (trie node / preimage) keys are "S".
func (ids *Ids) keyStr(k []byte) string {
	switch {
	case bytes.Equal(k, []byte("LastBlock")):
		return "HB"
	case bytes.Equal(k, []byte("LastHeader")):
		return "HH"
	case bytes.Equal(k, []byte("LastFast")):
		return "HF"
	case len(k) == 10 && k[0] == 'h' && k[9] == 'n':
		return fmt.Sprintf("canon:%d", binary.BigEndian.Uint64(k[1:9]))
	case len(k) == 33 && k[0] == 'H':
		return "hn:" + ids.B(common.BytesToHash(k[1:]))
	case len(k) == 41 && k[0] == 'h':
		return "hdr:" + ids.B(common.BytesToHash(k[9:]))
	case len(k) == 42 && k[0] == 'h' && k[41] == 't':
		return "td:" + ids.B(common.BytesToHash(k[9:41]))
	case len(k) == 41 && k[0] == 'b':
		return "body:" + ids.B(common.BytesToHash(k[9:]))
	case len(k) == 41 && k[0] == 'r':
		return "rcpt:" + ids.B(common.BytesToHash(k[9:]))
	case len(k) == 33 && k[0] == 'l':
		return "lk:" + ids.T(common.BytesToHash(k[1:]))
	case len(k) == 32:
		return "S"
	case len(k) == 43 && strings.HasPrefix(string(k), "secure-key-"):
		return "S"
	}
	return fmt.Sprintf("?key:%x", k)
}

func (ids *Ids) valStr(ks string, v []byte) string {
	switch {
	case ks == "HB" || ks == "HH" || ks == "HF" || strings.HasPrefix(ks, "canon:"):
		return "=" + ids.B(common.BytesToHash(v))
	case strings.HasPrefix(ks, "hn:"):
		if len(v) != 8 {
			return "=?"
		}
		return fmt.Sprintf("=0x%x", binary.BigEndian.Uint64(v))
	case strings.HasPrefix(ks, "hdr:"):
		return "=" + ks[4:]
	case strings.HasPrefix(ks, "td:"):
		td := new(big.Int)
		if rlp.DecodeBytes(v, td) != nil {
			return "=?"
		}
		return "=" + hexBig(td)
	case strings.HasPrefix(ks, "body:"):
		var body types.Body
		if rlp.DecodeBytes(v, &body) != nil {
			return "=?"
		}
		return fmt.Sprintf("=%d", len(body.Transactions))
	case strings.HasPrefix(ks, "rcpt:"):
		rs := []*types.ReceiptForStorage{}
		if rlp.DecodeBytes(v, &rs) != nil {
			return "=?"
		}
		return fmt.Sprintf("=%d", len(rs))
	case strings.HasPrefix(ks, "lk:"):
		var e core.TxLookupEntry
		if rlp.DecodeBytes(v, &e) != nil {
			return "=?"
		}
		return fmt.Sprintf("=%s/%d/%d", ids.B(e.BlockHash), e.BlockIndex, e.Index)
	}
	return ""
}

func (ids *Ids) kvStr(o KV) string {
	ks := ids.keyStr(o.Key)
	if ks == "S" {
		return "S"
	}
	if o.Del {
		return "D:" + ks
	}
	return "P:" + ks + ids.valStr(ks, o.Val)
}

// Project renders a log in the driver's format.  Records that only touch state
// keys (trie nodes, preimages) become "S"; consecutive "S" are merged; empty
// batches vanish.
func (ids *Ids) Project(recs []Rec) string {
	var out []string
	push := func(s string) {
		if s == "S" && len(out) > 0 && out[len(out)-1] == "S" {
			return
		}
		out = append(out, s)
	}
	for _, r := range recs {
		if !r.Batch {
			push(ids.kvStr(r.Ops[0]))
			continue
		}
		if len(r.Ops) == 0 {
			continue
		}
		parts := make([]string, 0, len(r.Ops))
		allState := true
		for _, o := range r.Ops {
			s := ids.kvStr(o)
			if s != "S" {
				allState = false
			}
			parts = append(parts, s)
		}
		if allState {
			push("S")
		} else {
			push("B[" + strings.Join(parts, ",") + "]")
		}
	}
	if len(out) == 0 {
		return "-"
	}
	return strings.Join(out, " ")
}

// MergeS merges consecutive "S" tokens of a model log line (the model emits one per block).
func MergeS(line string) string {
	toks := strings.Fields(line)
	var out []string
	for _, t := range toks {
		if t == "S" && len(out) > 0 && out[len(out)-1] == "S" {
			continue
		}
		out = append(out, t)
	}
	if len(out) == 0 {
		return "-"
	}
	return strings.Join(out, " ")
}
